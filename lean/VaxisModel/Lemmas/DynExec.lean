import VaxisModel.Lemmas.DynTrees

/-! `Model/DynExec.lean` run on the statement trees of `Lemmas/DynTrees.lean` IS `Model/DynList.lean`:
    one lemma per method / per phase of `Draw`.  `Props/C19Exec.lean` transfers the statements to the
    regenerated bodies. -/
set_option linter.unusedSimpArgs false
set_option linter.unusedVariables false

namespace VaxisModel.Lemmas.DynExec
open VaxisModel.Model VaxisModel.Model.GoSyn VaxisModel.Model.DynExec VaxisModel.Model.DynList
open VaxisModel.Lemmas VaxisModel.Lemmas.DynTrees

/-- The expected bodies, parsed. -/
def expBodies : Bodies :=
  ⟨seqOf drawParts, seqOf insParts, seqOf nextParts, seqOf prevParts, seqOf ensParts, seqOf hevParts, seqOf cevParts⟩

theorem U_val : (U : Int) = 18446744073709551616 := by unfold U; rfl
theorem U_nat : U = 18446744073709551616 := by unfold U; rfl

/-- `Int.toNat_natCast`, but not a `rfl`-lemma: as a `dsimp` step it makes the kernel unfold `usub …`
    (and then `% 2^64` on a symbolic number) when it re-checks the proof. -/
theorem toNat_cast' (x : Nat) : ((x : Int)).toNat = x := by omega

/-- The simp set that symbolically executes a statement tree. -/
local macro "xs" "[" ts:Lean.Parser.Tactic.simpLemma,* "]" : tactic =>
  `(tactic| simp [exec, atom, evB, evI, look, lookup, fixedEnv, mkM, bi, tagOf, keyTok, store, VaxisModel.Model.DynExec.bind, bindChild, childOf,
      DynExec.ok, retVals, retVal, isU, seqOf, -Int.toNat_natCast, toNat_cast', $ts,*])

/-! ### HandleEvent -/

theorem hev_all (b : Nat → Option Nat) (s : St) (dis : Bool) (ev : Ev) :
    runHandleEvent expBodies b dis ev s = .ok
      (if dis then (s, false)
       else if ev.typ = "vaxis.Mouse" then
         (if ev.button = "vaxis.MouseWheelDown" then wheelDown s
          else if ev.button = "vaxis.MouseWheelUp" then wheelUp s else (s, false))
       else (s, false)) := by
  cases dis
  · by_cases ht : ev.typ = "vaxis.Mouse"
    · by_cases hd : ev.button = "vaxis.MouseWheelDown"
      · xs [runHandleEvent, runHandler, expBodies, roEv, roSmall, hevParts, hev0, hev1, hev2, wheelDown, ht, hd]
      · by_cases hu : ev.button = "vaxis.MouseWheelUp"
        · have hd' : ¬ ("vaxis.MouseWheelDown" = ev.button) := fun h => hd h.symm
          by_cases h1 : s.offset > 0 <;> by_cases h2 : s.top > 0 <;>
          xs [runHandleEvent, runHandler, expBodies, roEv, roSmall, hevParts, hev0, hev1, hev2, wheelUp, ht, hd, hu, h1, h2]
        · have hd' : ¬ ("vaxis.MouseWheelDown" = ev.button) := fun h => hd h.symm
          have hu' : ¬ ("vaxis.MouseWheelUp" = ev.button) := fun h => hu h.symm
          xs [runHandleEvent, runHandler, expBodies, roEv, roSmall, hevParts, hev0, hev1, hev2, ht, hd, hu, hd', hu']
    · have ht' : ¬ ("vaxis.Mouse" = ev.typ) := fun h => ht h.symm
      xs [runHandleEvent, runHandler, expBodies, roEv, roSmall, hevParts, hev0, hev1, hev2, ht, ht']
  · xs [runHandleEvent, runHandler, expBodies, roEv, roSmall, hevParts, hev0, hev1, hev2]

/-! ### ensureScroll, NextItem, PrevItem -/

theorem toUint_cast (n : Nat) (h : n < 2 ^ 64) : DynInterp.toUint (n : Int) = n := by
  unfold DynInterp.toUint; rw [U_val]; omega

theorem ens_exec (R : Ro) (m : M) (f : Nat) (hc : m.st.cursor < 2 ^ 64) :
    exec R (seqOf ensParts) f m = .ok
      (if m.st.cursor > m.st.top then ({ m with st := { m.st with wantsCursor := true } }, .ret [])
       else ({ m with st := { m.st with top := m.st.cursor, offset := 0, pending := 0 } }, .norm)) := by
  by_cases h : m.st.cursor > m.st.top
  · xs [ensParts, ens0, ens1, ens2, ens3, h]
  · xs [ensParts, ens0, ens1, ens2, ens3, h, toUint_cast _ hc]

/-- What a callee's caller sees of a result. -/
def proj (r : Res) : Option (St × List Child × Ctl) :=
  match r with
  | .ok (m, c) => some (m.st, m.cs, c)
  | .error _ => Option.none

theorem toUintI_add1 (c : Nat) : uaddI (c : Int) 1 = ((uadd c 1 : Nat) : Int) := by
  unfold uaddI toUintI uadd; rw [U_val, U_nat]; omega

theorem toUintI_sub1 (c : Nat) (hc : c < 2 ^ 64) : usubI (c : Int) 1 = ((usub c 1 : Nat) : Int) := by
  unfold usubI toUintI usub; rw [U_val, U_nat]; omega

theorem uadd_lt (a b : Nat) : uadd a b < 2 ^ 64 := by unfold uadd; rw [U_nat]; omega
theorem usub_lt (a b : Nat) : usub a b < 2 ^ 64 := by unfold usub; rw [U_nat]; omega

theorem toUint_uadd (a b : Nat) : DynInterp.toUint ((uadd a b : Nat) : Int) = uadd a b := toUint_cast _ (uadd_lt a b)
theorem toUint_usub (a b : Nat) : DynInterp.toUint ((usub a b : Nat) : Int) = usub a b := toUint_cast _ (usub_lt a b)

theorem next_exec (hs : List Nat) (dis : Bool) (ev : Ev) (mf : String) (m : M) (f : Nat) (hc : m.st.cursor < 2 ^ 64) :
    proj (exec (roSmall expBodies (builder hs) dis ev mf) (seqOf nextParts) f m) =
      some ((nextItem hs m.st).1, m.cs, .ret [bi (nextItem hs m.st).2]) := by
  have he := fun R => ens_exec R { m with st := { m.st with cursor := uadd m.st.cursor 1 }, ρ := [], us := [] } f (uadd_lt _ _)
  unfold nextItem
  cases hb : builder hs (uadd m.st.cursor 1) with
  | none => xs [proj, roSmall, expBodies, nextParts, next0, next1, next2, next3, next4, toUintI_add1, hb]
  | some h =>
    xs [proj, roSmall, expBodies, nextParts, next0, next1, next2, next3, next4, toUintI_add1, toUint_uadd, hb, ensureCallee, callMethod]
    simp [he]
    by_cases h : uadd m.st.cursor 1 > m.st.top <;> simp [h, ensureScroll, proj, retVals, retVal]

theorem prev_zero (hs : List Nat) (dis : Bool) (ev : Ev) (mf : String) (m : M) (f : Nat) (h0 : m.st.cursor = 0) :
    proj (exec (roSmall expBodies (builder hs) dis ev mf) (seqOf prevParts) f m) = some (m.st, m.cs, .ret [0]) := by
  xs [proj, roSmall, expBodies, prevParts, prev0, prev1, prev2, prev3, prev4, prev5, h0]

theorem prev_none (hs : List Nat) (dis : Bool) (ev : Ev) (mf : String) (m : M) (f : Nat) (x : Nat) (h0 : ¬ m.st.cursor = 0)
    (h1 : usubI ↑m.st.cursor 1 = ↑x) (hb : builder hs x = none) :
    proj (exec (roSmall expBodies (builder hs) dis ev mf) (seqOf prevParts) f m) = some (m.st, m.cs, .ret [0]) := by
  have h0' : ¬ ((m.st.cursor : Int) = 0) := by omega
  xs [proj, roSmall, expBodies, prevParts, prev0, prev1, prev2, prev3, prev4, prev5, h1, hb, h0, h0']

theorem prev_some (hs : List Nat) (dis : Bool) (ev : Ev) (mf : String) (m : M) (f : Nat) (x h : Nat) (h0 : ¬ m.st.cursor = 0)
    (h1 : usubI ↑m.st.cursor 1 = ↑x) (hlt : x < 2 ^ 64) (hb : builder hs x = some h) :
    proj (exec (roSmall expBodies (builder hs) dis ev mf) (seqOf prevParts) f m) =
      some (ensureScroll { m.st with cursor := x }, m.cs, .ret [1]) := by
  have h0' : ¬ ((m.st.cursor : Int) = 0) := by omega
  have he := fun R => ens_exec R { m with st := { m.st with cursor := x }, ρ := [], us := [] } f hlt
  xs [proj, roSmall, expBodies, prevParts, prev0, prev1, prev2, prev3, prev4, prev5, h1, toUint_cast _ hlt, hb, h0, h0', ensureCallee, callMethod]
  simp [he]
  by_cases h : x > m.st.top <;> simp [h, ensureScroll, proj, retVals, retVal]

theorem prev_exec (hs : List Nat) (dis : Bool) (ev : Ev) (mf : String) (m : M) (f : Nat) (hc : m.st.cursor < 2 ^ 64) :
    proj (exec (roSmall expBodies (builder hs) dis ev mf) (seqOf prevParts) f m) =
      some ((prevItem hs m.st).1, m.cs, .ret [bi (prevItem hs m.st).2]) := by
  unfold prevItem
  by_cases h0 : m.st.cursor = 0
  · rw [if_pos h0]; simp only [bi, Bool.false_eq_true, ↓reduceIte]; exact prev_zero hs dis ev mf m f h0
  · rw [if_neg h0]
    cases hb : builder hs (usub m.st.cursor 1) with
    | none =>
      simp only [bi, Bool.false_eq_true, ↓reduceIte]
      exact prev_none hs dis ev mf m f _ h0 (toUintI_sub1 _ hc) hb
    | some h =>
      simp only [bi, ↓reduceIte]
      exact prev_some hs dis ev mf m f _ h h0 (toUintI_sub1 _ hc) (usub_lt _ _) hb

/-! ### CaptureEvent -/

def ctlVals : Ctl → List Int
  | .ret vs => vs
  | _ => []

theorem callMethod_proj (R : Ro) (f : Nat) (m : M) (name : String) (args : List Int) (g : List Int → Nat → M → Res)
    (hg : R.call name = some g) (st' : St) (cs' : List Child) (c : Ctl)
    (h : proj (g args f { m with ρ := [], us := [] }) = some (st', cs', c)) :
    callMethod R f m name args = .ok ({ m with st := st', cs := cs' }, ctlVals c) := by
  unfold callMethod
  rw [hg]
  cases hr : g args f { m with ρ := [], us := [] } with
  | error e => rw [hr] at h; simp [proj] at h
  | ok r =>
    obtain ⟨m', c'⟩ := r
    rw [hr] at h
    simp only [proj, Option.some.injEq, Prod.mk.injEq] at h
    obtain ⟨h1, h2, h3⟩ := h
    subst h1 h2 h3
    cases c' <;> simp [ctlVals, hr]

theorem roEv_disable (B : Bodies) (b : Nat → Option Nat) (dis : Bool) (ev : Ev) (mf : String) : (roEv B b dis ev mf).disable = dis := rfl
theorem roEv_ev (B : Bodies) (b : Nat → Option Nat) (dis : Bool) (ev : Ev) (mf : String) : (roEv B b dis ev mf).ev = ev := rfl
theorem roEv_matchFn (B : Bodies) (b : Nat → Option Nat) (dis : Bool) (ev : Ev) (mf : String) : (roEv B b dis ev mf).matchFn = mf := rfl
theorem exp_cev : expBodies.captureEvent = seqOf cevParts := rfl

theorem cev_all (hs : List Nat) (s : St) (dis : Bool) (ev : Ev) (hc : s.cursor < 2 ^ 64) :
    runCaptureEvent expBodies (builder hs) dis ev s = .ok
      (if dis then (s, false)
       else if ev.typ = "vaxis.Key" then
         (if "'j'" ∈ ev.keys ∨ "vaxis.KeyDown" ∈ ev.keys then nextItem hs s
          else if "'k'" ∈ ev.keys ∨ "vaxis.KeyUp" ∈ ev.keys then prevItem hs s else (s, false))
       else (s, false)) := by
  cases dis
  · by_cases ht : ev.typ = "vaxis.Key"
    · have hn := callMethod_proj (roEv expBodies (builder hs) false ev "v1.Matches") 1 ⟨s, [], [], [], "vaxis.Key"⟩ "d.NextItem" [] _ rfl _ _ _
        (next_exec hs false ev "v1.Matches" ⟨s, [], [], [], "vaxis.Key"⟩ 1 hc)
      have hp := callMethod_proj (roEv expBodies (builder hs) false ev "v1.Matches") 1 ⟨s, [], [], [], "vaxis.Key"⟩ "d.PrevItem" [] _ rfl _ _ _
        (prev_exec hs false ev "v1.Matches" ⟨s, [], [], [], "vaxis.Key"⟩ 1 hc)
      have hnn : (nextItem hs s).2 = false → (nextItem hs s).1 = s := by
        unfold nextItem; split <;> simp
      have hpn : (prevItem hs s).2 = false → (prevItem hs s).1 = s := by
        unfold prevItem; split; · simp
        split <;> simp
      generalize nextItem hs s = rn at hn hnn ⊢
      generalize prevItem hs s = rp at hp hpn ⊢
      obtain ⟨sn, bn⟩ := rn
      obtain ⟨sp, bp⟩ := rp
      simp only [ctlVals] at hn hp
      by_cases hj : "'j'" ∈ ev.keys
      · cases bn <;>
        xs [runCaptureEvent, runHandler, exp_cev, roEv_disable, roEv_ev, roEv_matchFn, cevParts, cev0, cev1, cev2, ht, hj, hn, hnn]
      · by_cases hd : "vaxis.KeyDown" ∈ ev.keys
        · cases bn <;>
          xs [runCaptureEvent, runHandler, exp_cev, roEv_disable, roEv_ev, roEv_matchFn, cevParts, cev0, cev1, cev2, ht, hj, hd, hn, hnn]
        · by_cases hk : "'k'" ∈ ev.keys
          · cases bp <;>
            xs [runCaptureEvent, runHandler, exp_cev, roEv_disable, roEv_ev, roEv_matchFn, cevParts, cev0, cev1, cev2, ht, hj, hd, hk, hp, hpn]
          · by_cases hu : "vaxis.KeyUp" ∈ ev.keys
            · cases bp <;>
              xs [runCaptureEvent, runHandler, exp_cev, roEv_disable, roEv_ev, roEv_matchFn, cevParts, cev0, cev1, cev2, ht, hj, hd, hk, hu, hp, hpn]
            · xs [runCaptureEvent, runHandler, exp_cev, roEv_disable, roEv_ev, roEv_matchFn, cevParts, cev0, cev1, cev2, ht, hj, hd, hk, hu]
    · have ht' : ¬ ("vaxis.Key" = ev.typ) := fun h => ht h.symm
      xs [runCaptureEvent, runHandler, expBodies, roEv, roSmall, cevParts, cev0, cev1, cev2, ht, ht']
  · xs [runCaptureEvent, runHandler, expBodies, roEv, roSmall, cevParts, cev0, cev1, cev2]

/-! ### insertChildren -/

def insBody : Stmt := match ins3 with | .loop _ b _ => b | _ => .skip
def insCond : Expr := match ins3 with | .loop c _ _ => c | _ => .none

theorem ins3_eq : ins3 = .loop insCond insBody .skip := rfl

/-- The locals after one iteration of the loop of `insertChildren` that inserted widget `t` of height
    `h` at row `r`. -/
def insRho (t h : Nat) (r : Int) (ρ : List (String × Int)) : List (String × Int) :=
  ("v8.Surface.Widget", (t : Int)) :: ("v8.Surface.Size.Height", (h : Int)) :: ("v8.Origin.Row", r) :: ("v2", r) ::
  ("v7", 0) :: ("v6.Widget", (t : Int)) :: ("v6.Size.Height", (h : Int)) :: ("v5.Draw.Widget", (t : Int)) ::
  ("v5.Draw.Size.Height", (h : Int)) :: ("v5", 1) :: ("v4", 1) :: ρ

theorem ins_cond (R : Ro) (st : St) (acc : List Child) (ρ : List (String × Int)) (tag : String) (ah : Int)
    (hv : lookup ρ "v2" = some ah) :
    evB R ⟨st, acc, ρ, [], tag⟩ insCond = some (decide (ah > 0)) := by
  xs [insCond, ins3, hv]

theorem ins_body_nil (R : Ro) (hs : List Nat) (hb : R.b = builder hs) (st : St) (acc : List Child) (ρ : List (String × Int))
    (tag : String) (F : Nat) (hbt : builder hs st.top = none) :
    exec R insBody F ⟨st, acc, ρ, [], tag⟩ = .ok (⟨st, acc, ("v5", 0) :: ("v4", 1) :: ρ, [], tag⟩, .brk) := by
  xs [insBody, ins3, hb, hbt]

theorem ins_body_stop (R : Ro) (hs : List Nat) (hb : R.b = builder hs) (st : St) (acc : List Child) (ρ : List (String × Int))
    (tag : String) (F : Nat) (ah : Int) (h : Nat) (hv : lookup ρ "v2" = some ah) (hbt : builder hs st.top = some h)
    (hstop : st.top = 0 ∨ ah - (↑h + R.gap) ≤ 0) :
    exec R insBody F ⟨st, acc, ρ, [], tag⟩ =
      .ok (⟨st, { idx := st.top, row := ah - (↑h + R.gap), height := h } :: acc, insRho st.top h (ah - (↑h + R.gap)) ρ, [], tag⟩, .brk) := by
  rcases hstop with h0 | h2
  · have hbt0 := hbt
    rw [h0] at hbt0
    xs [insBody, ins3, hb, hv, hbt0, h0, insRho]
  · by_cases h0 : st.top = 0
    · have hbt0 := hbt
      rw [h0] at hbt0
      xs [insBody, ins3, hb, hv, hbt0, h0, insRho]
    · have h0' : ¬ ((st.top : Int) = 0) := by omega
      xs [insBody, ins3, hb, hv, hbt, h0, h0', h2, insRho]

theorem ins_body_go (R : Ro) (hs : List Nat) (hb : R.b = builder hs) (st : St) (acc : List Child) (ρ : List (String × Int))
    (tag : String) (F : Nat) (ah : Int) (h x : Nat) (hv : lookup ρ "v2" = some ah) (hbt : builder hs st.top = some h)
    (hx : usubI ↑st.top 1 = ↑x) (hxl : x < 2 ^ 64) (hgo : ¬ (st.top = 0 ∨ ah - (↑h + R.gap) ≤ 0)) :
    exec R insBody F ⟨st, acc, ρ, [], tag⟩ =
      .ok (⟨{ st with top := x }, { idx := st.top, row := ah - (↑h + R.gap), height := h } :: acc,
            insRho st.top h (ah - (↑h + R.gap)) ρ, [], tag⟩, .norm) := by
  have h0 : ¬ (st.top = 0) := by omega
  have h0' : ¬ ((st.top : Int) = 0) := by omega
  have h2 : ¬ (ah - (↑h + R.gap) ≤ 0) := by omega
  xs [insBody, ins3, hb, hv, hbt, hx, toUint_cast _ hxl, h0, h0', h2, insRho]

theorem usub_one (t : Nat) (h0 : t ≠ 0) (hlt : t < 2 ^ 64) : usub t 1 = t - 1 := by
  unfold usub; rw [U_nat]; omega

theorem ins_loop (R : Ro) (hs : List Nat) (hb : R.b = builder hs) :
    ∀ (n : Nat) (st : St) (acc : List Child) (ρ : List (String × Int)) (tag : String) (F : Nat) (ah : Int),
      st.top < 2 ^ 64 → st.top < n → st.top + 2 ≤ F → lookup ρ "v2" = some ah →
      ∃ ρ', loopN (fun m => evB R m insCond) (exec R insBody) (exec R .skip) F ⟨st, acc, ρ, [], tag⟩ =
          .ok (⟨{ st with top := (insertLoop true R.gap hs n st.top ah acc).1 },
                (insertLoop true R.gap hs n st.top ah acc).2.2, ρ', [], tag⟩, .norm) ∧
        lookup ρ' "v2" = some (insertLoop true R.gap hs n st.top ah acc).2.1 := by
  intro n
  induction n with
  | zero => intro st acc ρ tag F ah _ h; omega
  | succ n ih =>
    intro st acc ρ tag F ah hlt hn hF hv
    obtain ⟨F', rfl⟩ : ∃ F', F = F' + 1 := ⟨F - 1, by omega⟩
    rw [loopN]
    simp only [ins_cond R st acc ρ tag ah hv]
    unfold insertLoop
    by_cases hah : ah > 0
    · simp only [hah, decide_true, ↓reduceIte]
      cases hbt : builder hs st.top with
      | none =>
        rw [ins_body_nil R hs hb st acc ρ tag F' hbt]
        exact ⟨_, rfl, by simp [lookup, hv]⟩
      | some h =>
        simp only []
        by_cases hstop : st.top = 0 ∨ ah - (↑h + R.gap) ≤ 0
        · rw [ins_body_stop R hs hb st acc ρ tag F' ah h hv hbt hstop]
          have hm : (st.top = 0 ∨ (True ∧ ah - (↑h + R.gap) ≤ 0)) := hstop.imp id (fun h => ⟨trivial, h⟩)
          simp only [hm, ↓reduceIte]
          exact ⟨_, rfl, by simp [insRho, lookup]⟩
        · rw [ins_body_go R hs hb st acc ρ tag F' ah h (usub st.top 1) hv hbt (toUintI_sub1 _ hlt) (usub_lt _ _) hstop]
          have hm : ¬ (st.top = 0 ∨ (True ∧ ah - (↑h + R.gap) ≤ 0)) := fun h => hstop (h.imp id (fun h => h.2))
          simp only [hm, ↓reduceIte, exec]
          have h0 : st.top ≠ 0 := fun h => hstop (Or.inl h)
          have hu := usub_one st.top h0 hlt
          obtain ⟨ρ', h1, h2⟩ := ih { st with top := usub st.top 1 } ({ idx := st.top, row := ah - (↑h + R.gap), height := h } :: acc)
            (insRho st.top h (ah - (↑h + R.gap)) ρ) tag F' (ah - (↑h + R.gap)) (usub_lt _ _)
            (by show usub st.top 1 < n; omega) (by show usub st.top 1 + 2 ≤ F'; omega) (by simp [insRho, lookup])
          exact ⟨ρ', h1, h2⟩
    · simp only [hah, decide_false, ↓reduceIte]
      exact ⟨ρ, rfl, hv⟩

/-! #### the restacking loop of `insertChildren` -/

def rsBody : Stmt := match ins5 with | .ite _ (.seq _ (.seq _ (.seq (.range _ _ b) _))) _ => b | _ => .skip

def rsRho (i : Nat) (c : Child) (row g : Int) (ρ : List (String × Int)) : List (String × Int) :=
  ("v9", row + (↑c.height + g)) :: ("v11.Origin.Row", row) :: ("v11.Surface.Widget", (c.idx : Int)) ::
  ("v11.Surface.Size.Height", (c.height : Int)) :: ("v11.Origin.Row", c.row) :: ("v10", (i : Int)) :: ρ

theorem rs_body (R : Ro) (st : St) (cs : List Child) (ρ : List (String × Int)) (tag : String)
    (F : Nat) (i : Nat) (c : Child) (row : Int) (hi : i < cs.length) (hv : lookup ρ "v9" = some row) :
    exec R rsBody F (bindChild (VaxisModel.Model.DynExec.bind ⟨st, cs, ρ, [], tag⟩ "v10" i) "v11" c) =
      .ok (⟨st, cs.set i { c with row := row }, rsRho i c row R.gap ρ, [], tag⟩, .norm) := by
  have hi' : ¬ (cs.length ≤ i) := by omega
  have hneg : ¬ ((i : Int) < 0) := by omega
  xs [rsBody, ins5, hv, hi', hneg, setAt, rsRho]

theorem restack_range (R : Ro) (st : St) (tag : String) (F : Nat) :
    ∀ (suf pre : List Child) (ρ : List (String × Int)) (row : Int), lookup ρ "v9" = some row →
      ∃ ρ', rangeN "v10" "v11" (exec R rsBody F) suf.length pre.length ⟨st, pre ++ suf, ρ, [], tag⟩ =
        .ok (⟨st, pre ++ restack R.gap row suf, ρ', [], tag⟩, .norm) := by
  intro suf
  induction suf with
  | nil => intro pre ρ row _; exact ⟨ρ, rfl⟩
  | cons c rest ih =>
    intro pre ρ row hv
    have hget : (pre ++ c :: rest)[pre.length]? = some c := by simp
    have hlen : pre.length < (pre ++ c :: rest).length := by simp
    simp only [List.length_cons, rangeN, hget]
    rw [rs_body R st (pre ++ c :: rest) ρ tag F pre.length c row hlen hv]
    simp only []
    have hset : (pre ++ c :: rest).set pre.length { c with row := row } = (pre ++ [{ c with row := row }]) ++ rest := by
      simp
    rw [hset]
    obtain ⟨ρ', h⟩ := ih (pre ++ [{ c with row := row }]) (rsRho pre.length c row R.gap ρ) (row + (↑c.height + R.gap))
      (by simp [rsRho, lookup])
    refine ⟨ρ', ?_⟩
    have hl : (pre ++ [{ c with row := row }]).length = pre.length + 1 := by simp
    rw [hl] at h
    rw [h]
    simp [restack]

/-! #### the whole of `insertChildren` -/

theorem seqOf_cons (R : Ro) (a : Stmt) (r : List Stmt) (f : Nat) (m : M) :
    exec R (seqOf (a :: r)) f m = (match exec R a f m with
      | .ok (m', .norm) => exec R (seqOf r) f m'
      | x => x) := by
  simp only [seqOf, exec]
  rfl

def ins5c : Expr := match ins5 with | .ite c _ _ => c | _ => .none
def ins5a : Stmt := match ins5 with | .ite _ (.seq a _) _ => a | _ => .skip
def ins5b : Stmt := match ins5 with | .ite _ (.seq _ (.seq a _)) _ => a | _ => .skip
def ins5r : Stmt := match ins5 with | .ite _ (.seq _ (.seq _ (.seq _ (.seq a _)))) _ => a | _ => .skip
theorem ins5_eq : ins5 = .ite ins5c (.seq ins5a (.seq ins5b (.seq (.range "v10" "v11" rsBody) (.seq ins5r .skip)))) .skip := rfl

theorem ins_tail (R : Ro) (st : St) (cs : List Child) (ρ : List (String × Int)) (tag : String) (F : Nat) (a : Int)
    (hv : lookup ρ "v2" = some a) :
    proj (exec R (seqOf [ins4, ins5, ins6]) F ⟨st, cs, ρ, [], tag⟩) =
      some (if st.top = 0 ∧ a > 0 then ({ st with offset := 0 }, restack R.gap 0 cs, .ret [0])
            else ({ st with offset := a }, cs, .ret [0])) := by
  by_cases h : st.top = 0 ∧ a > 0
  · obtain ⟨ht, ha⟩ := h
    obtain ⟨cursor, top, offset, pending, wants⟩ := st
    simp only at ht
    subst ht
    obtain ⟨ρ', hr⟩ := restack_range R ⟨cursor, 0, 0, pending, wants⟩ tag F cs [] (("v9", 0) :: ρ) 0 (by simp [lookup])
    simp only [List.nil_append, List.length_nil] at hr
    rw [ins5_eq]
    xs [ins4, ins5c, ins5a, ins5b, ins5r, ins5, ins6, hv, ha, proj]
    rw [hr]
  · by_cases h0 : st.top = 0
    · have h2 : ¬ (a > 0) := fun h' => h ⟨h0, h'⟩
      have h2' : ¬ (0 < a) := h2
      xs [ins4, ins5, ins6, hv, h, h0, h2, h2', proj]
    · have h1 : ¬ ((st.top : Int) = 0) := by omega
      xs [ins4, ins5, ins6, hv, h, h0, h1, proj]

theorem exec_loop (R : Ro) (c : Expr) (b p : Stmt) (f : Nat) (m : M) :
    exec R (.loop c b p) f m = loopN (fun m => evB R m c) (exec R b) (exec R p) f m := rfl

def insRho0 (dc : Bool) (ah : Int) : List (String × Int) :=
  if dc then [("v3", 2), ("v3", 0), ("v2", ah)] else [("v3", 0), ("v2", ah)]

theorem ins_pre (R : Ro) (st : St) (tag : String) (F : Nat) (ah : Int) (x : Nat)
    (hx : usubI ↑st.top 1 = ↑x) (hxl : x < 2 ^ 64) (rest : List Stmt) :
    exec R (seqOf (ins0 :: ins1 :: ins2 :: rest)) F ⟨st, [], [("v2", ah)], [], tag⟩ =
      exec R (seqOf rest) F ⟨{ st with top := x }, [], insRho0 R.drawCursor ah, [], tag⟩ := by
  cases hd : R.drawCursor <;>
  xs [ins0, ins1, ins2, hx, toUint_cast _ hxl, hd, insRho0]

/-- **`insertChildren(ctx, &s, ah)`, executed**: new `top`, new `offset` and the children are
    `DynList.insertChildren` (called with `top ≥ 1`, as `Draw` does; fuel: one unit per widget above). -/
theorem ins_exec (R : Ro) (hs : List Nat) (hb : R.b = builder hs) (st : St) (tag : String) (F : Nat) (ah : Int)
    (h1 : 1 ≤ st.top) (hlt : st.top < 2 ^ 64) (hF : st.top + 1 ≤ F) :
    proj (exec R (seqOf insParts) F ⟨st, [], [("v2", ah)], [], tag⟩) =
      some ({ st with top := (insertChildren true R.gap hs st.top ah).1, offset := (insertChildren true R.gap hs st.top ah).2.1 },
            (insertChildren true R.gap hs st.top ah).2.2, .ret [0]) := by
  have hu := usub_one st.top (by omega) hlt
  unfold insParts
  rw [ins_pre R st tag F ah (usub st.top 1) (toUintI_sub1 _ hlt) (usub_lt _ _)]
  obtain ⟨ρ', hl, hv⟩ := ins_loop R hs hb st.top { st with top := usub st.top 1 } [] (insRho0 R.drawCursor ah) tag F ah
    (usub_lt _ _) (by show usub st.top 1 < st.top; omega) (by show usub st.top 1 + 2 ≤ F; omega)
    (by unfold insRho0; cases R.drawCursor <;> simp [lookup])
  simp only [] at hl hv
  rw [seqOf_cons, ins3_eq, exec_loop, hl]
  simp only []
  rw [ins_tail R _ _ ρ' tag F _ hv]
  unfold insertChildren
  simp only []
  split <;> rfl

/-! ### Draw -/

/-! #### the walk back to an existing top widget -/

def clBody : Stmt := match draw2 with | .loop _ b _ => b | _ => .skip
def clCond : Expr := match draw2 with | .loop c _ _ => c | _ => .none
theorem draw2_eq : draw2 = .loop clCond clBody .skip := rfl

theorem cl_cond (R : Ro) (hs : List Nat) (hb : R.b = builder hs) (m : M) :
    evB R m clCond = some (decide (m.st.top > 0) && (builder hs m.st.top).isNone) := by
  by_cases h : m.st.top > 0
  · have h' : (0 : Int) < m.st.top := by omega
    xs [clCond, draw2, hb, h, h']
  · have h' : ¬ ((0 : Int) < m.st.top) := by omega
    xs [clCond, draw2, hb, h, h']

theorem cl_body (R : Ro) (m : M) (F : Nat) (x : Nat) (hx : usubI ↑m.st.top 1 = ↑x) (hxl : x < 2 ^ 64) :
    exec R clBody F m = .ok ({ m with st := { m.st with top := x, offset := 0 } }, .norm) := by
  xs [clBody, draw2, hx, toUint_cast _ hxl]

theorem exec_skip (R : Ro) (f : Nat) (m : M) : exec R .skip f m = .ok (m, .norm) := rfl

theorem cl_loop (R : Ro) (hs : List Nat) (hb : R.b = builder hs) (cursor : Nat) (pending : Int) (wants : Bool)
    (cs : List Child) (ρ : List (String × Int)) (us : List String) (tag : String) :
    ∀ (n top : Nat) (offset : Int) (F : Nat), top < 2 ^ 64 → top ≤ n → top + 1 ≤ F →
      loopN (fun m => evB R m clCond) (exec R clBody) (exec R .skip) F ⟨⟨cursor, top, offset, pending, wants⟩, cs, ρ, us, tag⟩ =
        .ok (⟨⟨cursor, (clampLoop hs n top offset).1, (clampLoop hs n top offset).2, pending, wants⟩, cs, ρ, us, tag⟩, .norm) := by
  intro n
  induction n with
  | zero =>
    intro top offset F hlt hn hF
    obtain ⟨F', rfl⟩ : ∃ F', F = F' + 1 := ⟨F - 1, by omega⟩
    have h0 : decide (top > 0) = false := by simp; omega
    rw [loopN, cl_cond R hs hb]
    simp only [h0, Bool.false_and, clampLoop]
  | succ n ih =>
    intro top offset F hlt hn hF
    obtain ⟨F', rfl⟩ : ∃ F', F = F' + 1 := ⟨F - 1, by omega⟩
    rw [loopN, cl_cond R hs hb]
    unfold clampLoop
    by_cases hc : top > 0 ∧ builder hs top = none
    · have hu := usub_one top (Nat.ne_of_gt hc.1) hlt
      simp only [hc.1, hc.2, decide_true, Option.isNone_none, Bool.and_self, and_self, ↓reduceIte]
      rw [cl_body R ⟨⟨cursor, top, offset, pending, wants⟩, cs, ρ, us, tag⟩ F' (usub top 1) (toUintI_sub1 top hlt) (usub_lt _ _)]
      simp only []
      rw [exec_skip]
      simp only []
      exact ih (usub top 1) 0 F' (usub_lt _ _) (by omega) (by omega)
    · have : (decide (top > 0) && (builder hs top).isNone) = false := by
        by_cases h1 : top > 0
        · have : ¬ builder hs top = none := fun h => hc ⟨h1, h⟩
          cases hb' : builder hs top with
          | none => exact absurd hb' this
          | some _ => simp
        · simp [h1]
      simp only [this, hc, ↓reduceIte]

end VaxisModel.Lemmas.DynExec
