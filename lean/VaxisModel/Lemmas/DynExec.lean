import VaxisModel.Lemmas.DynTrees

/-! `Model/DynExec.lean` run on the statement trees of `Lemmas/DynTrees.lean` IS `Model/DynList.lean`:
    one lemma per method / per phase of `Draw`.  `Props/C19Exec.lean` transfers the statements to the
    regenerated bodies. -/
set_option linter.unusedSimpArgs false
set_option linter.unusedVariables false

namespace VaxisModel.Lemmas.DynExec
open VaxisModel.Model VaxisModel.Model.GoSyn VaxisModel.Model.DynExec VaxisModel.Model.DynList
open VaxisModel.Lemmas VaxisModel.Lemmas.DynTrees

/-- The expected bodies, parsed. -/
def expBodies : Bodies :=
  ⟨seqOf drawParts, seqOf insParts, seqOf nextParts, seqOf prevParts, seqOf ensParts, seqOf hevParts, seqOf cevParts⟩

theorem U_val : (U : Int) = 18446744073709551616 := by unfold U; rfl
theorem U_nat : U = 18446744073709551616 := by unfold U; rfl

/-- `Int.toNat_natCast`, but not a `rfl`-lemma: as a `dsimp` step it makes the kernel unfold `usub …`
    (and then `% 2^64` on a symbolic number) when it re-checks the proof. -/
theorem toNat_cast' (x : Nat) : ((x : Int)).toNat = x := by omega

/-- The simp set that symbolically executes a statement tree. -/
local macro "xs" "[" ts:Lean.Parser.Tactic.simpLemma,* "]" : tactic =>
  `(tactic| simp [exec, atom, evB, evI, look, lookup, fixedEnv, mkM, bi, tagOf, keyTok, store, VaxisModel.Model.DynExec.bind, bindChild, childOf,
      DynExec.ok, retVals, retVal, isU, seqOf, -Int.toNat_natCast, toNat_cast', $ts,*])

/-! ### HandleEvent -/

theorem hev_all (b : Nat → Option Nat) (s : St) (dis : Bool) (ev : Ev) :
    runHandleEvent expBodies b dis ev s = .ok
      (if dis then (s, false)
       else if ev.typ = "vaxis.Mouse" then
         (if ev.button = "vaxis.MouseWheelDown" then wheelDown s
          else if ev.button = "vaxis.MouseWheelUp" then wheelUp s else (s, false))
       else (s, false)) := by
  cases dis
  · by_cases ht : ev.typ = "vaxis.Mouse"
    · by_cases hd : ev.button = "vaxis.MouseWheelDown"
      · xs [runHandleEvent, runHandler, expBodies, roEv, roSmall, hevParts, hev0, hev1, hev2, wheelDown, ht, hd]
      · by_cases hu : ev.button = "vaxis.MouseWheelUp"
        · have hd' : ¬ ("vaxis.MouseWheelDown" = ev.button) := fun h => hd h.symm
          by_cases h1 : s.offset > 0 <;> by_cases h2 : s.top > 0 <;>
          xs [runHandleEvent, runHandler, expBodies, roEv, roSmall, hevParts, hev0, hev1, hev2, wheelUp, ht, hd, hu, h1, h2]
        · have hd' : ¬ ("vaxis.MouseWheelDown" = ev.button) := fun h => hd h.symm
          have hu' : ¬ ("vaxis.MouseWheelUp" = ev.button) := fun h => hu h.symm
          xs [runHandleEvent, runHandler, expBodies, roEv, roSmall, hevParts, hev0, hev1, hev2, ht, hd, hu, hd', hu']
    · have ht' : ¬ ("vaxis.Mouse" = ev.typ) := fun h => ht h.symm
      xs [runHandleEvent, runHandler, expBodies, roEv, roSmall, hevParts, hev0, hev1, hev2, ht, ht']
  · xs [runHandleEvent, runHandler, expBodies, roEv, roSmall, hevParts, hev0, hev1, hev2]

/-! ### ensureScroll, NextItem, PrevItem -/

theorem toUint_cast (n : Nat) (h : n < 2 ^ 64) : DynInterp.toUint (n : Int) = n := by
  unfold DynInterp.toUint; rw [U_val]; omega

theorem ens_exec (R : Ro) (m : M) (f : Nat) (hc : m.st.cursor < 2 ^ 64) :
    exec R (seqOf ensParts) f m = .ok
      (if m.st.cursor > m.st.top then ({ m with st := { m.st with wantsCursor := true } }, .ret [])
       else ({ m with st := { m.st with top := m.st.cursor, offset := 0, pending := 0 } }, .norm)) := by
  by_cases h : m.st.cursor > m.st.top
  · xs [ensParts, ens0, ens1, ens2, ens3, h]
  · xs [ensParts, ens0, ens1, ens2, ens3, h, toUint_cast _ hc]

/-- What a callee's caller sees of a result. -/
def proj (r : Res) : Option (St × List Child × Ctl) :=
  match r with
  | .ok (m, c) => some (m.st, m.cs, c)
  | .error _ => Option.none

theorem toUintI_add1 (c : Nat) : uaddI (c : Int) 1 = ((uadd c 1 : Nat) : Int) := by
  unfold uaddI toUintI uadd; rw [U_val, U_nat]; omega

theorem toUintI_sub1 (c : Nat) (hc : c < 2 ^ 64) : usubI (c : Int) 1 = ((usub c 1 : Nat) : Int) := by
  unfold usubI toUintI usub; rw [U_val, U_nat]; omega

theorem uadd_lt (a b : Nat) : uadd a b < 2 ^ 64 := by unfold uadd; rw [U_nat]; omega
theorem usub_lt (a b : Nat) : usub a b < 2 ^ 64 := by unfold usub; rw [U_nat]; omega

theorem toUint_uadd (a b : Nat) : DynInterp.toUint ((uadd a b : Nat) : Int) = uadd a b := toUint_cast _ (uadd_lt a b)
theorem toUint_usub (a b : Nat) : DynInterp.toUint ((usub a b : Nat) : Int) = usub a b := toUint_cast _ (usub_lt a b)

theorem next_exec (hs : List Nat) (dis : Bool) (ev : Ev) (mf : String) (m : M) (f : Nat) (hc : m.st.cursor < 2 ^ 64) :
    proj (exec (roSmall expBodies (builder hs) dis ev mf) (seqOf nextParts) f m) =
      some ((nextItem hs m.st).1, m.cs, .ret [bi (nextItem hs m.st).2]) := by
  have he := fun R => ens_exec R { m with st := { m.st with cursor := uadd m.st.cursor 1 }, ρ := [], us := [] } f (uadd_lt _ _)
  unfold nextItem
  cases hb : builder hs (uadd m.st.cursor 1) with
  | none => xs [proj, roSmall, expBodies, nextParts, next0, next1, next2, next3, next4, toUintI_add1, hb]
  | some h =>
    xs [proj, roSmall, expBodies, nextParts, next0, next1, next2, next3, next4, toUintI_add1, toUint_uadd, hb, ensureCallee, callMethod]
    simp [he]
    by_cases h : uadd m.st.cursor 1 > m.st.top <;> simp [h, ensureScroll, proj, retVals, retVal]

theorem prev_zero (hs : List Nat) (dis : Bool) (ev : Ev) (mf : String) (m : M) (f : Nat) (h0 : m.st.cursor = 0) :
    proj (exec (roSmall expBodies (builder hs) dis ev mf) (seqOf prevParts) f m) = some (m.st, m.cs, .ret [0]) := by
  xs [proj, roSmall, expBodies, prevParts, prev0, prev1, prev2, prev3, prev4, prev5, h0]

theorem prev_none (hs : List Nat) (dis : Bool) (ev : Ev) (mf : String) (m : M) (f : Nat) (x : Nat) (h0 : ¬ m.st.cursor = 0)
    (h1 : usubI ↑m.st.cursor 1 = ↑x) (hb : builder hs x = none) :
    proj (exec (roSmall expBodies (builder hs) dis ev mf) (seqOf prevParts) f m) = some (m.st, m.cs, .ret [0]) := by
  have h0' : ¬ ((m.st.cursor : Int) = 0) := by omega
  xs [proj, roSmall, expBodies, prevParts, prev0, prev1, prev2, prev3, prev4, prev5, h1, hb, h0, h0']

theorem prev_some (hs : List Nat) (dis : Bool) (ev : Ev) (mf : String) (m : M) (f : Nat) (x h : Nat) (h0 : ¬ m.st.cursor = 0)
    (h1 : usubI ↑m.st.cursor 1 = ↑x) (hlt : x < 2 ^ 64) (hb : builder hs x = some h) :
    proj (exec (roSmall expBodies (builder hs) dis ev mf) (seqOf prevParts) f m) =
      some (ensureScroll { m.st with cursor := x }, m.cs, .ret [1]) := by
  have h0' : ¬ ((m.st.cursor : Int) = 0) := by omega
  have he := fun R => ens_exec R { m with st := { m.st with cursor := x }, ρ := [], us := [] } f hlt
  xs [proj, roSmall, expBodies, prevParts, prev0, prev1, prev2, prev3, prev4, prev5, h1, toUint_cast _ hlt, hb, h0, h0', ensureCallee, callMethod]
  simp [he]
  by_cases h : x > m.st.top <;> simp [h, ensureScroll, proj, retVals, retVal]

theorem prev_exec (hs : List Nat) (dis : Bool) (ev : Ev) (mf : String) (m : M) (f : Nat) (hc : m.st.cursor < 2 ^ 64) :
    proj (exec (roSmall expBodies (builder hs) dis ev mf) (seqOf prevParts) f m) =
      some ((prevItem hs m.st).1, m.cs, .ret [bi (prevItem hs m.st).2]) := by
  unfold prevItem
  by_cases h0 : m.st.cursor = 0
  · rw [if_pos h0]; simp only [bi, Bool.false_eq_true, ↓reduceIte]; exact prev_zero hs dis ev mf m f h0
  · rw [if_neg h0]
    cases hb : builder hs (usub m.st.cursor 1) with
    | none =>
      simp only [bi, Bool.false_eq_true, ↓reduceIte]
      exact prev_none hs dis ev mf m f _ h0 (toUintI_sub1 _ hc) hb
    | some h =>
      simp only [bi, ↓reduceIte]
      exact prev_some hs dis ev mf m f _ h h0 (toUintI_sub1 _ hc) (usub_lt _ _) hb

/-! ### CaptureEvent -/

def ctlVals : Ctl → List Int
  | .ret vs => vs
  | _ => []

theorem callMethod_proj (R : Ro) (f : Nat) (m : M) (name : String) (args : List Int) (g : List Int → Nat → M → Res)
    (hg : R.call name = some g) (st' : St) (cs' : List Child) (c : Ctl)
    (h : proj (g args f { m with ρ := [], us := [] }) = some (st', cs', c)) :
    callMethod R f m name args = .ok ({ m with st := st', cs := cs' }, ctlVals c) := by
  unfold callMethod
  rw [hg]
  cases hr : g args f { m with ρ := [], us := [] } with
  | error e => rw [hr] at h; simp [proj] at h
  | ok r =>
    obtain ⟨m', c'⟩ := r
    rw [hr] at h
    simp only [proj, Option.some.injEq, Prod.mk.injEq] at h
    obtain ⟨h1, h2, h3⟩ := h
    subst h1 h2 h3
    cases c' <;> simp [ctlVals, hr]

theorem roEv_disable (B : Bodies) (b : Nat → Option Nat) (dis : Bool) (ev : Ev) (mf : String) : (roEv B b dis ev mf).disable = dis := rfl
theorem roEv_ev (B : Bodies) (b : Nat → Option Nat) (dis : Bool) (ev : Ev) (mf : String) : (roEv B b dis ev mf).ev = ev := rfl
theorem roEv_matchFn (B : Bodies) (b : Nat → Option Nat) (dis : Bool) (ev : Ev) (mf : String) : (roEv B b dis ev mf).matchFn = mf := rfl
theorem exp_cev : expBodies.captureEvent = seqOf cevParts := rfl

theorem cev_all (hs : List Nat) (s : St) (dis : Bool) (ev : Ev) (hc : s.cursor < 2 ^ 64) :
    runCaptureEvent expBodies (builder hs) dis ev s = .ok
      (if dis then (s, false)
       else if ev.typ = "vaxis.Key" then
         (if "'j'" ∈ ev.keys ∨ "vaxis.KeyDown" ∈ ev.keys then nextItem hs s
          else if "'k'" ∈ ev.keys ∨ "vaxis.KeyUp" ∈ ev.keys then prevItem hs s else (s, false))
       else (s, false)) := by
  cases dis
  · by_cases ht : ev.typ = "vaxis.Key"
    · have hn := callMethod_proj (roEv expBodies (builder hs) false ev "v1.Matches") 1 ⟨s, [], [], [], "vaxis.Key"⟩ "d.NextItem" [] _ rfl _ _ _
        (next_exec hs false ev "v1.Matches" ⟨s, [], [], [], "vaxis.Key"⟩ 1 hc)
      have hp := callMethod_proj (roEv expBodies (builder hs) false ev "v1.Matches") 1 ⟨s, [], [], [], "vaxis.Key"⟩ "d.PrevItem" [] _ rfl _ _ _
        (prev_exec hs false ev "v1.Matches" ⟨s, [], [], [], "vaxis.Key"⟩ 1 hc)
      have hnn : (nextItem hs s).2 = false → (nextItem hs s).1 = s := by
        unfold nextItem; split <;> simp
      have hpn : (prevItem hs s).2 = false → (prevItem hs s).1 = s := by
        unfold prevItem; split; · simp
        split <;> simp
      generalize nextItem hs s = rn at hn hnn ⊢
      generalize prevItem hs s = rp at hp hpn ⊢
      obtain ⟨sn, bn⟩ := rn
      obtain ⟨sp, bp⟩ := rp
      simp only [ctlVals] at hn hp
      by_cases hj : "'j'" ∈ ev.keys
      · cases bn <;>
        xs [runCaptureEvent, runHandler, exp_cev, roEv_disable, roEv_ev, roEv_matchFn, cevParts, cev0, cev1, cev2, ht, hj, hn, hnn]
      · by_cases hd : "vaxis.KeyDown" ∈ ev.keys
        · cases bn <;>
          xs [runCaptureEvent, runHandler, exp_cev, roEv_disable, roEv_ev, roEv_matchFn, cevParts, cev0, cev1, cev2, ht, hj, hd, hn, hnn]
        · by_cases hk : "'k'" ∈ ev.keys
          · cases bp <;>
            xs [runCaptureEvent, runHandler, exp_cev, roEv_disable, roEv_ev, roEv_matchFn, cevParts, cev0, cev1, cev2, ht, hj, hd, hk, hp, hpn]
          · by_cases hu : "vaxis.KeyUp" ∈ ev.keys
            · cases bp <;>
              xs [runCaptureEvent, runHandler, exp_cev, roEv_disable, roEv_ev, roEv_matchFn, cevParts, cev0, cev1, cev2, ht, hj, hd, hk, hu, hp, hpn]
            · xs [runCaptureEvent, runHandler, exp_cev, roEv_disable, roEv_ev, roEv_matchFn, cevParts, cev0, cev1, cev2, ht, hj, hd, hk, hu]
    · have ht' : ¬ ("vaxis.Key" = ev.typ) := fun h => ht h.symm
      xs [runCaptureEvent, runHandler, expBodies, roEv, roSmall, cevParts, cev0, cev1, cev2, ht, ht']
  · xs [runCaptureEvent, runHandler, expBodies, roEv, roSmall, cevParts, cev0, cev1, cev2]

end VaxisModel.Lemmas.DynExec
