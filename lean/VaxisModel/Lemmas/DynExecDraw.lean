import VaxisModel.Lemmas.DynExec
import VaxisModel.Lemmas.DynList

/-! `Dynamic.Draw`, executed phase by phase (`Model/DynExec.lean` on the trees `draw0 … draw17` of
    `Lemmas/DynTrees.lean`), is `DynList.draw Facts.fixed`. -/
set_option linter.unusedSimpArgs false
set_option linter.unusedVariables false

namespace VaxisModel.Lemmas.DynExec
open VaxisModel.Model VaxisModel.Model.GoSyn VaxisModel.Model.DynExec VaxisModel.Model.DynList
open VaxisModel.Lemmas VaxisModel.Lemmas.DynTrees

local macro "xs" "[" ts:Lean.Parser.Tactic.simpLemma,* "]" : tactic =>
  `(tactic| simp [exec, atom, evB, evI, look, lookup, fixedEnv, mkM, bi, tagOf, keyTok, store, VaxisModel.Model.DynExec.bind, bindChild, childOf,
      DynExec.ok, retVals, retVal, isU, seqOf, -Int.toNat_natCast, toNat_cast', $ts,*])

/-! #### the prologue: `ah`, the pending scroll, `i := top` -/

theorem pro_exec (R : Ro) (st : St) (ρ : List (String × Int)) (tag : String) (F : Nat) (rest : List Stmt) :
    ∃ ρ', exec R (seqOf (draw3 :: draw4 :: draw5 :: draw6 :: rest)) F ⟨st, [], ρ, [], tag⟩ =
        exec R (seqOf rest) F ⟨(prologue st).2, [], ρ', ["v3"], tag⟩ ∧
      lookup ρ' "v2" = some (prologue st).1 ∧ lookup ρ' "v3" = some ((prologue st).2.top : Int) := by
  by_cases h : - (st.offset + st.pending) > 0 ∧ st.top = 0
  · have h1 : (st.top : Int) = 0 := by omega
    have h2 : 0 < - (st.offset + st.pending) := h.1
    have h3 : st.offset + st.pending < 0 := by omega
    have hp : prologue st = (0, { st with pending := 0, offset := 0 }) := by
      unfold prologue; simp [h3, h.2]
    rw [hp]
    refine ⟨("v3", (st.top : Int)) :: ("v2", 0) :: ("v2", - (st.offset + st.pending)) :: ρ, ?_, ?_, ?_⟩
    · xs [draw3, draw4, draw5, draw6, h, h.1, h.2, h1, h2, h3]
    · simp [lookup]
    · simp [lookup]
  · have hn : ¬ (st.offset + st.pending < 0 ∧ st.top = 0) := fun ⟨a, b⟩ => h ⟨by omega, b⟩
    have hp : prologue st = (- (st.offset + st.pending), { st with pending := 0 }) := by
      unfold prologue; simp [hn]
    rw [hp]
    refine ⟨("v3", (st.top : Int)) :: ("v2", - (st.offset + st.pending)) :: ρ, ?_, ?_, ?_⟩
    · by_cases h0 : st.top = 0
      · have h2 : ¬ (0 < - (st.offset + st.pending)) := fun h' => h ⟨h', h0⟩
        have h3 : ¬ (st.offset + st.pending < 0) := by omega
        xs [draw3, draw4, draw5, draw6, h, h0, h2, h3]
      · have h1 : ¬ ((st.top : Int) = 0) := by omega
        xs [draw3, draw4, draw5, draw6, h, h0, h1]
    · simp [lookup]
    · simp [lookup]

/-! #### the upward scroll: `insertChildren` and the last child -/

theorem su_exec (R R0 : Ro) (hs : List Nat) (hcall : R.call "d.insertChildren" = some (insertCallee expBodies R0))
    (hb0 : R0.b = builder hs) (hg : R0.gap = R.gap)
    (st : St) (ρ : List (String × Int)) (tag : String) (F : Nat) (ah1 v : Int)
    (hv2 : lookup ρ "v2" = some ah1) (hv3 : lookup ρ "v3" = some v)
    (htop : ah1 > 0 → 1 ≤ st.top) (hlt : st.top < 2 ^ 64) (hF : st.top + 1 ≤ F) :
    match scrollUp true R.gap hs st ah1 with
    | .error _ => exec R draw7 F ⟨st, [], ρ, ["v3"], tag⟩ = .error .panic
    | .ok (ah2, s2, cs0) => ∃ ρ', exec R draw7 F ⟨st, [], ρ, ["v3"], tag⟩ = .ok (⟨s2, cs0, ρ', ["v3"], tag⟩, .norm) ∧
        lookup ρ' "v2" = some ah2 ∧ lookup ρ' "v3" = some v := by
  unfold scrollUp
  by_cases hah : ah1 > 0
  · have hins := ins_exec R0 hs hb0 st tag F ah1 (htop hah) hlt hF
    rw [hg] at hins
    have hcm := callMethod_proj R F ⟨st, [], ρ, ["v3"], tag⟩ "d.insertChildren" [ah1] _ hcall _ _ _
      (by simpa [insertCallee, expBodies] using hins)
    simp only [ctlVals] at hcm
    simp only [hah, ↓reduceIte]
    generalize insertChildren true R.gap hs st.top ah1 = r at hcm ⊢
    obtain ⟨t, o, cs0⟩ := r
    simp only [] at hcm ⊢
    cases hl : cs0.getLast? with
    | none =>
      have : cs0 = [] := List.getLast?_eq_none_iff.mp hl
      subst this
      xs [draw7, hv2, hah, hcm]
    | some last =>
      have hne : cs0 ≠ [] := by intro h; subst h; simp at hl
      have hlen : 0 < cs0.length := List.length_pos_iff.mpr hne
      have hidx : cs0[cs0.length - 1]? = some last := by
        rw [List.getLast?_eq_getElem?] at hl; exact hl
      have hnn : ¬ ((cs0.length : Int) - 1 < 0) := by omega
      refine ⟨("v2", last.row + ↑last.height + R.gap) :: ("v5.Surface.Widget", (last.idx : Int)) ::
        ("v5.Surface.Size.Height", (last.height : Int)) :: ("v5.Origin.Row", last.row) :: ("v4", 0) :: ρ, ?_, ?_, ?_⟩
      · xs [draw7, hv2, hah, hcm, hidx, hnn]
      · simp [lookup]
      · simp [lookup, hv3]
  · simp only [hah, ↓reduceIte]
    refine ⟨ρ, ?_, hv2, hv3⟩
    xs [draw7, hv2, hah]

/-! #### the downward loop -/

def ddBody : Stmt := match draw10 with | .loop _ b _ => b | _ => .skip
def ddCond : Expr := match draw10 with | .loop c _ _ => c | _ => .none
theorem draw10_eq : draw10 = .loop ddCond ddBody .skip := rfl

def ddRho (i y h : Nat) (ah' : Int) (ρ : List (String × Int)) : List (String × Int) :=
  ("v2", ah') :: ("v10", 0) :: ("v9.Widget", (i : Int)) :: ("v9.Size.Height", (h : Int)) :: ("v8", 1) ::
  ("v3", (y : Int)) :: ("v7.Draw.Widget", (i : Int)) :: ("v7.Draw.Size.Height", (h : Int)) :: ("v7", 1) :: ρ

theorem dd_cond (R : Ro) (m : M) : evB R m ddCond = some true := by
  xs [ddCond, draw10]

theorem dd_body_nil (R : Ro) (st : St) (acc : List Child) (ρ : List (String × Int))
    (tag : String) (F : Nat) (i : Nat) (hv3 : lookup ρ "v3" = some ↑i) (hbt : R.b i = none) :
    exec R ddBody F ⟨st, acc, ρ, ["v3"], tag⟩ = .ok (⟨st, acc, ("v7", 0) :: ρ, ["v3"], tag⟩, .brk) := by
  xs [ddBody, draw10, hv3, hbt]

theorem dd_body (R : Ro) (st : St) (acc : List Child) (ρ : List (String × Int))
    (tag : String) (F : Nat) (ah : Int) (i y h : Nat) (hv2 : lookup ρ "v2" = some ah) (hv3 : lookup ρ "v3" = some ↑i)
    (hbt : R.b i = some h) (hi : uaddI ↑i 1 = ↑y) :
    exec R ddBody F ⟨st, acc, ρ, ["v3"], tag⟩ =
      .ok (⟨st, acc ++ [{ idx := i, row := ah, height := h }], ddRho i y h (ah + (↑h + R.gap)) ρ, ["v3"], tag⟩,
        if st.wantsCursor = true ∧ y ≤ st.cursor then .cont else if ah + (↑h + R.gap) ≥ R.H then .brk else .norm) := by
  by_cases hw : st.wantsCursor = true ∧ y ≤ st.cursor
  · have hc' : (y : Int) ≤ st.cursor := by omega
    xs [ddBody, draw10, hv2, hv3, hbt, hi, hw, hw.1, hw.2, hc', ddRho]
  · by_cases hH : ah + (↑h + R.gap) ≥ R.H
    · by_cases hw1 : st.wantsCursor = true
      · have hc : ¬ (y ≤ st.cursor) := fun h => hw ⟨hw1, h⟩
        have hc' : ¬ ((y : Int) ≤ st.cursor) := by omega
        xs [ddBody, draw10, hv2, hv3, hbt, hi, hw, hw1, hc, hc', hH, ddRho]
      · xs [ddBody, draw10, hv2, hv3, hbt, hi, hw, hw1, hH, ddRho]
    · have hH' : ¬ ((R.H : Int) ≤ ah + (↑h + R.gap)) := hH
      by_cases hw1 : st.wantsCursor = true
      · have hc : ¬ (y ≤ st.cursor) := fun h => hw ⟨hw1, h⟩
        have hc' : ¬ ((y : Int) ≤ st.cursor) := by omega
        xs [ddBody, draw10, hv2, hv3, hbt, hi, hw, hw1, hc, hc', hH, hH', ddRho]
      · xs [ddBody, draw10, hv2, hv3, hbt, hi, hw, hw1, hH, hH', ddRho]

theorem dd_loop (R : Ro) (hs : List Nat) (hb : R.b = builder hs) (st : St) (tag : String) :
    ∀ (rest : List Nat) (i : Nat) (ah : Int) (acc : List Child) (ρ : List (String × Int)) (F : Nat),
      rest = hs.drop i → i + rest.length < 2 ^ 64 → rest.length + 1 ≤ F →
      lookup ρ "v2" = some ah → lookup ρ "v3" = some ↑i →
      ∃ ρ', loopN (fun m => evB R m ddCond) (exec R ddBody) (exec R .skip) F ⟨st, acc, ρ, ["v3"], tag⟩ =
        .ok (⟨st, drawDown R.gap st.wantsCursor st.cursor R.H rest i ah acc, ρ', ["v3"], tag⟩, .norm) := by
  intro rest
  induction rest with
  | nil =>
    intro i ah acc ρ F hd hlt hF hv2 hv3
    obtain ⟨F', rfl⟩ : ∃ F', F = F' + 1 := ⟨F - 1, by omega⟩
    have hbt : builder hs i = none := by
      unfold builder
      have : hs.length ≤ i := List.drop_eq_nil_iff.mp hd.symm
      simp [this]
    rw [loopN, dd_cond, dd_body_nil R st acc ρ tag F' i hv3 (by rw [hb]; exact hbt)]
    exact ⟨_, rfl⟩
  | cons h rest ih =>
    intro i ah acc ρ F hd hlt hF hv2 hv3
    obtain ⟨F', rfl⟩ : ∃ F', F = F' + 1 := ⟨F - 1, by omega⟩
    have hbt : builder hs i = some h := by
      unfold builder
      have := congrArg List.head? hd
      simp at this
      exact this.symm
    have hd' : rest = hs.drop (i + 1) := by
      have := congrArg List.tail hd
      simpa using this
    have hi : uaddI ↑i 1 = ↑(i + 1) := by
      simp only [List.length_cons] at hlt
      unfold uaddI toUintI; rw [U_val]; omega
    simp only [List.length_cons] at hlt hF
    rw [loopN, dd_cond, dd_body R st acc ρ tag F' ah i (i + 1) h hv2 hv3 (by rw [hb]; exact hbt) hi]
    unfold drawDown
    have hassoc : ah + (h : Int) + R.gap = ah + (↑h + R.gap) := Int.add_assoc _ _ _
    simp only [hassoc]
    obtain ⟨ρ', hr⟩ := ih (i + 1) (ah + (↑h + R.gap)) (acc ++ [{ idx := i, row := ah, height := h }])
      (ddRho i (i + 1) h (ah + (↑h + R.gap)) ρ) F' hd' (by omega) (by omega) (by simp [ddRho, lookup]) (by simp [ddRho, lookup])
    by_cases hw : st.wantsCursor = true ∧ i + 1 ≤ st.cursor
    · simp only [if_pos hw, exec_skip]
      exact ⟨ρ', hr⟩
    · by_cases hH : ah + (↑h + R.gap) ≥ R.H
      · simp only [if_neg hw, if_pos hH]
        exact ⟨_, rfl⟩
      · simp only [if_neg hw, if_neg hH, exec_skip]
        exact ⟨ρ', hr⟩

/-! #### loops that only touch locals -/

theorem rangeN_frame (k v : String) (body : M → Res) (P : List (String × Int) → Prop) (st : St) (cs : List Child)
    (us : List String) (tag : String)
    (hbody : ∀ ρ (i : Nat) c, P ρ → ∃ ρ', body (bindChild (VaxisModel.Model.DynExec.bind ⟨st, cs, ρ, us, tag⟩ k i) v c) =
        .ok (⟨st, cs, ρ', us, tag⟩, .norm) ∧ P ρ') :
    ∀ (n i : Nat) (ρ : List (String × Int)), i + n ≤ cs.length → P ρ →
      ∃ ρ', rangeN k v body n i ⟨st, cs, ρ, us, tag⟩ = .ok (⟨st, cs, ρ', us, tag⟩, .norm) ∧ P ρ' := by
  intro n
  induction n with
  | zero => intro i ρ _ hP; exact ⟨ρ, rfl, hP⟩
  | succ n ih =>
    intro i ρ hi hP
    have hlt : i < cs.length := by omega
    have hget : cs[i]? = some cs[i] := List.getElem?_eq_getElem hlt
    obtain ⟨ρ1, h1, hP1⟩ := hbody ρ i cs[i] hP
    obtain ⟨ρ2, h2, hP2⟩ := ih (i + 1) ρ1 (by omega) hP1
    refine ⟨ρ2, ?_, hP2⟩
    rw [rangeN]
    simp only [hget, h1]
    exact h2

/-! #### `totalHeight` (computed, never used) -/

def thBody : Stmt := match draw12 with | .range _ _ b => b | _ => .skip
theorem draw12_eq : draw12 = .range "_" "v12" thBody := rfl

theorem th_exec (R : Ro) (st : St) (cs : List Child) (ρ : List (String × Int)) (tag : String) (F : Nat) (rest : List Stmt) :
    ∃ ρ', exec R (seqOf (draw11 :: draw12 :: draw13 :: rest)) F ⟨st, cs, ρ, ["v3"], tag⟩ =
      exec R (seqOf rest) F ⟨st, cs, ρ', ["v3"], tag⟩ := by
  obtain ⟨ρ1, h1, x, hx⟩ := rangeN_frame "_" "v12" (exec R thBody F) (fun ρ => ∃ x, lookup ρ "v11" = some x) st cs ["v3"] tag
    (by
      intro ρ i c ⟨x, hx⟩
      refine ⟨("v11", x + c.height) :: ("v12.Surface.Widget", (c.idx : Int)) :: ("v12.Surface.Size.Height", (c.height : Int)) ::
        ("v12.Origin.Row", c.row) :: ("_", (i : Int)) :: ρ, ?_, ⟨x + c.height, by simp [lookup]⟩⟩
      xs [thBody, draw12, hx])
    cs.length 0 (("v11", 0) :: ρ) (by omega) ⟨0, by simp [lookup]⟩
  rw [seqOf_cons]
  have h11 : exec R draw11 F ⟨st, cs, ρ, ["v3"], tag⟩ = .ok (⟨st, cs, ("v11", 0) :: ρ, ["v3"], tag⟩, .norm) := by
    xs [draw11]
  rw [h11]
  simp only []
  rw [seqOf_cons, draw12_eq]
  simp only [exec]
  rw [h1]
  simp only []
  by_cases hg : R.gap > 0 ∧ cs.length > 1
  · have h2 : (1 : Int) < cs.length := by omega
    have h3 : (0 : Int) < R.gap := hg.1
    refine ⟨("v11", x + ((cs.length : Int) - 1) * R.gap) :: ρ1, ?_⟩
    xs [draw13, hx, hg, hg.1, hg.2, h2, h3]
  · refine ⟨ρ1, ?_⟩
    by_cases h3 : R.gap > 0
    · have h2 : ¬ (cs.length > 1) := fun h => hg ⟨h3, h⟩
      have h2' : ¬ ((1 : Int) < cs.length) := by omega
      have h3' : (0 : Int) < R.gap := h3
      xs [draw13, hx, h2, h2', h3, h3']
    · have h3' : ¬ ((0 : Int) < R.gap) := h3
      xs [draw13, hx, h3, h3']

/-! #### the wants-cursor block -/

def rvB1 : Stmt :=
  (.seq (.atom ⟨4, .addAssign, (.var "v24.Origin.Row"), (.var "v22")⟩)
          (.seq (.atom ⟨4, .assign, (.index (.var "v1.Children") (.var "v23")), (.var "v24")⟩)
          .skip))

def rvB2 : Stmt :=
  (.seq (.atom ⟨5, .addAssign, (.var "v27.Origin.Row"), (.var "v25")⟩)
            (.seq (.atom ⟨5, .assign, (.index (.var "v1.Children") (.var "v26")), (.var "v27")⟩)
            .skip))

def draw15T (B1 B2 : Stmt) : Stmt :=
  (.ite (.var "d.scroll.wantsCursor")
    (.seq (.atom ⟨1, .define, (.var "v19"), (.bin "-" (.var "d.cursor") (.var "d.scroll.top"))⟩)
    (.seq (.ite (.bin "<" (.var "v19") (.arg (.call (.var "uint")) (.arg (.call (.var "len")) (.var "v1.Children"))))
      (.seq (.atom ⟨2, .define, (.var "v20"), (.index (.var "v1.Children") (.var "v19"))⟩)
      (.seq (.atom ⟨2, .define, (.var "v21"), (.bin "+" (.var "v20.Origin.Row") (.arg (.call (.var "int")) (.var "v20.Surface.Size.Height")))⟩)
      (.seq (.ite (.bin ">" (.var "v21") (.arg (.call (.var "int")) (.var "v0.Max.Height")))
        (.seq (.atom ⟨3, .define, (.var "v22"), (.bin "-" (.arg (.call (.var "int")) (.var "v0.Max.Height")) (.var "v21"))⟩)
        (.seq (.range "v23" "v24"
          B1)
        .skip))
        (.seq (.ite (.bin "<" (.var "v20.Origin.Row") (.int 0))
          (.seq (.atom ⟨4, .define, (.var "v25"), (.un "-" (.var "v20.Origin.Row"))⟩)
          (.seq (.range "v26" "v27"
            B2)
          .skip))
          .skip)
        .skip))
      (.seq (.atom ⟨2, .assign, (.var "d.scroll.wantsCursor"), (.var "false")⟩)
      .skip))))
      .skip)
    .skip))
    .skip)


theorem draw15_eq : draw15 = draw15T rvB1 rvB2 := rfl

theorem rangeN_map (k v : String) (body : M → Res) (f : Child → Child) (P : List (String × Int) → Prop) (st : St)
    (us : List String) (tag : String)
    (hbody : ∀ (cs : List Child) ρ (i : Nat) c, i < cs.length → P ρ →
      ∃ ρ', body (bindChild (VaxisModel.Model.DynExec.bind ⟨st, cs, ρ, us, tag⟩ k i) v c) =
        .ok (⟨st, cs.set i (f c), ρ', us, tag⟩, .norm) ∧ P ρ') :
    ∀ (suf pre : List Child) (ρ : List (String × Int)), P ρ →
      ∃ ρ', rangeN k v body suf.length pre.length ⟨st, pre ++ suf, ρ, us, tag⟩ =
        .ok (⟨st, pre ++ suf.map f, ρ', us, tag⟩, .norm) ∧ P ρ' := by
  intro suf
  induction suf with
  | nil => intro pre ρ hP; exact ⟨ρ, rfl, hP⟩
  | cons c rest ih =>
    intro pre ρ hP
    have hget : (pre ++ c :: rest)[pre.length]? = some c := by simp
    have hlen : pre.length < (pre ++ c :: rest).length := by simp
    obtain ⟨ρ1, h1, hP1⟩ := hbody (pre ++ c :: rest) ρ pre.length c hlen hP
    have hset : (pre ++ c :: rest).set pre.length (f c) = (pre ++ [f c]) ++ rest := by simp
    rw [hset] at h1
    obtain ⟨ρ2, h2, hP2⟩ := ih (pre ++ [f c]) ρ1 hP1
    have hl : (pre ++ [f c]).length = pre.length + 1 := by simp
    rw [hl] at h2
    refine ⟨ρ2, ?_, hP2⟩
    simp only [List.length_cons, rangeN, hget, h1]
    rw [h2]
    simp

theorem rv_map1 (R : Ro) (st : St) (us : List String) (hus : us = ["v3"] ∨ us = ["v14", "v3"] ∨ us = ["v19", "v3"] ∨ us = ["v19", "v14", "v3"]) (tag : String) (F : Nat) (adj : Int)
    (cs : List Child) (ρ : List (String × Int)) (hv : lookup ρ "v22" = some adj) :
    ∃ ρ', rangeN "v23" "v24" (exec R rvB1 F) cs.length 0 ⟨st, cs, ρ, us, tag⟩ =
      .ok (⟨st, cs.map (fun c => { c with row := c.row + adj }), ρ', us, tag⟩, .norm) := by
  obtain ⟨ρ', h, _⟩ := rangeN_map "v23" "v24" (exec R rvB1 F) (fun c => { c with row := c.row + adj })
    (fun ρ => lookup ρ "v22" = some adj) st us tag
    (by
      intro cs ρ i c hi hP
      have hi' : ¬ (cs.length ≤ i) := by omega
      have hneg : ¬ ((i : Int) < 0) := by omega
      refine ⟨("v24.Origin.Row", c.row + adj) :: ("v24.Surface.Widget", (c.idx : Int)) :: ("v24.Surface.Size.Height", (c.height : Int)) ::
        ("v24.Origin.Row", c.row) :: ("v23", (i : Int)) :: ρ, ?_, by simp [lookup, hP]⟩
      rcases hus with rfl | rfl | rfl | rfl <;> xs [rvB1, hP, hi', hneg, setAt])
    cs [] ρ hv
  exact ⟨ρ', by simpa using h⟩

theorem rv_map2 (R : Ro) (st : St) (us : List String) (hus : us = ["v3"] ∨ us = ["v14", "v3"] ∨ us = ["v19", "v3"] ∨ us = ["v19", "v14", "v3"]) (tag : String) (F : Nat) (adj : Int)
    (cs : List Child) (ρ : List (String × Int)) (hv : lookup ρ "v25" = some adj) :
    ∃ ρ', rangeN "v26" "v27" (exec R rvB2 F) cs.length 0 ⟨st, cs, ρ, us, tag⟩ =
      .ok (⟨st, cs.map (fun c => { c with row := c.row + adj }), ρ', us, tag⟩, .norm) := by
  obtain ⟨ρ', h, _⟩ := rangeN_map "v26" "v27" (exec R rvB2 F) (fun c => { c with row := c.row + adj })
    (fun ρ => lookup ρ "v25" = some adj) st us tag
    (by
      intro cs ρ i c hi hP
      have hi' : ¬ (cs.length ≤ i) := by omega
      have hneg : ¬ ((i : Int) < 0) := by omega
      refine ⟨("v27.Origin.Row", c.row + adj) :: ("v27.Surface.Widget", (c.idx : Int)) :: ("v27.Surface.Size.Height", (c.height : Int)) ::
        ("v27.Origin.Row", c.row) :: ("v26", (i : Int)) :: ρ, ?_, by simp [lookup, hP]⟩
      rcases hus with rfl | rfl | rfl | rfl <;> xs [rvB2, hP, hi', hneg, setAt])
    cs [] ρ hv
  exact ⟨ρ', by simpa using h⟩

/-- `DynList.reveal` (with both repairs), the child index `cursor - top` given as `x`. -/
def revealX (cs : List Child) (s : St) (H : Nat) (x : Nat) : List Child × St :=
  if s.wantsCursor then
    if x < cs.length then
      match cs[x]? with
      | some ch =>
        (if ch.row + (ch.height : Int) > H then cs.map fun c => { c with row := c.row + ((H : Int) - (ch.row + (ch.height : Int))) }
         else if ch.row < 0 then cs.map fun c => { c with row := c.row + (- ch.row) } else cs, { s with wantsCursor := false })
      | none => (cs, s)
    else (cs, s)
  else (cs, s)

theorem cursorChild_x (cs : List Child) (cursor top x : Nat) (hx : usub cursor top = x) :
    cursorChild true cs cursor top =
      if x < cs.length then (match cs[x]? with | some c => .ok (some c) | none => .error (.childIndex x cs.length)) else .ok none := by
  unfold cursorChild
  simp only [hx, ↓reduceIte]
  rfl

theorem reveal_eq (cs : List Child) (s : St) (H : Nat) (x : Nat) (hx : usub s.cursor s.top = x) :
    reveal true true cs s H = .ok (revealX cs s H x) := by
  unfold reveal revealX
  rw [cursorChild_x cs s.cursor s.top x hx]
  by_cases hw : s.wantsCursor = true
  · by_cases hxl : x < cs.length
    · have hget : cs[x]? = some cs[x] := List.getElem?_eq_getElem hxl
      simp [hw, hxl, hget]
    · simp [hw, hxl]
  · simp [hw]

theorem rv_exec (R : Ro) (st : St) (cs : List Child) (ρ : List (String × Int)) (us : List String)
    (hus : us = ["v3"] ∨ us = ["v14", "v3"]) (tag : String) (F : Nat) (x : Nat)
    (hx : usubI ↑st.cursor ↑st.top = ↑x) :
    ∃ ρ' us', exec R (draw15T rvB1 rvB2) F ⟨st, cs, ρ, us, tag⟩ =
      .ok (⟨(revealX cs st R.H x).2, (revealX cs st R.H x).1, ρ', us', tag⟩, .norm) ∧ (us' = us ∨ us' = "v19" :: us) := by
  unfold revealX
  by_cases hw : st.wantsCursor = true
  · by_cases hxl : x < cs.length
    · have hget : cs[x]? = some cs[x] := List.getElem?_eq_getElem hxl
      have hxl' : (x : Int) < cs.length := by omega
      have hneg : ¬ ((x : Int) < 0) := by omega
      simp only [hw, hxl, hget, ↓reduceIte]
      have hus' : ("v19" :: us) = ["v3"] ∨ ("v19" :: us) = ["v14", "v3"] ∨ ("v19" :: us) = ["v19", "v3"] ∨ ("v19" :: us) = ["v19", "v14", "v3"] := by
        rcases hus with rfl | rfl <;> simp
      by_cases hb : cs[x].row + (cs[x].height : Int) > R.H
      · obtain ⟨ρ1, h1⟩ := rv_map1 R st ("v19" :: us) hus' tag F ((R.H : Int) - (cs[x].row + ↑cs[x].height)) cs
          (("v22", (R.H : Int) - (cs[x].row + ↑cs[x].height)) :: ("v21", cs[x].row + ↑cs[x].height) :: ("v20.Surface.Widget", (cs[x].idx : Int)) ::
            ("v20.Surface.Size.Height", (cs[x].height : Int)) :: ("v20.Origin.Row", cs[x].row) :: ("v19", (x : Int)) :: ρ) (by simp [lookup])
        have hb' : (R.H : Int) < cs[x].row + ↑cs[x].height := hb
        refine ⟨ρ1, "v19" :: us, ?_, Or.inr rfl⟩
        rcases hus with rfl | rfl <;>
        xs [draw15T, hw, hx, hxl, hxl', hneg, hget, hb, hb', h1]
      · have hb' : ¬ ((R.H : Int) < cs[x].row + ↑cs[x].height) := hb
        by_cases hr : cs[x].row < 0
        · obtain ⟨ρ1, h1⟩ := rv_map2 R st ("v19" :: us) hus' tag F (- cs[x].row) cs
            (("v25", - cs[x].row) :: ("v21", cs[x].row + ↑cs[x].height) :: ("v20.Surface.Widget", (cs[x].idx : Int)) ::
              ("v20.Surface.Size.Height", (cs[x].height : Int)) :: ("v20.Origin.Row", cs[x].row) :: ("v19", (x : Int)) :: ρ) (by simp [lookup])
          refine ⟨ρ1, "v19" :: us, ?_, Or.inr rfl⟩
          rcases hus with rfl | rfl <;>
          xs [draw15T, hw, hx, hxl, hxl', hneg, hget, hb, hb', hr, h1]
        · refine ⟨("v21", cs[x].row + ↑cs[x].height) :: ("v20.Surface.Widget", (cs[x].idx : Int)) ::
              ("v20.Surface.Size.Height", (cs[x].height : Int)) :: ("v20.Origin.Row", cs[x].row) :: ("v19", (x : Int)) :: ρ, "v19" :: us, ?_, Or.inr rfl⟩
          rcases hus with rfl | rfl <;>
          xs [draw15T, hw, hx, hxl, hxl', hneg, hget, hb, hb', hr]
    · have hxl' : ¬ ((x : Int) < cs.length) := by omega
      simp only [hw, hxl, ↓reduceIte]
      refine ⟨("v19", (x : Int)) :: ρ, "v19" :: us, ?_, Or.inr rfl⟩
      xs [draw15T, hw, hx, hxl, hxl']
  · simp only [hw, ↓reduceIte]
    refine ⟨ρ, us, ?_, Or.inl rfl⟩
    xs [draw15T, hw]


/-! #### the final re-anchoring loop -/

def rtBody : Stmt := match draw16 with | .range _ _ b => b | _ => .skip
theorem draw16_eq : draw16 = .range "v28" "v29" rtBody := rfl

theorem rt_body (R : Ro) (cursor top : Nat) (offset pending : Int) (wants : Bool) (cs : List Child) (ρ : List (String × Int))
    (us : List String) (hus : us = ["v3"] ∨ us = ["v14", "v3"] ∨ us = ["v19", "v3"] ∨ us = ["v19", "v14", "v3"])
    (tag : String) (F : Nat) (i : Nat) (c : Child) (y : Nat) (hy : uaddI ↑top (toUintI ↑i) = ↑y) (hyl : y < 2 ^ 64) :
    ∃ ρ', exec R rtBody F (bindChild (VaxisModel.Model.DynExec.bind ⟨⟨cursor, top, offset, pending, wants⟩, cs, ρ, us, tag⟩ "v28" i) "v29" c) =
      .ok (⟨if c.row ≤ 0 ∧ c.row + (c.height : Int) + R.gap > 0 then ⟨cursor, y, - c.row, pending, wants⟩
            else ⟨cursor, top, offset, pending, wants⟩, cs, ρ', us, tag⟩, .norm) := by
  by_cases h : c.row ≤ 0 ∧ c.row + (c.height : Int) + R.gap > 0
  · have h2 : 0 < c.row + (c.height : Int) + R.gap := h.2
    refine ⟨("v29.Surface.Widget", (c.idx : Int)) :: ("v29.Surface.Size.Height", (c.height : Int)) :: ("v29.Origin.Row", c.row) :: ("v28", (i : Int)) :: ρ, ?_⟩
    rcases hus with rfl | rfl | rfl | rfl <;>
    xs [rtBody, draw16, h, h.1, h.2, h2, hy, toUint_cast _ hyl]
  · refine ⟨("v29.Surface.Widget", (c.idx : Int)) :: ("v29.Surface.Size.Height", (c.height : Int)) :: ("v29.Origin.Row", c.row) :: ("v28", (i : Int)) :: ρ, ?_⟩
    by_cases h1 : c.row ≤ 0
    · have h2 : ¬ (0 < c.row + (c.height : Int) + R.gap) := fun h' => h ⟨h1, h'⟩
      rcases hus with rfl | rfl | rfl | rfl <;>
      xs [rtBody, draw16, h, h1, h2]
    · rcases hus with rfl | rfl | rfl | rfl <;>
      xs [rtBody, draw16, h, h1]

theorem uaddI_cast (top i : Nat) : uaddI ↑top (toUintI ↑i) = ((uadd top i : Nat) : Int) := by
  unfold uaddI toUintI uadd; rw [U_val, U_nat]; omega

theorem rt_range (R : Ro) (cursor : Nat) (pending : Int) (wants : Bool)
    (us : List String) (hus : us = ["v3"] ∨ us = ["v14", "v3"] ∨ us = ["v19", "v3"] ∨ us = ["v19", "v14", "v3"])
    (tag : String) (F : Nat) :
    ∀ (suf pre : List Child) (top : Nat) (offset : Int) (ρ : List (String × Int)),
      ∃ ρ', rangeN "v28" "v29" (exec R rtBody F) suf.length pre.length ⟨⟨cursor, top, offset, pending, wants⟩, pre ++ suf, ρ, us, tag⟩ =
        .ok (⟨⟨cursor, (retop R.gap suf pre.length (top, offset)).1, (retop R.gap suf pre.length (top, offset)).2, pending, wants⟩,
              pre ++ suf, ρ', us, tag⟩, .norm) := by
  intro suf
  induction suf with
  | nil => intro pre top offset ρ; exact ⟨ρ, rfl⟩
  | cons c rest ih =>
    intro pre top offset ρ
    have hget : (pre ++ c :: rest)[pre.length]? = some c := by simp
    obtain ⟨ρ1, h1⟩ := rt_body R cursor top offset pending wants (pre ++ c :: rest) ρ us hus tag F pre.length c (uadd top pre.length)
      (uaddI_cast top pre.length) (uadd_lt _ _)
    have happ : pre ++ c :: rest = (pre ++ [c]) ++ rest := by simp
    have hl : (pre ++ [c]).length = pre.length + 1 := by simp
    simp only [List.length_cons, rangeN, hget, h1]
    unfold retop
    by_cases hc : c.row ≤ 0 ∧ c.row + (c.height : Int) + R.gap > 0
    · obtain ⟨ρ2, h2⟩ := ih (pre ++ [c]) (uadd top pre.length) (- c.row) ρ1
      rw [hl, ← happ] at h2
      simp only [if_pos hc]
      exact ⟨ρ2, h2⟩
    · obtain ⟨ρ2, h2⟩ := ih (pre ++ [c]) top offset ρ1
      rw [hl, ← happ] at h2
      simp only [if_neg hc]
      exact ⟨ρ2, h2⟩

/-! #### small phases -/

theorem d0_exec (R : Ro) (F : Nat) (m : M) :
    exec R draw0 F m = if R.H = 65535 ∨ R.W = 65535 then .error .panic else .ok (m, .norm) := by
  by_cases h1 : R.H = 65535
  · xs [draw0, h1]
  · have h1' : (R.H == 65535) = false := by simp [h1]
    by_cases h2 : R.W = 65535
    · xs [draw0, h1, h1', h2]
    · have h2' : (R.W == 65535) = false := by simp [h2]
      xs [draw0, h1, h1', h2, h2']

theorem d1_exec (R : Ro) (F : Nat) (st : St) (cs : List Child) (ρ : List (String × Int)) (us : List String) (tag : String) :
    exec R draw1 F ⟨st, cs, ρ, us, tag⟩ = .ok (⟨st, [], ρ, us, tag⟩, .norm) := by
  xs [draw1]

theorem d89_exec (R : Ro) (st : St) (cs : List Child) (ρ : List (String × Int)) (tag : String) (F : Nat) (rest : List Stmt) :
    ∃ ρ', exec R (seqOf (draw8 :: draw9 :: rest)) F ⟨st, cs, ρ, ["v3"], tag⟩ = exec R (seqOf rest) F ⟨st, cs, ρ', ["v3"], tag⟩ ∧
      lookup ρ' "v2" = lookup ρ "v2" ∧ lookup ρ' "v3" = lookup ρ "v3" := by
  cases hd : R.drawCursor
  · exact ⟨("v6", 0) :: ρ, by xs [draw8, draw9, hd], by simp [lookup], by simp [lookup]⟩
  · exact ⟨("v6", 2) :: ("v6", 0) :: ρ, by xs [draw8, draw9, hd], by simp [lookup], by simp [lookup]⟩

theorem exec_range (R : Ro) (k v : String) (b : Stmt) (f : Nat) (m : M) :
    exec R (.range k v b) f m = rangeN k v (exec R b f) m.cs.length 0 m := rfl

/-! #### the cursor gutter -/

def guL13 : Stmt :=
  (.loop (.bin "<" (.var "v13") (.var "v1.Size.Height"))
      (.seq (.atom ⟨2, .exprS, (.arg (.arg (.arg (.call (.var "v1.WriteCell")) (.int 0)) (.var "v13")) (.lit "vaxis.Cell{Character:vaxis.Character{Grapheme:\"\",Width:1}}")), .none⟩)
      (.seq (.atom ⟨2, .exprS, (.arg (.arg (.arg (.call (.var "v1.WriteCell")) (.int 1)) (.var "v13")) (.lit "vaxis.Cell{Character:vaxis.Character{Grapheme:\"\",Width:1}}")), .none⟩)
      .skip))
      (.seq (.atom ⟨3, .addAssign, (.var "v13"), (.int 1)⟩)
      .skip))

def guL17 : Stmt :=
  (.loop (.bin "<" (.var "v17") (.var "v15.Surface.Size.Height"))
        (.seq (.atom ⟨3, .exprS, (.arg (.arg (.arg (.call (.var "v16.WriteCell")) (.int 0)) (.var "v17")) (.lit "vaxis.Cell{Character:vaxis.Character{Grapheme:\"▐\",Width:1}}")), .none⟩)
        .skip)
        (.seq (.atom ⟨4, .addAssign, (.var "v17"), (.int 1)⟩)
        .skip))

def draw14T (L13 L17 : Stmt) : Stmt :=
  (.ite (.var "d.DrawCursor")
    (.seq (.atom ⟨1, .varS, (.var "v13"), (.lit "uint16")⟩)
    (.seq L13
    (.seq (.atom ⟨1, .define, (.var "v14"), (.bin "-" (.var "d.cursor") (.var "d.scroll.top"))⟩)
    (.seq (.ite (.bin "&&" (.bin ">=" (.var "d.cursor") (.var "d.scroll.top")) (.bin "<" (.var "v14") (.arg (.call (.var "uint")) (.arg (.call (.var "len")) (.var "v1.Children")))))
      (.seq (.atom ⟨2, .define, (.var "v15"), (.index (.var "v1.Children") (.var "v14"))⟩)
      (.seq (.atom ⟨2, .define, (.var "v16"), (.arg (.arg (.arg (.call (.var "vxfw.NewSurface")) (.var "v0.Max.Width")) (.var "v15.Surface.Size.Height")) (.var "v15.Surface.Widget"))⟩)
      (.seq (.atom ⟨2, .varS, (.var "v17"), (.lit "uint16")⟩)
      (.seq L17
      (.seq (.atom ⟨2, .exprS, (.arg (.arg (.arg (.call (.var "v16.AddChild")) (.var "v6")) (.int 0)) (.var "v15.Surface")), .none⟩)
      (.seq (.atom ⟨2, .define, (.var "v18"), (.arg (.arg (.arg (.call (.var "vxfw.NewSubSurface")) (.int 0)) (.var "v15.Origin.Row")) (.var "v16"))⟩)
      (.seq (.atom ⟨2, .assign, (.index (.var "v1.Children") (.var "v14")), (.var "v18")⟩)
      .skip)))))))
      .skip)
    .skip))))
    .skip)


theorem draw14_eq : draw14 = draw14T guL13 guL17 := rfl

/-- A counting loop `for ; v < bound; v += 1 { cells only }`: it ends, state and children unchanged. -/
theorem count_loop (R : Ro) (c : Expr) (body post : Stmt) (st : St) (cs : List Child) (us : List String) (tag : String)
    (var : String) (bound : Int) (P : List (String × Int) → Prop)
    (hc : ∀ ρ x, P ρ → lookup ρ var = some x → evB R ⟨st, cs, ρ, us, tag⟩ c = some (decide (x < bound)))
    (hbody : ∀ f m, exec R body f m = .ok (m, .norm))
    (hpost : ∀ f ρ x, lookup ρ var = some x → exec R post f ⟨st, cs, ρ, us, tag⟩ = .ok (⟨st, cs, (var, x + 1) :: ρ, us, tag⟩, .norm))
    (hP : ∀ ρ x, P ρ → P ((var, x) :: ρ)) :
    ∀ (n : Nat) (x : Int) (ρ : List (String × Int)) (F : Nat), P ρ → lookup ρ var = some x → bound - x ≤ n → n + 1 ≤ F →
      ∃ ρ', loopN (fun m => evB R m c) (exec R body) (exec R post) F ⟨st, cs, ρ, us, tag⟩ = .ok (⟨st, cs, ρ', us, tag⟩, .norm) ∧ P ρ' := by
  intro n
  induction n with
  | zero =>
    intro x ρ F hPρ hv hb hF
    obtain ⟨F', rfl⟩ : ∃ F', F = F' + 1 := ⟨F - 1, by omega⟩
    have : decide (x < bound) = false := by simp; omega
    rw [loopN, hc ρ x hPρ hv, this]
    exact ⟨ρ, rfl, hPρ⟩
  | succ n ih =>
    intro x ρ F hPρ hv hb hF
    obtain ⟨F', rfl⟩ : ∃ F', F = F' + 1 := ⟨F - 1, by omega⟩
    rw [loopN, hc ρ x hPρ hv]
    by_cases hlt : x < bound
    · simp only [hlt, decide_true]
      rw [hbody]
      simp only []
      rw [hpost F' ρ x hv]
      simp only []
      exact ih (x + 1) ((var, x + 1) :: ρ) F' (hP ρ _ hPρ) (by simp [lookup]) (by omega) (by omega)
    · simp only [hlt, decide_false]
      exact ⟨ρ, rfl, hPρ⟩

def l13c : Expr := match guL13 with | .loop c _ _ => c | _ => .none
def l13b : Stmt := match guL13 with | .loop _ b _ => b | _ => .skip
def l13p : Stmt := match guL13 with | .loop _ _ p => p | _ => .skip
theorem guL13_eq : guL13 = .loop l13c l13b l13p := rfl
def l17c : Expr := match guL17 with | .loop c _ _ => c | _ => .none
def l17b : Stmt := match guL17 with | .loop _ b _ => b | _ => .skip
def l17p : Stmt := match guL17 with | .loop _ _ p => p | _ => .skip
theorem guL17_eq : guL17 = .loop l17c l17b l17p := rfl

theorem l13_exec (R : Ro) (st : St) (cs : List Child) (ρ : List (String × Int)) (tag : String) (F : Nat) (hF : R.H + 1 ≤ F) :
    ∃ ρ', exec R guL13 F ⟨st, cs, ("v13", 0) :: ρ, ["v3"], tag⟩ = .ok (⟨st, cs, ρ', ["v3"], tag⟩, .norm) := by
  obtain ⟨ρ', h, _⟩ := count_loop R l13c l13b l13p st cs ["v3"] tag "v13" (R.H : Int) (fun _ => True)
    (by intro ρ x _ hv; xs [l13c, guL13, hv])
    (by intro f m; xs [l13b, guL13])
    (by intro f ρ x hv; xs [l13p, guL13, hv])
    (fun _ _ _ => trivial) R.H 0 (("v13", 0) :: ρ) F trivial (by simp [lookup]) (by omega) hF
  rw [guL13_eq, exec_loop]
  exact ⟨ρ', h⟩

/-- The facts about the locals that the rest of the gutter block reads after the glyph loop. -/
def GuP (x : Nat) (c : Child) (ρ : List (String × Int)) : Prop :=
  lookup ρ "v15.Surface.Size.Height" = some (c.height : Int) ∧ lookup ρ "v15.Origin.Row" = some c.row ∧
  lookup ρ "v16.Size.Height" = some (c.height : Int) ∧ lookup ρ "v16.Widget" = some (c.idx : Int) ∧
  lookup ρ "v14" = some (x : Int)

theorem l17_exec (R : Ro) (st : St) (cs : List Child) (ρ : List (String × Int)) (tag : String) (F : Nat) (x : Nat) (c : Child)
    (hF : c.height + 1 ≤ F) (hP : GuP x c ρ) :
    ∃ ρ', exec R guL17 F ⟨st, cs, ("v17", 0) :: ρ, ["v14", "v3"], tag⟩ = .ok (⟨st, cs, ρ', ["v14", "v3"], tag⟩, .norm) ∧ GuP x c ρ' := by
  obtain ⟨ρ', h, hP'⟩ := count_loop R l17c l17b l17p st cs ["v14", "v3"] tag "v17" (c.height : Int) (GuP x c)
    (by intro ρ y hPρ hv; xs [l17c, guL17, hv, hPρ.1])
    (by intro f m; xs [l17b, guL17])
    (by intro f ρ y hv; xs [l17p, guL17, hv])
    (by intro ρ y hPρ; unfold GuP at *; simpa [lookup] using hPρ) c.height 0 (("v17", 0) :: ρ) F
    (by unfold GuP at *; simpa [lookup] using hP) (by simp [lookup]) (by omega) hF
  rw [guL17_eq, exec_loop]
  exact ⟨ρ', h, hP'⟩

theorem gu_exec (R : Ro) (st : St) (cs : List Child) (ρ : List (String × Int)) (tag : String) (F : Nat) (x : Nat)
    (hx : usubI ↑st.cursor ↑st.top = ↑x) (hFH : R.H + 1 ≤ F) (hFc : ∀ c ∈ cs, c.height + 1 ≤ F) :
    ∃ ρ' us', exec R draw14 F ⟨st, cs, ρ, ["v3"], tag⟩ = .ok (⟨st, cs, ρ', us', tag⟩, .norm) ∧
      (us' = ["v3"] ∨ us' = ["v14", "v3"]) := by
  rw [draw14_eq]
  cases hdc : R.drawCursor
  · exact ⟨ρ, ["v3"], by xs [draw14T, hdc], Or.inl rfl⟩
  · obtain ⟨ρb, h13⟩ := l13_exec R st cs ρ tag F hFH
    by_cases hcond : st.cursor ≥ st.top ∧ x < cs.length
    · have hxl := hcond.2
      have hget : cs[x]? = some cs[x] := List.getElem?_eq_getElem hxl
      have hc1 : (st.top : Int) ≤ st.cursor := by omega
      have hc2 : (x : Int) < cs.length := by omega
      have hneg : ¬ ((x : Int) < 0) := by omega
      have hxl' : ¬ (cs.length ≤ x) := by omega
      obtain ⟨ρe, h17, hP⟩ := l17_exec R st cs
        (("v16.Widget", (cs[x].idx : Int)) :: ("v16.Size.Height", (cs[x].height : Int)) :: ("v15.Surface.Widget", (cs[x].idx : Int)) ::
          ("v15.Surface.Size.Height", (cs[x].height : Int)) :: ("v15.Origin.Row", cs[x].row) :: ("v14", (x : Int)) :: ρb) tag F x cs[x]
        (hFc _ (List.getElem_mem hxl)) (by unfold GuP; simp [lookup])
      obtain ⟨p1, p2, p3, p4, p5⟩ := hP
      refine ⟨("v18.Surface.Widget", (cs[x].idx : Int)) :: ("v18.Surface.Size.Height", (cs[x].height : Int)) ::
        ("v18.Origin.Row", cs[x].row) :: ρe, ["v14", "v3"], ?_, Or.inr rfl⟩
      xs [draw14T, hdc, h13, hx, hcond.1, hc1, hc2, hxl, hxl', hneg, hget, h17, p1, p2, p3, p4, p5, setAt]
      have : ({ idx := cs[x].idx, row := cs[x].row, height := cs[x].height } : Child) = cs[x] := rfl
      rw [this, List.set_getElem_self]
    · refine ⟨("v14", (x : Int)) :: ρb, ["v14", "v3"], ?_, Or.inr rfl⟩
      by_cases h1 : st.cursor ≥ st.top
      · have hc1 : (st.top : Int) ≤ st.cursor := by omega
        have h2 : ¬ (x < cs.length) := fun h => hcond ⟨h1, h⟩
        have hc2 : ¬ ((x : Int) < cs.length) := by omega
        xs [draw14T, hdc, h13, hx, h1, hc1, h2, hc2]
      · have hc1 : ¬ ((st.top : Int) ≤ st.cursor) := by omega
        xs [draw14T, hdc, h13, hx, h1, hc1]

theorem gutter_ok (cfg : Cfg) (cs : List Child) (s : St) : gutter Facts.fixed cfg cs s = .ok () := by
  unfold gutter
  by_cases h : cfg.drawCursor = true ∧ (Facts.fixed.cursorGuard = false ∨ s.cursor ≥ s.top)
  · rw [if_pos h, show Facts.fixed.uintIndex = true from rfl, cursorChild_x cs s.cursor s.top _ rfl]
    generalize usub s.cursor s.top = x
    by_cases hl : x < cs.length
    · rw [if_pos hl, List.getElem?_eq_getElem hl]
    · rw [if_neg hl]
  · rw [if_neg h]

/-! #### the whole of `Draw` -/

/-- The read-only part `runDraw` executes `Draw` with. -/
def drawRo (hs : List Nat) (cfg : Cfg) (W H : Nat) : Ro :=
  { roBase (builder hs) cfg W H with
    call := fun n => if n = "d.insertChildren" then some (insertCallee expBodies (roBase (builder hs) cfg W H)) else Option.none }

theorem toUintI_sub' (a b : Nat) : usubI ↑a ↑b = ((usub a b : Nat) : Int) := by
  unfold usubI toUintI usub; rw [U_val, U_nat]; omega

theorem pro_facts (s : St) : (prologue s).2.top = s.top ∧ (prologue s).2.cursor = s.cursor ∧
    ((prologue s).1 > 0 → 1 ≤ s.top) := by
  unfold prologue
  simp only []
  split
  · rename_i h; exact ⟨rfl, rfl, fun h' => by omega⟩
  · rename_i h
    refine ⟨rfl, rfl, fun h' => ?_⟩
    by_cases h0 : s.top = 0
    · exact absurd ⟨h', h0⟩ h
    · omega

theorem d17_exec (R : Ro) (F : Nat) (m : M) : ∃ vs, exec R (seqOf [draw17]) F m = .ok (m, .ret vs) := by
  exact ⟨[(look R m "v1").getD 1, 0], by simp [seqOf, exec, atom, draw17, retVals, retVal]⟩

theorem draw_exec (hs : List Nat) (cfg : Cfg) (s : St) (W H F : Nat)
    (ht : s.top < 2 ^ 64) (hlen : hs.length < 2 ^ 64)
    (hF : s.top + hs.length + 2 ≤ F) (hFH : H + 1 ≤ F) (hFh : ∀ h ∈ hs, h + 1 ≤ F) :
    runDraw expBodies (builder hs) cfg s W H F =
      (match draw Facts.fixed cfg hs s W H with
       | .ok r => .ok r
       | .error _ => .error .panic) := by
  have hRo : runDraw expBodies (builder hs) cfg s W H F =
      (match exec (drawRo hs cfg W H) (seqOf drawParts) F ⟨s, [], [], [], ""⟩ with
       | .error e => .error e
       | .ok (m, _) => .ok (m.st, m.cs)) := rfl
  rw [hRo]
  generalize hR : drawRo hs cfg W H = R
  have hb : R.b = builder hs := by rw [← hR]; rfl
  have hgap : R.gap = cfg.gap := by rw [← hR]; rfl
  have hH : R.H = H := by rw [← hR]; rfl
  have hW : R.W = W := by rw [← hR]; rfl
  have hcall : R.call "d.insertChildren" = some (insertCallee expBodies (roBase (builder hs) cfg W H)) := by rw [← hR]; rfl
  unfold draw
  by_cases hub : H = 65535 ∨ W = 65535
  · have hub' : R.H = 65535 ∨ R.W = 65535 := by rw [hH, hW]; exact hub
    rw [if_pos hub]
    unfold drawParts
    rw [seqOf_cons, d0_exec, if_pos hub']
  · have hub' : ¬ (R.H = 65535 ∨ R.W = 65535) := by rw [hH, hW]; exact hub
    rw [if_neg hub]
    unfold drawParts
    rw [seqOf_cons, d0_exec, if_neg hub']
    simp only []
    rw [seqOf_cons, d1_exec]
    simp only []
    -- the walk back
    obtain ⟨hc1, hc2, hc3, hc4, hc5, _⟩ := DynList.clampTop_spec hs s (by unfold U; exact ht)
    have hcl : exec R draw2 F ⟨s, [], [], [], ""⟩ = .ok (⟨clampTop true hs s, [], [], [], ""⟩, .norm) := by
      obtain ⟨cursor, top, offset, pending, wants⟩ := s
      rw [draw2_eq, exec_loop]
      exact cl_loop R hs hb cursor pending wants [] [] [] "" top top offset F ht (Nat.le_refl _) (by simp only [] at hF; omega)
    rw [seqOf_cons, hcl]
    simp only [show Facts.fixed.clampTop = true from rfl, show Facts.fixed.gapAbove = true from rfl,
      show Facts.fixed.insertStops = true from rfl, show Facts.fixed.revealAbove = true from rfl,
      show Facts.fixed.uintIndex = true from rfl, ↓reduceIte]
    generalize clampTop true hs s = s1 at hc1 hc2 hc3 hc4 hc5 ⊢
    -- the prologue
    obtain ⟨ρ1, hp, hp2, hp3⟩ := pro_exec R s1 [] "" F [draw7, draw8, draw9, draw10, draw11, draw12, draw13, draw14, draw15, draw16, draw17]
    rw [hp]
    obtain ⟨hpt, hpc, hpp⟩ := pro_facts s1
    generalize prologue s1 = p at hp2 hp3 hpt hpc hpp ⊢
    obtain ⟨ah1, s2⟩ := p
    simp only [] at hp2 hp3 hpt hpc hpp ⊢
    -- the upward scroll
    have hsu := su_exec R (roBase (builder hs) cfg W H) hs hcall rfl (by rw [hgap]; rfl) s2 ρ1 "" F ah1 _ hp2 hp3
      (fun h => by have := hpp h; omega) (by omega) (by omega)
    rw [hgap] at hsu
    rw [seqOf_cons]
    cases hsc : scrollUp true cfg.gap hs s2 ah1 with
    | error e =>
      rw [hsc] at hsu
      simp only [] at hsu ⊢
      rw [hsu]
    | ok r =>
      obtain ⟨ah2, s3, cs0⟩ := r
      rw [hsc] at hsu
      simp only [] at hsu ⊢
      obtain ⟨ρ2, hd7, hv2, hv3⟩ := hsu
      rw [hd7]
      simp only []
      have hsp := DynList.scrollUp_spec true cfg.gap hs s2 ah1 ah2 s3 cs0 hsc (by unfold U; omega)
        (fun h => by have := hpp h; omega)
      have hH1 := (DynList.drawDown_spec cfg.gap s3.wantsCursor s3.cursor (↑H) hs (hs.drop s2.top) s2.top ah2 cs0 rfl
        hsp.1 hsp.2.1 hsp.2.2.1).2
      -- colOffset
      obtain ⟨ρ3, h89, h89a, h89b⟩ := d89_exec R s3 cs0 ρ2 "" F [draw10, draw11, draw12, draw13, draw14, draw15, draw16, draw17]
      rw [h89]
      rw [hv2] at h89a
      rw [hv3] at h89b
      -- the downward loop
      have hbound : s2.top + (hs.drop s2.top).length < 2 ^ 64 := by
        rw [List.length_drop]
        rcases hc2 with h | h <;> omega
      obtain ⟨ρ4, hdd⟩ := dd_loop R hs hb s3 "" (hs.drop s2.top) s2.top ah2 cs0 ρ3 F rfl hbound
        (by rw [List.length_drop]; omega) h89a h89b
      rw [seqOf_cons, draw10_eq, exec_loop, hdd]
      simp only []
      rw [hgap, hH]
      generalize drawDown cfg.gap s3.wantsCursor s3.cursor (↑H) (List.drop s2.top hs) s2.top ah2 cs0 = cs1 at hH1 ⊢
      have hFc : ∀ c ∈ cs1, c.height + 1 ≤ F := fun c hc => hFh _ (List.mem_of_getElem? (hH1 c hc))
      -- totalHeight
      obtain ⟨ρ5, hth⟩ := th_exec R s3 cs1 ρ4 "" F [draw14, draw15, draw16, draw17]
      rw [hth]
      -- the gutter
      obtain ⟨ρ6, us6, hgu, hus6⟩ := gu_exec R s3 cs1 ρ5 "" F (usub s3.cursor s3.top) (toUintI_sub' _ _) (by rw [hH]; exact hFH) hFc
      rw [seqOf_cons, hgu, gutter_ok]
      simp only []
      -- the wants-cursor block
      obtain ⟨ρ7, us7, hrv, hus7⟩ := rv_exec R s3 cs1 ρ6 us6 hus6 "" F (usub s3.cursor s3.top) (toUintI_sub' _ _)
      rw [seqOf_cons, draw15_eq, hrv, reveal_eq cs1 s3 H _ rfl, hH]
      simp only []
      generalize revealX cs1 s3 H (usub s3.cursor s3.top) = rr
      obtain ⟨cs2, s4⟩ := rr
      obtain ⟨c4, t4, o4, p4, w4⟩ := s4
      simp only []
      -- the final loop
      have hus7' : us7 = ["v3"] ∨ us7 = ["v14", "v3"] ∨ us7 = ["v19", "v3"] ∨ us7 = ["v19", "v14", "v3"] := by
        rcases hus7 with h | h <;> rcases hus6 with h' | h' <;> subst h <;> subst h' <;> simp
      obtain ⟨ρ8, hrt⟩ := rt_range R c4 p4 w4 us7 hus7' "" F cs2 [] t4 o4 ρ7
      simp only [List.nil_append, List.length_nil] at hrt
      rw [seqOf_cons, draw16_eq, exec_range]
      simp only []
      rw [hrt, hgap]
      simp only []
      obtain ⟨vs, h17⟩ := d17_exec R F ⟨⟨c4, (retop cfg.gap cs2 0 (t4, o4)).1, (retop cfg.gap cs2 0 (t4, o4)).2, p4, w4⟩, cs2, ρ8, us7, ""⟩
      rw [h17]

/-! #### an endless Builder of zero-height widgets: `Draw` never returns -/

theorem hang_loop (R : Ro) (hb : ∀ i, R.b i = some 0) (hgap : R.gap = 0) (hH : 1 ≤ R.H) (st : St) (hw : st.wantsCursor = false)
    (tag : String) : ∀ (F : Nat) (acc : List Child) (ρ : List (String × Int)) (i : Nat),
      lookup ρ "v2" = some 0 → lookup ρ "v3" = some ↑i →
      loopN (fun m => evB R m ddCond) (exec R ddBody) (exec R .skip) F ⟨st, acc, ρ, ["v3"], tag⟩ = .error .oof := by
  intro F
  induction F with
  | zero => intro acc ρ i _ _; rfl
  | succ F ih =>
    intro acc ρ i hv2 hv3
    have hbody := dd_body R st acc ρ tag F 0 i (uadd i 1) 0 hv2 hv3 (hb i) (toUintI_add1 i)
    have hnw : ¬ (st.wantsCursor = true ∧ uadd i 1 ≤ st.cursor) := by rw [hw]; simp
    have hnH : ¬ ((0 : Int) + (((0 : Nat) : Int) + R.gap) ≥ R.H) := by rw [hgap]; omega
    rw [if_neg hnw, if_neg hnH] at hbody
    rw [loopN, dd_cond, hbody]
    simp only [exec_skip]
    exact ih _ _ (uadd i 1) (by simp [ddRho, lookup, hgap]) (by simp [ddRho, lookup])

theorem cl_cond0 (R : Ro) (m : M) (h0 : m.st.top = 0) : evB R m clCond = some false := by
  xs [clCond, draw2, h0]

theorem draw_hang (W H F : Nat) (hH : 1 ≤ H) (h1 : H ≠ 65535) (h2 : W ≠ 65535) :
    runDraw expBodies (fun _ => some 0) ⟨0, false⟩ init W H F = .error .oof := by
  have hRo : runDraw expBodies (fun _ => some 0) ⟨0, false⟩ init W H F =
      (match exec { roBase (fun _ => some 0) ⟨0, false⟩ W H with
          call := fun n => if n = "d.insertChildren" then some (insertCallee expBodies (roBase (fun _ => some 0) ⟨0, false⟩ W H)) else Option.none }
        (seqOf drawParts) F ⟨init, [], [], [], ""⟩ with
       | .error e => .error e
       | .ok (m, _) => .ok (m.st, m.cs)) := rfl
  rw [hRo]
  generalize hR : ({ roBase (fun _ => some 0) ⟨0, false⟩ W H with
          call := fun n => if n = "d.insertChildren" then some (insertCallee expBodies (roBase (fun _ => some 0) ⟨0, false⟩ W H)) else Option.none } : Ro) = R
  have hb : ∀ i, R.b i = some 0 := by intro i; rw [← hR]; rfl
  have hgap : R.gap = 0 := by rw [← hR]; rfl
  have hRH : R.H = H := by rw [← hR]; rfl
  have hRW : R.W = W := by rw [← hR]; rfl
  have hdc : R.drawCursor = false := by rw [← hR]; rfl
  have hub' : ¬ (R.H = 65535 ∨ R.W = 65535) := by rw [hRH, hRW]; omega
  unfold drawParts
  rw [seqOf_cons, d0_exec, if_neg hub']
  simp only []
  rw [seqOf_cons, d1_exec]
  simp only []
  rw [seqOf_cons, draw2_eq, exec_loop]
  cases F with
  | zero => rfl
  | succ F' =>
    rw [loopN, cl_cond0 R _ rfl]
    simp only []
    obtain ⟨ρ1, hp, hp2, hp3⟩ := pro_exec R init [] "" (F' + 1) [draw7, draw8, draw9, draw10, draw11, draw12, draw13, draw14, draw15, draw16, draw17]
    rw [hp]
    have hpro : prologue init = (0, init) := by decide
    rw [hpro] at hp2 hp3 ⊢
    simp only [] at hp2 hp3 ⊢
    have h7 : exec R draw7 (F' + 1) ⟨init, [], ρ1, ["v3"], ""⟩ = .ok (⟨init, [], ρ1, ["v3"], ""⟩, .norm) := by
      xs [draw7, hp2]
    rw [seqOf_cons, h7]
    simp only []
    obtain ⟨ρ3, h89, h89a, h89b⟩ := d89_exec R init [] ρ1 "" (F' + 1) [draw10, draw11, draw12, draw13, draw14, draw15, draw16, draw17]
    rw [h89, seqOf_cons, draw10_eq, exec_loop]
    rw [hp2] at h89a
    rw [hp3] at h89b
    rw [hang_loop R hb hgap (by omega) init rfl "" (F' + 1) [] ρ3 0 h89a h89b]

end VaxisModel.Lemmas.DynExec
