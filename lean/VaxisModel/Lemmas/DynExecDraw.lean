import VaxisModel.Lemmas.DynExec

/-! `Dynamic.Draw`, executed phase by phase (`Model/DynExec.lean` on the trees `draw0 … draw17` of
    `Lemmas/DynTrees.lean`), is `DynList.draw Facts.fixed`. -/
set_option linter.unusedSimpArgs false
set_option linter.unusedVariables false

namespace VaxisModel.Lemmas.DynExec
open VaxisModel.Model VaxisModel.Model.GoSyn VaxisModel.Model.DynExec VaxisModel.Model.DynList
open VaxisModel.Lemmas VaxisModel.Lemmas.DynTrees

local macro "xs" "[" ts:Lean.Parser.Tactic.simpLemma,* "]" : tactic =>
  `(tactic| simp [exec, atom, evB, evI, look, lookup, fixedEnv, mkM, bi, tagOf, keyTok, store, VaxisModel.Model.DynExec.bind, bindChild, childOf,
      DynExec.ok, retVals, retVal, isU, seqOf, -Int.toNat_natCast, toNat_cast', $ts,*])

/-! #### the prologue: `ah`, the pending scroll, `i := top` -/

theorem pro_exec (R : Ro) (st : St) (ρ : List (String × Int)) (tag : String) (F : Nat) (rest : List Stmt) :
    ∃ ρ', exec R (seqOf (draw3 :: draw4 :: draw5 :: draw6 :: rest)) F ⟨st, [], ρ, [], tag⟩ =
        exec R (seqOf rest) F ⟨(prologue st).2, [], ρ', ["v3"], tag⟩ ∧
      lookup ρ' "v2" = some (prologue st).1 ∧ lookup ρ' "v3" = some ((prologue st).2.top : Int) := by
  by_cases h : - (st.offset + st.pending) > 0 ∧ st.top = 0
  · have h1 : (st.top : Int) = 0 := by omega
    have h2 : 0 < - (st.offset + st.pending) := h.1
    have h3 : st.offset + st.pending < 0 := by omega
    have hp : prologue st = (0, { st with pending := 0, offset := 0 }) := by
      unfold prologue; simp [h3, h.2]
    rw [hp]
    refine ⟨("v3", (st.top : Int)) :: ("v2", 0) :: ("v2", - (st.offset + st.pending)) :: ρ, ?_, ?_, ?_⟩
    · xs [draw3, draw4, draw5, draw6, h, h.1, h.2, h1, h2, h3]
    · simp [lookup]
    · simp [lookup]
  · have hn : ¬ (st.offset + st.pending < 0 ∧ st.top = 0) := fun ⟨a, b⟩ => h ⟨by omega, b⟩
    have hp : prologue st = (- (st.offset + st.pending), { st with pending := 0 }) := by
      unfold prologue; simp [hn]
    rw [hp]
    refine ⟨("v3", (st.top : Int)) :: ("v2", - (st.offset + st.pending)) :: ρ, ?_, ?_, ?_⟩
    · by_cases h0 : st.top = 0
      · have h2 : ¬ (0 < - (st.offset + st.pending)) := fun h' => h ⟨h', h0⟩
        have h3 : ¬ (st.offset + st.pending < 0) := by omega
        xs [draw3, draw4, draw5, draw6, h, h0, h2, h3]
      · have h1 : ¬ ((st.top : Int) = 0) := by omega
        xs [draw3, draw4, draw5, draw6, h, h0, h1]
    · simp [lookup]
    · simp [lookup]

/-! #### the upward scroll: `insertChildren` and the last child -/

theorem su_exec (R R0 : Ro) (hs : List Nat) (hcall : R.call "d.insertChildren" = some (insertCallee expBodies R0))
    (hb0 : R0.b = builder hs) (hg : R0.gap = R.gap)
    (st : St) (ρ : List (String × Int)) (tag : String) (F : Nat) (ah1 v : Int)
    (hv2 : lookup ρ "v2" = some ah1) (hv3 : lookup ρ "v3" = some v)
    (htop : ah1 > 0 → 1 ≤ st.top) (hlt : st.top < 2 ^ 64) (hF : st.top + 1 ≤ F) :
    match scrollUp true R.gap hs st ah1 with
    | .error _ => exec R draw7 F ⟨st, [], ρ, ["v3"], tag⟩ = .error .panic
    | .ok (ah2, s2, cs0) => ∃ ρ', exec R draw7 F ⟨st, [], ρ, ["v3"], tag⟩ = .ok (⟨s2, cs0, ρ', ["v3"], tag⟩, .norm) ∧
        lookup ρ' "v2" = some ah2 ∧ lookup ρ' "v3" = some v := by
  unfold scrollUp
  by_cases hah : ah1 > 0
  · have hins := ins_exec R0 hs hb0 st tag F ah1 (htop hah) hlt hF
    rw [hg] at hins
    have hcm := callMethod_proj R F ⟨st, [], ρ, ["v3"], tag⟩ "d.insertChildren" [ah1] _ hcall _ _ _
      (by simpa [insertCallee, expBodies] using hins)
    simp only [ctlVals] at hcm
    simp only [hah, ↓reduceIte]
    generalize insertChildren true R.gap hs st.top ah1 = r at hcm ⊢
    obtain ⟨t, o, cs0⟩ := r
    simp only [] at hcm ⊢
    cases hl : cs0.getLast? with
    | none =>
      have : cs0 = [] := List.getLast?_eq_none_iff.mp hl
      subst this
      xs [draw7, hv2, hah, hcm]
    | some last =>
      have hne : cs0 ≠ [] := by intro h; subst h; simp at hl
      have hlen : 0 < cs0.length := List.length_pos_iff.mpr hne
      have hidx : cs0[cs0.length - 1]? = some last := by
        rw [List.getLast?_eq_getElem?] at hl; exact hl
      have hnn : ¬ ((cs0.length : Int) - 1 < 0) := by omega
      refine ⟨("v2", last.row + ↑last.height + R.gap) :: ("v5.Surface.Widget", (last.idx : Int)) ::
        ("v5.Surface.Size.Height", (last.height : Int)) :: ("v5.Origin.Row", last.row) :: ("v4", 0) :: ρ, ?_, ?_, ?_⟩
      · xs [draw7, hv2, hah, hcm, hidx, hnn]
      · simp [lookup]
      · simp [lookup, hv3]
  · simp only [hah, ↓reduceIte]
    refine ⟨ρ, ?_, hv2, hv3⟩
    xs [draw7, hv2, hah]

/-! #### the downward loop -/

def ddBody : Stmt := match draw10 with | .loop _ b _ => b | _ => .skip
def ddCond : Expr := match draw10 with | .loop c _ _ => c | _ => .none
theorem draw10_eq : draw10 = .loop ddCond ddBody .skip := rfl

def ddRho (i h : Nat) (ah' : Int) (ρ : List (String × Int)) : List (String × Int) :=
  ("v2", ah') :: ("v10", 0) :: ("v9.Widget", (i : Int)) :: ("v9.Size.Height", (h : Int)) :: ("v8", 1) ::
  ("v3", ((i + 1 : Nat) : Int)) :: ("v7.Draw.Widget", (i : Int)) :: ("v7.Draw.Size.Height", (h : Int)) :: ("v7", 1) :: ρ

theorem dd_cond (R : Ro) (m : M) : evB R m ddCond = some true := by
  xs [ddCond, draw10]

theorem dd_body_nil (R : Ro) (hs : List Nat) (hb : R.b = builder hs) (st : St) (acc : List Child) (ρ : List (String × Int))
    (tag : String) (F : Nat) (i : Nat) (hv3 : lookup ρ "v3" = some ↑i) (hbt : builder hs i = none) :
    exec R ddBody F ⟨st, acc, ρ, ["v3"], tag⟩ = .ok (⟨st, acc, ("v7", 0) :: ρ, ["v3"], tag⟩, .brk) := by
  xs [ddBody, draw10, hb, hv3, hbt]

theorem dd_body (R : Ro) (hs : List Nat) (hb : R.b = builder hs) (st : St) (acc : List Child) (ρ : List (String × Int))
    (tag : String) (F : Nat) (ah : Int) (i h : Nat) (hv2 : lookup ρ "v2" = some ah) (hv3 : lookup ρ "v3" = some ↑i)
    (hbt : builder hs i = some h) (hi : uaddI ↑i 1 = ↑(i + 1)) :
    exec R ddBody F ⟨st, acc, ρ, ["v3"], tag⟩ =
      .ok (⟨st, acc ++ [{ idx := i, row := ah, height := h }], ddRho i h (ah + (↑h + R.gap)) ρ, ["v3"], tag⟩,
        if st.wantsCursor = true ∧ i + 1 ≤ st.cursor then .cont else if ah + (↑h + R.gap) ≥ R.H then .brk else .norm) := by
  by_cases hw : st.wantsCursor = true ∧ i + 1 ≤ st.cursor
  · have hc' : (i : Int) + 1 ≤ st.cursor := by omega
    xs [ddBody, draw10, hb, hv2, hv3, hbt, hi, hw, hw.1, hw.2, hc', ddRho]
  · by_cases hH : ah + (↑h + R.gap) ≥ R.H
    · by_cases hw1 : st.wantsCursor = true
      · have hc : ¬ (i + 1 ≤ st.cursor) := fun h => hw ⟨hw1, h⟩
        have hc' : ¬ ((i : Int) + 1 ≤ st.cursor) := by omega
        xs [ddBody, draw10, hb, hv2, hv3, hbt, hi, hw, hw1, hc, hc', hH, ddRho]
      · xs [ddBody, draw10, hb, hv2, hv3, hbt, hi, hw, hw1, hH, ddRho]
    · have hH' : ¬ ((R.H : Int) ≤ ah + (↑h + R.gap)) := hH
      by_cases hw1 : st.wantsCursor = true
      · have hc : ¬ (i + 1 ≤ st.cursor) := fun h => hw ⟨hw1, h⟩
        have hc' : ¬ ((i : Int) + 1 ≤ st.cursor) := by omega
        xs [ddBody, draw10, hb, hv2, hv3, hbt, hi, hw, hw1, hc, hc', hH, hH', ddRho]
      · xs [ddBody, draw10, hb, hv2, hv3, hbt, hi, hw, hw1, hH, hH', ddRho]

theorem dd_loop (R : Ro) (hs : List Nat) (hb : R.b = builder hs) (st : St) (tag : String) :
    ∀ (rest : List Nat) (i : Nat) (ah : Int) (acc : List Child) (ρ : List (String × Int)) (F : Nat),
      rest = hs.drop i → i + rest.length < 2 ^ 64 → rest.length + 1 ≤ F →
      lookup ρ "v2" = some ah → lookup ρ "v3" = some ↑i →
      ∃ ρ', loopN (fun m => evB R m ddCond) (exec R ddBody) (exec R .skip) F ⟨st, acc, ρ, ["v3"], tag⟩ =
        .ok (⟨st, drawDown R.gap st.wantsCursor st.cursor R.H rest i ah acc, ρ', ["v3"], tag⟩, .norm) := by
  intro rest
  induction rest with
  | nil =>
    intro i ah acc ρ F hd hlt hF hv2 hv3
    obtain ⟨F', rfl⟩ : ∃ F', F = F' + 1 := ⟨F - 1, by omega⟩
    have hbt : builder hs i = none := by
      unfold builder
      have : hs.length ≤ i := List.drop_eq_nil_iff.mp hd.symm
      simp [this]
    rw [loopN, dd_cond, dd_body_nil R hs hb st acc ρ tag F' i hv3 hbt]
    exact ⟨_, rfl⟩
  | cons h rest ih =>
    intro i ah acc ρ F hd hlt hF hv2 hv3
    obtain ⟨F', rfl⟩ : ∃ F', F = F' + 1 := ⟨F - 1, by omega⟩
    have hbt : builder hs i = some h := by
      unfold builder
      have := congrArg List.head? hd
      simp at this
      exact this.symm
    have hd' : rest = hs.drop (i + 1) := by
      have := congrArg List.tail hd
      simpa using this
    have hi : uaddI ↑i 1 = ↑(i + 1) := by
      simp only [List.length_cons] at hlt
      unfold uaddI toUintI; rw [U_val]; omega
    simp only [List.length_cons] at hlt hF
    rw [loopN, dd_cond, dd_body R hs hb st acc ρ tag F' ah i h hv2 hv3 hbt hi]
    unfold drawDown
    have hassoc : ah + (h : Int) + R.gap = ah + (↑h + R.gap) := Int.add_assoc _ _ _
    simp only [hassoc]
    obtain ⟨ρ', hr⟩ := ih (i + 1) (ah + (↑h + R.gap)) (acc ++ [{ idx := i, row := ah, height := h }])
      (ddRho i h (ah + (↑h + R.gap)) ρ) F' hd' (by omega) (by omega) (by simp [ddRho, lookup]) (by simp [ddRho, lookup])
    by_cases hw : st.wantsCursor = true ∧ i + 1 ≤ st.cursor
    · simp only [if_pos hw, exec_skip]
      exact ⟨ρ', hr⟩
    · by_cases hH : ah + (↑h + R.gap) ≥ R.H
      · simp only [if_neg hw, if_pos hH]
        exact ⟨_, rfl⟩
      · simp only [if_neg hw, if_neg hH, exec_skip]
        exact ⟨ρ', hr⟩

end VaxisModel.Lemmas.DynExec
