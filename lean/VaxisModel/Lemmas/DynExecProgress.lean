import VaxisModel.Lemmas.DynExecDraw

/-! The counterpart of F119i: a Builder that NEVER returns nil (an endless list) but whose widgets make progress
    (height + gap ≥ 1) is drawn in one frame with at most `max 1 H` children — `Draw`, executed from its regenerated
    body, returns.  So the non-termination of F119i needs BOTH an endless Builder and zero progress. -/
set_option linter.unusedSimpArgs false
set_option linter.unusedVariables false

namespace VaxisModel.Lemmas.DynExec
open VaxisModel.Model VaxisModel.Model.GoSyn VaxisModel.Model.DynExec VaxisModel.Model.DynList
open VaxisModel.Lemmas VaxisModel.Lemmas.DynTrees

local macro "xs" "[" ts:Lean.Parser.Tactic.simpLemma,* "]" : tactic =>
  `(tactic| simp [exec, atom, evB, evI, look, lookup, fixedEnv, mkM, bi, tagOf, keyTok, store, VaxisModel.Model.DynExec.bind, bindChild, childOf,
      DynExec.ok, retVals, retVal, isU, seqOf, -Int.toNat_natCast, toNat_cast', $ts,*])

/-- The downward loop on a Builder whose widgets make progress: it stops after at most `k` more widgets, `k` = the rows
    still missing to fill the viewport (at least one widget is always drawn). -/
theorem pos_loop (R : Ro) (Mx : Nat) (hb : ∀ i, ∃ h, R.b i = some h ∧ h ≤ Mx ∧ 1 ≤ (h : Int) + R.gap) (st : St)
    (hw : st.wantsCursor = false) (tag : String) :
    ∀ (k : Nat) (F : Nat) (acc : List Child) (ρ : List (String × Int)) (i : Nat) (ah : Int),
      ((R.H : Int) - ah).toNat ≤ k → k + 2 ≤ F → i + k + 1 < 2 ^ 64 →
      lookup ρ "v2" = some ah → lookup ρ "v3" = some ↑i → (∀ c ∈ acc, c.height ≤ Mx) →
      ∃ acc' ρ', loopN (fun m => evB R m ddCond) (exec R ddBody) (exec R .skip) F ⟨st, acc, ρ, ["v3"], tag⟩ =
          .ok (⟨st, acc', ρ', ["v3"], tag⟩, .norm) ∧ acc'.length ≤ acc.length + max k 1 ∧ (∀ c ∈ acc', c.height ≤ Mx) := by
  intro k
  induction k with
  | zero =>
    intro F acc ρ i ah hk hF hi hv2 hv3 hacc
    obtain ⟨F', rfl⟩ : ∃ F', F = F' + 1 := ⟨F - 1, by omega⟩
    obtain ⟨h, hbi, hM, hp⟩ := hb i
    have hy : uaddI ↑i 1 = ((i + 1 : Nat) : Int) := by
      unfold uaddI toUintI; rw [U_val]; omega
    have hbody := dd_body R st acc ρ tag F' ah i (i + 1) h hv2 hv3 hbi hy
    have hnw : ¬ (st.wantsCursor = true ∧ i + 1 ≤ st.cursor) := by rw [hw]; simp
    have hH : ah + (↑h + R.gap) ≥ R.H := by omega
    rw [if_neg hnw, if_pos hH] at hbody
    rw [loopN, dd_cond, hbody]
    refine ⟨_, _, rfl, by simp, ?_⟩
    intro c hc
    rcases List.mem_append.mp hc with h' | h'
    · exact hacc c h'
    · simp at h'; subst h'; exact hM
  | succ k ih =>
    intro F acc ρ i ah hk hF hi hv2 hv3 hacc
    obtain ⟨F', rfl⟩ : ∃ F', F = F' + 1 := ⟨F - 1, by omega⟩
    obtain ⟨h, hbi, hM, hp⟩ := hb i
    have hy : uaddI ↑i 1 = ((i + 1 : Nat) : Int) := by
      unfold uaddI toUintI; rw [U_val]; omega
    have hbody := dd_body R st acc ρ tag F' ah i (i + 1) h hv2 hv3 hbi hy
    have hnw : ¬ (st.wantsCursor = true ∧ i + 1 ≤ st.cursor) := by rw [hw]; simp
    rw [if_neg hnw] at hbody
    have hacc' : ∀ c ∈ acc ++ [{ idx := i, row := ah, height := h }], c.height ≤ Mx := by
      intro c hc
      rcases List.mem_append.mp hc with h' | h'
      · exact hacc c h'
      · simp at h'; subst h'; exact hM
    by_cases hH : ah + (↑h + R.gap) ≥ R.H
    · rw [if_pos hH] at hbody
      rw [loopN, dd_cond, hbody]
      exact ⟨_, _, rfl, by simp, hacc'⟩
    · rw [if_neg hH] at hbody
      rw [loopN, dd_cond, hbody]
      simp only [exec_skip]
      obtain ⟨acc', ρ', he, hl, hm⟩ := ih F' (acc ++ [{ idx := i, row := ah, height := h }]) (ddRho i (i + 1) h (ah + (↑h + R.gap)) ρ)
        (i + 1) (ah + (↑h + R.gap)) (by omega) (by omega) (by omega) (by simp [ddRho, lookup]) (by simp [ddRho, lookup]) hacc'
      refine ⟨acc', ρ', he, ?_, hm⟩
      simp only [List.length_append, List.length_cons, List.length_nil] at hl
      omega

/-- **An endless Builder whose widgets make progress is drawn in one bounded frame.**  `Draw` from the initial state,
    executed on the statement trees, returns with at most `max 1 H` children. -/
theorem draw_progress (b : Nat → Option Nat) (cfg : Cfg) (W H F Mx : Nat)
    (hb : ∀ i, ∃ h, b i = some h ∧ h ≤ Mx ∧ 1 ≤ (h : Int) + cfg.gap)
    (h1 : H < 65535) (h2 : W ≠ 65535) (hF : H + Mx + 3 ≤ F) :
    ∃ st cs, runDraw expBodies b cfg init W H F = .ok (st, cs) ∧ cs.length ≤ max H 1 := by
  have hRo : runDraw expBodies b cfg init W H F =
      (match exec { roBase b cfg W H with
          call := fun n => if n = "d.insertChildren" then some (insertCallee expBodies (roBase b cfg W H)) else Option.none }
        (seqOf drawParts) F ⟨init, [], [], [], ""⟩ with
       | .error e => .error e
       | .ok (m, _) => .ok (m.st, m.cs)) := rfl
  rw [hRo]
  generalize hR : ({ roBase b cfg W H with
          call := fun n => if n = "d.insertChildren" then some (insertCallee expBodies (roBase b cfg W H)) else Option.none } : Ro) = R
  have hbR : ∀ i, ∃ h, R.b i = some h ∧ h ≤ Mx ∧ 1 ≤ (h : Int) + R.gap := by intro i; rw [← hR]; exact hb i
  have hRH : R.H = H := by rw [← hR]; rfl
  have hRW : R.W = W := by rw [← hR]; rfl
  have hub' : ¬ (R.H = 65535 ∨ R.W = 65535) := by rw [hRH, hRW]; omega
  obtain ⟨F', rfl⟩ : ∃ F', F = F' + 1 := ⟨F - 1, by omega⟩
  unfold drawParts
  rw [seqOf_cons, d0_exec, if_neg hub']
  simp only []
  rw [seqOf_cons, d1_exec]
  simp only []
  rw [seqOf_cons, draw2_eq, exec_loop, loopN, cl_cond0 R _ rfl]
  simp only []
  obtain ⟨ρ1, hp, hp2, hp3⟩ := pro_exec R init [] "" (F' + 1) [draw7, draw8, draw9, draw10, draw11, draw12, draw13, draw14, draw15, draw16, draw17]
  rw [hp]
  have hpro : prologue init = (0, init) := by decide
  rw [hpro] at hp2 hp3 ⊢
  simp only [] at hp2 hp3 ⊢
  have h7 : exec R draw7 (F' + 1) ⟨init, [], ρ1, ["v3"], ""⟩ = .ok (⟨init, [], ρ1, ["v3"], ""⟩, .norm) := by
    xs [draw7, hp2]
  rw [seqOf_cons, h7]
  simp only []
  obtain ⟨ρ3, h89, h89a, h89b⟩ := d89_exec R init [] ρ1 "" (F' + 1) [draw10, draw11, draw12, draw13, draw14, draw15, draw16, draw17]
  rw [h89, seqOf_cons, draw10_eq, exec_loop]
  rw [hp2] at h89a
  rw [hp3] at h89b
  obtain ⟨cs1, ρ4, hdd, hlen, hMx⟩ := pos_loop R Mx hbR init rfl "" H (F' + 1) [] ρ3 0 0 (by rw [hRH]; omega) (by omega)
    (by omega) h89a h89b (by simp)
  rw [hdd]
  simp only []
  have hFc : ∀ c ∈ cs1, c.height + 1 ≤ F' + 1 := fun c hc => by have := hMx c hc; omega
  obtain ⟨ρ5, hth⟩ := th_exec R init cs1 ρ4 "" (F' + 1) [draw14, draw15, draw16, draw17]
  rw [hth]
  obtain ⟨ρ6, us6, hgu, hus6⟩ := gu_exec R init cs1 ρ5 "" (F' + 1) (usub init.cursor init.top) (toUintI_sub' _ _) (by rw [hRH]; omega) hFc
  rw [seqOf_cons, hgu]
  simp only []
  obtain ⟨ρ7, us7, hrv, hus7⟩ := rv_exec R init cs1 ρ6 us6 hus6 "" (F' + 1) (usub init.cursor init.top) (toUintI_sub' _ _)
  rw [seqOf_cons, draw15_eq, hrv]
  simp only []
  generalize hrr : revealX cs1 init R.H (usub init.cursor init.top) = rr
  have hrl : rr.1.length = cs1.length := by
    rw [← hrr]; unfold revealX; simp [init]
  obtain ⟨cs2, s4⟩ := rr
  obtain ⟨c4, t4, o4, p4, w4⟩ := s4
  simp only [] at hrl ⊢
  have hus7' : us7 = ["v3"] ∨ us7 = ["v14", "v3"] ∨ us7 = ["v19", "v3"] ∨ us7 = ["v19", "v14", "v3"] := by
    rcases hus7 with h | h <;> rcases hus6 with h' | h' <;> subst h <;> subst h' <;> simp
  obtain ⟨ρ8, hrt⟩ := rt_range R c4 p4 w4 us7 hus7' "" (F' + 1) cs2 [] t4 o4 ρ7
  simp only [List.nil_append, List.length_nil] at hrt
  rw [seqOf_cons, draw16_eq, exec_range]
  simp only []
  rw [hrt]
  simp only []
  obtain ⟨vs, h17⟩ := d17_exec R (F' + 1) ⟨⟨c4, (retop R.gap cs2 0 (t4, o4)).1, (retop R.gap cs2 0 (t4, o4)).2, p4, w4⟩, cs2, ρ8, us7, ""⟩
  rw [h17]
  exact ⟨_, _, rfl, by simp only []; rw [hrl]; simpa using hlen⟩

/-! #### from any state in which no upward scroll is due -/

/-- The downward loop in general (the cursor may still have to be reached): it stops after at most `k` more widgets, `k` =
    the larger of the rows still missing and the distance to the cursor. -/
theorem pos_loop2 (R : Ro) (Mx : Nat) (hb : ∀ i, ∃ h, R.b i = some h ∧ h ≤ Mx ∧ 1 ≤ (h : Int) + R.gap) (st : St) (tag : String) :
    ∀ (k : Nat) (F : Nat) (acc : List Child) (ρ : List (String × Int)) (i : Nat) (ah : Int),
      ((R.H : Int) - ah).toNat ≤ k → st.cursor + 1 - i ≤ k → k + 2 ≤ F → i + k + 1 < 2 ^ 64 →
      lookup ρ "v2" = some ah → lookup ρ "v3" = some ↑i → (∀ c ∈ acc, c.height ≤ Mx) →
      ∃ acc' ρ', loopN (fun m => evB R m ddCond) (exec R ddBody) (exec R .skip) F ⟨st, acc, ρ, ["v3"], tag⟩ =
          .ok (⟨st, acc', ρ', ["v3"], tag⟩, .norm) ∧ acc'.length ≤ acc.length + max k 1 ∧ (∀ c ∈ acc', c.height ≤ Mx) := by
  intro k
  induction k with
  | zero =>
    intro F acc ρ i ah hk hcur hF hi hv2 hv3 hacc
    obtain ⟨F', rfl⟩ : ∃ F', F = F' + 1 := ⟨F - 1, by omega⟩
    obtain ⟨h, hbi, hM, hp⟩ := hb i
    have hy : uaddI ↑i 1 = ((i + 1 : Nat) : Int) := by
      unfold uaddI toUintI; rw [U_val]; omega
    have hbody := dd_body R st acc ρ tag F' ah i (i + 1) h hv2 hv3 hbi hy
    have hnw : ¬ (st.wantsCursor = true ∧ i + 1 ≤ st.cursor) := by omega
    have hH : ah + (↑h + R.gap) ≥ R.H := by omega
    rw [if_neg hnw, if_pos hH] at hbody
    rw [loopN, dd_cond, hbody]
    refine ⟨_, _, rfl, by simp, ?_⟩
    intro c hc
    rcases List.mem_append.mp hc with h' | h'
    · exact hacc c h'
    · simp at h'; subst h'; exact hM
  | succ k ih =>
    intro F acc ρ i ah hk hcur hF hi hv2 hv3 hacc
    obtain ⟨F', rfl⟩ : ∃ F', F = F' + 1 := ⟨F - 1, by omega⟩
    obtain ⟨h, hbi, hM, hp⟩ := hb i
    have hy : uaddI ↑i 1 = ((i + 1 : Nat) : Int) := by
      unfold uaddI toUintI; rw [U_val]; omega
    have hbody := dd_body R st acc ρ tag F' ah i (i + 1) h hv2 hv3 hbi hy
    have hacc' : ∀ c ∈ acc ++ [{ idx := i, row := ah, height := h }], c.height ≤ Mx := by
      intro c hc
      rcases List.mem_append.mp hc with h' | h'
      · exact hacc c h'
      · simp at h'; subst h'; exact hM
    have hrec := ih F' (acc ++ [{ idx := i, row := ah, height := h }]) (ddRho i (i + 1) h (ah + (↑h + R.gap)) ρ)
        (i + 1) (ah + (↑h + R.gap)) (by omega) (by omega) (by omega) (by omega) (by simp [ddRho, lookup]) (by simp [ddRho, lookup]) hacc'
    by_cases hwc : st.wantsCursor = true ∧ i + 1 ≤ st.cursor
    · rw [if_pos hwc] at hbody
      rw [loopN, dd_cond, hbody]
      simp only [exec_skip]
      obtain ⟨acc', ρ', he, hl, hm⟩ := hrec
      refine ⟨acc', ρ', he, ?_, hm⟩
      simp only [List.length_append, List.length_cons, List.length_nil] at hl
      omega
    · rw [if_neg hwc] at hbody
      by_cases hH : ah + (↑h + R.gap) ≥ R.H
      · rw [if_pos hH] at hbody
        rw [loopN, dd_cond, hbody]
        exact ⟨_, _, rfl, by simp, hacc'⟩
      · rw [if_neg hH] at hbody
        rw [loopN, dd_cond, hbody]
        simp only [exec_skip]
        obtain ⟨acc', ρ', he, hl, hm⟩ := hrec
        refine ⟨acc', ρ', he, ?_, hm⟩
        simp only [List.length_append, List.length_cons, List.length_nil] at hl
        omega

theorem cl_cond_some (R : Ro) (m : M) (h : Nat) (hb : R.b m.st.top = some h) : evB R m clCond = some false := by
  xs [clCond, draw2, hb]

theorem revealX_length (cs : List Child) (s : St) (H x : Nat) : (revealX cs s H x).1.length = cs.length := by
  unfold revealX
  split
  · split
    · split
      · simp only []; split
        · simp
        · split <;> simp
      · rfl
    · rfl
  · rfl

/-- **An endless Builder whose widgets make progress, from ANY state in which no upward scroll is due** (`offset + pending ≥ 0`
    or the top widget is the first): `Draw` returns, with at most `max 1 (max (H + offset + pending) (cursor + 1 − top))`
    children. -/
theorem draw_progress2 (b : Nat → Option Nat) (cfg : Cfg) (s : St) (W H F Mx : Nat)
    (hb : ∀ i, ∃ h, b i = some h ∧ h ≤ Mx ∧ 1 ≤ (h : Int) + cfg.gap)
    (h1 : H < 65535) (h2 : W ≠ 65535) (hno : (prologue s).1 ≤ 0)
    (hF : max (((H : Int) - (prologue s).1).toNat) (s.cursor + 1 - s.top) + H + Mx + 3 ≤ F)
    (hidx : s.top + max (((H : Int) - (prologue s).1).toNat) (s.cursor + 1 - s.top) + 1 < 2 ^ 64) :
    ∃ st cs, runDraw expBodies b cfg s W H F = .ok (st, cs) ∧
      cs.length ≤ max (max (((H : Int) - (prologue s).1).toNat) (s.cursor + 1 - s.top)) 1 := by
  have hRo : runDraw expBodies b cfg s W H F =
      (match exec { roBase b cfg W H with
          call := fun n => if n = "d.insertChildren" then some (insertCallee expBodies (roBase b cfg W H)) else Option.none }
        (seqOf drawParts) F ⟨s, [], [], [], ""⟩ with
       | .error e => .error e
       | .ok (m, _) => .ok (m.st, m.cs)) := rfl
  rw [hRo]
  generalize hR : ({ roBase b cfg W H with
          call := fun n => if n = "d.insertChildren" then some (insertCallee expBodies (roBase b cfg W H)) else Option.none } : Ro) = R
  have hbR : ∀ i, ∃ h, R.b i = some h ∧ h ≤ Mx ∧ 1 ≤ (h : Int) + R.gap := by intro i; rw [← hR]; exact hb i
  have hRH : R.H = H := by rw [← hR]; rfl
  have hRW : R.W = W := by rw [← hR]; rfl
  have hub' : ¬ (R.H = 65535 ∨ R.W = 65535) := by rw [hRH, hRW]; omega
  obtain ⟨F', rfl⟩ : ∃ F', F = F' + 1 := ⟨F - 1, by omega⟩
  unfold drawParts
  rw [seqOf_cons, d0_exec, if_neg hub']
  simp only []
  rw [seqOf_cons, d1_exec]
  simp only []
  obtain ⟨h0, hb0, _, _⟩ := hbR s.top
  rw [seqOf_cons, draw2_eq, exec_loop, loopN, cl_cond_some R _ h0 hb0]
  simp only []
  obtain ⟨ρ1, hp, hp2, hp3⟩ := pro_exec R s [] "" (F' + 1) [draw7, draw8, draw9, draw10, draw11, draw12, draw13, draw14, draw15, draw16, draw17]
  rw [hp]
  obtain ⟨hpt, hpc, _⟩ := pro_facts s
  generalize prologue s = p at hp2 hp3 hpt hpc hno hF hidx ⊢
  obtain ⟨ah1, s2⟩ := p
  simp only [] at hp2 hp3 hpt hpc hno hF hidx ⊢
  have hah : ¬ (ah1 > 0) := by omega
  have h7 : exec R draw7 (F' + 1) ⟨s2, [], ρ1, ["v3"], ""⟩ = .ok (⟨s2, [], ρ1, ["v3"], ""⟩, .norm) := by
    xs [draw7, hp2, hah]
  rw [seqOf_cons, h7]
  simp only []
  obtain ⟨ρ3, h89, h89a, h89b⟩ := d89_exec R s2 [] ρ1 "" (F' + 1) [draw10, draw11, draw12, draw13, draw14, draw15, draw16, draw17]
  rw [h89, seqOf_cons, draw10_eq, exec_loop]
  rw [hp2] at h89a
  rw [hp3] at h89b
  obtain ⟨cs1, ρ4, hdd, hlen, hMx⟩ := pos_loop2 R Mx hbR s2 "" (max (((H : Int) - ah1).toNat) (s.cursor + 1 - s.top)) (F' + 1) [] ρ3 s2.top ah1
    (by rw [hRH]; omega) (by rw [hpt, hpc]; omega) (by omega) (by rw [hpt]; omega) h89a h89b (by simp)
  rw [hdd]
  simp only []
  have hFc : ∀ c ∈ cs1, c.height + 1 ≤ F' + 1 := fun c hc => by have := hMx c hc; omega
  obtain ⟨ρ5, hth⟩ := th_exec R s2 cs1 ρ4 "" (F' + 1) [draw14, draw15, draw16, draw17]
  rw [hth]
  obtain ⟨ρ6, us6, hgu, hus6⟩ := gu_exec R s2 cs1 ρ5 "" (F' + 1) (usub s2.cursor s2.top) (toUintI_sub' _ _) (by rw [hRH]; omega) hFc
  rw [seqOf_cons, hgu]
  simp only []
  obtain ⟨ρ7, us7, hrv, hus7⟩ := rv_exec R s2 cs1 ρ6 us6 hus6 "" (F' + 1) (usub s2.cursor s2.top) (toUintI_sub' _ _)
  rw [seqOf_cons, draw15_eq, hrv]
  simp only []
  have hrl := revealX_length cs1 s2 R.H (usub s2.cursor s2.top)
  generalize revealX cs1 s2 R.H (usub s2.cursor s2.top) = rr at hrl ⊢
  obtain ⟨cs2, s4⟩ := rr
  obtain ⟨c4, t4, o4, p4, w4⟩ := s4
  simp only [] at hrl ⊢
  have hus7' : us7 = ["v3"] ∨ us7 = ["v14", "v3"] ∨ us7 = ["v19", "v3"] ∨ us7 = ["v19", "v14", "v3"] := by
    rcases hus7 with h | h <;> rcases hus6 with h' | h' <;> subst h <;> subst h' <;> simp
  obtain ⟨ρ8, hrt⟩ := rt_range R c4 p4 w4 us7 hus7' "" (F' + 1) cs2 [] t4 o4 ρ7
  simp only [List.nil_append, List.length_nil] at hrt
  rw [seqOf_cons, draw16_eq, exec_range]
  simp only []
  rw [hrt]
  simp only []
  obtain ⟨vs, h17⟩ := d17_exec R (F' + 1) ⟨⟨c4, (retop R.gap cs2 0 (t4, o4)).1, (retop R.gap cs2 0 (t4, o4)).2, p4, w4⟩, cs2, ρ8, us7, ""⟩
  rw [h17]
  exact ⟨_, _, rfl, by simp only []; rw [hrl]; simpa using hlen⟩

end VaxisModel.Lemmas.DynExec
