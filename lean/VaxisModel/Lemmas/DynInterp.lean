import VaxisModel.Model.DynInterp
import VaxisModel.Lemmas.DynSkelExpected

/-! Running the (expected) syntax of `Dynamic`'s small methods through `Model/DynInterp.lean` gives
    exactly the functions of `Model/DynList.lean`.  `Props/C19Tie.lean` transfers these statements to
    the regenerated syntax through the `skeleton_*` equalities. -/
namespace VaxisModel.Lemmas.DynInterp
open VaxisModel.Model VaxisModel.Model.GoSyn VaxisModel.Model.DynList VaxisModel.Model.DynInterp
open VaxisModel.Lemmas

theorem U_val : (U : Int) = 18446744073709551616 := by unfold U; rfl

theorem toUint_small (n : Nat) (h : n < 2 ^ 64) : toUint (n : Int) = n := by
  unfold toUint; rw [U_val]; omega

theorem ensureScroll_interp (hs : List Nat) (s : St) (hc : s.cursor < 2 ^ 64) (f : Nat) :
    exec hs DynSkelExpected.ensureScroll (f + 5) DynSkelExpected.ensureScroll s [] =
      some ⟨DynList.ensureScroll s, [], if s.cursor > s.top then some false else Option.none⟩ := by
  have hU : toUint (s.cursor : Int) = s.cursor := toUint_small _ hc
  unfold DynList.ensureScroll
  by_cases h : s.cursor > s.top
  · simp [exec, DynSkelExpected.ensureScroll, splitBlock, evalB, evalI, lookup, fieldEnv, store, retVal, h]
  · simp [exec, DynSkelExpected.ensureScroll, splitBlock, evalB, evalI, lookup, fieldEnv, store, h, hU]

theorem ensureScroll_run (hs : List Nat) (s : St) (hc : s.cursor < 2 ^ 64) (p : Int) :
    (runMethod hs DynSkelExpected.ensureScroll DynSkelExpected.ensureScroll s p).map (·.st) = some (DynList.ensureScroll s) := by
  have hU : toUint (s.cursor : Int) = s.cursor := toUint_small _ hc
  unfold DynList.ensureScroll
  by_cases h : s.cursor > s.top
  · simp [runMethod, exec, DynSkelExpected.ensureScroll, splitBlock, evalB, evalI, lookup, fieldEnv, store, retVal, h]
  · simp [runMethod, exec, DynSkelExpected.ensureScroll, splitBlock, evalB, evalI, lookup, fieldEnv, store, h, hU]

theorem setCursor_interp (hs : List Nat) (s : St) (c : Nat) (hc : c < 2 ^ 64) :
    (runMethod hs DynSkelExpected.ensureScroll DynSkelExpected.setCursor s c).map (·.st) = some (DynList.setCursor s c) := by
  have hU : toUint (c : Int) = c := toUint_small _ hc
  have he := ensureScroll_interp hs { s with cursor := c } (by show c < 2 ^ 64; omega) 25
  unfold DynList.setCursor
  simp only [runMethod]
  simp [exec, DynSkelExpected.setCursor, evalI, lookup, store, hU] at he ⊢
  rw [he]
  simp [exec]

theorem setPendingScroll_interp (hs : List Nat) (s : St) (k : Int) :
    (runMethod hs DynSkelExpected.ensureScroll DynSkelExpected.setPendingScroll s k).map (·.st) = some (DynList.setPending s k) := by
  simp [runMethod, exec, DynSkelExpected.setPendingScroll, evalI, lookup, store, DynList.setPending]

theorem nextItem_interp (hs : List Nat) (s : St) (hc : s.cursor < 2 ^ 64) :
    (runMethod hs DynSkelExpected.ensureScroll DynSkelExpected.nextItem s 0).map (fun r => (r.st, r.ret)) =
      some ((DynList.nextItem hs s).1, some (DynList.nextItem hs s).2) := by
  have hU : toUint ((s.cursor : Int) + 1) = uadd s.cursor 1 := by
    unfold toUint uadd; rw [U_val]; unfold U; omega
  have hlt : uadd s.cursor 1 < 2 ^ 64 := by unfold uadd U; omega
  have he := ensureScroll_interp hs { s with cursor := uadd s.cursor 1 } hlt 23
  unfold DynList.nextItem
  cases hb : builder hs (uadd s.cursor 1) with
  | none =>
    simp [runMethod, exec, DynSkelExpected.nextItem, splitBlock, evalB, evalI, lookup, fieldEnv, store, retVal, hU, hb]
  | some h =>
    simp [runMethod, exec, DynSkelExpected.nextItem, splitBlock, evalB, evalI, lookup, fieldEnv, store, retVal, hU, hb] at he ⊢
    rw [he]
    simp [exec, retVal]

theorem prevItem_interp (hs : List Nat) (s : St) (hc : s.cursor < 2 ^ 64) :
    (runMethod hs DynSkelExpected.ensureScroll DynSkelExpected.prevItem s 0).map (fun r => (r.st, r.ret)) =
      some ((DynList.prevItem hs s).1, some (DynList.prevItem hs s).2) := by
  unfold DynList.prevItem
  by_cases h0 : s.cursor = 0
  · simp [runMethod, exec, DynSkelExpected.prevItem, splitBlock, evalB, evalI, lookup, fieldEnv, retVal, h0]
  · have hU : toUint ((s.cursor : Int) - 1) = s.cursor - 1 := by
      have := toUint_small (s.cursor - 1) (by omega)
      rw [← this]; congr 1; omega
    have hus : usub s.cursor 1 = s.cursor - 1 := by unfold usub U; omega
    have hne : ¬ ((s.cursor : Int) = 0) := by omega
    have he := ensureScroll_interp hs { s with cursor := s.cursor - 1 } (by show s.cursor - 1 < 2 ^ 64; omega) 22
    rw [if_neg h0, hus]
    cases hb : builder hs (s.cursor - 1) with
    | none =>
      simp [runMethod, exec, DynSkelExpected.prevItem, splitBlock, evalB, evalI, lookup, fieldEnv, store, retVal, hU, hb, hne, h0]
    | some h =>
      simp [runMethod, exec, DynSkelExpected.prevItem, splitBlock, evalB, evalI, lookup, fieldEnv, store, retVal, hU, hb, hne, h0] at he ⊢
      rw [he]
      simp [exec, retVal]

end VaxisModel.Lemmas.DynInterp
