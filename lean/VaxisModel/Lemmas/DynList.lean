import VaxisModel.Model.DynList

/-! Helper lemmas for `Props/C19.lean` (vxfw/list `Dynamic`). -/
namespace VaxisModel.Lemmas.DynList
open VaxisModel.Model.DynList

/-- `d` is the next item after `c`, drawn directly below it (plus the gap). -/
def Link (gap : Int) (c d : Child) : Prop :=
  d.idx = c.idx + 1 ∧ d.row = c.row + (c.height : Int) + gap

/-- Children in index order, contiguous. -/
def Contig (gap : Int) : List Child → Prop
  | [] => True
  | [_] => True
  | c :: d :: rest => Link gap c d ∧ Contig gap (d :: rest)

/-- Every child has the height its builder widget has. -/
def Heights (hs : List Nat) (cs : List Child) : Prop := ∀ c ∈ cs, hs[c.idx]? = some c.height

theorem contig_cons {gap : Int} {c : Child} {cs : List Child} (h : Contig gap cs)
    (hl : ∀ f, cs.head? = some f → Link gap c f) : Contig gap (c :: cs) := by
  cases cs with
  | nil => trivial
  | cons d rest => exact ⟨hl d rfl, h⟩

theorem contig_snoc {gap : Int} {c : Child} : ∀ {acc : List Child}, Contig gap acc →
    (∀ l, acc.getLast? = some l → Link gap l c) → Contig gap (acc ++ [c])
  | [], _, _ => trivial
  | [a], _, hl => ⟨hl a rfl, trivial⟩
  | a :: b :: rest, h, hl => by
    refine ⟨h.1, ?_⟩
    have := contig_snoc (acc := b :: rest) h.2 (fun l hlast => hl l (by simpa [List.getLast?_cons_cons] using hlast))
    simpa using this

theorem contig_shift {gap : Int} (adj : Int) : ∀ {cs : List Child}, Contig gap cs →
    Contig gap (cs.map fun c => { c with row := c.row + adj })
  | [], _ => trivial
  | [_], _ => trivial
  | a :: b :: rest, h => by
    refine ⟨⟨h.1.1, ?_⟩, contig_shift adj (cs := b :: rest) h.2⟩
    have := h.1.2
    show b.row + adj = a.row + adj + (a.height : Int) + gap
    omega

theorem heights_shift {hs : List Nat} (adj : Int) {cs : List Child} (h : Heights hs cs) :
    Heights hs (cs.map fun c => { c with row := c.row + adj }) := by
  intro c hc
  simp only [List.mem_map] at hc
  obtain ⟨c0, hc0, rfl⟩ := hc
  exact h c0 hc0

/-! ### the downward loop -/

theorem drop_cons_getElem? {hs : List Nat} {i h : Nat} {rest : List Nat} (e : hs.drop i = h :: rest) :
    hs[i]? = some h ∧ hs.drop (i + 1) = rest := by
  constructor
  · have : (hs.drop i)[0]? = some h := by rw [e]; rfl
    simpa [List.getElem?_drop] using this
  · have : (hs.drop i).drop 1 = rest := by rw [e]; rfl
    simpa [List.drop_drop, Nat.add_comm] using this

theorem drawDown_spec (gap : Int) (wants : Bool) (cursor : Nat) (H : Int) (hs : List Nat) :
    ∀ (rest : List Nat) (i : Nat) (ah : Int) (acc : List Child),
      hs.drop i = rest → Contig gap acc → Heights hs acc →
      (∀ l, acc.getLast? = some l → l.idx + 1 = i ∧ l.row + (l.height : Int) + gap = ah) →
      Contig gap (drawDown gap wants cursor H rest i ah acc) ∧
      Heights hs (drawDown gap wants cursor H rest i ah acc) := by
  intro rest
  induction rest with
  | nil => intro i ah acc _ hc hh _; exact ⟨hc, hh⟩
  | cons h rest ih =>
    intro i ah acc he hc hh hl
    obtain ⟨hi, hd⟩ := drop_cons_getElem? he
    have hc' : Contig gap (acc ++ [{ idx := i, row := ah, height := h }]) :=
      contig_snoc hc (fun l hlast => by
        obtain ⟨h1, h2⟩ := hl l hlast
        exact ⟨h1.symm, h2.symm⟩)
    have hh' : Heights hs (acc ++ [{ idx := i, row := ah, height := h }]) := by
      intro c hcm
      simp only [List.mem_append, List.mem_singleton] at hcm
      rcases hcm with hcm | rfl
      · exact hh c hcm
      · exact hi
    have hl' : ∀ l, (acc ++ [{ idx := i, row := ah, height := h : Child }]).getLast? = some l →
        l.idx + 1 = i + 1 ∧ l.row + (l.height : Int) + gap = ah + (h : Int) + gap := by
      intro l hlast
      simp only [List.getLast?_append, List.getLast?_singleton, Option.some_or, Option.some.injEq] at hlast
      subst hlast
      exact ⟨rfl, rfl⟩
    have hrec := ih (i + 1) (ah + (h : Int) + gap) _ hd hc' hh' hl'
    simp only [drawDown]
    split
    · exact hrec
    · split
      · exact ⟨hc', hh'⟩
      · exact hrec

/-! ### the start of Draw: walking the top back to an existing widget -/

theorem usub_one {top : Nat} (h0 : top ≠ 0) (hU : top < U) : usub top 1 = top - 1 := by
  unfold usub U at *
  omega

theorem builder_none {hs : List Nat} {i : Nat} : builder hs i = none ↔ hs.length ≤ i := by
  unfold builder; exact List.getElem?_eq_none_iff

theorem clampLoop_spec (hs : List Nat) : ∀ (fuel top : Nat) (off : Int), top ≤ fuel → top < U →
    (clampLoop hs fuel top off).1 ≤ top ∧
    ((clampLoop hs fuel top off).1 = 0 ∨ (clampLoop hs fuel top off).1 < hs.length) ∧
    ((top = 0 ∨ top < hs.length) → clampLoop hs fuel top off = (top, off)) := by
  intro fuel
  induction fuel with
  | zero =>
    intro top off h _
    have : top = 0 := by omega
    subst this
    exact ⟨Nat.le_refl _, Or.inl rfl, fun _ => rfl⟩
  | succ fuel ih =>
    intro top off hf hU
    simp only [clampLoop]
    split
    · rename_i hc
      have h0 : top ≠ 0 := by omega
      have hu := usub_one h0 hU
      have hn := builder_none.mp hc.2
      obtain ⟨r1, r2, _⟩ := ih (usub top 1) 0 (by rw [hu]; omega) (by rw [hu]; omega)
      rw [hu] at r1 r2 ⊢
      exact ⟨by omega, r2, fun h => by omega⟩
    · rename_i hc
      refine ⟨Nat.le_refl _, ?_, fun _ => rfl⟩
      by_cases h0 : top = 0
      · exact Or.inl h0
      · right
        have : ¬ builder hs top = none := fun h => hc ⟨by omega, h⟩
        rw [builder_none] at this
        omega

/-- The repaired start of `Draw`: afterwards the top index is 0 or refers to an existing widget; a
    top index that already did is left alone (with its offset). -/
theorem clampTop_spec (hs : List Nat) (s : St) (hU : s.top < U) :
    (clampTop true hs s).top ≤ s.top ∧
    ((clampTop true hs s).top = 0 ∨ (clampTop true hs s).top < hs.length) ∧
    (clampTop true hs s).cursor = s.cursor ∧ (clampTop true hs s).wantsCursor = s.wantsCursor ∧
    (clampTop true hs s).pending = s.pending ∧
    ((s.top = 0 ∨ s.top < hs.length) → clampTop true hs s = s) := by
  obtain ⟨r1, r2, r3⟩ := clampLoop_spec hs s.top s.top s.offset (Nat.le_refl _) hU
  unfold clampTop
  rw [if_pos rfl]
  exact ⟨r1, r2, rfl, rfl, rfl, fun h => by rw [r3 h]⟩

/-! ### insertChildren -/

theorem insertLoop_spec (stops : Bool) (g : Int) (hs : List Nat) : ∀ (fuel top : Nat) (ah : Int) (acc : List Child),
    top < U → Contig g acc → Heights hs acc →
    (∀ f, acc.head? = some f → f.idx = top + 1 ∧ f.row = ah) →
    Contig g (insertLoop stops g hs fuel top ah acc).2.2 ∧ Heights hs (insertLoop stops g hs fuel top ah acc).2.2 ∧
    (∀ l, (insertLoop stops g hs fuel top ah acc).2.2.getLast? = some l →
        acc.getLast? = some l ∨ (acc = [] ∧ l.idx = top ∧ l.row + (l.height : Int) + g = ah)) := by
  intro fuel
  induction fuel with
  | zero => intro top ah acc _ hc hh _; exact ⟨hc, hh, fun l hl => Or.inl hl⟩
  | succ fuel ih =>
    intro top ah acc hU hc hh hf
    simp only [insertLoop]
    split
    · -- ah > 0
      cases hb : builder hs top with
      | none => exact ⟨hc, hh, fun l hl => Or.inl hl⟩
      | some h =>
        simp only []
        have hc' : Contig g ({ idx := top, row := ah - ((h : Int) + g), height := h } :: acc) :=
          contig_cons hc (fun f hfh => by
            obtain ⟨h1, h2⟩ := hf f hfh
            exact ⟨h1, by show f.row = ah - ((h : Int) + g) + (h : Int) + g; omega⟩)
        have hh' : Heights hs ({ idx := top, row := ah - ((h : Int) + g), height := h } :: acc) := by
          intro c hcm
          simp only [List.mem_cons] at hcm
          rcases hcm with rfl | hcm
          · exact hb
          · exact hh c hcm
        have hlast : ∀ l, ({ idx := top, row := ah - ((h : Int) + g), height := h : Child } :: acc).getLast? = some l →
            acc.getLast? = some l ∨ (acc = [] ∧ l.idx = top ∧ l.row + (l.height : Int) + g = ah) := by
          intro l hl
          cases acc with
          | nil =>
            simp only [List.getLast?_singleton, Option.some.injEq] at hl
            subst hl
            exact Or.inr ⟨rfl, rfl, by show ah - ((h : Int) + g) + (h : Int) + g = ah; omega⟩
          | cons a rest => exact Or.inl (by simpa [List.getLast?_cons_cons] using hl)
        split
        · exact ⟨hc', hh', hlast⟩
        · rename_i h0'
          have h0 : top ≠ 0 := fun h => h0' (Or.inl h)
          have hu := usub_one h0 hU
          have hrec := ih (usub top 1) (ah - ((h : Int) + g)) _ (by rw [hu]; omega) hc' hh'
            (fun f hfh => by
              simp only [List.head?_cons, Option.some.injEq] at hfh
              subst hfh
              exact ⟨by rw [hu]; show top = top - 1 + 1; omega, rfl⟩)
          refine ⟨hrec.1, hrec.2.1, fun l hl => ?_⟩
          rcases hrec.2.2 l hl with h1 | ⟨h1, _⟩
          · exact hlast l h1
          · cases h1
    · exact ⟨hc, hh, fun l hl => Or.inl hl⟩

theorem restack_contig (g : Int) : ∀ (cs : List Child) (r : Int), Contig g cs → Contig g (restack g r cs)
  | [], _, _ => trivial
  | [_], _, _ => trivial
  | a :: b :: rest, r, h => by
    have := restack_contig g (b :: rest) (r + ((a.height : Int) + g)) h.2
    simp only [restack] at this ⊢
    exact ⟨⟨h.1.1, by show r + ((a.height : Int) + g) = r + (a.height : Int) + g; omega⟩, this⟩

theorem restack_mem (g : Int) : ∀ (cs : List Child) (r : Int) (x : Child), x ∈ restack g r cs →
    ∃ c ∈ cs, x.idx = c.idx ∧ x.height = c.height
  | [], _, x, h => by cases h
  | c :: cs, r, x, h => by
    simp only [restack, List.mem_cons] at h
    rcases h with rfl | h
    · exact ⟨c, List.mem_cons_self, rfl, rfl⟩
    · obtain ⟨c', hc', e⟩ := restack_mem g cs _ x h
      exact ⟨c', List.mem_cons_of_mem _ hc', e⟩

theorem restack_getLast (g : Int) : ∀ (cs : List Child) (r : Int) (l : Child), (restack g r cs).getLast? = some l →
    ∃ l0, cs.getLast? = some l0 ∧ l.idx = l0.idx
  | [], _, l, h => by simp [restack] at h
  | [c], r, l, h => by
    simp only [restack, List.getLast?_singleton, Option.some.injEq] at h
    subst h
    exact ⟨c, rfl, rfl⟩
  | a :: b :: rest, r, l, h => by
    simp only [restack, List.getLast?_cons_cons] at h
    have := restack_getLast g (b :: rest) (r + ((a.height : Int) + g)) l (by simpa [restack] using h)
    simpa [List.getLast?_cons_cons] using this

/-- After `insertChildren`: the inserted children are contiguous (with the gap `g` the function
    counts), have the builder's heights, and the last one is the item just above the old top. -/
theorem insertChildren_spec (stops : Bool) (g : Int) (hs : List Nat) (top : Nat) (ah : Int) (h0 : top ≠ 0) (hU : top < U) :
    Contig g (insertChildren stops g hs top ah).2.2 ∧ Heights hs (insertChildren stops g hs top ah).2.2 ∧
    ∀ l, (insertChildren stops g hs top ah).2.2.getLast? = some l → l.idx + 1 = top := by
  have hu := usub_one h0 hU
  have sp := insertLoop_spec stops g hs top (usub top 1) ah [] (by rw [hu]; omega) trivial
    (by intro c hc; cases hc) (by intro f hf; cases hf)
  unfold insertChildren
  simp only []
  split
  · refine ⟨restack_contig g _ _ sp.1, ?_, ?_⟩
    · intro x hx
      obtain ⟨c, hc, e1, e2⟩ := restack_mem g _ _ x hx
      rw [e1, e2]; exact sp.2.1 c hc
    · intro l hl
      obtain ⟨l0, hl0, e⟩ := restack_getLast g _ _ l hl
      rcases sp.2.2 l0 hl0 with h1 | ⟨_, h2, _⟩
      · cases h1
      · rw [e, h2, hu]; omega
  · refine ⟨sp.1, sp.2.1, ?_⟩
    intro l hl
    rcases sp.2.2 l hl with h1 | ⟨_, h2, _⟩
    · cases h1
    · rw [h2, hu]; omega

/-! ### Draw -/

theorem prologue_spec (s : St) :
    (prologue s).2.top = s.top ∧ (prologue s).2.cursor = s.cursor ∧
    (prologue s).2.wantsCursor = s.wantsCursor ∧
    ((prologue s).1 > 0 → s.top ≠ 0 ∧ 0 < - (s.offset + s.pending)) := by
  unfold prologue
  simp only []
  split
  · exact ⟨rfl, rfl, rfl, fun h => absurd h (by omega)⟩
  · rename_i hn
    refine ⟨rfl, rfl, rfl, fun h => ?_⟩
    constructor
    · intro h0; exact hn ⟨h, h0⟩
    · exact h

theorem scrollUp_spec (stops : Bool) (g : Int) (hs : List Nat) (s1 : St) (ah1 ah2 : Int) (s2 : St) (cs0 : List Child)
    (he : scrollUp stops g hs s1 ah1 = .ok (ah2, s2, cs0)) (hU : s1.top < U) (h0 : ah1 > 0 → s1.top ≠ 0) :
    Contig g cs0 ∧ Heights hs cs0 ∧
    (∀ l, cs0.getLast? = some l → l.idx + 1 = s1.top ∧ l.row + (l.height : Int) + g = ah2) ∧
    (¬ ah1 > 0 → cs0 = []) ∧ s2.cursor = s1.cursor ∧ s2.wantsCursor = s1.wantsCursor := by
  unfold scrollUp at he
  split at he
  · rename_i hpos
    have sp := insertChildren_spec stops g hs s1.top ah1 (h0 hpos) hU
    simp only [] at he
    split at he
    · cases he
    · rename_i last hlast
      cases he
      refine ⟨sp.1, sp.2.1, ?_, fun h => absurd hpos h, rfl, rfl⟩
      intro l hl
      rw [hlast] at hl
      cases hl
      exact ⟨sp.2.2 _ hlast, rfl⟩
  · rename_i hn
    cases he
    exact ⟨trivial, by simp [Heights], by simp, fun _ => rfl, rfl, rfl⟩

theorem reveal_spec {gap : Int} {hs : List Nat} (above u : Bool) (cs : List Child) (s : St) (H : Nat) (cs2 : List Child) (s3 : St)
    (he : reveal above u cs s H = .ok (cs2, s3)) (hc : Contig gap cs) (hh : Heights hs cs) :
    Contig gap cs2 ∧ Heights hs cs2 := by
  unfold reveal at he
  split at he
  · split at he
    · cases he
    · simp only [] at he
      cases he
      split
      · exact ⟨contig_shift _ hc, heights_shift _ hh⟩
      · split
        · exact ⟨contig_shift _ hc, heights_shift _ hh⟩
        · exact ⟨hc, hh⟩
    · cases he; exact ⟨hc, hh⟩
  · cases he; exact ⟨hc, hh⟩

/-- Children returned by one `Draw`, from any state, for ANY gap: in index order, contiguous with the
    gap, each with its builder height — provided the upward-scroll code counts the gap (repair F119c
    present) or the gap is 0. -/
theorem draw_layout (guard : Facts) (cfg : Cfg) (hs : List Nat) (s : St) (W H : Nat)
    (hU : s.top < U) (hC : guard.clampTop = true)
    (hg : guard.gapAbove = true ∨ cfg.gap = 0)
    (s' : St) (cs : List Child) (he : draw guard cfg hs s W H = .ok (s', cs)) :
    Contig cfg.gap cs ∧ Heights hs cs := by
  have hgg : (if guard.gapAbove = true then cfg.gap else 0) = cfg.gap := by
    rcases hg with h | h
    · rw [if_pos h]
    · split
      · rfl
      · exact h.symm
  unfold draw at he
  split at he
  · cases he
  · rw [hC] at he
    obtain ⟨k1, _, _, _, _, _⟩ := clampTop_spec hs s hU
    obtain ⟨p1, p2, p3, p4⟩ := prologue_spec (clampTop true hs s)
    simp only [hgg] at he
    split at he
    · cases he
    · rename_i ah2 s2 cs0 hsu
      have sp := scrollUp_spec _ cfg.gap hs _ _ ah2 s2 cs0 hsu (by rw [p1]; omega) (fun h => by rw [p1]; exact (p4 h).1)
      obtain ⟨c0, h0, l0, e0, _, _⟩ := sp
      have dd := drawDown_spec cfg.gap s2.wantsCursor s2.cursor H hs _ (prologue (clampTop true hs s)).2.top ah2 cs0 rfl c0 h0 l0
      split at he
      · cases he
      · split at he
        · cases he
        · rename_i cs2 s3 hrev
          cases he
          exact reveal_spec _ _ _ _ _ _ _ hrev dd.1 dd.2

/-! ### an empty list never panics -/

/-- Invariant for a builder without items: the top stays 0 and the cursor is a sane `uint`
    value. -/
def EmptyInv (s : St) : Prop := s.top = 0 ∧ s.cursor < U

theorem cursorChild_nil (cursor : Nat) (h : cursor < U) : cursorChild true [] cursor 0 = .ok none := by
  have hu : usub cursor 0 = cursor := by unfold usub U at *; omega
  unfold cursorChild
  simp [hu]

theorem draw_empty (guard : Facts) (hu : guard.uintIndex = true) (cfg : Cfg) (s : St) (W H : Nat) (hi : EmptyInv s)
    (hW : W ≠ 65535) (hH : H ≠ 65535) :
    ∃ s', draw guard cfg [] s W H = .ok (s', []) ∧ EmptyInv s' := by
  obtain ⟨ht, hc⟩ := hi
  have hcl : clampTop guard.clampTop [] s = s := by
    unfold clampTop
    split
    · rw [ht]; simp only [clampLoop]
      cases s; simp_all
    · rfl
  obtain ⟨p1, p2, p3, p4⟩ := prologue_spec s
  have hah : ¬ (prologue s).1 > 0 := fun h => (p4 h).1 ht
  unfold draw
  rw [hcl]
  have hb : ¬ (H = 65535 ∨ W = 65535) := by omega
  simp only [hb, if_false, scrollUp, hah, List.drop_nil, drawDown, gutter, reveal, hu]
  have hcc : cursorChild true [] (prologue s).2.cursor (prologue s).2.top = .ok none := by
    rw [p1, p2, ht]; exact cursorChild_nil _ hc
  simp only [hcc, ite_self]
  exact ⟨_, rfl, by simp [retop, p1, ht], by simp [p2, hc]⟩

/-- Operations the API admits: cursors are `uint` values (below 2^64), draw contexts are bounded
    (`Dynamic.Draw` panics by design otherwise). -/
def OpOk : Op → Prop
  | .setCursor c => c < U
  | .draw W H => W ≠ 65535 ∧ H ≠ 65535
  | _ => True

theorem step_empty (guard : Facts) (hu : guard.uintIndex = true) (cfg : Cfg) (s : St) (op : Op) (hi : EmptyInv s) (ho : OpOk op) :
    ∃ s', step guard cfg [] s op = .ok s' ∧ EmptyInv s' := by
  obtain ⟨ht, hc⟩ := hi
  cases op with
  | setCursor c =>
    refine ⟨_, rfl, ?_⟩
    unfold setCursor ensureScroll EmptyInv
    simp only [ht]
    split
    · exact ⟨rfl, ho⟩
    · rename_i h; exact ⟨by simp only []; omega, ho⟩
  | next => exact ⟨s, by simp [step, nextItem, builder], ht, hc⟩
  | prev =>
    refine ⟨s, ?_, ht, hc⟩
    simp only [step, prevItem, builder]
    split <;> simp
  | wheelDown => exact ⟨_, rfl, ht, hc⟩
  | wheelUp =>
    refine ⟨s, ?_, ht, hc⟩
    simp [step, wheelUp, ht]
  | pending k => exact ⟨_, rfl, ht, hc⟩
  | draw W H =>
    obtain ⟨s', he, hi'⟩ := draw_empty guard hu cfg s W H ⟨ht, hc⟩ ho.1 ho.2
    exact ⟨s', by simp [step, he], hi'⟩

theorem run_empty (guard : Facts) (hu : guard.uintIndex = true) (cfg : Cfg) : ∀ (ops : List Op) (s : St), EmptyInv s →
    (∀ op ∈ ops, OpOk op) → ∃ s', run guard cfg [] s ops = .ok s' ∧ EmptyInv s'
  | [], s, hi, _ => ⟨s, rfl, hi⟩
  | op :: ops, s, hi, ho => by
    obtain ⟨s1, he, hi1⟩ := step_empty guard hu cfg s op hi (ho op List.mem_cons_self)
    obtain ⟨s2, he2, hi2⟩ := run_empty guard hu cfg ops s1 hi1 (fun o h => ho o (List.mem_cons_of_mem _ h))
    exact ⟨s2, by simp [run, he, he2], hi2⟩

/-! ### the cursor is brought into view -/

theorem drawDown_prefix (gap : Int) (wants : Bool) (cursor : Nat) (H : Int) :
    ∀ (rest : List Nat) (i : Nat) (ah : Int) (acc : List Child),
      ∃ tail, drawDown gap wants cursor H rest i ah acc = acc ++ tail := by
  intro rest
  induction rest with
  | nil => intro i ah acc; exact ⟨[], by simp [drawDown]⟩
  | cons h rest ih =>
    intro i ah acc
    obtain ⟨t, ht⟩ := ih (i + 1) (ah + (h : Int) + gap) (acc ++ [{ idx := i, row := ah, height := h }])
    simp only [drawDown]
    split
    · exact ⟨{ idx := i, row := ah, height := h } :: t, by rw [ht]; simp⟩
    · split
      · exact ⟨[{ idx := i, row := ah, height := h }], rfl⟩
      · exact ⟨{ idx := i, row := ah, height := h } :: t, by rw [ht]; simp⟩

theorem drawDown_length_ge (gap : Int) (wants : Bool) (cursor : Nat) (H : Int)
    (rest : List Nat) (i : Nat) (ah : Int) (acc : List Child) :
    acc.length ≤ (drawDown gap wants cursor H rest i ah acc).length := by
  obtain ⟨t, ht⟩ := drawDown_prefix gap wants cursor H rest i ah acc
  rw [ht, List.length_append]; omega

/-- With the wants-cursor flag the loop runs at least through the cursor (or to the end). -/
theorem drawDown_reaches (gap : Int) (cursor : Nat) (H : Int) :
    ∀ (rest : List Nat) (i : Nat) (ah : Int) (acc : List Child),
      acc.length + min rest.length (cursor + 1 - i) ≤ (drawDown gap true cursor H rest i ah acc).length := by
  intro rest
  induction rest with
  | nil => intro i ah acc; simp [drawDown]
  | cons h rest ih =>
    intro i ah acc
    have h1 := ih (i + 1) (ah + (h : Int) + gap) (acc ++ [{ idx := i, row := ah, height := h }])
    have h2 := drawDown_length_ge gap true cursor H rest (i + 1) (ah + (h : Int) + gap) (acc ++ [{ idx := i, row := ah, height := h }])
    simp only [List.length_append, List.length_singleton, List.length_cons] at h1 h2 ⊢
    simp only [drawDown]
    split
    · omega
    · rename_i hn
      have : ¬ (i + 1 ≤ cursor) := fun h => hn ⟨by simp, h⟩
      split
      · simp only [List.length_append, List.length_singleton]; omega
      · omega

theorem contig_get {gap : Int} (hg : 0 ≤ gap) : ∀ (cs : List Child) (f : Child), Contig gap (f :: cs) →
    ∀ (m : Nat) (c : Child), (f :: cs)[m]? = some c →
      c.idx = f.idx + m ∧ (m = 0 → c = f) ∧ (1 ≤ m → f.row + (f.height : Int) ≤ c.row) := by
  intro cs
  induction cs with
  | nil =>
    intro f _ m c hm
    cases m with
    | zero => simp at hm; subst hm; exact ⟨rfl, fun _ => rfl, fun h => absurd h (by omega)⟩
    | succ k => simp at hm
  | cons d rest ih =>
    intro f hc m c hm
    cases m with
    | zero => simp at hm; subst hm; exact ⟨rfl, fun _ => rfl, fun h => absurd h (by omega)⟩
    | succ k =>
      have hm' : (d :: rest)[k]? = some c := by simpa using hm
      obtain ⟨i1, i2, i3⟩ := ih d hc.2 k c hm'
      obtain ⟨l1, l2⟩ := hc.1
      refine ⟨by omega, fun h => absurd h (by omega), fun _ => ?_⟩
      by_cases hk : k = 0
      · rw [i2 hk]; omega
      · have := i3 (by omega); omega

theorem contig_get_idx {gap : Int} : ∀ (cs : List Child) (f : Child), Contig gap (f :: cs) →
    ∀ (m : Nat) (c : Child), (f :: cs)[m]? = some c → c.idx = f.idx + m := by
  intro cs
  induction cs with
  | nil =>
    intro f _ m c hm
    cases m with
    | zero => simp at hm; subst hm; rfl
    | succ k => simp at hm
  | cons d rest ih =>
    intro f hc m c hm
    cases m with
    | zero => simp at hm; subst hm; rfl
    | succ k =>
      have hm' : (d :: rest)[k]? = some c := by simpa using hm
      have i1 := ih d hc.2 k c hm'
      have l1 := hc.1.1
      omega

theorem usub_le {cursor top : Nat} (h1 : top ≤ cursor) (h2 : cursor < U) :
    usub cursor top = cursor - top := by
  unfold usub U at *; omega

theorem toInt_small {u : Nat} (h : u < 2 ^ 63) : toInt u = (u : Int) := by
  unfold toInt; rw [if_pos h]

theorem getElem?_lt {α} {l : List α} {i : Nat} {x : α} (h : l[i]? = some x) : i < l.length := by
  rcases Nat.lt_or_ge i l.length with h' | h'
  · exact h'
  · rw [List.getElem?_eq_none h'] at h; cases h

theorem cursorChild_hit (cs : List Child) (cursor top : Nat) (c : Child)
    (h1 : top ≤ cursor) (h2 : cursor < U) (hc : cs[cursor - top]? = some c) :
    cursorChild true cs cursor top = .ok (some c) := by
  have hu : usub cursor top = cursor - top := usub_le h1 h2
  have hl : cursor - top < cs.length := getElem?_lt hc
  unfold cursorChild
  simp only [hu, hc, if_true]
  rw [if_pos hl]

/-- What "visible" means for the selected child `c` in a viewport of `H` rows. -/
def Visible (H : Nat) (c : Child) : Prop :=
  c.row < (H : Int) ∧ 0 < c.row + (c.height : Int) ∧
    (c.height ≤ H → 0 ≤ c.row ∧ c.row + (c.height : Int) ≤ H)

/-- The repaired wants-cursor block shows the cursored child whatever its row was: below the
    viewport → its bottom is brought to the last row; above → its top to row 0. -/
theorem reveal_visible (cs : List Child) (s : St) (H : Nat) (c : Child)
    (hH : 1 ≤ H) (hh : 1 ≤ c.height) (hw : s.wantsCursor = true)
    (hcc : cursorChild true cs s.cursor s.top = .ok (some c)) (hmem : c ∈ cs) :
    ∃ cs2 s3, reveal true true cs s H = .ok (cs2, s3) ∧ ∃ c' ∈ cs2, c'.idx = c.idx ∧ c'.height = c.height ∧ Visible H c' := by
  by_cases hb : c.row + (c.height : Int) > H
  · refine ⟨cs.map fun x => { x with row := x.row + ((H : Int) - (c.row + (c.height : Int))) },
      { s with wantsCursor := false }, ?_,
      { c with row := c.row + ((H : Int) - (c.row + (c.height : Int))) }, ?_, rfl, rfl, ?_⟩
    · unfold reveal; rw [if_pos hw, hcc]; simp only [hb, if_true]
    · simp only [List.mem_map]; exact ⟨c, hmem, rfl⟩
    · unfold Visible; simp only []; omega
  · by_cases hr : c.row < 0
    · refine ⟨cs.map fun x => { x with row := x.row + (- c.row) },
        { s with wantsCursor := false }, ?_, { c with row := c.row + (- c.row) }, ?_, rfl, rfl, ?_⟩
      · unfold reveal; rw [if_pos hw, hcc]; simp only [hb, if_false, hr, and_self, if_true]
      · simp only [List.mem_map]; exact ⟨c, hmem, rfl⟩
      · unfold Visible; simp only []; omega
    · refine ⟨cs, { s with wantsCursor := false }, ?_, c, hmem, rfl, rfl, ?_⟩
      · unfold reveal; rw [if_pos hw, hcc]; simp only [hb, if_false, hr, and_false]
      · unfold Visible; omega

end VaxisModel.Lemmas.DynList
