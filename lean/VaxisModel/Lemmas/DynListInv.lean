import VaxisModel.Lemmas.DynList

/-! Invariants of vxfw/list `Dynamic` over whole histories (gap 0, fixed builder). -/
namespace VaxisModel.Lemmas.DynList
open VaxisModel.Model.DynList

/-- A child covers row 0 of the viewport. -/
def Covers (c : Child) : Prop := c.row ≤ 0 ∧ 0 < c.row + (c.height : Int)

instance (c : Child) : Decidable (Covers c) := by unfold Covers; exact inferInstance

theorem retop_none : ∀ (cs : List Child) (i : Nat) (acc : Nat × Int),
    (∀ c ∈ cs, ¬ Covers c) → retop cs i acc = acc
  | [], _, _, _ => rfl
  | c :: cs, i, (top, off), h => by
    have hc : ¬ (c.row ≤ 0 ∧ c.row + (c.height : Int) > 0) := by
      have := h c List.mem_cons_self; unfold Covers at this; omega
    simp only [retop, hc, if_false]
    exact retop_none cs (i + 1) (top, off) (fun d hd => h d (List.mem_cons_of_mem _ hd))

/-- With contiguous children (gap 0) at most one covers row 0: the final loop of `Draw` either
    leaves (top, offset) alone or sets them from the unique covering child. -/
theorem retop_spec : ∀ (cs : List Child) (i0 top : Nat) (off : Int), Contig 0 cs →
    retop cs i0 (top, off) = (top, off) ∨
    ∃ k c, cs[k]? = some c ∧ Covers c ∧ retop cs i0 (top, off) = (uadd top (i0 + k), - c.row)
  | [], _, _, _, _ => Or.inl rfl
  | c :: rest, i0, top, off, hc => by
    by_cases hcov : c.row ≤ 0 ∧ c.row + (c.height : Int) > 0
    · right
      refine ⟨0, c, rfl, ⟨hcov.1, by omega⟩, ?_⟩
      simp only [retop, hcov, and_self, if_true, Nat.add_zero]
      apply retop_none
      intro d hd hcd
      obtain ⟨m, hm⟩ := List.getElem?_of_mem hd
      have := (contig_get (Int.le_refl 0) rest c hc (m + 1) d (by simpa using hm)).2.2 (by omega)
      unfold Covers at hcd
      omega
    · simp only [retop, hcov, if_false]
      have hrest : Contig 0 rest := by
        cases rest with
        | nil => trivial
        | cons d r => exact hc.2
      rcases retop_spec rest (i0 + 1) top off hrest with h | ⟨k, d, hk, hcd, he⟩
      · exact Or.inl h
      · exact Or.inr ⟨k + 1, d, by simpa using hk, hcd, by rw [he]; congr 2; omega⟩

/-! ### insertLoop: the returned top -/

theorem insertLoop_top (stops : Bool) (hs : List Nat) : ∀ (fuel top : Nat) (ah : Int) (acc : List Child),
    top < U → (∀ f, acc.head? = some f → top ≤ f.idx) →
    (insertLoop stops hs fuel top ah acc).1 ≤ top ∧
    (∀ f, (insertLoop stops hs fuel top ah acc).2.2.head? = some f → (insertLoop stops hs fuel top ah acc).1 ≤ f.idx) ∧
    acc.length ≤ (insertLoop stops hs fuel top ah acc).2.2.length ∧
    (0 < fuel → ah > 0 → (∃ h, builder hs top = some h) →
      acc.length < (insertLoop stops hs fuel top ah acc).2.2.length) := by
  intro fuel
  induction fuel with
  | zero => intro top ah acc _ hf; exact ⟨Nat.le_refl _, hf, Nat.le_refl _, fun h => absurd h (by omega)⟩
  | succ fuel ih =>
    intro top ah acc hU hf
    simp only [insertLoop]
    split
    · rename_i hpos
      cases hb : builder hs top with
      | none => exact ⟨Nat.le_refl _, hf, Nat.le_refl _, fun _ _ h => by obtain ⟨x, hx⟩ := h; cases hx⟩
      | some h =>
        simp only []
        split
        · refine ⟨Nat.le_refl _, ?_, by simp, fun _ _ _ => by simp⟩
          intro f hfh
          simp only [List.head?_cons, Option.some.injEq] at hfh
          subst hfh; exact Nat.le_refl _
        · rename_i h0'
          have h0 : top ≠ 0 := fun h => h0' (Or.inl h)
          have hu := usub_one h0 hU
          have hrec := ih (usub top 1) (ah - (h : Int)) ({ idx := top, row := ah - (h : Int), height := h } :: acc)
            (by rw [hu]; omega)
            (fun f hfh => by
              simp only [List.head?_cons, Option.some.injEq] at hfh
              subst hfh; rw [hu]; show top - 1 ≤ top; omega)
          rw [hu] at hrec ⊢
          simp only [List.length_cons] at hrec
          exact ⟨by omega, hrec.2.1, by omega, fun _ _ _ => by omega⟩
    · exact ⟨Nat.le_refl _, hf, Nat.le_refl _, fun _ h => absurd h (by assumption)⟩

theorem restack_head : ∀ (cs : List Child) (r : Int) (f : Child), (restack r cs).head? = some f →
    ∃ f0, cs.head? = some f0 ∧ f.idx = f0.idx
  | [], _, _, h => by simp [restack] at h
  | c :: cs, r, f, h => by
    simp only [restack, List.head?_cons, Option.some.injEq] at h
    subst h
    exact ⟨c, rfl, rfl⟩

theorem restack_length : ∀ (cs : List Child) (r : Int), (restack r cs).length = cs.length
  | [], _ => rfl
  | c :: cs, r => by simp [restack, restack_length cs]

theorem insertChildren_top (stops : Bool) (hs : List Nat) (top : Nat) (ah : Int)
    (h0 : top ≠ 0) (hU : top < U) :
    (insertChildren stops hs top ah).1 ≤ top ∧
    (∀ f, (insertChildren stops hs top ah).2.2.head? = some f → (insertChildren stops hs top ah).1 ≤ f.idx) ∧
    (ah > 0 → (∃ h, builder hs (top - 1) = some h) → (insertChildren stops hs top ah).2.2 ≠ []) := by
  have hu := usub_one h0 hU
  have sp := insertLoop_top stops hs top (usub top 1) ah [] (by rw [hu]; omega) (by intro f hf; cases hf)
  rw [hu] at sp
  unfold insertChildren
  rw [hu]
  simp only []
  split
  · refine ⟨by omega, ?_, ?_⟩
    · intro f hf
      obtain ⟨f0, hf0, e⟩ := restack_head _ _ f hf
      rw [e]; exact sp.2.1 f0 hf0
    · intro hpos hb hnil
      have := sp.2.2.2 (by omega) hpos hb
      have hl := restack_length (insertLoop stops hs top (top - 1) ah []).2.2 0
      have hnil' : restack 0 (insertLoop stops hs top (top - 1) ah []).2.2 = [] := hnil
      rw [hnil'] at hl
      simp only [List.length_nil] at hl this
      omega
  · refine ⟨by omega, sp.2.1, ?_⟩
    intro hpos hb hnil
    have := sp.2.2.2 (by omega) hpos hb
    rw [hnil] at this
    simp at this

/-! ### no panic over whole histories (gap 0, fixed builder) -/

/-- The invariant: the top index exists (or is 0), a pending wants-cursor request refers to a
    cursor at or below the top, cursors are sane `uint`s. -/
structure Inv3 (hs : List Nat) (s : St) : Prop where
  top_ok : s.top = 0 ∨ s.top < hs.length
  wants_ok : s.wantsCursor = true → s.top ≤ s.cursor
  cur_ok : s.cursor < 2 ^ 63

theorem cursorChild_ok (cs : List Child) (cursor top : Nat) (h1 : top ≤ cursor) (h2 : cursor < 2 ^ 63) :
    (∃ c, cs[cursor - top]? = some c ∧ cursorChild cs cursor top = .ok (some c)) ∨
    (cs.length ≤ cursor - top ∧ cursorChild cs cursor top = .ok none) := by
  cases hget : cs[cursor - top]? with
  | some c => exact Or.inl ⟨c, rfl, cursorChild_hit cs cursor top c h1 h2 hget⟩
  | none =>
    have hl : cs.length ≤ cursor - top := by
      rcases Nat.lt_or_ge (cursor - top) cs.length with h | h
      · rw [List.getElem?_eq_getElem h] at hget; cases hget
      · exact h
    refine Or.inr ⟨hl, ?_⟩
    have hu : usub cursor top = cursor - top := usub_le h1 h2
    have ht : toInt (cursor - top) = ((cursor - top : Nat) : Int) := toInt_small (by omega)
    unfold cursorChild
    simp only [hu, ht]
    have : ¬ (((cursor - top : Nat) : Int) < (cs.length : Int)) := by omega
    rw [if_neg this]

theorem scrollUp_ok (stops : Bool) (hs : List Nat) (s1 : St) (ah1 : Int) (hU : s1.top < U)
    (h0 : ah1 > 0 → s1.top ≠ 0 ∧ s1.top < hs.length) :
    ∃ ah2 s2 cs0, scrollUp stops hs s1 ah1 = .ok (ah2, s2, cs0) ∧ s2.top ≤ s1.top ∧
      (∀ f, cs0.head? = some f → s2.top ≤ f.idx) ∧ (cs0 = [] → s2 = s1) := by
  unfold scrollUp
  by_cases hpos : ah1 > 0
  · obtain ⟨hne, hlt⟩ := h0 hpos
    have hb : ∃ h, builder hs (s1.top - 1) = some h := by
      unfold builder
      have : s1.top - 1 < hs.length := by omega
      exact ⟨hs[s1.top - 1], by rw [List.getElem?_eq_getElem this]⟩
    obtain ⟨t1, t2, t3⟩ := insertChildren_top stops hs s1.top ah1 hne hU
    have hnil := t3 hpos hb
    simp only [hpos, if_true]
    cases hl : (insertChildren stops hs s1.top ah1).2.2.getLast? with
    | none => rw [List.getLast?_eq_none_iff] at hl; exact absurd hl hnil
    | some last =>
      exact ⟨_, _, _, rfl, t1, t2, fun h => absurd h hnil⟩
  · simp only [hpos, if_false]
    exact ⟨_, _, _, rfl, Nat.le_refl _, (fun f hf => by cases hf), fun _ => rfl⟩

theorem drawDown_head (gap : Int) (wants : Bool) (cursor : Nat) (H : Int) (rest : List Nat) (i : Nat) (ah : Int)
    (f : Child) (h : (drawDown gap wants cursor H rest i ah []).head? = some f) : f.idx = i := by
  cases rest with
  | nil => simp [drawDown] at h
  | cons x rest =>
    obtain ⟨t, ht⟩ := drawDown_prefix gap wants cursor H rest (i + 1) (ah + (x : Int) + gap)
      ([] ++ [{ idx := i, row := ah, height := x }])
    simp only [drawDown] at h
    split at h
    · rw [ht] at h; simp at h; rw [← h]
    · split at h
      · simp at h; rw [← h]
      · rw [ht] at h; simp at h; rw [← h]

/-- The phases of one `Draw` from a state satisfying `Inv3` (gap 0, repaired gutter guard): no phase
    panics; the intermediate child lists and states with the facts the invariants need. -/
theorem draw_phases (F : Facts) (hF : F.cursorGuard = true) (cfg : Cfg) (hgap : cfg.gap = 0)
    (hs : List Nat) (hlen : hs.length < 2 ^ 63) (s : St) (W H : Nat)
    (hW : W ≠ 65535) (hH : H ≠ 65535) (hi : Inv3 hs s) :
    ∃ (ah2 : Int) (s2 : St) (cs0 cs1 cs2 : List Child) (s3 : St),
      scrollUp F.insertStops hs (prologue s).2 (prologue s).1 = .ok (ah2, s2, cs0) ∧
      cs1 = drawDown cfg.gap s2.wantsCursor s2.cursor H (hs.drop (prologue s).2.top) (prologue s).2.top ah2 cs0 ∧
      Contig 0 cs1 ∧ Heights hs cs1 ∧ (∀ f, cs1.head? = some f → s2.top ≤ f.idx) ∧
      reveal cs1 s2 H = .ok (cs2, s3) ∧ Contig 0 cs2 ∧ Heights hs cs2 ∧
      (∀ f, cs2.head? = some f → s2.top ≤ f.idx) ∧
      s3.top = s2.top ∧ s3.offset = s2.offset ∧ s3.cursor = s2.cursor ∧ s3.pending = s2.pending ∧
      cs2.length = cs1.length ∧
      (s3.wantsCursor = true → s2.top ≤ s2.cursor ∧ cs1.length ≤ s2.cursor - s2.top) ∧
      (cs2 = cs1 ∨ ∃ (adj : Int) (m : Nat) (c' : Child),
          adj ≤ 0 ∧ cs2 = cs1.map (fun c => { c with row := c.row + adj }) ∧ cs2[m]? = some c' ∧
          c'.row + (c'.height : Int) = H) ∧
      s2.top ≤ s.top ∧ s2.cursor = s.cursor ∧ s2.pending = 0 ∧ (cs0 = [] → s2 = (prologue s).2) ∧
      draw F cfg hs s W H = .ok ({ s3 with top := (retop cs2 0 (s3.top, s3.offset)).1,
                                            offset := (retop cs2 0 (s3.top, s3.offset)).2 }, cs2) := by
  have hb : ¬ (H = 65535 ∨ W = 65535) := fun h => h.elim hH hW
  obtain ⟨p1, p2, p3, p4⟩ := prologue_spec s
  have htopU : (prologue s).2.top < U := by
    rw [p1]; rcases hi.top_ok with h | h
    · rw [h]; unfold U; omega
    · unfold U; omega
  have hins : (prologue s).1 > 0 → (prologue s).2.top ≠ 0 ∧ (prologue s).2.top < hs.length := by
    intro h
    have := (p4 h).1
    rw [p1]
    rcases hi.top_ok with h' | h'
    · exact absurd h' this
    · exact ⟨this, h'⟩
  obtain ⟨ah2, s2, cs0, hsu, st1, st2, st3⟩ := scrollUp_ok F.insertStops hs _ _ htopU hins
  obtain ⟨c0, h0, l0, e0, sc, sw⟩ := scrollUp_spec F.insertStops hs _ _ ah2 s2 cs0 hsu htopU (fun h => (hins h).1)
  -- children after the downward loop
  obtain ⟨cs1, hcs1⟩ : ∃ x, x = drawDown cfg.gap s2.wantsCursor s2.cursor H (hs.drop (prologue s).2.top)
      (prologue s).2.top ah2 cs0 := ⟨_, rfl⟩
  have dd := drawDown_spec cfg.gap s2.wantsCursor s2.cursor H hs _ (prologue s).2.top ah2 cs0 rfl
    (by rw [hgap]; exact c0) h0
    (fun l hl => by obtain ⟨a, b⟩ := l0 l hl; rw [hgap]; exact ⟨a, by omega⟩)
  rw [← hcs1, hgap] at dd
  have hhead : ∀ f, cs1.head? = some f → s2.top ≤ f.idx := by
    intro f hf
    by_cases hnil : cs0 = []
    · have e := st3 hnil
      rw [hcs1, hnil] at hf
      have := drawDown_head _ _ _ _ _ _ _ f hf
      rw [this, e]; exact Nat.le_refl _
    · obtain ⟨t, ht⟩ := drawDown_prefix cfg.gap s2.wantsCursor s2.cursor H (hs.drop (prologue s).2.top)
        (prologue s).2.top ah2 cs0
      rw [hcs1, ht] at hf
      cases cs0 with
      | nil => exact absurd rfl hnil
      | cons a rest => simp at hf; rw [← hf]; exact st2 a rfl
  have hcur : s2.cursor = s.cursor := by rw [sc, p2]
  have hwants : s2.wantsCursor = s.wantsCursor := by rw [sw, p3]
  have htop2 : s2.top ≤ s.top := by rw [← p1]; exact st1
  have hc63 : s2.cursor < 2 ^ 63 := by rw [hcur]; exact hi.cur_ok
  -- gutter
  have hgut : gutter F cfg cs1 s2 = .ok () := by
    unfold gutter
    split
    · rename_i hc
      have hle : s2.top ≤ s2.cursor := by
        rcases hc.2 with h | h
        · rw [hF] at h; cases h
        · exact h
      rcases cursorChild_ok cs1 s2.cursor s2.top hle hc63 with ⟨c, _, e⟩ | ⟨_, e⟩ <;> rw [e]
    · rfl
  -- reveal
  have hrev : ∃ cs2 s3, reveal cs1 s2 H = .ok (cs2, s3) ∧ Contig 0 cs2 ∧ Heights hs cs2 ∧
      (∀ f, cs2.head? = some f → s2.top ≤ f.idx) ∧ s3.top = s2.top ∧ s3.offset = s2.offset ∧
      s3.cursor = s2.cursor ∧ s3.pending = s2.pending ∧
      cs2.length = cs1.length ∧
      (s3.wantsCursor = true → s2.top ≤ s2.cursor ∧ cs1.length ≤ s2.cursor - s2.top) ∧
      (cs2 = cs1 ∨ ∃ (adj : Int) (m : Nat) (c' : Child),
          adj ≤ 0 ∧ cs2 = cs1.map (fun c => { c with row := c.row + adj }) ∧ cs2[m]? = some c' ∧
          c'.row + (c'.height : Int) = H) := by
    unfold reveal
    by_cases hw : s2.wantsCursor = true
    · have hle : s2.top ≤ s2.cursor := by
        have := hi.wants_ok (by rw [← hwants]; exact hw)
        rw [hcur]; omega
      rw [if_pos hw]
      rcases cursorChild_ok cs1 s2.cursor s2.top hle hc63 with ⟨c, hcg, e⟩ | ⟨hl, e⟩
      · rw [e]
        simp only []
        split
        · rename_i hbr
          refine ⟨_, _, rfl, contig_shift _ dd.1, heights_shift _ dd.2, ?_, rfl, rfl, rfl, rfl, by simp, (fun h => by cases h),
            Or.inr ⟨_, s2.cursor - s2.top, { c with row := c.row + ((H : Int) - (c.row + (c.height : Int))) }, by omega, rfl, ?_, ?_⟩⟩
          rotate_left
          · rw [List.getElem?_map, hcg]; rfl
          · show c.row + ((H : Int) - (c.row + (c.height : Int))) + (c.height : Int) = H; omega
          intro f hf
          rw [List.head?_map] at hf
          cases hh : cs1.head? with
          | none => rw [hh] at hf; cases hf
          | some g => rw [hh] at hf; simp at hf; rw [← hf]; exact hhead g hh
        · exact ⟨_, _, rfl, dd.1, dd.2, hhead, rfl, rfl, rfl, rfl, rfl, (fun h => by cases h), Or.inl rfl⟩
      · rw [e]
        exact ⟨_, _, rfl, dd.1, dd.2, hhead, rfl, rfl, rfl, rfl, rfl, (fun _ => ⟨hle, hl⟩), Or.inl rfl⟩
    · rw [if_neg hw]
      exact ⟨_, _, rfl, dd.1, dd.2, hhead, rfl, rfl, rfl, rfl, rfl, (fun h => absurd h hw), Or.inl rfl⟩
  obtain ⟨cs2, s3, hrv, c2, h2, hd2, t3, o3, cu3, pe3, len2, w3, sh3⟩ := hrev
  have hpend : s2.pending = 0 := by
    have : (prologue s).2.pending = 0 := by unfold prologue; simp only []; split <;> rfl
    have hsu' := hsu
    unfold scrollUp at hsu'
    split at hsu'
    · simp only [] at hsu'
      split at hsu'
      · cases hsu'
      · cases hsu'; exact this
    · cases hsu'; exact this
  refine ⟨ah2, s2, cs0, cs1, cs2, s3, hsu, hcs1, dd.1, dd.2, hhead, hrv, c2, h2, hd2, t3, o3, cu3, pe3, len2, w3, sh3,
    htop2, hcur, hpend, st3, ?_⟩
  unfold draw
  rw [if_neg hb]
  simp only [hsu]
  rw [← hcs1, hgut]
  simp only [hrv]

/-- `Draw` preserves the invariant and does not panic (gap 0, repaired gutter guard). -/
theorem draw_inv3 (F : Facts) (hF : F.cursorGuard = true) (cfg : Cfg) (hgap : cfg.gap = 0)
    (hs : List Nat) (hlen : hs.length < 2 ^ 63) (s : St) (W H : Nat)
    (hW : W ≠ 65535) (hH : H ≠ 65535) (hi : Inv3 hs s) :
    ∃ s' cs, draw F cfg hs s W H = .ok (s', cs) ∧ Inv3 hs s' := by
  obtain ⟨ah2, s2, cs0, cs1, cs2, s3, hsu, hcs1, dd1, dd2, hhead, hrv, c2, h2, hd2, t3, o3, cu3, pe3, len2, w3, sh3,
    htop2, hcur, hpend, st3, hdraw⟩ := draw_phases F hF cfg hgap hs hlen s W H hW hH hi
  have hc63 : s2.cursor < 2 ^ 63 := by rw [hcur]; exact hi.cur_ok
  refine ⟨_, cs2, hdraw, ?_⟩
  -- the invariant after the final loop
  have hn63 : s2.top < 2 ^ 63 := by
    rcases hi.top_ok with h | h <;> omega
  rcases retop_spec cs2 0 s3.top s3.offset c2 with hr | ⟨k, c, hk, _, hr⟩
  · rw [hr]
    refine ⟨?_, ?_, ?_⟩
    · show s3.top = 0 ∨ s3.top < hs.length
      rw [t3]; rcases hi.top_ok with h | h <;> omega
    · intro hw; show s3.top ≤ s3.cursor; rw [t3, cu3]; exact (w3 hw).1
    · show s3.cursor < 2 ^ 63; rw [cu3]; exact hc63
  · rw [hr]
    -- the covering child is child k: its index is head.idx + k < n
    have hklt : k < cs2.length := getElem?_lt hk
    obtain ⟨f, rest, hcs⟩ : ∃ f rest, cs2 = f :: rest := by
      cases cs2 with
      | nil => simp at hklt
      | cons f rest => exact ⟨f, rest, rfl⟩
    have hfi : s2.top ≤ f.idx := hd2 f (by rw [hcs]; rfl)
    have hci := (contig_get (Int.le_refl 0) rest f (by rw [← hcs]; exact c2) k c (by rw [← hcs]; exact hk)).1
    have hcn : c.idx < hs.length := getElem?_lt (h2 c (List.mem_of_getElem? hk))
    have hua : uadd s3.top (0 + k) = s3.top + k := by
      unfold uadd U; rw [t3]; omega
    rw [hua]
    refine ⟨?_, ?_, ?_⟩
    · show s3.top + k = 0 ∨ s3.top + k < hs.length
      rw [t3]; omega
    · intro hw
      show s3.top + k ≤ s3.cursor
      obtain ⟨a, b⟩ := w3 hw
      rw [t3, cu3]; omega
    · show s3.cursor < 2 ^ 63; rw [cu3]; exact hc63

theorem ensureScroll_inv3 (hs : List Nat) (s : St) (c : Nat) (hi : Inv3 hs s) (hc : c < 2 ^ 63) :
    Inv3 hs (ensureScroll { s with cursor := c }) := by
  unfold ensureScroll
  simp only []
  split
  · rename_i h
    exact ⟨hi.top_ok, fun _ => Nat.le_of_lt h, hc⟩
  · rename_i h
    refine ⟨?_, fun _ => Nat.le_refl _, hc⟩
    show c = 0 ∨ c < hs.length
    rcases hi.top_ok with h' | h' <;> omega

theorem init_inv3 (hs : List Nat) : Inv3 hs init :=
  ⟨Or.inl rfl, (fun h => by cases h), by decide⟩

theorem step_inv3 (F : Facts) (hF : F.cursorGuard = true) (cfg : Cfg) (hgap : cfg.gap = 0)
    (hs : List Nat) (hlen : hs.length < 2 ^ 63) (s : St) (op : Op) (hi : Inv3 hs s) (ho : OpOk op) :
    ∃ s', step F cfg hs s op = .ok s' ∧ Inv3 hs s' := by
  cases op with
  | setCursor c => exact ⟨_, rfl, ensureScroll_inv3 hs s c hi ho⟩
  | next =>
    refine ⟨(nextItem hs s).1, rfl, ?_⟩
    have hu : uadd s.cursor 1 = s.cursor + 1 := by have := hi.cur_ok; unfold uadd U; omega
    unfold nextItem
    rw [hu]
    cases hb : builder hs (s.cursor + 1) with
    | none => exact hi
    | some h =>
      have : s.cursor + 1 < hs.length := getElem?_lt hb
      exact ensureScroll_inv3 hs s _ hi (by omega)
  | prev =>
    refine ⟨(prevItem hs s).1, rfl, ?_⟩
    unfold prevItem
    split
    · exact hi
    · rename_i h0
      have hu : usub s.cursor 1 = s.cursor - 1 := usub_le (by omega) hi.cur_ok
      rw [hu]
      cases hb : builder hs (s.cursor - 1) with
      | none => exact hi
      | some h => exact ensureScroll_inv3 hs s _ hi (by have := hi.cur_ok; omega)
  | wheelDown => exact ⟨_, rfl, hi.top_ok, hi.wants_ok, hi.cur_ok⟩
  | wheelUp =>
    refine ⟨(wheelUp s).1, rfl, ?_⟩
    unfold wheelUp
    split
    · exact ⟨hi.top_ok, hi.wants_ok, hi.cur_ok⟩
    · exact hi
  | pending k => exact ⟨_, rfl, hi.top_ok, hi.wants_ok, hi.cur_ok⟩
  | draw W H =>
    obtain ⟨s', cs, he, hi'⟩ := draw_inv3 F hF cfg hgap hs hlen s W H ho.1 ho.2 hi
    exact ⟨s', by simp [step, he], hi'⟩

theorem run_inv3 (F : Facts) (hF : F.cursorGuard = true) (cfg : Cfg) (hgap : cfg.gap = 0)
    (hs : List Nat) (hlen : hs.length < 2 ^ 63) : ∀ (ops : List Op) (s : St), Inv3 hs s →
    (∀ op ∈ ops, OpOk op) → ∃ s', run F cfg hs s ops = .ok s' ∧ Inv3 hs s'
  | [], s, hi, _ => ⟨s, rfl, hi⟩
  | op :: ops, s, hi, ho => by
    obtain ⟨s1, he, hi1⟩ := step_inv3 F hF cfg hgap hs hlen s op hi (ho op List.mem_cons_self)
    obtain ⟨s2, he2, hi2⟩ := run_inv3 F hF cfg hgap hs hlen ops s1 hi1 (fun o h => ho o (List.mem_cons_of_mem _ h))
    exact ⟨s2, by simp [run, he, he2], hi2⟩

/-! ### the scroll state stays settled (gap 0, positive heights, repaired insertChildren) -/

theorem contig_link {gap : Int} : ∀ (l : List Child) (m : Nat) (b c : Child), Contig gap l →
    l[m]? = some b → l[m + 1]? = some c → Link gap b c
  | [], _, _, _, _, h, _ => by simp at h
  | [_], m, _, _, _, _, h => by simp at h
  | a :: d :: rest, 0, b, c, hc, h1, h2 => by
    simp at h1 h2; subst h1; subst h2; exact hc.1
  | a :: d :: rest, m + 1, b, c, hc, h1, h2 =>
    contig_link (d :: rest) m b c hc.2 (by simpa using h1) (by simpa using h2)

/-- Contiguous children whose first starts at or above row 0 and one of which ends below row 0
    contain a child covering row 0. -/
theorem exists_cover : ∀ (m : Nat) (l : List Child) (f c : Child), Contig 0 l → l[0]? = some f → f.row ≤ 0 →
    l[m]? = some c → 0 < c.row + (c.height : Int) → ∃ (k : Nat) (d : Child), l[k]? = some d ∧ Covers d
  | 0, l, f, c, _, hf, hr, hc, he => by
    rw [hf] at hc; cases hc; exact ⟨0, f, hf, hr, he⟩
  | m + 1, l, f, c, hl, hf, hr, hc, he => by
    have hm : m < l.length := by have := getElem?_lt hc; omega
    have hb : l[m]? = some l[m] := List.getElem?_eq_getElem hm
    by_cases hbe : 0 < (l[m]).row + ((l[m]).height : Int)
    · exact exists_cover m l f l[m] hl hf hr hb hbe
    · have lk := contig_link l m l[m] c hl hb hc
      exact ⟨m + 1, c, hc, by have := lk.2; omega, he⟩

theorem retop_hit : ∀ (cs : List Child) (k : Nat) (c : Child) (i0 top : Nat) (off : Int), Contig 0 cs →
    cs[k]? = some c → Covers c → retop cs i0 (top, off) = (uadd top (i0 + k), - c.row)
  | [], _, _, _, _, _, _, h, _ => by simp at h
  | a :: rest, 0, c, i0, top, off, hc, hk, hcov => by
    simp at hk; subst hk
    have hcov' : a.row ≤ 0 ∧ a.row + (a.height : Int) > 0 := ⟨hcov.1, by have := hcov.2; omega⟩
    simp only [retop, hcov', and_self, if_true, Nat.add_zero]
    apply retop_none
    intro d hd hcd
    obtain ⟨m, hm⟩ := List.getElem?_of_mem hd
    have := (contig_get (Int.le_refl 0) rest a hc (m + 1) d (by simpa using hm)).2.2 (by omega)
    unfold Covers at hcd
    omega
  | a :: rest, k + 1, c, i0, top, off, hc, hk, hcov => by
    have hge := (contig_get (Int.le_refl 0) rest a hc (k + 1) c hk).2.2 (by omega)
    have hna : ¬ (a.row ≤ 0 ∧ a.row + (a.height : Int) > 0) := by
      unfold Covers at hcov; omega
    have hrest : Contig 0 rest := by
      cases rest with
      | nil => trivial
      | cons d r => exact hc.2
    simp only [retop, hna, if_false]
    rw [retop_hit rest k c (i0 + 1) top off hrest (by simpa using hk) hcov]
    congr 2; omega

/-- The repaired insertion loop (`stops = true`) over a builder that has every index up to `top`:
    the first child of the result is item `top'` at row `ah'`, it ends below row 0, and the loop
    stopped because the height was used up or item 0 was reached. -/
theorem insertLoop_exact (hs : List Nat) : ∀ (fuel top : Nat) (ah : Int) (acc : List Child),
    top < U → top < fuel → top < hs.length → ah > 0 →
    ∃ h, (insertLoop true hs fuel top ah acc).2.2.head? =
        some { idx := (insertLoop true hs fuel top ah acc).1, row := (insertLoop true hs fuel top ah acc).2.1, height := h } ∧
      0 < (insertLoop true hs fuel top ah acc).2.1 + (h : Int) ∧
      ((insertLoop true hs fuel top ah acc).2.1 ≤ 0 ∨ (insertLoop true hs fuel top ah acc).1 = 0) := by
  intro fuel
  induction fuel with
  | zero => intro top ah acc _ h; omega
  | succ fuel ih =>
    intro top ah acc hU hfu hn hpos
    have hb : builder hs top = some hs[top] := by unfold builder; exact List.getElem?_eq_getElem hn
    simp only [insertLoop, hpos, if_true, hb]
    split
    · rename_i hstop
      refine ⟨hs[top], rfl, by simp only []; omega, ?_⟩
      rcases hstop with h | h
      · exact Or.inr h
      · exact Or.inl h.2
    · rename_i hcont
      have h0 : top ≠ 0 := fun h => hcont (Or.inl h)
      have hah : ah - (hs[top] : Int) > 0 := by
        have : ¬ (ah - (hs[top] : Int) ≤ 0) := fun h => hcont (Or.inr ⟨by simp, h⟩)
        omega
      have hu := usub_one h0 hU
      rw [hu]
      exact ih (top - 1) (ah - (hs[top] : Int)) _ (by omega) (by omega) (by omega) hah

/-- What the repaired `insertChildren` + `Children[len-1]` leave behind on an upward scroll. -/
theorem scrollUp_exact (hs : List Nat) (s1 : St) (ah1 ah2 : Int) (s2 : St) (cs0 : List Child)
    (he : scrollUp true hs s1 ah1 = .ok (ah2, s2, cs0)) (hU : s1.top < U) :
    (¬ ah1 > 0 → cs0 = [] ∧ s2 = s1) ∧
    (ah1 > 0 → s1.top ≠ 0 → s1.top < hs.length →
      ∃ f, cs0.head? = some f ∧ f.idx = s2.top ∧ f.row ≤ 0 ∧
        (s2.offset = 0 ∨ (s2.offset < 0 ∧ f.row = s2.offset ∧ 0 < f.row + (f.height : Int)))) := by
  unfold scrollUp at he
  split at he
  · rename_i hpos
    refine ⟨fun h => absurd hpos h, fun _ h0 hn => ?_⟩
    have hu := usub_one h0 hU
    obtain ⟨h, e1, e2, e3⟩ := insertLoop_exact hs s1.top (s1.top - 1) ah1 [] (by omega) (by omega) (by omega) hpos
    simp only [] at he
    split at he
    · cases he
    · cases he
      simp only []
      unfold insertChildren
      rw [hu]
      simp only []
      split
      · rename_i hre
        -- restacked from row 0
        cases hcs : (insertLoop true hs s1.top (s1.top - 1) ah1 []).2.2 with
        | nil => rw [hcs] at e1; cases e1
        | cons a rest =>
          rw [hcs] at e1
          simp only [List.head?_cons, Option.some.injEq] at e1
          refine ⟨{ a with row := 0 }, by simp [restack], ?_, Int.le_refl 0, Or.inl rfl⟩
          rw [e1]
      · rename_i hre
        refine ⟨_, e1, rfl, ?_, ?_⟩
        · show (insertLoop true hs s1.top (s1.top - 1) ah1 []).2.1 ≤ 0
          rcases e3 with h' | h'
          · exact h'
          · have : ¬ ((insertLoop true hs s1.top (s1.top - 1) ah1 []).2.1 > 0) := fun hp => hre ⟨h', hp⟩
            omega
        · show (insertLoop true hs s1.top (s1.top - 1) ah1 []).2.1 = 0 ∨ _
          have hle : (insertLoop true hs s1.top (s1.top - 1) ah1 []).2.1 ≤ 0 := by
            rcases e3 with h' | h'
            · exact h'
            · have : ¬ ((insertLoop true hs s1.top (s1.top - 1) ah1 []).2.1 > 0) := fun hp => hre ⟨h', hp⟩
              omega
          by_cases hz : (insertLoop true hs s1.top (s1.top - 1) ah1 []).2.1 = 0
          · exact Or.inl hz
          · exact Or.inr ⟨(by show (insertLoop true hs s1.top (s1.top - 1) ah1 []).2.1 < 0; omega), rfl, e2⟩
  · rename_i hn
    cases he
    exact ⟨fun _ => ⟨rfl, rfl⟩, fun h => absurd h hn⟩

/-- The invariant with the scroll offset: it is never negative and lies within the top item. -/
structure Inv4 (hs : List Nat) (s : St) : Prop where
  inv3 : Inv3 hs s
  off_nonneg : 0 ≤ s.offset
  off_in : s.offset = 0 ∨ ∃ ht, hs[s.top]? = some ht ∧ s.offset < (ht : Int)

theorem prologue_off (s : St) : (prologue s).2.offset = 0 ∨ (prologue s).2.offset = s.offset := by
  unfold prologue; simp only []; split
  · exact Or.inl rfl
  · exact Or.inr rfl

theorem head?_getElem? {α} (l : List α) : l.head? = l[0]? := by cases l <;> rfl

/-- `Draw` re-establishes the settled scroll state (gap 0, both repairs present, viewport ≥ 1 row). -/
theorem draw_inv4 (F : Facts) (hF : F.cursorGuard = true) (hS : F.insertStops = true)
    (cfg : Cfg) (hgap : cfg.gap = 0) (hs : List Nat) (hlen : hs.length < 2 ^ 63) (s : St) (W H : Nat)
    (hW : W ≠ 65535) (hH : H ≠ 65535) (hH1 : 1 ≤ H) (hi : Inv4 hs s) :
    ∃ s' cs, draw F cfg hs s W H = .ok (s', cs) ∧ Inv4 hs s' := by
  obtain ⟨ah2, s2, cs0, cs1, cs2, s3, hsu, hcs1, dd1, dd2, hhead1, hrv, c2, h2, hd2, t3, o3, cu3, pe3, len2, w3, sh3,
    htop2, hcur, hpend, st3, hdraw⟩ := draw_phases F hF cfg hgap hs hlen s W H hW hH hi.inv3
  obtain ⟨s', cs, he, hi3⟩ := draw_inv3 F hF cfg hgap hs hlen s W H hW hH hi.inv3
  rw [hdraw] at he
  cases he
  suffices key : 0 ≤ (retop cs2 0 (s3.top, s3.offset)).2 ∧
      ((retop cs2 0 (s3.top, s3.offset)).2 = 0 ∨
        ∃ ht, hs[(retop cs2 0 (s3.top, s3.offset)).1]? = some ht ∧ (retop cs2 0 (s3.top, s3.offset)).2 < (ht : Int)) from
    ⟨_, cs2, hdraw, hi3, key.1, key.2⟩
  obtain ⟨p1, p2, p3, p4⟩ := prologue_spec s
  have htopU : (prologue s).2.top < U := by
    rw [p1]; rcases hi.inv3.top_ok with h | h
    · rw [h]; unfold U; omega
    · unfold U; omega
  rw [hS] at hsu
  obtain ⟨x1, x2⟩ := scrollUp_exact hs _ _ ah2 s2 cs0 hsu htopU
  -- head of cs1 / cs2 versus head of cs0
  have hmaphead : ∀ f, cs2.head? = some f → ∃ g, cs1.head? = some g ∧ f.idx = g.idx ∧ f.height = g.height ∧ f.row ≤ g.row := by
    intro f hf
    rcases sh3 with e | ⟨adj, m, c', hadj, e, _, _⟩
    · rw [e] at hf; exact ⟨f, hf, rfl, rfl, Int.le_refl _⟩
    · rw [e, List.head?_map] at hf
      cases hh : cs1.head? with
      | none => rw [hh] at hf; cases hf
      | some g =>
        rw [hh] at hf; simp only [Option.map_some, Option.some.injEq] at hf
        exact ⟨g, rfl, by rw [← hf], by rw [← hf], by rw [← hf]; show g.row + adj ≤ g.row; omega⟩
  -- the inserted head (when there was an upward scroll)
  have hins : cs0 ≠ [] → ∃ f0, cs0.head? = some f0 ∧ cs1.head? = some f0 ∧ f0.idx = s2.top ∧ f0.row ≤ 0 ∧
      (s2.offset = 0 ∨ (s2.offset < 0 ∧ f0.row = s2.offset ∧ 0 < f0.row + (f0.height : Int))) := by
    intro hne
    have hpos : (prologue s).1 > 0 := by
      by_cases h : (prologue s).1 > 0
      · exact h
      · exact absurd (x1 h).1 hne
    have ht0 := (p4 hpos).1
    have htn : (prologue s).2.top < hs.length := by
      rw [p1]; rcases hi.inv3.top_ok with h | h
      · exact absurd h ht0
      · exact h
    obtain ⟨f0, e1, e2, e3, e4⟩ := x2 hpos (by rw [p1]; exact ht0) htn
    refine ⟨f0, e1, ?_, e2, e3, e4⟩
    obtain ⟨t, ht⟩ := drawDown_prefix cfg.gap s2.wantsCursor s2.cursor H (hs.drop (prologue s).2.top)
      (prologue s).2.top ah2 cs0
    rw [hcs1, ht]
    cases cs0 with
    | nil => exact absurd rfl hne
    | cons a rest => simpa using e1
  have hexact : ∀ f, cs2.head? = some f → f.idx = s2.top := by
    intro f hf
    obtain ⟨g, hg, e, _, _⟩ := hmaphead f hf
    rw [e]
    by_cases hnil : cs0 = []
    · have es := st3 hnil
      rw [hcs1, hnil] at hg
      rw [drawDown_head _ _ _ _ _ _ _ g hg, es]
    · obtain ⟨f0, _, h1, h2', _⟩ := hins hnil
      rw [h1] at hg; cases hg; exact h2'
  have hs2top63 : s2.top < 2 ^ 63 := by
    rcases hi.inv3.top_ok with h | h <;> omega
  by_cases hex : ∃ (k : Nat) (c : Child), cs2[k]? = some c ∧ Covers c
  · -- the unique covering child determines top and offset
    obtain ⟨k, c, hk, hcov⟩ := hex
    have hr := retop_hit cs2 k c 0 s3.top s3.offset c2 hk hcov
    have hklt : k < cs2.length := getElem?_lt hk
    obtain ⟨f, rest, hcs⟩ : ∃ f rest, cs2 = f :: rest := by
      cases cs2 with
      | nil => simp at hklt
      | cons f rest => exact ⟨f, rest, rfl⟩
    have hfi : f.idx = s2.top := hexact f (by rw [hcs]; rfl)
    have hci := (contig_get (Int.le_refl 0) rest f (by rw [← hcs]; exact c2) k c (by rw [← hcs]; exact hk)).1
    have hch : hs[c.idx]? = some c.height := h2 c (List.mem_of_getElem? hk)
    have hcn : c.idx < hs.length := getElem?_lt hch
    have hua : uadd s3.top (0 + k) = c.idx := by
      unfold uadd U; rw [t3]; omega
    rw [hr, hua]
    refine ⟨?_, ?_⟩
    · show 0 ≤ - c.row; have := hcov.1; omega
    · right
      exact ⟨c.height, hch, (by show - c.row < (c.height : Int); have := hcov.2; omega)⟩
  · -- nothing covers row 0: top and offset stay as the earlier phases left them
    have hnone : ∀ c ∈ cs2, ¬ Covers c := by
      intro c hc hcov
      obtain ⟨m, hm⟩ := List.getElem?_of_mem hc
      exact hex ⟨m, c, hm, hcov⟩
    rw [retop_none cs2 0 (s3.top, s3.offset) hnone]
    show 0 ≤ s3.offset ∧ (s3.offset = 0 ∨ ∃ ht, hs[s3.top]? = some ht ∧ s3.offset < (ht : Int))
    rw [t3, o3]
    by_cases hnil : cs0 = []
    · have es := st3 hnil
      rw [es, p1]
      rcases prologue_off s with h | h
      · rw [h]; exact ⟨Int.le_refl 0, Or.inl rfl⟩
      · rw [h]; exact ⟨hi.off_nonneg, hi.off_in⟩
    · obtain ⟨f0, _, h1, _, hrow, hoff⟩ := hins hnil
      rcases hoff with h | ⟨hneg, hfr, hend⟩
      · rw [h]; exact ⟨Int.le_refl 0, Or.inl rfl⟩
      · -- impossible: the inserted head (or, after the cursor shift, a later child) covers row 0
        exfalso
        rcases sh3 with e | ⟨adj, m, c', hadj, e, hm, hend'⟩
        · have h0 : cs2[0]? = some f0 := by rw [e, ← head?_getElem?]; exact h1
          exact hex ⟨0, f0, h0, hrow, hend⟩
        · have h0 : cs2[0]? = some { f0 with row := f0.row + adj } := by
            rw [e, List.getElem?_map, ← head?_getElem?, h1]; rfl
          obtain ⟨k, d, hk, hd⟩ := exists_cover m cs2 _ c' c2 h0 (by show f0.row + adj ≤ 0; omega) hm (by omega)
          exact hex ⟨k, d, hk, hd⟩

/-- Operations of a sane caller drawing into viewports of at least one row. -/
def OpOk1 : Op → Prop
  | .setCursor c => c < 2 ^ 63
  | .draw W H => W ≠ 65535 ∧ H ≠ 65535 ∧ 1 ≤ H
  | _ => True

theorem OpOk1.toOpOk {op : Op} (h : OpOk1 op) : OpOk op := by
  cases op <;> first | exact h | exact ⟨h.1, h.2.1⟩ | trivial

theorem ensureScroll_inv4 (hs : List Nat) (s : St) (c : Nat) (hi : Inv4 hs s) (hc : c < 2 ^ 63) :
    Inv4 hs (ensureScroll { s with cursor := c }) := by
  refine ⟨ensureScroll_inv3 hs s c hi.inv3 hc, ?_, ?_⟩
  · unfold ensureScroll; simp only []; split
    · exact hi.off_nonneg
    · exact Int.le_refl 0
  · unfold ensureScroll; simp only []; split
    · exact hi.off_in
    · exact Or.inl rfl

theorem init_inv4 (hs : List Nat) : Inv4 hs init := ⟨init_inv3 hs, Int.le_refl 0, Or.inl rfl⟩

theorem step_inv4 (F : Facts) (hF : F.cursorGuard = true) (hS : F.insertStops = true)
    (cfg : Cfg) (hgap : cfg.gap = 0)
    (hs : List Nat) (hlen : hs.length < 2 ^ 63) (s : St) (op : Op) (hi : Inv4 hs s) (ho : OpOk1 op) :
    ∃ s', step F cfg hs s op = .ok s' ∧ Inv4 hs s' := by
  cases op with
  | setCursor c => exact ⟨_, rfl, ensureScroll_inv4 hs s c hi ho⟩
  | next =>
    refine ⟨(nextItem hs s).1, rfl, ?_⟩
    have hu : uadd s.cursor 1 = s.cursor + 1 := by have := hi.inv3.cur_ok; unfold uadd U; omega
    unfold nextItem
    rw [hu]
    cases hb : builder hs (s.cursor + 1) with
    | none => exact hi
    | some h =>
      have : s.cursor + 1 < hs.length := getElem?_lt hb
      exact ensureScroll_inv4 hs s _ hi (by omega)
  | prev =>
    refine ⟨(prevItem hs s).1, rfl, ?_⟩
    unfold prevItem
    split
    · exact hi
    · rename_i h0
      have hu : usub s.cursor 1 = s.cursor - 1 := usub_le (by omega) hi.inv3.cur_ok
      rw [hu]
      cases hb : builder hs (s.cursor - 1) with
      | none => exact hi
      | some h => exact ensureScroll_inv4 hs s _ hi (by have := hi.inv3.cur_ok; omega)
  | wheelDown =>
    exact ⟨_, rfl, ⟨hi.inv3.top_ok, hi.inv3.wants_ok, hi.inv3.cur_ok⟩, hi.off_nonneg, hi.off_in⟩
  | wheelUp =>
    refine ⟨(wheelUp s).1, rfl, ?_⟩
    unfold wheelUp
    split
    · exact ⟨⟨hi.inv3.top_ok, hi.inv3.wants_ok, hi.inv3.cur_ok⟩, hi.off_nonneg, hi.off_in⟩
    · exact hi
  | pending k =>
    exact ⟨_, rfl, ⟨hi.inv3.top_ok, hi.inv3.wants_ok, hi.inv3.cur_ok⟩, hi.off_nonneg, hi.off_in⟩
  | draw W H =>
    obtain ⟨s', cs, he, hi'⟩ := draw_inv4 F hF hS cfg hgap hs hlen s W H ho.1 ho.2.1 ho.2.2 hi
    exact ⟨s', by simp [step, he], hi'⟩

theorem run_inv4 (F : Facts) (hF : F.cursorGuard = true) (hS : F.insertStops = true)
    (cfg : Cfg) (hgap : cfg.gap = 0)
    (hs : List Nat) (hlen : hs.length < 2 ^ 63) : ∀ (ops : List Op) (s : St), Inv4 hs s →
    (∀ op ∈ ops, OpOk1 op) → ∃ s', run F cfg hs s ops = .ok s' ∧ Inv4 hs s'
  | [], s, hi, _ => ⟨s, rfl, hi⟩
  | op :: ops, s, hi, ho => by
    obtain ⟨s1, he, hi1⟩ := step_inv4 F hF hS cfg hgap hs hlen s op hi (ho op List.mem_cons_self)
    obtain ⟨s2, he2, hi2⟩ := run_inv4 F hF hS cfg hgap hs hlen ops s1 hi1 (fun o h => ho o (List.mem_cons_of_mem _ h))
    exact ⟨s2, by simp [run, he, he2], hi2⟩

/-- A state satisfying `Inv4` with nothing pending is settled (when the list has items). -/
theorem inv4_settled (hs : List Nat) (s : St) (hi : Inv4 hs s) (hp : s.pending = 0) (hn : 0 < hs.length) :
    Settled hs s := by
  refine ⟨hp, hi.off_nonneg, ?_⟩
  rcases hi.off_in with h | ⟨ht, h1, h2⟩
  · have : s.top < hs.length := by rcases hi.inv3.top_ok with h' | h' <;> omega
    exact ⟨hs[s.top], List.getElem?_eq_getElem this, by rw [h]; omega⟩
  · exact ⟨ht, h1, by omega⟩

end VaxisModel.Lemmas.DynList
