import VaxisModel.Lemmas.DynList

/-! Invariants of vxfw/list `Dynamic` over whole histories (any gap ≥ 0, the Builder's items may be
    replaced between operations). -/
namespace VaxisModel.Lemmas.DynList
open VaxisModel.Model.DynList

/-- A child (with the gap below it) covers row 0 of the viewport. -/
def Covers (g : Int) (c : Child) : Prop := c.row ≤ 0 ∧ 0 < c.row + (c.height : Int) + g

instance (g : Int) (c : Child) : Decidable (Covers g c) := by unfold Covers; exact inferInstance

/-- In a contiguous list with a non-negative gap, a later child starts at or below the end of the
    first child plus the gap. -/
theorem contig_get_gap {gap : Int} (hg : 0 ≤ gap) : ∀ (cs : List Child) (f : Child), Contig gap (f :: cs) →
    ∀ (m : Nat) (c : Child), (f :: cs)[m]? = some c → 1 ≤ m → f.row + (f.height : Int) + gap ≤ c.row := by
  intro cs
  induction cs with
  | nil =>
    intro f _ m c hm h1
    cases m with
    | zero => omega
    | succ k => simp at hm
  | cons d rest ih =>
    intro f hc m c hm h1
    cases m with
    | zero => omega
    | succ k =>
      have hm' : (d :: rest)[k]? = some c := by simpa using hm
      obtain ⟨l1, l2⟩ := hc.1
      by_cases hk : k = 0
      · subst hk; simp at hm'; subst hm'; omega
      · have := ih d hc.2 k c hm' (by omega); omega

theorem retop_none (g : Int) : ∀ (cs : List Child) (i : Nat) (acc : Nat × Int),
    (∀ c ∈ cs, ¬ Covers g c) → retop g cs i acc = acc
  | [], _, _, _ => rfl
  | c :: cs, i, (top, off), h => by
    have hc : ¬ (c.row ≤ 0 ∧ c.row + (c.height : Int) + g > 0) := by
      have := h c List.mem_cons_self; unfold Covers at this; omega
    simp only [retop, hc, if_false]
    exact retop_none g cs (i + 1) (top, off) (fun d hd => h d (List.mem_cons_of_mem _ hd))

/-- With contiguous children (gap ≥ 0) at most one covers row 0: the final loop of `Draw` either
    leaves (top, offset) alone or sets them from the unique covering child. -/
theorem retop_spec (g : Int) (hg : 0 ≤ g) : ∀ (cs : List Child) (i0 top : Nat) (off : Int), Contig g cs →
    retop g cs i0 (top, off) = (top, off) ∨
    ∃ k c, cs[k]? = some c ∧ Covers g c ∧ retop g cs i0 (top, off) = (uadd top (i0 + k), - c.row)
  | [], _, _, _, _ => Or.inl rfl
  | c :: rest, i0, top, off, hc => by
    by_cases hcov : c.row ≤ 0 ∧ c.row + (c.height : Int) + g > 0
    · right
      refine ⟨0, c, rfl, ⟨hcov.1, by omega⟩, ?_⟩
      simp only [retop, hcov, and_self, if_true, Nat.add_zero]
      apply retop_none
      intro d hd hcd
      obtain ⟨m, hm⟩ := List.getElem?_of_mem hd
      have := contig_get_gap hg rest c hc (m + 1) d (by simpa using hm) (by omega)
      unfold Covers at hcd
      omega
    · simp only [retop, hcov, if_false]
      have hrest : Contig g rest := by
        cases rest with
        | nil => trivial
        | cons d r => exact hc.2
      rcases retop_spec g hg rest (i0 + 1) top off hrest with h | ⟨k, d, hk, hcd, he⟩
      · exact Or.inl h
      · exact Or.inr ⟨k + 1, d, by simpa using hk, hcd, by rw [he]; congr 2; omega⟩

/-! ### insertLoop: the returned top -/

theorem insertLoop_top (stops : Bool) (g : Int) (hs : List Nat) : ∀ (fuel top : Nat) (ah : Int) (acc : List Child),
    top < U → (∀ f, acc.head? = some f → top ≤ f.idx) →
    (insertLoop stops g hs fuel top ah acc).1 ≤ top ∧
    (∀ f, (insertLoop stops g hs fuel top ah acc).2.2.head? = some f → (insertLoop stops g hs fuel top ah acc).1 ≤ f.idx) ∧
    acc.length ≤ (insertLoop stops g hs fuel top ah acc).2.2.length ∧
    (0 < fuel → ah > 0 → (∃ h, builder hs top = some h) →
      acc.length < (insertLoop stops g hs fuel top ah acc).2.2.length) := by
  intro fuel
  induction fuel with
  | zero => intro top ah acc _ hf; exact ⟨Nat.le_refl _, hf, Nat.le_refl _, fun h => absurd h (by omega)⟩
  | succ fuel ih =>
    intro top ah acc hU hf
    simp only [insertLoop]
    split
    · rename_i hpos
      cases hb : builder hs top with
      | none => exact ⟨Nat.le_refl _, hf, Nat.le_refl _, fun _ _ h => by obtain ⟨x, hx⟩ := h; cases hx⟩
      | some h =>
        simp only []
        split
        · refine ⟨Nat.le_refl _, ?_, by simp, fun _ _ _ => by simp⟩
          intro f hfh
          simp only [List.head?_cons, Option.some.injEq] at hfh
          subst hfh; exact Nat.le_refl _
        · rename_i h0'
          have h0 : top ≠ 0 := fun h => h0' (Or.inl h)
          have hu := usub_one h0 hU
          have hrec := ih (usub top 1) (ah - ((h : Int) + g)) ({ idx := top, row := ah - ((h : Int) + g), height := h } :: acc)
            (by rw [hu]; omega)
            (fun f hfh => by
              simp only [List.head?_cons, Option.some.injEq] at hfh
              subst hfh; rw [hu]; show top - 1 ≤ top; omega)
          rw [hu] at hrec ⊢
          simp only [List.length_cons] at hrec
          exact ⟨by omega, hrec.2.1, by omega, fun _ _ _ => by omega⟩
    · exact ⟨Nat.le_refl _, hf, Nat.le_refl _, fun _ h => absurd h (by assumption)⟩

theorem restack_head (g : Int) : ∀ (cs : List Child) (r : Int) (f : Child), (restack g r cs).head? = some f →
    ∃ f0, cs.head? = some f0 ∧ f.idx = f0.idx
  | [], _, _, h => by simp [restack] at h
  | c :: cs, r, f, h => by
    simp only [restack, List.head?_cons, Option.some.injEq] at h
    subst h
    exact ⟨c, rfl, rfl⟩

theorem restack_length (g : Int) : ∀ (cs : List Child) (r : Int), (restack g r cs).length = cs.length
  | [], _ => rfl
  | c :: cs, r => by simp [restack, restack_length g cs]

theorem insertChildren_top (stops : Bool) (g : Int) (hs : List Nat) (top : Nat) (ah : Int)
    (h0 : top ≠ 0) (hU : top < U) :
    (insertChildren stops g hs top ah).1 ≤ top ∧
    (∀ f, (insertChildren stops g hs top ah).2.2.head? = some f → (insertChildren stops g hs top ah).1 ≤ f.idx) ∧
    (ah > 0 → (∃ h, builder hs (top - 1) = some h) → (insertChildren stops g hs top ah).2.2 ≠ []) := by
  have hu := usub_one h0 hU
  have sp := insertLoop_top stops g hs top (usub top 1) ah [] (by rw [hu]; omega) (by intro f hf; cases hf)
  rw [hu] at sp
  unfold insertChildren
  rw [hu]
  simp only []
  split
  · refine ⟨by omega, ?_, ?_⟩
    · intro f hf
      obtain ⟨f0, hf0, e⟩ := restack_head g _ _ f hf
      rw [e]; exact sp.2.1 f0 hf0
    · intro hpos hb hnil
      have := sp.2.2.2 (by omega) hpos hb
      have hl := restack_length g (insertLoop stops g hs top (top - 1) ah []).2.2 0
      have hnil' : restack g 0 (insertLoop stops g hs top (top - 1) ah []).2.2 = [] := hnil
      rw [hnil'] at hl
      simp only [List.length_nil] at hl this
      omega
  · refine ⟨by omega, sp.2.1, ?_⟩
    intro hpos hb hnil
    have := sp.2.2.2 (by omega) hpos hb
    rw [hnil] at this
    simp at this

/-! ### no panic over whole histories (any gap ≥ 0, items replaced at will) -/

/-- The invariant — it does not mention the Builder, so it survives any replacement of the items:
    the top index is below 2^63 (it is 0, an index of an item, or a former cursor not above one),
    the cursor is a `uint` value, and a pending wants-cursor request refers to a cursor at or below
    the top. -/
structure Inv (s : St) : Prop where
  top_ok : s.top < 2 ^ 63
  wants_ok : s.wantsCursor = true → s.top ≤ s.cursor
  cur_ok : s.cursor < U

theorem cursorChild_ok (cs : List Child) (cursor top : Nat) (h1 : top ≤ cursor) (h2 : cursor < U) :
    (∃ c, cs[cursor - top]? = some c ∧ cursorChild true cs cursor top = .ok (some c)) ∨
    (cs.length ≤ cursor - top ∧ cursorChild true cs cursor top = .ok none) := by
  cases hget : cs[cursor - top]? with
  | some c => exact Or.inl ⟨c, rfl, cursorChild_hit cs cursor top c h1 h2 hget⟩
  | none =>
    have hl : cs.length ≤ cursor - top := by
      rcases Nat.lt_or_ge (cursor - top) cs.length with h | h
      · rw [List.getElem?_eq_getElem h] at hget; cases hget
      · exact h
    refine Or.inr ⟨hl, ?_⟩
    have hu : usub cursor top = cursor - top := usub_le h1 h2
    unfold cursorChild
    simp only [hu, if_true]
    have : ¬ (cursor - top < cs.length) := by omega
    rw [if_neg this]

/-- The repaired insertion loop (`stops = true`) over a builder that has every index up to `top`:
    the first child of the result is item `top'` at row `ah'`, it (with its gap) ends below row 0,
    and the loop stopped because the height was used up or item 0 was reached. -/
theorem insertLoop_exact (g : Int) (hs : List Nat) : ∀ (fuel top : Nat) (ah : Int) (acc : List Child),
    top < U → top < fuel → top < hs.length → ah > 0 →
    ∃ h, (insertLoop true g hs fuel top ah acc).2.2.head? =
        some { idx := (insertLoop true g hs fuel top ah acc).1, row := (insertLoop true g hs fuel top ah acc).2.1, height := h } ∧
      0 < (insertLoop true g hs fuel top ah acc).2.1 + (h : Int) + g ∧
      ((insertLoop true g hs fuel top ah acc).2.1 ≤ 0 ∨ (insertLoop true g hs fuel top ah acc).1 = 0) := by
  intro fuel
  induction fuel with
  | zero => intro top ah acc _ h; omega
  | succ fuel ih =>
    intro top ah acc hU hfu hn hpos
    have hb : builder hs top = some hs[top] := by unfold builder; exact List.getElem?_eq_getElem hn
    simp only [insertLoop, hpos, if_true, hb]
    split
    · rename_i hstop
      refine ⟨hs[top], rfl, by simp only []; omega, ?_⟩
      rcases hstop with h | h
      · exact Or.inr h
      · exact Or.inl h.2
    · rename_i hcont
      have h0 : top ≠ 0 := fun h => hcont (Or.inl h)
      have hah : ah - ((hs[top] : Int) + g) > 0 := by
        have : ¬ (ah - ((hs[top] : Int) + g) ≤ 0) := fun h => hcont (Or.inr ⟨by simp, h⟩)
        omega
      have hu := usub_one h0 hU
      rw [hu]
      exact ih (top - 1) (ah - ((hs[top] : Int) + g)) _ (by omega) (by omega) (by omega) hah

/-- The upward scroll of the repaired code from a top index that exists: no panic, the top moves up
    to the first inserted child. -/
theorem scrollUp_ok (g : Int) (hs : List Nat) (s1 : St) (ah1 : Int) (hU : s1.top < U)
    (h0 : ah1 > 0 → s1.top ≠ 0 ∧ s1.top < hs.length) :
    ∃ ah2 s2 cs0, scrollUp true g hs s1 ah1 = .ok (ah2, s2, cs0) ∧ s2.top ≤ s1.top ∧
      (∀ f, cs0.head? = some f → f.idx = s2.top) ∧ (cs0 = [] → s2 = s1) ∧
      s2.pending = s1.pending := by
  unfold scrollUp
  by_cases hpos : ah1 > 0
  · obtain ⟨hne, hlt⟩ := h0 hpos
    have hu := usub_one hne hU
    obtain ⟨h, e1, _, _⟩ := insertLoop_exact g hs s1.top (s1.top - 1) ah1 [] (by omega) (by omega) (by omega) hpos
    obtain ⟨t1, _, _⟩ := insertChildren_top true g hs s1.top ah1 hne hU
    have hne' : (insertChildren true g hs s1.top ah1).2.2 ≠ [] ∧
        ∀ f, (insertChildren true g hs s1.top ah1).2.2.head? = some f → f.idx = (insertChildren true g hs s1.top ah1).1 := by
      unfold insertChildren
      rw [hu]
      simp only []
      cases hcs : (insertLoop true g hs s1.top (s1.top - 1) ah1 []).2.2 with
      | nil => rw [hcs] at e1; cases e1
      | cons a rest =>
        rw [hcs] at e1
        simp only [List.head?_cons, Option.some.injEq] at e1
        split
        · refine ⟨by simp [restack], fun f hf => ?_⟩
          simp only [restack, List.head?_cons, Option.some.injEq] at hf
          rw [← hf, e1]
        · refine ⟨by simp, fun f hf => ?_⟩
          simp only [List.head?_cons, Option.some.injEq] at hf
          rw [← hf, e1]
    simp only [hpos, if_true]
    cases hl : (insertChildren true g hs s1.top ah1).2.2.getLast? with
    | none => rw [List.getLast?_eq_none_iff] at hl; exact absurd hl hne'.1
    | some last =>
      exact ⟨_, _, _, rfl, t1, hne'.2, fun h => absurd h hne'.1, rfl⟩
  · simp only [hpos, if_false]
    exact ⟨_, _, _, rfl, Nat.le_refl _, (fun f hf => by cases hf), fun _ => rfl, rfl⟩

theorem drawDown_head (gap : Int) (wants : Bool) (cursor : Nat) (H : Int) (rest : List Nat) (i : Nat) (ah : Int)
    (f : Child) (h : (drawDown gap wants cursor H rest i ah []).head? = some f) : f.idx = i ∧ f.row = ah := by
  cases rest with
  | nil => simp [drawDown] at h
  | cons x rest =>
    obtain ⟨t, ht⟩ := drawDown_prefix gap wants cursor H rest (i + 1) (ah + (x : Int) + gap)
      ([] ++ [{ idx := i, row := ah, height := x }])
    simp only [drawDown] at h
    split at h
    · rw [ht] at h; simp at h; rw [← h]; exact ⟨rfl, rfl⟩
    · split at h
      · simp at h; rw [← h]; exact ⟨rfl, rfl⟩
      · rw [ht] at h; simp at h; rw [← h]; exact ⟨rfl, rfl⟩

theorem gutter_ok (cfg : Cfg) (cs : List Child) (s : St) (hc : s.cursor < U) :
    gutter Facts.fixed cfg cs s = .ok () := by
  unfold gutter
  split
  · rename_i hcond
    have hle : s.top ≤ s.cursor := by
      rcases hcond.2 with h | h
      · cases h
      · exact h
    have e : Facts.fixed.uintIndex = true := rfl
    rw [e]
    rcases cursorChild_ok cs s.cursor s.top hle hc with ⟨c, _, e⟩ | ⟨_, e⟩ <;> rw [e]
  · rfl

theorem prologue_pending (s : St) : (prologue s).2.pending = 0 := by
  unfold prologue; simp only []; split <;> rfl

/-- The phases of one `Draw` of the repaired code from a state satisfying `Inv` (any gap, any
    builder): no phase panics; the intermediate child lists and states with the facts the
    invariants and the visibility theorems need. -/
theorem draw_phases (cfg : Cfg) (hs : List Nat) (hlen : hs.length < 2 ^ 63) (s : St) (W H : Nat)
    (hW : W ≠ 65535) (hH : H ≠ 65535) (hi : Inv s) :
    ∃ (sc : St) (ah2 : Int) (s2 : St) (cs0 cs1 cs2 : List Child) (s3 : St),
      sc = clampTop true hs s ∧
      scrollUp true cfg.gap hs (prologue sc).2 (prologue sc).1 = .ok (ah2, s2, cs0) ∧
      cs1 = drawDown cfg.gap s2.wantsCursor s2.cursor H (hs.drop sc.top) sc.top ah2 cs0 ∧
      Contig cfg.gap cs1 ∧ Heights hs cs1 ∧ (∀ f, cs1.head? = some f → f.idx = s2.top) ∧
      reveal true true cs1 s2 H = .ok (cs2, s3) ∧ Contig cfg.gap cs2 ∧ Heights hs cs2 ∧
      (∀ f, cs2.head? = some f → f.idx = s2.top) ∧
      s3.top = s2.top ∧ s3.offset = s2.offset ∧ s3.cursor = s2.cursor ∧ s3.pending = s2.pending ∧
      cs2.length = cs1.length ∧
      (s3.wantsCursor = true → s2.top ≤ s2.cursor ∧ cs1.length ≤ s2.cursor - s2.top) ∧
      (sc.top = 0 ∨ sc.top < hs.length) ∧ sc.top ≤ s.top ∧ ((s.top = 0 ∨ s.top < hs.length) → sc = s) ∧
      s2.top ≤ sc.top ∧ s2.cursor = s.cursor ∧ s2.wantsCursor = s.wantsCursor ∧ s2.pending = 0 ∧
      (cs0 = [] → s2 = (prologue sc).2) ∧ cs0.length = sc.top - s2.top ∧
      draw Facts.fixed cfg hs s W H = .ok ({ s3 with top := (retop cfg.gap cs2 0 (s3.top, s3.offset)).1,
                                                     offset := (retop cfg.gap cs2 0 (s3.top, s3.offset)).2 }, cs2) := by
  have hb : ¬ (H = 65535 ∨ W = 65535) := fun h => h.elim hH hW
  have hsU : s.top < U := by have := hi.top_ok; unfold U; omega
  obtain ⟨k1, k2, k3, k4, k5, k6⟩ := clampTop_spec hs s hsU
  obtain ⟨sc, hsc⟩ : ∃ x, x = clampTop true hs s := ⟨_, rfl⟩
  rw [← hsc] at k1 k2 k3 k4 k5 k6
  obtain ⟨p1, p2, p3, p4⟩ := prologue_spec sc
  have htopU : (prologue sc).2.top < U := by rw [p1]; omega
  have hins : (prologue sc).1 > 0 → (prologue sc).2.top ≠ 0 ∧ (prologue sc).2.top < hs.length := by
    intro h
    have := (p4 h).1
    rw [p1]
    rcases k2 with h' | h'
    · exact absurd h' this
    · exact ⟨this, h'⟩
  obtain ⟨ah2, s2, cs0, hsu, st1, st2, st3, st4⟩ := scrollUp_ok cfg.gap hs _ _ htopU hins
  obtain ⟨c0, h0, l0, e0, scur, sw⟩ := scrollUp_spec true cfg.gap hs _ _ ah2 s2 cs0 hsu htopU (fun h => (hins h).1)
  rw [p1] at st1 l0
  obtain ⟨cs1, hcs1⟩ : ∃ x, x = drawDown cfg.gap s2.wantsCursor s2.cursor H (hs.drop sc.top) sc.top ah2 cs0 := ⟨_, rfl⟩
  have dd := drawDown_spec cfg.gap s2.wantsCursor s2.cursor H hs _ sc.top ah2 cs0 rfl c0 h0 l0
  rw [← hcs1] at dd
  have hhead : ∀ f, cs1.head? = some f → f.idx = s2.top := by
    intro f hf
    by_cases hnil : cs0 = []
    · have e := st3 hnil
      rw [hcs1, hnil] at hf
      have := (drawDown_head _ _ _ _ _ _ _ f hf).1
      rw [this, e, p1]
    · obtain ⟨t, ht⟩ := drawDown_prefix cfg.gap s2.wantsCursor s2.cursor H (hs.drop sc.top) sc.top ah2 cs0
      rw [hcs1, ht] at hf
      cases cs0 with
      | nil => exact absurd rfl hnil
      | cons a rest => simp at hf; rw [← hf]; exact st2 a rfl
  -- the inserted children are exactly the items s2.top … sc.top − 1
  have hlen0 : cs0.length = sc.top - s2.top := by
    cases hcs0 : cs0 with
    | nil =>
      have e := st3 hcs0
      rw [e, p1]; simp
    | cons f rest =>
      have hf : f.idx = s2.top := st2 f (by rw [hcs0]; rfl)
      have hl : (f :: rest)[rest.length]? = some ((f :: rest).getLast (by simp)) := by
        rw [List.getLast_eq_getElem]; simp
      have hl' : cs0.getLast? = some ((f :: rest).getLast (by simp)) := by
        rw [hcs0, List.getLast?_eq_some_getLast (by simp)]
      have hi1 := (contig_get_idx rest f (by rw [← hcs0]; exact c0) rest.length _ hl)
      have := (l0 _ hl').1
      simp only [List.length_cons]
      omega
  have hcur : s2.cursor = s.cursor := by rw [scur, p2, k3]
  have hwants : s2.wantsCursor = s.wantsCursor := by rw [sw, p3, k4]
  have hc63 : s2.cursor < U := by rw [hcur]; exact hi.cur_ok
  -- gutter
  have hgut : gutter Facts.fixed cfg cs1 s2 = .ok () := gutter_ok cfg cs1 s2 hc63
  -- reveal
  have hrev : ∃ cs2 s3, reveal true true cs1 s2 H = .ok (cs2, s3) ∧ Contig cfg.gap cs2 ∧ Heights hs cs2 ∧
      (∀ f, cs2.head? = some f → f.idx = s2.top) ∧ s3.top = s2.top ∧ s3.offset = s2.offset ∧
      s3.cursor = s2.cursor ∧ s3.pending = s2.pending ∧
      cs2.length = cs1.length ∧
      (s3.wantsCursor = true → s2.top ≤ s2.cursor ∧ cs1.length ≤ s2.cursor - s2.top) := by
    have hmaphead : ∀ (adj : Int) f, (cs1.map fun c => { c with row := c.row + adj }).head? = some f → f.idx = s2.top := by
      intro adj f hf
      rw [List.head?_map] at hf
      cases hh : cs1.head? with
      | none => rw [hh] at hf; cases hf
      | some g => rw [hh] at hf; simp at hf; rw [← hf]; exact hhead g hh
    unfold reveal
    by_cases hw : s2.wantsCursor = true
    · have hle : s2.top ≤ s2.cursor := by
        have := hi.wants_ok (by rw [← hwants]; exact hw)
        rw [hcur]; omega
      rw [if_pos hw]
      rcases cursorChild_ok cs1 s2.cursor s2.top hle hc63 with ⟨c, hcg, e⟩ | ⟨hl, e⟩
      · rw [e]
        simp only []
        split
        · exact ⟨_, _, rfl, contig_shift _ dd.1, heights_shift _ dd.2, hmaphead _, rfl, rfl, rfl, rfl, by simp, (fun h => by cases h)⟩
        · split
          · exact ⟨_, _, rfl, contig_shift _ dd.1, heights_shift _ dd.2, hmaphead _, rfl, rfl, rfl, rfl, by simp, (fun h => by cases h)⟩
          · exact ⟨_, _, rfl, dd.1, dd.2, hhead, rfl, rfl, rfl, rfl, rfl, (fun h => by cases h)⟩
      · rw [e]
        exact ⟨_, _, rfl, dd.1, dd.2, hhead, rfl, rfl, rfl, rfl, rfl, (fun _ => ⟨hle, hl⟩)⟩
    · rw [if_neg hw]
      exact ⟨_, _, rfl, dd.1, dd.2, hhead, rfl, rfl, rfl, rfl, rfl, (fun h => absurd h hw)⟩
  obtain ⟨cs2, s3, hrv, c2, h2, hd2, t3, o3, cu3, pe3, len2, w3⟩ := hrev
  have hpend : s2.pending = 0 := by rw [st4]; exact prologue_pending sc
  refine ⟨sc, ah2, s2, cs0, cs1, cs2, s3, hsc, hsu, hcs1, dd.1, dd.2, hhead, hrv, c2, h2, hd2, t3, o3, cu3, pe3, len2, w3,
    k2, k1, k6, st1, hcur, hwants, hpend, st3, hlen0, ?_⟩
  unfold draw
  rw [if_neg hb]
  simp only [Facts.fixed, if_true]
  rw [← hsc]
  simp only [hsu]
  rw [p1, ← hcs1]
  have hgut' : gutter ⟨true, true, true, true, true, true⟩ cfg cs1 s2 = .ok () := hgut
  rw [hgut']
  simp only [hrv]

/-- `Draw` of the repaired code never panics from a state satisfying the invariant and re-establishes
    it — for every builder and every gap ≥ 0.  The new top index is 0 or refers to an existing item. -/
theorem draw_inv (cfg : Cfg) (hgap : 0 ≤ cfg.gap) (hs : List Nat) (hlen : hs.length < 2 ^ 63) (s : St) (W H : Nat)
    (hW : W ≠ 65535) (hH : H ≠ 65535) (hi : Inv s) :
    ∃ s' cs, draw Facts.fixed cfg hs s W H = .ok (s', cs) ∧ Inv s' ∧ (s'.top = 0 ∨ s'.top < hs.length) ∧
      s'.cursor = s.cursor ∧ s'.pending = 0 := by
  obtain ⟨sc, ah2, s2, cs0, cs1, cs2, s3, hsc, hsu, hcs1, dd1, dd2, hhead, hrv, c2, h2, hd2, t3, o3, cu3, pe3, len2, w3,
    k2, k1, k6, htop2, hcur, hwants, hpend, st3, hlen0, hdraw⟩ := draw_phases cfg hs hlen s W H hW hH hi
  have hc63 : s2.cursor < U := by rw [hcur]; exact hi.cur_ok
  have ht63 := hi.top_ok
  refine ⟨_, cs2, hdraw, ?_⟩
  rcases retop_spec cfg.gap hgap cs2 0 s3.top s3.offset c2 with hr | ⟨k, c, hk, _, hr⟩
  · rw [hr]
    refine ⟨⟨?_, ?_, ?_⟩, ?_, ?_, ?_⟩
    · show s3.top < 2 ^ 63; rw [t3]; omega
    · intro hw; show s3.top ≤ s3.cursor; rw [t3, cu3]; exact (w3 hw).1
    · show s3.cursor < U; rw [cu3]; exact hc63
    · show s3.top = 0 ∨ s3.top < hs.length; rw [t3]; omega
    · show s3.cursor = s.cursor; rw [cu3, hcur]
    · show s3.pending = 0; rw [pe3, hpend]
  · rw [hr]
    have hklt : k < cs2.length := getElem?_lt hk
    obtain ⟨f, rest, hcs⟩ : ∃ f rest, cs2 = f :: rest := by
      cases cs2 with
      | nil => simp at hklt
      | cons f rest => exact ⟨f, rest, rfl⟩
    have hfi : f.idx = s2.top := hd2 f (by rw [hcs]; rfl)
    have hci := contig_get_idx rest f (by rw [← hcs]; exact c2) k c (by rw [← hcs]; exact hk)
    have hcn : c.idx < hs.length := getElem?_lt (h2 c (List.mem_of_getElem? hk))
    have hua : uadd s3.top (0 + k) = s3.top + k := by
      unfold uadd U; rw [t3]; omega
    rw [hua]
    refine ⟨⟨?_, ?_, ?_⟩, ?_, ?_, ?_⟩
    · show s3.top + k < 2 ^ 63; rw [t3]; omega
    · intro hw
      show s3.top + k ≤ s3.cursor
      obtain ⟨a, b⟩ := w3 hw
      rw [t3, cu3]; omega
    · show s3.cursor < U; rw [cu3]; exact hc63
    · show s3.top + k = 0 ∨ s3.top + k < hs.length; rw [t3]; omega
    · show s3.cursor = s.cursor; rw [cu3, hcur]
    · show s3.pending = 0; rw [pe3, hpend]

theorem ensureScroll_inv (s : St) (c : Nat) (ht : s.top < 2 ^ 63) (hc : c < U) :
    Inv (ensureScroll { s with cursor := c }) := by
  unfold ensureScroll
  simp only []
  split
  · rename_i h
    exact ⟨ht, fun _ => Nat.le_of_lt h, hc⟩
  · rename_i h; exact ⟨by simp only [] at h ⊢; omega, fun _ => Nat.le_refl _, hc⟩

theorem init_inv : Inv init := ⟨by decide, (fun h => by cases h), by unfold U; decide⟩

theorem step_inv (cfg : Cfg) (hgap : 0 ≤ cfg.gap) (hs : List Nat) (hlen : hs.length < 2 ^ 63)
    (s : St) (op : Op) (hi : Inv s) (ho : OpOk op) :
    ∃ s', step Facts.fixed cfg hs s op = .ok s' ∧ Inv s' := by
  cases op with
  | setCursor c => exact ⟨_, rfl, ensureScroll_inv s c hi.top_ok ho⟩
  | next =>
    refine ⟨(nextItem hs s).1, rfl, ?_⟩
    unfold nextItem
    cases hb : builder hs (uadd s.cursor 1) with
    | none => exact hi
    | some h =>
      exact ensureScroll_inv s _ hi.top_ok (by unfold uadd; exact Nat.mod_lt _ (by unfold U; decide))
  | prev =>
    refine ⟨(prevItem hs s).1, rfl, ?_⟩
    unfold prevItem
    split
    · exact hi
    · rename_i h0
      have hu : usub s.cursor 1 = s.cursor - 1 := usub_le (by omega) hi.cur_ok
      rw [hu]
      cases hb : builder hs (s.cursor - 1) with
      | none => exact hi
      | some h => exact ensureScroll_inv s _ hi.top_ok (by have := hi.cur_ok; omega)
  | wheelDown => exact ⟨_, rfl, hi.top_ok, hi.wants_ok, hi.cur_ok⟩
  | wheelUp =>
    refine ⟨(wheelUp s).1, rfl, ?_⟩
    unfold wheelUp
    split
    · exact ⟨hi.top_ok, hi.wants_ok, hi.cur_ok⟩
    · exact hi
  | pending k => exact ⟨_, rfl, hi.top_ok, hi.wants_ok, hi.cur_ok⟩
  | draw W H =>
    obtain ⟨s', cs, he, hi', _⟩ := draw_inv cfg hgap hs hlen s W H ho.1 ho.2 hi
    exact ⟨s', by simp [step, he], hi'⟩

/-- Operations of a history with item replacement: cursors are `uint` values, draw contexts are
    bounded, the Builder has fewer than 2^63 items. -/
def HOpOk : HOp → Prop
  | .op o => OpOk o
  | .items hs => hs.length < 2 ^ 63

theorem runH_inv (cfg : Cfg) (hgap : 0 ≤ cfg.gap) : ∀ (ops : List HOp) (hs : List Nat) (s : St),
    hs.length < 2 ^ 63 → Inv s → (∀ op ∈ ops, HOpOk op) →
    ∃ hs' s', runH Facts.fixed cfg hs s ops = .ok (hs', s') ∧ Inv s' ∧ hs'.length < 2 ^ 63
  | [], hs, s, hl, hi, _ => ⟨hs, s, rfl, hi, hl⟩
  | .items hs' :: ops, hs, s, _, hi, ho => by
    have h1 : HOpOk (.items hs') := ho _ List.mem_cons_self
    obtain ⟨a, b, e, r⟩ := runH_inv cfg hgap ops hs' s h1 hi (fun o h => ho o (List.mem_cons_of_mem _ h))
    exact ⟨a, b, by simp [runH, e], r⟩
  | .op o :: ops, hs, s, hl, hi, ho => by
    obtain ⟨s1, he, hi1⟩ := step_inv cfg hgap hs hl s o hi (ho _ List.mem_cons_self)
    obtain ⟨a, b, e, r⟩ := runH_inv cfg hgap ops hs s1 hl hi1 (fun o h => ho o (List.mem_cons_of_mem _ h))
    exact ⟨a, b, by simp [runH, he, e], r⟩

/-- A history without item replacement is a special history. -/
theorem run_eq_runH (F : Facts) (cfg : Cfg) (hs : List Nat) : ∀ (ops : List Op) (s : St),
    runH F cfg hs s (ops.map HOp.op) = (match run F cfg hs s ops with | .ok s' => .ok (hs, s') | .error e => .error e)
  | [], s => rfl
  | op :: ops, s => by
    simp only [List.map_cons, runH, run]
    cases step F cfg hs s op with
    | error e => rfl
    | ok s' => exact run_eq_runH F cfg hs ops s'

/-- With a fixed builder the top index refers to an existing item (or is 0) at every point. -/
theorem step_inv_top (cfg : Cfg) (hgap : 0 ≤ cfg.gap) (hs : List Nat) (hlen : hs.length < 2 ^ 63)
    (s : St) (op : Op) (hi : Inv s) (ht : s.top = 0 ∨ s.top < hs.length) (ho : OpOk op) :
    ∃ s', step Facts.fixed cfg hs s op = .ok s' ∧ Inv s' ∧ (s'.top = 0 ∨ s'.top < hs.length) := by
  obtain ⟨s', he, hi'⟩ := step_inv cfg hgap hs hlen s op hi ho
  refine ⟨s', he, hi', ?_⟩
  have hes : ∀ c, (ensureScroll { s with cursor := c }).top = 0 ∨ (ensureScroll { s with cursor := c }).top < hs.length := by
    intro c; unfold ensureScroll; simp only []; split
    · exact ht
    · rename_i h; show c = 0 ∨ c < hs.length; omega
  cases op with
  | setCursor c =>
    simp only [step, Except.ok.injEq] at he; subst he; exact hes c
  | next =>
    simp only [step, Except.ok.injEq] at he; subst he
    unfold nextItem; split
    · exact ht
    · exact hes (uadd s.cursor 1)
  | prev =>
    simp only [step, Except.ok.injEq] at he; subst he
    unfold prevItem; split
    · exact ht
    · split
      · exact ht
      · exact hes (usub s.cursor 1)
  | wheelDown => simp only [step, Except.ok.injEq] at he; subst he; exact ht
  | wheelUp => simp only [step, Except.ok.injEq] at he; subst he; unfold wheelUp; split <;> exact ht
  | pending k => simp only [step, Except.ok.injEq] at he; subst he; exact ht
  | draw W H =>
    obtain ⟨s2, cs, hd, _, ht2, _⟩ := draw_inv cfg hgap hs hlen s W H ho.1 ho.2 hi
    simp only [step, hd, Except.ok.injEq] at he
    subst he; exact ht2

theorem run_inv_top (cfg : Cfg) (hgap : 0 ≤ cfg.gap) (hs : List Nat) (hlen : hs.length < 2 ^ 63) :
    ∀ (ops : List Op) (s : St), Inv s → (s.top = 0 ∨ s.top < hs.length) → (∀ op ∈ ops, OpOk op) →
    ∃ s', run Facts.fixed cfg hs s ops = .ok s' ∧ Inv s' ∧ (s'.top = 0 ∨ s'.top < hs.length)
  | [], s, hi, ht, _ => ⟨s, rfl, hi, ht⟩
  | op :: ops, s, hi, ht, ho => by
    obtain ⟨s1, he, hi1, ht1⟩ := step_inv_top cfg hgap hs hlen s op hi ht (ho op List.mem_cons_self)
    obtain ⟨s2, he2, r⟩ := run_inv_top cfg hgap hs hlen ops s1 hi1 ht1 (fun o h => ho o (List.mem_cons_of_mem _ h))
    exact ⟨s2, by simp [run, he, he2], r⟩

/-- `NextItem` / `PrevItem` that return a command moved the cursor to an existing item `c` and then
    called `ensureScroll`. -/
theorem next_prev_cases (hs : List Nat) (s s1 : St) (hcu : s.cursor < U)
    (hmove : (nextItem hs s = (s1, true)) ∨ (prevItem hs s = (s1, true))) :
    ∃ c, c < hs.length ∧ s1 = ensureScroll { s with cursor := c } ∧ s1.cursor = c := by
  have cur_es : ∀ c, (ensureScroll { s with cursor := c }).cursor = c := by
    intro c; unfold ensureScroll; simp only []; split <;> rfl
  rcases hmove with h | h
  · unfold nextItem at h
    cases hb : builder hs (uadd s.cursor 1) with
    | none => rw [hb] at h; cases h
    | some hc =>
      rw [hb] at h
      have e : s1 = ensureScroll { s with cursor := uadd s.cursor 1 } := (Prod.mk.inj h).1.symm
      exact ⟨_, getElem?_lt hb, e, by rw [e]; exact cur_es _⟩
  · unfold prevItem at h
    by_cases h0 : s.cursor = 0
    · rw [if_pos h0] at h; cases h
    · rw [if_neg h0] at h
      have hu : usub s.cursor 1 = s.cursor - 1 := usub_le (by omega) hcu
      rw [hu] at h
      cases hb : builder hs (s.cursor - 1) with
      | none => rw [hb] at h; cases h
      | some hc =>
        rw [hb] at h
        have e : s1 = ensureScroll { s with cursor := s.cursor - 1 } := (Prod.mk.inj h).1.symm
        exact ⟨_, getElem?_lt hb, e, by rw [e]; exact cur_es _⟩

/-- With a gap ≥ 0, contiguous children are pairwise in index order and do not overlap. -/
theorem contig_pairwise {gap : Int} (hg : 0 ≤ gap) : ∀ (cs : List Child), Contig gap cs →
    ∀ (i j : Nat) (ci cj : Child), i < j → cs[i]? = some ci → cs[j]? = some cj →
      ci.idx < cj.idx ∧ ci.row + (ci.height : Int) + gap ≤ cj.row
  | [], _, i, j, ci, cj, _, h, _ => by simp at h
  | f :: rest, hc, 0, j, ci, cj, hij, hi, hj => by
    simp at hi; subst hi
    have h1 := contig_get_idx rest f hc j cj hj
    have h2 := contig_get_gap hg rest f hc j cj hj (by omega)
    exact ⟨by omega, h2⟩
  | f :: rest, hc, i + 1, j + 1, ci, cj, hij, hi, hj => by
    have hrest : Contig gap rest := by
      cases rest with
      | nil => trivial
      | cons d r => exact hc.2
    exact contig_pairwise hg rest hrest i j ci cj (by omega) (by simpa using hi) (by simpa using hj)
  | f :: rest, _, i + 1, 0, _, _, hij, _, _ => by omega

/-! ### the scroll state left by Draw describes what was drawn -/

theorem retop_hit (g : Int) (hg : 0 ≤ g) : ∀ (cs : List Child) (k : Nat) (c : Child) (i0 top : Nat) (off : Int), Contig g cs →
    cs[k]? = some c → Covers g c → retop g cs i0 (top, off) = (uadd top (i0 + k), - c.row)
  | [], _, _, _, _, _, _, h, _ => by simp at h
  | a :: rest, 0, c, i0, top, off, hc, hk, hcov => by
    simp at hk; subst hk
    have hcov' : a.row ≤ 0 ∧ a.row + (a.height : Int) + g > 0 := ⟨hcov.1, by have := hcov.2; omega⟩
    simp only [retop, hcov', and_self, if_true, Nat.add_zero]
    apply retop_none
    intro d hd hcd
    obtain ⟨m, hm⟩ := List.getElem?_of_mem hd
    have := contig_get_gap hg rest a hc (m + 1) d (by simpa using hm) (by omega)
    unfold Covers at hcd
    omega
  | a :: rest, k + 1, c, i0, top, off, hc, hk, hcov => by
    have hge := contig_get_gap hg rest a hc (k + 1) c hk (by omega)
    have hna : ¬ (a.row ≤ 0 ∧ a.row + (a.height : Int) + g > 0) := by
      unfold Covers at hcov; omega
    have hrest : Contig g rest := by
      cases rest with
      | nil => trivial
      | cons d r => exact hc.2
    simp only [retop, hna, if_false]
    rw [retop_hit g hg rest k c (i0 + 1) top off hrest (by simpa using hk) hcov]
    congr 2; omega

/-- **Anchor**: after a `Draw` of the repaired code (gap ≥ 0, state satisfying the invariant) the
    scroll state is the anchor of the layout it returned: a child that covers row 0 (together with the
    gap below it) is item `top` and starts `offset` rows above row 0. -/
theorem draw_anchor (cfg : Cfg) (hgap : 0 ≤ cfg.gap) (hs : List Nat) (hlen : hs.length < 2 ^ 63) (s : St) (W H : Nat)
    (hW : W ≠ 65535) (hH : H ≠ 65535) (hi : Inv s) (s' : St) (cs : List Child)
    (he : draw Facts.fixed cfg hs s W H = .ok (s', cs)) (k : Nat) (c : Child) (hk : cs[k]? = some c)
    (hcov : Covers cfg.gap c) : s'.top = c.idx ∧ s'.offset = - c.row := by
  obtain ⟨sc, ah2, s2, cs0, cs1, cs2, s3, hsc, hsu, hcs1, dd1, dd2, hhead, hrv, c2, h2, hd2, t3, o3, cu3, pe3, len2, w3,
    k2, k1, k6, htop2, hcur, hwants, hpend, st3, hlen0, hdraw⟩ := draw_phases cfg hs hlen s W H hW hH hi
  rw [hdraw] at he
  simp only [Except.ok.injEq, Prod.mk.injEq] at he
  obtain ⟨e1, e2⟩ := he
  subst e2
  rw [← e1]
  have hr := retop_hit cfg.gap hgap cs2 k c 0 s3.top s3.offset c2 hk hcov
  have hklt : k < cs2.length := getElem?_lt hk
  obtain ⟨f, rest, hcs⟩ : ∃ f rest, cs2 = f :: rest := by
    cases cs2 with
    | nil => simp at hklt
    | cons f rest => exact ⟨f, rest, rfl⟩
  have hfi : f.idx = s2.top := hd2 f (by rw [hcs]; rfl)
  have hci := contig_get_idx rest f (by rw [← hcs]; exact c2) k c (by rw [← hcs]; exact hk)
  have hcn : c.idx < hs.length := getElem?_lt (h2 c (List.mem_of_getElem? hk))
  have hua : uadd s3.top (0 + k) = c.idx := by
    unfold uadd U; rw [t3]; omega
  rw [hr, hua]
  exact ⟨rfl, rfl⟩

/-- **No blank rows above the first child**: the first child returned by a `Draw` of the repaired
    code (gap ≥ 0, invariant) starts at or above row 0. -/
theorem draw_first_row (cfg : Cfg) (hgap : 0 ≤ cfg.gap) (hs : List Nat) (hlen : hs.length < 2 ^ 63) (s : St) (W H : Nat)
    (hW : W ≠ 65535) (hH : H ≠ 65535) (hi : Inv s) (s' : St) (cs : List Child)
    (he : draw Facts.fixed cfg hs s W H = .ok (s', cs)) (f : Child) (hf : cs.head? = some f) : f.row ≤ 0 := by
  obtain ⟨sc, ah2, s2, cs0, cs1, cs2, s3, hsc, hsu, hcs1, dd1, dd2, hhead, hrv, c2, h2, hd2, t3, o3, cu3, pe3, len2, w3,
    k2, k1, k6, htop2, hcur, hwants, hpend, st3, hlen0, hdraw⟩ := draw_phases cfg hs hlen s W H hW hH hi
  rw [hdraw] at he
  simp only [Except.ok.injEq, Prod.mk.injEq] at he
  obtain ⟨_, e2⟩ := he
  subst e2
  obtain ⟨p1, p2, p3, p4⟩ := prologue_spec sc
  -- the first child before the wants-cursor shift
  have h1 : ∀ g, cs1.head? = some g → g.row ≤ 0 := by
    intro g hg
    by_cases hpos : (prologue sc).1 > 0
    · -- upward scroll: the inserted head
      have ht0 := (p4 hpos).1
      have htn : sc.top < hs.length := by omega
      have hU : sc.top < U := by have := hi.top_ok; unfold U; omega
      have hu := usub_one ht0 hU
      obtain ⟨h, e1, _, e3⟩ := insertLoop_exact cfg.gap hs sc.top (sc.top - 1) (prologue sc).1 [] (by omega) (by omega) (by omega) hpos
      have hsu' := hsu
      unfold scrollUp at hsu'
      rw [if_pos hpos, p1] at hsu'
      simp only [] at hsu'
      split at hsu'
      · cases hsu'
      · simp only [Except.ok.injEq, Prod.mk.injEq] at hsu'
        obtain ⟨_, _, ecs⟩ := hsu'
        obtain ⟨t, ht⟩ := drawDown_prefix cfg.gap s2.wantsCursor s2.cursor H (hs.drop sc.top) sc.top ah2 cs0
        rw [hcs1, ht, ← ecs] at hg
        unfold insertChildren at hg
        rw [hu] at hg
        simp only [] at hg
        cases hcs : (insertLoop true cfg.gap hs sc.top (sc.top - 1) (prologue sc).1 []).2.2 with
        | nil => rw [hcs] at e1; cases e1
        | cons a rest =>
          rw [hcs] at e1 hg
          simp only [List.head?_cons, Option.some.injEq] at e1
          split at hg
          · simp only [restack, List.cons_append, List.head?_cons, Option.some.injEq] at hg
            rw [← hg]; exact Int.le_refl 0
          · rename_i hre
            simp only [List.cons_append, List.head?_cons, Option.some.injEq] at hg
            rw [← hg, e1]
            show (insertLoop true cfg.gap hs sc.top (sc.top - 1) (prologue sc).1 []).2.1 ≤ 0
            rcases e3 with h' | h'
            · exact h'
            · have : ¬ ((insertLoop true cfg.gap hs sc.top (sc.top - 1) (prologue sc).1 []).2.1 > 0) := fun hp => hre ⟨h', hp⟩
              omega
    · have hsu' := hsu
      unfold scrollUp at hsu'
      rw [if_neg hpos] at hsu'
      simp only [Except.ok.injEq, Prod.mk.injEq] at hsu'
      obtain ⟨ea, _, ecs⟩ := hsu'
      rw [hcs1, ← ecs] at hg
      have := (drawDown_head _ _ _ _ _ _ _ g hg).2
      omega
  -- the shift
  unfold reveal at hrv
  split at hrv
  · split at hrv
    · cases hrv
    · rename_i ch hcc
      simp only [Except.ok.injEq, Prod.mk.injEq] at hrv
      obtain ⟨ecs, _⟩ := hrv
      rw [← ecs] at hf
      split at hf
      · rename_i hb
        rw [List.head?_map] at hf
        cases hh : cs1.head? with
        | none => rw [hh] at hf; cases hf
        | some g =>
          rw [hh] at hf; simp only [Option.map_some, Option.some.injEq] at hf
          have := h1 g hh
          rw [← hf]; show g.row + ((H : Int) - (ch.row + (ch.height : Int))) ≤ 0; omega
      · split at hf
        · rename_i hab
          rw [List.head?_map] at hf
          cases hh : cs1.head? with
          | none => rw [hh] at hf; cases hf
          | some g =>
            rw [hh] at hf; simp only [Option.map_some, Option.some.injEq] at hf
            -- the cursored child is at or below the head
            have hle : s2.top ≤ s2.cursor := by
              have := hi.wants_ok (by rw [← hwants]; assumption)
              rw [hcur]; omega
            have hc63 : s2.cursor < U := by rw [hcur]; exact hi.cur_ok
            rcases cursorChild_ok cs1 s2.cursor s2.top hle hc63 with ⟨c', hcg, e⟩ | ⟨_, e⟩
            · rw [e] at hcc
              simp only [Except.ok.injEq, Option.some.injEq] at hcc
              subst hcc
              obtain ⟨f1, tail, hcs1f⟩ : ∃ f1 tail, cs1 = f1 :: tail := by
                cases hcs1' : cs1 with
                | nil => rw [hcs1'] at hh; cases hh
                | cons f1 tail => exact ⟨f1, tail, rfl⟩
              have hg1 : g = f1 := by rw [hcs1f] at hh; simpa using hh.symm
              have hrowle : g.row ≤ c'.row := by
                by_cases hz : s2.cursor - s2.top = 0
                · rw [hz, hcs1f] at hcg; simp at hcg; rw [hg1, hcg]; exact Int.le_refl _
                · have := contig_get_gap hgap tail f1 (by rw [← hcs1f]; exact dd1) (s2.cursor - s2.top) c'
                    (by rw [← hcs1f]; exact hcg) (by omega)
                  rw [hg1]; omega
              rw [← hf]; show g.row + (- c'.row) ≤ 0; omega
            · rw [e] at hcc; cases hcc
        · exact h1 f hf
    · simp only [Except.ok.injEq, Prod.mk.injEq] at hrv
      obtain ⟨ecs, _⟩ := hrv
      rw [← ecs] at hf; exact h1 f hf
  · simp only [Except.ok.injEq, Prod.mk.injEq] at hrv
    obtain ⟨ecs, _⟩ := hrv
    rw [← ecs] at hf; exact h1 f hf

/-! ### the selection is shown — from ANY scroll state -/

/-- After `SetCursor(c)` (more generally `ensureScroll` with the cursor at an existing item of height
    ≥ 1) one `Draw` of the repaired code into a viewport of ≥ 1 row shows item `c` — from ANY state
    with sane indices: whatever top/offset/pending scroll were (stale after a replacement of the
    items, beyond the end, inside a gap, a scroll requested before the cursor moved), for every gap
    and every builder. -/
theorem ensureScroll_draw_visible (cfg : Cfg) (hs : List Nat) (hlen : hs.length < 2 ^ 63) (s : St) (c W H hc : Nat)
    (hW : W ≠ 65535) (hH : H ≠ 65535) (hH1 : 1 ≤ H)
    (ht : s.top < 2 ^ 63) (hcur : hs[c]? = some hc) (hc1 : 1 ≤ hc) :
    ∃ s' cs, draw Facts.fixed cfg hs (ensureScroll { s with cursor := c }) W H = .ok (s', cs) ∧
      ∃ ch ∈ cs, ch.idx = c ∧ ch.height = hc ∧ Visible H ch := by
  have hcn : c < hs.length := getElem?_lt hcur
  have hc63 : c < U := by unfold U; omega
  obtain ⟨s1, hs1⟩ : ∃ x, x = ensureScroll { s with cursor := c } := ⟨_, rfl⟩
  have hi1 : Inv s1 := by rw [hs1]; exact ensureScroll_inv s c ht hc63
  have hs1c : s1.cursor = c := by rw [hs1]; unfold ensureScroll; simp only []; split <;> rfl
  have hs1t : s1.top ≤ c := by
    rw [hs1]; unfold ensureScroll; simp only []; split
    · rename_i h; exact Nat.le_of_lt h
    · exact Nat.le_refl _
  have hs1w : s1.wantsCursor = false → s1.top = c ∧ s1.offset = 0 ∧ s1.pending = 0 := by
    rw [hs1]; unfold ensureScroll; simp only []; split
    · intro h; cases h
    · intro _; exact ⟨rfl, rfl, rfl⟩
  rw [← hs1]
  obtain ⟨sc, ah2, s2, cs0, cs1, cs2, s3, hsc, hsu, hcs1, dd1, dd2, hhead, hrv, c2, h2, hd2, t3, o3, cu3, pe3, len2, w3,
    k2, k1, k6, htop2, hcur2, hwants, hpend, st3, hlen0, hdraw⟩ := draw_phases cfg hs hlen s1 W H hW hH hi1
  rw [hs1c] at hcur2
  have hsct : sc.top ≤ c := by omega
  have hle2 : s2.top ≤ c := by omega
  -- the cursor child is among the drawn children
  have hlen1 : c - s2.top < cs1.length := by
    by_cases hw : s1.wantsCursor = true
    · have := drawDown_reaches cfg.gap s2.cursor H (hs.drop sc.top) sc.top ah2 cs0
      rw [hcs1, hwants, hw]
      simp only [List.length_drop] at this
      rw [hcur2] at this ⊢
      omega
    · have hw' : s1.wantsCursor = false := by simpa using hw
      obtain ⟨e1, e2, hs1p⟩ := hs1w hw'
      have hsceq : sc = s1 := k6 (Or.inr (by rw [e1]; exact hcn))
      have hpos : ¬ (prologue sc).1 > 0 := by
        rw [hsceq]; unfold prologue; simp only [hs1p, e2]; split <;> simp
      have hnil : cs0 = [] := by
        have := scrollUp_spec true cfg.gap hs _ _ ah2 s2 cs0 hsu
          (by rw [(prologue_spec sc).1]; unfold U; omega) (fun h => absurd h hpos)
        exact this.2.2.2.1 hpos
      have e2' := st3 hnil
      have hs2t : s2.top = c := by rw [e2', (prologue_spec sc).1, hsceq, e1]
      rw [hs2t, hcs1, hnil, hsceq, e1]
      have hdrop : hs.drop c = hs[c] :: hs.drop (c + 1) := List.drop_eq_getElem_cons hcn
      rw [hdrop]
      have := drawDown_length_ge cfg.gap s2.wantsCursor s2.cursor H (hs.drop (c + 1)) (c + 1) (ah2 + (hs[c] : Int) + cfg.gap)
        ([] ++ [{ idx := c, row := ah2, height := hs[c] }])
      simp only [drawDown]
      split
      · simp at this ⊢; omega
      · split
        · simp
        · simp at this ⊢; omega
  obtain ⟨ch, hchget⟩ : ∃ ch, cs1[c - s2.top]? = some ch := ⟨cs1[c - s2.top], by simp [hlen1]⟩
  have hchmem : ch ∈ cs1 := List.mem_of_getElem? hchget
  obtain ⟨f, tail, hcs1f⟩ : ∃ f tail, cs1 = f :: tail := by
    cases cs1 with
    | nil => simp at hlen1
    | cons f tail => exact ⟨f, tail, rfl⟩
  have hfi : f.idx = s2.top := hhead f (by rw [hcs1f]; rfl)
  have hidx : ch.idx = c := by
    have := contig_get_idx tail f (by rw [← hcs1f]; exact dd1) (c - s2.top) ch (by rw [← hcs1f]; exact hchget)
    omega
  have hheight : ch.height = hc := by
    have := dd2 ch hchmem
    rw [hidx, hcur] at this
    exact (Option.some.inj this).symm
  have hcc : cursorChild true cs1 s2.cursor s2.top = .ok (some ch) := by
    rw [hcur2]; exact cursorChild_hit cs1 _ _ ch hle2 hc63 hchget
  refine ⟨_, cs2, hdraw, ?_⟩
  by_cases hw : s2.wantsCursor = true
  · obtain ⟨cs2', s3', hrev', c', hc'mem, hc'idx, hc'h, hvis⟩ :=
      reveal_visible cs1 s2 H ch hH1 (by omega) hw hcc hchmem
    rw [hrv] at hrev'
    cases hrev'
    exact ⟨c', hc'mem, hc'idx.trans hidx, hc'h.trans hheight, hvis⟩
  · -- no wants-cursor request: the top is the cursor, offset 0, nothing pending: the child is at row 0
    have hw1 : s1.wantsCursor = false := by rw [← hwants]; simpa using hw
    obtain ⟨e1, e2, hs1p⟩ := hs1w hw1
    have hsceq : sc = s1 := k6 (Or.inr (by rw [e1]; exact hcn))
    have hpro : prologue sc = (0, { s1 with pending := 0 }) := by
      rw [hsceq]; unfold prologue; simp only [hs1p, e2]; split <;> simp
    have hpos : ¬ (prologue sc).1 > 0 := by rw [hpro]; simp
    have hsu' := hsu
    unfold scrollUp at hsu'
    rw [if_neg hpos] at hsu'
    cases hsu'
    have hrv' := hrv
    unfold reveal at hrv'
    rw [if_neg hw] at hrv'
    cases hrv'
    have hs2t : ({ s1 with pending := 0 } : St).top = c := e1
    have h00 : c - (prologue sc).2.top = 0 := by rw [hpro]; show c - s1.top = 0; omega
    rw [h00] at hchget
    have hhd : cs1.head? = some ch := by rw [hcs1f] at hchget ⊢; simpa using hchget
    rw [hcs1] at hhd
    have hrow : ch.row = (prologue sc).1 := (drawDown_head _ _ _ _ _ _ _ ch hhd).2
    rw [hpro] at hrow
    refine ⟨ch, hchmem, hidx, hheight, ?_⟩
    unfold Visible
    simp only [] at hrow
    omega

end VaxisModel.Lemmas.DynList
