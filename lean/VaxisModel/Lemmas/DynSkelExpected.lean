import VaxisModel.Model.GoSyn

/-! The statement skeletons of vxfw/list/list.go `Dynamic`'s methods that `Model/DynList.lean` transcribes
    (a copy of `Gen/DynSkel.lean` as of /repo 81f1850, taken when the model was written).  `Props/C19Tie.lean`
    proves the regenerated skeletons equal to these, statement by statement: a change of the source
    shows up as a failing `skeleton_*` theorem naming the method. -/
namespace VaxisModel.Lemmas.DynSkelExpected
open VaxisModel.Model.GoSyn

/-- `Dynamic.Draw` -/
def draw : List Line := [
  ⟨0, .ifS, (.bin "||" (.call (.var "v0.Max.HasUnboundedHeight")) (.call (.var "v0.Max.HasUnboundedWidth"))), .none⟩,
  ⟨1, .exprS, (.arg (.call (.var "panic")) (.lit "\"Dynamic cannot have unbounded height or width\"")), .none⟩,
  ⟨0, .define, (.var "v1"), (.arg (.arg (.arg (.call (.var "vxfw.NewSurface")) (.var "v0.Max.Width")) (.var "v0.Max.Height")) (.var "d"))⟩,
  ⟨0, .forS, (.bin "&&" (.bin ">" (.var "d.scroll.top") (.int 0)) (.bin "==" (.arg (.arg (.call (.var "d.Builder")) (.var "d.scroll.top")) (.var "d.cursor")) (.var "nil"))), .none⟩,
  ⟨1, .subAssign, (.var "d.scroll.top"), (.int 1)⟩,
  ⟨1, .assign, (.var "d.scroll.offset"), (.int 0)⟩,
  ⟨0, .define, (.var "v2"), (.un "-" (.bin "+" (.var "d.scroll.offset") (.var "d.scroll.pending")))⟩,
  ⟨0, .assign, (.var "d.scroll.pending"), (.int 0)⟩,
  ⟨0, .ifS, (.bin "&&" (.bin ">" (.var "v2") (.int 0)) (.bin "==" (.var "d.scroll.top") (.int 0))), .none⟩,
  ⟨1, .assign, (.var "v2"), (.int 0)⟩,
  ⟨1, .assign, (.var "d.scroll.offset"), (.int 0)⟩,
  ⟨0, .define, (.var "v3"), (.var "d.scroll.top")⟩,
  ⟨0, .ifS, (.bin ">" (.var "v2") (.int 0)), .none⟩,
  ⟨1, .define, (.var "v4"), (.arg (.arg (.arg (.call (.var "d.insertChildren")) (.var "v0")) (.un "&" (.var "v1"))) (.var "v2"))⟩,
  ⟨1, .ifS, (.bin "!=" (.var "v4") (.var "nil")), .none⟩,
  ⟨2, .returnS, (.pair (.var "v1") (.var "v4")), .none⟩,
  ⟨1, .define, (.var "v5"), (.index (.var "v1.Children") (.bin "-" (.arg (.call (.var "len")) (.var "v1.Children")) (.int 1)))⟩,
  ⟨1, .assign, (.var "v2"), (.bin "+" (.bin "+" (.var "v5.Origin.Row") (.arg (.call (.var "int")) (.var "v5.Surface.Size.Height"))) (.var "d.Gap"))⟩,
  ⟨0, .varS, (.var "v6"), (.lit "int")⟩,
  ⟨0, .ifS, (.var "d.DrawCursor"), .none⟩,
  ⟨1, .assign, (.var "v6"), (.int 2)⟩,
  ⟨0, .forS, (.var "true"), .none⟩,
  ⟨1, .define, (.var "v7"), (.arg (.arg (.call (.var "d.Builder")) (.var "v3")) (.var "d.cursor"))⟩,
  ⟨1, .ifS, (.bin "==" (.var "v7") (.var "nil")), .none⟩,
  ⟨2, .breakS, .none, .none⟩,
  ⟨1, .addAssign, (.var "v3"), (.int 1)⟩,
  ⟨1, .define, (.var "v8"), (.lit "vxfw.DrawContext{Max:vxfw.Size{Width:v0.Max.Width-uint16(v6),Height:math.MaxUint16},Characters:v0.Characters}")⟩,
  ⟨1, .define, (.pair (.var "v9") (.var "v10")), (.arg (.call (.var "v7.Draw")) (.var "v8"))⟩,
  ⟨1, .ifS, (.bin "!=" (.var "v10") (.var "nil")), .none⟩,
  ⟨2, .returnS, (.pair (.var "v1") (.var "v10")), .none⟩,
  ⟨1, .exprS, (.arg (.arg (.arg (.call (.var "v1.AddChild")) (.var "v6")) (.var "v2")) (.var "v9")), .none⟩,
  ⟨1, .addAssign, (.var "v2"), (.bin "+" (.arg (.call (.var "int")) (.var "v9.Size.Height")) (.var "d.Gap"))⟩,
  ⟨1, .ifS, (.bin "&&" (.var "d.scroll.wantsCursor") (.bin "<=" (.var "v3") (.var "d.cursor"))), .none⟩,
  ⟨2, .continueS, .none, .none⟩,
  ⟨1, .ifS, (.bin ">=" (.var "v2") (.arg (.call (.var "int")) (.var "v0.Max.Height"))), .none⟩,
  ⟨2, .breakS, .none, .none⟩,
  ⟨0, .varS, (.var "v11"), (.lit "uint16")⟩,
  ⟨0, .rangeS, (.pair (.var "_") (.var "v12")), (.var "v1.Children")⟩,
  ⟨1, .addAssign, (.var "v11"), (.var "v12.Surface.Size.Height")⟩,
  ⟨0, .ifS, (.bin "&&" (.bin ">" (.var "d.Gap") (.int 0)) (.bin ">" (.arg (.call (.var "len")) (.var "v1.Children")) (.int 1))), .none⟩,
  ⟨1, .addAssign, (.var "v11"), (.arg (.call (.var "uint16")) (.bin "*" (.bin "-" (.arg (.call (.var "len")) (.var "v1.Children")) (.int 1)) (.var "d.Gap")))⟩,
  ⟨0, .ifS, (.var "d.DrawCursor"), .none⟩,
  ⟨1, .varS, (.var "v13"), (.lit "uint16")⟩,
  ⟨1, .forS, (.bin "<" (.var "v13") (.var "v1.Size.Height")), .none⟩,
  ⟨2, .exprS, (.arg (.arg (.arg (.call (.var "v1.WriteCell")) (.int 0)) (.var "v13")) (.lit "vaxis.Cell{Character:vaxis.Character{Grapheme:\"\",Width:1}}")), .none⟩,
  ⟨2, .exprS, (.arg (.arg (.arg (.call (.var "v1.WriteCell")) (.int 1)) (.var "v13")) (.lit "vaxis.Cell{Character:vaxis.Character{Grapheme:\"\",Width:1}}")), .none⟩,
  ⟨2, .forPost, .none, .none⟩,
  ⟨3, .addAssign, (.var "v13"), (.int 1)⟩,
  ⟨1, .define, (.var "v14"), (.bin "-" (.var "d.cursor") (.var "d.scroll.top"))⟩,
  ⟨1, .ifS, (.bin "&&" (.bin ">=" (.var "d.cursor") (.var "d.scroll.top")) (.bin "<" (.var "v14") (.arg (.call (.var "uint")) (.arg (.call (.var "len")) (.var "v1.Children"))))), .none⟩,
  ⟨2, .define, (.var "v15"), (.index (.var "v1.Children") (.var "v14"))⟩,
  ⟨2, .define, (.var "v16"), (.arg (.arg (.arg (.call (.var "vxfw.NewSurface")) (.var "v0.Max.Width")) (.var "v15.Surface.Size.Height")) (.var "v15.Surface.Widget"))⟩,
  ⟨2, .varS, (.var "v17"), (.lit "uint16")⟩,
  ⟨2, .forS, (.bin "<" (.var "v17") (.var "v15.Surface.Size.Height")), .none⟩,
  ⟨3, .exprS, (.arg (.arg (.arg (.call (.var "v16.WriteCell")) (.int 0)) (.var "v17")) (.lit "vaxis.Cell{Character:vaxis.Character{Grapheme:\"▐\",Width:1}}")), .none⟩,
  ⟨3, .forPost, .none, .none⟩,
  ⟨4, .addAssign, (.var "v17"), (.int 1)⟩,
  ⟨2, .exprS, (.arg (.arg (.arg (.call (.var "v16.AddChild")) (.var "v6")) (.int 0)) (.var "v15.Surface")), .none⟩,
  ⟨2, .define, (.var "v18"), (.arg (.arg (.arg (.call (.var "vxfw.NewSubSurface")) (.int 0)) (.var "v15.Origin.Row")) (.var "v16"))⟩,
  ⟨2, .assign, (.index (.var "v1.Children") (.var "v14")), (.var "v18")⟩,
  ⟨0, .ifS, (.var "d.scroll.wantsCursor"), .none⟩,
  ⟨1, .define, (.var "v19"), (.bin "-" (.var "d.cursor") (.var "d.scroll.top"))⟩,
  ⟨1, .ifS, (.bin "<" (.var "v19") (.arg (.call (.var "uint")) (.arg (.call (.var "len")) (.var "v1.Children")))), .none⟩,
  ⟨2, .define, (.var "v20"), (.index (.var "v1.Children") (.var "v19"))⟩,
  ⟨2, .define, (.var "v21"), (.bin "+" (.var "v20.Origin.Row") (.arg (.call (.var "int")) (.var "v20.Surface.Size.Height")))⟩,
  ⟨2, .ifS, (.bin ">" (.var "v21") (.arg (.call (.var "int")) (.var "v0.Max.Height"))), .none⟩,
  ⟨3, .define, (.var "v22"), (.bin "-" (.arg (.call (.var "int")) (.var "v0.Max.Height")) (.var "v21"))⟩,
  ⟨3, .rangeS, (.pair (.var "v23") (.var "v24")), (.var "v1.Children")⟩,
  ⟨4, .addAssign, (.var "v24.Origin.Row"), (.var "v22")⟩,
  ⟨4, .assign, (.index (.var "v1.Children") (.var "v23")), (.var "v24")⟩,
  ⟨2, .elseS, .none, .none⟩,
  ⟨3, .ifS, (.bin "<" (.var "v20.Origin.Row") (.int 0)), .none⟩,
  ⟨4, .define, (.var "v25"), (.un "-" (.var "v20.Origin.Row"))⟩,
  ⟨4, .rangeS, (.pair (.var "v26") (.var "v27")), (.var "v1.Children")⟩,
  ⟨5, .addAssign, (.var "v27.Origin.Row"), (.var "v25")⟩,
  ⟨5, .assign, (.index (.var "v1.Children") (.var "v26")), (.var "v27")⟩,
  ⟨2, .assign, (.var "d.scroll.wantsCursor"), (.var "false")⟩,
  ⟨0, .rangeS, (.pair (.var "v28") (.var "v29")), (.var "v1.Children")⟩,
  ⟨1, .ifS, (.bin "&&" (.bin "<=" (.var "v29.Origin.Row") (.int 0)) (.bin ">" (.bin "+" (.bin "+" (.var "v29.Origin.Row") (.arg (.call (.var "int")) (.var "v29.Surface.Size.Height"))) (.var "d.Gap")) (.int 0))), .none⟩,
  ⟨2, .addAssign, (.var "d.scroll.top"), (.arg (.call (.var "uint")) (.var "v28"))⟩,
  ⟨2, .assign, (.var "d.scroll.offset"), (.un "-" (.var "v29.Origin.Row"))⟩,
  ⟨0, .returnS, (.pair (.var "v1") (.var "nil")), .none⟩]

/-- `Dynamic.insertChildren` -/
def insertChildren : List Line := [
  ⟨0, .subAssign, (.var "d.scroll.top"), (.int 1)⟩,
  ⟨0, .varS, (.var "v3"), (.lit "int")⟩,
  ⟨0, .ifS, (.var "d.DrawCursor"), .none⟩,
  ⟨1, .assign, (.var "v3"), (.int 2)⟩,
  ⟨0, .forS, (.bin ">" (.var "v2") (.int 0)), .none⟩,
  ⟨1, .define, (.var "v4"), (.lit "vxfw.DrawContext{Max:vxfw.Size{Width:v0.Max.Width-uint16(v3),Height:math.MaxUint16},Characters:v0.Characters}")⟩,
  ⟨1, .define, (.var "v5"), (.arg (.arg (.call (.var "d.Builder")) (.var "d.scroll.top")) (.var "d.cursor"))⟩,
  ⟨1, .ifS, (.bin "==" (.var "v5") (.var "nil")), .none⟩,
  ⟨2, .breakS, .none, .none⟩,
  ⟨1, .define, (.pair (.var "v6") (.var "v7")), (.arg (.call (.var "v5.Draw")) (.var "v4"))⟩,
  ⟨1, .ifS, (.bin "!=" (.var "v7") (.var "nil")), .none⟩,
  ⟨2, .returnS, (.var "v7"), .none⟩,
  ⟨1, .subAssign, (.var "v2"), (.bin "+" (.arg (.call (.var "int")) (.var "v6.Size.Height")) (.var "d.Gap"))⟩,
  ⟨1, .define, (.var "v8"), (.arg (.arg (.arg (.call (.var "vxfw.NewSubSurface")) (.var "v3")) (.var "v2")) (.var "v6"))⟩,
  ⟨1, .assign, (.var "v1.Children"), (.arg (.arg (.arg (.call (.var "slices.Insert")) (.var "v1.Children")) (.int 0)) (.var "v8"))⟩,
  ⟨1, .ifS, (.bin "||" (.bin "==" (.var "d.scroll.top") (.int 0)) (.bin "<=" (.var "v2") (.int 0))), .none⟩,
  ⟨2, .breakS, .none, .none⟩,
  ⟨1, .subAssign, (.var "d.scroll.top"), (.int 1)⟩,
  ⟨0, .assign, (.var "d.scroll.offset"), (.var "v2")⟩,
  ⟨0, .ifS, (.bin "&&" (.bin "==" (.var "d.scroll.top") (.int 0)) (.bin ">" (.var "v2") (.int 0))), .none⟩,
  ⟨1, .assign, (.var "d.scroll.offset"), (.int 0)⟩,
  ⟨1, .varS, (.var "v9"), (.lit "int")⟩,
  ⟨1, .rangeS, (.pair (.var "v10") (.var "v11")), (.var "v1.Children")⟩,
  ⟨2, .assign, (.var "v11.Origin.Row"), (.var "v9")⟩,
  ⟨2, .assign, (.index (.var "v1.Children") (.var "v10")), (.var "v11")⟩,
  ⟨2, .addAssign, (.var "v9"), (.bin "+" (.arg (.call (.var "int")) (.var "v11.Surface.Size.Height")) (.var "d.Gap"))⟩,
  ⟨1, .returnS, (.var "nil"), .none⟩,
  ⟨0, .returnS, (.var "nil"), .none⟩]

/-- `Dynamic.NextItem` -/
def nextItem : List Line := [
  ⟨0, .define, (.var "v0"), (.arg (.arg (.call (.var "d.Builder")) (.bin "+" (.var "d.cursor") (.int 1))) (.var "d.cursor"))⟩,
  ⟨0, .ifS, (.bin "==" (.var "v0") (.var "nil")), .none⟩,
  ⟨1, .returnS, (.var "nil"), .none⟩,
  ⟨0, .addAssign, (.var "d.cursor"), (.int 1)⟩,
  ⟨0, .exprS, (.call (.var "d.ensureScroll")), .none⟩,
  ⟨0, .returnS, (.lit "vxfw.RedrawCmd{}"), .none⟩]

/-- `Dynamic.PrevItem` -/
def prevItem : List Line := [
  ⟨0, .ifS, (.bin "==" (.var "d.cursor") (.int 0)), .none⟩,
  ⟨1, .returnS, (.var "nil"), .none⟩,
  ⟨0, .define, (.var "v0"), (.arg (.arg (.call (.var "d.Builder")) (.bin "-" (.var "d.cursor") (.int 1))) (.var "d.cursor"))⟩,
  ⟨0, .ifS, (.bin "==" (.var "v0") (.var "nil")), .none⟩,
  ⟨1, .returnS, (.var "nil"), .none⟩,
  ⟨0, .subAssign, (.var "d.cursor"), (.int 1)⟩,
  ⟨0, .exprS, (.call (.var "d.ensureScroll")), .none⟩,
  ⟨0, .returnS, (.lit "vxfw.RedrawCmd{}"), .none⟩]

/-- `Dynamic.ensureScroll` -/
def ensureScroll : List Line := [
  ⟨0, .ifS, (.bin ">" (.var "d.cursor") (.var "d.scroll.top")), .none⟩,
  ⟨1, .assign, (.var "d.scroll.wantsCursor"), (.var "true")⟩,
  ⟨1, .returnS, .none, .none⟩,
  ⟨0, .assign, (.var "d.scroll.top"), (.var "d.cursor")⟩,
  ⟨0, .assign, (.var "d.scroll.offset"), (.int 0)⟩,
  ⟨0, .assign, (.var "d.scroll.pending"), (.int 0)⟩]

/-- `Dynamic.SetCursor` -/
def setCursor : List Line := [
  ⟨0, .assign, (.var "d.cursor"), (.var "v0")⟩,
  ⟨0, .exprS, (.call (.var "d.ensureScroll")), .none⟩]

/-- `Dynamic.SetPendingScroll` -/
def setPendingScroll : List Line := [
  ⟨0, .assign, (.var "d.scroll.pending"), (.var "v0")⟩]

/-- `Dynamic.HandleEvent` -/
def handleEvent : List Line := [
  ⟨0, .ifS, (.var "d.DisableEventHandlers"), .none⟩,
  ⟨1, .returnS, (.pair (.var "nil") (.var "nil")), .none⟩,
  ⟨0, .typeSwitchS, (.lit "v2 := v0.(type)"), .none⟩,
  ⟨1, .caseS, (.var "vaxis.Mouse"), .none⟩,
  ⟨2, .switchS, (.var "v2.Button"), .none⟩,
  ⟨3, .caseS, (.var "vaxis.MouseWheelDown"), .none⟩,
  ⟨4, .addAssign, (.var "d.scroll.pending"), (.int 3)⟩,
  ⟨4, .returnS, (.pair (.call (.var "vxfw.ConsumeAndRedraw")) (.var "nil")), .none⟩,
  ⟨3, .caseS, (.var "vaxis.MouseWheelUp"), .none⟩,
  ⟨4, .ifS, (.bin "&&" (.bin ">" (.var "d.scroll.offset") (.int 0)) (.bin ">" (.var "d.scroll.top") (.int 0))), .none⟩,
  ⟨5, .subAssign, (.var "d.scroll.pending"), (.int 3)⟩,
  ⟨5, .returnS, (.pair (.call (.var "vxfw.ConsumeAndRedraw")) (.var "nil")), .none⟩,
  ⟨0, .returnS, (.pair (.var "nil") (.var "nil")), .none⟩]

/-- `Dynamic.CaptureEvent` -/
def captureEvent : List Line := [
  ⟨0, .ifS, (.var "d.DisableEventHandlers"), .none⟩,
  ⟨1, .returnS, (.pair (.var "nil") (.var "nil")), .none⟩,
  ⟨0, .typeSwitchS, (.lit "v1 := v0.(type)"), .none⟩,
  ⟨1, .caseS, (.var "vaxis.Key"), .none⟩,
  ⟨2, .ifS, (.bin "||" (.arg (.call (.var "v1.Matches")) (.lit "'j'")) (.arg (.call (.var "v1.Matches")) (.var "vaxis.KeyDown"))), .none⟩,
  ⟨3, .define, (.var "v2"), (.call (.var "d.NextItem"))⟩,
  ⟨3, .ifS, (.bin "==" (.var "v2") (.var "nil")), .none⟩,
  ⟨4, .returnS, (.pair (.var "nil") (.var "nil")), .none⟩,
  ⟨3, .returnS, (.pair (.call (.var "vxfw.ConsumeAndRedraw")) (.var "nil")), .none⟩,
  ⟨2, .ifS, (.bin "||" (.arg (.call (.var "v1.Matches")) (.lit "'k'")) (.arg (.call (.var "v1.Matches")) (.var "vaxis.KeyUp"))), .none⟩,
  ⟨3, .define, (.var "v3"), (.call (.var "d.PrevItem"))⟩,
  ⟨3, .ifS, (.bin "==" (.var "v3") (.var "nil")), .none⟩,
  ⟨4, .returnS, (.pair (.var "nil") (.var "nil")), .none⟩,
  ⟨3, .returnS, (.pair (.call (.var "vxfw.ConsumeAndRedraw")) (.var "nil")), .none⟩,
  ⟨0, .returnS, (.pair (.var "nil") (.var "nil")), .none⟩]

/-- `Dynamic.Cursor` -/
def cursor : List Line := [
  ⟨0, .returnS, (.var "d.cursor"), .none⟩]

/-- `Dynamic.Offset` -/
def offset : List Line := [
  ⟨0, .returnS, (.var "d.scroll.offset"), .none⟩]

end VaxisModel.Lemmas.DynSkelExpected
