import VaxisModel.Model.DynExec
import VaxisModel.Lemmas.DynSkelExpected

/-! The statement trees of `Dynamic`'s methods: `DynExec.parseBody` of the expected skeletons
    (`Lemmas/DynSkelExpected.lean`, which `Props/C19Tie.skeleton_*` prove equal to the regenerated
    ones), written out top-level statement by top-level statement so that `Lemmas/DynExec.lean` can
    state one lemma per phase.  `parse_*` re-check the literals against the parser by kernel
    evaluation. -/
namespace VaxisModel.Lemmas.DynTrees
open VaxisModel.Model VaxisModel.Model.GoSyn VaxisModel.Model.DynExec

def seqOf : List Stmt → Stmt
  | [] => .skip
  | a :: r => .seq a (seqOf r)

def draw0 : Stmt :=
  (.ite (.bin "||" (.call (.var "v0.Max.HasUnboundedHeight")) (.call (.var "v0.Max.HasUnboundedWidth")))
    (.seq (.atom ⟨1, .exprS, (.arg (.call (.var "panic")) (.lit "\"Dynamic cannot have unbounded height or width\"")), .none⟩)
    .skip)
    .skip)

def draw1 : Stmt :=
  (.atom ⟨0, .define, (.var "v1"), (.arg (.arg (.arg (.call (.var "vxfw.NewSurface")) (.var "v0.Max.Width")) (.var "v0.Max.Height")) (.var "d"))⟩)

def draw2 : Stmt :=
  (.loop (.bin "&&" (.bin ">" (.var "d.scroll.top") (.int 0)) (.bin "==" (.arg (.arg (.call (.var "d.Builder")) (.var "d.scroll.top")) (.var "d.cursor")) (.var "nil")))
    (.seq (.atom ⟨1, .subAssign, (.var "d.scroll.top"), (.int 1)⟩)
    (.seq (.atom ⟨1, .assign, (.var "d.scroll.offset"), (.int 0)⟩)
    .skip))
    .skip)

def draw3 : Stmt :=
  (.atom ⟨0, .define, (.var "v2"), (.un "-" (.bin "+" (.var "d.scroll.offset") (.var "d.scroll.pending")))⟩)

def draw4 : Stmt :=
  (.atom ⟨0, .assign, (.var "d.scroll.pending"), (.int 0)⟩)

def draw5 : Stmt :=
  (.ite (.bin "&&" (.bin ">" (.var "v2") (.int 0)) (.bin "==" (.var "d.scroll.top") (.int 0)))
    (.seq (.atom ⟨1, .assign, (.var "v2"), (.int 0)⟩)
    (.seq (.atom ⟨1, .assign, (.var "d.scroll.offset"), (.int 0)⟩)
    .skip))
    .skip)

def draw6 : Stmt :=
  (.atom ⟨0, .define, (.var "v3"), (.var "d.scroll.top")⟩)

def draw7 : Stmt :=
  (.ite (.bin ">" (.var "v2") (.int 0))
    (.seq (.atom ⟨1, .define, (.var "v4"), (.arg (.arg (.arg (.call (.var "d.insertChildren")) (.var "v0")) (.un "&" (.var "v1"))) (.var "v2"))⟩)
    (.seq (.ite (.bin "!=" (.var "v4") (.var "nil"))
      (.seq (.atom ⟨2, .returnS, (.pair (.var "v1") (.var "v4")), .none⟩)
      .skip)
      .skip)
    (.seq (.atom ⟨1, .define, (.var "v5"), (.index (.var "v1.Children") (.bin "-" (.arg (.call (.var "len")) (.var "v1.Children")) (.int 1)))⟩)
    (.seq (.atom ⟨1, .assign, (.var "v2"), (.bin "+" (.bin "+" (.var "v5.Origin.Row") (.arg (.call (.var "int")) (.var "v5.Surface.Size.Height"))) (.var "d.Gap"))⟩)
    .skip))))
    .skip)

def draw8 : Stmt :=
  (.atom ⟨0, .varS, (.var "v6"), (.lit "int")⟩)

def draw9 : Stmt :=
  (.ite (.var "d.DrawCursor")
    (.seq (.atom ⟨1, .assign, (.var "v6"), (.int 2)⟩)
    .skip)
    .skip)

def draw10 : Stmt :=
  (.loop (.var "true")
    (.seq (.atom ⟨1, .define, (.var "v7"), (.arg (.arg (.call (.var "d.Builder")) (.var "v3")) (.var "d.cursor"))⟩)
    (.seq (.ite (.bin "==" (.var "v7") (.var "nil"))
      (.seq (.atom ⟨2, .breakS, .none, .none⟩)
      .skip)
      .skip)
    (.seq (.atom ⟨1, .addAssign, (.var "v3"), (.int 1)⟩)
    (.seq (.atom ⟨1, .define, (.var "v8"), (.lit "vxfw.DrawContext{Max:vxfw.Size{Width:v0.Max.Width-uint16(v6),Height:math.MaxUint16},Characters:v0.Characters}")⟩)
    (.seq (.atom ⟨1, .define, (.pair (.var "v9") (.var "v10")), (.arg (.call (.var "v7.Draw")) (.var "v8"))⟩)
    (.seq (.ite (.bin "!=" (.var "v10") (.var "nil"))
      (.seq (.atom ⟨2, .returnS, (.pair (.var "v1") (.var "v10")), .none⟩)
      .skip)
      .skip)
    (.seq (.atom ⟨1, .exprS, (.arg (.arg (.arg (.call (.var "v1.AddChild")) (.var "v6")) (.var "v2")) (.var "v9")), .none⟩)
    (.seq (.atom ⟨1, .addAssign, (.var "v2"), (.bin "+" (.arg (.call (.var "int")) (.var "v9.Size.Height")) (.var "d.Gap"))⟩)
    (.seq (.ite (.bin "&&" (.var "d.scroll.wantsCursor") (.bin "<=" (.var "v3") (.var "d.cursor")))
      (.seq (.atom ⟨2, .continueS, .none, .none⟩)
      .skip)
      .skip)
    (.seq (.ite (.bin ">=" (.var "v2") (.arg (.call (.var "int")) (.var "v0.Max.Height")))
      (.seq (.atom ⟨2, .breakS, .none, .none⟩)
      .skip)
      .skip)
    .skip))))))))))
    .skip)

def draw11 : Stmt :=
  (.atom ⟨0, .varS, (.var "v11"), (.lit "uint16")⟩)

def draw12 : Stmt :=
  (.range "_" "v12"
    (.seq (.atom ⟨1, .addAssign, (.var "v11"), (.var "v12.Surface.Size.Height")⟩)
    .skip))

def draw13 : Stmt :=
  (.ite (.bin "&&" (.bin ">" (.var "d.Gap") (.int 0)) (.bin ">" (.arg (.call (.var "len")) (.var "v1.Children")) (.int 1)))
    (.seq (.atom ⟨1, .addAssign, (.var "v11"), (.arg (.call (.var "uint16")) (.bin "*" (.bin "-" (.arg (.call (.var "len")) (.var "v1.Children")) (.int 1)) (.var "d.Gap")))⟩)
    .skip)
    .skip)

def draw14 : Stmt :=
  (.ite (.var "d.DrawCursor")
    (.seq (.atom ⟨1, .varS, (.var "v13"), (.lit "uint16")⟩)
    (.seq (.loop (.bin "<" (.var "v13") (.var "v1.Size.Height"))
      (.seq (.atom ⟨2, .exprS, (.arg (.arg (.arg (.call (.var "v1.WriteCell")) (.int 0)) (.var "v13")) (.lit "vaxis.Cell{Character:vaxis.Character{Grapheme:\"\",Width:1}}")), .none⟩)
      (.seq (.atom ⟨2, .exprS, (.arg (.arg (.arg (.call (.var "v1.WriteCell")) (.int 1)) (.var "v13")) (.lit "vaxis.Cell{Character:vaxis.Character{Grapheme:\"\",Width:1}}")), .none⟩)
      .skip))
      (.seq (.atom ⟨3, .addAssign, (.var "v13"), (.int 1)⟩)
      .skip))
    (.seq (.atom ⟨1, .define, (.var "v14"), (.bin "-" (.var "d.cursor") (.var "d.scroll.top"))⟩)
    (.seq (.ite (.bin "&&" (.bin ">=" (.var "d.cursor") (.var "d.scroll.top")) (.bin "<" (.var "v14") (.arg (.call (.var "uint")) (.arg (.call (.var "len")) (.var "v1.Children")))))
      (.seq (.atom ⟨2, .define, (.var "v15"), (.index (.var "v1.Children") (.var "v14"))⟩)
      (.seq (.atom ⟨2, .define, (.var "v16"), (.arg (.arg (.arg (.call (.var "vxfw.NewSurface")) (.var "v0.Max.Width")) (.var "v15.Surface.Size.Height")) (.var "v15.Surface.Widget"))⟩)
      (.seq (.atom ⟨2, .varS, (.var "v17"), (.lit "uint16")⟩)
      (.seq (.loop (.bin "<" (.var "v17") (.var "v15.Surface.Size.Height"))
        (.seq (.atom ⟨3, .exprS, (.arg (.arg (.arg (.call (.var "v16.WriteCell")) (.int 0)) (.var "v17")) (.lit "vaxis.Cell{Character:vaxis.Character{Grapheme:\"▐\",Width:1}}")), .none⟩)
        .skip)
        (.seq (.atom ⟨4, .addAssign, (.var "v17"), (.int 1)⟩)
        .skip))
      (.seq (.atom ⟨2, .exprS, (.arg (.arg (.arg (.call (.var "v16.AddChild")) (.var "v6")) (.int 0)) (.var "v15.Surface")), .none⟩)
      (.seq (.atom ⟨2, .define, (.var "v18"), (.arg (.arg (.arg (.call (.var "vxfw.NewSubSurface")) (.int 0)) (.var "v15.Origin.Row")) (.var "v16"))⟩)
      (.seq (.atom ⟨2, .assign, (.index (.var "v1.Children") (.var "v14")), (.var "v18")⟩)
      .skip)))))))
      .skip)
    .skip))))
    .skip)

def draw15 : Stmt :=
  (.ite (.var "d.scroll.wantsCursor")
    (.seq (.atom ⟨1, .define, (.var "v19"), (.bin "-" (.var "d.cursor") (.var "d.scroll.top"))⟩)
    (.seq (.ite (.bin "<" (.var "v19") (.arg (.call (.var "uint")) (.arg (.call (.var "len")) (.var "v1.Children"))))
      (.seq (.atom ⟨2, .define, (.var "v20"), (.index (.var "v1.Children") (.var "v19"))⟩)
      (.seq (.atom ⟨2, .define, (.var "v21"), (.bin "+" (.var "v20.Origin.Row") (.arg (.call (.var "int")) (.var "v20.Surface.Size.Height")))⟩)
      (.seq (.ite (.bin ">" (.var "v21") (.arg (.call (.var "int")) (.var "v0.Max.Height")))
        (.seq (.atom ⟨3, .define, (.var "v22"), (.bin "-" (.arg (.call (.var "int")) (.var "v0.Max.Height")) (.var "v21"))⟩)
        (.seq (.range "v23" "v24"
          (.seq (.atom ⟨4, .addAssign, (.var "v24.Origin.Row"), (.var "v22")⟩)
          (.seq (.atom ⟨4, .assign, (.index (.var "v1.Children") (.var "v23")), (.var "v24")⟩)
          .skip)))
        .skip))
        (.seq (.ite (.bin "<" (.var "v20.Origin.Row") (.int 0))
          (.seq (.atom ⟨4, .define, (.var "v25"), (.un "-" (.var "v20.Origin.Row"))⟩)
          (.seq (.range "v26" "v27"
            (.seq (.atom ⟨5, .addAssign, (.var "v27.Origin.Row"), (.var "v25")⟩)
            (.seq (.atom ⟨5, .assign, (.index (.var "v1.Children") (.var "v26")), (.var "v27")⟩)
            .skip)))
          .skip))
          .skip)
        .skip))
      (.seq (.atom ⟨2, .assign, (.var "d.scroll.wantsCursor"), (.var "false")⟩)
      .skip))))
      .skip)
    .skip))
    .skip)

def draw16 : Stmt :=
  (.range "v28" "v29"
    (.seq (.ite (.bin "&&" (.bin "<=" (.var "v29.Origin.Row") (.int 0)) (.bin ">" (.bin "+" (.bin "+" (.var "v29.Origin.Row") (.arg (.call (.var "int")) (.var "v29.Surface.Size.Height"))) (.var "d.Gap")) (.int 0)))
      (.seq (.atom ⟨2, .addAssign, (.var "d.scroll.top"), (.arg (.call (.var "uint")) (.var "v28"))⟩)
      (.seq (.atom ⟨2, .assign, (.var "d.scroll.offset"), (.un "-" (.var "v29.Origin.Row"))⟩)
      .skip))
      .skip)
    .skip))

def draw17 : Stmt :=
  (.atom ⟨0, .returnS, (.pair (.var "v1") (.var "nil")), .none⟩)

def drawParts : List Stmt := [draw0, draw1, draw2, draw3, draw4, draw5, draw6, draw7, draw8, draw9, draw10, draw11, draw12, draw13, draw14, draw15, draw16, draw17]

def ins0 : Stmt :=
  (.atom ⟨0, .subAssign, (.var "d.scroll.top"), (.int 1)⟩)

def ins1 : Stmt :=
  (.atom ⟨0, .varS, (.var "v3"), (.lit "int")⟩)

def ins2 : Stmt :=
  (.ite (.var "d.DrawCursor")
    (.seq (.atom ⟨1, .assign, (.var "v3"), (.int 2)⟩)
    .skip)
    .skip)

def ins3 : Stmt :=
  (.loop (.bin ">" (.var "v2") (.int 0))
    (.seq (.atom ⟨1, .define, (.var "v4"), (.lit "vxfw.DrawContext{Max:vxfw.Size{Width:v0.Max.Width-uint16(v3),Height:math.MaxUint16},Characters:v0.Characters}")⟩)
    (.seq (.atom ⟨1, .define, (.var "v5"), (.arg (.arg (.call (.var "d.Builder")) (.var "d.scroll.top")) (.var "d.cursor"))⟩)
    (.seq (.ite (.bin "==" (.var "v5") (.var "nil"))
      (.seq (.atom ⟨2, .breakS, .none, .none⟩)
      .skip)
      .skip)
    (.seq (.atom ⟨1, .define, (.pair (.var "v6") (.var "v7")), (.arg (.call (.var "v5.Draw")) (.var "v4"))⟩)
    (.seq (.ite (.bin "!=" (.var "v7") (.var "nil"))
      (.seq (.atom ⟨2, .returnS, (.var "v7"), .none⟩)
      .skip)
      .skip)
    (.seq (.atom ⟨1, .subAssign, (.var "v2"), (.bin "+" (.arg (.call (.var "int")) (.var "v6.Size.Height")) (.var "d.Gap"))⟩)
    (.seq (.atom ⟨1, .define, (.var "v8"), (.arg (.arg (.arg (.call (.var "vxfw.NewSubSurface")) (.var "v3")) (.var "v2")) (.var "v6"))⟩)
    (.seq (.atom ⟨1, .assign, (.var "v1.Children"), (.arg (.arg (.arg (.call (.var "slices.Insert")) (.var "v1.Children")) (.int 0)) (.var "v8"))⟩)
    (.seq (.ite (.bin "||" (.bin "==" (.var "d.scroll.top") (.int 0)) (.bin "<=" (.var "v2") (.int 0)))
      (.seq (.atom ⟨2, .breakS, .none, .none⟩)
      .skip)
      .skip)
    (.seq (.atom ⟨1, .subAssign, (.var "d.scroll.top"), (.int 1)⟩)
    .skip))))))))))
    .skip)

def ins4 : Stmt :=
  (.atom ⟨0, .assign, (.var "d.scroll.offset"), (.var "v2")⟩)

def ins5 : Stmt :=
  (.ite (.bin "&&" (.bin "==" (.var "d.scroll.top") (.int 0)) (.bin ">" (.var "v2") (.int 0)))
    (.seq (.atom ⟨1, .assign, (.var "d.scroll.offset"), (.int 0)⟩)
    (.seq (.atom ⟨1, .varS, (.var "v9"), (.lit "int")⟩)
    (.seq (.range "v10" "v11"
      (.seq (.atom ⟨2, .assign, (.var "v11.Origin.Row"), (.var "v9")⟩)
      (.seq (.atom ⟨2, .assign, (.index (.var "v1.Children") (.var "v10")), (.var "v11")⟩)
      (.seq (.atom ⟨2, .addAssign, (.var "v9"), (.bin "+" (.arg (.call (.var "int")) (.var "v11.Surface.Size.Height")) (.var "d.Gap"))⟩)
      .skip))))
    (.seq (.atom ⟨1, .returnS, (.var "nil"), .none⟩)
    .skip))))
    .skip)

def ins6 : Stmt :=
  (.atom ⟨0, .returnS, (.var "nil"), .none⟩)

def insParts : List Stmt := [ins0, ins1, ins2, ins3, ins4, ins5, ins6]

def next0 : Stmt :=
  (.atom ⟨0, .define, (.var "v0"), (.arg (.arg (.call (.var "d.Builder")) (.bin "+" (.var "d.cursor") (.int 1))) (.var "d.cursor"))⟩)

def next1 : Stmt :=
  (.ite (.bin "==" (.var "v0") (.var "nil"))
    (.seq (.atom ⟨1, .returnS, (.var "nil"), .none⟩)
    .skip)
    .skip)

def next2 : Stmt :=
  (.atom ⟨0, .addAssign, (.var "d.cursor"), (.int 1)⟩)

def next3 : Stmt :=
  (.atom ⟨0, .exprS, (.call (.var "d.ensureScroll")), .none⟩)

def next4 : Stmt :=
  (.atom ⟨0, .returnS, (.lit "vxfw.RedrawCmd{}"), .none⟩)

def nextParts : List Stmt := [next0, next1, next2, next3, next4]

def prev0 : Stmt :=
  (.ite (.bin "==" (.var "d.cursor") (.int 0))
    (.seq (.atom ⟨1, .returnS, (.var "nil"), .none⟩)
    .skip)
    .skip)

def prev1 : Stmt :=
  (.atom ⟨0, .define, (.var "v0"), (.arg (.arg (.call (.var "d.Builder")) (.bin "-" (.var "d.cursor") (.int 1))) (.var "d.cursor"))⟩)

def prev2 : Stmt :=
  (.ite (.bin "==" (.var "v0") (.var "nil"))
    (.seq (.atom ⟨1, .returnS, (.var "nil"), .none⟩)
    .skip)
    .skip)

def prev3 : Stmt :=
  (.atom ⟨0, .subAssign, (.var "d.cursor"), (.int 1)⟩)

def prev4 : Stmt :=
  (.atom ⟨0, .exprS, (.call (.var "d.ensureScroll")), .none⟩)

def prev5 : Stmt :=
  (.atom ⟨0, .returnS, (.lit "vxfw.RedrawCmd{}"), .none⟩)

def prevParts : List Stmt := [prev0, prev1, prev2, prev3, prev4, prev5]

def ens0 : Stmt :=
  (.ite (.bin ">" (.var "d.cursor") (.var "d.scroll.top"))
    (.seq (.atom ⟨1, .assign, (.var "d.scroll.wantsCursor"), (.var "true")⟩)
    (.seq (.atom ⟨1, .returnS, .none, .none⟩)
    .skip))
    .skip)

def ens1 : Stmt :=
  (.atom ⟨0, .assign, (.var "d.scroll.top"), (.var "d.cursor")⟩)

def ens2 : Stmt :=
  (.atom ⟨0, .assign, (.var "d.scroll.offset"), (.int 0)⟩)

def ens3 : Stmt :=
  (.atom ⟨0, .assign, (.var "d.scroll.pending"), (.int 0)⟩)

def ensParts : List Stmt := [ens0, ens1, ens2, ens3]

def hev0 : Stmt :=
  (.ite (.var "d.DisableEventHandlers")
    (.seq (.atom ⟨1, .returnS, (.pair (.var "nil") (.var "nil")), .none⟩)
    .skip)
    .skip)

def hev1 : Stmt :=
  (.sw true (.lit "v2 := v0.(type)")
    (.case (.var "vaxis.Mouse")
      (.seq (.sw false (.var "v2.Button")
        (.case (.var "vaxis.MouseWheelDown")
          (.seq (.atom ⟨4, .addAssign, (.var "d.scroll.pending"), (.int 3)⟩)
          (.seq (.atom ⟨4, .returnS, (.pair (.call (.var "vxfw.ConsumeAndRedraw")) (.var "nil")), .none⟩)
          .skip))
          (.case (.var "vaxis.MouseWheelUp")
            (.seq (.ite (.bin "&&" (.bin ">" (.var "d.scroll.offset") (.int 0)) (.bin ">" (.var "d.scroll.top") (.int 0)))
              (.seq (.atom ⟨5, .subAssign, (.var "d.scroll.pending"), (.int 3)⟩)
              (.seq (.atom ⟨5, .returnS, (.pair (.call (.var "vxfw.ConsumeAndRedraw")) (.var "nil")), .none⟩)
              .skip))
              .skip)
            .skip)
            .skip)))
      .skip)
      .skip))

def hev2 : Stmt :=
  (.atom ⟨0, .returnS, (.pair (.var "nil") (.var "nil")), .none⟩)

def hevParts : List Stmt := [hev0, hev1, hev2]

def cev0 : Stmt :=
  (.ite (.var "d.DisableEventHandlers")
    (.seq (.atom ⟨1, .returnS, (.pair (.var "nil") (.var "nil")), .none⟩)
    .skip)
    .skip)

def cev1 : Stmt :=
  (.sw true (.lit "v1 := v0.(type)")
    (.case (.var "vaxis.Key")
      (.seq (.ite (.bin "||" (.arg (.call (.var "v1.Matches")) (.lit "'j'")) (.arg (.call (.var "v1.Matches")) (.var "vaxis.KeyDown")))
        (.seq (.atom ⟨3, .define, (.var "v2"), (.call (.var "d.NextItem"))⟩)
        (.seq (.ite (.bin "==" (.var "v2") (.var "nil"))
          (.seq (.atom ⟨4, .returnS, (.pair (.var "nil") (.var "nil")), .none⟩)
          .skip)
          .skip)
        (.seq (.atom ⟨3, .returnS, (.pair (.call (.var "vxfw.ConsumeAndRedraw")) (.var "nil")), .none⟩)
        .skip)))
        .skip)
      (.seq (.ite (.bin "||" (.arg (.call (.var "v1.Matches")) (.lit "'k'")) (.arg (.call (.var "v1.Matches")) (.var "vaxis.KeyUp")))
        (.seq (.atom ⟨3, .define, (.var "v3"), (.call (.var "d.PrevItem"))⟩)
        (.seq (.ite (.bin "==" (.var "v3") (.var "nil"))
          (.seq (.atom ⟨4, .returnS, (.pair (.var "nil") (.var "nil")), .none⟩)
          .skip)
          .skip)
        (.seq (.atom ⟨3, .returnS, (.pair (.call (.var "vxfw.ConsumeAndRedraw")) (.var "nil")), .none⟩)
        .skip)))
        .skip)
      .skip))
      .skip))

def cev2 : Stmt :=
  (.atom ⟨0, .returnS, (.pair (.var "nil") (.var "nil")), .none⟩)

def cevParts : List Stmt := [cev0, cev1, cev2]


theorem parse_draw : parseBody DynSkelExpected.draw = seqOf drawParts := by decide +kernel
theorem parse_ins : parseBody DynSkelExpected.insertChildren = seqOf insParts := by decide +kernel
theorem parse_next : parseBody DynSkelExpected.nextItem = seqOf nextParts := by decide +kernel
theorem parse_prev : parseBody DynSkelExpected.prevItem = seqOf prevParts := by decide +kernel
theorem parse_ens : parseBody DynSkelExpected.ensureScroll = seqOf ensParts := by decide +kernel
theorem parse_hev : parseBody DynSkelExpected.handleEvent = seqOf hevParts := by decide +kernel
theorem parse_cev : parseBody DynSkelExpected.captureEvent = seqOf cevParts := by decide +kernel

end VaxisModel.Lemmas.DynTrees
