import VaxisModel.Model.EdRun

/-!
Index loops of `textinput.Update` (`for i := …; i < len(m.content); i += 1 { if p(m.content[i]) { m.cursor += 1; continue }; break }`
and the backward ones): what they compute, for abstract loop components known through their action on
environments of the shape `mk cursor index`.
-/
namespace VaxisModel.Lemmas.EdLangLoops
open VaxisModel.Model.EdLang
open VaxisModel.Model.TextInput (fwdLoop bwdLoop bwdLoop2)

variable {A : Type}

/-- the number of leading elements satisfying `p` -/
def steps {G : Type} (p : G → Bool) : List G → Nat
  | [] => 0
  | g :: r => if p g then steps p r + 1 else 0

theorem steps_le {G : Type} (p : G → Bool) (l : List G) : steps p l ≤ l.length := by
  induction l with
  | nil => simp [steps]
  | cons g r ih => simp only [steps]; split <;> simp <;> omega

theorem fwdLoop_steps {G : Type} (p : G → Bool) (l : List G) (c : Int) : fwdLoop p l c = c + steps p l := by
  induction l generalizing c with
  | nil => simp [fwdLoop, steps]
  | cons g r ih =>
    by_cases h : p g
    · simp [fwdLoop, steps, h, ih]; omega
    · simp [fwdLoop, steps, h]

theorem bwdLoop_steps {G : Type} (p : G → Bool) (l : List G) (c : Int) : bwdLoop p l c = c - steps p l := by
  induction l generalizing c with
  | nil => simp [bwdLoop, steps]
  | cons g r ih =>
    by_cases h : p g
    · simp [bwdLoop, steps, h, ih]; omega
    · simp [bwdLoop, steps, h]

theorem bwdLoop2_steps {G : Type} (p : G → Bool) (l : List G) (c : Int) :
    bwdLoop2 p l c = c - steps p l + (if steps p l < l.length then 1 else 0) := by
  induction l generalizing c with
  | nil => simp [bwdLoop2, steps]
  | cons g r ih =>
    by_cases h : p g
    · simp only [bwdLoop2, steps, h, if_true, ih, List.length_cons]
      have := steps_le p r
      split <;> split <;> omega
    · simp [bwdLoop2, steps, h]

/-- The forward scanning loop. -/
theorem fwdLoopSpec (L : List (List A)) (p : List A → Bool) (mk : Int → Int → Env A)
    (cond : Env A → V A) (body post : Env A → Res A)
    (hcond : ∀ c i, cond (mk c i) = .bool (decide (i < L.length)))
    (hbody : ∀ c i g, 0 ≤ i → L[i.toNat]? = some g →
      body (mk c i) = if p g then .cont (mk (c + 1) i) else .brk (mk c i))
    (hpost : ∀ c i, post (mk c i) = .ok (mk c (i + 1)))
    (c i : Int) (k : Nat) (hi : 0 ≤ i) (hk : (L.drop i.toNat).length < k) :
    loopN cond body post k (mk c i) = .ok (mk (c + steps p (L.drop i.toNat)) (i + steps p (L.drop i.toNat))) := by
  generalize hrest : L.drop i.toNat = rest at hk
  induction rest generalizing c i k with
  | nil =>
    obtain ⟨k', rfl⟩ : ∃ k', k = k' + 1 := ⟨k - 1, by simp at hk; omega⟩
    have hge : ¬ i < L.length := by
      have := List.drop_eq_nil_iff.mp hrest
      omega
    simp [loopN, hcond, hge, steps]
  | cons g rest' ih =>
    obtain ⟨k', rfl⟩ : ∃ k', k = k' + 1 := ⟨k - 1, by simp at hk; omega⟩
    have hlt : i.toNat < L.length := by
      have : (L.drop i.toNat).length = (g :: rest').length := by rw [hrest]
      simp at this; omega
    have hg : L[i.toNat]? = some g := by
      have := List.getElem?_drop (xs := L) (i := i.toNat) (j := 0)
      rw [hrest] at this
      simpa using this.symm
    have hrest' : L.drop (i + 1).toNat = rest' := by
      have e : (i + 1).toNat = i.toNat + 1 := by omega
      rw [e, ← List.drop_drop, hrest]
      rfl
    have hilt : i < L.length := by omega
    by_cases hp : p g
    · have := ih (c + 1) (i + 1) k' (by omega) hrest' (by simp at hk ⊢; omega)
      simp only [loopN, hcond, hilt, decide_true, hbody c i g hi hg, hp, if_true, hpost, this, steps]
      congr 2 <;> omega
    · simp [loopN, hcond, hilt, hbody c i g hi hg, hp, steps]

/-- The backward scanning loops (`d` = what `break` adds to the cursor: 0, or 1 in the second loop of Alt+b). -/
theorem bwdLoopSpec (L : List (List A)) (p : List A → Bool) (d : Int) (mk : Int → Int → Env A)
    (cond : Env A → V A) (body post : Env A → Res A)
    (hcond : ∀ c i, cond (mk c i) = .bool (decide (i ≥ 0)))
    (hbody : ∀ c i g, 0 ≤ i → L[i.toNat]? = some g →
      body (mk c i) = if p g then .cont (mk (c - 1) i) else .brk (mk (c + d) i))
    (hpost : ∀ c i, post (mk c i) = .ok (mk c (i - 1)))
    (c i : Int) (k : Nat) (hlen : i < L.length) (hk : (L.take (i + 1).toNat).length < k) :
    loopN cond body post k (mk c i) =
      .ok (mk (c - steps p (L.take (i + 1).toNat).reverse +
                (if steps p (L.take (i + 1).toNat).reverse < (L.take (i + 1).toNat).reverse.length then d else 0))
              (i - steps p (L.take (i + 1).toNat).reverse)) := by
  generalize hrest : (L.take (i + 1).toNat).reverse = rest
  have hk' : rest.length < k := by rw [← hrest]; simpa using hk
  clear hk
  induction rest generalizing c i k with
  | nil =>
    obtain ⟨k', rfl⟩ : ∃ k', k = k' + 1 := ⟨k - 1, by simp at hk'; omega⟩
    have hneg : ¬ i ≥ 0 := by
      have h0 : (L.take (i + 1).toNat) = [] := by simpa using hrest
      have := List.take_eq_nil_iff.mp h0
      rcases this with h | h
      · omega
      · subst h; simp at hlen; omega
    simp [loopN, hcond, hneg, steps]
  | cons g rest' ih =>
    obtain ⟨k', rfl⟩ : ∃ k', k = k' + 1 := ⟨k - 1, by simp at hk'; omega⟩
    have hi0 : 0 ≤ i := by
      by_cases hneg : 0 ≤ i
      · exact hneg
      · have : (i + 1).toNat = 0 := by omega
        rw [this] at hrest
        simp at hrest
    have hlt : i.toNat < L.length := by omega
    have e : (i + 1).toNat = i.toNat + 1 := by omega
    have htake : L.take (i.toNat + 1) = L.take i.toNat ++ [L[i.toNat]] := by
      rw [List.take_succ_eq_append_getElem hlt]
    have hg : L[i.toNat]? = some g ∧ (L.take i.toNat).reverse = rest' := by
      rw [e, htake, List.reverse_append] at hrest
      simp only [List.reverse_cons, List.reverse_nil, List.nil_append, List.singleton_append, List.cons.injEq] at hrest
      exact ⟨by rw [List.getElem?_eq_getElem hlt, hrest.1], hrest.2⟩
    have hrest' : (L.take (i - 1 + 1).toNat).reverse = rest' := by
      have : (i - 1 + 1).toNat = i.toNat := by omega
      rw [this]; exact hg.2
    have hge : i ≥ 0 := hi0
    by_cases hp : p g
    · have := ih (c - 1) (i - 1) k' (by omega) hrest' (by simp at hk' ⊢; omega)
      simp only [loopN, hcond, hge, decide_true, hbody c i g hi0 hg.1, hp, if_true, hpost, this, steps, List.length_cons]
      congr 2
      · have := steps_le p rest'
        split <;> split <;> omega
      · omega
    · simp [loopN, hcond, hge, hbody c i g hi0 hg.1, hp, steps]

/-! ### the `range` loop of the default arm: one `slices.Insert` per typed character -/

open VaxisModel.Model.TextInput (TI insertChars) in
/-- `o` after the loop: the last character seen, if any. -/
def lastO (o : Option (List A)) : List (List A) → Option (List A)
  | [] => o
  | g :: gs => lastO (some g) gs

open VaxisModel.Model.TextInput (TI insertChars) in
theorem rangeSpec (x : String) (mk : List (List A) → Int → Option (List A) → Env A) (body : Env A → Res A) (off : Int)
    (hset : ∀ content cursor o g, setV x (.str g) (mk content cursor o) = mk content cursor (some g))
    (hbody : ∀ content cursor g, body (mk content cursor (some g)) =
      if VaxisModel.Model.TextInput.inRange content cursor then
        .ok (mk (content.take cursor.toNat ++ [g] ++ content.drop cursor.toNat) (cursor + 1) (some g))
      else .err "slices.Insert out of range") :
    ∀ (gs : List (List A)) (content : List (List A)) (cursor : Int) (o : Option (List A)),
      rangeN x body (gs.map V.str) (mk content cursor o) =
        match insertChars (⟨content, cursor, off, []⟩ : TI (List A)) gs with
        | some m' => .ok (mk m'.content m'.cursor (lastO o gs))
        | none => .err "slices.Insert out of range" := by
  intro gs
  induction gs with
  | nil => intro content cursor o; simp [rangeN, insertChars, lastO]
  | cons g gs ih =>
    intro content cursor o
    by_cases hr : VaxisModel.Model.TextInput.inRange content cursor = true
    · simp only [List.map_cons, rangeN, hset, hbody, hr, if_true, insertChars, lastO]
      exact ih _ _ _
    · simp [rangeN, hset, hbody, hr, insertChars]

end VaxisModel.Lemmas.EdLangLoops
