import VaxisModel.Model.EdRun
import VaxisModel.Lemmas.Editor

/-!
Lemmas for the `*_body_eq_model` theorems of C17 (TextField): what the loops of the translated
bodies compute, stated for abstract loop components (condition, body, post) that are known only
through their action on environments of the loop's shape — so that they apply to whatever form
`simp` brings the interpreter's closures into.
-/
namespace VaxisModel.Lemmas.EdLangTF
open VaxisModel.Model.EdLang VaxisModel.Model.EdRun
open VaxisModel.Model.TextField (insertLoop delRightLoop delLeftLoop killLoop)

variable {A : Type}

/-- What is asked of the segmentation for "walk the string until it is empty" to be "walk its
    clusters": the empty string has no cluster, a non-empty one has one. -/
structure ClSane (cl : List A → List (List A)) : Prop where
  nil : cl [] = []
  cons : ∀ s, s ≠ [] → cl s ≠ []
  /-- the clusters concatenate to the text (what is left of a string is what its clusters hold) -/
  flat : ∀ s, (cl s).flatten = s

/-- The value `r` of the variable `rest` stands for the clusters `l` still to come. -/
def Rep (cl : List A → List (List A)) (r : V A) (l : List (List A)) : Prop :=
  r = .chars l ∨ ∃ s, r = .str s ∧ cl s = l

/-- A body result after which the loop goes on with `e`. -/
def Continues (r : Res A) (e : Env A) : Prop := r = .ok e ∨ r = .cont e

/-- One pass over the clusters: `stepF i next g` is what an iteration makes of the counter and the
    builder (`none` = `break` right after the cluster is taken).  Result: the final values of
    `cluster`, `rest`, the counter and the builder. -/
def walk (stepF : Int → List A → List A → Option (Int × List A)) :
    List (List A) → V A → V A → Int → List A → V A × V A × Int × List A
  | [], c, r, i, next => (c, r, i, next)
  | g :: rest, _, _, i, next =>
    match stepF i next g with
    | none => (.str g, .chars rest, i, next)
    | some (i', next') => walk stepF rest (.str g) (.chars rest) i' next'

/-- The generic cluster loop: environments of the shape `mk cluster rest i next`. -/
theorem clusterLoop (cl : List A → List (List A)) (hs : ClSane cl)
    (mk : V A → V A → Int → List A → Env A)
    (stepF : Int → List A → List A → Option (Int × List A))
    (cond : Env A → V A) (body post : Env A → Res A)
    (l : List (List A)) (r c : V A) (i : Int) (next : List A) (k : Nat)
    (hcond : ∀ c r i next, cond (mk c r i next) = nonEmptyV r)
    (hbody : ∀ c r g rest i next, Rep cl r (g :: rest) →
      match stepF i next g with
      | some (i', next') => Continues (body (mk c r i next)) (mk (.str g) (.chars rest) i' next')
      | none => body (mk c r i next) = .brk (mk (.str g) (.chars rest) i next))
    (hpost : ∀ e, post e = .ok e)
    (hr : Rep cl r l) (hk : l.length < k) :
    loopN cond body post k (mk c r i next) =
      .ok (mk (walk stepF l c r i next).1 (walk stepF l c r i next).2.1 (walk stepF l c r i next).2.2.1 (walk stepF l c r i next).2.2.2) := by
  induction l generalizing r c i next k with
  | nil =>
    obtain ⟨k', rfl⟩ : ∃ k', k = k' + 1 := ⟨k - 1, by simp at hk; omega⟩
    have hc : cond (mk c r i next) = .bool false := by
      rw [hcond]
      rcases hr with rfl | ⟨s, rfl, hcl⟩
      · simp [nonEmptyV]
      · have : s = [] := by
          cases s with
          | nil => rfl
          | cons a t => exact absurd hcl (hs.cons _ (by simp))
        simp [nonEmptyV, this]
    simp [loopN, hc, walk]
  | cons g rest ih =>
    obtain ⟨k', rfl⟩ : ∃ k', k = k' + 1 := ⟨k - 1, by simp at hk; omega⟩
    have hc : cond (mk c r i next) = .bool true := by
      rw [hcond]
      rcases hr with rfl | ⟨s, rfl, hcl⟩
      · simp [nonEmptyV]
      · have : s ≠ [] := by
          intro h; subst h; rw [hs.nil] at hcl; cases hcl
        cases s with
        | nil => exact absurd rfl this
        | cons a t => simp [nonEmptyV]
    have hb := hbody c r g rest i next hr
    cases hst : stepF i next g with
    | none =>
      rw [hst] at hb
      simp [loopN, hc, hb, walk, hst]
    | some p =>
      obtain ⟨i', next'⟩ := p
      rw [hst] at hb
      have hrec := ih (.chars rest) (.str g) i' next' k' (Or.inl rfl) (by simp at hk; omega)
      cases hb with
      | inl hb => simp [loopN, hc, hb, hpost, walk, hst, hrec]
      | inr hb => simp [loopN, hc, hb, hpost, walk, hst, hrec]

/-! ### comparisons of `uint` values (natural numbers held as `Int`) -/

theorem cmpV_eq_nat [DecidableEq A] (a b : Nat) : cmpV (A := A) "==" (.num a) (.num b) = .bool (decide (a = b)) := by
  simp [cmpV, cmpI, Int.natCast_inj]

theorem cmpV_eq_nat0 [DecidableEq A] (a : Nat) : cmpV (A := A) "==" (.num a) (.num 0) = .bool (decide (a = 0)) := by
  have := cmpV_eq_nat (A := A) a 0
  simpa using this

theorem cmpV_gt_nat [DecidableEq A] (a b : Nat) : cmpV (A := A) ">" (.num a) (.num b) = .bool (decide (b < a)) := by
  simp [cmpV, cmpI]

theorem cmpV_lt_nat [DecidableEq A] (a b : Nat) : cmpV (A := A) "<" (.num a) (.num b) = .bool (decide (a < b)) := by
  simp [cmpV, cmpI]

/-! ### the step functions of the four loops and what `walk` makes of them -/

def stepCount : Int → List A → List A → Option (Int × List A) := fun i next _ => some (i + 1, next)
def stepRight (c : Int) : Int → List A → List A → Option (Int × List A) :=
  fun i next g => if i = c then some (i + 1, next) else some (i + 1, next ++ g)
def stepLeft (c : Int) : Int → List A → List A → Option (Int × List A) :=
  fun i next g => if i + 1 = c then some (i + 1, next) else some (i + 1, next ++ g)
def stepKill (c : Int) : Int → List A → List A → Option (Int × List A) :=
  fun i next g => if i = c then none else some (i + 1, next ++ g)

theorem walk_count (l : List (List A)) (c r : V A) (i : Int) (next : List A) :
    (walk stepCount l c r i next).2.2 = (i + l.length, next) := by
  induction l generalizing i c r with
  | nil => simp [walk]
  | cons g r ih => simp [walk, stepCount, ih]; omega

theorem flatten_acc_right (c : Nat) : ∀ (l : List (List A)) (i : Nat) (acc : List (List A)),
    (delRightLoop c l i acc).flatten = acc.flatten ++ (delRightLoop c l i []).flatten := by
  intro l
  induction l with
  | nil => intro i acc; simp [delRightLoop]
  | cons g r ih =>
    intro i acc
    by_cases h : i = c
    · simp only [delRightLoop, h, if_true]; exact ih _ _
    · simp only [delRightLoop, h, if_false]
      rw [ih (i + 1) (acc ++ [g]), ih (i + 1) ([] ++ [g])]
      simp

theorem walk_right (c : Nat) : ∀ (l : List (List A)) (cv rv : V A) (i : Nat) (next : List A),
    (walk (stepRight (c : Int)) l cv rv (i : Int) next).2.2.2 = next ++ (delRightLoop c l i []).flatten := by
  intro l
  induction l with
  | nil => intro cv rv i next; simp [walk, delRightLoop]
  | cons g r ih =>
    intro cv rv i next
    by_cases h : i = c
    · subst h
      have := ih (.str g) (.chars r) (i + 1) next
      simp [walk, stepRight, delRightLoop] at this ⊢
      exact this
    · have h' : ¬ ((i : Int) = (c : Int)) := by omega
      have := ih (.str g) (.chars r) (i + 1) (next ++ g)
      simp only [walk, stepRight, h', if_false, delRightLoop, h]
      rw [flatten_acc_right c r (i + 1) ([] ++ [g])]
      simp at this ⊢
      exact this

theorem flatten_acc_left (c : Nat) : ∀ (l : List (List A)) (i : Nat) (acc : List (List A)),
    (delLeftLoop c l i acc).flatten = acc.flatten ++ (delLeftLoop c l i []).flatten := by
  intro l
  induction l with
  | nil => intro i acc; simp [delLeftLoop]
  | cons g r ih =>
    intro i acc
    by_cases h : i + 1 = c
    · simp only [delLeftLoop, h, if_true]; exact ih _ _
    · simp only [delLeftLoop, h, if_false]
      rw [ih (i + 1) (acc ++ [g]), ih (i + 1) ([] ++ [g])]
      simp

theorem walk_left (c : Nat) : ∀ (l : List (List A)) (cv rv : V A) (i : Nat) (next : List A),
    (walk (stepLeft (c : Int)) l cv rv (i : Int) next).2.2.2 = next ++ (delLeftLoop c l i []).flatten := by
  intro l
  induction l with
  | nil => intro cv rv i next; simp [walk, delLeftLoop]
  | cons g r ih =>
    intro cv rv i next
    by_cases h : i + 1 = c
    · have h' : ((i : Int) + 1 = (c : Int)) := by omega
      have := ih (.str g) (.chars r) (i + 1) next
      simp [walk, stepLeft, delLeftLoop, h, h'] at this ⊢
      exact this
    · have h' : ¬ ((i : Int) + 1 = (c : Int)) := by omega
      have := ih (.str g) (.chars r) (i + 1) (next ++ g)
      simp only [walk, stepLeft, h', if_false, delLeftLoop, h]
      rw [flatten_acc_left c r (i + 1) ([] ++ [g])]
      simp at this ⊢
      exact this

theorem flatten_acc_kill (c : Nat) : ∀ (l : List (List A)) (i : Nat) (acc : List (List A)),
    (killLoop c l i acc).flatten = acc.flatten ++ (killLoop c l i []).flatten := by
  intro l
  induction l with
  | nil => intro i acc; simp [killLoop]
  | cons g r ih =>
    intro i acc
    by_cases h : i = c
    · simp [killLoop, h]
    · simp only [killLoop, h, if_false]
      rw [ih (i + 1) (acc ++ [g]), ih (i + 1) ([] ++ [g])]
      simp

theorem walk_kill (c : Nat) : ∀ (l : List (List A)) (cv rv : V A) (i : Nat) (next : List A),
    (walk (stepKill (c : Int)) l cv rv (i : Int) next).2.2.2 = next ++ (killLoop c l i []).flatten := by
  intro l
  induction l with
  | nil => intro cv rv i next; simp [walk, killLoop]
  | cons g r ih =>
    intro cv rv i next
    by_cases h : i = c
    · subst h; simp [walk, stepKill, killLoop]
    · have h' : ¬ ((i : Int) = (c : Int)) := by omega
      have := ih (.str g) (.chars r) (i + 1) (next ++ g)
      simp only [walk, stepKill, h', if_false, killLoop, h]
      rw [flatten_acc_kill c r (i + 1) ([] ++ [g])]
      simp at this ⊢
      exact this

/-! ### the loop of `insertStringAtCursor` -/

/-- Clusters copied before the insertion point: final `cluster`, `rest`, counter, builder and the
    clusters that are left. -/
def walkIns (cur : Int) : List (List A) → V A → V A → Int → List A → V A × V A × Int × List A × List (List A)
  | [], c, r, i, next => (c, r, i, next, [])
  | g :: rest, c, r, i, next =>
    if i < cur then walkIns cur rest (.str g) (.chars rest) (i + 1) (next ++ g) else (c, r, i, next, g :: rest)

theorem insertLoopSpec (cl : List A → List (List A))
    (mk : V A → V A → V A → Int → List A → Env A) (cur : Int) (s : List A)
    (cond : Env A → V A) (body post : Env A → Res A)
    (l : List (List A)) (r c : V A) (i : Int) (next : List A) (k : Nat)
    (hcond : ∀ e, cond e = .bool true)
    (hbody : ∀ c r l i next, Rep cl r l →
      match l with
      | g :: rest =>
        if i < cur then Continues (body (mk (.num cur) c r i next)) (mk (.num cur) (.str g) (.chars rest) (i + 1) (next ++ g))
        else body (mk (.num cur) c r i next) = .brk (mk (.num (cl (next ++ s)).length) c r i (next ++ s ++ l.flatten))
      | [] => body (mk (.num cur) c r i next) = .brk (mk (.num (cl (next ++ s)).length) c r i (next ++ s ++ l.flatten)))
    (hpost : ∀ e, post e = .ok e)
    (hr : Rep cl r l) (hk : l.length < k) :
    loopN cond body post k (mk (.num cur) c r i next) =
      let w := walkIns cur l c r i next
      .ok (mk (.num (cl (w.2.2.2.1 ++ s)).length) w.1 w.2.1 w.2.2.1 (w.2.2.2.1 ++ s ++ w.2.2.2.2.flatten)) := by
  induction l generalizing r c i next k with
  | nil =>
    obtain ⟨k', rfl⟩ : ∃ k', k = k' + 1 := ⟨k - 1, by simp at hk; omega⟩
    have hb := hbody c r [] i next hr
    simp at hb
    simp [loopN, hcond, hb, walkIns]
  | cons g rest ih =>
    obtain ⟨k', rfl⟩ : ∃ k', k = k' + 1 := ⟨k - 1, by simp at hk; omega⟩
    have hb := hbody c r (g :: rest) i next hr
    by_cases hi : i < cur
    · simp only [hi, if_true] at hb
      have hrec := ih (.chars rest) (.str g) (i + 1) (next ++ g) k' (Or.inl rfl) (by simp at hk; omega)
      cases hb with
      | inl hb => simp [loopN, hcond, hb, hpost, walkIns, hi, hrec]
      | inr hb => simp [loopN, hcond, hb, hpost, walkIns, hi, hrec]
    · simp only [hi, if_false] at hb
      simp [loopN, hcond, hb, walkIns, hi]

open VaxisModel.Model.TextField (insertLoop) in
/-- `walkIns` against the model's `insertLoop` (run on clusters, inserting the one "cluster" `s`). -/
theorem walkIns_model (cur : Nat) (s : List A) : ∀ (l : List (List A)) (c r : V A) (i : Nat) (next : List A) (acc : List (List A)),
    acc.flatten = next →
    (walkIns (cur : Int) l c r (i : Int) next).2.2.2.1 ++ s = (insertLoop [s] cur l i acc).1.flatten ∧
    (walkIns (cur : Int) l c r (i : Int) next).2.2.2.2.flatten = (insertLoop [s] cur l i acc).2.flatten := by
  intro l
  induction l with
  | nil => intro c r i next acc h; simp [walkIns, insertLoop, h]
  | cons g rest ih =>
    intro c r i next acc h
    by_cases hi : i < cur
    · have hi' : (i : Int) < (cur : Int) := by omega
      have := ih (.str g) (.chars rest) (i + 1) (next ++ g) (acc ++ [g]) (by simp [h])
      simp only [walkIns, hi', if_true, insertLoop, hi]
      simpa using this
    · have hi' : ¬ (i : Int) < (cur : Int) := by omega
      simp [walkIns, hi', insertLoop, hi, h]

end VaxisModel.Lemmas.EdLangTF
