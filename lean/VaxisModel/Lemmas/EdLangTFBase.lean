import VaxisModel.Lemmas.EdLangTF
import VaxisModel.Model.EdGen
import VaxisModel.Lemmas.EditorCl

/-! C17 — TextField bodies = model: what every function's proof uses (`graphemeCountInString`, the frame lemma for method calls). -/
namespace VaxisModel.Lemmas.EdLangTFBody
open VaxisModel.Model.EdLang VaxisModel.Model.EdRun VaxisModel.Gen.EditorLang VaxisModel.Lemmas.EdLangTF VaxisModel.Model.EdGen
open VaxisModel.Model

variable {A : Type} [DecidableEq A]

@[simp] theorem genTf_handleEvent : genTf.handleEvent = tfHandleEvent := rfl
@[simp] theorem genTf_checkChanged : genTf.checkChanged = tfCheckChanged := rfl
@[simp] theorem genTf_reset : genTf.reset = tfReset := rfl
@[simp] theorem genTf_insertString : genTf.insertString = tfInsertStringAtCursor := rfl
@[simp] theorem genTf_cursorTo : genTf.cursorTo = tfCursorTo := rfl
@[simp] theorem genTf_delRight : genTf.delRight = tfDeleteCharRightOfCursor := rfl
@[simp] theorem genTf_delLeft : genTf.delLeft = tfDeleteCharLeftOfCursor := rfl
@[simp] theorem genTf_kill : genTf.kill = tfDeleteCursorToEndOfLine := rfl
@[simp] theorem genTf_insertLoop : genTf.insertLoop = tfInsertLoop := rfl
@[simp] theorem genTf_count : genTf.count = tfGraphemeCount := rfl

/-- `graphemeCountInString`: the translated loop counts the clusters. -/
theorem count_body_eq_model (cl : List A → List (List A)) (hs : ClSane cl) (s : List A) (env : Env A) :
    tfCall0 genTf cl "graphemeCountInString" [.str s] env = some (env, .num (cl s).length) := by
  simp [tfCall0, callMethod, runFn, tfGraphemeCount, execB, execS, evalE, recvOf, getV, setV, copyBack, cxBase, E.isAbsent]
  rw [clusterLoop cl hs (fun _ r i _ => [("p0", .str s), ("l0", r), ("l1", .num (-1)), ("l2", .num i)]) stepCount
    (l := cl s) (c := .opaque) (next := [])]
  · simp [walk_count, getV]
  · intro c r i next; simp [getV]
  · intro c r g rest i next hr
    rcases hr with rfl | ⟨s', rfl, hcl⟩
    · simp [stepCount, Continues, getV, setV]
    · simp [stepCount, Continues, getV, setV, hcl]
  · intro e; rfl
  · exact Or.inr ⟨s, rfl, rfl⟩
  · simp [envSize, vSize]; omega
/-- The environment of the three deleting loops. -/
abbrev mkDel (tf : TextFieldCl.TF A) : V A → V A → Int → List A → Env A := fun c r i next =>
  [("tf.Value", .str tf.value), ("tf.cursor", .num tf.cursor), ("tf.n", .num tf.n), ("l0", c), ("l1", r), ("l2", .num (-1)),
   ("l3", .num i), ("l4", .str next)]
theorem tfCall1_count (P : TfProg) (cl : List A → List (List A)) (args : List (V A)) (env : Env A) :
    tfCall1 P cl "graphemeCountInString" args env = tfCall0 P cl "graphemeCountInString" args env := by
  simp [tfCall1]
theorem recvOf_envOfTF (tf : TextFieldCl.TF A) : recvOf tfKeys (envOfTF tf) = envOfTF tf := by
  simp [recvOf, tfKeys, envOfTF, getV]
/-- A method call sees the receiver's three fields only, and writes only them back. -/
theorem callMethod_frame (cx : Ctx A) (f : Fn) (args : List (V A)) (tf tf' : TextFieldCl.TF A) (r : V A) (env : Env A)
    (h : callMethod cx tfKeys f args (envOfTF tf) = some (envOfTF tf', r))
    (h1 : getV env "tf.Value" = .str tf.value) (h2 : getV env "tf.cursor" = .num tf.cursor) (h3 : getV env "tf.n" = .num tf.n) :
    callMethod cx tfKeys f args env = some (copyBack tfKeys (envOfTF tf') env, r) := by
  have henv : recvOf tfKeys env = envOfTF tf := by simp [recvOf, envOfTF, h1, h2, h3]
  unfold callMethod at h ⊢
  rw [recvOf_envOfTF] at h
  rw [henv]
  cases hr : runFn cx f (envOfTF tf) args with
  | none => rw [hr] at h; cases h
  | some p =>
    obtain ⟨env', r'⟩ := p
    rw [hr] at h
    simp only [Option.some.injEq, Prod.mk.injEq] at h
    obtain ⟨h1, rfl⟩ := h
    simp [copyBack, tfKeys, envOfTF, setV] at h1
    simp [copyBack, tfKeys, envOfTF, getV, h1]
/-- How the model's callback log reads in the interpreter's log. -/
def callName : TextFieldCl.Call A → String × List A
  | .change v => ("change", v)
  | .submit v => ("submit", v)
/-- From the environment-level statement to the `TextField`-level API. -/
theorem tfApi_of_call (cl : List A → List (List A)) (f : String) (args : List (V A)) (tf tf' : TextFieldCl.TF A) (r : V A)
    (h : tfCall2 genTf cl f args (envOfTF tf) = some (envOfTF tf', r)) :
    tfApi genTf cl f args tf = some (tf', r) := by
  unfold tfApi
  rw [h]
  simp [tfOfEnv, envOfTF, getV]
theorem clSane_of_seg (cl : List A → List (List A)) (h : VaxisModel.Spec.Editor.Segmentation cl) : ClSane cl where
  nil := VaxisModel.Lemmas.EditorCl.cl_nil h
  cons := by
    intro s hs hc
    have := h.flatten s
    rw [hc] at this
    exact hs (by simpa using this.symm)
  flat := h.flatten

end VaxisModel.Lemmas.EdLangTFBody
