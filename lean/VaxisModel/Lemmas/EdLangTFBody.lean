import VaxisModel.Lemmas.EdLangTFReset
import VaxisModel.Lemmas.EdLangTFCursorTo
import VaxisModel.Lemmas.EdLangTFDelRight
import VaxisModel.Lemmas.EdLangTFDelLeft
import VaxisModel.Lemmas.EdLangTFKill
import VaxisModel.Lemmas.EdLangTFInsert
import VaxisModel.Lemmas.EdLangTFCheck

/-! C17 — `TextField.HandleEvent` as translated from the source is the model's `handleKey`; histories through the translated bodies. -/
namespace VaxisModel.Lemmas.EdLangTFBody
open VaxisModel.Model.EdLang VaxisModel.Model.EdRun VaxisModel.Gen.EditorLang VaxisModel.Lemmas.EdLangTF VaxisModel.Model.EdGen
open VaxisModel.Model

variable {A : Type} [DecidableEq A]

/-- stage 1: run `HandleEvent` up to the calls of `checkChanged` -/
macro "hk1" "[" ts:Lean.Parser.Tactic.simpLemma,* "]" : tactic =>
  `(tactic| simp [tfHandleKey, runFn, tfHandleEvent, execB, execS, evalE, keyEnv, envOfTF, getV, setV, cmpV, nonEmptyV,
      tfCx4, doCall, evalArgs, E.isAbsent, tfCall3, tfCall2, tfCall1, recvOf, copyBack, TextFieldCl.handleKey, tfOfEnv, logOf,
      callback, callName, cmpV_eq_nat0, $ts,*])
/-- stage 2: `checkChanged` -/
macro "hk2" "[" ts:Lean.Parser.Tactic.simpLemma,* "]" : tactic =>
  `(tactic| simp [runFn, execB, execS, evalE, getV, setV, cmpV, doCall, evalArgs, E.isAbsent, tfCall2, recvOf, copyBack,
      callMethod, tfCheckChanged, tfCx3, tfOfEnv, logOf, TextFieldCl.checkChanged, callback, callName, $ts,*])


section branches
variable (cl : List A → List (List A)) (hs : ClSane cl) (tf : TextFieldCl.TF A)
  (text : List A) (home toEnd right left delR delL kill enter : Bool)

theorem handle_release :
    tfHandleKey genTf cl tf ⟨true, text, home, toEnd, right, left, delR, delL, kill, enter⟩ = some (tf, []) := by
  hk1 []

include hs in
theorem handle_text (ht : text ≠ []) :
    tfHandleKey genTf cl tf ⟨false, text, home, toEnd, right, left, delR, delL, kill, enter⟩ =
      some (TextFieldCl.insertString cl tf text, (TextFieldCl.checkChanged tf.value (TextFieldCl.insertString cl tf text)).map callName) := by
  have he : text.isEmpty = false := by cases text with | nil => exact absurd rfl ht | cons a t => rfl
  hk1 [frame_insert cl hs tf, he]
  by_cases hv : (TextFieldCl.insertString cl tf text).value = tf.value
  · hk2 [hv]; rw [← hv]
  · hk2 [hv]

theorem handle_home :
    tfHandleKey genTf cl tf ⟨false, [], true, toEnd, right, left, delR, delL, kill, enter⟩ = some ((TextFieldCl.cursorTo tf 0).1, []) := by
  hk1 [frame_cursorTo_zero cl tf]

theorem handle_end :
    tfHandleKey genTf cl tf ⟨false, [], false, true, right, left, delR, delL, kill, enter⟩ = some ((TextFieldCl.cursorTo tf tf.n).1, []) := by
  hk1 [frame_cursorTo cl tf]

theorem handle_right :
    tfHandleKey genTf cl tf ⟨false, [], false, false, true, left, delR, delL, kill, enter⟩ =
      some ((TextFieldCl.cursorTo tf (tf.cursor + 1)).1, []) := by
  hk1 [frame_cursorTo_succ cl tf]

theorem handle_left :
    tfHandleKey genTf cl tf ⟨false, [], false, false, false, true, delR, delL, kill, enter⟩ =
      some (if tf.cursor = 0 then tf else (TextFieldCl.cursorTo tf (tf.cursor - 1)).1, []) := by
  by_cases hc : tf.cursor = 0
  · hk1 [hc, cmpI]; rw [← hc]
  · hk1 [hc, cmpI, frame_cursorTo_pred cl tf hc]

include hs in
theorem handle_delRight :
    tfHandleKey genTf cl tf ⟨false, [], false, false, false, false, true, delL, kill, enter⟩ =
      some ((TextFieldCl.deleteRight cl tf).1, (TextFieldCl.checkChanged tf.value (TextFieldCl.deleteRight cl tf).1).map callName) := by
  hk1 [frame_delRight cl hs tf]
  by_cases hv : (TextFieldCl.deleteRight cl tf).1.value = tf.value
  · hk2 [hv]; rw [← hv]
  · hk2 [hv]

include hs in
theorem handle_delLeft :
    tfHandleKey genTf cl tf ⟨false, [], false, false, false, false, false, true, kill, enter⟩ =
      some ((TextFieldCl.deleteLeft cl tf).1, (TextFieldCl.checkChanged tf.value (TextFieldCl.deleteLeft cl tf).1).map callName) := by
  hk1 [frame_delLeft cl hs tf]
  by_cases hv : (TextFieldCl.deleteLeft cl tf).1.value = tf.value
  · hk2 [hv]; rw [← hv]
  · hk2 [hv]

include hs in
theorem handle_kill :
    tfHandleKey genTf cl tf ⟨false, [], false, false, false, false, false, false, true, enter⟩ =
      some ((TextFieldCl.killToEnd cl tf).1, (TextFieldCl.checkChanged tf.value (TextFieldCl.killToEnd cl tf).1).map callName) := by
  hk1 [frame_kill cl hs tf]
  by_cases hv : (TextFieldCl.killToEnd cl tf).1.value = tf.value
  · hk2 [hv]; rw [← hv]
  · hk2 [hv]

theorem handle_enter :
    tfHandleKey genTf cl tf ⟨false, [], false, false, false, false, false, false, false, true⟩ =
      some (TextFieldCl.reset tf, [("submit", tf.value)]) := by
  hk1 [frame_reset cl tf, TextFieldCl.reset]

theorem handle_none :
    tfHandleKey genTf cl tf ⟨false, [], false, false, false, false, false, false, false, false⟩ = some (tf, []) := by
  hk1 []

end branches

/-- `HandleEvent` for a key event, both callbacks installed: the translated body — the release
    test, the text test, the chain of `Matches` tests in source order, the calls into the API
    functions, `checkChanged`, the deferred `Reset` — is the model's `handleKey`, state and callbacks. -/
theorem handleEvent_body_eq_model (cl : List A → List (List A)) (hs : ClSane cl) (tf : TextFieldCl.TF A)
    (ev : TextField.KeyEv A) :
    tfHandleKey genTf cl tf ev = some ((TextFieldCl.handleKey cl tf ev).1, (TextFieldCl.handleKey cl tf ev).2.map callName) := by
  obtain ⟨rel, text, home, toEnd, right, left, delR, delL, kill, enter⟩ := ev
  cases rel
  · by_cases ht : text = []
    · subst ht
      cases home
      · cases toEnd
        · cases right
          · cases left
            · cases delR
              · cases delL
                · cases kill
                  · cases enter
                    · rw [handle_none]; simp [TextFieldCl.handleKey]
                    · rw [handle_enter]; simp [TextFieldCl.handleKey, callName]
                  · rw [handle_kill cl hs]; simp [TextFieldCl.handleKey]
                · rw [handle_delLeft cl hs]; simp [TextFieldCl.handleKey]
              · rw [handle_delRight cl hs]; simp [TextFieldCl.handleKey]
            · rw [handle_left]; by_cases hc : tf.cursor = 0 <;> simp [TextFieldCl.handleKey, hc]
          · rw [handle_right]; simp [TextFieldCl.handleKey]
        · rw [handle_end]; simp [TextFieldCl.handleKey]
      · rw [handle_home]; simp [TextFieldCl.handleKey]
    · have hl : text.length > 0 := by cases text with | nil => exact absurd rfl ht | cons a t => simp
      rw [handle_text cl hs _ _ _ _ _ _ _ _ _ _ ht]; simp [TextFieldCl.handleKey, hl]
  · rw [handle_release]; simp [TextFieldCl.handleKey]

/-! ### no callbacks installed -/

macro "hkn" "[" ts:Lean.Parser.Tactic.simpLemma,* "]" : tactic =>
  `(tactic| simp [tfHandleKeyNoCb, runFn, tfHandleEvent, execB, execS, evalE, keyEnv, envOfTF, getV, setV, cmpV, nonEmptyV,
      tfCx4, doCall, evalArgs, E.isAbsent, tfCall3, tfCall2, tfCall1, recvOf, copyBack, TextFieldCl.handleKey, tfOfEnv, logOf,
      cmpV_eq_nat0, $ts,*])

section branchesN
variable (cl : List A → List (List A)) (hs : ClSane cl) (tf : TextFieldCl.TF A)
  (text : List A) (home toEnd right left delR delL kill enter : Bool)

theorem handlen_release :
    tfHandleKeyNoCb genTf cl tf ⟨true, text, home, toEnd, right, left, delR, delL, kill, enter⟩ = some (tf, []) := by
  hkn []

include hs in
theorem handlen_text (ht : text ≠ []) :
    tfHandleKeyNoCb genTf cl tf ⟨false, text, home, toEnd, right, left, delR, delL, kill, enter⟩ =
      some (TextFieldCl.insertString cl tf text, []) := by
  have he : text.isEmpty = false := by cases text with | nil => exact absurd rfl ht | cons a t => rfl
  hkn [frame_insert cl hs tf, he]
  by_cases hv : (TextFieldCl.insertString cl tf text).value = tf.value
  · hk2 [hv]; rw [← hv]
  · hk2 [hv]

theorem handlen_home :
    tfHandleKeyNoCb genTf cl tf ⟨false, [], true, toEnd, right, left, delR, delL, kill, enter⟩ = some ((TextFieldCl.cursorTo tf 0).1, []) := by
  hkn [frame_cursorTo_zero cl tf]

theorem handlen_end :
    tfHandleKeyNoCb genTf cl tf ⟨false, [], false, true, right, left, delR, delL, kill, enter⟩ = some ((TextFieldCl.cursorTo tf tf.n).1, []) := by
  hkn [frame_cursorTo cl tf]

theorem handlen_right :
    tfHandleKeyNoCb genTf cl tf ⟨false, [], false, false, true, left, delR, delL, kill, enter⟩ =
      some ((TextFieldCl.cursorTo tf (tf.cursor + 1)).1, []) := by
  hkn [frame_cursorTo_succ cl tf]

theorem handlen_left :
    tfHandleKeyNoCb genTf cl tf ⟨false, [], false, false, false, true, delR, delL, kill, enter⟩ =
      some (if tf.cursor = 0 then tf else (TextFieldCl.cursorTo tf (tf.cursor - 1)).1, []) := by
  by_cases hc : tf.cursor = 0
  · hkn [hc, cmpI]; rw [← hc]
  · hkn [hc, cmpI, frame_cursorTo_pred cl tf hc]

include hs in
theorem handlen_delRight :
    tfHandleKeyNoCb genTf cl tf ⟨false, [], false, false, false, false, true, delL, kill, enter⟩ =
      some ((TextFieldCl.deleteRight cl tf).1, []) := by
  hkn [frame_delRight cl hs tf]
  by_cases hv : (TextFieldCl.deleteRight cl tf).1.value = tf.value
  · hk2 [hv]; rw [← hv]
  · hk2 [hv]

include hs in
theorem handlen_delLeft :
    tfHandleKeyNoCb genTf cl tf ⟨false, [], false, false, false, false, false, true, kill, enter⟩ =
      some ((TextFieldCl.deleteLeft cl tf).1, []) := by
  hkn [frame_delLeft cl hs tf]
  by_cases hv : (TextFieldCl.deleteLeft cl tf).1.value = tf.value
  · hk2 [hv]; rw [← hv]
  · hk2 [hv]

include hs in
theorem handlen_kill :
    tfHandleKeyNoCb genTf cl tf ⟨false, [], false, false, false, false, false, false, true, enter⟩ =
      some ((TextFieldCl.killToEnd cl tf).1, []) := by
  hkn [frame_kill cl hs tf]
  by_cases hv : (TextFieldCl.killToEnd cl tf).1.value = tf.value
  · hk2 [hv]; rw [← hv]
  · hk2 [hv]

theorem handlen_enter :
    tfHandleKeyNoCb genTf cl tf ⟨false, [], false, false, false, false, false, false, false, true⟩ =
      some (TextFieldCl.reset tf, []) := by
  hkn [frame_reset cl tf, TextFieldCl.reset]

theorem handlen_none :
    tfHandleKeyNoCb genTf cl tf ⟨false, [], false, false, false, false, false, false, false, false⟩ = some (tf, []) := by
  hkn []

end branchesN

/-- With no callback installed `HandleEvent` changes the state exactly as with callbacks and calls nothing. -/
theorem handleEvent_nocb_body_eq_model (cl : List A → List (List A)) (hs : ClSane cl) (tf : TextFieldCl.TF A)
    (ev : TextField.KeyEv A) :
    tfHandleKeyNoCb genTf cl tf ev = some ((TextFieldCl.handleKey cl tf ev).1, []) := by
  obtain ⟨rel, text, home, toEnd, right, left, delR, delL, kill, enter⟩ := ev
  cases rel
  · by_cases ht : text = []
    · subst ht
      cases home
      · cases toEnd
        · cases right
          · cases left
            · cases delR
              · cases delL
                · cases kill
                  · cases enter
                    · rw [handlen_none]; simp [TextFieldCl.handleKey]
                    · rw [handlen_enter]; simp [TextFieldCl.handleKey]
                  · rw [handlen_kill cl hs]; simp [TextFieldCl.handleKey]
                · rw [handlen_delLeft cl hs]; simp [TextFieldCl.handleKey]
              · rw [handlen_delRight cl hs]; simp [TextFieldCl.handleKey]
            · rw [handlen_left]; by_cases hc : tf.cursor = 0 <;> simp [TextFieldCl.handleKey, hc]
          · rw [handlen_right]; simp [TextFieldCl.handleKey]
        · rw [handlen_end]; simp [TextFieldCl.handleKey]
      · rw [handlen_home]; simp [TextFieldCl.handleKey]
    · have hl : text.length > 0 := by cases text with | nil => exact absurd rfl ht | cons a t => simp
      rw [handlen_text cl hs _ _ _ _ _ _ _ _ _ _ ht]; simp [TextFieldCl.handleKey, hl]
  · rw [handlen_release]; simp [TextFieldCl.handleKey]

/-! ### histories through the translated bodies -/

open VaxisModel.Lemmas.EditorCl (TFOpC tfStepC tfRunC) in
/-- One operation (a key event through `HandleEvent`, or a call of the exported API) run by the
    interpreter on the translated bodies; `none` = the interpreter has no meaning for a statement. -/
def tfStepI (cl : List A → List (List A)) (tf : TextFieldCl.TF A) : TFOpC A → Option (TextFieldCl.TF A)
  | .key ev => (tfHandleKey genTf cl tf ev).map (·.1)
  | .ins s => (tfApi genTf cl "InsertStringAtCursor" [.str s] tf).map (·.1)
  | .cur i => (tfApi genTf cl "CursorTo" [.num i] tf).map (·.1)
  | .delr => (tfApi genTf cl "DeleteCharRightOfCursor" [] tf).map (·.1)
  | .dell => (tfApi genTf cl "DeleteCharLeftOfCursor" [] tf).map (·.1)
  | .kill => (tfApi genTf cl "DeleteCursorToEndOfLine" [] tf).map (·.1)
  | .reset => (tfApi genTf cl "Reset" [] tf).map (·.1)

open VaxisModel.Lemmas.EditorCl (TFOpC tfStepC tfRunC) in
def tfRunI (cl : List A → List (List A)) : TextFieldCl.TF A → List (TFOpC A) → Option (TextFieldCl.TF A)
  | tf, [] => some tf
  | tf, op :: ops =>
    match tfStepI cl tf op with
    | some tf' => tfRunI cl tf' ops
    | none => none

open VaxisModel.Lemmas.EditorCl (TFOpC tfStepC tfRunC) in
theorem tfStepI_eq (cl : List A → List (List A)) (hs : ClSane cl) (tf : TextFieldCl.TF A) (op : TFOpC A) :
    tfStepI cl tf op = some (tfStepC cl tf op).1 := by
  cases op with
  | key ev => simp [tfStepI, tfStepC, handleEvent_body_eq_model cl hs tf ev]
  | ins s =>
    have := tfApi_of_call cl "InsertStringAtCursor" [.str s] tf _ _ (by simpa [tfCall2] using insertString_body_eq_model cl hs tf s)
    simp [tfStepI, tfStepC, this]
  | cur i =>
    have := tfApi_of_call cl "CursorTo" [.num i] tf _ _ (by simpa [tfCall2, tfCall1] using cursorTo_body_eq_model cl tf i)
    simp [tfStepI, tfStepC, this]
  | delr =>
    have := tfApi_of_call cl "DeleteCharRightOfCursor" [] tf _ _ (by simpa [tfCall2, tfCall1] using deleteRight_body_eq_model cl hs tf)
    simp [tfStepI, tfStepC, this]
  | dell =>
    have := tfApi_of_call cl "DeleteCharLeftOfCursor" [] tf _ _ (by simpa [tfCall2, tfCall1] using deleteLeft_body_eq_model cl hs tf)
    simp [tfStepI, tfStepC, this]
  | kill =>
    have := tfApi_of_call cl "DeleteCursorToEndOfLine" [] tf _ _ (by simpa [tfCall2, tfCall1] using killToEnd_body_eq_model cl hs tf)
    simp [tfStepI, tfStepC, this]
  | reset =>
    have := tfApi_of_call cl "Reset" [] tf _ _ (by simpa [tfCall2, tfCall1] using reset_body_eq_model cl tf)
    simp [tfStepI, tfStepC, this]

open VaxisModel.Lemmas.EditorCl (TFOpC tfStepC tfRunC) in
theorem tfRunI_eq (cl : List A → List (List A)) (hs : ClSane cl) (ops : List (TFOpC A)) (tf : TextFieldCl.TF A) :
    tfRunI cl tf ops = some (tfRunC cl tf ops) := by
  induction ops generalizing tf with
  | nil => rfl
  | cons op ops ih => simp [tfRunI, tfRunC, tfStepI_eq cl hs, ih]

end VaxisModel.Lemmas.EdLangTFBody
