import VaxisModel.Lemmas.EdLangTF
import VaxisModel.Model.EdGen
import VaxisModel.Lemmas.EditorCl

/-!
C17 — proofs that the bodies of the TextField's functions, translated from the source on every run
(`Gen/EditorLang.lean`) and run by the interpreter of `Model/EdLang.lean`, are the hand-written
model `Model/TextFieldCl.lean`.  The statements are restated in `Props/C17Body.lean`.
-/
namespace VaxisModel.Lemmas.EdLangTFBody
open VaxisModel.Model.EdLang VaxisModel.Model.EdRun VaxisModel.Gen.EditorLang VaxisModel.Lemmas.EdLangTF VaxisModel.Model.EdGen
open VaxisModel.Model

@[simp] theorem genTf_handleEvent : genTf.handleEvent = tfHandleEvent := rfl
@[simp] theorem genTf_checkChanged : genTf.checkChanged = tfCheckChanged := rfl
@[simp] theorem genTf_reset : genTf.reset = tfReset := rfl
@[simp] theorem genTf_insertString : genTf.insertString = tfInsertStringAtCursor := rfl
@[simp] theorem genTf_cursorTo : genTf.cursorTo = tfCursorTo := rfl
@[simp] theorem genTf_delRight : genTf.delRight = tfDeleteCharRightOfCursor := rfl
@[simp] theorem genTf_delLeft : genTf.delLeft = tfDeleteCharLeftOfCursor := rfl
@[simp] theorem genTf_kill : genTf.kill = tfDeleteCursorToEndOfLine := rfl
@[simp] theorem genTf_insertLoop : genTf.insertLoop = tfInsertLoop := rfl
@[simp] theorem genTf_count : genTf.count = tfGraphemeCount := rfl

variable {A : Type} [DecidableEq A]

/-- `graphemeCountInString`: the translated loop counts the clusters. -/
theorem count_body_eq_model (cl : List A → List (List A)) (hs : ClSane cl) (s : List A) (env : Env A) :
    tfCall0 genTf cl "graphemeCountInString" [.str s] env = some (env, .num (cl s).length) := by
  simp [tfCall0, callMethod, runFn, tfGraphemeCount, execB, execS, evalE, recvOf, getV, setV, copyBack, cxBase, E.isAbsent]
  rw [clusterLoop cl hs (fun _ r i _ => [("p0", .str s), ("l0", r), ("l1", .num (-1)), ("l2", .num i)]) stepCount
    (l := cl s) (c := .opaque) (next := [])]
  · simp [walk_count, getV]
  · intro c r i next; simp [getV]
  · intro c r g rest i next hr
    rcases hr with rfl | ⟨s', rfl, hcl⟩
    · simp [stepCount, Continues, getV, setV]
    · simp [stepCount, Continues, getV, setV, hcl]
  · intro e; rfl
  · exact Or.inr ⟨s, rfl, rfl⟩
  · simp [envSize, vSize]; omega

/-- `Reset` -/
theorem reset_body_eq_model (cl : List A → List (List A)) (tf : TextFieldCl.TF A) :
    callMethod (tfCx1 genTf cl) tfKeys tfReset [] (envOfTF tf) = some (envOfTF (TextFieldCl.reset tf), .opaque) := by
  simp [callMethod, runFn, tfReset, execB, execS, evalE, recvOf, tfKeys, envOfTF, getV, setV,
    copyBack, TextFieldCl.reset]

/-- `CursorTo` -/
theorem cursorTo_body_eq_model (cl : List A → List (List A)) (tf : TextFieldCl.TF A) (i : Nat) :
    callMethod (tfCx1 genTf cl) tfKeys tfCursorTo [.num i] (envOfTF tf) =
      some (envOfTF (TextFieldCl.cursorTo tf i).1, .cmd (TextFieldCl.cursorTo tf i).2) := by
  obtain ⟨v, c, n⟩ := tf
  by_cases h1 : n < i
  · by_cases h2 : n = c
    · subst h2
      simp [callMethod, runFn, tfCursorTo, execB, execS, evalE, recvOf, tfKeys, envOfTF, getV, setV,
        copyBack, TextFieldCl.cursorTo, cmpV_eq_nat, cmpV_gt_nat, cmpV_lt_nat, h1]
    · simp [callMethod, runFn, tfCursorTo, execB, execS, evalE, recvOf, tfKeys, envOfTF, getV, setV,
        copyBack, TextFieldCl.cursorTo, cmpV_eq_nat, cmpV_gt_nat, cmpV_lt_nat, h1, h2, Ne.symm h2]
  · by_cases h2 : i = c
    · subst h2
      simp [callMethod, runFn, tfCursorTo, execB, execS, evalE, recvOf, tfKeys, envOfTF, getV, setV,
        copyBack, TextFieldCl.cursorTo, cmpV_eq_nat, cmpV_gt_nat, cmpV_lt_nat, h1]
    · simp [callMethod, runFn, tfCursorTo, execB, execS, evalE, recvOf, tfKeys, envOfTF, getV, setV,
        copyBack, TextFieldCl.cursorTo, cmpV_eq_nat, cmpV_gt_nat, cmpV_lt_nat, h1, h2, Ne.symm h2]

/-- The environment of the three deleting loops. -/
abbrev mkDel (tf : TextFieldCl.TF A) : V A → V A → Int → List A → Env A := fun c r i next =>
  [("tf.Value", .str tf.value), ("tf.cursor", .num tf.cursor), ("tf.n", .num tf.n), ("l0", c), ("l1", r), ("l2", .num (-1)),
   ("l3", .num i), ("l4", .str next)]

/-- `DeleteCharRightOfCursor` -/
theorem deleteRight_body_eq_model (cl : List A → List (List A)) (hs : ClSane cl) (tf : TextFieldCl.TF A) :
    callMethod (tfCx1 genTf cl) tfKeys tfDeleteCharRightOfCursor [] (envOfTF tf) =
      some (envOfTF (TextFieldCl.deleteRight cl tf).1, .cmd (TextFieldCl.deleteRight cl tf).2) := by
  obtain ⟨v, c, n⟩ := tf
  by_cases h : n = c
  · subst h
    simp [callMethod, runFn, tfDeleteCharRightOfCursor, execB, execS, evalE, recvOf, tfKeys, envOfTF,
      getV, setV, copyBack, TextFieldCl.deleteRight, cmpV_eq_nat]
  · have hw := walk_right c (cl v) (.str []) (.str v) 0 []
    simp at hw
    simp [callMethod, runFn, tfDeleteCharRightOfCursor, execB, execS, evalE, recvOf, tfKeys, envOfTF,
      getV, setV, copyBack, TextFieldCl.deleteRight, cmpV_eq_nat, h, Ne.symm h, E.isAbsent, tfCx1, doCall, evalArgs]
    rw [clusterLoop cl hs (mkDel ⟨v, c, n⟩) (stepRight c) (l := cl v) (c := .str []) (r := .str v) (i := 0) (next := [])]
    · simp [getV, setV, count_body_eq_model cl hs, TextFieldCl.count, hw]
    · intro c r i next; simp [getV]
    · intro c' r g rest i next hr
      by_cases hi : i = c
      · rcases hr with rfl | ⟨s', rfl, hcl⟩
        · simp [stepRight, Continues, getV, setV, hi, cmpV, cmpI]
        · simp [stepRight, Continues, getV, setV, hi, cmpV, cmpI, hcl]
      · rcases hr with rfl | ⟨s', rfl, hcl⟩
        · simp [stepRight, Continues, getV, setV, hi, cmpV, cmpI]
        · simp [stepRight, Continues, getV, setV, hi, cmpV, cmpI, hcl]
    · intro e; rfl
    · exact Or.inr ⟨_, rfl, rfl⟩
    · simp [envSize, vSize]; omega

/-- `DeleteCharLeftOfCursor` -/
theorem deleteLeft_body_eq_model (cl : List A → List (List A)) (hs : ClSane cl) (tf : TextFieldCl.TF A) :
    callMethod (tfCx1 genTf cl) tfKeys tfDeleteCharLeftOfCursor [] (envOfTF tf) =
      some (envOfTF (TextFieldCl.deleteLeft cl tf).1, .cmd (TextFieldCl.deleteLeft cl tf).2) := by
  obtain ⟨v, c, n⟩ := tf
  by_cases h : c = 0
  · subst h
    simp [callMethod, runFn, tfDeleteCharLeftOfCursor, execB, execS, evalE, recvOf, tfKeys, envOfTF,
      getV, setV, copyBack, TextFieldCl.deleteLeft, cmpV, cmpI]
  · have hw := walk_left c (cl v) (.str []) (.str v) 0 []
    simp at hw
    simp [callMethod, runFn, tfDeleteCharLeftOfCursor, execB, execS, evalE, recvOf, tfKeys, envOfTF,
      getV, setV, copyBack, TextFieldCl.deleteLeft, cmpV_eq_nat0, h, E.isAbsent, tfCx1, doCall, evalArgs]
    rw [clusterLoop cl hs (mkDel ⟨v, c, n⟩) (stepLeft c) (l := cl v) (c := .str []) (r := .str v) (i := 0) (next := [])]
    · simp [getV, setV, count_body_eq_model cl hs, TextFieldCl.count, hw]
      omega
    · intro c r i next; simp [getV]
    · intro c' r g rest i next hr
      by_cases hi : i + 1 = c
      · rcases hr with rfl | ⟨s', rfl, hcl⟩
        · simp [stepLeft, Continues, getV, setV, hi, cmpV, cmpI]
        · simp [stepLeft, Continues, getV, setV, hi, cmpV, cmpI, hcl]
      · rcases hr with rfl | ⟨s', rfl, hcl⟩
        · simp [stepLeft, Continues, getV, setV, hi, cmpV, cmpI]
        · simp [stepLeft, Continues, getV, setV, hi, cmpV, cmpI, hcl]
    · intro e; rfl
    · exact Or.inr ⟨_, rfl, rfl⟩
    · simp [envSize, vSize]; omega

/-- `DeleteCursorToEndOfLine` -/
theorem killToEnd_body_eq_model (cl : List A → List (List A)) (hs : ClSane cl) (tf : TextFieldCl.TF A) :
    callMethod (tfCx1 genTf cl) tfKeys tfDeleteCursorToEndOfLine [] (envOfTF tf) =
      some (envOfTF (TextFieldCl.killToEnd cl tf).1, .cmd (TextFieldCl.killToEnd cl tf).2) := by
  obtain ⟨v, c, n⟩ := tf
  by_cases h : c = n
  · subst h
    simp [callMethod, runFn, tfDeleteCursorToEndOfLine, execB, execS, evalE, recvOf, tfKeys, envOfTF,
      getV, setV, copyBack, TextFieldCl.killToEnd, cmpV_eq_nat]
  · have hw := walk_kill c (cl v) (.str []) (.str v) 0 []
    simp at hw
    simp [callMethod, runFn, tfDeleteCursorToEndOfLine, execB, execS, evalE, recvOf, tfKeys, envOfTF,
      getV, setV, copyBack, TextFieldCl.killToEnd, cmpV_eq_nat, h, Ne.symm h, E.isAbsent, tfCx1, doCall, evalArgs]
    rw [clusterLoop cl hs (mkDel ⟨v, c, n⟩) (stepKill c) (l := cl v) (c := .str []) (r := .str v) (i := 0) (next := [])]
    · simp [getV, setV, count_body_eq_model cl hs, TextFieldCl.count, hw]
    · intro c r i next; simp [getV]
    · intro c' r g rest i next hr
      by_cases hi : i = c
      · rcases hr with rfl | ⟨s', rfl, hcl⟩
        · simp [stepKill, Continues, getV, setV, hi, cmpV, cmpI]
        · simp [stepKill, Continues, getV, setV, hi, cmpV, cmpI, hcl]
      · rcases hr with rfl | ⟨s', rfl, hcl⟩
        · simp [stepKill, Continues, getV, setV, hi, cmpV, cmpI]
        · simp [stepKill, Continues, getV, setV, hi, cmpV, cmpI, hcl]
    · intro e; rfl
    · exact Or.inr ⟨_, rfl, rfl⟩
    · simp [envSize, vSize]; omega

/-- The environment of the loop of `insertStringAtCursor`. -/
abbrev mkIns (v : List A) (n : Nat) (s : List A) : V A → V A → V A → Int → List A → Env A := fun cur c r i next =>
  [("tf.Value", .str v), ("tf.cursor", cur), ("tf.n", .num n), ("p0", .str s), ("l0", c), ("l1", r), ("l2", .num (-1)),
   ("l3", .num i), ("l4", .str next)]

/-- `insertStringAtCursor` (the unexported helper: the loop, the cursor, the value; `tf.n` untouched) -/
theorem insertLoop_body_eq_model (cl : List A → List (List A)) (hs : ClSane cl) (tf : TextFieldCl.TF A) (s : List A) :
    tfCall1 genTf cl "insertStringAtCursor" [.str s]
        [("tf.Value", .str tf.value), ("tf.cursor", .num tf.cursor), ("tf.n", .num tf.n), ("p0", .str s)] =
      some ([("tf.Value", .str (TextFieldCl.insertString cl tf s).value), ("tf.cursor", .num (TextFieldCl.insertString cl tf s).cursor),
             ("tf.n", .num tf.n), ("p0", .str s)], .opaque) := by
  obtain ⟨v, c, n⟩ := tf
  have hw := walkIns_model c s (cl v) (.str []) (.str v) 0 [] [] rfl
  simp at hw
  simp [tfCall1, callMethod, runFn, tfInsertLoop, execB, execS, evalE, recvOf, tfKeys, envOfTF,
    getV, setV, copyBack, TextFieldCl.insertString, E.isAbsent, tfCx1, doCall, evalArgs]
  rw [insertLoopSpec cl (mkIns v n s) c s (l := cl v) (c := .str []) (r := .str v) (i := 0) (next := [])]
  · simp [getV, setV, TextFieldCl.count, hw]
  · intro e; rfl
  · intro c' r l i next hr
    rcases hr with rfl | ⟨s', rfl, hcl⟩
    · cases l with
      | nil => simp [getV, setV, nonEmptyV, count_body_eq_model cl hs]
      | cons g rest =>
        by_cases hi : i < c
        · simp [getV, setV, nonEmptyV, hi, cmpV, cmpI, Continues]
        · simp [getV, setV, nonEmptyV, hi, cmpV, cmpI, count_body_eq_model cl hs]
    · cases l with
      | nil =>
        have : s' = [] := by have := hs.flat s'; rw [hcl] at this; simpa using this.symm
        subst this
        simp [getV, setV, nonEmptyV, count_body_eq_model cl hs]
      | cons g rest =>
        have hne : s' ≠ [] := by intro h; subst h; rw [hs.nil] at hcl; cases hcl
        have hfl : s' = g ++ rest.flatten := by have := hs.flat s'; rw [hcl] at this; simpa using this.symm
        have he : s'.isEmpty = false := by cases s' with | nil => exact absurd rfl hne | cons a t => rfl
        by_cases hi : i < c
        · simp [getV, setV, nonEmptyV, hi, cmpV, cmpI, Continues, hcl, he]
        · simp [getV, setV, nonEmptyV, hi, cmpV, cmpI, count_body_eq_model cl hs, he]
          exact hfl
  · intro e; rfl
  · exact Or.inr ⟨_, rfl, rfl⟩
  · simp [envSize, vSize]; omega

theorem tfCall1_count (P : TfProg) (cl : List A → List (List A)) (args : List (V A)) (env : Env A) :
    tfCall1 P cl "graphemeCountInString" args env = tfCall0 P cl "graphemeCountInString" args env := by
  simp [tfCall1]

/-- `InsertStringAtCursor` -/
theorem insertString_body_eq_model (cl : List A → List (List A)) (hs : ClSane cl) (tf : TextFieldCl.TF A) (s : List A) :
    callMethod (tfCx2 genTf cl) tfKeys tfInsertStringAtCursor [.str s] (envOfTF tf) =
      some (envOfTF (TextFieldCl.insertString cl tf s), .cmd true) := by
  simp [callMethod, runFn, tfInsertStringAtCursor, execB, execS, evalE, recvOf, tfKeys, envOfTF,
    getV, setV, copyBack, E.isAbsent, tfCx2, doCall, evalArgs, insertLoop_body_eq_model cl hs, tfCall1_count,
    count_body_eq_model cl hs]
  simp [TextFieldCl.insertString, TextFieldCl.count]

/-! ### the exported API and `HandleEvent` -/

theorem recvOf_envOfTF (tf : TextFieldCl.TF A) : recvOf tfKeys (envOfTF tf) = envOfTF tf := by
  simp [recvOf, tfKeys, envOfTF, getV]

/-- A method call sees the receiver's three fields only, and writes only them back. -/
theorem callMethod_frame (cx : Ctx A) (f : Fn) (args : List (V A)) (tf tf' : TextFieldCl.TF A) (r : V A) (env : Env A)
    (h : callMethod cx tfKeys f args (envOfTF tf) = some (envOfTF tf', r))
    (h1 : getV env "tf.Value" = .str tf.value) (h2 : getV env "tf.cursor" = .num tf.cursor) (h3 : getV env "tf.n" = .num tf.n) :
    callMethod cx tfKeys f args env = some (copyBack tfKeys (envOfTF tf') env, r) := by
  have henv : recvOf tfKeys env = envOfTF tf := by simp [recvOf, envOfTF, h1, h2, h3]
  unfold callMethod at h ⊢
  rw [recvOf_envOfTF] at h
  rw [henv]
  cases hr : runFn cx f (envOfTF tf) args with
  | none => rw [hr] at h; cases h
  | some p =>
    obtain ⟨env', r'⟩ := p
    rw [hr] at h
    simp only [Option.some.injEq, Prod.mk.injEq] at h
    obtain ⟨h1, rfl⟩ := h
    simp [copyBack, tfKeys, envOfTF, setV] at h1
    simp [copyBack, tfKeys, envOfTF, getV, h1]

/-- How the model's callback log reads in the interpreter's log. -/
def callName : TextFieldCl.Call A → String × List A
  | .change v => ("change", v)
  | .submit v => ("submit", v)

/-- `checkChanged` (with the `OnChange` callback installed): the callback is called with the new
    value iff the value differs from `pre`. -/
theorem checkChanged_body_eq_model (cl : List A → List (List A)) (tf : TextFieldCl.TF A) (pre : List A) (cmd : Bool) (log : V A) :
    (callMethod (tfCx3 genTf cl) tfKeysCb tfCheckChanged [.cmd cmd, .str pre]
      (envOfTF tf ++ [("tf.OnChange", .opaque), ("tf.OnSubmit", .opaque), ("log", log)])).map (fun p => logOf (getV p.1 "log")) =
      some (logOf log ++ (TextFieldCl.checkChanged pre tf).map callName) := by
  by_cases h : tf.value = pre
  · simp [callMethod, runFn, tfCheckChanged, execB, execS, evalE, recvOf, tfKeys, tfKeysCb, envOfTF, getV, setV, copyBack, cmpV, h,
      TextFieldCl.checkChanged]
  · simp [callMethod, runFn, tfCheckChanged, execB, execS, evalE, recvOf, tfKeys, tfKeysCb, envOfTF, getV, setV, copyBack, cmpV, h,
      TextFieldCl.checkChanged, tfCx3, doCall, evalArgs, E.isAbsent, tfCall2, callback, logOf, callName]

section handle
variable (cl : List A → List (List A)) (hs : ClSane cl) (tf : TextFieldCl.TF A)

/-- The frame lemma instantiated with the theorems of the API functions: conditional rewrite rules
    for calls made from a larger environment. -/
theorem frame_reset (env : Env A)
    (h1 : getV env "tf.Value" = .str tf.value) (h2 : getV env "tf.cursor" = .num tf.cursor) (h3 : getV env "tf.n" = .num tf.n) :
    callMethod (tfCx1 genTf cl) tfKeys tfReset [] env = some (copyBack tfKeys (envOfTF (TextFieldCl.reset tf)) env, .opaque) :=
  callMethod_frame _ _ _ tf _ _ env (reset_body_eq_model cl tf) h1 h2 h3
theorem frame_cursorTo (i : Nat) (env : Env A)
    (h1 : getV env "tf.Value" = .str tf.value) (h2 : getV env "tf.cursor" = .num tf.cursor) (h3 : getV env "tf.n" = .num tf.n) :
    callMethod (tfCx1 genTf cl) tfKeys tfCursorTo [.num i] env =
      some (copyBack tfKeys (envOfTF (TextFieldCl.cursorTo tf i).1) env, .cmd (TextFieldCl.cursorTo tf i).2) :=
  callMethod_frame _ _ _ tf _ _ env (cursorTo_body_eq_model cl tf i) h1 h2 h3
include hs in
theorem frame_delRight (env : Env A)
    (h1 : getV env "tf.Value" = .str tf.value) (h2 : getV env "tf.cursor" = .num tf.cursor) (h3 : getV env "tf.n" = .num tf.n) :
    callMethod (tfCx1 genTf cl) tfKeys tfDeleteCharRightOfCursor [] env =
      some (copyBack tfKeys (envOfTF (TextFieldCl.deleteRight cl tf).1) env, .cmd (TextFieldCl.deleteRight cl tf).2) :=
  callMethod_frame _ _ _ tf _ _ env (deleteRight_body_eq_model cl hs tf) h1 h2 h3
include hs in
theorem frame_delLeft (env : Env A)
    (h1 : getV env "tf.Value" = .str tf.value) (h2 : getV env "tf.cursor" = .num tf.cursor) (h3 : getV env "tf.n" = .num tf.n) :
    callMethod (tfCx1 genTf cl) tfKeys tfDeleteCharLeftOfCursor [] env =
      some (copyBack tfKeys (envOfTF (TextFieldCl.deleteLeft cl tf).1) env, .cmd (TextFieldCl.deleteLeft cl tf).2) :=
  callMethod_frame _ _ _ tf _ _ env (deleteLeft_body_eq_model cl hs tf) h1 h2 h3
include hs in
theorem frame_kill (env : Env A)
    (h1 : getV env "tf.Value" = .str tf.value) (h2 : getV env "tf.cursor" = .num tf.cursor) (h3 : getV env "tf.n" = .num tf.n) :
    callMethod (tfCx1 genTf cl) tfKeys tfDeleteCursorToEndOfLine [] env =
      some (copyBack tfKeys (envOfTF (TextFieldCl.killToEnd cl tf).1) env, .cmd (TextFieldCl.killToEnd cl tf).2) :=
  callMethod_frame _ _ _ tf _ _ env (killToEnd_body_eq_model cl hs tf) h1 h2 h3
include hs in
theorem frame_insert (s : List A) (env : Env A)
    (h1 : getV env "tf.Value" = .str tf.value) (h2 : getV env "tf.cursor" = .num tf.cursor) (h3 : getV env "tf.n" = .num tf.n) :
    callMethod (tfCx2 genTf cl) tfKeys tfInsertStringAtCursor [.str s] env =
      some (copyBack tfKeys (envOfTF (TextFieldCl.insertString cl tf s)) env, .cmd true) :=
  callMethod_frame _ _ _ tf _ _ env (insertString_body_eq_model cl hs tf s) h1 h2 h3

end handle


section handle2
variable (cl : List A → List (List A)) (tf : TextFieldCl.TF A)

theorem frame_cursorTo_zero (env : Env A)
    (h1 : getV env "tf.Value" = .str tf.value) (h2 : getV env "tf.cursor" = .num tf.cursor) (h3 : getV env "tf.n" = .num tf.n) :
    callMethod (tfCx1 genTf cl) tfKeys tfCursorTo [.num 0] env =
      some (copyBack tfKeys (envOfTF (TextFieldCl.cursorTo tf 0).1) env, .cmd (TextFieldCl.cursorTo tf 0).2) :=
  frame_cursorTo cl tf 0 env h1 h2 h3

theorem frame_cursorTo_succ (env : Env A)
    (h1 : getV env "tf.Value" = .str tf.value) (h2 : getV env "tf.cursor" = .num tf.cursor) (h3 : getV env "tf.n" = .num tf.n) :
    callMethod (tfCx1 genTf cl) tfKeys tfCursorTo [.num ((tf.cursor : Int) + 1)] env =
      some (copyBack tfKeys (envOfTF (TextFieldCl.cursorTo tf (tf.cursor + 1)).1) env, .cmd (TextFieldCl.cursorTo tf (tf.cursor + 1)).2) :=
  frame_cursorTo cl tf (tf.cursor + 1) env h1 h2 h3

theorem frame_cursorTo_pred (hc : tf.cursor ≠ 0) (env : Env A)
    (h1 : getV env "tf.Value" = .str tf.value) (h2 : getV env "tf.cursor" = .num tf.cursor) (h3 : getV env "tf.n" = .num tf.n) :
    callMethod (tfCx1 genTf cl) tfKeys tfCursorTo [.num ((tf.cursor : Int) - 1)] env =
      some (copyBack tfKeys (envOfTF (TextFieldCl.cursorTo tf (tf.cursor - 1)).1) env, .cmd (TextFieldCl.cursorTo tf (tf.cursor - 1)).2) := by
  have e : ((tf.cursor : Int) - 1) = ((tf.cursor - 1 : Nat) : Int) := by omega
  rw [e]
  exact frame_cursorTo cl tf (tf.cursor - 1) env h1 h2 h3

end handle2

/-- stage 1: run `HandleEvent` up to the calls of `checkChanged` -/
macro "hk1" "[" ts:Lean.Parser.Tactic.simpLemma,* "]" : tactic =>
  `(tactic| simp [tfHandleKey, runFn, tfHandleEvent, execB, execS, evalE, keyEnv, envOfTF, getV, setV, cmpV, nonEmptyV,
      tfCx4, doCall, evalArgs, E.isAbsent, tfCall3, tfCall2, tfCall1, recvOf, copyBack, TextFieldCl.handleKey, tfOfEnv, logOf,
      callback, callName, cmpV_eq_nat0, $ts,*])
/-- stage 2: `checkChanged` -/
macro "hk2" "[" ts:Lean.Parser.Tactic.simpLemma,* "]" : tactic =>
  `(tactic| simp [runFn, execB, execS, evalE, getV, setV, cmpV, doCall, evalArgs, E.isAbsent, tfCall2, recvOf, copyBack,
      callMethod, tfCheckChanged, tfCx3, tfOfEnv, logOf, TextFieldCl.checkChanged, callback, callName, $ts,*])


section branches
variable (cl : List A → List (List A)) (hs : ClSane cl) (tf : TextFieldCl.TF A)
  (text : List A) (home toEnd right left delR delL kill enter : Bool)

theorem handle_release :
    tfHandleKey genTf cl tf ⟨true, text, home, toEnd, right, left, delR, delL, kill, enter⟩ = some (tf, []) := by
  hk1 []

include hs in
theorem handle_text (ht : text ≠ []) :
    tfHandleKey genTf cl tf ⟨false, text, home, toEnd, right, left, delR, delL, kill, enter⟩ =
      some (TextFieldCl.insertString cl tf text, (TextFieldCl.checkChanged tf.value (TextFieldCl.insertString cl tf text)).map callName) := by
  have he : text.isEmpty = false := by cases text with | nil => exact absurd rfl ht | cons a t => rfl
  hk1 [frame_insert cl hs tf, he]
  by_cases hv : (TextFieldCl.insertString cl tf text).value = tf.value
  · hk2 [hv]; rw [← hv]
  · hk2 [hv]

theorem handle_home :
    tfHandleKey genTf cl tf ⟨false, [], true, toEnd, right, left, delR, delL, kill, enter⟩ = some ((TextFieldCl.cursorTo tf 0).1, []) := by
  hk1 [frame_cursorTo_zero cl tf]

theorem handle_end :
    tfHandleKey genTf cl tf ⟨false, [], false, true, right, left, delR, delL, kill, enter⟩ = some ((TextFieldCl.cursorTo tf tf.n).1, []) := by
  hk1 [frame_cursorTo cl tf]

theorem handle_right :
    tfHandleKey genTf cl tf ⟨false, [], false, false, true, left, delR, delL, kill, enter⟩ =
      some ((TextFieldCl.cursorTo tf (tf.cursor + 1)).1, []) := by
  hk1 [frame_cursorTo_succ cl tf]

theorem handle_left :
    tfHandleKey genTf cl tf ⟨false, [], false, false, false, true, delR, delL, kill, enter⟩ =
      some (if tf.cursor = 0 then tf else (TextFieldCl.cursorTo tf (tf.cursor - 1)).1, []) := by
  by_cases hc : tf.cursor = 0
  · hk1 [hc, cmpI]; rw [← hc]
  · hk1 [hc, cmpI, frame_cursorTo_pred cl tf hc]

include hs in
theorem handle_delRight :
    tfHandleKey genTf cl tf ⟨false, [], false, false, false, false, true, delL, kill, enter⟩ =
      some ((TextFieldCl.deleteRight cl tf).1, (TextFieldCl.checkChanged tf.value (TextFieldCl.deleteRight cl tf).1).map callName) := by
  hk1 [frame_delRight cl hs tf]
  by_cases hv : (TextFieldCl.deleteRight cl tf).1.value = tf.value
  · hk2 [hv]; rw [← hv]
  · hk2 [hv]

include hs in
theorem handle_delLeft :
    tfHandleKey genTf cl tf ⟨false, [], false, false, false, false, false, true, kill, enter⟩ =
      some ((TextFieldCl.deleteLeft cl tf).1, (TextFieldCl.checkChanged tf.value (TextFieldCl.deleteLeft cl tf).1).map callName) := by
  hk1 [frame_delLeft cl hs tf]
  by_cases hv : (TextFieldCl.deleteLeft cl tf).1.value = tf.value
  · hk2 [hv]; rw [← hv]
  · hk2 [hv]

include hs in
theorem handle_kill :
    tfHandleKey genTf cl tf ⟨false, [], false, false, false, false, false, false, true, enter⟩ =
      some ((TextFieldCl.killToEnd cl tf).1, (TextFieldCl.checkChanged tf.value (TextFieldCl.killToEnd cl tf).1).map callName) := by
  hk1 [frame_kill cl hs tf]
  by_cases hv : (TextFieldCl.killToEnd cl tf).1.value = tf.value
  · hk2 [hv]; rw [← hv]
  · hk2 [hv]

theorem handle_enter :
    tfHandleKey genTf cl tf ⟨false, [], false, false, false, false, false, false, false, true⟩ =
      some (TextFieldCl.reset tf, [("submit", tf.value)]) := by
  hk1 [frame_reset cl tf, TextFieldCl.reset]

theorem handle_none :
    tfHandleKey genTf cl tf ⟨false, [], false, false, false, false, false, false, false, false⟩ = some (tf, []) := by
  hk1 []

end branches

/-- `HandleEvent` for a key event, both callbacks installed: the translated body — the release
    test, the text test, the chain of `Matches` tests in source order, the calls into the API
    functions, `checkChanged`, the deferred `Reset` — is the model's `handleKey`, state and callbacks. -/
theorem handleEvent_body_eq_model (cl : List A → List (List A)) (hs : ClSane cl) (tf : TextFieldCl.TF A)
    (ev : TextField.KeyEv A) :
    tfHandleKey genTf cl tf ev = some ((TextFieldCl.handleKey cl tf ev).1, (TextFieldCl.handleKey cl tf ev).2.map callName) := by
  obtain ⟨rel, text, home, toEnd, right, left, delR, delL, kill, enter⟩ := ev
  cases rel
  · by_cases ht : text = []
    · subst ht
      cases home
      · cases toEnd
        · cases right
          · cases left
            · cases delR
              · cases delL
                · cases kill
                  · cases enter
                    · rw [handle_none]; simp [TextFieldCl.handleKey]
                    · rw [handle_enter]; simp [TextFieldCl.handleKey, callName]
                  · rw [handle_kill cl hs]; simp [TextFieldCl.handleKey]
                · rw [handle_delLeft cl hs]; simp [TextFieldCl.handleKey]
              · rw [handle_delRight cl hs]; simp [TextFieldCl.handleKey]
            · rw [handle_left]; by_cases hc : tf.cursor = 0 <;> simp [TextFieldCl.handleKey, hc]
          · rw [handle_right]; simp [TextFieldCl.handleKey]
        · rw [handle_end]; simp [TextFieldCl.handleKey]
      · rw [handle_home]; simp [TextFieldCl.handleKey]
    · have hl : text.length > 0 := by cases text with | nil => exact absurd rfl ht | cons a t => simp
      rw [handle_text cl hs _ _ _ _ _ _ _ _ _ _ ht]; simp [TextFieldCl.handleKey, hl]
  · rw [handle_release]; simp [TextFieldCl.handleKey]

/-- From the environment-level statement to the `TextField`-level API. -/
theorem tfApi_of_call (cl : List A → List (List A)) (f : String) (args : List (V A)) (tf tf' : TextFieldCl.TF A) (r : V A)
    (h : tfCall2 genTf cl f args (envOfTF tf) = some (envOfTF tf', r)) :
    tfApi genTf cl f args tf = some (tf', r) := by
  unfold tfApi
  rw [h]
  simp [tfOfEnv, envOfTF, getV]

theorem clSane_of_seg (cl : List A → List (List A)) (h : VaxisModel.Spec.Editor.Segmentation cl) : ClSane cl where
  nil := VaxisModel.Lemmas.EditorCl.cl_nil h
  cons := by
    intro s hs hc
    have := h.flatten s
    rw [hc] at this
    exact hs (by simpa using this.symm)
  flat := h.flatten

/-! ### histories through the translated bodies -/

open VaxisModel.Lemmas.EditorCl (TFOpC tfStepC tfRunC) in
/-- One operation (a key event through `HandleEvent`, or a call of the exported API) run by the
    interpreter on the translated bodies; `none` = the interpreter has no meaning for a statement. -/
def tfStepI (cl : List A → List (List A)) (tf : TextFieldCl.TF A) : TFOpC A → Option (TextFieldCl.TF A)
  | .key ev => (tfHandleKey genTf cl tf ev).map (·.1)
  | .ins s => (tfApi genTf cl "InsertStringAtCursor" [.str s] tf).map (·.1)
  | .cur i => (tfApi genTf cl "CursorTo" [.num i] tf).map (·.1)
  | .delr => (tfApi genTf cl "DeleteCharRightOfCursor" [] tf).map (·.1)
  | .dell => (tfApi genTf cl "DeleteCharLeftOfCursor" [] tf).map (·.1)
  | .kill => (tfApi genTf cl "DeleteCursorToEndOfLine" [] tf).map (·.1)
  | .reset => (tfApi genTf cl "Reset" [] tf).map (·.1)

open VaxisModel.Lemmas.EditorCl (TFOpC tfStepC tfRunC) in
def tfRunI (cl : List A → List (List A)) : TextFieldCl.TF A → List (TFOpC A) → Option (TextFieldCl.TF A)
  | tf, [] => some tf
  | tf, op :: ops =>
    match tfStepI cl tf op with
    | some tf' => tfRunI cl tf' ops
    | none => none

open VaxisModel.Lemmas.EditorCl (TFOpC tfStepC tfRunC) in
theorem tfStepI_eq (cl : List A → List (List A)) (hs : ClSane cl) (tf : TextFieldCl.TF A) (op : TFOpC A) :
    tfStepI cl tf op = some (tfStepC cl tf op).1 := by
  cases op with
  | key ev => simp [tfStepI, tfStepC, handleEvent_body_eq_model cl hs tf ev]
  | ins s =>
    have := tfApi_of_call cl "InsertStringAtCursor" [.str s] tf _ _ (by simpa [tfCall2] using insertString_body_eq_model cl hs tf s)
    simp [tfStepI, tfStepC, this]
  | cur i =>
    have := tfApi_of_call cl "CursorTo" [.num i] tf _ _ (by simpa [tfCall2, tfCall1] using cursorTo_body_eq_model cl tf i)
    simp [tfStepI, tfStepC, this]
  | delr =>
    have := tfApi_of_call cl "DeleteCharRightOfCursor" [] tf _ _ (by simpa [tfCall2, tfCall1] using deleteRight_body_eq_model cl hs tf)
    simp [tfStepI, tfStepC, this]
  | dell =>
    have := tfApi_of_call cl "DeleteCharLeftOfCursor" [] tf _ _ (by simpa [tfCall2, tfCall1] using deleteLeft_body_eq_model cl hs tf)
    simp [tfStepI, tfStepC, this]
  | kill =>
    have := tfApi_of_call cl "DeleteCursorToEndOfLine" [] tf _ _ (by simpa [tfCall2, tfCall1] using killToEnd_body_eq_model cl hs tf)
    simp [tfStepI, tfStepC, this]
  | reset =>
    have := tfApi_of_call cl "Reset" [] tf _ _ (by simpa [tfCall2, tfCall1] using reset_body_eq_model cl tf)
    simp [tfStepI, tfStepC, this]

open VaxisModel.Lemmas.EditorCl (TFOpC tfStepC tfRunC) in
theorem tfRunI_eq (cl : List A → List (List A)) (hs : ClSane cl) (ops : List (TFOpC A)) (tf : TextFieldCl.TF A) :
    tfRunI cl tf ops = some (tfRunC cl tf ops) := by
  induction ops generalizing tf with
  | nil => rfl
  | cons op ops ih => simp [tfRunI, tfRunC, tfStepI_eq cl hs, ih]

end VaxisModel.Lemmas.EdLangTFBody
