import VaxisModel.Lemmas.EdLangTFBase

/-! C17 — `TextField.checkChanged` as translated from the source is the model's `checkChanged`. -/
namespace VaxisModel.Lemmas.EdLangTFBody
open VaxisModel.Model.EdLang VaxisModel.Model.EdRun VaxisModel.Gen.EditorLang VaxisModel.Lemmas.EdLangTF VaxisModel.Model.EdGen
open VaxisModel.Model

variable {A : Type} [DecidableEq A]

/-- `checkChanged` (with the `OnChange` callback installed): the callback is called with the new
    value iff the value differs from `pre`. -/
theorem checkChanged_body_eq_model (cl : List A → List (List A)) (tf : TextFieldCl.TF A) (pre : List A) (cmd : Bool) (log : V A) :
    (callMethod (tfCx3 genTf cl) tfKeysCb tfCheckChanged [.cmd cmd, .str pre]
      (envOfTF tf ++ [("tf.OnChange", .opaque), ("tf.OnSubmit", .opaque), ("log", log)])).map (fun p => logOf (getV p.1 "log")) =
      some (logOf log ++ (TextFieldCl.checkChanged pre tf).map callName) := by
  by_cases h : tf.value = pre
  · simp [callMethod, runFn, tfCheckChanged, execB, execS, evalE, recvOf, tfKeys, tfKeysCb, envOfTF, getV, setV, copyBack, cmpV, h,
      TextFieldCl.checkChanged]
  · simp [callMethod, runFn, tfCheckChanged, execB, execS, evalE, recvOf, tfKeys, tfKeysCb, envOfTF, getV, setV, copyBack, cmpV, h,
      TextFieldCl.checkChanged, tfCx3, doCall, evalArgs, E.isAbsent, tfCall2, callback, logOf, callName]

end VaxisModel.Lemmas.EdLangTFBody
