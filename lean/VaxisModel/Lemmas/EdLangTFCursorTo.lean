import VaxisModel.Lemmas.EdLangTFBase

/-! C17 — `TextField.CursorTo` as translated from the source is the model's `cursorTo`. -/
namespace VaxisModel.Lemmas.EdLangTFBody
open VaxisModel.Model.EdLang VaxisModel.Model.EdRun VaxisModel.Gen.EditorLang VaxisModel.Lemmas.EdLangTF VaxisModel.Model.EdGen
open VaxisModel.Model

variable {A : Type} [DecidableEq A]

/-- `CursorTo` -/
theorem cursorTo_body_eq_model (cl : List A → List (List A)) (tf : TextFieldCl.TF A) (i : Nat) :
    callMethod (tfCx1 genTf cl) tfKeys tfCursorTo [.num i] (envOfTF tf) =
      some (envOfTF (TextFieldCl.cursorTo tf i).1, .cmd (TextFieldCl.cursorTo tf i).2) := by
  obtain ⟨v, c, n⟩ := tf
  by_cases h1 : n < i
  · by_cases h2 : n = c
    · subst h2
      simp [callMethod, runFn, tfCursorTo, execB, execS, evalE, recvOf, tfKeys, envOfTF, getV, setV,
        copyBack, TextFieldCl.cursorTo, cmpV_eq_nat, cmpV_gt_nat, cmpV_lt_nat, h1]
    · simp [callMethod, runFn, tfCursorTo, execB, execS, evalE, recvOf, tfKeys, envOfTF, getV, setV,
        copyBack, TextFieldCl.cursorTo, cmpV_eq_nat, cmpV_gt_nat, cmpV_lt_nat, h1, h2, Ne.symm h2]
  · by_cases h2 : i = c
    · subst h2
      simp [callMethod, runFn, tfCursorTo, execB, execS, evalE, recvOf, tfKeys, envOfTF, getV, setV,
        copyBack, TextFieldCl.cursorTo, cmpV_eq_nat, cmpV_gt_nat, cmpV_lt_nat, h1]
    · simp [callMethod, runFn, tfCursorTo, execB, execS, evalE, recvOf, tfKeys, envOfTF, getV, setV,
        copyBack, TextFieldCl.cursorTo, cmpV_eq_nat, cmpV_gt_nat, cmpV_lt_nat, h1, h2, Ne.symm h2]
/-- `tfCursorTo` called from a larger environment -/
theorem frame_cursorTo (cl : List A → List (List A)) (tf : TextFieldCl.TF A) (i : Nat) (env : Env A)
    (h1 : getV env "tf.Value" = .str tf.value) (h2 : getV env "tf.cursor" = .num tf.cursor) (h3 : getV env "tf.n" = .num tf.n) :
    callMethod (tfCx1 genTf cl) tfKeys tfCursorTo [.num i] env =
      some (copyBack tfKeys (envOfTF (TextFieldCl.cursorTo tf i).1) env, .cmd (TextFieldCl.cursorTo tf i).2) :=
  callMethod_frame _ _ _ tf _ _ env (cursorTo_body_eq_model cl tf i) h1 h2 h3

theorem frame_cursorTo_zero (cl : List A → List (List A)) (tf : TextFieldCl.TF A) (env : Env A)
    (h1 : getV env "tf.Value" = .str tf.value) (h2 : getV env "tf.cursor" = .num tf.cursor) (h3 : getV env "tf.n" = .num tf.n) :
    callMethod (tfCx1 genTf cl) tfKeys tfCursorTo [.num 0] env =
      some (copyBack tfKeys (envOfTF (TextFieldCl.cursorTo tf 0).1) env, .cmd (TextFieldCl.cursorTo tf 0).2) :=
  frame_cursorTo cl tf 0 env h1 h2 h3

theorem frame_cursorTo_succ (cl : List A → List (List A)) (tf : TextFieldCl.TF A) (env : Env A)
    (h1 : getV env "tf.Value" = .str tf.value) (h2 : getV env "tf.cursor" = .num tf.cursor) (h3 : getV env "tf.n" = .num tf.n) :
    callMethod (tfCx1 genTf cl) tfKeys tfCursorTo [.num ((tf.cursor : Int) + 1)] env =
      some (copyBack tfKeys (envOfTF (TextFieldCl.cursorTo tf (tf.cursor + 1)).1) env, .cmd (TextFieldCl.cursorTo tf (tf.cursor + 1)).2) :=
  frame_cursorTo cl tf (tf.cursor + 1) env h1 h2 h3

theorem frame_cursorTo_pred (cl : List A → List (List A)) (tf : TextFieldCl.TF A) (hc : tf.cursor ≠ 0) (env : Env A)
    (h1 : getV env "tf.Value" = .str tf.value) (h2 : getV env "tf.cursor" = .num tf.cursor) (h3 : getV env "tf.n" = .num tf.n) :
    callMethod (tfCx1 genTf cl) tfKeys tfCursorTo [.num ((tf.cursor : Int) - 1)] env =
      some (copyBack tfKeys (envOfTF (TextFieldCl.cursorTo tf (tf.cursor - 1)).1) env, .cmd (TextFieldCl.cursorTo tf (tf.cursor - 1)).2) := by
  have e : ((tf.cursor : Int) - 1) = ((tf.cursor - 1 : Nat) : Int) := by omega
  rw [e]
  exact frame_cursorTo cl tf (tf.cursor - 1) env h1 h2 h3

end VaxisModel.Lemmas.EdLangTFBody
