import VaxisModel.Lemmas.EdLangTFBase

/-! C17 — `TextField.DeleteCharLeftOfCursor` as translated from the source is the model's `deleteLeft`. -/
namespace VaxisModel.Lemmas.EdLangTFBody
open VaxisModel.Model.EdLang VaxisModel.Model.EdRun VaxisModel.Gen.EditorLang VaxisModel.Lemmas.EdLangTF VaxisModel.Model.EdGen
open VaxisModel.Model

variable {A : Type} [DecidableEq A]

/-- `DeleteCharLeftOfCursor` -/
theorem deleteLeft_body_eq_model (cl : List A → List (List A)) (hs : ClSane cl) (tf : TextFieldCl.TF A) :
    callMethod (tfCx1 genTf cl) tfKeys tfDeleteCharLeftOfCursor [] (envOfTF tf) =
      some (envOfTF (TextFieldCl.deleteLeft cl tf).1, .cmd (TextFieldCl.deleteLeft cl tf).2) := by
  obtain ⟨v, c, n⟩ := tf
  by_cases h : c = 0
  · subst h
    simp [callMethod, runFn, tfDeleteCharLeftOfCursor, execB, execS, evalE, recvOf, tfKeys, envOfTF,
      getV, setV, copyBack, TextFieldCl.deleteLeft, cmpV, cmpI]
  · have hw := walk_left c (cl v) (.str []) (.str v) 0 []
    simp at hw
    simp [callMethod, runFn, tfDeleteCharLeftOfCursor, execB, execS, evalE, recvOf, tfKeys, envOfTF,
      getV, setV, copyBack, TextFieldCl.deleteLeft, cmpV_eq_nat0, h, E.isAbsent, tfCx1, doCall, evalArgs]
    rw [clusterLoop cl hs (mkDel ⟨v, c, n⟩) (stepLeft c) (l := cl v) (c := .str []) (r := .str v) (i := 0) (next := [])]
    · simp [getV, setV, count_body_eq_model cl hs, TextFieldCl.count, hw]
      omega
    · intro c r i next; simp [getV]
    · intro c' r g rest i next hr
      by_cases hi : i + 1 = c
      · rcases hr with rfl | ⟨s', rfl, hcl⟩
        · simp [stepLeft, Continues, getV, setV, hi, cmpV, cmpI]
        · simp [stepLeft, Continues, getV, setV, hi, cmpV, cmpI, hcl]
      · rcases hr with rfl | ⟨s', rfl, hcl⟩
        · simp [stepLeft, Continues, getV, setV, hi, cmpV, cmpI]
        · simp [stepLeft, Continues, getV, setV, hi, cmpV, cmpI, hcl]
    · intro e; rfl
    · exact Or.inr ⟨_, rfl, rfl⟩
    · simp [envSize, vSize]; omega
/-- `tfDeleteCharLeftOfCursor` called from a larger environment -/
theorem frame_delLeft (cl : List A → List (List A)) (hs : ClSane cl) (tf : TextFieldCl.TF A) (env : Env A)
    (h1 : getV env "tf.Value" = .str tf.value) (h2 : getV env "tf.cursor" = .num tf.cursor) (h3 : getV env "tf.n" = .num tf.n) :
    callMethod (tfCx1 genTf cl) tfKeys tfDeleteCharLeftOfCursor [] env =
      some (copyBack tfKeys (envOfTF (TextFieldCl.deleteLeft cl tf).1) env, .cmd (TextFieldCl.deleteLeft cl tf).2) :=
  callMethod_frame _ _ _ tf _ _ env (deleteLeft_body_eq_model cl hs tf) h1 h2 h3

end VaxisModel.Lemmas.EdLangTFBody
