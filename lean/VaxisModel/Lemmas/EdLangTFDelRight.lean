import VaxisModel.Lemmas.EdLangTFBase

/-! C17 — `TextField.DeleteCharRightOfCursor` as translated from the source is the model's `deleteRight`. -/
namespace VaxisModel.Lemmas.EdLangTFBody
open VaxisModel.Model.EdLang VaxisModel.Model.EdRun VaxisModel.Gen.EditorLang VaxisModel.Lemmas.EdLangTF VaxisModel.Model.EdGen
open VaxisModel.Model

variable {A : Type} [DecidableEq A]

/-- `DeleteCharRightOfCursor` -/
theorem deleteRight_body_eq_model (cl : List A → List (List A)) (hs : ClSane cl) (tf : TextFieldCl.TF A) :
    callMethod (tfCx1 genTf cl) tfKeys tfDeleteCharRightOfCursor [] (envOfTF tf) =
      some (envOfTF (TextFieldCl.deleteRight cl tf).1, .cmd (TextFieldCl.deleteRight cl tf).2) := by
  obtain ⟨v, c, n⟩ := tf
  by_cases h : n = c
  · subst h
    simp [callMethod, runFn, tfDeleteCharRightOfCursor, execB, execS, evalE, recvOf, tfKeys, envOfTF,
      getV, setV, copyBack, TextFieldCl.deleteRight, cmpV_eq_nat]
  · have hw := walk_right c (cl v) (.str []) (.str v) 0 []
    simp at hw
    simp [callMethod, runFn, tfDeleteCharRightOfCursor, execB, execS, evalE, recvOf, tfKeys, envOfTF,
      getV, setV, copyBack, TextFieldCl.deleteRight, cmpV_eq_nat, h, Ne.symm h, E.isAbsent, tfCx1, doCall, evalArgs]
    rw [clusterLoop cl hs (mkDel ⟨v, c, n⟩) (stepRight c) (l := cl v) (c := .str []) (r := .str v) (i := 0) (next := [])]
    · simp [getV, setV, count_body_eq_model cl hs, TextFieldCl.count, hw]
    · intro c r i next; simp [getV]
    · intro c' r g rest i next hr
      by_cases hi : i = c
      · rcases hr with rfl | ⟨s', rfl, hcl⟩
        · simp [stepRight, Continues, getV, setV, hi, cmpV, cmpI]
        · simp [stepRight, Continues, getV, setV, hi, cmpV, cmpI, hcl]
      · rcases hr with rfl | ⟨s', rfl, hcl⟩
        · simp [stepRight, Continues, getV, setV, hi, cmpV, cmpI]
        · simp [stepRight, Continues, getV, setV, hi, cmpV, cmpI, hcl]
    · intro e; rfl
    · exact Or.inr ⟨_, rfl, rfl⟩
    · simp [envSize, vSize]; omega
/-- `tfDeleteCharRightOfCursor` called from a larger environment -/
theorem frame_delRight (cl : List A → List (List A)) (hs : ClSane cl) (tf : TextFieldCl.TF A) (env : Env A)
    (h1 : getV env "tf.Value" = .str tf.value) (h2 : getV env "tf.cursor" = .num tf.cursor) (h3 : getV env "tf.n" = .num tf.n) :
    callMethod (tfCx1 genTf cl) tfKeys tfDeleteCharRightOfCursor [] env =
      some (copyBack tfKeys (envOfTF (TextFieldCl.deleteRight cl tf).1) env, .cmd (TextFieldCl.deleteRight cl tf).2) :=
  callMethod_frame _ _ _ tf _ _ env (deleteRight_body_eq_model cl hs tf) h1 h2 h3

end VaxisModel.Lemmas.EdLangTFBody
