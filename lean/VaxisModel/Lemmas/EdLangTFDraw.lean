import VaxisModel.Lemmas.EdLangTFBase

/-! C17 — `TextField.Draw` as translated from the source computes the model's cursor column. -/
namespace VaxisModel.Lemmas.EdLangTFBody
open VaxisModel.Model.EdLang VaxisModel.Model.EdRun VaxisModel.Gen.EditorLang VaxisModel.Lemmas.EdLangTF VaxisModel.Model.EdGen
open VaxisModel.Model

variable {A : Type} [DecidableEq A]

@[simp] theorem genTf_draw : genTf.draw = tfDraw := rfl
@[simp] theorem genTf_drawKey : genTf.drawKey = "l0.Cursor.Col" := rfl

/-- One pass over the clusters with an arbitrary loop state (no `break`). -/
def walkS {σ : Type} (stepF : σ → List A → σ) : List (List A) → V A → V A → σ → V A × V A × σ
  | [], c, r, s => (c, r, s)
  | g :: rest, _, _, s => walkS stepF rest (.str g) (.chars rest) (stepF s g)

/-- The cluster loop for any loop state `σ`: environments of the shape `mk cluster rest state`. -/
theorem clusterLoopS {σ : Type} (cl : List A → List (List A)) (hs : ClSane cl)
    (mk : V A → V A → σ → Env A) (stepF : σ → List A → σ)
    (cond : Env A → V A) (body post : Env A → Res A)
    (l : List (List A)) (r c : V A) (s : σ) (k : Nat)
    (hcond : ∀ c r s, cond (mk c r s) = nonEmptyV r)
    (hbody : ∀ c r g rest s, Rep cl r (g :: rest) → Continues (body (mk c r s)) (mk (.str g) (.chars rest) (stepF s g)))
    (hpost : ∀ e, post e = .ok e)
    (hr : Rep cl r l) (hk : l.length < k) :
    loopN cond body post k (mk c r s) =
      .ok (mk (walkS stepF l c r s).1 (walkS stepF l c r s).2.1 (walkS stepF l c r s).2.2) := by
  induction l generalizing r c s k with
  | nil =>
    obtain ⟨k', rfl⟩ : ∃ k', k = k' + 1 := ⟨k - 1, by simp at hk; omega⟩
    have hc : cond (mk c r s) = .bool false := by
      rw [hcond]
      rcases hr with rfl | ⟨t, rfl, hcl⟩
      · simp [nonEmptyV]
      · have : t = [] := by
          cases t with
          | nil => rfl
          | cons a u => exact absurd hcl (hs.cons _ (by simp))
        simp [nonEmptyV, this]
    simp [loopN, hc, walkS]
  | cons g rest ih =>
    obtain ⟨k', rfl⟩ : ∃ k', k = k' + 1 := ⟨k - 1, by simp at hk; omega⟩
    have hc : cond (mk c r s) = .bool true := by
      rw [hcond]
      rcases hr with rfl | ⟨t, rfl, hcl⟩
      · simp [nonEmptyV]
      · cases t with
        | nil => rw [hs.nil] at hcl; cases hcl
        | cons a u => simp [nonEmptyV]
    have hb := hbody c r g rest s hr
    have hrec := ih (.chars rest) (.str g) (stepF s g) k' (Or.inl rfl) (by simp at hk; omega)
    cases hb with
    | inl hb => simp [loopN, hc, hb, hpost, walkS, hrec]
    | inr hb => simp [loopN, hc, hb, hpost, walkS, hrec]

/-- The loop state of `Draw`: counter, column, the cursor column so far, the last character width seen (the loop
    variable of the inner loop, once bound). -/
abbrev DSt := Int × Int × Int × Option Int

def lastW (o : Option Int) : List Int → Option Int
  | [] => o
  | w :: ws => lastW (some w) ws

def stepDraw (drawW : List A → List Int) (cursor : Int) : DSt → List A → DSt :=
  fun s g =>
    let col := s.2.1 + (drawW g).sum
    (s.1 + 1, col, (if s.1 + 1 = cursor then col else s.2.2.1), lastW s.2.2.2 (drawW g))

/-- The inner loop: `col += uint16(char.Width)` for every character the cluster is drawn as. -/
theorem rangeWidths (x : String) (mkR : Int → Option Int → Env A) (body : Env A → Res A)
    (hbody : ∀ col o w, body (setV x (.num w) (mkR col o)) = .ok (mkR (col + w) (some w))) :
    ∀ (ws : List Int) (col : Int) (o : Option Int),
      rangeN x body (ws.map V.num) (mkR col o) = .ok (mkR (col + ws.sum) (lastW o ws)) := by
  intro ws
  induction ws with
  | nil => intro col o; simp [rangeN, lastW]
  | cons w ws ih =>
    intro col o
    simp only [List.map_cons, rangeN, hbody, List.sum_cons, lastW]
    rw [ih]
    congr 2
    omega

/-- The environment of the loops of `Draw`. -/
def mkD (tf : TextFieldCl.TF A) (w h : Int) : V A → V A → DSt → Env A := fun c r s =>
  match s.2.2.2 with
  | none =>
    [("tf.Value", .str tf.value), ("tf.cursor", .num tf.cursor), ("tf.n", .num tf.n), ("tf.Style", .opaque),
     ("p0.Max.Width", .num w), ("p0.Max.Height", .num h), ("p0", .opaque), ("l0", .opaque), ("l0.Cursor.Row", .num 0),
     ("l0.Cursor.Col", .num s.2.2.1), ("l0.Cursor.Shape", .opaque), ("l1", .num s.1), ("l2", .num s.2.1), ("l3", c), ("l4", r),
     ("l5", .num (-1))]
  | some lw =>
    [("tf.Value", .str tf.value), ("tf.cursor", .num tf.cursor), ("tf.n", .num tf.n), ("tf.Style", .opaque),
     ("p0.Max.Width", .num w), ("p0.Max.Height", .num h), ("p0", .opaque), ("l0", .opaque), ("l0.Cursor.Row", .num 0),
     ("l0.Cursor.Col", .num s.2.2.1), ("l0.Cursor.Shape", .opaque), ("l1", .num s.1), ("l2", .num s.2.1), ("l3", c), ("l4", r),
     ("l5", .num (-1)), ("l6", .num lw), ("l7", .opaque)]

/-- `Draw` on a surface with no cell: no cursor. -/
theorem draw_zero (cl : List A → List (List A)) (drawW : List A → List Int) (tf : TextFieldCl.TF A) (w h : Int)
    (hz : w = 0 ∨ h = 0) : tfDrawCol genTf cl drawW tf w h = some none := by
  rcases hz with rfl | rfl
  · simp [tfDrawCol, runFn, tfDraw, execB, execS, evalE, envOfTF, getV, setV, cmpV, cmpI]
  · by_cases hw : w = 0 <;>
    simp [tfDrawCol, runFn, tfDraw, execB, execS, evalE, envOfTF, getV, setV, cmpV, cmpI, hw]

/-- What the translated `Draw` computes on a surface with cells: the loop state after one pass over the clusters. -/
theorem draw_run (cl : List A → List (List A)) (hs : ClSane cl) (drawW : List A → List Int) (tf : TextFieldCl.TF A) (w h : Int)
    (hw0 : w ≠ 0) (hh0 : h ≠ 0) :
    tfDrawCol genTf cl drawW tf w h =
      let s := (walkS (stepDraw drawW tf.cursor) (cl tf.value) (.str []) (.str tf.value) ((0, 0, 0, none) : DSt)).2.2
      some (some (if s.1 < tf.cursor then s.2.1 else s.2.2.1)) := by
  simp [tfDrawCol, runFn, tfDraw, execB, execS, evalE, envOfTF, getV, setV, cmpV, cmpI, hw0, hh0, E.isAbsent]
  have henv : mkD tf w h (.str []) (.str tf.value) ((0, 0, 0, none) : DSt) =
      [("tf.Value", .str tf.value), ("tf.cursor", .num tf.cursor), ("tf.n", .num tf.n), ("tf.Style", .opaque),
       ("p0.Max.Width", .num w), ("p0.Max.Height", .num h), ("p0", .opaque), ("l0", .opaque), ("l0.Cursor.Row", .num 0),
       ("l0.Cursor.Col", .num 0), ("l0.Cursor.Shape", .opaque), ("l1", .num 0), ("l2", .num 0), ("l3", .str []), ("l4", .str tf.value),
       ("l5", .num (-1))] := rfl
  rw [← henv]
  rw [clusterLoopS cl hs (mkD tf w h) (stepDraw drawW tf.cursor) (l := cl tf.value)]
  · generalize walkS (stepDraw drawW tf.cursor) (cl tf.value) (.str []) (.str tf.value) ((0, 0, 0, none) : DSt) = R
    obtain ⟨c', r', i', col', cur', o'⟩ := R
    by_cases hlt : i' < tf.cursor
    · cases o' <;> simp [mkD, getV, setV, cmpV, cmpI, hlt]
    · cases o' <;> simp [mkD, getV, setV, cmpV, cmpI, hlt]
  · intro c r s
    obtain ⟨i, col, cur, o⟩ := s
    cases o <;> simp [mkD, getV]
  · intro c r g rest s hr
    obtain ⟨i, col, cur, o⟩ := s
    have inner : ∀ (o : Option Int) (F : Env A → Res A),
        (∀ col' o' w', F (setV "l6" (.num w') (mkD tf w h (.str g) (.chars rest) (i, col', cur, o'))) =
          .ok (mkD tf w h (.str g) (.chars rest) (i, col' + w', cur, some w'))) →
        rangeN "l6" F ((drawW g).map V.num) (mkD tf w h (.str g) (.chars rest) (i, col, cur, o)) =
          .ok (mkD tf w h (.str g) (.chars rest) (i, col + (drawW g).sum, cur, lastW o (drawW g))) := by
      intro o F hF
      exact rangeWidths "l6" (fun col' o' => mkD tf w h (.str g) (.chars rest) (i, col', cur, o')) F hF (drawW g) col o
    rcases hr with rfl | ⟨s', rfl, hcl⟩
    · cases o with
      | none =>
        have inner' := inner none
        simp only [mkD] at inner'
        simp [mkD, getV, setV, Continues]
        rw [inner' _ ?_]
        · by_cases hc : i + 1 = tf.cursor
          · cases hl : lastW none (drawW g) <;> simp [getV, setV, stepDraw, cmpV, cmpI, hc, hl, mkD]
          · cases hl : lastW none (drawW g) <;> simp [getV, setV, stepDraw, cmpV, cmpI, hc, hl, mkD]
        · intro col' o' w'
          cases o' <;> simp [getV, setV]
      | some lw =>
        have inner' := inner (some lw)
        simp only [mkD] at inner'
        simp [mkD, getV, setV, Continues]
        rw [inner' _ ?_]
        · by_cases hc : i + 1 = tf.cursor
          · cases hl : lastW (some lw) (drawW g) <;> simp [getV, setV, stepDraw, cmpV, cmpI, hc, hl, mkD]
          · cases hl : lastW (some lw) (drawW g) <;> simp [getV, setV, stepDraw, cmpV, cmpI, hc, hl, mkD]
        · intro col' o' w'
          cases o' <;> simp [getV, setV]
    · cases o with
      | none =>
        have inner' := inner none
        simp only [mkD] at inner'
        simp [mkD, getV, setV, Continues, hcl]
        rw [inner' _ ?_]
        · by_cases hc : i + 1 = tf.cursor
          · cases hl : lastW none (drawW g) <;> simp [getV, setV, stepDraw, cmpV, cmpI, hc, hl, mkD]
          · cases hl : lastW none (drawW g) <;> simp [getV, setV, stepDraw, cmpV, cmpI, hc, hl, mkD]
        · intro col' o' w'
          cases o' <;> simp [getV, setV]
      | some lw =>
        have inner' := inner (some lw)
        simp only [mkD] at inner'
        simp [mkD, getV, setV, Continues, hcl]
        rw [inner' _ ?_]
        · by_cases hc : i + 1 = tf.cursor
          · cases hl : lastW (some lw) (drawW g) <;> simp [getV, setV, stepDraw, cmpV, cmpI, hc, hl, mkD]
          · cases hl : lastW (some lw) (drawW g) <;> simp [getV, setV, stepDraw, cmpV, cmpI, hc, hl, mkD]
        · intro col' o' w'
          cases o' <;> simp [getV, setV]
  · intro e; rfl
  · exact Or.inr ⟨_, rfl, rfl⟩
  · simp [mkD, envSize, vSize]; omega

/-! ### against the model's `uint16` arithmetic -/

theorem sum_nonneg (ws : List Int) (h : ∀ w ∈ ws, 0 ≤ w) : 0 ≤ ws.sum := by
  induction ws with
  | nil => simp
  | cons w ws ih =>
    have h1 := h w (by simp)
    have h2 := ih (fun x hx => h x (by simp [hx]))
    simp; omega

theorem drawChars_sum (ws : List Int) (h : ∀ w ∈ ws, 0 ≤ w) (a : Nat) :
    TextField.drawChars (ws.map Int.toNat) (UInt16.ofNat a) = UInt16.ofNat (a + ws.sum.toNat) := by
  induction ws generalizing a with
  | nil => simp [TextField.drawChars]
  | cons w ws ih =>
    have h1 := h w (by simp)
    have h2 : ∀ x ∈ ws, 0 ≤ x := fun x hx => h x (by simp [hx])
    have h3 := sum_nonneg ws h2
    simp only [List.map_cons, TextField.drawChars, List.foldl_cons, List.sum_cons]
    rw [← UInt16.ofNat_add]
    have := ih h2 (a + w.toNat)
    simp only [TextField.drawChars] at this
    rw [this]
    congr 1
    omega

/-- The integer loop state against the model's `drawLoop` (columns modulo 65536). -/
theorem walkS_drawLoop (drawW : List A → List Int) (hw : ∀ g, ∀ w ∈ drawW g, 0 ≤ w) (cursor : Nat) :
    ∀ (l : List (List A)) (c r : V A) (i col cur : Nat) (o : Option Int),
      let s := (walkS (stepDraw drawW (cursor : Int)) l c r (((i : Int), (col : Int), (cur : Int), o) : DSt)).2.2
      0 ≤ s.1 ∧ 0 ≤ s.2.1 ∧ 0 ≤ s.2.2.1 ∧
      TextField.drawLoop (fun g => (drawW g).map Int.toNat) cursor l i (UInt16.ofNat col) (UInt16.ofNat cur) =
        (s.1.toNat, UInt16.ofNat s.2.1.toNat, UInt16.ofNat s.2.2.1.toNat) := by
  intro l
  induction l with
  | nil => intro c r i col cur o; simp [walkS, TextField.drawLoop]
  | cons g rest ih =>
    intro c r i col cur o
    have hs := sum_nonneg (drawW g) (hw g)
    have e1 : ((col : Int) + (drawW g).sum) = ((col + (drawW g).sum.toNat : Nat) : Int) := by omega
    have e2 : ((i : Int) + 1) = ((i + 1 : Nat) : Int) := by omega
    simp only [walkS, stepDraw, TextField.drawLoop, drawChars_sum (drawW g) (hw g) col]
    by_cases hc : i + 1 = cursor
    · have hc' : (i : Int) + 1 = (cursor : Int) := by omega
      simp only [hc, hc', if_true]
      rw [e1]
      have := ih (.str g) (.chars rest) (i + 1) (col + (drawW g).sum.toNat) (col + (drawW g).sum.toNat) (lastW o (drawW g))
      rw [hc] at this
      exact this
    · have hc' : ¬ ((i : Int) + 1 = (cursor : Int)) := by omega
      simp only [hc, hc', if_false]
      rw [e1, e2]
      exact ih (.str g) (.chars rest) (i + 1) (col + (drawW g).sum.toNat) cur (lastW o (drawW g))

/-- `Draw`: the cursor column the translated body computes is, modulo 65536, the model's `drawCursorCol`. -/
theorem draw_body_eq_model (cl : List A → List (List A)) (hs : ClSane cl) (drawW : List A → List Int)
    (hw : ∀ g, ∀ w ∈ drawW g, 0 ≤ w) (tf : TextFieldCl.TF A) (w h : Int) (hw0 : w ≠ 0) (hh0 : h ≠ 0) :
    ∃ c : Int, 0 ≤ c ∧ tfDrawCol genTf cl drawW tf w h = some (some c) ∧
      UInt16.ofNat c.toNat = TextFieldCl.drawCursorCol cl (fun g => (drawW g).map Int.toNat) tf := by
  rw [draw_run cl hs drawW tf w h hw0 hh0]
  have key := walkS_drawLoop drawW hw tf.cursor (cl tf.value) (.str []) (.str tf.value) 0 0 0 none
  simp only [Int.natCast_zero] at key
  obtain ⟨k1, k2, k3, k4⟩ := key
  generalize (walkS (stepDraw drawW (tf.cursor : Int)) (cl tf.value) (.str []) (.str tf.value) ((0, 0, 0, none) : DSt)).2.2 = s at *
  refine ⟨_, ?_, rfl, ?_⟩
  · split <;> assumption
  · simp only [TextFieldCl.drawCursorCol, TextField.drawCursorCol]
    have k4' : TextField.drawLoop (fun g => (drawW g).map Int.toNat) tf.cursor (cl tf.value) 0 0 0 =
        (s.1.toNat, UInt16.ofNat s.2.1.toNat, UInt16.ofNat s.2.2.1.toNat) := by simpa using k4
    rw [k4']
    by_cases hlt : s.1 < tf.cursor
    · have : s.1.toNat < tf.cursor := by omega
      simp [hlt, this]
    · have : ¬ s.1.toNat < tf.cursor := by omega
      simp [hlt, this]

end VaxisModel.Lemmas.EdLangTFBody
