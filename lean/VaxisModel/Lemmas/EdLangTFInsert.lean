import VaxisModel.Lemmas.EdLangTFBase

/-! C17 — `TextField.InsertStringAtCursor` / `insertStringAtCursor` as translated from the source are the model's `insertString`. -/
namespace VaxisModel.Lemmas.EdLangTFBody
open VaxisModel.Model.EdLang VaxisModel.Model.EdRun VaxisModel.Gen.EditorLang VaxisModel.Lemmas.EdLangTF VaxisModel.Model.EdGen
open VaxisModel.Model

variable {A : Type} [DecidableEq A]

/-- The environment of the loop of `insertStringAtCursor`. -/
abbrev mkIns (v : List A) (n : Nat) (s : List A) : V A → V A → V A → Int → List A → Env A := fun cur c r i next =>
  [("tf.Value", .str v), ("tf.cursor", cur), ("tf.n", .num n), ("p0", .str s), ("l0", c), ("l1", r), ("l2", .num (-1)),
   ("l3", .num i), ("l4", .str next)]
/-- `insertStringAtCursor` (the unexported helper: the loop, the cursor, the value; `tf.n` untouched) -/
theorem insertLoop_body_eq_model (cl : List A → List (List A)) (hs : ClSane cl) (tf : TextFieldCl.TF A) (s : List A) :
    tfCall1 genTf cl "insertStringAtCursor" [.str s]
        [("tf.Value", .str tf.value), ("tf.cursor", .num tf.cursor), ("tf.n", .num tf.n), ("p0", .str s)] =
      some ([("tf.Value", .str (TextFieldCl.insertString cl tf s).value), ("tf.cursor", .num (TextFieldCl.insertString cl tf s).cursor),
             ("tf.n", .num tf.n), ("p0", .str s)], .opaque) := by
  obtain ⟨v, c, n⟩ := tf
  have hw := walkIns_model c s (cl v) (.str []) (.str v) 0 [] [] rfl
  simp at hw
  simp [tfCall1, callMethod, runFn, tfInsertLoop, execB, execS, evalE, recvOf, tfKeys, envOfTF,
    getV, setV, copyBack, TextFieldCl.insertString, E.isAbsent, tfCx1, doCall, evalArgs]
  rw [insertLoopSpec cl (mkIns v n s) c s (l := cl v) (c := .str []) (r := .str v) (i := 0) (next := [])]
  · simp [getV, setV, TextFieldCl.count, hw]
  · intro e; rfl
  · intro c' r l i next hr
    rcases hr with rfl | ⟨s', rfl, hcl⟩
    · cases l with
      | nil => simp [getV, setV, nonEmptyV, count_body_eq_model cl hs]
      | cons g rest =>
        by_cases hi : i < c
        · simp [getV, setV, nonEmptyV, hi, cmpV, cmpI, Continues]
        · simp [getV, setV, nonEmptyV, hi, cmpV, cmpI, count_body_eq_model cl hs]
    · cases l with
      | nil =>
        have : s' = [] := by have := hs.flat s'; rw [hcl] at this; simpa using this.symm
        subst this
        simp [getV, setV, nonEmptyV, count_body_eq_model cl hs]
      | cons g rest =>
        have hne : s' ≠ [] := by intro h; subst h; rw [hs.nil] at hcl; cases hcl
        have hfl : s' = g ++ rest.flatten := by have := hs.flat s'; rw [hcl] at this; simpa using this.symm
        have he : s'.isEmpty = false := by cases s' with | nil => exact absurd rfl hne | cons a t => rfl
        by_cases hi : i < c
        · simp [getV, setV, nonEmptyV, hi, cmpV, cmpI, Continues, hcl, he]
        · simp [getV, setV, nonEmptyV, hi, cmpV, cmpI, count_body_eq_model cl hs, he]
          exact hfl
  · intro e; rfl
  · exact Or.inr ⟨_, rfl, rfl⟩
  · simp [envSize, vSize]; omega
/-- `InsertStringAtCursor` -/
theorem insertString_body_eq_model (cl : List A → List (List A)) (hs : ClSane cl) (tf : TextFieldCl.TF A) (s : List A) :
    callMethod (tfCx2 genTf cl) tfKeys tfInsertStringAtCursor [.str s] (envOfTF tf) =
      some (envOfTF (TextFieldCl.insertString cl tf s), .cmd true) := by
  simp [callMethod, runFn, tfInsertStringAtCursor, execB, execS, evalE, recvOf, tfKeys, envOfTF,
    getV, setV, copyBack, E.isAbsent, tfCx2, doCall, evalArgs, insertLoop_body_eq_model cl hs, tfCall1_count,
    count_body_eq_model cl hs]
  simp [TextFieldCl.insertString, TextFieldCl.count]
/-- `tfInsertStringAtCursor` called from a larger environment -/
theorem frame_insert (cl : List A → List (List A)) (hs : ClSane cl) (tf : TextFieldCl.TF A) (s : List A) (env : Env A)
    (h1 : getV env "tf.Value" = .str tf.value) (h2 : getV env "tf.cursor" = .num tf.cursor) (h3 : getV env "tf.n" = .num tf.n) :
    callMethod (tfCx2 genTf cl) tfKeys tfInsertStringAtCursor [.str s] env =
      some (copyBack tfKeys (envOfTF (TextFieldCl.insertString cl tf s)) env, .cmd true) :=
  callMethod_frame _ _ _ tf _ _ env (insertString_body_eq_model cl hs tf s) h1 h2 h3

end VaxisModel.Lemmas.EdLangTFBody
