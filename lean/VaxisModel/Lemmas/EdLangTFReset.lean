import VaxisModel.Lemmas.EdLangTFBase

/-! C17 — `TextField.Reset` as translated from the source is the model's `reset`. -/
namespace VaxisModel.Lemmas.EdLangTFBody
open VaxisModel.Model.EdLang VaxisModel.Model.EdRun VaxisModel.Gen.EditorLang VaxisModel.Lemmas.EdLangTF VaxisModel.Model.EdGen
open VaxisModel.Model

variable {A : Type} [DecidableEq A]

/-- `Reset` -/
theorem reset_body_eq_model (cl : List A → List (List A)) (tf : TextFieldCl.TF A) :
    callMethod (tfCx1 genTf cl) tfKeys tfReset [] (envOfTF tf) = some (envOfTF (TextFieldCl.reset tf), .opaque) := by
  simp [callMethod, runFn, tfReset, execB, execS, evalE, recvOf, tfKeys, envOfTF, getV, setV,
    copyBack, TextFieldCl.reset]
/-- `tfReset` called from a larger environment -/
theorem frame_reset (cl : List A → List (List A)) (tf : TextFieldCl.TF A) (env : Env A)
    (h1 : getV env "tf.Value" = .str tf.value) (h2 : getV env "tf.cursor" = .num tf.cursor) (h3 : getV env "tf.n" = .num tf.n) :
    callMethod (tfCx1 genTf cl) tfKeys tfReset [] env =
      some (copyBack tfKeys (envOfTF (TextFieldCl.reset tf)) env, .opaque) :=
  callMethod_frame _ _ _ tf _ _ env (reset_body_eq_model cl tf) h1 h2 h3

end VaxisModel.Lemmas.EdLangTFBody
