import VaxisModel.Model.EdGen
import VaxisModel.Lemmas.EdLangTF
import VaxisModel.Lemmas.EdLangLoops
import VaxisModel.Lemmas.TextInputCl

/-!
C17 — proofs that the bodies of textinput's `SetContent`, `resegment` and `Update`, translated from
the source on every run (`Gen/EditorLang.lean`) and run by the interpreter of `Model/EdLang.lean`,
are the hand-written model `Model/TextInputCl.lean`.  Restated in `Props/C17Body.lean`.
-/
namespace VaxisModel.Lemmas.EdLangTIBody
open VaxisModel.Model.EdLang VaxisModel.Model.EdRun VaxisModel.Gen.EditorLang VaxisModel.Model.EdGen
open VaxisModel.Model
open VaxisModel.Model.TextInputCl (TIC Ev)
open VaxisModel.Lemmas.EdLangLoops

@[simp] theorem genTi_setContent : genTi.setContent = tiSetContent := rfl
@[simp] theorem genTi_update : genTi.update = tiUpdate := rfl
@[simp] theorem genTi_resegment : genTi.resegment = tiResegment := rfl
@[simp] theorem genTi_isAlnum : genTi.isAlnum = tiIsAlphaNumeric := rfl

variable {A : Type} [DecidableEq A]

/-- `isAlphaNumeric`: a single code point that is a letter or a number; every grapheme of several code points is not. -/
theorem isAlphaNumeric_body_eq_model (isLetter isNumber : A → Bool) (c : List A) (hc : c ≠ []) :
    tiIsAlnumI genTi isLetter isNumber c = some (match c with | [a] => isLetter a || isNumber a | _ => false) := by
  cases c with
  | nil => exact absurd rfl hc
  | cons a t =>
    cases t with
    | nil =>
      cases h1 : isLetter a <;> cases h2 : isNumber a <;>
      simp [tiIsAlnumI, runFn, tiIsAlphaNumeric, execB, execS, evalE, getV, setV, cmpV, cmpI, h1, h2]
    | cons b u =>
      have h1 : (1 : Int) < (u.length : Int) + 1 + 1 := by omega
      simp [tiIsAlnumI, runFn, tiIsAlphaNumeric, execB, execS, evalE, getV, setV, cmpV, cmpI, h1]

/-- `SetContent` -/
theorem setContent_body_eq_model (cl : List A → List (List A)) (al : List A → Bool) (m : TIC A) (s : List A) :
    tiRunSetContent genTi cl al m s = some (TextInputCl.setContent cl m s) := by
  simp [tiRunSetContent, runFn, tiSetContent, execB, execS, evalE, envOfTI, getV, setV, tiOfEnv, tiCx0,
    TextInputCl.setContent]

/-- `resegment`: `none` (the slice expression panics) exactly when the model says so. -/
theorem resegment_body_eq_model (cl : List A → List (List A)) (al : List A → Bool) (m : TIC A) :
    callMethod (tiCx0 cl al) tiKeys tiResegment [] (envOfTI m) =
      (TextInputCl.resegment cl m).map fun m' => (envOfTI m', .opaque) := by
  obtain ⟨content, cursor, offset, paste⟩ := m
  by_cases h : 0 ≤ cursor ∧ cursor ≤ content.length
  · have h' : TextInput.inRange content cursor = true := by simp [TextInput.inRange, h]
    simp [callMethod, runFn, tiResegment, execB, execS, evalE, envOfTI, getV, setV, tiCx0, recvOf, copyBack, sliceE, boundV, E.isAbsent,
      sliceV, h, TextInputCl.resegment, h']
  · have h' : TextInput.inRange content cursor = false := by
      simp only [TextInput.inRange, Bool.and_eq_false_iff, decide_eq_false_iff_not]
      by_cases h0 : 0 ≤ cursor
      · right; intro h1; exact h ⟨h0, h1⟩
      · left; exact h0
    simp [callMethod, runFn, tiResegment, execB, execS, evalE, envOfTI, getV, setV, tiCx0, recvOf, copyBack, sliceE, boundV, E.isAbsent,
      sliceV, h, TextInputCl.resegment, h']

theorem recvOf_envOfTI (m : TIC A) : recvOf tiKeys (envOfTI m) = envOfTI m := by
  simp [recvOf, envOfTI, getV]

/-- `resegment` called from a larger environment: it sees the receiver's fields only and writes only them back. -/
theorem reseg_frame (cl : List A → List (List A)) (al : List A → Bool) (m : TIC A) (env : Env A)
    (h1 : getV env "m.content" = .chars m.content) (h2 : getV env "m.cursor" = .num m.cursor)
    (h3 : getV env "m.offset" = .num m.offset) (h4 : getV env "m.paste" = .str m.paste) :
    callMethod (tiCx0 cl al) tiKeys tiResegment [] env =
      (TextInputCl.resegment cl m).map fun m' => (copyBack tiKeys (envOfTI m') env, .opaque) := by
  have henv : recvOf tiKeys env = envOfTI m := by simp [recvOf, envOfTI, h1, h2, h3, h4]
  have h := resegment_body_eq_model cl al m
  unfold callMethod at h ⊢
  rw [recvOf_envOfTI] at h
  rw [henv]
  cases hr : runFn (tiCx0 cl al) tiResegment (envOfTI m) [] with
  | none =>
    rw [hr] at h
    cases hm : TextInputCl.resegment cl m with
    | none => rfl
    | some m' => rw [hm] at h; cases h
  | some p =>
    obtain ⟨env', r'⟩ := p
    rw [hr] at h
    cases hm : TextInputCl.resegment cl m with
    | none => rw [hm] at h; cases h
    | some m' =>
      rw [hm] at h
      simp only [Option.map_some, Option.some.injEq, Prod.mk.injEq] at h
      obtain ⟨h5, rfl⟩ := h
      simp [copyBack, envOfTI, setV] at h5
      simp [copyBack, envOfTI, getV, h5]

/-! ### reading and writing arbitrary environments -/

theorem getV_setV_same (k : String) (v : V A) (env : Env A) (hk : k ≠ "_") : getV (setV k v env) k = v := by
  induction env with
  | nil => simp [setV, hk, getV]
  | cons p r ih =>
    obtain ⟨k', v'⟩ := p
    by_cases h : k' = k
    · simp [setV, hk, h, getV]
    · simp only [setV, hk, if_false, h, getV] at ih ⊢
      exact ih

theorem getV_setV_ne (k k' : String) (v : V A) (env : Env A) (h : k ≠ k') : getV (setV k v env) k' = getV env k' := by
  by_cases hk : k = "_"
  · subst hk; unfold setV; rfl
  · induction env with
    | nil => simp [setV, hk, getV, h]
    | cons p r ih =>
      obtain ⟨k0, v0⟩ := p
      by_cases h0 : k0 = k
      · subst h0; simp [setV, hk, getV, h]
      · by_cases h1 : k0 = k'
        · subst h1; simp [setV, hk, h0, getV]
        · simp only [setV, hk, if_false, h0, getV, h1] at ih ⊢
          exact ih

theorem tiOfEnv_copyBack (m' : TIC A) (e : Env A) : tiOfEnv (copyBack tiKeys (envOfTI m') e) = some m' := by
  simp [tiOfEnv, copyBack, envOfTI, getV, getV_setV_same, getV_setV_ne]

theorem deferred_copyBack (m' : TIC A) (e : Env A) : getV (copyBack tiKeys (envOfTI m') e) "deferred" = getV e "deferred" := by
  simp [copyBack, getV_setV_ne]

/-! ### `Update` = the event switch, then the clamping and `resegment` -/

def B.head : B → S
  | .cons s _ => s
  | .nil => .unknown "empty body"
def B.tail : B → B
  | .cons _ r => r
  | .nil => .nil

theorem tiUpdate_split : tiUpdate.body = B.cons (B.head tiUpdate.body) (B.tail tiUpdate.body) := rfl

/-- The epilogue of `Update` from any environment holding the widget's fields: the two clamping
    `if`s and `m.resegment()` are the model's `clamp` followed by `resegment`. -/
theorem epilogue (cl : List A → List (List A)) (al : List A → Bool) (env : Env A)
    (c : List (List A)) (cur off : Int) (p : List A)
    (h1 : getV env "m.content" = .chars c) (h2 : getV env "m.cursor" = .num cur)
    (h3 : getV env "m.offset" = .num off) (h4 : getV env "m.paste" = .str p) :
    ∃ e, execB (tiCx1 genTi cl al) (B.tail tiUpdate.body) env =
      (match TextInputCl.resegment cl (TextInputCl.ofG (TextInput.clamp ⟨c, cur, off, []⟩) p) with
       | some m' => Res.ok (copyBack tiKeys (envOfTI m') e)
       | none => Res.err "call resegment") ∧ getV e "deferred" = getV env "deferred" := by
  by_cases hhi : cur > c.length
  · have hlo : ¬ ((c.length : Int) < 0) := by omega
    refine ⟨setV "m.cursor" (.num c.length) env, ?_, by simp [getV_setV_ne]⟩
    simp [B.tail, tiUpdate, execB, execS, evalE, cmpV, cmpI, h1, h2, hhi, hlo, getV_setV_same, getV_setV_ne, tiCx1, doCall, evalArgs,
      E.isAbsent, tiCall0,
      reseg_frame cl al ⟨c, c.length, off, p⟩ (setV "m.cursor" (.num c.length) env) (by simp [getV_setV_ne, h1]) (by simp [getV_setV_same]) (by simp [getV_setV_ne, h3])
        (by simp [getV_setV_ne, h4]),
      TextInput.clamp, TextInputCl.ofG]
    cases TextInputCl.resegment cl ⟨c, c.length, off, p⟩ <;> simp
  · by_cases hlo : cur < 0
    · refine ⟨setV "m.cursor" (.num 0) env, ?_, by simp [getV_setV_ne]⟩
      simp [B.tail, tiUpdate, execB, execS, evalE, cmpV, cmpI, h1, h2, hhi, hlo, getV_setV_same, getV_setV_ne, tiCx1, doCall, evalArgs,
        E.isAbsent, tiCall0,
        reseg_frame cl al ⟨c, 0, off, p⟩ (setV "m.cursor" (.num 0) env) (by simp [getV_setV_ne, h1]) (by simp [getV_setV_same]) (by simp [getV_setV_ne, h3])
          (by simp [getV_setV_ne, h4]),
        TextInput.clamp, TextInputCl.ofG]
      cases TextInputCl.resegment cl ⟨c, 0, off, p⟩ <;> simp
    · refine ⟨env, ?_, rfl⟩
      simp [B.tail, tiUpdate, execB, execS, evalE, cmpV, cmpI, h1, h2, hhi, hlo, tiCx1, doCall, evalArgs,
        E.isAbsent, tiCall0, reseg_frame cl al ⟨c, cur, off, p⟩ env h1 h2 h3 h4,
        TextInput.clamp, TextInputCl.ofG]
      cases TextInputCl.resegment cl ⟨c, cur, off, p⟩ <;> simp

/-- The environment `Update` starts in. -/
abbrev env0 (m : TIC A) (ev : Ev A) : Env A := envOfTI m ++ evEnv ev ++ [("p0", .opaque)]

theorem tiRun_eq (cl : List A → List (List A)) (al : List A → Bool) (m : TIC A) (ev : Ev A) :
    tiRunUpdate genTi cl al m ev =
      match (match (match (match execS (tiCx1 genTi cl al) (B.head tiUpdate.body) (env0 m ev) with
                           | .ok e1 => execB (tiCx1 genTi cl al) (B.tail tiUpdate.body) e1
                           | r => r) with
                    | .ok env' => some (env', V.opaque)
                    | .ret env' r => some (env', r)
                    | _ => none) with
             | none => none
             | some (env', r) =>
               match getV env' "deferred" with
               | .name g => (match (tiCx1 genTi cl al).call g [] env' with | some (env'', _) => some (env'', r) | none => none)
               | _ => some (env', r)) with
      | some (env', _) => tiOfEnv env'
      | none => none := by
  unfold tiRunUpdate runFn
  have hp : tiUpdate.params = ["p0"] := rfl
  simp only [genTi_update, hp]
  conv => lhs; rw [tiUpdate_split]
  simp [execB, env0]
  rfl

theorem run_ok (cl : List A → List (List A)) (al : List A → Bool) (m : TIC A) (ev : Ev A) (e1 : Env A)
    (c : List (List A)) (cur off : Int) (p : List A) (w : String)
    (hsw : execS (tiCx1 genTi cl al) (B.head tiUpdate.body) (env0 m ev) = .ok e1)
    (h1 : getV e1 "m.content" = .chars c) (h2 : getV e1 "m.cursor" = .num cur)
    (h3 : getV e1 "m.offset" = .num off) (h4 : getV e1 "m.paste" = .str p) (hd : getV e1 "deferred" = .err w) :
    tiRunUpdate genTi cl al m ev = TextInputCl.resegment cl (TextInputCl.ofG (TextInput.clamp ⟨c, cur, off, []⟩) p) := by
  obtain ⟨e, he, hde⟩ := epilogue cl al e1 c cur off p h1 h2 h3 h4
  rw [tiRun_eq, hsw]
  simp only [he]
  cases TextInputCl.resegment cl (TextInputCl.ofG (TextInput.clamp ⟨c, cur, off, []⟩) p) with
  | none => rfl
  | some m' => simp [deferred_copyBack, hde, hd, tiOfEnv_copyBack]

theorem run_ret (cl : List A → List (List A)) (al : List A → Bool) (m : TIC A) (ev : Ev A) (e1 : Env A) (v : V A) (m1 : TIC A)
    (w : String)
    (hsw : execS (tiCx1 genTi cl al) (B.head tiUpdate.body) (env0 m ev) = .ret e1 v)
    (ht : tiOfEnv e1 = some m1) (hd : getV e1 "deferred" = .err w) :
    tiRunUpdate genTi cl al m ev = some m1 := by
  rw [tiRun_eq, hsw]
  simp [hd, ht]

theorem run_err (cl : List A → List (List A)) (al : List A → Bool) (m : TIC A) (ev : Ev A) (w : String)
    (hsw : execS (tiCx1 genTi cl al) (B.head tiUpdate.body) (env0 m ev) = .err w) :
    tiRunUpdate genTi cl al m ev = none := by
  rw [tiRun_eq, hsw]

/-- evaluate the event switch of `Update` -/
macro "sw_simp" "[" ts:Lean.Parser.Tactic.simpLemma,* "]" : tactic =>
  `(tactic| simp [B.head, tiUpdate, execS, execB, evalE, evEnv, envOfTI, getV, setV, cmpV, E.isAbsent, env0, tiCx1, $ts,*])
macro "gv" : tactic => `(tactic| simp [getV, envOfTI, evEnv, env0])

theorem update_other (cl : List A → List (List A)) (al : List A → Bool) (m : TIC A) :
    tiRunUpdate genTi cl al m .other = TextInputCl.update cl al m .other := by
  obtain ⟨content, cursor, offset, paste⟩ := m
  rw [run_ok cl al _ _ (env0 ⟨content, cursor, offset, paste⟩ .other) content cursor offset paste "unbound deferred"
    (by sw_simp []) (by gv) (by gv) (by gv) (by gv) (by gv)]
  simp [TextInputCl.update, TextInputCl.toG]

theorem update_release (cl : List A → List (List A)) (al : List A → Bool) (m : TIC A) :
    tiRunUpdate genTi cl al m .release = TextInputCl.update cl al m .release := by
  obtain ⟨content, cursor, offset, paste⟩ := m
  rw [run_ret cl al _ _ (env0 ⟨content, cursor, offset, paste⟩ .release) .opaque ⟨content, cursor, offset, paste⟩ "unbound deferred"
    (by sw_simp []) (by simp [tiOfEnv, getV, envOfTI, evEnv, env0]) (by gv)]
  simp [TextInputCl.update]

theorem update_pasteKey (cl : List A → List (List A)) (al : List A → Bool) (m : TIC A) (t : List A) :
    tiRunUpdate genTi cl al m (.pasteKey t) = TextInputCl.update cl al m (.pasteKey t) := by
  obtain ⟨content, cursor, offset, paste⟩ := m
  rw [run_ret cl al _ _ ([("m.content", .chars content), ("m.cursor", .num cursor), ("m.offset", .num offset),
      ("m.paste", .str (paste ++ t)), ("p0.type", .name "vaxis.Key"), ("p0.EventType", .name "vaxis.EventPaste"),
      ("p0.Text", .str t), ("p0", .opaque)]) .opaque ⟨content, cursor, offset, paste ++ t⟩ "unbound deferred"
    (by sw_simp []) (by simp [tiOfEnv, getV]) (by simp [getV])]
  simp [TextInputCl.update]

theorem update_pasteEnd (cl : List A → List (List A)) (al : List A → Bool) (m : TIC A) :
    tiRunUpdate genTi cl al m .pasteEnd = TextInputCl.update cl al m .pasteEnd := by
  obtain ⟨content, cursor, offset, paste⟩ := m
  by_cases h : EdLang.inRange content cursor = true
  · have hr' : TextInput.inRange content cursor = true := h
    rw [run_ok cl al _ _ ([("m.content", .chars (content.take cursor.toNat ++ cl paste ++ content.drop cursor.toNat)),
        ("m.cursor", .num (cursor + (cl paste).length)), ("m.offset", .num offset),
        ("m.paste", .str []), ("p0.type", .name "vaxis.PasteEndEvent"), ("p0", .opaque), ("l0", .chars (cl paste))])
      (content.take cursor.toNat ++ cl paste ++ content.drop cursor.toNat) (cursor + (cl paste).length) offset [] "unbound deferred"
      (by sw_simp [h]) (by simp [getV]) (by simp [getV]) (by simp [getV]) (by simp [getV]) (by simp [getV])]
    simp [TextInputCl.update, TextInputCl.toG, hr', TextInputCl.ofG]
  · have h' : EdLang.inRange content cursor = false := by simpa using h
    have hr' : TextInput.inRange content cursor = false := h'
    rw [run_err cl al _ _ "slices.Insert out of range" (by sw_simp [h'])]
    simp [TextInputCl.update, hr']

/-! ### the general form: run the switch, then `finish` -/

def isChars : V A → Bool | .chars _ => true | _ => false
def isNum : V A → Bool | .num _ => true | _ => false
def isStr : V A → Bool | .str _ => true | _ => false
def isErr : V A → Bool | .err _ => true | _ => false

/-- The result of the event switch is one `Update` can go on from. -/
def Shaped : Res A → Bool
  | .ok e => isChars (getV e "m.content") && isNum (getV e "m.cursor") && isNum (getV e "m.offset") && isStr (getV e "m.paste") &&
      isErr (getV e "deferred")
  | .ret e _ => isErr (getV e "deferred")
  | .err _ => true
  | _ => false

/-- What `Update` makes of the result of its event switch. -/
def finish (cl : List A → List (List A)) : Res A → Option (TIC A)
  | .ok e =>
    (match getV e "m.content", getV e "m.cursor", getV e "m.offset", getV e "m.paste" with
     | .chars c, .num cur, .num off, .str p => TextInputCl.resegment cl (TextInputCl.ofG (TextInput.clamp ⟨c, cur, off, []⟩) p)
     | _, _, _, _ => none)
  | .ret e _ => tiOfEnv e
  | _ => none

theorem run_fin (cl : List A → List (List A)) (al : List A → Bool) (m : TIC A) (ev : Ev A)
    (h : Shaped (execS (tiCx1 genTi cl al) (B.head tiUpdate.body) (env0 m ev)) = true) :
    tiRunUpdate genTi cl al m ev = finish cl (execS (tiCx1 genTi cl al) (B.head tiUpdate.body) (env0 m ev)) := by
  cases hR : execS (tiCx1 genTi cl al) (B.head tiUpdate.body) (env0 m ev) with
  | ok e =>
    rw [hR] at h
    simp only [Shaped, Bool.and_eq_true] at h
    obtain ⟨⟨⟨⟨h1, h2⟩, h3⟩, h4⟩, h5⟩ := h
    cases hc : getV e "m.content" <;> rw [hc] at h1 <;> simp [isChars] at h1
    cases hcur : getV e "m.cursor" <;> rw [hcur] at h2 <;> simp [isNum] at h2
    cases hoff : getV e "m.offset" <;> rw [hoff] at h3 <;> simp [isNum] at h3
    cases hp : getV e "m.paste" <;> rw [hp] at h4 <;> simp [isStr] at h4
    cases hd : getV e "deferred" <;> rw [hd] at h5 <;> simp [isErr] at h5
    rw [run_ok cl al m ev e _ _ _ _ _ hR hc hcur hoff hp hd]
    simp [finish, hc, hcur, hoff, hp]
  | ret e v =>
    rw [hR] at h
    simp only [Shaped] at h
    cases hd : getV e "deferred" <;> rw [hd] at h <;> simp [isErr] at h
    rw [tiRun_eq, hR]
    simp [hd, finish]
  | err w => rw [run_err cl al m ev w hR]; rfl
  | brk e => rw [hR] at h; simp [Shaped] at h
  | cont e => rw [hR] at h; simp [Shaped] at h
  | hang => rw [hR] at h; simp [Shaped] at h

/-- an arm of `Update`: run the switch (twice: for the shape and for the result), unfold the model -/
macro "ti_arm" "[" ts:Lean.Parser.Tactic.simpLemma,* "]" : tactic =>
  `(tactic| (rw [run_fin _ _ _ _ (by sw_simp [$ts,*]; simp [Shaped, getV, isChars, isNum, isStr, isErr])]
             sw_simp [$ts,*]
             simp [finish, getV, tiOfEnv, TextInputCl.update, TextInputCl.toG, TextInputCl.ofG, TextInput.keySwitch, $ts,*]))

theorem update_home (cl : List A → List (List A)) (al : List A → Bool) (m : TIC A) (c a sup : Bool) (t : List A) :
    tiRunUpdate genTi cl al m (.key "Home" c a sup t) = TextInputCl.update cl al m (.key "Home" c a sup t) := by
  obtain ⟨content, cursor, offset, paste⟩ := m
  ti_arm []

theorem update_ctrl_a (cl : List A → List (List A)) (al : List A → Bool) (m : TIC A) (c a sup : Bool) (t : List A) :
    tiRunUpdate genTi cl al m (.key "Ctrl+a" c a sup t) = TextInputCl.update cl al m (.key "Ctrl+a" c a sup t) := by
  obtain ⟨content, cursor, offset, paste⟩ := m
  ti_arm []

theorem update_ctrl_e (cl : List A → List (List A)) (al : List A → Bool) (m : TIC A) (c a sup : Bool) (t : List A) :
    tiRunUpdate genTi cl al m (.key "Ctrl+e" c a sup t) = TextInputCl.update cl al m (.key "Ctrl+e" c a sup t) := by
  obtain ⟨content, cursor, offset, paste⟩ := m
  ti_arm []

theorem update_end (cl : List A → List (List A)) (al : List A → Bool) (m : TIC A) (c a sup : Bool) (t : List A) :
    tiRunUpdate genTi cl al m (.key "End" c a sup t) = TextInputCl.update cl al m (.key "End" c a sup t) := by
  obtain ⟨content, cursor, offset, paste⟩ := m
  ti_arm []

theorem update_ctrl_f (cl : List A → List (List A)) (al : List A → Bool) (m : TIC A) (c a sup : Bool) (t : List A) :
    tiRunUpdate genTi cl al m (.key "Ctrl+f" c a sup t) = TextInputCl.update cl al m (.key "Ctrl+f" c a sup t) := by
  obtain ⟨content, cursor, offset, paste⟩ := m
  ti_arm []

theorem update_right (cl : List A → List (List A)) (al : List A → Bool) (m : TIC A) (c a sup : Bool) (t : List A) :
    tiRunUpdate genTi cl al m (.key "Right" c a sup t) = TextInputCl.update cl al m (.key "Right" c a sup t) := by
  obtain ⟨content, cursor, offset, paste⟩ := m
  ti_arm []

theorem update_ctrl_b (cl : List A → List (List A)) (al : List A → Bool) (m : TIC A) (c a sup : Bool) (t : List A) :
    tiRunUpdate genTi cl al m (.key "Ctrl+b" c a sup t) = TextInputCl.update cl al m (.key "Ctrl+b" c a sup t) := by
  obtain ⟨content, cursor, offset, paste⟩ := m
  ti_arm []

theorem update_left (cl : List A → List (List A)) (al : List A → Bool) (m : TIC A) (c a sup : Bool) (t : List A) :
    tiRunUpdate genTi cl al m (.key "Left" c a sup t) = TextInputCl.update cl al m (.key "Left" c a sup t) := by
  obtain ⟨content, cursor, offset, paste⟩ := m
  ti_arm []

theorem update_ctrl_k (cl : List A → List (List A)) (al : List A → Bool) (m : TIC A) (c a sup : Bool) (t : List A) :
    tiRunUpdate genTi cl al m (.key "Ctrl+k" c a sup t) = TextInputCl.update cl al m (.key "Ctrl+k" c a sup t) := by
  obtain ⟨content, cursor, offset, paste⟩ := m
  by_cases h : 0 ≤ cursor ∧ cursor ≤ content.length
  · have hr : TextInput.inRange content cursor = true := by simp [TextInput.inRange, h]
    ti_arm [sliceE, boundV, sliceV, h, hr]
  · have hr : TextInput.inRange content cursor = false := by
      simp only [TextInput.inRange, Bool.and_eq_false_iff, decide_eq_false_iff_not]
      by_cases h0 : 0 ≤ cursor
      · right; intro h1; exact h ⟨h0, h1⟩
      · left; exact h0
    ti_arm [sliceE, boundV, sliceV, h, hr]

theorem update_ctrl_u (cl : List A → List (List A)) (al : List A → Bool) (m : TIC A) (c a sup : Bool) (t : List A) :
    tiRunUpdate genTi cl al m (.key "Ctrl+u" c a sup t) = TextInputCl.update cl al m (.key "Ctrl+u" c a sup t) := by
  obtain ⟨content, cursor, offset, paste⟩ := m
  by_cases h : 0 ≤ cursor ∧ cursor ≤ content.length
  · have hr : TextInput.inRange content cursor = true := by simp [TextInput.inRange, h]
    ti_arm [sliceE, boundV, sliceV, h, hr]
  · have hr : TextInput.inRange content cursor = false := by
      simp only [TextInput.inRange, Bool.and_eq_false_iff, decide_eq_false_iff_not]
      by_cases h0 : 0 ≤ cursor
      · right; intro h1; exact h ⟨h0, h1⟩
      · left; exact h0
    ti_arm [sliceE, boundV, sliceV, h, hr]

theorem update_ctrl_d (cl : List A → List (List A)) (al : List A → Bool) (m : TIC A) (c a sup : Bool) (t : List A) :
    tiRunUpdate genTi cl al m (.key "Ctrl+d" c a sup t) = TextInputCl.update cl al m (.key "Ctrl+d" c a sup t) := by
  obtain ⟨content, cursor, offset, paste⟩ := m
  by_cases h1 : cursor = content.length
  · subst h1
    ti_arm [sliceE, boundV, sliceV, cmpI]
  · by_cases h2 : 0 ≤ cursor ∧ cursor + 1 ≤ content.length
    · have h3 : 0 ≤ cursor ∧ cursor ≤ content.length := by omega
      have h4 : 0 ≤ cursor + 1 ∧ cursor + 1 ≤ content.length := by omega
      have h5 : (cursor + 1).toNat = cursor.toNat + 1 := by omega
      ti_arm [sliceE, boundV, sliceV, cmpI, h1, h2, h3, h4, h5]
    · have h3 : ¬ (0 ≤ cursor ∧ cursor ≤ content.length) := by omega
      by_cases h4 : 0 ≤ cursor + 1 ∧ cursor + 1 ≤ content.length
      · have h6 : ¬ 0 ≤ cursor := by omega
        ti_arm [sliceE, boundV, sliceV, cmpI, h1, h2, h3, h4, h6]
      · ti_arm [sliceE, boundV, sliceV, cmpI, h1, h2, h3, h4]

theorem update_delete (cl : List A → List (List A)) (al : List A → Bool) (m : TIC A) (c a sup : Bool) (t : List A) :
    tiRunUpdate genTi cl al m (.key "Delete" c a sup t) = TextInputCl.update cl al m (.key "Delete" c a sup t) := by
  obtain ⟨content, cursor, offset, paste⟩ := m
  by_cases h1 : cursor = content.length
  · subst h1
    ti_arm [sliceE, boundV, sliceV, cmpI]
  · by_cases h2 : 0 ≤ cursor ∧ cursor + 1 ≤ content.length
    · have h3 : 0 ≤ cursor ∧ cursor ≤ content.length := by omega
      have h4 : 0 ≤ cursor + 1 ∧ cursor + 1 ≤ content.length := by omega
      have h5 : (cursor + 1).toNat = cursor.toNat + 1 := by omega
      ti_arm [sliceE, boundV, sliceV, cmpI, h1, h2, h3, h4, h5]
    · have h3 : ¬ (0 ≤ cursor ∧ cursor ≤ content.length) := by omega
      by_cases h4 : 0 ≤ cursor + 1 ∧ cursor + 1 ≤ content.length
      · have h6 : ¬ 0 ≤ cursor := by omega
        ti_arm [sliceE, boundV, sliceV, cmpI, h1, h2, h3, h4, h6]
      · ti_arm [sliceE, boundV, sliceV, cmpI, h1, h2, h3, h4]

theorem update_ctrl_h (cl : List A → List (List A)) (al : List A → Bool) (m : TIC A) (c a sup : Bool) (t : List A) :
    tiRunUpdate genTi cl al m (.key "Ctrl+h" c a sup t) = TextInputCl.update cl al m (.key "Ctrl+h" c a sup t) := by
  obtain ⟨content, cursor, offset, paste⟩ := m
  by_cases h0 : cursor = 0
  · subst h0
    ti_arm [cmpI]
  · by_cases h1 : cursor = content.length
    · subst h1
      have hne : content ≠ [] := by intro h; subst h; simp at h0
      have h2 : (1 : Int) ≤ (content.length : Int) := by
        cases content with
        | nil => exact absurd rfl hne
        | cons x xs => simp; omega
      have h3 : (content.length : Int) - 1 ≤ content.length := by omega
      ti_arm [sliceE, boundV, sliceV, cmpI, h0, h2, h3, hne]
    · by_cases h2 : 0 ≤ cursor - 1 ∧ cursor ≤ content.length
      · have h3 : 0 ≤ cursor - 1 ∧ cursor - 1 ≤ content.length := by omega
        have h4 : 0 ≤ cursor ∧ cursor ≤ content.length := by omega
        have h6 : 1 ≤ cursor := by omega
        have h7 : (cursor - 1).toNat = cursor.toNat - 1 := by omega
        ti_arm [sliceE, boundV, sliceV, cmpI, h0, h1, h2, h3, h4, h6, h7]
      · by_cases h3 : 0 ≤ cursor - 1 ∧ cursor - 1 ≤ content.length
        · have h4 : ¬ (0 ≤ cursor ∧ cursor ≤ content.length) := by omega
          have h5 : ¬ cursor ≤ content.length := by omega
          have h6 : 1 ≤ cursor := by omega
          ti_arm [sliceE, boundV, sliceV, cmpI, h0, h1, h2, h3, h4, h5, h6]
        · by_cases h4 : 0 ≤ cursor ∧ cursor ≤ content.length
          · exfalso; omega
          · by_cases h6 : 1 ≤ cursor
            · have h5 : ¬ cursor - 1 ≤ content.length := by omega
              have h8 : ¬ cursor ≤ content.length := by omega
              ti_arm [sliceE, boundV, sliceV, cmpI, h0, h1, h2, h3, h4, h5, h6, h8]
            · have h8 : ¬ 0 ≤ cursor := by omega
              ti_arm [sliceE, boundV, sliceV, cmpI, h0, h1, h2, h3, h4, h6, h8]

theorem update_backspace (cl : List A → List (List A)) (al : List A → Bool) (m : TIC A) (c a sup : Bool) (t : List A) :
    tiRunUpdate genTi cl al m (.key "BackSpace" c a sup t) = TextInputCl.update cl al m (.key "BackSpace" c a sup t) := by
  obtain ⟨content, cursor, offset, paste⟩ := m
  by_cases h0 : cursor = 0
  · subst h0
    ti_arm [cmpI]
  · by_cases h1 : cursor = content.length
    · subst h1
      have hne : content ≠ [] := by intro h; subst h; simp at h0
      have h2 : (1 : Int) ≤ (content.length : Int) := by
        cases content with
        | nil => exact absurd rfl hne
        | cons x xs => simp; omega
      have h3 : (content.length : Int) - 1 ≤ content.length := by omega
      ti_arm [sliceE, boundV, sliceV, cmpI, h0, h2, h3, hne]
    · by_cases h2 : 0 ≤ cursor - 1 ∧ cursor ≤ content.length
      · have h3 : 0 ≤ cursor - 1 ∧ cursor - 1 ≤ content.length := by omega
        have h4 : 0 ≤ cursor ∧ cursor ≤ content.length := by omega
        have h6 : 1 ≤ cursor := by omega
        have h7 : (cursor - 1).toNat = cursor.toNat - 1 := by omega
        ti_arm [sliceE, boundV, sliceV, cmpI, h0, h1, h2, h3, h4, h6, h7]
      · by_cases h3 : 0 ≤ cursor - 1 ∧ cursor - 1 ≤ content.length
        · have h4 : ¬ (0 ≤ cursor ∧ cursor ≤ content.length) := by omega
          have h5 : ¬ cursor ≤ content.length := by omega
          have h6 : 1 ≤ cursor := by omega
          ti_arm [sliceE, boundV, sliceV, cmpI, h0, h1, h2, h3, h4, h5, h6]
        · by_cases h4 : 0 ≤ cursor ∧ cursor ≤ content.length
          · exfalso; omega
          · by_cases h6 : 1 ≤ cursor
            · have h5 : ¬ cursor - 1 ≤ content.length := by omega
              have h8 : ¬ cursor ≤ content.length := by omega
              ti_arm [sliceE, boundV, sliceV, cmpI, h0, h1, h2, h3, h4, h5, h6, h8]
            · have h8 : ¬ 0 ≤ cursor := by omega
              ti_arm [sliceE, boundV, sliceV, cmpI, h0, h1, h2, h3, h4, h6, h8]

/-- the environments of the loops of an arm of `Update`: the widget, the key event, then the arm's locals -/
abbrev mkKey (content : List (List A)) (offset : Int) (paste : List A) (s : String) (c a sup : Bool) (t : List A)
    (locals : Int → Env A) : Int → Int → Env A := fun cc i =>
  ("m.content", .chars content) :: ("m.cursor", .num cc) :: ("m.offset", .num offset) :: ("m.paste", .str paste) ::
  ("p0.type", .name "vaxis.Key") :: ("p0.EventType", .name "vaxis.EventPress") :: ("p0.Text", .str t) :: ("p0.String()", .name s) ::
  ("p0.mod.ModCtrl", .bool c) :: ("p0.mod.ModAlt", .bool a) :: ("p0.mod.ModSuper", .bool sup) :: ("p0", .opaque) :: locals i

theorem update_ctrl_w_inrange (cl : List A → List (List A)) (al : List A → Bool) (m : TIC A) (c a sup : Bool) (t : List A)
    (h0 : m.cursor ≠ 0) (hr : 0 ≤ m.cursor ∧ m.cursor ≤ m.content.length) :
    tiRunUpdate genTi cl al m (.key "Ctrl+w" c a sup t) = TextInputCl.update cl al m (.key "Ctrl+w" c a sup t) := by
  obtain ⟨content, cursor, offset, paste⟩ := m
  simp only at h0 hr
  obtain ⟨k, rfl⟩ : ∃ k : Nat, cursor = k := ⟨cursor.toNat, by omega⟩
  have hk0 : k ≠ 0 := by intro h; subst h; simp at h0
  have hkl : k ≤ content.length := by omega
  have e1 : ((k : Int) - 1 + 1).toNat = k := by omega
  have hn1 := steps_le (fun g => !al g) (content.take k).reverse
  generalize hN1 : steps (fun g => !al g) (content.take k).reverse = n1 at hn1
  have hn1' : n1 ≤ k := by simp at hn1; omega
  have e2 : ((k : Int) - (n1 : Int) - 1 + 1).toNat = k - n1 := by omega
  have hn2 := steps_le al (content.take (k - n1)).reverse
  generalize hN2 : steps al (content.take (k - n1)).reverse = n2 at hn2
  have hn2' : n2 ≤ k - n1 := by simp at hn2; omega
  have e3 : ((k : Int) - (n1 : Int) - (n2 : Int)).toNat = k - n1 - n2 := by omega
  have hsw : ∃ e1, execS (tiCx1 genTi cl al) (B.head tiUpdate.body) (env0 ⟨content, k, offset, paste⟩ (.key "Ctrl+w" c a sup t)) =
      .ok e1 ∧ getV e1 "m.content" = .chars (content.take (k - n1 - n2) ++ content.drop k) ∧
      getV e1 "m.cursor" = .num ((k : Int) - n1 - n2) ∧ getV e1 "m.offset" = .num offset ∧
      getV e1 "m.paste" = .str paste ∧ getV e1 "deferred" = .err "unbound deferred" := by
    sw_simp [cmpI, hk0]
    rw [bwdLoopSpec content (fun g => !al g) 0
      (mkKey content offset paste "Ctrl+w" c a sup t (fun i => [("l5", .num k), ("l6", .num i)]))
      (c := k) (i := (k : Int) - 1)]
    · simp [e1, getV, setV, hN1]
      rw [bwdLoopSpec content al 0
        (mkKey content offset paste "Ctrl+w" c a sup t (fun i => [("l5", .num k), ("l6", .num ((k : Int) - 1 - n1)), ("l7", .num i)]))
        (c := (k : Int) - n1) (i := (k : Int) - n1 - 1)]
      · have hb1 : 0 ≤ (k : Int) - (n1 : Int) - n2 ∧ (k : Int) - (n1 : Int) - n2 ≤ content.length := by omega
        have hb2 : (k : Int) ≤ content.length := by omega
        have hb3 : (n2 : Int) ≤ (k : Int) - n1 := by omega
        simp [e2, e3, getV, setV, hN2, sliceE, boundV, sliceV, hb1, hb2, hb3]
      · intro cc i; simp [getV]
      · intro cc i g hi hg
        by_cases hp : al g <;> simp [getV, setV, hi, hg, hp]
      · intro cc i; simp [getV, setV]
      · omega
      · simp [envSize, vSize]; omega
    · intro cc i; simp [getV]
    · intro cc i g hi hg
      by_cases hp : al g <;> simp [getV, setV, hi, hg, hp]
    · intro cc i; simp [getV, setV]
    · omega
    · simp [envSize, vSize]; omega
  obtain ⟨e, hsw, h1, h2, h3, h4, h5⟩ := hsw
  rw [run_ok cl al _ _ e _ _ _ _ _ hsw h1 h2 h3 h4 h5]
  have hir : TextInput.inRange content (k : Int) = true := by simp [TextInput.inRange]; omega
  have hk0' : ¬ ((k : Int) = 0) := by omega
  simp [TextInputCl.update, TextInputCl.toG, TextInputCl.ofG, TextInput.keySwitch, hk0', hk0, hir, bwdLoop_steps, hN1, hN2, e3]

theorem update_ctrl_w_zero (cl : List A → List (List A)) (al : List A → Bool) (m : TIC A) (c a sup : Bool) (t : List A)
    (h0 : m.cursor = 0) :
    tiRunUpdate genTi cl al m (.key "Ctrl+w" c a sup t) = TextInputCl.update cl al m (.key "Ctrl+w" c a sup t) := by
  obtain ⟨content, cursor, offset, paste⟩ := m
  simp only at h0
  subst h0
  ti_arm [cmpI]

theorem update_ctrl_w_neg (cl : List A → List (List A)) (al : List A → Bool) (m : TIC A) (c a sup : Bool) (t : List A)
    (h0 : m.cursor < 0) :
    tiRunUpdate genTi cl al m (.key "Ctrl+w" c a sup t) = TextInputCl.update cl al m (.key "Ctrl+w" c a sup t) := by
  obtain ⟨content, cursor, offset, paste⟩ := m
  simp only at h0
  have h1 : ¬ cursor = 0 := by omega
  have h2 : ¬ (0 ≤ cursor - 1) := by omega
  have h3 : ¬ (0 ≤ cursor) := by omega
  have hir : TextInput.inRange content cursor = false := by simp [TextInput.inRange]; omega
  have h4 : ¬ (1 ≤ cursor) := by omega
  ti_arm [cmpI, h1, h2, h3, h4, loopN, sliceE, boundV, sliceV, hir]

theorem update_ctrl_w_past (cl : List A → List (List A)) (al : List A → Bool) (m : TIC A) (c a sup : Bool) (t : List A)
    (h0 : m.cursor > m.content.length) :
    tiRunUpdate genTi cl al m (.key "Ctrl+w" c a sup t) = TextInputCl.update cl al m (.key "Ctrl+w" c a sup t) := by
  obtain ⟨content, cursor, offset, paste⟩ := m
  simp only at h0
  have h1 : ¬ cursor = 0 := by omega
  have h4 : 1 ≤ cursor := by omega
  have hidx : content[cursor.toNat - 1]? = none := by apply List.getElem?_eq_none; omega
  have hir : TextInput.inRange content cursor = false := by simp [TextInput.inRange]; omega
  ti_arm [cmpI, h1, h4, hidx, loopN, hir]

theorem update_ctrl_w (cl : List A → List (List A)) (al : List A → Bool) (m : TIC A) (c a sup : Bool) (t : List A) :
    tiRunUpdate genTi cl al m (.key "Ctrl+w" c a sup t) = TextInputCl.update cl al m (.key "Ctrl+w" c a sup t) := by
  by_cases h0 : m.cursor = 0
  · exact update_ctrl_w_zero cl al m c a sup t h0
  · by_cases h1 : m.cursor < 0
    · exact update_ctrl_w_neg cl al m c a sup t h1
    · by_cases h2 : m.cursor > m.content.length
      · exact update_ctrl_w_past cl al m c a sup t h2
      · exact update_ctrl_w_inrange cl al m c a sup t h0 ⟨by omega, by omega⟩

theorem update_alt_f_neg (cl : List A → List (List A)) (al : List A → Bool) (m : TIC A) (c a sup : Bool) (t : List A)
    (h0 : m.cursor < 0) :
    tiRunUpdate genTi cl al m (.key "Alt+f" c a sup t) = TextInputCl.update cl al m (.key "Alt+f" c a sup t) := by
  obtain ⟨content, cursor, offset, paste⟩ := m
  simp only at h0
  have h1 : cursor < content.length := by omega
  have h3 : ¬ (0 ≤ cursor) := by omega
  ti_arm [cmpI, h0, h1, h3, loopN]

theorem update_alt_f_nonneg (cl : List A → List (List A)) (al : List A → Bool) (m : TIC A) (c a sup : Bool) (t : List A)
    (h0 : 0 ≤ m.cursor) :
    tiRunUpdate genTi cl al m (.key "Alt+f" c a sup t) = TextInputCl.update cl al m (.key "Alt+f" c a sup t) := by
  obtain ⟨content, cursor, offset, paste⟩ := m
  simp only at h0
  obtain ⟨k, rfl⟩ : ∃ k : Nat, cursor = k := ⟨cursor.toNat, by omega⟩
  generalize hN1 : steps (fun g => !al g) (content.drop k) = n1
  have e2 : ((k : Int) + (n1 : Int)).toNat = k + n1 := by omega
  generalize hN2 : steps al (content.drop (k + n1)) = n2
  have hsw : ∃ e1, execS (tiCx1 genTi cl al) (B.head tiUpdate.body) (env0 ⟨content, k, offset, paste⟩ (.key "Alt+f" c a sup t)) =
      .ok e1 ∧ getV e1 "m.content" = .chars content ∧
      getV e1 "m.cursor" = .num ((k : Int) + n1 + n2) ∧ getV e1 "m.offset" = .num offset ∧
      getV e1 "m.paste" = .str paste ∧ getV e1 "deferred" = .err "unbound deferred" := by
    sw_simp [cmpI]
    rw [fwdLoopSpec content (fun g => !al g)
      (mkKey content offset paste "Alt+f" c a sup t (fun i => [("l1", .num i)]))
      (c := k) (i := (k : Int))]
    · simp [getV, setV, hN1]
      rw [fwdLoopSpec content al
        (mkKey content offset paste "Alt+f" c a sup t (fun i => [("l1", .num ((k : Int) + n1)), ("l2", .num i)]))
        (c := (k : Int) + n1) (i := (k : Int) + n1)]
      · simp [e2, getV, setV, hN2]
      · intro cc i; simp [getV]
      · intro cc i g hi hg
        by_cases hp : al g <;> simp [getV, setV, hi, hg, hp]
      · intro cc i; simp [getV, setV]
      · omega
      · simp [envSize, vSize]; omega
    · intro cc i; simp [getV]
    · intro cc i g hi hg
      by_cases hp : al g <;> simp [getV, setV, hi, hg, hp]
    · intro cc i; simp [getV, setV]
    · omega
    · simp [envSize, vSize]; omega
  obtain ⟨e, hsw, h1, h2, h3, h4, h5⟩ := hsw
  rw [run_ok cl al _ _ e _ _ _ _ _ hsw h1 h2 h3 h4 h5]
  have hk : ¬ ((k : Int) < 0) := by omega
  simp [TextInputCl.update, TextInputCl.toG, TextInputCl.ofG, TextInput.keySwitch, hk, fwdLoop_steps, hN1, hN2, e2]

theorem update_alt_f (cl : List A → List (List A)) (al : List A → Bool) (m : TIC A) (c a sup : Bool) (t : List A) :
    tiRunUpdate genTi cl al m (.key "Alt+f" c a sup t) = TextInputCl.update cl al m (.key "Alt+f" c a sup t) := by
  by_cases h0 : m.cursor < 0
  · exact update_alt_f_neg cl al m c a sup t h0
  · exact update_alt_f_nonneg cl al m c a sup t (by omega)

theorem update_ctrl_right_neg (cl : List A → List (List A)) (al : List A → Bool) (m : TIC A) (c a sup : Bool) (t : List A)
    (h0 : m.cursor < 0) :
    tiRunUpdate genTi cl al m (.key "Ctrl+Right" c a sup t) = TextInputCl.update cl al m (.key "Ctrl+Right" c a sup t) := by
  obtain ⟨content, cursor, offset, paste⟩ := m
  simp only at h0
  have h1 : cursor < content.length := by omega
  have h3 : ¬ (0 ≤ cursor) := by omega
  ti_arm [cmpI, h0, h1, h3, loopN]

theorem update_ctrl_right_nonneg (cl : List A → List (List A)) (al : List A → Bool) (m : TIC A) (c a sup : Bool) (t : List A)
    (h0 : 0 ≤ m.cursor) :
    tiRunUpdate genTi cl al m (.key "Ctrl+Right" c a sup t) = TextInputCl.update cl al m (.key "Ctrl+Right" c a sup t) := by
  obtain ⟨content, cursor, offset, paste⟩ := m
  simp only at h0
  obtain ⟨k, rfl⟩ : ∃ k : Nat, cursor = k := ⟨cursor.toNat, by omega⟩
  generalize hN1 : steps (fun g => !al g) (content.drop k) = n1
  have e2 : ((k : Int) + (n1 : Int)).toNat = k + n1 := by omega
  generalize hN2 : steps al (content.drop (k + n1)) = n2
  have hsw : ∃ e1, execS (tiCx1 genTi cl al) (B.head tiUpdate.body) (env0 ⟨content, k, offset, paste⟩ (.key "Ctrl+Right" c a sup t)) =
      .ok e1 ∧ getV e1 "m.content" = .chars content ∧
      getV e1 "m.cursor" = .num ((k : Int) + n1 + n2) ∧ getV e1 "m.offset" = .num offset ∧
      getV e1 "m.paste" = .str paste ∧ getV e1 "deferred" = .err "unbound deferred" := by
    sw_simp [cmpI]
    rw [fwdLoopSpec content (fun g => !al g)
      (mkKey content offset paste "Ctrl+Right" c a sup t (fun i => [("l1", .num i)]))
      (c := k) (i := (k : Int))]
    · simp [getV, setV, hN1]
      rw [fwdLoopSpec content al
        (mkKey content offset paste "Ctrl+Right" c a sup t (fun i => [("l1", .num ((k : Int) + n1)), ("l2", .num i)]))
        (c := (k : Int) + n1) (i := (k : Int) + n1)]
      · simp [e2, getV, setV, hN2]
      · intro cc i; simp [getV]
      · intro cc i g hi hg
        by_cases hp : al g <;> simp [getV, setV, hi, hg, hp]
      · intro cc i; simp [getV, setV]
      · omega
      · simp [envSize, vSize]; omega
    · intro cc i; simp [getV]
    · intro cc i g hi hg
      by_cases hp : al g <;> simp [getV, setV, hi, hg, hp]
    · intro cc i; simp [getV, setV]
    · omega
    · simp [envSize, vSize]; omega
  obtain ⟨e, hsw, h1, h2, h3, h4, h5⟩ := hsw
  rw [run_ok cl al _ _ e _ _ _ _ _ hsw h1 h2 h3 h4 h5]
  have hk : ¬ ((k : Int) < 0) := by omega
  simp [TextInputCl.update, TextInputCl.toG, TextInputCl.ofG, TextInput.keySwitch, hk, fwdLoop_steps, hN1, hN2, e2]

theorem update_ctrl_right (cl : List A → List (List A)) (al : List A → Bool) (m : TIC A) (c a sup : Bool) (t : List A) :
    tiRunUpdate genTi cl al m (.key "Ctrl+Right" c a sup t) = TextInputCl.update cl al m (.key "Ctrl+Right" c a sup t) := by
  by_cases h0 : m.cursor < 0
  · exact update_ctrl_right_neg cl al m c a sup t h0
  · exact update_ctrl_right_nonneg cl al m c a sup t (by omega)

/-- what the model's key switch makes of Alt+b / Ctrl+Left, with its `let`s spelled out -/
def altbCursor (al : List A → Bool) (content : List (List A)) (cursor : Int) : Int :=
  let c0 := if cursor - 1 ≥ (content.length : Int) then (content.length : Int) - 1 else cursor - 1
  let c1 := TextInput.bwdLoop (fun g => !al g) (content.take (c0 + 1).toNat).reverse c0
  TextInput.bwdLoop2 al (content.take (c1 + 1).toNat).reverse c1

theorem keySwitch_alt_b (al : List A → Bool) (g : TextInput.TI (List A)) (c a sup : Bool) (t : List (List A)) :
    TextInput.keySwitch al g "Alt+b" c a sup t = some ({ g with cursor := altbCursor al g.content g.cursor }, false) := by
  simp [TextInput.keySwitch, altbCursor]

theorem keySwitch_ctrl_left (al : List A → Bool) (g : TextInput.TI (List A)) (c a sup : Bool) (t : List (List A)) :
    TextInput.keySwitch al g "Ctrl+Left" c a sup t = some ({ g with cursor := altbCursor al g.content g.cursor }, false) := by
  simp [TextInput.keySwitch, altbCursor]

theorem update_alt_b (cl : List A → List (List A)) (al : List A → Bool) (m : TIC A) (c a sup : Bool) (t : List A) :
    tiRunUpdate genTi cl al m (.key "Alt+b" c a sup t) = TextInputCl.update cl al m (.key "Alt+b" c a sup t) := by
  obtain ⟨content, cursor, offset, paste⟩ := m
  -- the cursor the loops start from
  generalize hc0 : (if cursor - 1 ≥ (content.length : Int) then (content.length : Int) - 1 else cursor - 1) = c0
  have hlt : c0 < content.length := by rw [← hc0]; split <;> omega
  generalize hN1 : steps (fun g => !al g) (content.take (c0 + 1).toNat).reverse = n1
  have e2 : c0 - (n1 : Int) + 1 = c0 + 1 - n1 := by omega
  generalize hN2 : steps al (content.take (c0 + 1 - (n1 : Int)).toNat).reverse = n2
  generalize hD : (if n2 < (content.take (c0 + 1 - (n1 : Int)).toNat).reverse.length then (1 : Int) else 0) = d2
  have hsw : ∃ e1, execS (tiCx1 genTi cl al) (B.head tiUpdate.body) (env0 ⟨content, cursor, offset, paste⟩ (.key "Alt+b" c a sup t)) =
      .ok e1 ∧ getV e1 "m.content" = .chars content ∧
      getV e1 "m.cursor" = .num (c0 - n1 - n2 + d2) ∧
      getV e1 "m.offset" = .num offset ∧
      getV e1 "m.paste" = .str paste ∧ getV e1 "deferred" = .err "unbound deferred" := by
    by_cases hge : (content.length : Int) ≤ cursor - 1
    · have hcA : (content.length : Int) - 1 = c0 := by rw [← hc0]; simp [hge]
      sw_simp [cmpI, hge]
      rw [hcA]
      rw [bwdLoopSpec content (fun g => !al g) 0
        (mkKey content offset paste "Alt+b" c a sup t (fun i => [("l3", .num i)])) (c := c0) (i := c0)]
      · simp only [hN1]
        simp [getV, setV]
        rw [bwdLoopSpec content al 1
          (mkKey content offset paste "Alt+b" c a sup t (fun i => [("l3", .num (c0 - (n1 : Int))), ("l4", .num i)]))
          (c := c0 - n1) (i := c0 - n1)]
        · simp only [e2, hN2, hD]
          simp [getV, setV]
        · intro cc i; simp [getV]
        · intro cc i g hi hg
          by_cases hp : al g <;> simp [getV, setV, hi, hg, hp]
        · intro cc i; simp [getV, setV]
        · omega
        · simp [envSize, vSize]; omega
      · intro cc i; simp [getV]
      · intro cc i g hi hg
        by_cases hp : al g <;> simp [getV, setV, hi, hg, hp]
      · intro cc i; simp [getV, setV]
      · omega
      · simp [envSize, vSize]; omega
    · have hcB : cursor - 1 = c0 := by rw [← hc0]; simp [hge]
      sw_simp [cmpI, hge]
      rw [hcB]
      rw [bwdLoopSpec content (fun g => !al g) 0
        (mkKey content offset paste "Alt+b" c a sup t (fun i => [("l3", .num i)])) (c := c0) (i := c0)]
      · simp only [hN1]
        simp [getV, setV]
        rw [bwdLoopSpec content al 1
          (mkKey content offset paste "Alt+b" c a sup t (fun i => [("l3", .num (c0 - (n1 : Int))), ("l4", .num i)]))
          (c := c0 - n1) (i := c0 - n1)]
        · simp only [e2, hN2, hD]
          simp [getV, setV]
        · intro cc i; simp [getV]
        · intro cc i g hi hg
          by_cases hp : al g <;> simp [getV, setV, hi, hg, hp]
        · intro cc i; simp [getV, setV]
        · omega
        · simp [envSize, vSize]; omega
      · intro cc i; simp [getV]
      · intro cc i g hi hg
        by_cases hp : al g <;> simp [getV, setV, hi, hg, hp]
      · intro cc i; simp [getV, setV]
      · omega
      · simp [envSize, vSize]; omega
  obtain ⟨e, hsw, h1, h2, h3, h4, h5⟩ := hsw
  rw [run_ok cl al _ _ e _ _ _ _ _ hsw h1 h2 h3 h4 h5]
  have hm : altbCursor al content cursor = c0 - n1 - n2 + d2 := by
    simp only [altbCursor, hc0, bwdLoop_steps, bwdLoop2_steps, hN1, e2, hN2, hD]
  simp only [TextInputCl.update, TextInputCl.toG, keySwitch_alt_b, hm]

theorem update_ctrl_left (cl : List A → List (List A)) (al : List A → Bool) (m : TIC A) (c a sup : Bool) (t : List A) :
    tiRunUpdate genTi cl al m (.key "Ctrl+Left" c a sup t) = TextInputCl.update cl al m (.key "Ctrl+Left" c a sup t) := by
  obtain ⟨content, cursor, offset, paste⟩ := m
  -- the cursor the loops start from
  generalize hc0 : (if cursor - 1 ≥ (content.length : Int) then (content.length : Int) - 1 else cursor - 1) = c0
  have hlt : c0 < content.length := by rw [← hc0]; split <;> omega
  generalize hN1 : steps (fun g => !al g) (content.take (c0 + 1).toNat).reverse = n1
  have e2 : c0 - (n1 : Int) + 1 = c0 + 1 - n1 := by omega
  generalize hN2 : steps al (content.take (c0 + 1 - (n1 : Int)).toNat).reverse = n2
  generalize hD : (if n2 < (content.take (c0 + 1 - (n1 : Int)).toNat).reverse.length then (1 : Int) else 0) = d2
  have hsw : ∃ e1, execS (tiCx1 genTi cl al) (B.head tiUpdate.body) (env0 ⟨content, cursor, offset, paste⟩ (.key "Ctrl+Left" c a sup t)) =
      .ok e1 ∧ getV e1 "m.content" = .chars content ∧
      getV e1 "m.cursor" = .num (c0 - n1 - n2 + d2) ∧
      getV e1 "m.offset" = .num offset ∧
      getV e1 "m.paste" = .str paste ∧ getV e1 "deferred" = .err "unbound deferred" := by
    by_cases hge : (content.length : Int) ≤ cursor - 1
    · have hcA : (content.length : Int) - 1 = c0 := by rw [← hc0]; simp [hge]
      sw_simp [cmpI, hge]
      rw [hcA]
      rw [bwdLoopSpec content (fun g => !al g) 0
        (mkKey content offset paste "Ctrl+Left" c a sup t (fun i => [("l3", .num i)])) (c := c0) (i := c0)]
      · simp only [hN1]
        simp [getV, setV]
        rw [bwdLoopSpec content al 1
          (mkKey content offset paste "Ctrl+Left" c a sup t (fun i => [("l3", .num (c0 - (n1 : Int))), ("l4", .num i)]))
          (c := c0 - n1) (i := c0 - n1)]
        · simp only [e2, hN2, hD]
          simp [getV, setV]
        · intro cc i; simp [getV]
        · intro cc i g hi hg
          by_cases hp : al g <;> simp [getV, setV, hi, hg, hp]
        · intro cc i; simp [getV, setV]
        · omega
        · simp [envSize, vSize]; omega
      · intro cc i; simp [getV]
      · intro cc i g hi hg
        by_cases hp : al g <;> simp [getV, setV, hi, hg, hp]
      · intro cc i; simp [getV, setV]
      · omega
      · simp [envSize, vSize]; omega
    · have hcB : cursor - 1 = c0 := by rw [← hc0]; simp [hge]
      sw_simp [cmpI, hge]
      rw [hcB]
      rw [bwdLoopSpec content (fun g => !al g) 0
        (mkKey content offset paste "Ctrl+Left" c a sup t (fun i => [("l3", .num i)])) (c := c0) (i := c0)]
      · simp only [hN1]
        simp [getV, setV]
        rw [bwdLoopSpec content al 1
          (mkKey content offset paste "Ctrl+Left" c a sup t (fun i => [("l3", .num (c0 - (n1 : Int))), ("l4", .num i)]))
          (c := c0 - n1) (i := c0 - n1)]
        · simp only [e2, hN2, hD]
          simp [getV, setV]
        · intro cc i; simp [getV]
        · intro cc i g hi hg
          by_cases hp : al g <;> simp [getV, setV, hi, hg, hp]
        · intro cc i; simp [getV, setV]
        · omega
        · simp [envSize, vSize]; omega
      · intro cc i; simp [getV]
      · intro cc i g hi hg
        by_cases hp : al g <;> simp [getV, setV, hi, hg, hp]
      · intro cc i; simp [getV, setV]
      · omega
      · simp [envSize, vSize]; omega
  obtain ⟨e, hsw, h1, h2, h3, h4, h5⟩ := hsw
  rw [run_ok cl al _ _ e _ _ _ _ _ hsw h1 h2 h3 h4 h5]
  have hm : altbCursor al content cursor = c0 - n1 - n2 + d2 := by
    simp only [altbCursor, hc0, bwdLoop_steps, bwdLoop2_steps, hN1, e2, hN2, hD]
  simp only [TextInputCl.update, TextInputCl.toG, keySwitch_ctrl_left, hm]

/-- the environment of the default arm's `range` loop (`o`: the loop variable, once bound) -/
def mkDef (content0 : List (List A)) (offset : Int) (paste : List A) (s : String) (t : List A) (chars : List (List A)) :
    List (List A) → Int → Option (List A) → Env A := fun content cursor o =>
  match o with
  | none =>
    [("m.content", .chars content), ("m.cursor", .num cursor), ("m.offset", .num offset), ("m.paste", .str paste),
     ("p0.type", .name "vaxis.Key"), ("p0.EventType", .name "vaxis.EventPress"), ("p0.Text", .str t), ("p0.String()", .name s),
     ("p0.mod.ModCtrl", .bool false), ("p0.mod.ModAlt", .bool false), ("p0.mod.ModSuper", .bool false), ("p0", .opaque),
     ("l8", .chars chars)]
  | some g =>
    [("m.content", .chars content), ("m.cursor", .num cursor), ("m.offset", .num offset), ("m.paste", .str paste),
     ("p0.type", .name "vaxis.Key"), ("p0.EventType", .name "vaxis.EventPress"), ("p0.Text", .str t), ("p0.String()", .name s),
     ("p0.mod.ModCtrl", .bool false), ("p0.mod.ModAlt", .bool false), ("p0.mod.ModSuper", .bool false), ("p0", .opaque),
     ("l8", .chars chars), ("l9", .str g)]

theorem insertChars_frame {G : Type} : ∀ (gs : List G) (m m' : TextInput.TI G), TextInput.insertChars m gs = some m' →
    m'.offset = m.offset ∧ m'.paste = m.paste := by
  intro gs
  induction gs with
  | nil => intro m m' h; simp [TextInput.insertChars] at h; subst h; exact ⟨rfl, rfl⟩
  | cons g gs ih =>
    intro m m' h
    simp only [TextInput.insertChars] at h
    split at h
    · have := ih _ _ h
      exact this
    · cases h

/-- the case labels of `switch msg.String()` -/
def allLabels : List String :=
  ["Ctrl+a", "Home", "Ctrl+e", "End", "Ctrl+f", "Right", "Ctrl+b", "Left", "Alt+f", "Ctrl+Right", "Alt+b", "Ctrl+Left",
   "Ctrl+d", "Delete", "Ctrl+k", "Ctrl+u", "Ctrl+h", "BackSpace", "Ctrl+w"]

theorem update_default (cl : List A → List (List A)) (hnil : cl [] = []) (al : List A → Bool) (m : TIC A) (s : String)
    (c a sup : Bool) (t : List A) (hs : s ∉ allLabels) :
    tiRunUpdate genTi cl al m (.key s c a sup t) = TextInputCl.update cl al m (.key s c a sup t) := by
  obtain ⟨content, cursor, offset, paste⟩ := m
  simp only [allLabels, List.mem_cons, List.mem_nil_iff, or_false, not_or] at hs
  obtain ⟨l1, l2, l3, l4, l5, l6, l7, l8, l9, l10, l11, l12, l13, l14, l15, l16, l17, l18, l19⟩ := hs
  cases c
  · cases a
    · cases sup
      · by_cases ht : t = []
        · subst ht
          ti_arm [l1, l2, l3, l4, l5, l6, l7, l8, l9, l10, l11, l12, l13, l14, l15, l16, l17, l18, l19, hnil]
        · have he : ¬ (t = []) := ht
          have hsw : execS (tiCx1 genTi cl al) (B.head tiUpdate.body) (env0 ⟨content, cursor, offset, paste⟩ (.key s false false false t)) =
              (match TextInput.insertChars (⟨content, cursor, offset, []⟩ : TextInput.TI (List A)) (cl t) with
               | some m' => .ok (mkDef content offset paste s t (cl t) m'.content m'.cursor (lastO none (cl t)))
               | none => .err "slices.Insert out of range") := by
            sw_simp [l1, l2, l3, l4, l5, l6, l7, l8, l9, l10, l11, l12, l13, l14, l15, l16, l17, l18, l19, he]
            have henv : mkDef content offset paste s t (cl t) content cursor none =
                [("m.content", .chars content), ("m.cursor", .num cursor), ("m.offset", .num offset), ("m.paste", .str paste),
                 ("p0.type", .name "vaxis.Key"), ("p0.EventType", .name "vaxis.EventPress"), ("p0.Text", .str t),
                 ("p0.String()", .name s), ("p0.mod.ModCtrl", .bool false), ("p0.mod.ModAlt", .bool false),
                 ("p0.mod.ModSuper", .bool false), ("p0", .opaque), ("l8", .chars (cl t))] := rfl
            rw [← henv]
            rw [rangeSpec "l9" (mkDef content offset paste s t (cl t)) _ offset ?_ ?_ (cl t) content cursor none]
            · cases TextInput.insertChars (⟨content, cursor, offset, []⟩ : TextInput.TI (List A)) (cl t) <;> simp
            · intro cc cur o g; cases o <;> simp [mkDef, setV]
            · intro cc cur g
              by_cases hr : TextInput.inRange cc cur = true
              · have hr' : EdLang.inRange cc cur = true := hr
                simp [mkDef, getV, setV, hr, hr']
              · have hr2 : TextInput.inRange cc cur = false := by simpa using hr
                have hr' : EdLang.inRange cc cur = false := hr2
                simp [mkDef, getV, setV, hr', hr2]
          have hm : TextInput.keySwitch al ⟨content, cursor, offset, []⟩ s false false false (cl t) =
              (TextInput.insertChars (⟨content, cursor, offset, []⟩ : TextInput.TI (List A)) (cl t)).map (·, false) := by
            by_cases hct : cl t = []
            · simp [TextInput.keySwitch, l1, l2, l3, l4, l5, l6, l7, l8, l9, l10, l11, l12, l13, l14, l15, l16, l17, l18, l19, hct,
                TextInput.insertChars]
            · simp [TextInput.keySwitch, l1, l2, l3, l4, l5, l6, l7, l8, l9, l10, l11, l12, l13, l14, l15, l16, l17, l18, l19, hct]
          cases hi : TextInput.insertChars (⟨content, cursor, offset, []⟩ : TextInput.TI (List A)) (cl t) with
          | none =>
            rw [hi] at hsw hm
            rw [run_err cl al _ _ _ hsw]
            simp [TextInputCl.update, TextInputCl.toG, hm]
          | some m' =>
            rw [hi] at hsw hm
            have hoff : m'.offset = offset ∧ m'.paste = [] := insertChars_frame _ _ _ hi
            rw [run_ok cl al _ _ _ m'.content m'.cursor offset paste "unbound deferred" hsw
              (by cases lastO none (cl t) <;> simp [mkDef, getV]) (by cases lastO none (cl t) <;> simp [mkDef, getV])
              (by cases lastO none (cl t) <;> simp [mkDef, getV]) (by cases lastO none (cl t) <;> simp [mkDef, getV])
              (by cases lastO none (cl t) <;> simp [mkDef, getV])]
            simp [TextInputCl.update, TextInputCl.toG, hm, TextInputCl.ofG, TextInput.clamp, hoff]
      · ti_arm [l1, l2, l3, l4, l5, l6, l7, l8, l9, l10, l11, l12, l13, l14, l15, l16, l17, l18, l19]
    · ti_arm [l1, l2, l3, l4, l5, l6, l7, l8, l9, l10, l11, l12, l13, l14, l15, l16, l17, l18, l19]
  · ti_arm [l1, l2, l3, l4, l5, l6, l7, l8, l9, l10, l11, l12, l13, l14, l15, l16, l17, l18, l19]

/-- `Update`, every event, every state. -/
theorem update_body_eq_model (cl : List A → List (List A)) (hnil : cl [] = []) (al : List A → Bool) (m : TIC A) (ev : Ev A) :
    tiRunUpdate genTi cl al m ev = TextInputCl.update cl al m ev := by
  cases ev with
  | pasteEnd => exact update_pasteEnd cl al m
  | release => exact update_release cl al m
  | pasteKey t => exact update_pasteKey cl al m t
  | other => exact update_other cl al m
  | key s c a sup t =>
    by_cases hs : s ∈ allLabels
    · simp only [allLabels, List.mem_cons, List.mem_nil_iff, or_false] at hs
      rcases hs with rfl | rfl | rfl | rfl | rfl | rfl | rfl | rfl | rfl | rfl | rfl | rfl | rfl | rfl | rfl | rfl | rfl | rfl | rfl
      · exact update_ctrl_a cl al m c a sup t
      · exact update_home cl al m c a sup t
      · exact update_ctrl_e cl al m c a sup t
      · exact update_end cl al m c a sup t
      · exact update_ctrl_f cl al m c a sup t
      · exact update_right cl al m c a sup t
      · exact update_ctrl_b cl al m c a sup t
      · exact update_left cl al m c a sup t
      · exact update_alt_f cl al m c a sup t
      · exact update_ctrl_right cl al m c a sup t
      · exact update_alt_b cl al m c a sup t
      · exact update_ctrl_left cl al m c a sup t
      · exact update_ctrl_d cl al m c a sup t
      · exact update_delete cl al m c a sup t
      · exact update_ctrl_k cl al m c a sup t
      · exact update_ctrl_u cl al m c a sup t
      · exact update_ctrl_h cl al m c a sup t
      · exact update_backspace cl al m c a sup t
      · exact update_ctrl_w cl al m c a sup t
    · exact update_default cl hnil al m s c a sup t hs

/-! ### histories through the translated bodies -/

open VaxisModel.Lemmas.TextInputCl (TIOpC tiStepC tiRunC tiOpSpecC) in
/-- One API call: `Update` and `SetContent` through the translated bodies, `Draw` through the hand model
    (its body is not in the statement language). -/
def tiStepI (al : List A → Bool) (cl : List A → List (List A)) (width : List A → Int) (m : TIC A) : TIOpC A → Option (TIC A)
  | .ev e => tiRunUpdate genTi cl al m e
  | .set s => tiRunSetContent genTi cl al m s
  | .draw p w => tiStepC al cl width m (.draw p w)

open VaxisModel.Lemmas.TextInputCl (TIOpC tiStepC tiRunC tiOpSpecC) in
def tiRunI (al : List A → Bool) (cl : List A → List (List A)) (width : List A → Int) :
    TIC A → List (TIOpC A) → Option (TIC A × List (VaxisModel.Spec.Editor.Op (List A)))
  | m, [] => some (m, [])
  | m, op :: ops =>
    match tiStepI al cl width m op with
    | none => none
    | some m' =>
      match tiRunI al cl width m' ops with
      | none => none
      | some (mf, sops) => some (mf, tiOpSpecC cl m op :: sops)

open VaxisModel.Lemmas.TextInputCl (TIOpC tiStepC tiRunC tiOpSpecC) in
theorem tiStepI_eq (al : List A → Bool) (cl : List A → List (List A)) (hnil : cl [] = []) (width : List A → Int) (m : TIC A)
    (op : TIOpC A) : tiStepI al cl width m op = tiStepC al cl width m op := by
  cases op with
  | ev e => simp [tiStepI, tiStepC, update_body_eq_model cl hnil al m e]
  | set s => simp [tiStepI, tiStepC, setContent_body_eq_model cl al m s]
  | draw p w => rfl

open VaxisModel.Lemmas.TextInputCl (TIOpC tiStepC tiRunC tiOpSpecC) in
theorem tiRunI_eq (al : List A → Bool) (cl : List A → List (List A)) (hnil : cl [] = []) (width : List A → Int) (ops : List (TIOpC A))
    (m : TIC A) : tiRunI al cl width m ops = tiRunC al cl width m ops := by
  induction ops generalizing m with
  | nil => rfl
  | cons op ops ih =>
    simp only [tiRunI, tiRunC, tiStepI_eq al cl hnil]
    cases tiStepC al cl width m op with
    | none => rfl
    | some m' => simp only [ih]; rfl

end VaxisModel.Lemmas.EdLangTIBody
