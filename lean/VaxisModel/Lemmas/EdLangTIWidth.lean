import VaxisModel.Model.EdGen
import VaxisModel.Model.TextInput

/-! C17 — textinput's `widthToCursor` as translated from the source is the model's. -/
namespace VaxisModel.Lemmas.EdLangTIWidth
open VaxisModel.Model.EdLang VaxisModel.Model.EdRun VaxisModel.Gen.EditorLang VaxisModel.Model.EdGen
open VaxisModel.Model

variable {A : Type} [DecidableEq A]

/-- the loop variables, once bound -/
abbrev LV (A : Type) := Option (Int × List A)

/-- the model's loop, also tracking the loop variables -/
def walkW (width : List A → Int) (cursor offset : Int) : List (List A) → Int → Int → LV A → Int × LV A
  | [], _, w, o => (w, o)
  | g :: gs, i, w, _ =>
    if i < offset then walkW width cursor offset gs (i + 1) w (some (i, g))
    else if i = cursor then (w + width g, some (i, g))
    else walkW width cursor offset gs (i + 1) (w + width g) (some (i, g))

theorem walkW_fst (width : List A → Int) (cursor offset : Int) : ∀ (l : List (List A)) (i w : Int) (o : LV A),
    (walkW width cursor offset l i w o).1 = TextInput.widthToCursor width cursor offset l i w := by
  intro l
  induction l with
  | nil => intro i w o; simp [walkW, TextInput.widthToCursor]
  | cons g gs ih =>
    intro i w o
    by_cases h1 : i < offset
    · simp [walkW, TextInput.widthToCursor, h1, ih]
    · by_cases h2 : i = cursor
      · have h3 : ¬ cursor < offset := by omega
        simp [walkW, TextInput.widthToCursor, h2, h3]
      · simp [walkW, TextInput.widthToCursor, h1, h2, ih]

def mkW (chars : List (List A)) (cursor offset : Int) : Int → LV A → Env A := fun w o =>
  match o with
  | none => [("p0", .chars chars), ("p1", .num cursor), ("p2", .num offset), ("l0", .num w)]
  | some (i, c) => [("p0", .chars chars), ("p1", .num cursor), ("p2", .num offset), ("l0", .num w), ("l1", .num i), ("l2", .str c)]

theorem rangeIdxSpec (width : List A → Int) (chars : List (List A)) (cursor offset : Int) (body : Env A → Res A)
    (hbody : ∀ w o i g, body (setV "l2" (.str g) (setV "l1" (.num i) (mkW chars cursor offset w o))) =
      if i < offset then .cont (mkW chars cursor offset w (some (i, g)))
      else if i = cursor then .brk (mkW chars cursor offset (w + width g) (some (i, g)))
      else .ok (mkW chars cursor offset (w + width g) (some (i, g)))) :
    ∀ (l : List (List A)) (i w : Int) (o : LV A),
      rangeIdxN "l1" "l2" body i (l.map V.str) (mkW chars cursor offset w o) =
        .ok (mkW chars cursor offset (walkW width cursor offset l i w o).1 (walkW width cursor offset l i w o).2) := by
  intro l
  induction l with
  | nil => intro i w o; simp [rangeIdxN, walkW]
  | cons g gs ih =>
    intro i w o
    by_cases h1 : i < offset
    · simp only [List.map_cons, rangeIdxN, hbody, h1, if_true, walkW]
      exact ih _ _ _
    · by_cases h2 : i = cursor
      · have h3 : ¬ cursor < offset := by omega
        simp [rangeIdxN, hbody, h2, h3, walkW]
      · simp only [List.map_cons, rangeIdxN, hbody, h1, h2, if_false, walkW]
        exact ih _ _ _

@[simp] theorem genTi_widthToCursor : genTi.widthToCursor = tiWidthToCursor := rfl

/-- `widthToCursor` -/
theorem widthToCursor_body_eq_model (width : List A → Int) (chars : List (List A)) (cursor offset : Int) :
    tiWidthToCursorI genTi width chars cursor offset = some (TextInput.widthToCursor width cursor offset chars 0 0) := by
  simp [tiWidthToCursorI, runFn, tiWidthToCursor, execB, execS, evalE, getV, setV]
  have henv : mkW chars cursor offset 0 none =
      [("p0", .chars chars), ("p1", .num cursor), ("p2", .num offset), ("l0", .num 0)] := rfl
  rw [← henv]
  rw [rangeIdxSpec width chars cursor offset _ ?_ chars 0 0 none]
  · rw [← walkW_fst width cursor offset chars 0 0 none]
    cases (walkW width cursor offset chars 0 0 none).2 with
    | none => simp [mkW, getV]
    | some p => obtain ⟨i, c⟩ := p; simp [mkW, getV]
  · intro w o i g
    cases o with
    | none =>
      by_cases h1 : i < offset
      · simp [mkW, getV, setV, cmpV, cmpI, h1]
      · by_cases h2 : i = cursor
        · have h3 : ¬ cursor < offset := by omega
          simp [mkW, getV, setV, cmpV, cmpI, h2, h3]
        · simp [mkW, getV, setV, cmpV, cmpI, h1, h2]
    | some p =>
      obtain ⟨i0, c0⟩ := p
      by_cases h1 : i < offset
      · simp [mkW, getV, setV, cmpV, cmpI, h1]
      · by_cases h2 : i = cursor
        · have h3 : ¬ cursor < offset := by omega
          simp [mkW, getV, setV, cmpV, cmpI, h2, h3]
        · simp [mkW, getV, setV, cmpV, cmpI, h1, h2]

/-! ### `String()` and `CursorPosition()` -/

@[simp] theorem genTi_string : genTi.string = tiString := rfl
@[simp] theorem genTi_cursorPosition : genTi.cursorPosition = tiCursorPosition := rfl

def mkS (m : TextInputCl.TIC A) : List A → Option (List A) → Env A := fun acc o =>
  match o with
  | none => [("m.content", .chars m.content), ("m.cursor", .num m.cursor), ("m.offset", .num m.offset), ("m.paste", .str m.paste),
             ("l0", .str acc)]
  | some g => [("m.content", .chars m.content), ("m.cursor", .num m.cursor), ("m.offset", .num m.offset), ("m.paste", .str m.paste),
               ("l0", .str acc), ("l1", .str g)]

def lastG (o : Option (List A)) : List (List A) → Option (List A)
  | [] => o
  | g :: gs => lastG (some g) gs

theorem rangeStr (m : TextInputCl.TIC A) (body : Env A → Res A)
    (hbody : ∀ acc o g, body (setV "l1" (.str g) (mkS m acc o)) = .ok (mkS m (acc ++ g) (some g))) :
    ∀ (l : List (List A)) (acc : List A) (o : Option (List A)),
      rangeN "l1" body (l.map V.str) (mkS m acc o) = .ok (mkS m (acc ++ l.flatten) (lastG o l)) := by
  intro l
  induction l with
  | nil => intro acc o; simp [rangeN, lastG]
  | cons g gs ih =>
    intro acc o
    simp only [List.map_cons, rangeN, hbody, lastG, List.flatten_cons]
    rw [ih]
    simp

/-- `String()`: the concatenation of the content's graphemes. -/
theorem string_body_eq_model (m : TextInputCl.TIC A) : tiStringI genTi m = some m.content.flatten := by
  simp [tiStringI, runFn, tiString, execB, execS, evalE, envOfTI, getV, setV]
  have henv : mkS m [] none =
      [("m.content", .chars m.content), ("m.cursor", .num m.cursor), ("m.offset", .num m.offset), ("m.paste", .str m.paste),
       ("l0", .str [])] := rfl
  rw [← henv, rangeStr m _ ?_ m.content [] none]
  · cases lastG none m.content <;> simp [mkS, getV]
  · intro acc o g
    cases o <;> simp [mkS, getV, setV]

/-- `CursorPosition()` -/
theorem cursorPosition_body_eq_model (m : TextInputCl.TIC A) : tiCursorPositionI genTi m = some m.cursor := by
  simp [tiCursorPositionI, runFn, tiCursorPosition, execB, execS, evalE, envOfTI, getV]

end VaxisModel.Lemmas.EdLangTIWidth
