import VaxisModel.Model.TextField
import VaxisModel.Spec.Editor

/-! Helper lemmas for C17: the grapheme-walking loops of TextField compute take/drop/eraseIdx. -/
namespace VaxisModel.Lemmas.Editor
open VaxisModel.Model.TextField

theorem insertLoop_eq {G : Type} (s : List G) (cursor : Nat) :
    ∀ (rest : List G) (i : Nat) (next : List G), i ≤ cursor →
    insertLoop s cursor rest i next = (next ++ rest.take (cursor - i) ++ s, rest.drop (cursor - i)) := by
  intro rest
  induction rest with
  | nil => intro i next _; simp [insertLoop]
  | cons c rest ih =>
    intro i next hi
    unfold insertLoop
    by_cases h : i < cursor
    · simp only [h, ↓reduceIte]
      rw [ih (i + 1) (next ++ [c]) (by omega)]
      have : cursor - i = (cursor - (i + 1)) + 1 := by omega
      rw [this]
      simp
    · simp only [h, ↓reduceIte]
      have : cursor - i = 0 := by omega
      rw [this]
      simp

theorem delRightLoop_past {G : Type} (cursor : Nat) :
    ∀ (rest : List G) (i : Nat) (next : List G), cursor < i →
    delRightLoop cursor rest i next = next ++ rest := by
  intro rest
  induction rest with
  | nil => intro i next _; simp [delRightLoop]
  | cons c rest ih =>
    intro i next hi
    unfold delRightLoop
    have : ¬ i = cursor := by omega
    simp only [this, ↓reduceIte]
    rw [ih (i + 1) _ (by omega)]
    simp

theorem delRightLoop_eq {G : Type} (cursor : Nat) :
    ∀ (rest : List G) (i : Nat) (next : List G), i ≤ cursor →
    delRightLoop cursor rest i next = next ++ rest.eraseIdx (cursor - i) := by
  intro rest
  induction rest with
  | nil => intro i next _; simp [delRightLoop]
  | cons c rest ih =>
    intro i next hi
    unfold delRightLoop
    by_cases h : i = cursor
    · simp only [h, ↓reduceIte]
      rw [delRightLoop_past cursor rest (cursor + 1) next (by omega)]
      simp
    · simp only [h, ↓reduceIte]
      rw [ih (i + 1) _ (by omega)]
      have : cursor - i = (cursor - (i + 1)) + 1 := by omega
      rw [this]
      simp

theorem delLeftLoop_past {G : Type} (cursor : Nat) :
    ∀ (rest : List G) (i : Nat) (next : List G), cursor ≤ i →
    delLeftLoop cursor rest i next = next ++ rest := by
  intro rest
  induction rest with
  | nil => intro i next _; simp [delLeftLoop]
  | cons c rest ih =>
    intro i next hi
    unfold delLeftLoop
    have : ¬ i + 1 = cursor := by omega
    simp only [this, ↓reduceIte]
    rw [ih (i + 1) _ (by omega)]
    simp

theorem delLeftLoop_eq {G : Type} (cursor : Nat) :
    ∀ (rest : List G) (i : Nat) (next : List G), i + 1 ≤ cursor →
    delLeftLoop cursor rest i next = next ++ rest.eraseIdx (cursor - 1 - i) := by
  intro rest
  induction rest with
  | nil => intro i next _; simp [delLeftLoop]
  | cons c rest ih =>
    intro i next hi
    unfold delLeftLoop
    by_cases h : i + 1 = cursor
    · simp only [h, ↓reduceIte]
      rw [delLeftLoop_past cursor rest cursor next (by omega)]
      have : cursor - 1 - i = 0 := by omega
      rw [this]
      simp
    · simp only [h, ↓reduceIte]
      rw [ih (i + 1) _ (by omega)]
      have : cursor - 1 - i = (cursor - 1 - (i + 1)) + 1 := by omega
      rw [this]
      simp

theorem killLoop_eq {G : Type} (cursor : Nat) :
    ∀ (rest : List G) (i : Nat) (next : List G), i ≤ cursor →
    killLoop cursor rest i next = next ++ rest.take (cursor - i) := by
  intro rest
  induction rest with
  | nil => intro i next _; simp [killLoop]
  | cons c rest ih =>
    intro i next hi
    unfold killLoop
    by_cases h : i = cursor
    · simp only [h, ↓reduceIte]
      simp
    · simp only [h, ↓reduceIte]
      rw [ih (i + 1) _ (by omega)]
      have : cursor - i = (cursor - (i + 1)) + 1 := by omega
      rw [this]
      simp

end VaxisModel.Lemmas.Editor

namespace VaxisModel.Lemmas.Editor
open VaxisModel.Model.TextField
open VaxisModel.Spec.Editor (Ed Op Callback)

/-- Representation invariant of TextField: the cached count is the grapheme count of `Value`, and
the cursor is within the text. -/
def Inv {G : Type} (tf : TF G) : Prop := tf.n = tf.value.length ∧ tf.cursor ≤ tf.value.length

/-- Abstraction function: the ideal editor state a TextField represents. -/
def abs {G : Type} (tf : TF G) : Ed G := ⟨tf.value, tf.cursor⟩

def absCall {G : Type} : Call G → Callback G
  | .change v => .change v
  | .submit v => .submit v

/-- What a key event means to the ideal editor: the binding table of the widget (first match in
source order), independent of the editing functions. -/
def meaningOf {G : Type} (ev : KeyEv G) : Op G :=
  if ev.release then .noop
  else if ev.text.length > 0 then .insert ev.text
  else if ev.home then .home
  else if ev.toEnd then .toEnd
  else if ev.right then .right
  else if ev.left then .left
  else if ev.delRight then .deleteRight
  else if ev.delLeft then .deleteLeft
  else if ev.kill then .killToEnd
  else if ev.enter then .submit
  else .noop

/-- The operations of TextField's exported API. -/
inductive TFOp (G : Type) where
  | key (ev : KeyEv G)
  | ins (s : List G)
  | cur (i : Nat)
  | delr
  | dell
  | kill
  | reset

def tfStep {G : Type} [DecidableEq G] (tf : TF G) : TFOp G → TF G × List (Call G)
  | .key ev => handleKey tf ev
  | .ins s => (insertString tf s, [])
  | .cur i => ((cursorTo tf i).1, [])
  | .delr => ((deleteRight tf).1, [])
  | .dell => ((deleteLeft tf).1, [])
  | .kill => ((killToEnd tf).1, [])
  | .reset => (VaxisModel.Model.TextField.reset tf, [])

def specOf {G : Type} : TFOp G → Op G
  | .key ev => meaningOf ev
  | .ins s => .insert s
  | .cur i => .moveTo i
  | .delr => .deleteRight
  | .dell => .deleteLeft
  | .kill => .killToEnd
  | .reset => .reset

def tfRun {G : Type} [DecidableEq G] (tf : TF G) : List (TFOp G) → TF G
  | [] => tf
  | op :: ops => tfRun (tfStep tf op).1 ops

variable {G : Type} (isWord : G → Bool)

theorem insert_refines (tf : TF G) (s : List G) (h : Inv tf) :
    Inv (insertString tf s) ∧ abs (insertString tf s) = VaxisModel.Spec.Editor.apply isWord (abs tf) (.insert s) := by
  obtain ⟨hn, hc⟩ := h
  unfold insertString
  rw [insertLoop_eq s tf.cursor tf.value 0 [] (Nat.zero_le _)]
  constructor
  · constructor
    · rfl
    · simp only [count, List.nil_append, Nat.sub_zero, List.length_append, List.length_take, List.length_drop]
      omega
  · simp only [abs, VaxisModel.Spec.Editor.apply, count, List.nil_append, Nat.sub_zero, List.length_append,
      List.length_take, Nat.min_eq_left hc]

theorem cursorTo_refines (tf : TF G) (i : Nat) (h : Inv tf) :
    Inv (cursorTo tf i).1 ∧ abs (cursorTo tf i).1 = VaxisModel.Spec.Editor.apply isWord (abs tf) (.moveTo i) := by
  obtain ⟨hn, hc⟩ := h
  unfold cursorTo
  simp only [abs, VaxisModel.Spec.Editor.apply, Inv]
  split <;> split <;> simp_all <;> omega

theorem deleteRight_refines (tf : TF G) (h : Inv tf) :
    Inv (deleteRight tf).1 ∧ abs (deleteRight tf).1 = VaxisModel.Spec.Editor.apply isWord (abs tf) .deleteRight := by
  obtain ⟨hn, hc⟩ := h
  unfold deleteRight
  split
  · rename_i heq
    refine ⟨⟨hn, hc⟩, ?_⟩
    simp only [abs, VaxisModel.Spec.Editor.apply]
    rw [List.eraseIdx_of_length_le (by omega)]
  · rename_i hne
    rw [delRightLoop_eq tf.cursor tf.value 0 [] (Nat.zero_le _)]
    refine ⟨⟨rfl, ?_⟩, ?_⟩
    · simp only [List.nil_append, Nat.sub_zero]
      rw [List.length_eraseIdx]
      split <;> omega
    · simp [abs, VaxisModel.Spec.Editor.apply]

theorem deleteLeft_refines (tf : TF G) (h : Inv tf) :
    Inv (deleteLeft tf).1 ∧ abs (deleteLeft tf).1 = VaxisModel.Spec.Editor.apply isWord (abs tf) .deleteLeft := by
  obtain ⟨hn, hc⟩ := h
  unfold deleteLeft
  split
  · rename_i heq
    refine ⟨⟨hn, hc⟩, ?_⟩
    simp [abs, VaxisModel.Spec.Editor.apply, heq]
  · rename_i hne
    rw [delLeftLoop_eq tf.cursor tf.value 0 [] (by omega)]
    refine ⟨⟨rfl, ?_⟩, ?_⟩
    · simp only [List.nil_append, Nat.sub_zero]
      rw [List.length_eraseIdx]
      split <;> omega
    · simp [abs, VaxisModel.Spec.Editor.apply, hne]

theorem killToEnd_refines (tf : TF G) (h : Inv tf) :
    Inv (killToEnd tf).1 ∧ abs (killToEnd tf).1 = VaxisModel.Spec.Editor.apply isWord (abs tf) .killToEnd := by
  obtain ⟨hn, hc⟩ := h
  unfold killToEnd
  split
  · rename_i heq
    refine ⟨⟨hn, hc⟩, ?_⟩
    simp only [abs, VaxisModel.Spec.Editor.apply]
    rw [List.take_of_length_le (by omega)]
  · rename_i hne
    rw [killLoop_eq tf.cursor tf.value 0 [] (Nat.zero_le _)]
    refine ⟨⟨rfl, ?_⟩, ?_⟩
    · simp only [List.nil_append, Nat.sub_zero, List.length_take]
      omega
    · simp [abs, VaxisModel.Spec.Editor.apply]

theorem reset_refines (tf : TF G) :
    Inv (VaxisModel.Model.TextField.reset tf) ∧
    abs (VaxisModel.Model.TextField.reset tf) = VaxisModel.Spec.Editor.apply isWord (abs tf) .reset := by
  simp [VaxisModel.Model.TextField.reset, Inv, abs, VaxisModel.Spec.Editor.apply]

theorem callbacks_ne_submit [DecidableEq G] (s : Ed G) (op : Op G) (h : op ≠ .submit) :
    VaxisModel.Spec.Editor.callbacks isWord s op =
      if (VaxisModel.Spec.Editor.apply isWord s op).text = s.text then []
      else [.change (VaxisModel.Spec.Editor.apply isWord s op).text] := by
  cases op <;> first | rfl | exact absurd rfl h

theorem checkChanged_eq [DecidableEq G] (tf tf' : TF G) (op : Op G)
    (ha : abs tf' = VaxisModel.Spec.Editor.apply isWord (abs tf) op) (hop : op ≠ .submit) :
    (checkChanged tf.value tf').map absCall = VaxisModel.Spec.Editor.callbacks isWord (abs tf) op := by
  have hv : (VaxisModel.Spec.Editor.apply isWord (abs tf) op).text = tf'.value := by rw [← ha]; rfl
  rw [callbacks_ne_submit isWord _ _ hop, hv]
  unfold checkChanged
  simp only [abs]
  split <;> rename_i hh <;> simp [absCall, hh]

theorem handleKey_refines [DecidableEq G] (tf : TF G) (ev : KeyEv G) (h : Inv tf) :
    Inv (handleKey tf ev).1 ∧
    abs (handleKey tf ev).1 = VaxisModel.Spec.Editor.apply isWord (abs tf) (meaningOf ev) ∧
    (handleKey tf ev).2.map absCall = VaxisModel.Spec.Editor.callbacks isWord (abs tf) (meaningOf ev) := by
  unfold handleKey meaningOf
  split
  · exact ⟨h, rfl, by simp [VaxisModel.Spec.Editor.callbacks, VaxisModel.Spec.Editor.apply]⟩
  split
  · have := insert_refines isWord tf ev.text h
    exact ⟨this.1, this.2, checkChanged_eq isWord tf _ _ this.2 (by intro h; cases h)⟩
  split
  · have := cursorTo_refines isWord tf 0 h
    refine ⟨this.1, ?_, ?_⟩
    · rw [this.2]; simp [VaxisModel.Spec.Editor.apply]
    · simp [VaxisModel.Spec.Editor.callbacks, VaxisModel.Spec.Editor.apply]
  split
  · have := cursorTo_refines isWord tf tf.n h
    refine ⟨this.1, ?_, ?_⟩
    · rw [this.2]; simp [VaxisModel.Spec.Editor.apply, abs, h.1]
    · simp [VaxisModel.Spec.Editor.callbacks, VaxisModel.Spec.Editor.apply]
  split
  · have := cursorTo_refines isWord tf (tf.cursor + 1) h
    refine ⟨this.1, ?_, ?_⟩
    · rw [this.2]; simp [VaxisModel.Spec.Editor.apply, abs]
    · simp [VaxisModel.Spec.Editor.callbacks, VaxisModel.Spec.Editor.apply]
  split
  · split
    · rename_i h0
      refine ⟨h, ?_, ?_⟩
      · simp [VaxisModel.Spec.Editor.apply, abs, h0]
      · simp [VaxisModel.Spec.Editor.callbacks, VaxisModel.Spec.Editor.apply]
    · have := cursorTo_refines isWord tf (tf.cursor - 1) h
      refine ⟨this.1, ?_, ?_⟩
      · rw [this.2]
        have := h.2
        simp only [VaxisModel.Spec.Editor.apply, abs]
        congr 1
        omega
      · simp [VaxisModel.Spec.Editor.callbacks, VaxisModel.Spec.Editor.apply]
  split
  · have := deleteRight_refines isWord tf h
    exact ⟨this.1, this.2, checkChanged_eq isWord tf _ _ this.2 (by intro h; cases h)⟩
  split
  · have := deleteLeft_refines isWord tf h
    exact ⟨this.1, this.2, checkChanged_eq isWord tf _ _ this.2 (by intro h; cases h)⟩
  split
  · have := killToEnd_refines isWord tf h
    exact ⟨this.1, this.2, checkChanged_eq isWord tf _ _ this.2 (by intro h; cases h)⟩
  split
  · have := reset_refines isWord tf
    refine ⟨this.1, ?_, ?_⟩
    · rw [this.2]; simp [VaxisModel.Spec.Editor.apply]
    · simp [VaxisModel.Spec.Editor.callbacks, absCall, abs]
  · exact ⟨h, rfl, by simp [VaxisModel.Spec.Editor.callbacks, VaxisModel.Spec.Editor.apply]⟩

theorem tfStep_refines [DecidableEq G] (tf : TF G) (op : TFOp G) (h : Inv tf) :
    Inv (tfStep tf op).1 ∧ abs (tfStep tf op).1 = VaxisModel.Spec.Editor.apply isWord (abs tf) (specOf op) := by
  cases op with
  | key ev => have := handleKey_refines isWord tf ev h; exact ⟨this.1, this.2.1⟩
  | ins s => exact insert_refines isWord tf s h
  | cur i => exact cursorTo_refines isWord tf i h
  | delr => exact deleteRight_refines isWord tf h
  | dell => exact deleteLeft_refines isWord tf h
  | kill => exact killToEnd_refines isWord tf h
  | reset => exact reset_refines isWord tf

theorem tfRun_refines [DecidableEq G] : ∀ (ops : List (TFOp G)) (tf : TF G), Inv tf →
    Inv (tfRun tf ops) ∧ abs (tfRun tf ops) = VaxisModel.Spec.Editor.run isWord (abs tf) (ops.map specOf) := by
  intro ops
  induction ops with
  | nil => intro tf h; exact ⟨h, rfl⟩
  | cons op ops ih =>
    intro tf h
    have hs := tfStep_refines isWord tf op h
    have := ih (tfStep tf op).1 hs.1
    refine ⟨this.1, ?_⟩
    simp only [tfRun, List.map_cons, VaxisModel.Spec.Editor.run]
    rw [this.2, hs.2]

end VaxisModel.Lemmas.Editor

namespace VaxisModel.Lemmas.Editor
open VaxisModel.Model.TextField

/-- Display width of a list of graphemes. -/
def widthSum {G : Type} (width : G → Nat) : List G → Nat
  | [] => 0
  | g :: gs => width g + widthSum width gs

/-- Display width of a grapheme drawn as characters of widths `ws`. -/
def sumW : List Nat → Nat
  | [] => 0
  | w :: ws => w + sumW ws

/-- Display width of a grapheme: the total width of the characters it is drawn as. -/
def cellWidth {G : Type} (chars : G → List Nat) (g : G) : Nat := sumW (chars g)

theorem drawChars_eq (ws : List Nat) : ∀ c : Nat, drawChars ws (UInt16.ofNat c) = UInt16.ofNat (c + sumW ws) := by
  induction ws with
  | nil => intro c; simp [drawChars, sumW]
  | cons w ws ih =>
    intro c
    have := ih (c + w)
    simp only [drawChars, List.foldl_cons, sumW] at this ⊢
    rw [← UInt16.ofNat_add, this, Nat.add_assoc]

/-- The `Draw` loop, started at grapheme index `i` in column `ofNat c`, ends in column
`ofNat (c + widthSum l)`, and its cursor column is the column reached after `cursor - i` graphemes if
the cursor lies in `(i, i + l.length]`. -/
theorem drawLoop_eq {G : Type} (chars : G → List Nat) (cursor : Nat) :
    ∀ (l : List G) (i c : Nat) (cur : UInt16),
    drawLoop chars cursor l i (UInt16.ofNat c) cur =
      (i + l.length, UInt16.ofNat (c + widthSum (cellWidth chars) l),
        if i < cursor ∧ cursor ≤ i + l.length then UInt16.ofNat (c + widthSum (cellWidth chars) (l.take (cursor - i))) else cur) := by
  intro l
  induction l with
  | nil =>
    intro i c cur
    have : ¬ (i < cursor ∧ cursor ≤ i + ([] : List G).length) := by simp
    rw [if_neg this]
    simp [drawLoop, widthSum]
  | cons g gs ih =>
    intro i c cur
    unfold drawLoop
    simp only []
    rw [drawChars_eq, ih (i + 1) (c + sumW (chars g))]
    have e1 : i + 1 + gs.length = i + (g :: gs).length := by simp; omega
    have e2 : c + sumW (chars g) + widthSum (cellWidth chars) gs = c + widthSum (cellWidth chars) (g :: gs) := by
      simp [widthSum, cellWidth]; omega
    rw [e1, e2]
    congr 2
    by_cases h1 : i + 1 = cursor
    · have hc1 : ¬ (i + 1 < cursor ∧ cursor ≤ i + (g :: gs).length) := by omega
      have hc2 : i < cursor ∧ cursor ≤ i + (g :: gs).length := by simp; omega
      have h3 : cursor - i = 1 := by omega
      rw [if_neg hc1, if_pos hc2, if_pos h1, h3]
      simp [widthSum, cellWidth]
    · by_cases h2 : i + 1 < cursor ∧ cursor ≤ i + (g :: gs).length
      · have hc2 : i < cursor ∧ cursor ≤ i + (g :: gs).length := by omega
        have h3 : cursor - i = (cursor - (i + 1)) + 1 := by omega
        rw [if_pos h2, if_pos hc2, h3, List.take_succ_cons]
        simp only [widthSum, cellWidth, Nat.add_assoc]
      · have hc2 : ¬ (i < cursor ∧ cursor ≤ i + (g :: gs).length) := by omega
        rw [if_neg h2, if_neg hc2, if_neg h1]

/-- `cursor_column` (TextField): the cursor column computed by `Draw` is the display width of the
text before the cursor (as a `uint16`, like every column in vxfw). -/
theorem drawCursorCol_eq {G : Type} (chars : G → List Nat) (tf : TF G) :
    drawCursorCol chars tf = UInt16.ofNat (widthSum (cellWidth chars) (tf.value.take tf.cursor)) := by
  unfold drawCursorCol
  have h0 : (0 : UInt16) = UInt16.ofNat 0 := rfl
  have := drawLoop_eq chars tf.cursor tf.value 0 0 (UInt16.ofNat 0)
  simp only [Nat.zero_add, Nat.sub_zero] at this
  rw [h0, this]
  simp only
  by_cases h1 : tf.value.length < tf.cursor
  · rw [if_pos h1, List.take_of_length_le (by omega)]
  · rw [if_neg h1]
    by_cases h2 : 0 < tf.cursor
    · rw [if_pos ⟨h2, by omega⟩]
    · have h3 : tf.cursor = 0 := by omega
      rw [if_neg (by omega), h3]
      simp [widthSum]

end VaxisModel.Lemmas.Editor
