/-! The bookkeeping of the two widgets as the models `Model.TextField(Cl)`, `Model.TextInput(Cl)`,
`Model.TextInputCells` transcribe it: per function, in source order, every write to a field of the
receiver, every receiver-method call statement, every `return`, the `case` labels, and every loop in
full.  `Props.C17.facts_*` compare these tables with `Gen.EditorBodies`, which the extractor
regenerates from /repo on every run: dropping, adding or changing a state update (a `tf.n = …`
recount, the `tf.cursor = …` of the insert, `m.resegment()`, a loop guard) breaks a theorem.
Since round 4 the texts are printed with the function's own variables renamed (receiver `tf` / `m`, parameters `p0…`,
locals `l0…` in order of declaration): renaming a variable is silent. -/
namespace VaxisModel.Lemmas.EditorBodies

/-- state writes, receiver calls, returns and loops of TextField.HandleEvent (vxfw/textfield/textfield.go), in source order -/
def tfHandleEvent : List String := [
  "case vaxis.Key:",
  "return nil, nil",
  "l1 := tf.InsertStringAtCursor(p0.Text)",
  "return tf.checkChanged(l1, l0)",
  "return tf.CursorTo(0), nil",
  "return tf.CursorTo(tf.n), nil",
  "return tf.CursorTo(tf.cursor + 1), nil",
  "return nil, nil",
  "return tf.CursorTo(tf.cursor - 1), nil",
  "l1 := tf.DeleteCharRightOfCursor()",
  "return tf.checkChanged(l1, l0)",
  "l1 := tf.DeleteCharLeftOfCursor()",
  "return tf.checkChanged(l1, l0)",
  "l1 := tf.DeleteCursorToEndOfLine()",
  "return tf.checkChanged(l1, l0)",
  "defer tf.Reset()",
  "return tf.OnSubmit(tf.Value)",
  "return vxfw.ConsumeAndRedraw(), nil",
  "return nil, nil"
]

/-- state writes, receiver calls, returns and loops of TextField.checkChanged (vxfw/textfield/textfield.go), in source order -/
def tfCheckChanged : List String := [
  "return p0, nil",
  "l0, l1 := tf.OnChange(tf.Value)",
  "return nil, l1",
  "return []vxfw.Command{p0, l0}, nil",
  "return p0, nil"
]

/-- state writes, receiver calls, returns and loops of TextField.Reset (vxfw/textfield/textfield.go), in source order -/
def tfReset : List String := [
  "tf.n = 0",
  "tf.Value = \"\"",
  "tf.cursor = 0"
]

/-- state writes, receiver calls, returns and loops of TextField.InsertStringAtCursor (vxfw/textfield/textfield.go), in source order -/
def tfInsertStringAtCursor : List String := [
  "tf.insertStringAtCursor(p0)",
  "tf.n = graphemeCountInString(tf.Value)",
  "return vxfw.ConsumeAndRedraw()"
]

/-- state writes, receiver calls, returns and loops of TextField.CursorTo (vxfw/textfield/textfield.go), in source order -/
def tfCursorTo : List String := [
  "return nil",
  "tf.cursor = p0",
  "return vxfw.ConsumeAndRedraw()"
]

/-- state writes, receiver calls, returns and loops of TextField.DeleteCharRightOfCursor (vxfw/textfield/textfield.go), in source order -/
def tfDeleteCharRightOfCursor : List String := [
  "return nil",
  "for len(l1) > 0 {",
  "l0, l1, _, l2 = uniseg.FirstGraphemeClusterInString(l1, l2)",
  "if l3 == tf.cursor {",
  "l3 += 1",
  "continue",
  "}",
  "l3 += 1",
  "l4.WriteString(l0)",
  "}",
  "tf.Value = l4.String()",
  "tf.n = graphemeCountInString(tf.Value)",
  "return vxfw.ConsumeAndRedraw()"
]

/-- state writes, receiver calls, returns and loops of TextField.DeleteCharLeftOfCursor (vxfw/textfield/textfield.go), in source order -/
def tfDeleteCharLeftOfCursor : List String := [
  "return nil",
  "for len(l1) > 0 {",
  "l0, l1, _, l2 = uniseg.FirstGraphemeClusterInString(l1, l2)",
  "l3 += 1",
  "if l3 == tf.cursor {",
  "continue",
  "}",
  "l4.WriteString(l0)",
  "}",
  "tf.Value = l4.String()",
  "tf.n = graphemeCountInString(tf.Value)",
  "tf.cursor -= 1",
  "return vxfw.ConsumeAndRedraw()"
]

/-- state writes, receiver calls, returns and loops of TextField.DeleteCursorToEndOfLine (vxfw/textfield/textfield.go), in source order -/
def tfDeleteCursorToEndOfLine : List String := [
  "return nil",
  "for len(l1) > 0 {",
  "l0, l1, _, l2 = uniseg.FirstGraphemeClusterInString(l1, l2)",
  "if l3 == tf.cursor {",
  "break",
  "}",
  "l3 += 1",
  "l4.WriteString(l0)",
  "}",
  "tf.Value = l4.String()",
  "tf.n = graphemeCountInString(tf.Value)",
  "return vxfw.ConsumeAndRedraw()"
]

/-- state writes, receiver calls, returns and loops of TextField.Draw (vxfw/textfield/textfield.go), in source order -/
def tfDraw : List String := [
  "return vxfw.Surface{}, nil",
  "for len(l4) > 0 {",
  "l3, l4, _, l5 = uniseg.FirstGraphemeClusterInString(l4, l5)",
  "for _, l6 := range p0.Characters(l3) {",
  "l7 := vaxis.Cell{ Character: l6, Style: tf.Style, }",
  "l0.WriteCell(l2, 0, l7)",
  "l2 += uint16(l6.Width)",
  "}",
  "l1 += 1",
  "if l1 == tf.cursor {",
  "l0.Cursor.Col = l2",
  "}",
  "}",
  "return l0, nil"
]

/-- state writes, receiver calls, returns and loops of TextField.insertStringAtCursor (vxfw/textfield/textfield.go), in source order -/
def tfInsertLoop : List String := [
  "for {",
  "if len(l1) > 0 && l3 < tf.cursor {",
  "l0, l1, _, l2 = uniseg.FirstGraphemeClusterInString(l1, l2)",
  "l4.WriteString(l0)",
  "l3 += 1",
  "continue",
  "}",
  "l4.WriteString(p0)",
  "tf.cursor = graphemeCountInString(l4.String())",
  "l4.WriteString(l1)",
  "break",
  "}",
  "tf.Value = l4.String()"
]

/-- statement skeleton of graphemeCountInString -/
def tfGraphemeCount : List String := [
  "var ( l0 = p0 l1 = -1 l2 uint = 0 )",
  "for len(l0) > 0 {",
  "_, l0, _, l1 = uniseg.FirstGraphemeClusterInString(l0, l1)",
  "l2 += 1",
  "}",
  "return l2"
]

/-- state writes, receiver calls, returns and loops of textinput.Model.SetContent (widgets/textinput/textinput.go), in source order -/
def tiSetContent : List String := [
  "m.content = vaxis.Characters(p0)",
  "m.cursor = len(m.content)",
  "return m"
]

/-- state writes, receiver calls, returns and loops of textinput.Model.Update (widgets/textinput/textinput.go), in source order -/
def tiUpdate : List String := [
  "case vaxis.PasteEndEvent:",
  "m.content = slices.Insert(m.content, m.cursor, l0...)",
  "m.cursor += len(l0)",
  "m.paste = []rune{}",
  "case vaxis.Key:",
  "return",
  "m.paste = append(m.paste, []rune(p0.Text)...)",
  "return",
  "case \"Ctrl+a\", \"Home\":",
  "m.cursor = 0",
  "case \"Ctrl+e\", \"End\":",
  "m.cursor = len(m.content)",
  "case \"Ctrl+f\", \"Right\":",
  "m.cursor += 1",
  "case \"Ctrl+b\", \"Left\":",
  "m.cursor -= 1",
  "case \"Alt+f\", \"Ctrl+Right\":",
  "for l1 := m.cursor; l1 < len(m.content); l1 += 1 {",
  "if !isAlphaNumeric(m.content[l1]) {",
  "m.cursor += 1",
  "continue",
  "}",
  "break",
  "}",
  "for l1 := m.cursor; l1 < len(m.content); l1 += 1 {",
  "if isAlphaNumeric(m.content[l1]) {",
  "m.cursor += 1",
  "continue",
  "}",
  "break",
  "}",
  "case \"Alt+b\", \"Ctrl+Left\":",
  "m.cursor -= 1",
  "m.cursor = len(m.content) - 1",
  "for l1 := m.cursor; l1 >= 0; l1 -= 1 {",
  "if !isAlphaNumeric(m.content[l1]) {",
  "m.cursor -= 1",
  "continue",
  "}",
  "break",
  "}",
  "for l1 := m.cursor; l1 >= 0; l1 -= 1 {",
  "if isAlphaNumeric(m.content[l1]) {",
  "m.cursor -= 1",
  "continue",
  "}",
  "m.cursor += 1",
  "break",
  "}",
  "case \"Ctrl+d\", \"Delete\":",
  "case m.cursor == len(m.content):",
  "m.content = m.content[:m.cursor]",
  "default:",
  "m.content = append(m.content[:m.cursor], m.content[m.cursor+1:]...)",
  "case \"Ctrl+k\":",
  "m.content = m.content[:m.cursor]",
  "case \"Ctrl+u\":",
  "m.content = m.content[m.cursor:]",
  "m.cursor = 0",
  "case \"Ctrl+h\", \"BackSpace\":",
  "case m.cursor == 0:",
  "return",
  "case m.cursor == len(m.content):",
  "m.content = m.content[:m.cursor-1]",
  "default:",
  "m.content = append(m.content[:m.cursor-1], m.content[m.cursor:]...)",
  "m.cursor -= 1",
  "case \"Ctrl+w\":",
  "return",
  "for l1 := m.cursor - 1; l1 >= 0; l1-- {",
  "if !isAlphaNumeric(m.content[l1]) {",
  "m.cursor--",
  "continue",
  "}",
  "break",
  "}",
  "for l1 := m.cursor - 1; l1 >= 0; l1-- {",
  "if isAlphaNumeric(m.content[l1]) {",
  "m.cursor--",
  "continue",
  "}",
  "break",
  "}",
  "m.content = append(m.content[:m.cursor], m.content[originalCursor:]...)",
  "default:",
  "return",
  "return",
  "return",
  "for _, l3 := range l0 {",
  "m.content = slices.Insert(m.content, m.cursor, l3)",
  "m.cursor += 1",
  "}",
  "m.cursor = len(m.content)",
  "m.cursor = 0",
  "m.resegment()"
]

/-- state writes, receiver calls, returns and loops of textinput.Model.resegment (widgets/textinput/textinput.go), in source order -/
def tiResegment : List String := [
  "m.content = vaxis.Characters(m.String())",
  "m.cursor = len(vaxis.Characters(l0.String()))"
]

/-- state writes, receiver calls, returns and loops of textinput.Model.Draw (widgets/textinput/textinput.go), in source order -/
def tiDraw : List String := [
  "return",
  "for _, l2 := range m.prompt {",
  "l3 := vaxis.Cell{ Character: l2, Style: m.Prompt, }",
  "p0.SetCell(l1, 0, l3)",
  "l1 += l2.Width",
  "if l1 >= l0 {",
  "return",
  "}",
  "}",
  "m.offset = 0",
  "for m.offset < m.cursor && widthToCursor(l4, m.cursor, m.offset)+l1+scrolloff >= l0 {",
  "m.offset += 1",
  "}",
  "m.offset = m.cursor - scrolloff",
  "m.offset = 0",
  "for l6, l2 := range m.content {",
  "if l6 < m.offset {",
  "continue",
  "}",
  "if l6+1 == m.cursor {",
  "l5 = l1 + l2.Width",
  "}",
  "l3 := vaxis.Cell{ Character: l2, Style: m.Content, }",
  "if m.invisibleChar.Grapheme != \"\" {",
  "l3.Character = m.invisibleChar",
  "}",
  "if m.offset > 0 && l6 == m.offset {",
  "l3.Character = truncator",
  "}",
  "if l1+l2.Width >= l0 {",
  "l3.Character = truncator",
  "}",
  "p0.SetCell(l1, 0, l3)",
  "l1 += l2.Width",
  "if l1 >= l0 {",
  "break",
  "}",
  "}"
]

/-- statement skeleton of isAlphaNumeric -/
def tiIsAlphaNumeric : List String := [
  "l0 := []rune(p0.Grapheme)",
  "if len(l0) > 1 {",
  "return false",
  "}",
  "if unicode.IsLetter(l0[0]) || unicode.IsNumber(l0[0]) {",
  "return true",
  "}",
  "return false"
]

/-- statement skeleton of widthToCursor -/
def tiWidthToCursor : List String := [
  "l0 := 0",
  "for l1, l2 := range p0 {",
  "if l1 < p2 {",
  "continue",
  "}",
  "l0 += l2.Width",
  "if l1 == p1 {",
  "break",
  "}",
  "}",
  "return l0"
]

end VaxisModel.Lemmas.EditorBodies
