/-! The bookkeeping of the two widgets as the models `Model.TextField(Cl)`, `Model.TextInput(Cl)`,
`Model.TextInputCells` transcribe it: per function, in source order, every write to a field of the
receiver, every receiver-method call statement, every `return`, the `case` labels, and every loop in
full.  `Props.C17.facts_*` compare these tables with `Gen.EditorBodies`, which the extractor
regenerates from /repo on every run: dropping, adding or changing a state update (a `tf.n = …`
recount, the `tf.cursor = …` of the insert, `m.resegment()`, a loop guard) breaks a theorem. -/
namespace VaxisModel.Lemmas.EditorBodies

/-- state writes, receiver calls, returns and loops of TextField.HandleEvent (vxfw/textfield/textfield.go), in source order -/
def tfHandleEvent : List String := [
  "case vaxis.Key:",
  "return nil, nil",
  "cmd := tf.InsertStringAtCursor(ev.Text)",
  "return tf.checkChanged(cmd, pre)",
  "return tf.CursorTo(0), nil",
  "return tf.CursorTo(tf.n), nil",
  "return tf.CursorTo(tf.cursor + 1), nil",
  "return nil, nil",
  "return tf.CursorTo(tf.cursor - 1), nil",
  "cmd := tf.DeleteCharRightOfCursor()",
  "return tf.checkChanged(cmd, pre)",
  "cmd := tf.DeleteCharLeftOfCursor()",
  "return tf.checkChanged(cmd, pre)",
  "cmd := tf.DeleteCursorToEndOfLine()",
  "return tf.checkChanged(cmd, pre)",
  "defer tf.Reset()",
  "return tf.OnSubmit(tf.Value)",
  "return vxfw.ConsumeAndRedraw(), nil",
  "return nil, nil"
]

/-- state writes, receiver calls, returns and loops of TextField.checkChanged (vxfw/textfield/textfield.go), in source order -/
def tfCheckChanged : List String := [
  "return cmd, nil",
  "cmd2, err := tf.OnChange(tf.Value)",
  "return nil, err",
  "return []vxfw.Command{cmd, cmd2}, nil",
  "return cmd, nil"
]

/-- state writes, receiver calls, returns and loops of TextField.Reset (vxfw/textfield/textfield.go), in source order -/
def tfReset : List String := [
  "tf.n = 0",
  "tf.Value = \"\"",
  "tf.cursor = 0"
]

/-- state writes, receiver calls, returns and loops of TextField.InsertStringAtCursor (vxfw/textfield/textfield.go), in source order -/
def tfInsertStringAtCursor : List String := [
  "tf.insertStringAtCursor(s)",
  "tf.n = graphemeCountInString(tf.Value)",
  "return vxfw.ConsumeAndRedraw()"
]

/-- state writes, receiver calls, returns and loops of TextField.CursorTo (vxfw/textfield/textfield.go), in source order -/
def tfCursorTo : List String := [
  "return nil",
  "tf.cursor = i",
  "return vxfw.ConsumeAndRedraw()"
]

/-- state writes, receiver calls, returns and loops of TextField.DeleteCharRightOfCursor (vxfw/textfield/textfield.go), in source order -/
def tfDeleteCharRightOfCursor : List String := [
  "return nil",
  "for len(rest) > 0 {",
  "cluster, rest, _, state = uniseg.FirstGraphemeClusterInString(rest, state)",
  "if i == tf.cursor {",
  "i += 1",
  "continue",
  "}",
  "i += 1",
  "next.WriteString(cluster)",
  "}",
  "tf.Value = next.String()",
  "tf.n = graphemeCountInString(tf.Value)",
  "return vxfw.ConsumeAndRedraw()"
]

/-- state writes, receiver calls, returns and loops of TextField.DeleteCharLeftOfCursor (vxfw/textfield/textfield.go), in source order -/
def tfDeleteCharLeftOfCursor : List String := [
  "return nil",
  "for len(rest) > 0 {",
  "cluster, rest, _, state = uniseg.FirstGraphemeClusterInString(rest, state)",
  "i += 1",
  "if i == tf.cursor {",
  "continue",
  "}",
  "next.WriteString(cluster)",
  "}",
  "tf.Value = next.String()",
  "tf.n = graphemeCountInString(tf.Value)",
  "tf.cursor -= 1",
  "return vxfw.ConsumeAndRedraw()"
]

/-- state writes, receiver calls, returns and loops of TextField.DeleteCursorToEndOfLine (vxfw/textfield/textfield.go), in source order -/
def tfDeleteCursorToEndOfLine : List String := [
  "return nil",
  "for len(rest) > 0 {",
  "cluster, rest, _, state = uniseg.FirstGraphemeClusterInString(rest, state)",
  "if i == tf.cursor {",
  "break",
  "}",
  "i += 1",
  "next.WriteString(cluster)",
  "}",
  "tf.Value = next.String()",
  "tf.n = graphemeCountInString(tf.Value)",
  "return vxfw.ConsumeAndRedraw()"
]

/-- state writes, receiver calls, returns and loops of TextField.Draw (vxfw/textfield/textfield.go), in source order -/
def tfDraw : List String := [
  "return vxfw.Surface{}, nil",
  "for len(rest) > 0 {",
  "cluster, rest, _, state = uniseg.FirstGraphemeClusterInString(rest, state)",
  "for _, char := range ctx.Characters(cluster) {",
  "cell := vaxis.Cell{ Character: char, Style: tf.Style, }",
  "s.WriteCell(col, 0, cell)",
  "col += uint16(char.Width)",
  "}",
  "i += 1",
  "if i == tf.cursor {",
  "s.Cursor.Col = col",
  "}",
  "}",
  "return s, nil"
]

/-- state writes, receiver calls, returns and loops of TextField.insertStringAtCursor (vxfw/textfield/textfield.go), in source order -/
def tfInsertLoop : List String := [
  "for {",
  "if len(rest) > 0 && i < tf.cursor {",
  "cluster, rest, _, state = uniseg.FirstGraphemeClusterInString(rest, state)",
  "next.WriteString(cluster)",
  "i += 1",
  "continue",
  "}",
  "next.WriteString(s)",
  "tf.cursor = graphemeCountInString(next.String())",
  "next.WriteString(rest)",
  "break",
  "}",
  "tf.Value = next.String()"
]

/-- statement skeleton of graphemeCountInString -/
def tfGraphemeCount : List String := [
  "var ( rest = s state = -1 count uint = 0 )",
  "for len(rest) > 0 {",
  "_, rest, _, state = uniseg.FirstGraphemeClusterInString(rest, state)",
  "count += 1",
  "}",
  "return count"
]

/-- state writes, receiver calls, returns and loops of textinput.Model.SetContent (widgets/textinput/textinput.go), in source order -/
def tiSetContent : List String := [
  "m.content = vaxis.Characters(s)",
  "m.cursor = len(m.content)",
  "return m"
]

/-- state writes, receiver calls, returns and loops of textinput.Model.Update (widgets/textinput/textinput.go), in source order -/
def tiUpdate : List String := [
  "case vaxis.PasteEndEvent:",
  "m.content = slices.Insert(m.content, m.cursor, chars...)",
  "m.cursor += len(chars)",
  "m.paste = []rune{}",
  "case vaxis.Key:",
  "return",
  "m.paste = append(m.paste, []rune(msg.Text)...)",
  "return",
  "case \"Ctrl+a\", \"Home\":",
  "m.cursor = 0",
  "case \"Ctrl+e\", \"End\":",
  "m.cursor = len(m.content)",
  "case \"Ctrl+f\", \"Right\":",
  "m.cursor += 1",
  "case \"Ctrl+b\", \"Left\":",
  "m.cursor -= 1",
  "case \"Alt+f\", \"Ctrl+Right\":",
  "for i := m.cursor; i < len(m.content); i += 1 {",
  "if !isAlphaNumeric(m.content[i]) {",
  "m.cursor += 1",
  "continue",
  "}",
  "break",
  "}",
  "for i := m.cursor; i < len(m.content); i += 1 {",
  "if isAlphaNumeric(m.content[i]) {",
  "m.cursor += 1",
  "continue",
  "}",
  "break",
  "}",
  "case \"Alt+b\", \"Ctrl+Left\":",
  "m.cursor -= 1",
  "m.cursor = len(m.content) - 1",
  "for i := m.cursor; i >= 0; i -= 1 {",
  "if !isAlphaNumeric(m.content[i]) {",
  "m.cursor -= 1",
  "continue",
  "}",
  "break",
  "}",
  "for i := m.cursor; i >= 0; i -= 1 {",
  "if isAlphaNumeric(m.content[i]) {",
  "m.cursor -= 1",
  "continue",
  "}",
  "m.cursor += 1",
  "break",
  "}",
  "case \"Ctrl+d\", \"Delete\":",
  "case m.cursor == len(m.content):",
  "m.content = m.content[:m.cursor]",
  "default:",
  "m.content = append(m.content[:m.cursor], m.content[m.cursor+1:]...)",
  "case \"Ctrl+k\":",
  "m.content = m.content[:m.cursor]",
  "case \"Ctrl+u\":",
  "m.content = m.content[m.cursor:]",
  "m.cursor = 0",
  "case \"Ctrl+h\", \"BackSpace\":",
  "case m.cursor == 0:",
  "return",
  "case m.cursor == len(m.content):",
  "m.content = m.content[:m.cursor-1]",
  "default:",
  "m.content = append(m.content[:m.cursor-1], m.content[m.cursor:]...)",
  "m.cursor -= 1",
  "case \"Ctrl+w\":",
  "return",
  "for i := m.cursor - 1; i >= 0; i-- {",
  "if !isAlphaNumeric(m.content[i]) {",
  "m.cursor--",
  "continue",
  "}",
  "break",
  "}",
  "for i := m.cursor - 1; i >= 0; i-- {",
  "if isAlphaNumeric(m.content[i]) {",
  "m.cursor--",
  "continue",
  "}",
  "break",
  "}",
  "m.content = append(m.content[:m.cursor], m.content[originalCursor:]...)",
  "default:",
  "return",
  "return",
  "return",
  "for _, char := range chars {",
  "m.content = slices.Insert(m.content, m.cursor, char)",
  "m.cursor += 1",
  "}",
  "m.cursor = len(m.content)",
  "m.cursor = 0",
  "m.resegment()"
]

/-- state writes, receiver calls, returns and loops of textinput.Model.resegment (widgets/textinput/textinput.go), in source order -/
def tiResegment : List String := [
  "m.content = vaxis.Characters(m.String())",
  "m.cursor = len(vaxis.Characters(before.String()))"
]

/-- state writes, receiver calls, returns and loops of textinput.Model.Draw (widgets/textinput/textinput.go), in source order -/
def tiDraw : List String := [
  "return",
  "for _, char := range m.prompt {",
  "cell := vaxis.Cell{ Character: char, Style: m.Prompt, }",
  "win.SetCell(col, 0, cell)",
  "col += char.Width",
  "if col >= winW {",
  "return",
  "}",
  "}",
  "m.offset = 0",
  "for m.offset < m.cursor && widthToCursor(chars, m.cursor, m.offset)+col+scrolloff >= winW {",
  "m.offset += 1",
  "}",
  "m.offset = m.cursor - scrolloff",
  "m.offset = 0",
  "for i, char := range m.content {",
  "if i < m.offset {",
  "continue",
  "}",
  "if i+1 == m.cursor {",
  "cursor = col + char.Width",
  "}",
  "cell := vaxis.Cell{ Character: char, Style: m.Content, }",
  "if m.invisibleChar.Grapheme != \"\" {",
  "cell.Character = m.invisibleChar",
  "}",
  "if m.offset > 0 && i == m.offset {",
  "cell.Character = truncator",
  "}",
  "if col+char.Width >= winW {",
  "cell.Character = truncator",
  "}",
  "win.SetCell(col, 0, cell)",
  "col += char.Width",
  "if col >= winW {",
  "break",
  "}",
  "}"
]

/-- statement skeleton of isAlphaNumeric -/
def tiIsAlphaNumeric : List String := [
  "runes := []rune(c.Grapheme)",
  "if len(runes) > 1 {",
  "return false",
  "}",
  "if unicode.IsLetter(runes[0]) || unicode.IsNumber(runes[0]) {",
  "return true",
  "}",
  "return false"
]

/-- statement skeleton of widthToCursor -/
def tiWidthToCursor : List String := [
  "w := 0",
  "for i, ch := range chars {",
  "if i < offset {",
  "continue",
  "}",
  "w += ch.Width",
  "if i == cursor {",
  "break",
  "}",
  "}",
  "return w"
]

end VaxisModel.Lemmas.EditorBodies
