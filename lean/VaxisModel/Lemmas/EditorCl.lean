import VaxisModel.Model.TextFieldCl
import VaxisModel.Spec.Editor
import VaxisModel.Lemmas.Editor

/-! Helper lemmas for C17: TextField over texts whose graphemes can merge refines the ideal editor
with re-segmentation (`Spec.Editor.applyC`). -/
namespace VaxisModel.Lemmas.EditorCl
open VaxisModel.Model.TextFieldCl
open VaxisModel.Model.TextField (KeyEv)
open VaxisModel.Spec.Editor (Ed Op Callback resegment applyC callbacksC runC Segmentation apply wordLeftPos)
open VaxisModel.Lemmas.Editor (insertLoop_eq delRightLoop_eq delLeftLoop_eq killLoop_eq)

variable {A : Type} (cl : List A → List (List A))

/-- Representation invariant: the cached count is the grapheme count of `Value`, the cursor is
within the text. -/
def InvC (tf : TF A) : Prop := tf.n = (cl tf.value).length ∧ tf.cursor ≤ (cl tf.value).length

/-- Abstraction function: the ideal editor state (clusters of `Value`, cursor). -/
def absC (tf : TF A) : Ed (List A) := ⟨cl tf.value, tf.cursor⟩

def absCallC : Call A → Callback (List A)
  | .change v => .change (cl v)
  | .submit v => .submit (cl v)

/-- What a key event means to the ideal editor (typed text = its graphemes). -/
def meaningOfC (ev : KeyEv A) : Op (List A) :=
  if ev.release then .noop
  else if ev.text.length > 0 then .insert (cl ev.text)
  else if ev.home then .home
  else if ev.toEnd then .toEnd
  else if ev.right then .right
  else if ev.left then .left
  else if ev.delRight then .deleteRight
  else if ev.delLeft then .deleteLeft
  else if ev.kill then .killToEnd
  else if ev.enter then .submit
  else .noop

inductive TFOpC (A : Type) where
  | key (ev : KeyEv A)
  | ins (s : List A)
  | cur (i : Nat)
  | delr
  | dell
  | kill
  | reset

def tfStepC [DecidableEq A] (tf : TF A) : TFOpC A → TF A × List (Call A)
  | .key ev => handleKey cl tf ev
  | .ins s => (insertString cl tf s, [])
  | .cur i => ((cursorTo tf i).1, [])
  | .delr => ((deleteRight cl tf).1, [])
  | .dell => ((deleteLeft cl tf).1, [])
  | .kill => ((killToEnd cl tf).1, [])
  | .reset => (VaxisModel.Model.TextFieldCl.reset tf, [])

def specOfC : TFOpC A → Op (List A)
  | .key ev => meaningOfC cl ev
  | .ins s => .insert (cl s)
  | .cur i => .moveTo i
  | .delr => .deleteRight
  | .dell => .deleteLeft
  | .kill => .killToEnd
  | .reset => .reset

def tfRunC [DecidableEq A] (tf : TF A) : List (TFOpC A) → TF A
  | [] => tf
  | op :: ops => tfRunC (tfStepC cl tf op).1 ops

variable {cl}

theorem cl_nil (hs : Segmentation cl) : cl [] = [] := by
  have h := hs.prefixLen [] 0 (Nat.zero_le _)
  simp only [List.take_zero, List.flatten_nil] at h
  exact List.eq_nil_of_length_eq_zero h

/-- The first `j` clusters of a text followed by anything: `j` clusters at least. -/
theorem prefix_le (hs : Segmentation cl) (v : List A) (j : Nat) (rest : List A) (hj : j ≤ (cl v).length) :
    j ≤ (cl (((cl v).take j).flatten ++ rest)).length := by
  have h1 := hs.prefixLen v j hj
  have h2 := hs.mono ((cl v).take j).flatten rest
  omega

/-- Re-segmenting a state whose first `j` clusters are clusters of a text and whose cursor is `j`. -/
theorem resegment_prefix (hs : Segmentation cl) (v : List A) (j : Nat) (rest : List (List A))
    (hj : j ≤ (cl v).length) :
    resegment cl ⟨(cl v).take j ++ rest, j⟩ = ⟨cl (((cl v).take j).flatten ++ rest.flatten), j⟩ := by
  have hlen : ((cl v).take j).length = j := by rw [List.length_take]; omega
  unfold resegment
  simp only [List.take_left' hlen, List.flatten_append, hs.prefixLen v j hj]
  congr 1
  exact Nat.min_eq_left (prefix_le hs v j rest.flatten hj)

theorem resegment_id (hs : Segmentation cl) (v : List A) (j : Nat) (hj : j ≤ (cl v).length) :
    resegment cl ⟨cl v, j⟩ = ⟨cl v, j⟩ := by
  have h := resegment_prefix hs v j ((cl v).drop j) hj
  rw [List.take_append_drop] at h
  rw [h, ← List.flatten_append, List.take_append_drop, hs.flatten]

variable (isWord : List A → Bool)

theorem insert_refinesC (hs : Segmentation cl) (tf : TF A) (s : List A) (h : InvC cl tf) :
    InvC cl (insertString cl tf s) ∧
    absC cl (insertString cl tf s) = applyC cl isWord (absC cl tf) (.insert (cl s)) := by
  obtain ⟨hn, hc⟩ := h
  have hlen : ((cl tf.value).take tf.cursor).length = tf.cursor := by rw [List.length_take]; omega
  have hmono := hs.mono (((cl tf.value).take tf.cursor).flatten ++ s) ((cl tf.value).drop tf.cursor).flatten
  unfold insertString
  rw [insertLoop_eq [s] tf.cursor (cl tf.value) 0 [] (Nat.zero_le _)]
  simp only [List.nil_append, Nat.sub_zero, List.flatten_append, List.flatten_cons, List.flatten_nil,
    List.append_nil, count]
  refine ⟨⟨rfl, hmono⟩, ?_⟩
  simp only [absC, applyC, apply, resegment, List.flatten_append, hs.flatten]
  have ht : ((cl tf.value).take tf.cursor ++ cl s ++ (cl tf.value).drop tf.cursor).take (tf.cursor + (cl s).length)
      = (cl tf.value).take tf.cursor ++ cl s := by
    apply List.take_left'
    simp only [List.length_append, hlen]
  rw [ht]
  simp only [List.flatten_append, hs.flatten]
  congr 1
  exact (Nat.min_eq_left hmono).symm

theorem cursorTo_refinesC (hs : Segmentation cl) (tf : TF A) (i : Nat) (h : InvC cl tf) :
    InvC cl (cursorTo tf i).1 ∧ absC cl (cursorTo tf i).1 = applyC cl isWord (absC cl tf) (.moveTo i) := by
  obtain ⟨hn, hc⟩ := h
  have hmin : min i (cl tf.value).length ≤ (cl tf.value).length := Nat.min_le_right _ _
  have hspec : applyC cl isWord (absC cl tf) (.moveTo i) = ⟨cl tf.value, min i (cl tf.value).length⟩ := by
    simp only [applyC, apply, absC]
    exact resegment_id hs tf.value _ hmin
  rw [hspec]
  unfold cursorTo
  simp only [absC, InvC]
  split <;> split <;> simp_all <;> omega

theorem deleteRight_refinesC (hs : Segmentation cl) (tf : TF A) (h : InvC cl tf) :
    InvC cl (deleteRight cl tf).1 ∧
    absC cl (deleteRight cl tf).1 = applyC cl isWord (absC cl tf) .deleteRight := by
  obtain ⟨hn, hc⟩ := h
  unfold deleteRight
  split
  · rename_i heq
    refine ⟨⟨hn, hc⟩, ?_⟩
    simp only [absC, applyC, apply]
    rw [List.eraseIdx_of_length_le (by omega)]
    exact (resegment_id hs tf.value _ hc).symm
  · rename_i hne
    rw [delRightLoop_eq tf.cursor (cl tf.value) 0 [] (Nat.zero_le _)]
    simp only [List.nil_append, Nat.sub_zero, count, List.eraseIdx_eq_take_drop_succ, List.flatten_append]
    refine ⟨⟨rfl, prefix_le hs tf.value tf.cursor _ hc⟩, ?_⟩
    simp only [absC, applyC, apply, List.eraseIdx_eq_take_drop_succ]
    exact (resegment_prefix hs tf.value tf.cursor _ hc).symm

theorem deleteLeft_refinesC (hs : Segmentation cl) (tf : TF A) (h : InvC cl tf) :
    InvC cl (deleteLeft cl tf).1 ∧
    absC cl (deleteLeft cl tf).1 = applyC cl isWord (absC cl tf) .deleteLeft := by
  obtain ⟨hn, hc⟩ := h
  unfold deleteLeft
  split
  · rename_i heq
    refine ⟨⟨hn, hc⟩, ?_⟩
    simp only [absC, applyC, apply, heq, ↓reduceIte]
    exact (resegment_id hs tf.value _ (Nat.zero_le _)).symm
  · rename_i hne
    have hc1 : tf.cursor - 1 ≤ (cl tf.value).length := by omega
    have hsucc : tf.cursor - 1 + 1 = tf.cursor := by omega
    rw [delLeftLoop_eq tf.cursor (cl tf.value) 0 [] (by omega)]
    simp only [List.nil_append, Nat.sub_zero, count, List.eraseIdx_eq_take_drop_succ, List.flatten_append, hsucc]
    refine ⟨⟨rfl, prefix_le hs tf.value (tf.cursor - 1) _ hc1⟩, ?_⟩
    simp only [absC, applyC, apply, hne, ↓reduceIte, List.eraseIdx_eq_take_drop_succ, hsucc]
    exact (resegment_prefix hs tf.value (tf.cursor - 1) _ hc1).symm

theorem killToEnd_refinesC (hs : Segmentation cl) (tf : TF A) (h : InvC cl tf) :
    InvC cl (killToEnd cl tf).1 ∧
    absC cl (killToEnd cl tf).1 = applyC cl isWord (absC cl tf) .killToEnd := by
  obtain ⟨hn, hc⟩ := h
  unfold killToEnd
  split
  · rename_i heq
    refine ⟨⟨hn, hc⟩, ?_⟩
    simp only [absC, applyC, apply]
    rw [List.take_of_length_le (by omega)]
    exact (resegment_id hs tf.value _ hc).symm
  · rename_i hne
    rw [killLoop_eq tf.cursor (cl tf.value) 0 [] (Nat.zero_le _)]
    have hp := prefix_le hs tf.value tf.cursor [] hc
    have hr := resegment_prefix hs tf.value tf.cursor [] hc
    simp only [List.append_nil, List.flatten_nil] at hp hr
    simp only [List.nil_append, Nat.sub_zero, count]
    refine ⟨⟨rfl, hp⟩, ?_⟩
    simp only [absC, applyC, apply]
    exact hr.symm

theorem reset_refinesC (hs : Segmentation cl) (tf : TF A) :
    InvC cl (VaxisModel.Model.TextFieldCl.reset tf) ∧
    absC cl (VaxisModel.Model.TextFieldCl.reset tf) = applyC cl isWord (absC cl tf) .reset := by
  simp [VaxisModel.Model.TextFieldCl.reset, InvC, absC, applyC, apply, resegment, cl_nil hs]

theorem submit_specC (hs : Segmentation cl) (s : Ed (List A)) :
    applyC cl isWord s .submit = ⟨[], 0⟩ := by
  simp [applyC, apply, resegment, cl_nil hs]

theorem callbacksC_ne_submit [DecidableEq A] (s : Ed (List A)) (op : Op (List A)) (h : op ≠ .submit) :
    callbacksC cl isWord s op =
      if (applyC cl isWord s op).text = s.text then [] else [.change (applyC cl isWord s op).text] := by
  cases op <;> first | rfl | exact absurd rfl h

theorem cl_inj (hs : Segmentation cl) {x y : List A} (h : cl x = cl y) : x = y := by
  rw [← hs.flatten x, ← hs.flatten y, h]

theorem checkChanged_eqC [DecidableEq A] (hs : Segmentation cl) (tf tf' : TF A) (op : Op (List A))
    (ha : absC cl tf' = applyC cl isWord (absC cl tf) op) (hop : op ≠ .submit) :
    (checkChanged tf.value tf').map (absCallC cl) = callbacksC cl isWord (absC cl tf) op := by
  have hv : (applyC cl isWord (absC cl tf) op).text = cl tf'.value := by rw [← ha]; rfl
  rw [callbacksC_ne_submit isWord _ _ hop, hv]
  unfold checkChanged
  simp only [absC]
  by_cases hh : tf'.value = tf.value
  · simp [hh]
  · have : ¬ cl tf'.value = cl tf.value := fun h => hh (cl_inj hs h)
    simp [hh, this, absCallC]

theorem noop_specC (hs : Segmentation cl) (tf : TF A) (h : InvC cl tf) :
    applyC cl isWord (absC cl tf) .noop = absC cl tf := by
  simp only [applyC, apply, absC]
  exact resegment_id hs tf.value _ h.2

theorem handleKey_refinesC [DecidableEq A] (hs : Segmentation cl) (tf : TF A) (ev : KeyEv A) (h : InvC cl tf) :
    InvC cl (handleKey cl tf ev).1 ∧
    absC cl (handleKey cl tf ev).1 = applyC cl isWord (absC cl tf) (meaningOfC cl ev) ∧
    (handleKey cl tf ev).2.map (absCallC cl) = callbacksC cl isWord (absC cl tf) (meaningOfC cl ev) := by
  have hnoop := noop_specC isWord hs tf h
  have hcb : ∀ op : Op (List A), op ≠ .submit → (applyC cl isWord (absC cl tf) op).text = cl tf.value →
      callbacksC cl isWord (absC cl tf) op = [] := by
    intro op hop heq
    rw [callbacksC_ne_submit isWord _ _ hop, heq]
    simp [absC]
  have hmv : ∀ j, applyC cl isWord (absC cl tf) (.moveTo j) = ⟨cl tf.value, min j (cl tf.value).length⟩ := by
    intro j
    simp only [applyC, apply, absC]
    exact resegment_id hs tf.value _ (Nat.min_le_right _ _)
  -- a motion: the text is unchanged
  have hmove : ∀ (i : Nat) (op : Op (List A)), op ≠ .submit →
      applyC cl isWord (absC cl tf) op = applyC cl isWord (absC cl tf) (.moveTo i) →
      InvC cl (cursorTo tf i).1 ∧ absC cl (cursorTo tf i).1 = applyC cl isWord (absC cl tf) op ∧
      ([] : List (Call A)).map (absCallC cl) = callbacksC cl isWord (absC cl tf) op := by
    intro i op hop heq
    have hc := cursorTo_refinesC isWord hs tf i h
    refine ⟨hc.1, by rw [heq]; exact hc.2, ?_⟩
    rw [hcb op hop]
    · rfl
    · rw [heq, hmv]
  have hnoopT : (applyC cl isWord (absC cl tf) .noop).text = cl tf.value := by rw [hnoop]; rfl
  have hnoopAll : InvC cl tf ∧ absC cl tf = applyC cl isWord (absC cl tf) .noop ∧
      ([] : List (Call A)).map (absCallC cl) = callbacksC cl isWord (absC cl tf) .noop :=
    ⟨h, hnoop.symm, by rw [hcb _ (by intro h; cases h) hnoopT]; rfl⟩
  obtain ⟨rel, text, bhome, bend, bright, bleft, bdr, bdl, bkill, benter⟩ := ev
  unfold handleKey meaningOfC
  simp only
  cases rel
  case true => simp only [↓reduceIte]; exact hnoopAll
  simp only [Bool.false_eq_true, ↓reduceIte]
  by_cases ht : text.length > 0
  · simp only [ht, ↓reduceIte]
    have := insert_refinesC isWord hs tf text h
    exact ⟨this.1, this.2, checkChanged_eqC isWord hs tf _ _ this.2 (by intro h; cases h)⟩
  simp only [ht, ↓reduceIte]
  cases bhome
  case true =>
    simp only [↓reduceIte]
    refine hmove 0 .home (by intro h; cases h) ?_
    show resegment cl ⟨cl tf.value, 0⟩ = resegment cl ⟨cl tf.value, min 0 (cl tf.value).length⟩
    rw [Nat.zero_min]
  simp only [Bool.false_eq_true, ↓reduceIte]
  cases bend
  case true =>
    simp only [↓reduceIte]
    refine hmove tf.n .toEnd (by intro h; cases h) ?_
    show resegment cl ⟨cl tf.value, (cl tf.value).length⟩ = resegment cl ⟨cl tf.value, min tf.n (cl tf.value).length⟩
    rw [h.1, Nat.min_self]
  simp only [Bool.false_eq_true, ↓reduceIte]
  cases bright
  case true =>
    simp only [↓reduceIte]
    exact hmove (tf.cursor + 1) .right (by intro h; cases h) rfl
  simp only [Bool.false_eq_true, ↓reduceIte]
  cases bleft
  case true =>
    simp only [↓reduceIte]
    by_cases h0 : tf.cursor = 0
    · simp only [h0, ↓reduceIte]
      have hl : applyC cl isWord (absC cl tf) .left = applyC cl isWord (absC cl tf) .noop := by
        show resegment cl ⟨cl tf.value, tf.cursor - 1⟩ = resegment cl ⟨cl tf.value, tf.cursor⟩
        rw [h0]
      refine ⟨h, by rw [hl, hnoop], ?_⟩
      rw [hcb _ (by intro h; cases h) (by rw [hl]; exact hnoopT)]
      rfl
    · simp only [h0, ↓reduceIte]
      refine hmove (tf.cursor - 1) .left (by intro h; cases h) ?_
      have := h.2
      show resegment cl ⟨cl tf.value, tf.cursor - 1⟩ = resegment cl ⟨cl tf.value, min (tf.cursor - 1) (cl tf.value).length⟩
      rw [Nat.min_eq_left (by omega)]
  simp only [Bool.false_eq_true, ↓reduceIte]
  cases bdr
  case true =>
    simp only [↓reduceIte]
    have := deleteRight_refinesC isWord hs tf h
    exact ⟨this.1, this.2, checkChanged_eqC isWord hs tf _ _ this.2 (by intro h; cases h)⟩
  simp only [Bool.false_eq_true, ↓reduceIte]
  cases bdl
  case true =>
    simp only [↓reduceIte]
    have := deleteLeft_refinesC isWord hs tf h
    exact ⟨this.1, this.2, checkChanged_eqC isWord hs tf _ _ this.2 (by intro h; cases h)⟩
  simp only [Bool.false_eq_true, ↓reduceIte]
  cases bkill
  case true =>
    simp only [↓reduceIte]
    have := killToEnd_refinesC isWord hs tf h
    exact ⟨this.1, this.2, checkChanged_eqC isWord hs tf _ _ this.2 (by intro h; cases h)⟩
  simp only [Bool.false_eq_true, ↓reduceIte]
  cases benter
  case true =>
    simp only [↓reduceIte]
    have := reset_refinesC isWord hs tf
    refine ⟨this.1, ?_, ?_⟩
    · rw [this.2, submit_specC isWord hs]; simp [applyC, apply, resegment, cl_nil hs]
    · simp [callbacksC, absCallC, absC]
  simp only [Bool.false_eq_true, ↓reduceIte]
  exact hnoopAll

theorem tfStepC_refines [DecidableEq A] (hs : Segmentation cl) (tf : TF A) (op : TFOpC A) (h : InvC cl tf) :
    InvC cl (tfStepC cl tf op).1 ∧
    absC cl (tfStepC cl tf op).1 = applyC cl isWord (absC cl tf) (specOfC cl op) := by
  cases op with
  | key ev => have := handleKey_refinesC isWord hs tf ev h; exact ⟨this.1, this.2.1⟩
  | ins s => exact insert_refinesC isWord hs tf s h
  | cur i => exact cursorTo_refinesC isWord hs tf i h
  | delr => exact deleteRight_refinesC isWord hs tf h
  | dell => exact deleteLeft_refinesC isWord hs tf h
  | kill => exact killToEnd_refinesC isWord hs tf h
  | reset => exact reset_refinesC isWord hs tf

theorem tfRunC_refines [DecidableEq A] (hs : Segmentation cl) : ∀ (ops : List (TFOpC A)) (tf : TF A), InvC cl tf →
    InvC cl (tfRunC cl tf ops) ∧
    absC cl (tfRunC cl tf ops) = runC cl isWord (absC cl tf) (ops.map (specOfC cl)) := by
  intro ops
  induction ops with
  | nil => intro tf h; exact ⟨h, rfl⟩
  | cons op ops ih =>
    intro tf h
    have hstep := tfStepC_refines isWord hs tf op h
    have := ih (tfStepC cl tf op).1 hstep.1
    refine ⟨this.1, ?_⟩
    simp only [tfRunC, List.map_cons, runC]
    rw [this.2, hstep.2]

/-! ### Segmentations used as instances -/

/-- The segmentation that never merges: every atom is a grapheme. -/
def singletons {A : Type} (x : List A) : List (List A) := x.map fun a => [a]

theorem singletons_flatten {A : Type} (x : List A) : (singletons x).flatten = x := by
  induction x with
  | nil => rfl
  | cons a x ih => simp only [singletons, List.map_cons, List.flatten_cons] at ih ⊢; rw [ih]; rfl

theorem singletons_take {A : Type} (x : List A) (i : Nat) : (singletons x).take i = singletons (x.take i) := by
  simp [singletons, List.map_take]

theorem singletons_seg {A : Type} : Segmentation (singletons (A := A)) where
  flatten := singletons_flatten
  prefixLen := by
    intro x i hi
    rw [singletons_take, singletons_flatten]
    simp only [singletons, List.length_map, List.length_take] at hi ⊢
    omega
  mono := by intro x y; simp [singletons]

/-- The segmentation that merges everything: a text of marks that all join (one grapheme). -/
def oneCluster {A : Type} (x : List A) : List (List A) := if x.isEmpty then [] else [x]

theorem oneCluster_seg {A : Type} : Segmentation (oneCluster (A := A)) where
  flatten := by intro x; cases x <;> simp [oneCluster]
  prefixLen := by
    intro x i hi
    cases x with
    | nil => simp [oneCluster] at hi ⊢; subst hi; simp
    | cons a x =>
      simp only [oneCluster, List.isEmpty_cons, Bool.false_eq_true, ↓reduceIte, List.length_cons, List.length_nil] at hi ⊢
      match i, hi with
      | 0, _ => simp
      | 1, _ => simp
  mono := by
    intro x y
    cases x with
    | nil => simp [oneCluster]
    | cons a x => simp [oneCluster]

/-! ### The editor of graphemes that never merge as an instance -/

/-- every cluster is a single atom -/
def AllSingle {A : Type} (t : List (List A)) : Prop := ∀ c ∈ t, c.length = 1

theorem singletons_flatten_of_allSingle {A : Type} : ∀ (t : List (List A)), AllSingle t → singletons t.flatten = t := by
  intro t
  induction t with
  | nil => intro _; rfl
  | cons c t ih =>
    intro h
    have hc := h c (List.mem_cons_self ..)
    have ht : AllSingle t := fun x hx => h x (List.mem_cons_of_mem _ hx)
    match c, hc with
    | [a], _ =>
      simp only [List.flatten_cons, List.singleton_append, singletons, List.map_cons] at ih ⊢
      rw [ih ht]

theorem allSingle_take {A : Type} (t : List (List A)) (k : Nat) (h : AllSingle t) : AllSingle (t.take k) :=
  fun c hc => h c (List.mem_of_mem_take hc)
theorem allSingle_drop {A : Type} (t : List (List A)) (k : Nat) (h : AllSingle t) : AllSingle (t.drop k) :=
  fun c hc => h c (List.mem_of_mem_drop hc)
theorem allSingle_append {A : Type} (t u : List (List A)) (h1 : AllSingle t) (h2 : AllSingle u) : AllSingle (t ++ u) := by
  intro c hc
  rcases List.mem_append.mp hc with h | h
  · exact h1 c h
  · exact h2 c h
theorem allSingle_eraseIdx {A : Type} (t : List (List A)) (k : Nat) (h : AllSingle t) : AllSingle (t.eraseIdx k) :=
  fun c hc => h c (List.mem_of_mem_eraseIdx hc)
theorem allSingle_singletons {A : Type} (x : List A) : AllSingle (singletons x) := by
  intro c hc
  simp only [singletons, List.mem_map] at hc
  obtain ⟨a, _, rfl⟩ := hc
  rfl

/-- With the segmentation that never merges, re-segmentation only clamps the cursor. -/
theorem resegment_singletons {A : Type} (t : List (List A)) (k : Nat) (h : AllSingle t) :
    resegment singletons ⟨t, k⟩ = ⟨t, min k t.length⟩ := by
  unfold resegment
  simp only [singletons_flatten_of_allSingle t h, singletons_flatten_of_allSingle _ (allSingle_take t k h), List.length_take]
  congr 1
  omega

/-- The payload of an operation consists of single-atom graphemes. -/
def OpSingle {A : Type} : Op (List A) → Prop
  | .insert gs => AllSingle gs
  | .setContent gs => AllSingle gs
  | _ => True

theorem apply_allSingle {A : Type} (isWord : List A → Bool) (s : Ed (List A)) (op : Op (List A))
    (hs : AllSingle s.text) (hop : OpSingle op) : AllSingle (apply isWord s op).text := by
  cases op with
  | insert gs => exact allSingle_append _ _ (allSingle_append _ _ (allSingle_take _ _ hs) hop) (allSingle_drop _ _ hs)
  | deleteLeft =>
    simp only [apply]
    split
    · exact hs
    · exact allSingle_eraseIdx _ _ hs
  | deleteRight => exact allSingle_eraseIdx _ _ hs
  | killToEnd => exact allSingle_take _ _ hs
  | killToStart => exact allSingle_drop _ _ hs
  | deleteWordLeft => exact allSingle_append _ _ (allSingle_take _ _ hs) (allSingle_drop _ _ hs)
  | setContent gs => exact hop
  | reset => intro c hc; cases hc
  | submit => intro c hc; cases hc
  | _ => exact hs

/-- The editor over merging graphemes with the segmentation that never merges *is* the grapheme
editor (up to clamping the cursor into the text, which the grapheme editor's cursor already is when
it started within the text). -/
theorem applyC_singletons {A : Type} (isWord : List A → Bool) (s : Ed (List A)) (op : Op (List A))
    (hs : AllSingle s.text) (hop : OpSingle op) :
    applyC singletons isWord s op =
      ⟨(apply isWord s op).text, min (apply isWord s op).cursor (apply isWord s op).text.length⟩ :=
  resegment_singletons _ _ (apply_allSingle isWord s op hs hop)

end VaxisModel.Lemmas.EditorCl
