/-
Basic lemmas for the emulator model: the state invariant `EmuInv`, checked accesses, the loop
combinators (invariant rules) and the grid primitives (`modCell`, `copyRow`, `eraseCols`).
-/
import VaxisModel.Model.Emu

namespace VaxisModel.Lemmas.Emu
open VaxisModel.Model.Emu

/-- A grid with exactly `rows` rows of exactly `cols` cells. -/
structure GridOk (g : Grid) (rows cols : Nat) : Prop where
  len : g.length = rows
  rowLen : ∀ r ∈ g, r.length = cols

/-- The saved cursor of a DECSC slot lies on the screen. -/
structure SavedOk (s : Saved) (rows cols : Nat) : Prop where
  rowLo : 0 ≤ s.cur.row
  rowHi : s.cur.row < rows
  colLo : 0 ≤ s.cur.col
  colHi : s.cur.col ≤ cols

/-- What the code maintains between sequences on a `rows × cols` terminal. The first three groups
    are the state clause of C05 (cursor within the screen — the column may equal `cols`, the
    pending-wrap position —, margins ordered and within the screen, every row of both grids has
    exactly `cols` cells); the saved cursors and tab stops are needed to make it inductive. -/
structure EmuInv (e : Emu) (rows cols : Nat) : Prop where
  prim : GridOk e.primary rows cols
  alt : GridOk e.alt rows cols
  rowLo : 0 ≤ e.cur.row
  rowHi : e.cur.row < rows
  colLo : 0 ≤ e.cur.col
  colHi : e.cur.col ≤ cols
  topLo : 0 ≤ e.top
  topLe : e.top ≤ e.bottom
  botHi : e.bottom < rows
  left0 : e.left = 0
  right : e.right = (cols : Int) - 1
  savedP : SavedOk e.savedP rows cols
  savedA : SavedOk e.savedA rows cols
  tabs : ∀ t ∈ e.tabs, 0 ≤ t

/-! ### checked accesses -/

theorem getI_ok {α : Type} (l : List α) (i : Int) (h0 : 0 ≤ i) (h1 : i < l.length) :
    ∃ x, getI l i = .ok x ∧ x ∈ l := by
  unfold getI
  have hlt : i.toNat < l.length := by omega
  simp only [h0, if_true, List.getElem?_eq_getElem hlt]
  exact ⟨_, rfl, List.getElem_mem hlt⟩

theorem setI_ok {α : Type} (l : List α) (i : Int) (x : α) (h0 : 0 ≤ i) (h1 : i < l.length) :
    setI l i x = .ok (l.set i.toNat x) := by
  unfold setI
  have hlt : i.toNat < l.length := by omega
  simp [h0, hlt]

theorem gridOk_set {g : Grid} {rows cols : Nat} (h : GridOk g rows cols) (i : Nat) (r : Row)
    (hr : r.length = cols) : GridOk (g.set i r) rows cols := by
  refine ⟨by simp [h.len], ?_⟩
  intro r' hr'
  rcases List.mem_or_eq_of_mem_set hr' with h1 | h1
  · exact h.rowLen _ h1
  · exact h1 ▸ hr

theorem modCell_ok {g : Grid} {rows cols : Nat} (h : GridOk g rows cols) (r c : Int) (f : ECell → ECell)
    (hr0 : 0 ≤ r) (hr1 : r < rows) (hc0 : 0 ≤ c) (hc1 : c < cols) :
    ∃ g', modCell g r c f = .ok g' ∧ GridOk g' rows cols := by
  unfold modCell
  obtain ⟨row, hrow, hmem⟩ := getI_ok g r hr0 (by rw [h.len]; exact hr1)
  have hlen := h.rowLen _ hmem
  obtain ⟨x, hx, _⟩ := getI_ok row c hc0 (by rw [hlen]; exact hc1)
  have hs := setI_ok row c (f x) hc0 (by rw [hlen]; exact hc1)
  have hs2 := setI_ok g r (row.set c.toNat (f x)) hr0 (by rw [h.len]; exact hr1)
  simp only [hrow, hx, hs, hs2, bind, Except.bind]
  exact ⟨_, rfl, gridOk_set h _ _ (by simp [hlen])⟩

theorem copyRow_ok {g : Grid} {rows cols : Nat} (h : GridOk g rows cols) (d s : Int)
    (hd0 : 0 ≤ d) (hd1 : d < rows) (hs0 : 0 ≤ s) (hs1 : s < rows) :
    ∃ g', copyRow g d s = .ok g' ∧ GridOk g' rows cols := by
  unfold copyRow
  obtain ⟨dr, hdr, hdm⟩ := getI_ok g d hd0 (by rw [h.len]; exact hd1)
  obtain ⟨sr, hsr, hsm⟩ := getI_ok g s hs0 (by rw [h.len]; exact hs1)
  have hdl := h.rowLen _ hdm
  have hsl := h.rowLen _ hsm
  have hset := setI_ok g d (sr.take dr.length ++ dr.drop sr.length) hd0 (by rw [h.len]; exact hd1)
  simp only [hdr, hsr, hset, bind, Except.bind]
  exact ⟨_, rfl, gridOk_set h _ _ (by simp [hdl, hsl])⟩

/-! ### loops: invariant rules -/

theorem forUpGo_ok {σ : Type} (P : σ → Prop) (body : Int → σ → M σ) :
    ∀ (n : Nat) (i0 : Int) (s : σ), P s →
      (∀ i s, i0 ≤ i → i < i0 + n → P s → ∃ s', body i s = .ok s' ∧ P s') →
      ∃ s', forUpGo body n i0 s = .ok s' ∧ P s' := by
  intro n
  induction n with
  | zero => intro i0 s hs _; exact ⟨s, rfl, hs⟩
  | succ n ih =>
    intro i0 s hs hb
    obtain ⟨s1, h1, hp1⟩ := hb i0 s (by omega) (by omega) hs
    obtain ⟨s2, h2, hp2⟩ := ih (i0 + 1) s1 hp1 (fun i s hi1 hi2 hp => hb i s (by omega) (by omega) hp)
    exact ⟨s2, by simp only [forUpGo, h1, bind, Except.bind, h2], hp2⟩

theorem forUp_ok {σ : Type} (P : σ → Prop) (body : Int → σ → M σ) (lo hi : Int) (s : σ)
    (hn : hi + 1 - lo ≤ (hangLimit : Int)) (hs : P s)
    (hb : ∀ i s, lo ≤ i → i ≤ hi → P s → ∃ s', body i s = .ok s' ∧ P s') :
    ∃ s', forUp body (lo := lo) (hi := hi) s = .ok s' ∧ P s' := by
  unfold forUp
  have hle : (hi + 1 - lo).toNat ≤ hangLimit := by omega
  simp only [hle, if_true]
  exact forUpGo_ok P body _ lo s hs (fun i s h1 h2 hp => hb i s h1 (by omega) hp)

theorem forDownGo_ok {σ : Type} (P : σ → Prop) (body : Int → σ → M σ) :
    ∀ (n : Nat) (i0 : Int) (s : σ), P s →
      (∀ i s, i ≤ i0 → i0 - n < i → P s → ∃ s', body i s = .ok s' ∧ P s') →
      ∃ s', forDownGo body n i0 s = .ok s' ∧ P s' := by
  intro n
  induction n with
  | zero => intro i0 s hs _; exact ⟨s, rfl, hs⟩
  | succ n ih =>
    intro i0 s hs hb
    obtain ⟨s1, h1, hp1⟩ := hb i0 s (by omega) (by omega) hs
    obtain ⟨s2, h2, hp2⟩ := ih (i0 - 1) s1 hp1 (fun i s hi1 hi2 hp => hb i s (by omega) (by omega) hp)
    exact ⟨s2, by simp only [forDownGo, h1, bind, Except.bind, h2], hp2⟩

theorem forDown_ok {σ : Type} (P : σ → Prop) (body : Int → σ → M σ) (hi lo : Int) (s : σ)
    (hn : hi + 1 - lo ≤ (hangLimit : Int)) (hs : P s)
    (hb : ∀ i s, lo ≤ i → i ≤ hi → P s → ∃ s', body i s = .ok s' ∧ P s') :
    ∃ s', forDown body (hi := hi) (lo := lo) s = .ok s' ∧ P s' := by
  unfold forDown
  have hle : (hi + 1 - lo).toNat ≤ hangLimit := by omega
  simp only [hle, if_true]
  exact forDownGo_ok P body _ hi s hs (fun i s h1 h2 hp => hb i s (by omega) h1 hp)

theorem forUpBrkGo_ok {σ : Type} (P : σ → Prop) (body : Int → σ → M (σ × Bool)) :
    ∀ (n : Nat) (i0 : Int) (s : σ), P s →
      (∀ i s, i0 ≤ i → i < i0 + n → P s → ∃ r, body i s = .ok r ∧ P r.1) →
      ∃ r, forUpBrkGo body n i0 s = .ok r ∧ P r.1 := by
  intro n
  induction n with
  | zero => intro i0 s hs _; exact ⟨(s, false), rfl, hs⟩
  | succ n ih =>
    intro i0 s hs hb
    obtain ⟨⟨s1, go⟩, h1, hp1⟩ := hb i0 s (by omega) (by omega) hs
    cases go with
    | false => exact ⟨(s1, true), by simp only [forUpBrkGo, h1, bind, Except.bind]; rfl, hp1⟩
    | true =>
      obtain ⟨r2, h2, hp2⟩ := ih (i0 + 1) s1 hp1 (fun i s hi1 hi2 hp => hb i s (by omega) (by omega) hp)
      exact ⟨r2, by simp only [forUpBrkGo, h1, bind, Except.bind, h2, if_true], hp2⟩

theorem forUpBrk_ok {σ : Type} (P : σ → Prop) (body : Int → σ → M (σ × Bool)) (lo hi : Int) (s : σ)
    (hn : hi + 1 - lo ≤ (hangLimit : Int)) (hs : P s)
    (hb : ∀ i s, lo ≤ i → i ≤ hi → P s → ∃ r, body i s = .ok r ∧ P r.1) :
    ∃ s', forUpBrk body (lo := lo) (hi := hi) s = .ok s' ∧ P s' := by
  unfold forUpBrk
  have hle : (hi + 1 - lo).toNat ≤ hangLimit := by omega
  simp only [hle, if_true]
  obtain ⟨r, hr, hp⟩ := forUpBrkGo_ok P body (hi + 1 - lo).toNat lo s hs
    (fun i s h1 h2 hp => hb i s h1 (by omega) hp)
  exact ⟨r.1, by rw [hr]; rfl, hp⟩

theorem repeatGo_ok {σ : Type} (P : σ → Prop) (f : σ → M σ)
    (hf : ∀ s, P s → ∃ s', f s = .ok s' ∧ P s') :
    ∀ (n : Nat) (s : σ), P s → ∃ s', repeatGo f n s = .ok s' ∧ P s' := by
  intro n
  induction n with
  | zero => intro s hs; exact ⟨s, rfl, hs⟩
  | succ n ih =>
    intro s hs
    obtain ⟨s1, h1, hp1⟩ := hf s hs
    obtain ⟨s2, h2, hp2⟩ := ih s1 hp1
    exact ⟨s2, by simp only [repeatGo, h1, bind, Except.bind, h2], hp2⟩

theorem repeatM_ok {σ : Type} (P : σ → Prop) (f : σ → M σ) (n : Nat) (s : σ) (hn : n ≤ hangLimit)
    (hs : P s) (hf : ∀ s, P s → ∃ s', f s = .ok s' ∧ P s') :
    ∃ s', repeatN f n s = .ok s' ∧ P s' := by
  unfold repeatN
  simp only [hn, if_true]
  exact repeatGo_ok P f hf n s hs

/-! ### erasing a range of a row -/

theorem eraseCols_ok {g : Grid} {rows cols : Nat} (h : GridOk g rows cols) (r lo hi : Int) (bg : Nat)
    (hr0 : 0 ≤ r) (hr1 : r < rows) (hlo : 0 ≤ lo) (hhi : hi < cols) (hc : (cols : Int) ≤ hangLimit) :
    ∃ g', eraseCols g r lo hi bg = .ok g' ∧ GridOk g' rows cols := by
  unfold eraseCols
  exact forUp_ok (fun g => GridOk g rows cols) _ lo hi g (by omega) h
    (fun c g h1 h2 hg => modCell_ok hg r c _ hr0 hr1 (by omega) (by omega))

/-! ### the active grid -/

theorem active_ok {e : Emu} {rows cols : Nat} (h : EmuInv e rows cols) : GridOk e.active rows cols := by
  unfold Emu.active
  split
  · exact h.alt
  · exact h.prim

theorem height_eq {e : Emu} {rows cols : Nat} (h : EmuInv e rows cols) : e.height = rows := by
  unfold Emu.height
  rw [(active_ok h).len]

theorem width_eq {e : Emu} {rows cols : Nat} (h : EmuInv e rows cols) (hr : 1 ≤ rows) : e.width = cols := by
  unfold Emu.width
  have hg := active_ok h
  match hm : e.active with
  | [] => rw [hm] at hg; have := hg.len; simp at this; omega
  | r :: _ =>
    simp only
    rw [hg.rowLen r (by rw [hm]; exact List.mem_cons_self)]

/-- Replacing the active grid by another well-formed grid keeps the invariant. -/
theorem setActive_inv {e : Emu} {rows cols : Nat} (h : EmuInv e rows cols) {g : Grid}
    (hg : GridOk g rows cols) : EmuInv (e.setActive g) rows cols := by
  unfold Emu.setActive
  split
  · exact { h with alt := hg }
  · exact { h with prim := hg }

@[simp] theorem setActive_cur (e : Emu) (g : Grid) : (e.setActive g).cur = e.cur := by
  unfold Emu.setActive; split <;> rfl
@[simp] theorem setActive_top (e : Emu) (g : Grid) : (e.setActive g).top = e.top := by
  unfold Emu.setActive; split <;> rfl
@[simp] theorem setActive_bottom (e : Emu) (g : Grid) : (e.setActive g).bottom = e.bottom := by
  unfold Emu.setActive; split <;> rfl
@[simp] theorem setActive_left (e : Emu) (g : Grid) : (e.setActive g).left = e.left := by
  unfold Emu.setActive; split <;> rfl
@[simp] theorem setActive_right (e : Emu) (g : Grid) : (e.setActive g).right = e.right := by
  unfold Emu.setActive; split <;> rfl
@[simp] theorem setActive_mode (e : Emu) (g : Grid) : (e.setActive g).mode = e.mode := by
  unfold Emu.setActive; split <;> rfl
@[simp] theorem setActive_lastCol (e : Emu) (g : Grid) : (e.setActive g).lastCol = e.lastCol := by
  unfold Emu.setActive; split <;> rfl
@[simp] theorem setActive_altActive (e : Emu) (g : Grid) : (e.setActive g).altActive = e.altActive := by
  unfold Emu.setActive; split <;> rfl
@[simp] theorem setActive_active (e : Emu) (g : Grid) : (e.setActive g).active = g := by
  unfold Emu.setActive Emu.active; split <;> simp_all

/-- Changing only cursor position / lastCol keeps the invariant if the new position is on the screen. -/
theorem inv_setCursor {e : Emu} {rows cols : Nat} (h : EmuInv e rows cols) (r c : Int) (lc : Bool)
    (hr0 : 0 ≤ r) (hr1 : r < rows) (hc0 : 0 ≤ c) (hc1 : c ≤ cols) :
    EmuInv { e with cur := { e.cur with row := r, col := c }, lastCol := lc } rows cols :=
  { h with rowLo := hr0, rowHi := hr1, colLo := hc0, colHi := hc1 }

end VaxisModel.Lemmas.Emu
