/-
Helper lemmas for Props/C05Bodies.lean: the monad laws used to normalise `evalBody` on a concrete
translated body, and loop lemmas relating the translated loops to the shapes used in Model/Emu.lean.
-/
import VaxisModel.Model.EmuBody
import VaxisModel.Model.EmuBodyRange
import VaxisModel.Gen.TermBodies
import VaxisModel.Lemmas.EmuBasic

namespace VaxisModel.Lemmas.EmuBody
open VaxisModel.Model.Emu VaxisModel.Model.EmuBody VaxisModel.Lemmas.Emu

theorem ok_bind {α β : Type} (a : α) (f : α → M β) : (Except.ok a >>= f) = f a := rfl
theorem err_bind {α β : Type} (p : Panic) (f : α → M β) : ((Except.error p : M α) >>= f) = .error p := rfl
theorem ite_bind' {α β : Type} (c : Prop) [Decidable c] (a b : M α) (f : α → M β) :
    ((if c then a else b) >>= f) = if c then a >>= f else b >>= f := by split <;> rfl
theorem bind_assoc' {α β γ : Type} (x : M α) (f : α → M β) (g : β → M γ) :
    ((x >>= f) >>= g) = x >>= fun a => f a >>= g := by
  cases x <;> rfl
theorem bind_ok_eta {α : Type} (x : M α) : (x >>= fun a => Except.ok a) = x := by
  cases x <;> rfl

/-! `vt.height()`, `vt.width()`, `vt.activeScreen` as functions of the three fields they read, so
that `simp` sees through record updates of the other fields without case-splitting on `altActive`. -/

def gridActive (p a : Grid) (aa : Bool) : Grid := if aa then a else p
def gridHeight (p a : Grid) (aa : Bool) : Int := ((gridActive p a aa).length : Int)
def gridWidth (p a : Grid) (aa : Bool) : Int :=
  match gridActive p a aa with
  | [] => 0
  | r :: _ => r.length

theorem active_def (e : Emu) : e.active = gridActive e.primary e.alt e.altActive := rfl
theorem height_def (e : Emu) : e.height = gridHeight e.primary e.alt e.altActive := rfl
theorem width_def (e : Emu) : e.width = gridWidth e.primary e.alt e.altActive := rfl

theorem gridActive_setActive (e : Emu) (g : Grid) :
    gridActive (e.setActive g).primary (e.setActive g).alt e.altActive = g := by
  unfold Emu.setActive gridActive; cases e.altActive <;> simp
theorem gridHeight_setActive (e : Emu) (g : Grid) :
    gridHeight (e.setActive g).primary (e.setActive g).alt e.altActive = (g.length : Int) := by
  unfold gridHeight; rw [gridActive_setActive]
theorem setActive_setActive (e : Emu) (g g' : Grid) : (e.setActive g).setActive g' = e.setActive g' := by
  unfold Emu.setActive; cases e.altActive <;> simp

theorem setActive_cs (e : Emu) (g : Grid) : (e.setActive g).cs = e.cs := by unfold Emu.setActive; split <;> rfl
theorem setActive_tabs (e : Emu) (g : Grid) : (e.setActive g).tabs = e.tabs := by unfold Emu.setActive; split <;> rfl
theorem setActive_savedP (e : Emu) (g : Grid) : (e.setActive g).savedP = e.savedP := by unfold Emu.setActive; split <;> rfl
theorem setActive_savedA (e : Emu) (g : Grid) : (e.setActive g).savedA = e.savedA := by unfold Emu.setActive; split <;> rfl
theorem setActive_osc8 (e : Emu) (g : Grid) : (e.setActive g).osc8 = e.osc8 := by unfold Emu.setActive; split <;> rfl
theorem setActive_hasVx (e : Emu) (g : Grid) : (e.setActive g).hasVx = e.hasVx := by unfold Emu.setActive; split <;> rfl

/-- a cell copy inside one row, in the shape `dch` uses -/
theorem cellCopy_same_row (g : Grid) (r c c2 : Int) :
    cellCopy g r c r c2 = (do
      let row ← getI g r
      let x ← getI row c2
      let row' ← setI row c x
      setI g r row') := by
  unfold cellCopy
  cases h : getI g r <;> simp [ok_bind, err_bind]

theorem andThen_norm (s : Frame) (k : Frame → Bool) : andThen (.ok (s, .norm)) k = k s := rfl
theorem andThen_ret (s : Frame) (k : Frame → Bool) : andThen (.ok (s, .ret)) k = true := rfl
theorem andThen_brk (s : Frame) (k : Frame → Bool) : andThen (.ok (s, .brk)) k = true := rfl
theorem andThen_cont (s : Frame) (k : Frame → Bool) : andThen (.ok (s, .cont)) k = true := rfl
theorem andThen_err (p : Panic) (k : Frame → Bool) : andThen (.error p) k = true := rfl
theorem andThen_ite (c : Prop) [Decidable c] (a b : M (Frame × Sig)) (k : Frame → Bool) :
    andThen (if c then a else b) k = if c then andThen a k else andThen b k := by split <;> rfl
theorem andThen_bind {α : Type} (x : M α) (f : α → M (Frame × Sig)) (k : Frame → Bool) :
    andThen (x >>= f) k = andThenM x (fun a => andThen (f a) k) := by
  cases x <;> rfl
theorem andThenM_ok {α : Type} (a : α) (k : α → Bool) : andThenM (.ok a) k = k a := rfl
theorem andThenM_err {α : Type} (p : Panic) (k : α → Bool) : andThenM (.error p : M α) k = true := rfl
theorem andThenM_ite {α : Type} (c : Prop) [Decidable c] (a b : M α) (k : α → Bool) :
    andThenM (if c then a else b) k = if c then andThenM a k else andThenM b k := by split <;> rfl
theorem andThenM_bind {α β : Type} (x : M α) (f : α → M β) (k : β → Bool) :
    andThenM (x >>= f) k = andThenM x (fun a => andThenM (f a) k) := by
  cases x <;> rfl
/-- whatever an opaque computation (a loop over the grid, a callee) returns, the check goes on -/
theorem andThenM_all {α : Type} (x : M α) (k : α → Bool) (h : ∀ a, k a = true) : andThenM x k = true := by
  cases x with
  | ok a => exact h a
  | error p => rfl

theorem goOn_norm : goOn .norm = true := by decide
theorem goOn_cont : goOn .cont = true := by decide
theorem goOn_brk : goOn .brk = false := by decide
theorem goOn_ret : goOn .ret = false := by decide

theorem min_clamp (a w : Int) : min a (w - 1) = if w ≤ a then w - 1 else a := by
  split <;> omega

theorem len3 (r : List Param) : (((r.length : Int) + 1 + 1 + 1 = 0) = False) ∧ (((r.length : Int) + 1 + 1 + 1 = 1) = False) ∧
    (((r.length : Int) + 1 + 1 + 1 = 2) = False) ∧ (((r.length : Int) + 1 + 1 = 0) = False) ∧ (((r.length : Int) + 1 + 1 = 1) = False)
    ∧ (((r.length : Int) + 1 = 0) = False) := by
  refine ⟨?_, ?_, ?_, ?_, ?_, ?_⟩ <;> (apply eq_false; omega)

/-- The bodies for which `body_<fn>` above is proved: none of them contains a statement outside
    the language, and all satisfy the side conditions of `evalBody` (loop bodies only touch cells,
    `return` inside a loop only at the end of the function, `break`/`continue` only in loops). -/
def covered : List Body :=
  [VaxisModel.Gen.TermBodies.body_cuu, VaxisModel.Gen.TermBodies.body_cud, VaxisModel.Gen.TermBodies.body_cuf, VaxisModel.Gen.TermBodies.body_cub, VaxisModel.Gen.TermBodies.body_cnl,
   VaxisModel.Gen.TermBodies.body_cpl, VaxisModel.Gen.TermBodies.body_cha, VaxisModel.Gen.TermBodies.body_cup, VaxisModel.Gen.TermBodies.body_vpa, VaxisModel.Gen.TermBodies.body_vpr,
   VaxisModel.Gen.TermBodies.body_hpa, VaxisModel.Gen.TermBodies.body_hpr, VaxisModel.Gen.TermBodies.body_decstbm, VaxisModel.Gen.TermBodies.body_ind, VaxisModel.Gen.TermBodies.body_nel,
   VaxisModel.Gen.TermBodies.body_ri, VaxisModel.Gen.TermBodies.body_bs, VaxisModel.Gen.TermBodies.body_ht, VaxisModel.Gen.TermBodies.body_lf, VaxisModel.Gen.TermBodies.body_vt,
   VaxisModel.Gen.TermBodies.body_ff, VaxisModel.Gen.TermBodies.body_cr, VaxisModel.Gen.TermBodies.body_csi_su, VaxisModel.Gen.TermBodies.body_csi_sd,
   VaxisModel.Gen.TermBodies.body_el, VaxisModel.Gen.TermBodies.body_ech, VaxisModel.Gen.TermBodies.body_ed, VaxisModel.Gen.TermBodies.body_il, VaxisModel.Gen.TermBodies.body_dl,
   VaxisModel.Gen.TermBodies.body_dch, VaxisModel.Gen.TermBodies.body_scrollUp, VaxisModel.Gen.TermBodies.body_scrollDown,
   VaxisModel.Gen.TermBodies.body_ich, VaxisModel.Gen.TermBodies.body_print,
   VaxisModel.Gen.TermBodies.body_rep, VaxisModel.Gen.TermBodies.body_cht, VaxisModel.Gen.TermBodies.body_cbt,
   VaxisModel.Gen.TermBodies.body_tbc, VaxisModel.Gen.TermBodies.body_hts, VaxisModel.Gen.TermBodies.body_resize,
   VaxisModel.Gen.TermBodies.body_decsc, VaxisModel.Gen.TermBodies.body_decrc, VaxisModel.Gen.TermBodies.body_ris,
   VaxisModel.Gen.TermBodies.body_setDefaultTabStops, VaxisModel.Gen.TermBodies.body_sm, VaxisModel.Gen.TermBodies.body_rm,
   VaxisModel.Gen.TermBodies.body_decset, VaxisModel.Gen.TermBodies.body_decrst, VaxisModel.Gen.TermBodies.body_decrqm,
   VaxisModel.Gen.TermBodies.body_sgr, VaxisModel.Gen.TermBodies.body_osc,
   VaxisModel.Gen.TermBodies.body_csi_arm_2071, VaxisModel.Gen.TermBodies.body_esc_arm_4e, VaxisModel.Gen.TermBodies.body_esc_arm_4f, VaxisModel.Gen.TermBodies.body_esc_arm_3d, VaxisModel.Gen.TermBodies.body_esc_arm_3e, VaxisModel.Gen.TermBodies.body_esc_arm_2830, VaxisModel.Gen.TermBodies.body_esc_arm_2930, VaxisModel.Gen.TermBodies.body_esc_arm_2a30, VaxisModel.Gen.TermBodies.body_esc_arm_2b30, VaxisModel.Gen.TermBodies.body_esc_arm_2842, VaxisModel.Gen.TermBodies.body_esc_arm_2942, VaxisModel.Gen.TermBodies.body_esc_arm_2a42, VaxisModel.Gen.TermBodies.body_esc_arm_2b42, VaxisModel.Gen.TermBodies.body_c0_arm_0e, VaxisModel.Gen.TermBodies.body_c0_arm_0f,
   -- round 4: the arms that only answer the child / post an event / are empty, and the statements of csi() in front of its switch
   VaxisModel.Gen.TermBodies.body_csi_arm_63, VaxisModel.Gen.TermBodies.body_csi_arm_3e63, VaxisModel.Gen.TermBodies.body_csi_arm_6e,
   VaxisModel.Gen.TermBodies.body_csi_arm_2470, VaxisModel.Gen.TermBodies.body_esc_arm_2338, VaxisModel.Gen.TermBodies.body_c0_arm_07,
   VaxisModel.Gen.TermBodies.body_csi_pre]

/-! Tactics: `body_norm` evaluates `evalBody` on a concrete body (first the interpreter itself, with
the comparisons still folded so that their `Decidable` instances are built from normalised
operands, then comparisons and the model side); `body_fin` splits the remaining `if`s. -/

macro "body_norm" : tactic => `(tactic|
  (simp only [height_def, width_def, active_def, Emu.bg, gridActive_setActive, setActive_setActive, setActive_altActive, setActive_cs, setActive_tabs, setActive_savedP, setActive_savedA, setActive_osc8, setActive_hasVx, setActive_cur, setActive_top, setActive_bottom, setActive_left, setActive_right, setActive_mode, setActive_lastCol, evalBody, evalS, evalG, initFrame, evalCond, evalEx, evalBnd, exOk, Frame.get, Frame.set, ok_bind, err_bind,
    ite_bind', bind_assoc', callFn, pmGet, hasBrk, goOn_norm, goOn_cont, goOn_brk, goOn_ret, loopUp, loopDown, List.getD_cons_zero, List.getD_cons_succ, List.getD_nil,
    List.getElem?_cons_zero, List.getElem?_cons_succ, List.getElem?_nil, List.length_cons, List.length_nil, Int.natCast_add, Int.natCast_one, Int.natCast_zero, Nat.zero_add,
    Option.getD_some, Option.getD_none, List.nil_append, List.cons_append,
    Bool.and_true, Bool.true_and, if_true, if_false, ite_true, ite_false, reduceIte, reduceCtorEq,
    Nat.succ_ne_zero, Nat.reduceEqDiff, Bool.false_eq_true, Bool.or_self, Bool.or_false]
   all_goals try simp only [evalCmp, Fixes.current, decide_eq_true_eq, Bool.and_eq_true, Bool.or_eq_true, Bool.not_eq_true',
     Bool.true_and, Bool.false_and, decide_eq_false_iff_not, Bool.not_eq_eq_eq_not, Bool.not_true]
   all_goals simp [evalCmp, Fixes.current, dflt1, height_def, width_def, active_def, gridActive_setActive, setActive_setActive, setActive_cs, setActive_tabs, setActive_savedP, setActive_savedA, setActive_osc8, setActive_hasVx, Emu.bg, ok_bind, err_bind, ite_bind', bind_ok_eta]))
macro "body_fin" : tactic => `(tactic| all_goals ((repeat' (split <;> (try omega) <;> try simp_all)) <;> (try simp only [decide_eq_true_eq, decide_eq_false_iff_not] at *) <;> (try omega) <;> (try rfl)))

end VaxisModel.Lemmas.EmuBody
