/-
Helper lemmas for Props/C05Bodies.lean: the monad laws used to normalise `evalBody` on a concrete
translated body, and loop lemmas relating the translated loops to the shapes used in Model/Emu.lean.
-/
import VaxisModel.Model.EmuBody
import VaxisModel.Gen.TermBodies
import VaxisModel.Lemmas.EmuBasic

namespace VaxisModel.Lemmas.EmuBody
open VaxisModel.Model.Emu VaxisModel.Model.EmuBody VaxisModel.Lemmas.Emu

theorem ok_bind {α β : Type} (a : α) (f : α → M β) : (Except.ok a >>= f) = f a := rfl
theorem err_bind {α β : Type} (p : Panic) (f : α → M β) : ((Except.error p : M α) >>= f) = .error p := rfl
theorem ite_bind' {α β : Type} (c : Prop) [Decidable c] (a b : M α) (f : α → M β) :
    ((if c then a else b) >>= f) = if c then a >>= f else b >>= f := by split <;> rfl
theorem bind_assoc' {α β γ : Type} (x : M α) (f : α → M β) (g : β → M γ) :
    ((x >>= f) >>= g) = x >>= fun a => f a >>= g := by
  cases x <;> rfl
theorem bind_ok_eta {α : Type} (x : M α) : (x >>= fun a => Except.ok a) = x := by
  cases x <;> rfl

/-! `vt.height()`, `vt.width()`, `vt.activeScreen` as functions of the three fields they read, so
that `simp` sees through record updates of the other fields without case-splitting on `altActive`. -/

def gridActive (p a : Grid) (aa : Bool) : Grid := if aa then a else p
def gridHeight (p a : Grid) (aa : Bool) : Int := ((gridActive p a aa).length : Int)
def gridWidth (p a : Grid) (aa : Bool) : Int :=
  match gridActive p a aa with
  | [] => 0
  | r :: _ => r.length

theorem active_def (e : Emu) : e.active = gridActive e.primary e.alt e.altActive := rfl
theorem height_def (e : Emu) : e.height = gridHeight e.primary e.alt e.altActive := rfl
theorem width_def (e : Emu) : e.width = gridWidth e.primary e.alt e.altActive := rfl

/-! Tactics: `body_norm` evaluates `evalBody` on a concrete body (first the interpreter itself, with
the comparisons still folded so that their `Decidable` instances are built from normalised
operands, then comparisons and the model side); `body_fin` splits the remaining `if`s. -/

macro "body_norm" : tactic => `(tactic|
  (simp only [height_def, width_def, active_def, Emu.bg, evalBody, evalS, evalG, initFrame, evalCond, evalEx, evalBnd, exOk, Frame.get, Frame.set, ok_bind, err_bind,
    ite_bind', callFn, pmGet, hasBrk, loopUp, loopDown, List.getD_cons_zero, List.getD_cons_succ, List.getD_nil,
    List.getElem?_cons_zero, List.getElem?_cons_succ, List.getElem?_nil, List.length_cons, List.length_nil, Int.natCast_add, Int.natCast_one, Int.natCast_zero, Nat.zero_add,
    Option.getD_some, Option.getD_none, List.nil_append, List.cons_append,
    Bool.and_true, Bool.true_and, if_true, if_false, ite_true, ite_false, reduceIte, reduceCtorEq,
    Nat.succ_ne_zero, Nat.reduceEqDiff, Bool.false_eq_true, Bool.or_self, Bool.or_false]
   all_goals try simp only [evalCmp, Fixes.current, decide_eq_true_eq, Bool.and_eq_true, Bool.or_eq_true, Bool.not_eq_true',
     Bool.true_and, Bool.false_and, decide_eq_false_iff_not, Bool.not_eq_eq_eq_not, Bool.not_true]
   all_goals simp [evalCmp, Fixes.current, dflt1, height_def, width_def, active_def, Emu.bg, ok_bind, err_bind, ite_bind', bind_ok_eta]))
macro "body_fin" : tactic => `(tactic| all_goals ((repeat' (split <;> (try omega) <;> try simp_all)) <;> (try simp only [decide_eq_true_eq, decide_eq_false_iff_not] at *) <;> (try omega)))

end VaxisModel.Lemmas.EmuBody
