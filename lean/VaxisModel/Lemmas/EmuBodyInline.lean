/-
`body_<arm>` for the inline arms of the dispatchers that contain code without a callee (round 3): DECSCUSR (`CSI Ps SP q`), the
single shifts `ESC N` / `ESC O`, the keypad modes `ESC =` / `ESC >`, the eight character-set designations `ESC ( ) * + 0 / B`,
SO / SI. With these, `csi_is_generated` / `esc_is_generated` / `c0_is_generated` cover every arm that changes the state.
-/
import VaxisModel.Lemmas.EmuBody

namespace VaxisModel.Lemmas.EmuBody
open VaxisModel.Model.Emu VaxisModel.Model.EmuBody VaxisModel.Lemmas.Emu VaxisModel.Gen VaxisModel.Gen.TermModes

theorem body_csi_arm_2071_eq (e : Emu) (pm : List Param) : evalBody TermBodies.body_csi_arm_2071 pm [] e = .ok { e with cur := { e.cur with shape := ps pm } } := by
  simp [TermBodies.body_csi_arm_2071, TermBodies.stmt_csi_arm_2071, evalBody, evalS, evalEx, exOk, initFrame, ok_bind, Modes.set]

theorem body_esc_arm_4e_eq (e : Emu)  : evalBody TermBodies.body_esc_arm_4e [] [] e = .ok { e with cs := { e.cs with ss := true, sel := 2 } } := by
  simp [TermBodies.body_esc_arm_4e, TermBodies.stmt_esc_arm_4e, evalBody, evalS, evalEx, exOk, initFrame, ok_bind, Modes.set]

theorem body_esc_arm_4f_eq (e : Emu)  : evalBody TermBodies.body_esc_arm_4f [] [] e = .ok { e with cs := { e.cs with ss := true, sel := 3 } } := by
  simp [TermBodies.body_esc_arm_4f, TermBodies.stmt_esc_arm_4f, evalBody, evalS, evalEx, exOk, initFrame, ok_bind, Modes.set]

theorem body_esc_arm_3d_eq (e : Emu)  : evalBody TermBodies.body_esc_arm_3d [] [] e = .ok { e with mode := { e.mode with deckpam := true, deckpnm := false } } := by
  simp [TermBodies.body_esc_arm_3d, TermBodies.stmt_esc_arm_3d, evalBody, evalS, evalEx, exOk, initFrame, ok_bind, Modes.set]

theorem body_esc_arm_3e_eq (e : Emu)  : evalBody TermBodies.body_esc_arm_3e [] [] e = .ok { e with mode := { e.mode with deckpnm := true, deckpam := false } } := by
  simp [TermBodies.body_esc_arm_3e, TermBodies.stmt_esc_arm_3e, evalBody, evalS, evalEx, exOk, initFrame, ok_bind, Modes.set]

theorem body_esc_arm_2830_eq (e : Emu)  : evalBody TermBodies.body_esc_arm_2830 [] [] e = .ok { e with cs := { e.cs with g0 := 1 } } := by
  simp [TermBodies.body_esc_arm_2830, TermBodies.stmt_esc_arm_2830, evalBody, evalS, evalEx, exOk, initFrame, ok_bind, Modes.set]

theorem body_esc_arm_2930_eq (e : Emu)  : evalBody TermBodies.body_esc_arm_2930 [] [] e = .ok { e with cs := { e.cs with g1 := 1 } } := by
  simp [TermBodies.body_esc_arm_2930, TermBodies.stmt_esc_arm_2930, evalBody, evalS, evalEx, exOk, initFrame, ok_bind, Modes.set]

theorem body_esc_arm_2a30_eq (e : Emu)  : evalBody TermBodies.body_esc_arm_2a30 [] [] e = .ok { e with cs := { e.cs with g2 := 1 } } := by
  simp [TermBodies.body_esc_arm_2a30, TermBodies.stmt_esc_arm_2a30, evalBody, evalS, evalEx, exOk, initFrame, ok_bind, Modes.set]

theorem body_esc_arm_2b30_eq (e : Emu)  : evalBody TermBodies.body_esc_arm_2b30 [] [] e = .ok { e with cs := { e.cs with g3 := 1 } } := by
  simp [TermBodies.body_esc_arm_2b30, TermBodies.stmt_esc_arm_2b30, evalBody, evalS, evalEx, exOk, initFrame, ok_bind, Modes.set]

theorem body_esc_arm_2842_eq (e : Emu)  : evalBody TermBodies.body_esc_arm_2842 [] [] e = .ok { e with cs := { e.cs with g0 := 0 } } := by
  simp [TermBodies.body_esc_arm_2842, TermBodies.stmt_esc_arm_2842, evalBody, evalS, evalEx, exOk, initFrame, ok_bind, Modes.set]

theorem body_esc_arm_2942_eq (e : Emu)  : evalBody TermBodies.body_esc_arm_2942 [] [] e = .ok { e with cs := { e.cs with g1 := 0 } } := by
  simp [TermBodies.body_esc_arm_2942, TermBodies.stmt_esc_arm_2942, evalBody, evalS, evalEx, exOk, initFrame, ok_bind, Modes.set]

theorem body_esc_arm_2a42_eq (e : Emu)  : evalBody TermBodies.body_esc_arm_2a42 [] [] e = .ok { e with cs := { e.cs with g2 := 0 } } := by
  simp [TermBodies.body_esc_arm_2a42, TermBodies.stmt_esc_arm_2a42, evalBody, evalS, evalEx, exOk, initFrame, ok_bind, Modes.set]

theorem body_esc_arm_2b42_eq (e : Emu)  : evalBody TermBodies.body_esc_arm_2b42 [] [] e = .ok { e with cs := { e.cs with g3 := 0 } } := by
  simp [TermBodies.body_esc_arm_2b42, TermBodies.stmt_esc_arm_2b42, evalBody, evalS, evalEx, exOk, initFrame, ok_bind, Modes.set]

theorem body_c0_arm_0e_eq (e : Emu)  : evalBody TermBodies.body_c0_arm_0e [] [] e = .ok { e with cs := { e.cs with sel := 1 } } := by
  simp [TermBodies.body_c0_arm_0e, TermBodies.stmt_c0_arm_0e, evalBody, evalS, evalEx, exOk, initFrame, ok_bind, Modes.set]

theorem body_c0_arm_0f_eq (e : Emu)  : evalBody TermBodies.body_c0_arm_0f [] [] e = .ok { e with cs := { e.cs with sel := 2 } } := by
  simp [TermBodies.body_c0_arm_0f, TermBodies.stmt_c0_arm_0f, evalBody, evalS, evalEx, exOk, initFrame, ok_bind, Modes.set]

end VaxisModel.Lemmas.EmuBody
