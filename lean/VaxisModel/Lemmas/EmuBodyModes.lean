/-
`body_<fn>` for the functions translated in round 3: esc.go decsc / decrc / ris / setDefaultTabStops and
mode.go sm / rm / decset / decrst / decrqm (every arm, including the special ones 5, 7, 1049, 2027).
The loops `for _, param := range params` run at function level (`paramLoop`); `paramLoop_fold`
relates them to the `foldlM` of the model.
-/
import VaxisModel.Lemmas.EmuBody

namespace VaxisModel.Lemmas.EmuBody
open VaxisModel.Model.Emu VaxisModel.Model.EmuBody VaxisModel.Lemmas.Emu VaxisModel.Gen VaxisModel.Gen.TermModes

/-- A loop over the parameter list whose body is, per parameter, the model's step function. -/
theorem paramLoop_fold (pm0 : List Param) (body : Stmt) (f : Emu → Param → M Emu)
    (h : ∀ (s : Frame) (p : Param), evalS pm0 body { s with param := p.1 } =
      (f s.e p >>= fun e' => .ok ({ s with e := e', param := p.1 }, .norm))) :
    ∀ (pm : List Param) (s : Frame),
      (paramLoop (fun p s => do
        let r ← evalS pm0 body { s with param := p }
        .ok ({ r.1 with param := s.param }, r.2)) pm s >>= fun s' => .ok s'.e) = pm.foldlM f s.e := by
  intro pm
  induction pm with
  | nil => intro s; rfl
  | cons p rest ih =>
    intro s
    simp only [paramLoop, h s p, List.foldlM_cons, bind_assoc']
    cases hf : f s.e p with
    | error x => rfl
    | ok e' =>
      simp only [ok_bind, reduceCtorEq, or_self, if_false]
      exact ih { s with e := e' }

theorem evalBody_forParams (pm : List Param) (body : Stmt) (f : Emu → Param → M Emu) (e : Emu) (name : String) (k : Nat)
    (h : ∀ (s : Frame) (p : Param), evalS pm body { s with param := p.1 } =
      (f s.e p >>= fun e' => .ok ({ s with e := e', param := p.1 }, .norm))) :
    evalBody { name := name, nlocals := k, stmt := .forParams body } pm [] e = pm.foldlM f e := by
  have := paramLoop_fold pm body f h pm (initFrame e [])
  simp only [evalBody, evalS, bind_assoc', ok_bind]
  exact this

theorem foldlM_ok {α β : Type} (f : β → α → β) (l : List α) (b : β) :
    l.foldlM (fun b a => (Except.ok (f b a) : M β)) b = .ok (l.foldl f b) := by
  induction l generalizing b with
  | nil => rfl
  | cons a r ih => simp only [List.foldlM_cons, ok_bind, List.foldl_cons]; exact ih _

/-! ### DECSC / DECRC / RIS -/

theorem body_decsc_eq (e : Emu) : evalBody TermBodies.body_decsc [] [] e = .ok (decsc e) := by
  cases hs : e.mode.smcup <;>
    simp [TermBodies.body_decsc, TermBodies.stmt_decsc, decsc, evalBody, evalS, evalCond, initFrame, ok_bind, Modes.get, hs]

theorem body_decrc_eq (e : Emu) : evalBody TermBodies.body_decrc [] [] e = .ok (decrc e) := by
  cases hs : e.mode.smcup <;>
    simp [TermBodies.body_decrc, TermBodies.stmt_decrc, decrc, evalBody, evalS, evalCond, initFrame, ok_bind, Modes.get, hs]

theorem rangeStep_default : rangeStep 8 350 8 = defaultTabs := by decide

theorem body_setDefaultTabStops_eq (e : Emu) :
    evalBody TermBodies.body_setDefaultTabStops [] [] e = .ok { e with tabs := defaultTabs } := by
  simp only [TermBodies.body_setDefaultTabStops, TermBodies.stmt_setDefaultTabStops, evalBody, evalS, initFrame, ok_bind,
    if_true, List.nil_append, rangeStep_default]

/-! ### SM / RM / DECSET / DECRST -/

theorem lookupMode_nil (n : Int) : lookupMode [] n = none := rfl
theorem lookupMode_cons (k : Int) (f : ModeField) (t : List (Int × ModeField)) (n : Int) :
    lookupMode ((k, f) :: t) n = if n = k then some f else lookupMode t n := by
  unfold lookupMode
  simp only [List.find?]
  by_cases h : n = k
  · subst h; simp
  · have : ¬ k = n := fun h' => h h'.symm
    simp [h, this]

theorem body_sm_eq (e : Emu) (pm : List Param) : evalBody TermBodies.body_sm pm [] e = .ok (sm e pm) := by
  unfold sm
  rw [← foldlM_ok]
  simp only [TermBodies.body_sm, TermBodies.stmt_sm]
  apply evalBody_forParams
  intro s p
  simp only [evalS, evalCond, evalEx, evalCmp, ok_bind, smOne, smTable, lookupMode_cons, lookupMode_nil]
  generalize p.1 = n
  by_cases h2 : n = 2
  · subst h2; simp
  by_cases h4 : n = 4
  · subst h4; simp
  by_cases h12 : n = 12
  · subst h12; simp
  by_cases h20 : n = 20
  · subst h20; simp
  simp [h2, h4, h12, h20]

theorem body_rm_eq (e : Emu) (pm : List Param) : evalBody TermBodies.body_rm pm [] e = .ok (rm e pm) := by
  unfold rm
  rw [← foldlM_ok]
  simp only [TermBodies.body_rm, TermBodies.stmt_rm]
  apply evalBody_forParams
  intro s p
  simp only [evalS, evalCond, evalEx, evalCmp, ok_bind, smOne, rmTable, lookupMode_cons, lookupMode_nil]
  generalize p.1 = n
  by_cases h2 : n = 2
  · subst h2; simp
  by_cases h4 : n = 4
  · subst h4; simp
  by_cases h12 : n = 12
  · subst h12; simp
  by_cases h20 : n = 20
  · subst h20; simp
  simp [h2, h4, h12, h20]

theorem body_decset_eq (e : Emu) (pm : List Param) :
    evalBody TermBodies.body_decset pm [] e = decset Fixes.current e pm := by
  unfold decset
  simp only [TermBodies.body_decset, TermBodies.stmt_decset]
  apply evalBody_forParams
  intro s p
  simp only [evalS, evalCond, evalEx, evalCmp, ok_bind, decsetOne, decsetTable, lookupMode_cons, lookupMode_nil]
  generalize p.1 = n
  by_cases h1 : n = 1
  · subst h1; simp [callFn, Modes.set, Modes.get, ok_bind, bind_assoc', Fixes.current]
  by_cases h2 : n = 2
  · subst h2; simp [callFn, Modes.set, Modes.get, ok_bind, bind_assoc', Fixes.current]
  by_cases h3 : n = 3
  · subst h3; simp [callFn, Modes.set, Modes.get, ok_bind, bind_assoc', Fixes.current]
  by_cases h4 : n = 4
  · subst h4; simp [callFn, Modes.set, Modes.get, ok_bind, bind_assoc', Fixes.current]
  by_cases h5 : n = 5
  · subst h5; simp [callFn, Modes.set, Modes.get, ok_bind, bind_assoc', Fixes.current]
  by_cases h6 : n = 6
  · subst h6; simp [callFn, Modes.set, Modes.get, ok_bind, bind_assoc', Fixes.current]
  by_cases h7 : n = 7
  · subst h7; simp [callFn, Modes.set, Modes.get, ok_bind, bind_assoc', Fixes.current]
  by_cases h8 : n = 8
  · subst h8; simp [callFn, Modes.set, Modes.get, ok_bind, bind_assoc', Fixes.current]
  by_cases h25 : n = 25
  · subst h25; simp [callFn, Modes.set, Modes.get, ok_bind, bind_assoc', Fixes.current]
  by_cases h1000 : n = 1000
  · subst h1000; simp [callFn, Modes.set, Modes.get, ok_bind, bind_assoc', Fixes.current]
  by_cases h1002 : n = 1002
  · subst h1002; simp [callFn, Modes.set, Modes.get, ok_bind, bind_assoc', Fixes.current]
  by_cases h1003 : n = 1003
  · subst h1003; simp [callFn, Modes.set, Modes.get, ok_bind, bind_assoc', Fixes.current]
  by_cases h1006 : n = 1006
  · subst h1006; simp [callFn, Modes.set, Modes.get, ok_bind, bind_assoc', Fixes.current]
  by_cases h1007 : n = 1007
  · subst h1007; simp [callFn, Modes.set, Modes.get, ok_bind, bind_assoc', Fixes.current]
  by_cases h1049 : n = 1049
  · subst h1049; simp [callFn, Modes.set, Modes.get, ok_bind, bind_assoc', Fixes.current]
  by_cases h2004 : n = 2004
  · subst h2004; simp [callFn, Modes.set, Modes.get, ok_bind, bind_assoc', Fixes.current]
  simp [h1, h2, h3, h4, h5, h6, h7, h8, h25, h1000, h1002, h1003, h1006, h1007, h1049, h2004, ok_bind]

theorem body_decrst_eq (e : Emu) (pm : List Param) :
    evalBody TermBodies.body_decrst pm [] e = decrst e pm := by
  unfold decrst
  simp only [TermBodies.body_decrst, TermBodies.stmt_decrst]
  apply evalBody_forParams
  intro s p
  simp only [evalS, evalCond, evalEx, evalCmp, ok_bind, decrstOne, decrstTable, lookupMode_cons, lookupMode_nil]
  generalize p.1 = n
  by_cases h1 : n = 1
  · subst h1; simp [callFn, Modes.set, Modes.get, ok_bind, bind_assoc', Fixes.current]
  by_cases h2 : n = 2
  · subst h2; simp [callFn, Modes.set, Modes.get, ok_bind, bind_assoc', Fixes.current]
  by_cases h3 : n = 3
  · subst h3; simp [callFn, Modes.set, Modes.get, ok_bind, bind_assoc', Fixes.current]
  by_cases h4 : n = 4
  · subst h4; simp [callFn, Modes.set, Modes.get, ok_bind, bind_assoc', Fixes.current]
  by_cases h5 : n = 5
  · subst h5; simp [callFn, Modes.set, Modes.get, ok_bind, bind_assoc', Fixes.current]
  by_cases h6 : n = 6
  · subst h6; simp [callFn, Modes.set, Modes.get, ok_bind, bind_assoc', Fixes.current]
  by_cases h7 : n = 7
  · subst h7; simp [callFn, Modes.set, Modes.get, ok_bind, bind_assoc', Fixes.current]
  by_cases h8 : n = 8
  · subst h8; simp [callFn, Modes.set, Modes.get, ok_bind, bind_assoc', Fixes.current]
  by_cases h25 : n = 25
  · subst h25; simp [callFn, Modes.set, Modes.get, ok_bind, bind_assoc', Fixes.current]
  by_cases h1000 : n = 1000
  · subst h1000; simp [callFn, Modes.set, Modes.get, ok_bind, bind_assoc', Fixes.current]
  by_cases h1002 : n = 1002
  · subst h1002; simp [callFn, Modes.set, Modes.get, ok_bind, bind_assoc', Fixes.current]
  by_cases h1003 : n = 1003
  · subst h1003; simp [callFn, Modes.set, Modes.get, ok_bind, bind_assoc', Fixes.current]
  by_cases h1006 : n = 1006
  · subst h1006; simp [callFn, Modes.set, Modes.get, ok_bind, bind_assoc', Fixes.current]
  by_cases h1007 : n = 1007
  · subst h1007; simp [callFn, Modes.set, Modes.get, ok_bind, bind_assoc', Fixes.current]
  by_cases h1049 : n = 1049
  · subst h1049
    cases hsm : s.e.mode.smcup
    · simp [callFn, Modes.set, Modes.get, ok_bind, bind_assoc', Fixes.current, hsm]
    · cases hed : ed s.e 2 <;> simp [callFn, Modes.set, Modes.get, ok_bind, bind_assoc', Fixes.current, hsm, hed, err_bind]
  by_cases h2004 : n = 2004
  · subst h2004; simp [callFn, Modes.set, Modes.get, ok_bind, bind_assoc', Fixes.current]
  simp [h1, h2, h3, h4, h5, h6, h7, h8, h25, h1000, h1002, h1003, h1006, h1007, h1049, h2004, ok_bind]

/-! ### DECRQM: a reply only -/

/-- statements that can only change int locals: assignments of literals to locals, branches, replies -/
def localOnly : Stmt → Bool
  | .skip => true
  | .seq a b => localOnly a && localOnly b
  | .ite _ t f => localOnly t && localOnly f
  | .assign (.var _) (.lit _) => true
  | .reply _ => true
  | _ => false

theorem evalS_localOnly (pm : List Param) : ∀ (st : Stmt), localOnly st = true → ∀ s : Frame,
    ∃ s', evalS pm st s = .ok (s', .norm) ∧ s'.e = s.e := by
  intro st
  induction st with
  | skip => intro _ s; exact ⟨s, by simp only [evalS], rfl⟩
  | seq a b iha ihb =>
    intro h s
    simp only [localOnly, Bool.and_eq_true] at h
    obtain ⟨s1, h1, e1⟩ := iha h.1 s
    obtain ⟨s2, h2, e2⟩ := ihb h.2 s1
    exact ⟨s2, by simp only [evalS, h1, ok_bind, if_true, h2], e2.trans e1⟩
  | ite c t f iht ihf =>
    intro h s
    simp only [localOnly, Bool.and_eq_true] at h
    simp only [evalS]
    split
    · exact iht h.1 s
    · exact ihf h.2 s
  | assign l x =>
    intro h s
    cases l <;> cases x <;> simp only [localOnly, reduceCtorEq] at h
    rename_i k n
    exact ⟨s.set (.var k) (evalEx pm s [] (.lit n)), by simp only [evalS, exOk, if_true], rfl⟩
  | reply r => intro _ s; exact ⟨s, by simp only [evalS], rfl⟩
  | _ => intro h; simp only [localOnly, reduceCtorEq] at h

theorem decrqm_localOnly : localOnly TermBodies.stmt_decrqm = true := by decide

theorem body_decrqm_eq (e : Emu) (pd : Int) : evalBody TermBodies.body_decrqm [] [pd] e = .ok e := by
  obtain ⟨s', h, he⟩ := evalS_localOnly [] TermBodies.stmt_decrqm decrqm_localOnly (initFrame e [pd])
  unfold evalBody
  simp only [TermBodies.body_decrqm]
  rw [h]
  simp only [ok_bind, he, initFrame]

/-! ### RIS -/

theorem body_ris_eq (e : Emu) : evalBody TermBodies.body_ris [] [] e = .ok (ris e) := by
  simp only [TermBodies.body_ris, TermBodies.stmt_ris, ris, risF]
  body_norm
  have hh : 0 ≤ gridHeight e.primary e.alt e.altActive := Int.natCast_nonneg _
  have hw : 0 ≤ gridWidth e.primary e.alt e.altActive := by
    unfold gridWidth; split
    · exact Int.le_refl 0
    · exact Int.natCast_nonneg _
  generalize gridHeight e.primary e.alt e.altActive = h at hh ⊢
  generalize gridWidth e.primary e.alt e.altActive = w at hw ⊢
  have h1 : ¬ h < 0 := by omega
  have h2 : ¬ w < 0 := by omega
  by_cases hz : h ≤ 0
  · have h0 : h = 0 := by omega
    subst h0
    simp [blankGrid]
  · simp [h1, h2, hz, blankGrid]

end VaxisModel.Lemmas.EmuBody
