/-
`body_osc`: the translated body of osc() (osc.go) is the model's `osc` — state and number of events posted — for every
payload, every base64 verdict, every answer of the host terminal, from every state. `cutString` is a primitive of the
language (`Stmt.cut` = `cutSemi`); its source text is pinned by `cutString_source`.
-/
import VaxisModel.Lemmas.EmuBody

namespace VaxisModel.Lemmas.EmuBody
open VaxisModel.Model.Emu VaxisModel.Model.EmuBody VaxisModel.Lemmas.Emu VaxisModel.Gen VaxisModel.Gen.TermModes

theorem cutString_source : TermBodies.cutStringSrc =
    "// Copied from stdlib to here for go 1.16 compat func cutString(s string, sep string) (before string, after string, found bool) { if i := strings.Index(s, sep); i >= 0 { return s[:i], s[i+len(sep):], true } return s, \"\", false }" := rfl

macro "osc_simp" : tactic => `(tactic|
  simp [*, evalS, evalCond, evalEx, evalCmp, Frame.set, Frame.get, ok_bind, err_bind, bind_assoc', Fixes.current])

theorem body_osc_eq (e : Emu) (data : List Nat) (info : OscInfo) (he : Bool) :
    evalOsc TermBodies.body_osc data info he e = osc Fixes.current e data info := by
  simp only [TermBodies.body_osc, TermBodies.stmt_osc, evalOsc, osc]
  rcases hc : cutSemi data with ⟨sel, val, found⟩
  cases found
  · osc_simp
  · by_cases h0 : sel = [48]
    · subst h0; osc_simp
    by_cases h2 : sel = [50]
    · subst h2; osc_simp
    by_cases h8 : sel = [56]
    · subst h8
      rcases hc2 : cutSemi val with ⟨a, b, f2⟩
      cases f2 <;> cases ho : e.osc8 <;> osc_simp
    by_cases h9 : sel = [57]
    · subst h9; osc_simp
    by_cases h11 : sel = [49, 49]
    · subst h11
      by_cases hq : val = [63] <;> cases hv : e.hasVx <;> cases he <;> osc_simp
    by_cases h52 : sel = [53, 50]
    · subst h52
      cases hv : e.hasVx <;> cases hb : info.b64ok <;> osc_simp
    by_cases h777 : sel = [55, 55, 55]
    · subst h777
      rcases hc2 : cutSemi val with ⟨a, b, f2⟩
      cases f2
      · osc_simp
      · by_cases hn : a = [110, 111, 116, 105, 102, 121]
        · subst hn
          rcases hc3 : cutSemi b with ⟨a3, b3, f3⟩
          cases f3 <;> osc_simp
        · osc_simp
    osc_simp

end VaxisModel.Lemmas.EmuBody
