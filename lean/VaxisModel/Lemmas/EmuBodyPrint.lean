/-
print() (widgets/term/term.go): the translated body equals the model function. The body is long, so
it is run in phases (`runE k` = from the (k+1)-th statement on), mirroring the phase functions
`printK0 / printK1 / printK2 / printWrite / printAdvance` of Lemmas/EmuSafe4.lean, last phase first.
-/
import VaxisModel.Lemmas.EmuBodyRow
import VaxisModel.Lemmas.EmuSafe4
namespace VaxisModel.Lemmas.EmuBody
open VaxisModel.Model.Emu VaxisModel.Model.EmuBody VaxisModel.Lemmas.Emu VaxisModel.Gen

def tailSeq : Stmt → Stmt
  | .seq _ b => b
  | s => s

/-- the suffix of a right-nested sequence after its first `k` statements -/
def dropSeq : Nat → Stmt → Stmt
  | 0, s => s
  | k + 1, s => tailSeq (dropSeq k s)

/-- run print() from its (k+1)-th statement on -/
def runFrom (k : Nat) (s : Frame) : M (Frame × Sig) := evalS [] (dropSeq k TermBodies.stmt_print) s

theorem runFrom_succ (k : Nat) (a b : Stmt) (h : dropSeq k TermBodies.stmt_print = .seq a b) (s : Frame) :
    runFrom k s = (evalS [] a s >>= fun r => if r.2 = .norm then runFrom (k + 1) r.1 else .ok r) := by
  unfold runFrom
  have : dropSeq (k + 1) TermBodies.stmt_print = b := by simp [dropSeq, h, tailSeq]
  rw [h, this]
  rfl

/-- print, statements 18–20: the cursor advance -/
theorem print_adv (s : Frame) (w : Nat) (h1 : s.vars 1 = w) :
    runFrom 17 s = .ok ({ s with e := printAdvance s.e w }, .norm) := by
  obtain ⟨e, vars, g⟩ := s
  simp only at h1
  simp only [runFrom, dropSeq, tailSeq, TermBodies.stmt_print, printAdvance]
  body_norm
  simp only [h1, Modes.get]
  body_fin

theorem modCell_then (g : Grid) (r c : Int) (f f2 : ECell → ECell) :
    (modCell g r c f >>= fun g1 => modCell g1 r c f2) = modCell g r c (fun x => f2 (f x)) := by
  unfold modCell
  cases hg : getI g r with
  | error p => rfl
  | ok row =>
    simp only [ok_bind, bind_assoc']
    cases hx : getI row c with
    | error p => rfl
    | ok x =>
      simp only [ok_bind, setI_of hx, setI_of hg, getI_set hg, getI_set hx, setI_set hx, setI_set hg]

/-- print, statements 17–20: blank the trailing cells of a wide glyph, advance -/
theorem print_trail (s : Frame) (w : Nat) (h1 : s.vars 1 = w) :
    runFrom 16 s =
      (forUpBrk 1 ((w : Int) - 1) (fun i gr =>
          if s.vars 3 + i > s.e.right then .ok (gr, false)
          else do
            let gr' ← modCell gr (s.vars 4) (s.vars 3 + i) (fun c => { c with g := [32], st := s.e.cur.st })
            .ok (gr', true)) s.e.active >>= fun g2 =>
        .ok ({ s with e := printAdvance (s.e.setActive g2) w }, .norm)) := by
  obtain ⟨e, vars, g⟩ := s
  simp only at h1
  rw [runFrom_succ 16 _ _ rfl]
  body_norm
  simp only [h1]
  have hb : (fun i g =>
        if e.right < vars 3 + i then (Except.ok (g, false) : M (Grid × Bool))
        else do
          let a ← modCell g (vars 4) (vars 3 + i) fun x => { g := [32], w := x.w, st := x.st, wrapped := x.wrapped }
          let a ← modCell a (vars 4) (vars 3 + i) fun x => { g := x.g, w := x.w, st := e.cur.st, wrapped := x.wrapped }
          Except.ok (a, true)) =
      (fun i gr =>
        if e.right < vars 3 + i then Except.ok (gr, false)
        else do
          let gr' ← modCell gr (vars 4) (vars 3 + i) fun c => { g := [32], w := c.w, st := e.cur.st, wrapped := c.wrapped }
          Except.ok (gr', true)) := by
    funext i g
    split
    · rfl
    · rw [← bind_assoc', modCell_then]
  rw [hb]
  congr 1
  funext a
  rw [print_adv _ w (by simpa using h1)]

/-- print, statements 16–20: write the glyph, blank the trailing cells, advance -/
theorem print_write (s : Frame) (w : Nat) (h0 : s.vars 0 = w) (h1 : s.vars 1 = w) (hw : w ≠ 0) :
    runFrom 15 s =
      (printWrite s.e s.g w (s.vars 3) (s.vars 4) >>= fun e' => .ok ({ s with e := e' }, .norm)) := by
  obtain ⟨e, vars, g⟩ := s
  simp only at h0 h1
  rw [runFrom_succ 15 _ _ rfl]
  simp only [printWrite, hw, if_false]
  body_norm
  simp only [h0, Int.toNat_natCast]
  congr 1; funext a; congr 1; funext a; congr 1; funext a
  rw [print_trail _ w (by simpa using h1)]
  simp only [active_def, gridActive_setActive, setActive_altActive, setActive_right, setActive_cur, bind_assoc', ok_bind, setActive_setActive]

/-- the emulator print() leaves behind when run from its (k+1)-th statement on -/
def runE (k : Nat) (s : Frame) : M Emu := runFrom k s >>= fun r => .ok r.1.e

theorem runE_succ (k : Nat) (a b : Stmt) (h : dropSeq k TermBodies.stmt_print = .seq a b) (s : Frame) :
    runE k s = (evalS [] a s >>= fun r => if r.2 = .norm then runE (k + 1) r.1 else .ok r.1.e) := by
  unfold runE
  rw [runFrom_succ k a b h, bind_assoc']
  congr 1
  funext r
  split <;> rfl

theorem print_write' (s : Frame) (w : Nat) (h0 : s.vars 0 = w) (h1 : s.vars 1 = w) (hw : w ≠ 0) :
    runE 15 s = printWrite s.e s.g w (s.vars 3) (s.vars 4) := by
  unfold runE
  rw [print_write s w h0 h1 hw, bind_assoc']
  simp only [ok_bind, bind_ok_eta]

/-- print, statements 14–20 -/
theorem print_k2c (s : Frame) (w : Nat) (h0 : s.vars 0 = w) (h1 : s.vars 1 = w) :
    runE 13 s = printWrite s.e s.g w (s.vars 3) (s.vars 4) := by
  obtain ⟨e, vars, g⟩ := s
  simp only at h0 h1
  rw [runE_succ 13 _ _ rfl]
  body_norm
  simp only [h1]
  by_cases hw : w = 0
  · subst hw
    simp [printWrite]
  · have hw' : ¬ ((w : Int) = 0) := by omega
    simp only [hw', if_false]
    rw [runE_succ 14 _ _ rfl]
    body_norm
    exact print_write' _ w h0 h1 hw

/-- print, statements 13–20 -/
theorem print_k2b (s : Frame) (w : Nat) (h0 : s.vars 0 = w) (h1 : s.vars 1 = w) :
    runE 12 s = printWrite s.e s.g w (s.vars 3) (if s.vars 4 > s.e.height - 1 then s.e.height - 1 else s.vars 4) := by
  obtain ⟨e, vars, g⟩ := s
  simp only at h0 h1
  rw [runE_succ 12 _ _ rfl]
  body_norm
  split
  · rw [print_k2c _ w (by simpa using h0) (by simpa using h1)]
    simp [height_def]
  · rw [print_k2c _ w (by simpa using h0) (by simpa using h1)]

/-- print, statements 12–20: clamp the position, nothing for a zero-width glyph, else write -/
theorem print_k2 (s : Frame) (w : Nat) (h0 : s.vars 0 = w) (h1 : s.vars 1 = w) :
    runE 11 s = printK2 (s.vars 3) (s.vars 4) s.g w s.e := by
  obtain ⟨e, vars, g⟩ := s
  simp only at h0 h1
  rw [runE_succ 11 _ _ rfl]
  body_norm
  unfold printK2
  split
  · rw [print_k2b _ w (by simpa using h0) (by simpa using h1)]
    simp [width_def, height_def, *]
  · rw [print_k2b _ w (by simpa using h0) (by simpa using h1)]
    simp [width_def, height_def, *]

/-- print, statements 11–20: the insert-mode shift, then the write phase -/
theorem print_k1b (s : Frame) (w : Nat) (h0 : s.vars 0 = w) (h1 : s.vars 1 = w)
    (h3 : s.vars 3 = s.e.cur.col) (h4 : s.vars 4 = s.e.cur.row) :
    runE 10 s = printK1 s.g w s.e := by
  obtain ⟨e, vars, g⟩ := s
  simp only at h0 h1 h3 h4
  rw [runE_succ 10 _ _ rfl]
  body_norm
  unfold printK1
  simp only [h1, h3, h4, Modes.get]
  split
  · rw [active_def]
    cases hrow : getI (gridActive e.primary e.alt e.altActive) e.cur.row with
    | error p => rfl
    | ok line =>
      simp only [ok_bind]
      rw [forDown_row _ (fun i line => do let x ← getI line (i - (w : Int)); setI line i x) e.cur.row
        (by intro i g row hg; simp only [cellCopy_same_row, rowB, bind_assoc']) e.right (e.cur.col + (w : Int)) _ line hrow]
      simp only [bind_assoc']
      congr 1; funext line'
      congr 1; funext g'
      rw [print_k2 _ w (by simpa using h0) (by simpa using h1)]
      simp only [h3, h4]
  · rw [print_k2 _ w (by simpa using h0) (by simpa using h1)]
    simp only [h3, h4]

/-- print, statements 9–20 -/
theorem print_k1 (s : Frame) (w : Nat) (h0 : s.vars 0 = w) (h1 : s.vars 1 = w) :
    runE 8 s = printK1 s.g w s.e := by
  obtain ⟨e, vars, g⟩ := s
  simp only at h0 h1
  rw [runE_succ 8 _ _ rfl]
  body_norm
  rw [runE_succ 9 _ _ rfl]
  body_norm
  rw [print_k1b _ w (by simpa using h0) (by simpa using h1) (by simp) (by simp)]

/-- the autowrap phase with the decision given -/
def printWrapIf (c : Bool) (g : G) (w : Nat) (e : Emu) : M Emu :=
  if c then do
    let e' := { e with lastCol := false }
    let g' ← modCell e'.active e'.cur.row (e'.width - 1) (fun c => { c with wrapped := true })
    let e1 ← nel (e'.setActive g')
    printK1 g w e1
  else printK1 g w e

/-- print, statement 8 on: the wrap action, then the rest -/
theorem print_k0b (s : Frame) (w : Nat) (h0 : s.vars 0 = w) (h1 : s.vars 1 = w) :
    runE 7 s = printWrapIf (decide (s.vars 2 ≠ 0)) s.g w s.e := by
  obtain ⟨e, vars, g⟩ := s
  simp only at h0 h1
  rw [runE_succ 7 _ _ rfl]
  body_norm
  cases hc : decide (vars 2 ≠ 0)
  · have h : vars 2 = 0 := by simpa using hc
    rw [if_pos h, print_k1 _ w (by simpa using h0) (by simpa using h1)]
    simp [printWrapIf, h]
  · have h : ¬ vars 2 = 0 := by simpa using hc
    rw [if_neg h]
    simp only [printWrapIf, ne_eq, h, not_false_eq_true, decide_true, if_true, height_def, width_def, active_def]
    congr 1; funext a; congr 1; funext a
    rw [print_k1 _ w (by simpa using h0) (by simpa using h1)]

/-- print, statement 7 on -/
theorem print_k0c (s : Frame) (w : Nat) (h0 : s.vars 0 = w) (h1 : s.vars 1 = w) :
    runE 6 s = printWrapIf (decide (s.vars 2 ≠ 0) && s.e.mode.decawm) s.g w s.e := by
  obtain ⟨e, vars, g⟩ := s
  simp only at h0 h1
  rw [runE_succ 6 _ _ rfl]
  body_norm
  by_cases hd : e.mode.get .decawm = false
  · rw [if_pos hd, print_k0b _ w (by simpa using h0) (by simpa using h1)]
    have hd' : e.mode.decawm = false := hd
    simp [hd']
  · rw [if_neg hd, print_k0b _ w (by simpa using h0) (by simpa using h1)]
    have hd' : e.mode.decawm = true := by
      have : e.mode.get .decawm = e.mode.decawm := rfl
      rw [this] at hd
      simpa using hd
    simp [hd']

/-- print, statement 6 on -/
theorem print_k0d (s : Frame) (w : Nat) (h0 : s.vars 0 = w) (h1 : s.vars 1 = w) :
    runE 5 s = printWrapIf ((decide (s.vars 2 ≠ 0) || decide (s.e.cur.col + (w : Int) - 1 > s.e.right)) && s.e.mode.decawm) s.g w s.e := by
  obtain ⟨e, vars, g⟩ := s
  simp only at h0 h1
  rw [runE_succ 5 _ _ rfl]
  body_norm
  simp only [h1]
  by_cases h : e.right < e.cur.col + (w : Int) - 1
  · rw [if_pos h, print_k0c _ w (by simpa using h0) (by simpa using h1)]
    simp [h]
  · rw [if_neg h, print_k0c _ w (by simpa using h0) (by simpa using h1)]
    simp [h]

/-- print, statements 3–20: from `w := seq.Width` on -/
theorem print_k0 (s : Frame) (w : Nat) (h0 : s.vars 0 = w) :
    runE 2 s = printK0 s.g w s.e := by
  obtain ⟨e, vars, g⟩ := s
  simp only at h0
  rw [runE_succ 2 _ _ rfl]; body_norm
  rw [runE_succ 3 _ _ rfl]; body_norm
  rw [runE_succ 4 _ _ rfl]; body_norm
  unfold printK0
  cases hl : e.lastCol
  · simp only [Bool.false_eq_true, if_false]
    rw [print_k0d _ w (by simpa using h0) (by simpa using h0)]
    simp [printWrapIf, h0]
  · simp only [if_true]
    rw [print_k0d _ w (by simpa using h0) (by simpa using h0)]
    simp [printWrapIf, h0]

/-- print(): the translated body is the model function -/
theorem print_body_eq (e : Emu) (g : G) (w : Nat) :
    evalPrint TermBodies.body_print g (w : Int) e = print Fixes.current e g w := by
  rw [print_eq]
  have h : evalPrint TermBodies.body_print g (w : Int) e = runE 0 { e := e, vars := fun k => [(w : Int)].getD k 0, g := g } := rfl
  rw [h, runE_succ 0 _ _ rfl]
  body_norm
  rw [runE_succ 1 _ _ rfl]
  body_norm
  unfold printPre printGlyph
  split
  · rw [print_k0 _ w (by simp)]
    rcases g with _ | ⟨b, _ | ⟨c, r⟩⟩ <;> simp [*]
  · rw [print_k0 _ w (by simp)]
    rcases g with _ | ⟨b, _ | ⟨c, r⟩⟩ <;> simp [*]
end VaxisModel.Lemmas.EmuBody
