/-
Helpers for Props/C05Overflow.lean: the numeric facts of a good state and the tactics that evaluate
`rangeBody` on a concrete translated body and discharge the resulting interval goals.
-/
import VaxisModel.Model.EmuBodyRange
import VaxisModel.Lemmas.EmuBody
import VaxisModel.Lemmas.EmuSafe1

namespace VaxisModel.Lemmas.EmuBody
open VaxisModel.Model.Emu VaxisModel.Model.EmuBody VaxisModel.Lemmas.Emu VaxisModel.Gen

/-- the numeric facts of a good state -/
theorem good_bounds {e : Emu} {rows cols : Nat} (h : EmuInv e rows cols) (d : Dim rows cols) :
    0 ≤ e.cur.row ∧ e.cur.row < rows ∧ 0 ≤ e.cur.col ∧ e.cur.col ≤ cols ∧ 0 ≤ e.top ∧ e.top ≤ e.bottom ∧ e.bottom < rows ∧
    e.left = 0 ∧ e.right = (cols : Int) - 1 ∧ gridHeight e.primary e.alt e.altActive = rows ∧
    gridWidth e.primary e.alt e.altActive = cols ∧ (1 : Int) ≤ rows ∧ (rows : Int) ≤ 65535 ∧ (1 : Int) ≤ cols ∧ (cols : Int) ≤ 65535 := by
  have hh := height_eq h
  have hw := width_eq h d.r1
  rw [height_def] at hh
  rw [width_def] at hw
  have := d.r1; have := d.c1; have := d.rmax; have := d.cmax
  refine ⟨h.rowLo, h.rowHi, h.colLo, h.colHi, h.topLo, h.topLe, h.botHi, h.left0, h.right, hh, hw, ?_, ?_, ?_, ?_⟩ <;> omega

macro "range_norm" : tactic => `(tactic|
  (simp only [rangeBody, rangeS, rangeG, andThen_norm, andThen_ret, andThen_brk, andThen_cont, andThen_err, andThen_ite, andThen_bind, andThenM_ok, andThenM_err, andThenM_ite, andThenM_bind, exR, condR, bndR, height_def, width_def, active_def, Emu.bg, gridActive_setActive, setActive_setActive, setActive_altActive, setActive_cs, setActive_tabs, setActive_savedP, setActive_savedA, setActive_osc8, setActive_hasVx, setActive_cur, setActive_top, setActive_bottom, setActive_left, setActive_right, setActive_mode, setActive_lastCol, evalBody, evalS, evalG, initFrame, evalCond, evalEx, evalBnd, exOk, Frame.get, Frame.set, ok_bind, err_bind,
    ite_bind', bind_assoc', callFn, pmGet, hasBrk, goOn_norm, goOn_cont, goOn_brk, goOn_ret, loopUp, loopDown, List.getD_cons_zero, List.getD_cons_succ, List.getD_nil,
    List.getElem?_cons_zero, List.getElem?_cons_succ, List.getElem?_nil, List.length_cons, List.length_nil, Int.natCast_add, Int.natCast_one, Int.natCast_zero, Nat.zero_add,
    Option.getD_some, Option.getD_none, List.nil_append, List.cons_append,
    Bool.and_true, Bool.true_and, if_true, if_false, ite_true, ite_false, reduceIte, reduceCtorEq,
    Nat.succ_ne_zero, Nat.reduceEqDiff, Int.reduceAdd, Int.reduceEq, Bool.false_eq_true, Bool.or_self, Bool.or_false]
   all_goals try simp only [evalCmp, inR, lim, Fixes.current, decide_eq_true_eq, Bool.and_eq_true, Bool.or_eq_true, Bool.not_eq_true',
     Bool.true_and, Bool.false_and, decide_eq_false_iff_not, Bool.not_eq_eq_eq_not, Bool.not_true, List.all_eq_true, List.mem_range]))

macro "range_fin" : tactic => `(tactic|
  all_goals ((repeat' (first
      | split
      | intro _
      | (apply andThenM_all; intro _)
      | (simp only [Bool.and_eq_true, Bool.and_true, Bool.true_and, decide_eq_true_eq, and_true, true_and, and_self, List.all_eq_true, List.mem_range])
      | apply And.intro
      | apply decide_eq_true)) <;> (try trivial) <;> (try omega)))

/-! ### round 4: the loops over the tab stops (cht, cbt)

`rangeS` now follows `forTabs` / `forTabsDown` (`rangeTabLoop`: the body is checked at every tab stop actually visited). The only
arithmetic in both loops is the counter `n + 1`; the loop leaves at `n == ps`, so `0 ≤ n ≤ ps ≤ 65535` is an invariant of the
walk (`CntInv`) whatever the tab stops are — no bound on their number or their values is needed. -/

/-- the body of cht()'s loop over the tab stops, as the translator emits it -/
def chtLoopBody : Stmt :=
 (.seq (.ite (.cmp .eq (.loc (.var 1)) (.loc (.var 0)))
 .brk
 .skip)
 (.seq (.ite (.cmp .gt (.loc .curCol) .tab)
 .cont
 .skip)
 (.seq (.assign .curCol .tab)
 (.assign (.var 1) (.add (.loc (.var 1)) (.lit 1))))))

/-- the counter `n` stays within 0..ps ≤ 65535 -/
def CntInv (s : Frame) : Prop := 0 ≤ s.vars 1 ∧ s.vars 1 ≤ s.vars 0 ∧ s.vars 0 ≤ 65535

def chtNext (s : Frame) : Frame := (s.set .curCol s.tab).set (.var 1) (s.vars 1 + 1)

theorem chtLoopBody_eval (pm : List Param) (s : Frame) : evalS pm chtLoopBody s =
    .ok (if s.vars 1 = s.vars 0 then (s, Sig.brk) else if s.e.cur.col > s.tab then (s, Sig.cont) else (chtNext s, Sig.norm)) := by
  simp only [chtLoopBody, evalS, evalCond, evalEx, exOk, Frame.get, ok_bind, Bool.and_true, if_true]
  simp only [evalCmp]
  by_cases hc : s.vars 1 = s.vars 0
  · simp [hc, ok_bind]
  · by_cases hg : s.e.cur.col > s.tab
    · simp [hc, hg, ok_bind]
    · simp [hc, hg, ok_bind, chtNext, Frame.set]

theorem chtLoopBody_chk (pm : List Param) (s : Frame) (h0 : 0 ≤ s.vars 1) (h1 : s.vars 1 ≤ 65535) :
    rangeS pm chtLoopBody s = true := by
  simp only [chtLoopBody]
  range_norm
  (try range_norm)
  (try range_norm)
  range_fin

def chtChk (pm : List Param) (s : Frame) : Bool := rangeS pm chtLoopBody s
def chtRun (s : Frame) : M (Frame × Sig) :=
  .ok (if s.vars 1 = s.vars 0 then (s, Sig.brk) else if s.e.cur.col > s.tab then (s, Sig.cont) else (chtNext s, Sig.norm))

theorem chtLoop_range' (pm : List Param) : ∀ (tabs : List Int) (s : Frame), CntInv s →
    rangeTabLoop (chtChk pm) chtRun tabs s = true
  | [], s, _ => rfl
  | t :: rest, s, hi => by
    obtain ⟨h0, h1, h2⟩ := hi
    simp only [rangeTabLoop, Bool.and_eq_true]
    refine ⟨chtLoopBody_chk pm _ h0 (by show s.vars 1 ≤ 65535; omega), ?_⟩
    unfold chtRun
    by_cases hc : s.vars 1 = s.vars 0
    · simp [hc]
    · by_cases hg : s.e.cur.col > t
      · simp only [hc, hg, if_false, if_true, reduceCtorEq, or_self]
        exact chtLoop_range' pm rest _ ⟨h0, h1, h2⟩
      · simp only [hc, hg, if_false, reduceCtorEq, or_self]
        apply chtLoop_range' pm rest
        refine ⟨?_, ?_, ?_⟩ <;> simp [chtNext, Frame.set] <;> omega

theorem chtLoop_range (pm : List Param) (tabs : List Int) (s : Frame) (hi : CntInv s) :
    rangeTabLoop (fun s => rangeS pm chtLoopBody s) (fun s => evalS pm chtLoopBody s) tabs s = true := by
  have h1 : (fun s => evalS pm chtLoopBody s) = chtRun := by funext s; rw [chtLoopBody_eval]; rfl
  rw [h1]
  exact chtLoop_range' pm tabs s hi

theorem rangeS_seq (pm : List Param) (a b : Stmt) (s : Frame) :
    rangeS pm (.seq a b) s = (rangeS pm a s && andThen (evalS pm a s) (fun s1 => rangeS pm b s1)) := by
  simp only [rangeS]

theorem andThen_all (r : M (Frame × Sig)) (k : Frame → Bool) (h : ∀ s, k s = true) : andThen r k = true := by
  unfold andThen
  split
  · exact h _
  · rfl

/-- the statement after the loop of cht(): `if vt.cursor.col > vt.margin.right { vt.cursor.col = vt.margin.right }` — no arithmetic -/
def chtTail : Stmt := (.ite (.cmp .gt (.loc .curCol) (.loc .right)) (.assign .curCol (.loc .right)) .skip)

theorem chtTail_range (pm : List Param) (s : Frame) : rangeS pm chtTail s = true := by
  simp only [chtTail, rangeS, condR, exR, Bool.and_true, Bool.true_and]
  split <;> rfl

theorem cht_shape : TermBodies.stmt_cht =
    .seq (.setLastCol false) (.seq (.ite (.cmp .eq (.loc (.var 0)) (.lit 0)) (.assign (.var 0) (.lit 1)) .skip)
      (.seq (.assign (.var 1) (.lit 0)) (.seq (.forTabs chtLoopBody) chtTail))) := rfl

/-- the body of cbt()'s loop over the tab stops (from the last one down), as the translator emits it -/
def cbtLoopBody : Stmt :=
 (.seq (.ite (.cmp .eq (.loc (.var 1)) (.loc (.var 0)))
 .brk
 .skip)
 (.seq (.ite (.cmp .lt (.loc .curCol) .tab)
 .brk
 .skip)
 (.seq (.assign .curCol .tab)
 (.assign (.var 1) (.add (.loc (.var 1)) (.lit 1))))))

theorem cbtLoopBody_eval (pm : List Param) (s : Frame) : evalS pm cbtLoopBody s =
    .ok (if s.vars 1 = s.vars 0 then (s, Sig.brk) else if s.e.cur.col < s.tab then (s, Sig.brk) else (chtNext s, Sig.norm)) := by
  simp only [cbtLoopBody, evalS, evalCond, evalEx, exOk, Frame.get, ok_bind, Bool.and_true, if_true]
  simp only [evalCmp]
  by_cases hc : s.vars 1 = s.vars 0
  · simp [hc, ok_bind]
  · by_cases hg : s.e.cur.col < s.tab
    · simp [hc, hg, ok_bind]
    · simp [hc, hg, ok_bind, chtNext, Frame.set]

theorem cbtLoopBody_chk (pm : List Param) (s : Frame) (h0 : 0 ≤ s.vars 1) (h1 : s.vars 1 ≤ 65535) :
    rangeS pm cbtLoopBody s = true := by
  simp only [cbtLoopBody]
  range_norm
  (try range_norm)
  (try range_norm)
  range_fin

def cbtChk (pm : List Param) (s : Frame) : Bool := rangeS pm cbtLoopBody s
def cbtRun (s : Frame) : M (Frame × Sig) :=
  .ok (if s.vars 1 = s.vars 0 then (s, Sig.brk) else if s.e.cur.col < s.tab then (s, Sig.brk) else (chtNext s, Sig.norm))

theorem cbtLoop_range' (pm : List Param) : ∀ (tabs : List Int) (s : Frame), CntInv s →
    rangeTabLoop (cbtChk pm) cbtRun tabs s = true
  | [], s, _ => rfl
  | t :: rest, s, hi => by
    obtain ⟨h0, h1, h2⟩ := hi
    simp only [rangeTabLoop, Bool.and_eq_true]
    refine ⟨cbtLoopBody_chk pm _ h0 (by show s.vars 1 ≤ 65535; omega), ?_⟩
    unfold cbtRun
    by_cases hc : s.vars 1 = s.vars 0
    · simp [hc]
    · by_cases hg : s.e.cur.col < t
      · simp [hc, hg]
      · simp only [hc, hg, if_false, reduceCtorEq, or_self]
        apply cbtLoop_range' pm rest
        refine ⟨?_, ?_, ?_⟩ <;> simp [chtNext, Frame.set] <;> omega

theorem cbtLoop_range (pm : List Param) (tabs : List Int) (s : Frame) (hi : CntInv s) :
    rangeTabLoop (fun s => rangeS pm cbtLoopBody s) (fun s => evalS pm cbtLoopBody s) tabs s = true := by
  have h1 : (fun s => evalS pm cbtLoopBody s) = cbtRun := by funext s; rw [cbtLoopBody_eval]; rfl
  rw [h1]
  exact cbtLoop_range' pm tabs s hi

theorem cbt_shape : TermBodies.stmt_cbt =
    .seq (.setLastCol false) (.seq (.ite (.cmp .eq (.loc (.var 0)) (.lit 0)) (.assign (.var 0) (.lit 1)) .skip)
      (.seq (.assign (.var 1) (.lit 0)) (.forTabsDown cbtLoopBody))) := rfl


end VaxisModel.Lemmas.EmuBody
