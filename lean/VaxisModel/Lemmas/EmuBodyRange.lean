/-
Helpers for Props/C05Overflow.lean: the numeric facts of a good state and the tactics that evaluate
`rangeBody` on a concrete translated body and discharge the resulting interval goals.
-/
import VaxisModel.Model.EmuBodyRange
import VaxisModel.Lemmas.EmuBody
import VaxisModel.Lemmas.EmuSafe1

namespace VaxisModel.Lemmas.EmuBody
open VaxisModel.Model.Emu VaxisModel.Model.EmuBody VaxisModel.Lemmas.Emu VaxisModel.Gen

/-- the numeric facts of a good state -/
theorem good_bounds {e : Emu} {rows cols : Nat} (h : EmuInv e rows cols) (d : Dim rows cols) :
    0 ≤ e.cur.row ∧ e.cur.row < rows ∧ 0 ≤ e.cur.col ∧ e.cur.col ≤ cols ∧ 0 ≤ e.top ∧ e.top ≤ e.bottom ∧ e.bottom < rows ∧
    e.left = 0 ∧ e.right = (cols : Int) - 1 ∧ gridHeight e.primary e.alt e.altActive = rows ∧
    gridWidth e.primary e.alt e.altActive = cols ∧ (1 : Int) ≤ rows ∧ (rows : Int) ≤ 65535 ∧ (1 : Int) ≤ cols ∧ (cols : Int) ≤ 65535 := by
  have hh := height_eq h
  have hw := width_eq h d.r1
  rw [height_def] at hh
  rw [width_def] at hw
  have := d.r1; have := d.c1; have := d.rmax; have := d.cmax
  refine ⟨h.rowLo, h.rowHi, h.colLo, h.colHi, h.topLo, h.topLe, h.botHi, h.left0, h.right, hh, hw, ?_, ?_, ?_, ?_⟩ <;> omega

macro "range_norm" : tactic => `(tactic|
  (simp only [rangeBody, rangeS, rangeG, andThen_norm, andThen_ret, andThen_brk, andThen_cont, andThen_err, andThen_ite, andThen_bind, andThenM_ok, andThenM_err, andThenM_ite, andThenM_bind, exR, condR, bndR, height_def, width_def, active_def, Emu.bg, gridActive_setActive, setActive_setActive, setActive_altActive, setActive_cs, setActive_tabs, setActive_savedP, setActive_savedA, setActive_osc8, setActive_hasVx, setActive_cur, setActive_top, setActive_bottom, setActive_left, setActive_right, setActive_mode, setActive_lastCol, evalBody, evalS, evalG, initFrame, evalCond, evalEx, evalBnd, exOk, Frame.get, Frame.set, ok_bind, err_bind,
    ite_bind', bind_assoc', callFn, pmGet, hasBrk, goOn_norm, goOn_cont, goOn_brk, goOn_ret, loopUp, loopDown, List.getD_cons_zero, List.getD_cons_succ, List.getD_nil,
    List.getElem?_cons_zero, List.getElem?_cons_succ, List.getElem?_nil, List.length_cons, List.length_nil, Int.natCast_add, Int.natCast_one, Int.natCast_zero, Nat.zero_add,
    Option.getD_some, Option.getD_none, List.nil_append, List.cons_append,
    Bool.and_true, Bool.true_and, if_true, if_false, ite_true, ite_false, reduceIte, reduceCtorEq,
    Nat.succ_ne_zero, Nat.reduceEqDiff, Int.reduceAdd, Int.reduceEq, Bool.false_eq_true, Bool.or_self, Bool.or_false]
   all_goals try simp only [evalCmp, inR, lim, Fixes.current, decide_eq_true_eq, Bool.and_eq_true, Bool.or_eq_true, Bool.not_eq_true',
     Bool.true_and, Bool.false_and, decide_eq_false_iff_not, Bool.not_eq_eq_eq_not, Bool.not_true, List.all_eq_true, List.mem_range]))

macro "range_fin" : tactic => `(tactic|
  all_goals ((repeat' (first
      | split
      | intro _
      | (apply andThenM_all; intro _)
      | (simp only [Bool.and_eq_true, Bool.and_true, Bool.true_and, decide_eq_true_eq, and_true, true_and, and_self, List.all_eq_true, List.mem_range])
      | apply And.intro
      | apply decide_eq_true)) <;> (try trivial) <;> (try omega)))

end VaxisModel.Lemmas.EmuBody
