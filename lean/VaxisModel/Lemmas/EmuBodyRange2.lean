/-
Round 4: Go `int` versus ℤ for print() (Props/C05Overflow.lean `range_print_partial`): the range check of the translated body,
run in phases like the body-equivalence proof (Lemmas/EmuBodyPrint.lean): the statements in front of the wrap, the wrap (whose
`vt.nel()` call changes the state: the invariant after it comes from `nel_safe`), the insert-mode shift loop (a successful loop
keeps the shape of the grid: `cellCopy_gridOk`, `forDown_keeps`, `shift_keeps`), and everything after it (`range_post11`).
-/
import VaxisModel.Lemmas.EmuBodyRange
import VaxisModel.Lemmas.EmuBodyPrint
import VaxisModel.Lemmas.EmuResize

namespace VaxisModel.Lemmas.EmuBody
open VaxisModel.Model.Emu VaxisModel.Model.EmuBody VaxisModel.Lemmas.Emu VaxisModel.Gen

/-- check print() from its (k+1)-th statement on -/
def rangeFrom (k : Nat) (s : Frame) : Bool := rangeS [] (dropSeq k TermBodies.stmt_print) s

theorem rangeFrom_succ (k : Nat) (a b : Stmt) (h : dropSeq k TermBodies.stmt_print = .seq a b) (s : Frame) :
    rangeFrom k s = (rangeS [] a s && andThen (evalS [] a s) (fun s1 => rangeFrom (k + 1) s1)) := by
  unfold rangeFrom
  have : dropSeq (k + 1) TermBodies.stmt_print = b := by simp [dropSeq, h, tailSeq]
  rw [h, this]
  simp only [rangeS]

theorem ite_tt {c : Prop} [Decidable c] {a b : Bool} (ha : a = true) (hb : b = true) : (if c then a else b) = true := by
  split <;> assumption
theorem and_tt {a b : Bool} (ha : a = true) (hb : b = true) : (a && b) = true := by simp [ha, hb]

/-- close a goal that is a tree of `&&` / `if` / `andThenM` / `List.all` over interval checks: every leaf by `omega` -/
macro "range_tree" : tactic => `(tactic|
  repeat' (first
    | rfl
    | trivial
    | apply decide_eq_true
    | apply and_tt
    | apply ite_tt
    | (apply andThenM_all; intro _)
    | (rw [List.all_eq_true]; intro _ hk; rw [List.mem_range] at hk)
    | apply And.intro
    | omega))

/-- the invariant carried through the statements of print() in front of the store -/
structure PG (rows cols w : Nat) (s : Frame) : Prop where
  inv : EmuInv s.e rows cols
  v0 : s.vars 0 = w

/-- one statement whose result is known -/
theorem range_step (k : Nat) (a b : Stmt) (hd : dropSeq k TermBodies.stmt_print = .seq a b) (s : Frame)
    (hr : rangeS [] a s = true)
    (hnext : ∀ s', evalS [] a s = .ok (s', .norm) → rangeFrom (k + 1) s' = true) : rangeFrom k s = true := by
  rw [rangeFrom_succ k a b hd, hr, Bool.true_and]
  unfold andThen
  split
  · rename_i s1 heq; exact hnext s1 heq
  · rfl

theorem setI_shape {α : Type} {l l' : List α} {i : Int} {x : α} (h : setI l i x = .ok l') : l' = l.set i.toNat x := by
  unfold setI at h
  split at h
  · exact (Except.ok.inj h).symm
  · cases h

theorem getI_mem {α : Type} {l : List α} {i : Int} {x : α} (h : getI l i = .ok x) : x ∈ l := by
  unfold getI at h
  split at h
  · split at h
    · rename_i y hy
      cases h
      exact List.mem_of_getElem? hy
    · cases h
  · cases h

/-- a successful cell copy keeps the shape of the grid -/
theorem cellCopy_gridOk {g g' : Grid} {rows cols : Nat} (hg : GridOk g rows cols) {r c r2 c2 : Int}
    (h : cellCopy g r c r2 c2 = .ok g') : GridOk g' rows cols := by
  unfold cellCopy at h
  cases h1 : getI g r with
  | error p => simp [h1, bind, Except.bind] at h
  | ok row =>
    cases h2 : getI g r2 with
    | error p => simp [h1, h2, bind, Except.bind] at h
    | ok row2 =>
      cases h3 : getI row2 c2 with
      | error p => simp [h1, h2, h3, bind, Except.bind] at h
      | ok x =>
        cases h4 : setI row c x with
        | error p => simp [h1, h2, h3, h4, bind, Except.bind] at h
        | ok row' =>
          simp only [h1, h2, h3, h4, bind, Except.bind] at h
          have e1 := setI_shape h4
          have e2 := setI_shape h
          subst e1; subst e2
          exact gridOk_set hg _ _ (by rw [List.length_set]; exact hg.rowLen _ (getI_mem h1))

/-- partial correctness of a descending loop: an invariant kept by every successful iteration holds after a successful loop -/
theorem forDownGo_keeps {σ : Type} (P : σ → Prop) (body : Int → σ → M σ)
    (hb : ∀ i s s', body i s = .ok s' → P s → P s') :
    ∀ (n : Nat) (i : Int) (s s' : σ), P s → forDownGo body n i s = .ok s' → P s'
  | 0, _, s, s', hp, h => by cases h; exact hp
  | n + 1, i, s, s', hp, h => by
    simp only [forDownGo] at h
    cases h1 : body i s with
    | error p => simp [h1, bind, Except.bind] at h
    | ok s1 =>
      simp only [h1, bind, Except.bind] at h
      exact forDownGo_keeps P body hb n (i - 1) s1 s' (hb i s s1 h1 hp) h

theorem forDown_keeps {σ : Type} (P : σ → Prop) (body : Int → σ → M σ)
    (hb : ∀ i s s', body i s = .ok s' → P s → P s') (hi lo : Int) (s s' : σ) (hp : P s)
    (h : forDown hi lo body s = .ok s') : P s' := by
  unfold forDown at h
  simp only at h
  split at h
  · exact forDownGo_keeps P body hb _ _ _ _ hp h
  · cases h2 : forDownGo body hangLimit hi s with
    | error p => simp [h2, bind, Except.bind] at h
    | ok x => simp [h2, bind, Except.bind] at h

set_option maxHeartbeats 400000 in
/-- print(), statements 12–20 (after the insert-mode shift) -/
theorem range_post11 {rows cols : Nat} (d : Dim rows cols) (w : Nat) (hw : (w : Int) ≤ 65535) (s : Frame)
    (h : EmuInv s.e rows cols) (h0 : s.vars 0 = w) (h1 : s.vars 1 = w) (h3 : s.vars 3 = s.e.cur.col) (h4 : s.vars 4 = s.e.cur.row) :
    rangeFrom 11 s = true := by
  obtain ⟨b1, b2, b3, b4, b5, b6, b7, b8, b9, b10, b11, b12, b13, b14, b15⟩ := good_bounds h d
  simp only [rangeFrom, dropSeq, tailSeq, TermBodies.stmt_print]
  range_norm
  (try range_norm)
  (try range_norm)
  simp only [h0, h1, h3, h4]
  simp only [b10, b11]
  range_tree

/-- the shift loop of print() keeps the shape of the grid -/
theorem shift_keeps {rows cols : Nat} (s : Frame) (hi lo a b c dd : Ex) {g g' : Grid} {sg : Sig} (hg : GridOk g rows cols)
    (h : evalG [] s (.forDown hi lo (.cellCopy a b c dd)) [] g = .ok (g', sg)) : GridOk g' rows cols ∧ sg = .norm := by
  simp only [evalG, loopDown] at h
  cases hfd : forDown (evalEx [] s [] hi) (evalEx [] s [] lo)
      (fun i g => do
        let r ← (do
          let g' ← cellCopy g (evalEx [] s ([] ++ [i]) a) (evalEx [] s ([] ++ [i]) b) (evalEx [] s ([] ++ [i]) c) (evalEx [] s ([] ++ [i]) dd)
          Except.ok (g', Sig.norm))
        Except.ok r.1) g with
  | error p => rw [hfd] at h; simp [bind, Except.bind] at h
  | ok g1 =>
    rw [hfd] at h
    simp only [bind, Except.bind] at h
    have hh := Prod.mk.inj (Except.ok.inj h)
    refine ⟨?_, hh.2.symm⟩
    rw [← hh.1]
    refine forDown_keeps (fun g => GridOk g rows cols) _ ?_ _ _ _ _ hg hfd
    intro i g2 g3 hb hp
    cases hcc : cellCopy g2 (evalEx [] s ([] ++ [i]) a) (evalEx [] s ([] ++ [i]) b) (evalEx [] s ([] ++ [i]) c) (evalEx [] s ([] ++ [i]) dd) with
    | error p => rw [hcc] at hb; simp [bind, Except.bind] at hb
    | ok g4 =>
      rw [hcc] at hb
      simp only [bind, Except.bind] at hb
      have := Except.ok.inj hb
      subst this
      exact cellCopy_gridOk hp hcc

set_option maxHeartbeats 400000 in
/-- statement 11, the insert-mode shift: `if vt.mode.irm { line := …; for i := right; i >= col+w; i -= 1 { line[i] = line[i-w] } }` -/
theorem range_irm {rows cols : Nat} (d : Dim rows cols) (w : Nat) (hw : (w : Int) ≤ 65535) (s : Frame)
    (h : EmuInv s.e rows cols) (h0 : s.vars 0 = w) (h1 : s.vars 1 = w) (h3 : s.vars 3 = s.e.cur.col) (h4 : s.vars 4 = s.e.cur.row) :
    rangeFrom 10 s = true := by
  obtain ⟨b1, b2, b3, b4, b5, b6, b7, b8, b9, b10, b11, b12, b13, b14, b15⟩ := good_bounds h d
  apply range_step 10 _ _ rfl
  · range_norm
    (try range_norm)
    simp only [h1, h3, h4]
    range_tree
  · intro s' hs'
    simp only [evalS, evalCond] at hs'
    by_cases hirm : s.e.mode.get TermModes.ModeField.irm = true
    · simp only [hirm, if_true] at hs'
      cases ht : evalG [] s (Stmt.touchRow (Ex.loc (Loc.var 4))) [] s.e.active with
      | error p => rw [ht] at hs'; simp [bind, Except.bind] at hs'
      | ok r =>
        rw [ht] at hs'
        simp only [bind, Except.bind, if_true] at hs'
        have hr1 : r.1 = s.e.active := by
          simp only [evalG] at ht
          cases hgi : getI s.e.active (evalEx [] s [] (Ex.loc (Loc.var 4))) with
          | error p => rw [hgi] at ht; simp [bind, Except.bind] at ht
          | ok x => rw [hgi] at ht; simp only [bind, Except.bind] at ht; exact (congrArg Prod.fst (Except.ok.inj ht)).symm
        have hinv1 : EmuInv (s.e.setActive r.1) rows cols := by rw [hr1]; exact setActive_inv h (active_ok h)
        cases hf : evalG [] { s with e := s.e.setActive r.1 }
            (Stmt.forDown (Ex.loc Loc.right) ((Ex.loc (Loc.var 3)).add (Ex.loc (Loc.var 1)))
              (Stmt.cellCopy (Ex.loc (Loc.var 4)) (Ex.lv 0) (Ex.loc (Loc.var 4)) ((Ex.lv 0).sub (Ex.loc (Loc.var 1)))))
            [] (s.e.setActive r.1).active with
        | error p => rw [hf] at hs'; simp at hs'
        | ok r2 =>
          rw [hf] at hs'
          simp only at hs'
          obtain ⟨hg2, _⟩ := shift_keeps _ _ _ _ _ _ _ (active_ok hinv1) hf
          have hs2 := (Prod.mk.inj (Except.ok.inj hs')).1
          subst hs2
          exact range_post11 d w hw _ (setActive_inv hinv1 hg2) h0 h1 (by simpa [setActive_cur] using h3) (by simpa [setActive_cur] using h4)
    · simp only [hirm, if_false] at hs'
      have hs2 := (Prod.mk.inj (Except.ok.inj hs')).1
      subst hs2
      exact range_post11 d w hw _ h h0 h1 h3 h4

/-- print(), statements 9–20: everything after the wrap -/
theorem range_post {rows cols : Nat} (d : Dim rows cols) (w : Nat) (hw : (w : Int) ≤ 65535) (s : Frame)
    (h : EmuInv s.e rows cols) (h0 : s.vars 0 = w) (h1 : s.vars 1 = w) :
    rangeFrom 8 s = true := by
  -- col := vt.cursor.col
  apply range_step 8 _ _ rfl
  · simp [rangeS, exR]
  intro s1 hs1
  simp only [evalS, exOk, evalEx, Frame.get, if_true] at hs1
  have e1 := (Prod.mk.inj (Except.ok.inj hs1)).1; subst e1
  -- rw := vt.cursor.row
  apply range_step 9 _ _ rfl
  · simp [rangeS, exR]
  intro s2 hs2
  simp only [evalS, exOk, evalEx, Frame.get, if_true] at hs2
  have e2 := (Prod.mk.inj (Except.ok.inj hs2)).1; subst e2
  exact range_irm d w hw _ h (by simpa [Frame.set] using h0) (by simpa [Frame.set] using h1) (by simp [Frame.set]) (by simp [Frame.set])

/-- statement 8, the wrap: `if wrap { vt.lastCol = false; …[width-1].wrapped = true; vt.nel() }` — afterwards the invariant holds again -/
theorem range_wrap {rows cols : Nat} (d : Dim rows cols) (w : Nat) (hw : (w : Int) ≤ 65535) (s : Frame)
    (h : EmuInv s.e rows cols) (h0 : s.vars 0 = w) (h1 : s.vars 1 = w) :
    rangeFrom 7 s = true := by
  obtain ⟨b1, b2, b3, b4, b5, b6, b7, b8, b9, b10, b11, b12, b13, b14, b15⟩ := good_bounds h d
  apply range_step 7 _ _ rfl
  · -- the check of the wrap statement itself: `vt.width() - 1`
    range_norm
    (try range_norm)
    simp only [b10, b11]
    range_tree
  · intro s' hs'
    simp only [evalS, evalCond, evalEx, Frame.get] at hs'
    simp only [evalCmp] at hs'
    by_cases hc : s.vars 2 = 0
    · simp [hc] at hs'
      obtain ⟨rfl⟩ := hs'
      exact range_post d w hw s h h0 h1
    · simp [hc] at hs'
      have h' := inv_lastCol h false
      have hwd := width_eq h' d.r1
      have := d.c1
      obtain ⟨g', hg', hok'⟩ := modCell_ok (active_ok h') s.e.cur.row ({ s.e with lastCol := false }.width - 1)
        (fun c => { c with wrapped := true }) h.rowLo h.rowHi (by rw [hwd]; omega) (by rw [hwd]; omega)
      obtain ⟨e1, he1, hi1⟩ := nel_safe (setActive_inv h' hok') d
      simp only [ok_bind, evalG, evalEx, Frame.get, callFn, if_true] at hs'
      rw [hg'] at hs'
      simp only [ok_bind, if_true] at hs'
      rw [he1] at hs'
      simp only [ok_bind] at hs'
      have hs2 := Except.ok.inj hs'
      have hs3 : s' = { s with e := e1 } := (Prod.mk.inj hs2).1.symm
      subst hs3
      exact range_post d w hw _ hi1 h0 h1

/-- a statement that only assigns to the local `wrap` (slot 2) leaves the frame's emulator and the locals 0, 1 alone -/
theorem range_from6 {rows cols : Nat} (d : Dim rows cols) (w : Nat) (hw : (w : Int) ≤ 65535) (s : Frame)
    (h : EmuInv s.e rows cols) (h0 : s.vars 0 = w) (h1 : s.vars 1 = w) :
    rangeFrom 6 s = true := by
  apply range_step 6 _ _ rfl
  · simp only [rangeS, condR, exR, Bool.and_true, Bool.true_and]; split <;> rfl
  · intro s' hs'
    simp only [evalS, evalCond, evalEx, exOk, Frame.get, if_true] at hs'
    split at hs' <;> (have hs2 := (Prod.mk.inj (Except.ok.inj hs')).1; subst hs2)
    · exact range_wrap d w hw _ h (by simpa [Frame.set] using h0) (by simpa [Frame.set] using h1)
    · exact range_wrap d w hw _ h h0 h1

theorem range_from5 {rows cols : Nat} (d : Dim rows cols) (w : Nat) (hw : (w : Int) ≤ 65535) (s : Frame)
    (h : EmuInv s.e rows cols) (h0 : s.vars 0 = w) (h1 : s.vars 1 = w) :
    rangeFrom 5 s = true := by
  obtain ⟨b1, b2, b3, b4, b5, b6, b7, b8, b9, b10, b11, b12, b13, b14, b15⟩ := good_bounds h d
  apply range_step 5 _ _ rfl
  · range_norm
    (try range_norm)
    simp only [h1]
    range_tree
  · intro s' hs'
    simp only [evalS, evalCond, evalEx, exOk, Frame.get, if_true] at hs'
    split at hs' <;> (have hs2 := (Prod.mk.inj (Except.ok.inj hs')).1; subst hs2)
    · exact range_from6 d w hw _ h (by simpa [Frame.set] using h0) (by simpa [Frame.set] using h1)
    · exact range_from6 d w hw _ h h0 h1

theorem range_from4 {rows cols : Nat} (d : Dim rows cols) (w : Nat) (hw : (w : Int) ≤ 65535) (s : Frame)
    (h : EmuInv s.e rows cols) (h0 : s.vars 0 = w) (h1 : s.vars 1 = w) :
    rangeFrom 4 s = true := by
  apply range_step 4 _ _ rfl
  · simp only [rangeS, condR, exR, Bool.and_true, Bool.true_and]; split <;> rfl
  · intro s' hs'
    simp only [evalS, evalCond, evalEx, exOk, Frame.get, if_true] at hs'
    split at hs' <;> (have hs2 := (Prod.mk.inj (Except.ok.inj hs')).1; subst hs2)
    · exact range_from5 d w hw _ h (by simpa [Frame.set] using h0) (by simpa [Frame.set] using h1)
    · exact range_from5 d w hw _ h h0 h1

theorem range_from0 {rows cols : Nat} (d : Dim rows cols) (w : Nat) (hw : (w : Int) ≤ 65535) (s : Frame)
    (h : EmuInv s.e rows cols) (h0 : s.vars 0 = w) :
    rangeFrom 0 s = true := by
  -- decSpecial
  apply range_step 0 _ _ rfl
  · simp [rangeS]
  intro s1 hs1
  simp only [evalS] at hs1
  have e1 := (Prod.mk.inj (Except.ok.inj hs1)).1; subst e1
  -- singleShift
  apply range_step 1 _ _ rfl
  · simp [rangeS]
  intro s2 hs2
  simp only [evalS] at hs2
  have e2 := (Prod.mk.inj (Except.ok.inj hs2)).1; subst e2
  -- w := seq.Width
  apply range_step 2 _ _ rfl
  · simp [rangeS, exR]
  intro s3 hs3
  simp only [evalS, exOk, evalEx, Frame.get, if_true] at hs3
  have e3 := (Prod.mk.inj (Except.ok.inj hs3)).1; subst e3
  -- wrap := false
  apply range_step 3 _ _ rfl
  · simp [rangeS, exR]
  intro s4 hs4
  simp only [evalS, exOk, evalEx, if_true] at hs4
  have e4 := (Prod.mk.inj (Except.ok.inj hs4)).1; subst e4
  apply range_from4 d w hw
  · split
    · exact { h with }
    · exact h
  · split <;> simpa [Frame.set] using h0
  · split <;> simpa [Frame.set] using h0

end VaxisModel.Lemmas.EmuBody
