/-
Round 4: Go `int` versus ℤ for print() (Props/C05Overflow.lean `range_print_partial`): the range check of the translated body,
run in phases like the body-equivalence proof (Lemmas/EmuBodyPrint.lean): the statements in front of the wrap, the wrap (whose
`vt.nel()` call changes the state: the invariant after it comes from `nel_safe`), and everything after it (`range_post`).
-/
import VaxisModel.Lemmas.EmuBodyRange
import VaxisModel.Lemmas.EmuBodyPrint
import VaxisModel.Lemmas.EmuResize

namespace VaxisModel.Lemmas.EmuBody
open VaxisModel.Model.Emu VaxisModel.Model.EmuBody VaxisModel.Lemmas.Emu VaxisModel.Gen

/-- check print() from its (k+1)-th statement on -/
def rangeFrom (k : Nat) (s : Frame) : Bool := rangeS [] (dropSeq k TermBodies.stmt_print) s

theorem rangeFrom_succ (k : Nat) (a b : Stmt) (h : dropSeq k TermBodies.stmt_print = .seq a b) (s : Frame) :
    rangeFrom k s = (rangeS [] a s && andThen (evalS [] a s) (fun s1 => rangeFrom (k + 1) s1)) := by
  unfold rangeFrom
  have : dropSeq (k + 1) TermBodies.stmt_print = b := by simp [dropSeq, h, tailSeq]
  rw [h, this]
  simp only [rangeS]

theorem ite_tt {c : Prop} [Decidable c] {a b : Bool} (ha : a = true) (hb : b = true) : (if c then a else b) = true := by
  split <;> assumption
theorem and_tt {a b : Bool} (ha : a = true) (hb : b = true) : (a && b) = true := by simp [ha, hb]

/-- close a goal that is a tree of `&&` / `if` / `andThenM` / `List.all` over interval checks: every leaf by `omega` -/
macro "range_tree" : tactic => `(tactic|
  repeat' (first
    | rfl
    | trivial
    | apply decide_eq_true
    | apply and_tt
    | apply ite_tt
    | (apply andThenM_all; intro _)
    | (rw [List.all_eq_true]; intro _ hk; rw [List.mem_range] at hk)
    | apply And.intro
    | omega))

set_option maxHeartbeats 400000 in
/-- print(), statements 9–20 (everything after the wrap), insert mode off -/
theorem range_post {rows cols : Nat} (d : Dim rows cols) (w : Nat) (hw : (w : Int) ≤ 65535) (s : Frame)
    (h : EmuInv s.e rows cols) (h0 : s.vars 0 = w) (h1 : s.vars 1 = w) (hirm : s.e.mode.irm = false) :
    rangeFrom 8 s = true := by
  obtain ⟨b1, b2, b3, b4, b5, b6, b7, b8, b9, b10, b11, b12, b13, b14, b15⟩ := good_bounds h d
  simp only [rangeFrom, dropSeq, tailSeq, TermBodies.stmt_print]
  range_norm
  (try range_norm)
  (try range_norm)
  have hirm' : s.e.mode.get TermModes.ModeField.irm = false := hirm
  simp only [h0, h1, hirm', Bool.false_eq_true, if_false]
  simp only [b10, b11]
  range_tree

/-- the invariant carried through the statements of print() in front of the store -/
structure PG (rows cols w : Nat) (s : Frame) : Prop where
  inv : EmuInv s.e rows cols
  v0 : s.vars 0 = w

/-- one statement whose result is known -/
theorem range_step (k : Nat) (a b : Stmt) (hd : dropSeq k TermBodies.stmt_print = .seq a b) (s : Frame)
    (hr : rangeS [] a s = true)
    (hnext : ∀ s', evalS [] a s = .ok (s', .norm) → rangeFrom (k + 1) s' = true) : rangeFrom k s = true := by
  rw [rangeFrom_succ k a b hd, hr, Bool.true_and]
  unfold andThen
  split
  · rename_i s1 heq; exact hnext s1 heq
  · rfl

/-- statement 8, the wrap: `if wrap { vt.lastCol = false; …[width-1].wrapped = true; vt.nel() }` — afterwards the invariant holds again -/
theorem range_wrap {rows cols : Nat} (d : Dim rows cols) (w : Nat) (hw : (w : Int) ≤ 65535) (s : Frame)
    (h : EmuInv s.e rows cols) (h0 : s.vars 0 = w) (h1 : s.vars 1 = w) (hirm : s.e.mode.irm = false) :
    rangeFrom 7 s = true := by
  obtain ⟨b1, b2, b3, b4, b5, b6, b7, b8, b9, b10, b11, b12, b13, b14, b15⟩ := good_bounds h d
  apply range_step 7 _ _ rfl
  · -- the check of the wrap statement itself: `vt.width() - 1`
    range_norm
    (try range_norm)
    simp only [b10, b11]
    range_tree
  · intro s' hs'
    simp only [evalS, evalCond, evalEx, Frame.get] at hs'
    simp only [evalCmp] at hs'
    by_cases hc : s.vars 2 = 0
    · simp [hc] at hs'
      obtain ⟨rfl⟩ := hs'
      exact range_post d w hw s h h0 h1 hirm
    · simp [hc] at hs'
      have h' := inv_lastCol h false
      have hwd := width_eq h' d.r1
      have := d.c1
      obtain ⟨g', hg', hok'⟩ := modCell_ok (active_ok h') s.e.cur.row ({ s.e with lastCol := false }.width - 1)
        (fun c => { c with wrapped := true }) h.rowLo h.rowHi (by rw [hwd]; omega) (by rw [hwd]; omega)
      obtain ⟨e1, he1, hi1⟩ := nel_safe (setActive_inv h' hok') d
      simp only [ok_bind, evalG, evalEx, Frame.get, callFn, if_true] at hs'
      rw [hg'] at hs'
      simp only [ok_bind, if_true] at hs'
      rw [he1] at hs'
      simp only [ok_bind] at hs'
      have hm : e1.mode = s.e.mode := by
        have := (VaxisModel.Lemmas.EmuResize.nel_keep he1).mode
        simpa [setActive_mode] using this
      have hs2 := Except.ok.inj hs'
      have hs3 : s' = { s with e := e1 } := (Prod.mk.inj hs2).1.symm
      subst hs3
      exact range_post d w hw _ hi1 h0 h1 (by show e1.mode.irm = false; rw [hm]; exact hirm)

/-- a statement that only assigns to the local `wrap` (slot 2) leaves the frame's emulator and the locals 0, 1 alone -/
theorem range_from6 {rows cols : Nat} (d : Dim rows cols) (w : Nat) (hw : (w : Int) ≤ 65535) (s : Frame)
    (h : EmuInv s.e rows cols) (h0 : s.vars 0 = w) (h1 : s.vars 1 = w) (hirm : s.e.mode.irm = false) :
    rangeFrom 6 s = true := by
  apply range_step 6 _ _ rfl
  · simp only [rangeS, condR, exR, Bool.and_true, Bool.true_and]; split <;> rfl
  · intro s' hs'
    simp only [evalS, evalCond, evalEx, exOk, Frame.get, if_true] at hs'
    split at hs' <;> (have hs2 := (Prod.mk.inj (Except.ok.inj hs')).1; subst hs2)
    · exact range_wrap d w hw _ h (by simpa [Frame.set] using h0) (by simpa [Frame.set] using h1) hirm
    · exact range_wrap d w hw _ h h0 h1 hirm

theorem range_from5 {rows cols : Nat} (d : Dim rows cols) (w : Nat) (hw : (w : Int) ≤ 65535) (s : Frame)
    (h : EmuInv s.e rows cols) (h0 : s.vars 0 = w) (h1 : s.vars 1 = w) (hirm : s.e.mode.irm = false) :
    rangeFrom 5 s = true := by
  obtain ⟨b1, b2, b3, b4, b5, b6, b7, b8, b9, b10, b11, b12, b13, b14, b15⟩ := good_bounds h d
  apply range_step 5 _ _ rfl
  · range_norm
    (try range_norm)
    simp only [h1]
    range_tree
  · intro s' hs'
    simp only [evalS, evalCond, evalEx, exOk, Frame.get, if_true] at hs'
    split at hs' <;> (have hs2 := (Prod.mk.inj (Except.ok.inj hs')).1; subst hs2)
    · exact range_from6 d w hw _ h (by simpa [Frame.set] using h0) (by simpa [Frame.set] using h1) hirm
    · exact range_from6 d w hw _ h h0 h1 hirm

theorem range_from4 {rows cols : Nat} (d : Dim rows cols) (w : Nat) (hw : (w : Int) ≤ 65535) (s : Frame)
    (h : EmuInv s.e rows cols) (h0 : s.vars 0 = w) (h1 : s.vars 1 = w) (hirm : s.e.mode.irm = false) :
    rangeFrom 4 s = true := by
  apply range_step 4 _ _ rfl
  · simp only [rangeS, condR, exR, Bool.and_true, Bool.true_and]; split <;> rfl
  · intro s' hs'
    simp only [evalS, evalCond, evalEx, exOk, Frame.get, if_true] at hs'
    split at hs' <;> (have hs2 := (Prod.mk.inj (Except.ok.inj hs')).1; subst hs2)
    · exact range_from5 d w hw _ h (by simpa [Frame.set] using h0) (by simpa [Frame.set] using h1) hirm
    · exact range_from5 d w hw _ h h0 h1 hirm

theorem range_from0 {rows cols : Nat} (d : Dim rows cols) (w : Nat) (hw : (w : Int) ≤ 65535) (s : Frame)
    (h : EmuInv s.e rows cols) (h0 : s.vars 0 = w) (hirm : s.e.mode.irm = false) :
    rangeFrom 0 s = true := by
  -- decSpecial
  apply range_step 0 _ _ rfl
  · simp [rangeS]
  intro s1 hs1
  simp only [evalS] at hs1
  have e1 := (Prod.mk.inj (Except.ok.inj hs1)).1; subst e1
  -- singleShift
  apply range_step 1 _ _ rfl
  · simp [rangeS]
  intro s2 hs2
  simp only [evalS] at hs2
  have e2 := (Prod.mk.inj (Except.ok.inj hs2)).1; subst e2
  -- w := seq.Width
  apply range_step 2 _ _ rfl
  · simp [rangeS, exR]
  intro s3 hs3
  simp only [evalS, exOk, evalEx, Frame.get, if_true] at hs3
  have e3 := (Prod.mk.inj (Except.ok.inj hs3)).1; subst e3
  -- wrap := false
  apply range_step 3 _ _ rfl
  · simp [rangeS, exR]
  intro s4 hs4
  simp only [evalS, exOk, evalEx, if_true] at hs4
  have e4 := (Prod.mk.inj (Except.ok.inj hs4)).1; subst e4
  apply range_from4 d w hw
  · split
    · exact { h with }
    · exact h
  · split <;> simpa [Frame.set] using h0
  · split <;> simpa [Frame.set] using h0
  · split <;> simpa [Frame.set] using hirm

end VaxisModel.Lemmas.EmuBody
