/-
Round 4: Go `int` versus ℤ for resize() (Props/C05Overflow.lean `range_resize`): the range check `rangeR`
(Model/EmuBodyRangeR.lean) of the translated body, following the reflow loop nest iteration by iteration with the emulator
invariant at the NEW size (each `vt.print` call is checked by `range_print`'s chain in the state it is made in — the invariant
there from `print_safe` / `nel_safe` — and the loop counters against the size of the old screen).
-/
import VaxisModel.Model.EmuBodyRangeR
import VaxisModel.Lemmas.EmuBodyRange2
import VaxisModel.Lemmas.EmuBodyReflow

namespace VaxisModel.Lemmas.EmuBody
open VaxisModel.Model.Emu VaxisModel.Model.EmuBody VaxisModel.Lemmas.Emu VaxisModel.Gen

theorem innerBody_eval (old : Grid) (last : Int) (pen : EStyle) (i : Int) (r : Row) (hr : getI old i = .ok r)
    (s : Frame) (c : Nat) (cell : ECell) (hcell : getI r (c : Int) = .ok cell) (hi : Inv old last pen s) (h3 : s.vars 3 = i) :
    evalS [] innerBody (s.set (.var 5) c) =
      (print Fixes.current { s.e with cur := { s.e.cur with st := cell.st } } cell.g cell.w >>= fun e1 =>
        .ok (({ (s.set (.var 5) c) with cell := cell, e := e1 } : Frame).set (.var 4) (if cell.wrapped then 1 else 0), .norm)) := by
  simp only [innerBody, evalS, evalEx, Frame.get, Frame.set, hi.old, h3, hr, hcell, ok_bind, bind_assoc', reduceCtorEq,
    Nat.reduceEqDiff, if_false, if_true]

theorem innerBody_chk {R C : Nat} (d : Dim R C) (old : Grid) (last : Int) (pen : EStyle) (i : Int) (r : Row) (hr : getI old i = .ok r)
    (s : Frame) (c : Nat) (cell : ECell) (hcell : getI r (c : Int) = .ok cell) (hi : Inv old last pen s) (h3 : s.vars 3 = i)
    (hinv : EmuInv s.e R C) (hw : (cell.w : Int) ≤ 65535) :
    rangeR [] innerBody (s.set (.var 5) c) = true := by
  have hp : rangeBody TermBodies.body_print [] [(cell.w : Int)] { s.e with cur := { s.e.cur with st := cell.st } } = true :=
    range_from0 d cell.w hw (initFrame _ [(cell.w : Int)]) (inv_pen' hinv cell.st) rfl
  simp only [innerBody, rangeR, rangeS, exR, evalS, evalEx, Frame.get, Frame.set, hi.old, h3, hr, hcell, ok_bind, andThen_norm,
    Bool.true_and, Nat.reduceEqDiff, if_false, if_true, reduceCtorEq]
  rw [hp, Bool.true_and]
  exact andThen_all _ _ (fun _ => rfl)

theorem inner_range {R C : Nat} (d : Dim R C) (old : Grid) (last : Int) (pen : EStyle) (i : Int) (r : Row) (hr : getI old i = .ok r)
    (hwid : ∀ c ∈ r, (c.w : Int) ≤ 65535) (hlen : (r.length : Int) ≤ 65535) :
    ∀ (cells : Row) (c : Nat) (s : Frame), r.drop c = cells → Inv old last pen s → s.vars 3 = i → EmuInv s.e R C →
      rangeForS (fun s => rangeR [] innerBody s) (fun s => evalS [] innerBody s) 5 cells.length c s = true := by
  intro cells
  induction cells with
  | nil => intro c s _ _ _ _; rfl
  | cons cell rest ih =>
    intro c s hd hi h3 hinv
    have hcell : getI r (c : Int) = .ok cell := getI_drop hd
    have hrest : r.drop (c + 1) = rest := drop_succ_of_drop hd
    have hmem : cell ∈ r := by
      have : cell ∈ r.drop c := by rw [hd]; exact List.mem_cons_self
      exact List.mem_of_mem_drop this
    have hclt : c < r.length := by
      rcases Nat.lt_or_ge c r.length with hlt | hge
      · exact hlt
      · have : r.drop c = [] := List.drop_eq_nil_of_le hge
        rw [this] at hd; cases hd
    simp only [List.length_cons, rangeForS, Bool.and_eq_true]
    refine ⟨⟨?_, innerBody_chk d old last pen i r hr s c cell hcell hi h3 hinv (hwid cell hmem)⟩, ?_⟩
    · unfold inR lim; apply decide_eq_true; constructor <;> omega
    · rw [innerBody_eval old last pen i r hr s c cell hcell hi h3]
      obtain ⟨e1, he1, hi1⟩ := print_safe (inv_pen' hinv cell.st) d cell.g cell.w
      rw [he1]
      simp only [ok_bind, reduceCtorEq, or_self, if_false]
      have := ih (c + 1) (({ (s.set (.var 5) c) with cell := cell, e := e1 } : Frame).set (.var 4) (if cell.wrapped then 1 else 0))
        hrest
        ⟨hi.old, by simp only [Frame.set, Nat.reduceEqDiff, if_false]; exact hi.last, hi.pen⟩
        (by simp only [Frame.set, Nat.reduceEqDiff, if_false]; exact h3)
        (by simpa [Frame.set] using hi1)
      rw [Int.natCast_add, Int.natCast_one] at this
      exact this

theorem outer_range {R C : Nat} (d : Dim R C) (old : Grid) (last : Int) (pen : EStyle) (hrect : Rect old)
    (hwid : ∀ r ∈ old, ∀ c ∈ r, (c.w : Int) ≤ 65535) (hlen : (old.length : Int) ≤ 65535) (hw0 : (width0 old : Int) ≤ 65535) :
    ∀ (rows : List Row) (k : Nat) (s : Frame), old.drop k = rows → Inv old last pen s → EmuInv s.e R C →
      rangeForS (fun s => rangeR [] outerBody s) (fun s => evalS [] outerBody s) 3 rows.length k s = true := by
  intro rows
  induction rows with
  | nil => intro k s _ _ _; rfl
  | cons r rest ih =>
    intro k s hd hi hinv
    have hrow : getI old (k : Int) = .ok r := getI_drop hd
    have hrest : old.drop (k + 1) = rest := drop_succ_of_drop hd
    have hne : old.isEmpty = false := by
      cases old with
      | nil => simp at hd
      | cons a b => rfl
    have hw : r.length = width0 old := width0_of_drop hd hrect
    have hmem : r ∈ old := by
      have : r ∈ old.drop k := by rw [hd]; exact List.mem_cons_self
      exact List.mem_of_mem_drop this
    have hklt : k < old.length := by
      rcases Nat.lt_or_ge k old.length with hlt | hge
      · exact hlt
      · have : old.drop k = [] := List.drop_eq_nil_of_le hge
        rw [this] at hd; cases hd
    have hlenW : oldWidth old = (r.length : Int) := by
      rw [hw]; cases old <;> rfl
    have htrip : ((r.length : Int) - 1 + 1 - 0).toNat = r.length := by omega
    let s1 : Frame := (s.set (.var 3) k).set (.var 4) 0
    have hi1 : Inv old last pen s1 := ⟨hi.old, by simp only [s1, Frame.set, Nat.reduceEqDiff, if_false]; exact hi.last, hi.pen⟩
    have hinv1 : EmuInv s1.e R C := hinv
    have hinner := inner_range d old last pen (k : Int) r hrow (hwid r hmem) (by rw [hw]; exact hw0) r 0 s1 (by simp) hi1
      (by simp only [s1, Frame.set, Nat.reduceEqDiff, if_false, if_true]) hinv1
    simp only [List.length_cons, rangeForS, Bool.and_eq_true]
    refine ⟨⟨?_, ?_⟩, ?_⟩
    · unfold inR lim; apply decide_eq_true; constructor <;> omega
    · -- the check of the body of the row loop
      by_cases hk : (k : Int) = last
      · simp only [outerBody, rangeR, rangeS, condR, exR, evalS, evalCond, evalEx, evalCmp, Frame.get, Frame.set, hi.last, hk, if_true,
          Nat.reduceEqDiff, if_false, decide_true, Bool.true_and, Bool.and_true, andThen_brk]
      · have hlenW' : oldWidth s.old = (r.length : Int) := by rw [hi.old]; exact hlenW
        simp only [Int.natCast_zero] at hinner
        simp only [outerBody, rangeR, rangeS, condR, exR, bndR, evalS, evalCond, evalEx, evalCmp, evalBnd, exOk, Frame.get, Frame.set,
          hi.last, hk, if_true, Nat.reduceEqDiff, if_false, decide_false, Bool.true_and, Bool.and_true,
          andThen_norm, Bool.false_eq_true, hlenW', htrip]
        rw [Bool.and_eq_true, Bool.and_eq_true, Bool.and_eq_true]
        refine ⟨⟨⟨?_, ?_⟩, hinner⟩, andThen_all _ _ (fun s1 => by simp)⟩
        · unfold inR lim; decide
        · unfold inR lim; apply decide_eq_true; constructor <;> omega
    · -- the frame the next iteration starts from
      by_cases hk : (k : Int) = last
      · have hb : evalS [] outerBody (s.set (.var 3) k) = .ok (s.set (.var 3) k, .brk) := by
          simp only [outerBody, evalS, evalCond, evalEx, evalCmp, Frame.get, Frame.set, hi.last, hk, if_true, Nat.reduceEqDiff, if_false,
            decide_true, ok_bind, reduceCtorEq]
        rw [hb]; simp
      · have hin := inner_loop [] old last pen (k : Int) r hrow r 0 s1 false (by simp) hi1
          (by simp only [s1, Frame.set, Nat.reduceEqDiff, if_false, if_true])
          (by simp only [s1, Frame.set, if_true]; simp)
        have hbody : evalS [] outerBody (s.set (.var 3) k) =
            (forSGo (fun j s => evalS [] innerBody (s.set (.var 5) j)) r.length (0 : Nat) s1 >>= fun q =>
              if q.2 = .norm then
                (if (!decide (q.1.vars 4 ≠ 0)) = true then (nel q.1.e >>= fun e2 => .ok ({ q.1 with e := e2 }, .norm)) else .ok (q.1, .norm))
              else .ok q) := by
          simp only [outerBody, evalS, evalCond, evalEx, evalCmp, evalBnd, Frame.get, Frame.set, hi.last, hk, exOk, bndReadsOld0, exReadsOld0,
            hi.old, hne, Nat.reduceEqDiff, if_false, if_true, decide_false, decide_true, ok_bind, reduceCtorEq, Bool.false_eq_true,
            Bool.and_false, Bool.true_and, Bool.not_true, callFn, bind_assoc']
          simp only [hlenW, htrip, s1, Frame.set, hi.old, Int.natCast_zero]
          rfl
        rw [hbody]
        obtain ⟨res, hres, hresInv⟩ := reflowFold_safe d r (s1.e, false) hinv1
        have hfold : List.foldlM cellStep (s1.e, false) r = .ok res := hres
        rw [hfold] at hin
        obtain ⟨s2, hs2, he2, hi2, _, hw2⟩ := hin
        rw [hs2]
        simp only [ok_bind, if_true]
        have hinv2 : EmuInv s2.e R C := by rw [he2]; exact hresInv
        by_cases hz : s2.vars 4 = 0
        · simp only [hz, ne_eq, not_true_eq_false, decide_false, Bool.not_false, if_true]
          obtain ⟨e3, he3, hi3⟩ := nel_safe hinv2 d
          rw [he3]
          simp only [ok_bind, reduceCtorEq, or_self, if_false]
          have := ih (k + 1) { s2 with e := e3 } hrest ⟨hi2.old, hi2.last, hi2.pen⟩ hi3
          rw [Int.natCast_add, Int.natCast_one] at this
          exact this
        · simp only [ne_eq, hz, not_false_eq_true, decide_true, Bool.not_true, Bool.false_eq_true, if_false, reduceCtorEq, or_self]
          have := ih (k + 1) s2 hrest hi2 hinv2
          rw [Int.natCast_add, Int.natCast_one] at this
          exact this

/-- the reflow loop nest of resize(): every iteration's arithmetic is in range -/
theorem nest_range {R C : Nat} (d : Dim R C) (s : Frame) (hrect : Rect s.old)
    (hwid : ∀ r ∈ s.old, ∀ c ∈ r, (c.w : Int) ≤ 65535) (hlen : (s.old.length : Int) ≤ 65535) (hw0 : (width0 s.old : Int) ≤ 65535)
    (hinv : EmuInv s.e R C) : rangeR [] nest s = true := by
  have htrip : ((s.old.length : Int) - 1 + 1 - 0).toNat = s.old.length := by omega
  have ho := outer_range d s.old (s.vars 2) s.pen hrect hwid hlen hw0 s.old 0 s rfl ⟨rfl, rfl, rfl⟩ hinv
  simp only [Int.natCast_zero] at ho
  simp only [nest, rangeR, exR, bndR, evalEx, evalBnd, Bool.true_and, htrip]
  rw [Bool.and_eq_true, Bool.and_eq_true]
  refine ⟨⟨?_, ?_⟩, ho⟩
  · unfold inR lim; decide
  · unfold inR lim; apply decide_eq_true; constructor <;> omega

end VaxisModel.Lemmas.EmuBody
