/-
resize(): the reflow loop nest, interpreted. `extract/cmd/C05/bodies.go` translates the nest statement by
statement (two function-level loops `Stmt.forS` over the local snapshot `primary`, `cell := primary[row][col]`,
`vt.cursor.Style = cell.Style`, `vt.print(…)`, `wrapped = cell.wrapped`, `if !wrapped { vt.nel() }`);
here its evaluation is proved equal to the model's `reflow` for every old screen whose rows all have the width
of the first row (what `len(primary[0])` as the bound of the inner loop presupposes; `Rect`).
-/
import VaxisModel.Lemmas.EmuBody

namespace VaxisModel.Lemmas.EmuBody
open VaxisModel.Model.Emu VaxisModel.Model.EmuBody VaxisModel.Lemmas.Emu VaxisModel.Gen

/-- `len(primary[0])` -/
def width0 (g : Grid) : Nat :=
  match g with
  | [] => 0
  | r :: _ => r.length

/-- every row of the old screen has the width of the first one -/
def Rect (g : Grid) : Prop := ∀ r ∈ g, r.length = width0 g

def innerBody : Stmt :=
  (.seq (.loadOldCell (.loc (.var 3)) (.loc (.var 5)))
  (.seq .penFromCell
  (.seq .printCell
  (.assignCellWrapped 4))))

def outerBody : Stmt :=
  (.seq (.ite (.cmp .eq (.loc (.var 3)) (.loc (.var 2))) .brk .skip)
  (.seq (.assign (.var 4) (.lit 0))
  (.seq (.forS 5 (.lit 0) (.lt .lenOld0) innerBody)
  (.ite (.not (.cmp .ne (.loc (.var 4)) (.lit 0))) (.call .nel none) .skip))))

def nest : Stmt := .forS 3 (.lit 0) (.lt .lenOld) outerBody

/-- the per-cell step of `reflowRow` -/
def cellStep (acc : Emu × Bool) (cell : ECell) : M (Emu × Bool) := do
  let e := { acc.1 with cur := { acc.1.cur with st := cell.st } }
  let e ← print Fixes.current e cell.g cell.w
  .ok (e, cell.wrapped)

theorem reflowRow_fold (e : Emu) (cells : Row) : reflowRow Fixes.current e cells = cells.foldlM cellStep (e, false) := rfl

/-- what the loops keep of the frame -/
structure Inv (old : Grid) (last : Int) (pen : EStyle) (s : Frame) : Prop where
  old : s.old = old
  last : s.vars 2 = last
  pen : s.pen = pen

theorem getI_drop {α : Type} {l : List α} {c : Nat} {x : α} {rest : List α} (h : l.drop c = x :: rest) :
    getI l (c : Int) = .ok x := by
  have hx : l[c]? = some x := by
    have := congrArg List.head? h
    simpa [List.head?_drop] using this
  unfold getI
  simp [hx]

theorem drop_succ_of_drop {α : Type} {l : List α} {c : Nat} {x : α} {rest : List α} (h : l.drop c = x :: rest) :
    l.drop (c + 1) = rest := by
  have h1 : l.drop (c + 1) = (l.drop c).drop 1 := by rw [List.drop_drop]
  rw [h1, h]
  rfl

theorem inner_loop (pm : List Param) (old : Grid) (last : Int) (pen : EStyle) (i : Int) (r : Row)
    (hr : getI old i = .ok r) :
    ∀ (cells : Row) (c : Nat) (s : Frame) (wr : Bool), r.drop c = cells → Inv old last pen s → s.vars 3 = i →
      (s.vars 4 ≠ 0 ↔ wr = true) →
      match cells.foldlM cellStep (s.e, wr) with
      | .error p => forSGo (fun j s => evalS pm innerBody (s.set (.var 5) j)) cells.length c s = .error p
      | .ok (e', wr') => ∃ s', forSGo (fun j s => evalS pm innerBody (s.set (.var 5) j)) cells.length c s = .ok (s', .norm) ∧
          s'.e = e' ∧ Inv old last pen s' ∧ s'.vars 3 = i ∧ (s'.vars 4 ≠ 0 ↔ wr' = true) := by
  intro cells
  induction cells with
  | nil =>
    intro c s wr _ hi h3 h4
    exact ⟨s, rfl, rfl, hi, h3, h4⟩
  | cons cell rest ih =>
    intro c s wr hd hi h3 h4
    have hcell : getI r (c : Int) = .ok cell := getI_drop hd
    have hrest : r.drop (c + 1) = rest := drop_succ_of_drop hd
    simp only [List.foldlM_cons, List.length_cons, forSGo]
    have hstep : evalS pm innerBody (s.set (.var 5) c) =
        (print Fixes.current { s.e with cur := { s.e.cur with st := cell.st } } cell.g cell.w >>= fun e1 =>
          .ok (({ (s.set (.var 5) c) with cell := cell, e := e1 } : Frame).set (.var 4) (if cell.wrapped then 1 else 0), .norm)) := by
      simp only [innerBody, evalS, evalEx, Frame.get, Frame.set, hi.old, h3, hr, hcell, ok_bind, bind_assoc', reduceCtorEq,
        Nat.reduceEqDiff, if_false, if_true]
    rw [hstep]
    rw [show cellStep (s.e, wr) cell =
      (print Fixes.current { s.e with cur := { s.e.cur with st := cell.st } } cell.g cell.w >>= fun e1 =>
        .ok (e1, cell.wrapped)) from rfl]
    simp only [bind_assoc', ok_bind]
    cases hp : print Fixes.current { s.e with cur := { s.e.cur with st := cell.st } } cell.g cell.w with
    | error p => rfl
    | ok e1 =>
      simp only [ok_bind, reduceCtorEq, if_false]
      have := ih (c + 1) (({ (s.set (.var 5) c) with cell := cell, e := e1 } : Frame).set (.var 4) (if cell.wrapped then 1 else 0))
        cell.wrapped hrest
        ⟨hi.old, by simp only [Frame.set, Nat.reduceEqDiff, if_false]; exact hi.last, hi.pen⟩
        (by simp only [Frame.set, Nat.reduceEqDiff, if_false]; exact h3)
        (by simp only [Frame.set, if_true]; cases cell.wrapped <;> simp)
      rw [Int.natCast_add, Int.natCast_one] at this
      exact this

theorem width0_of_drop {old : Grid} {k : Nat} {r : Row} {rest : List Row} (h : old.drop k = r :: rest) (hrect : Rect old) :
    r.length = width0 old := by
  apply hrect
  have : r ∈ old.drop k := by rw [h]; exact List.mem_cons_self
  exact List.mem_of_mem_drop this

theorem outer_loop (pm : List Param) (old : Grid) (last : Int) (pen : EStyle) (hrect : Rect old) :
    ∀ (rows : List Row) (k : Nat) (s : Frame), old.drop k = rows → Inv old last pen s →
      match reflow Fixes.current last rows k s.e with
      | .error p => forSGo (fun i s => evalS pm outerBody (s.set (.var 3) i)) rows.length k s = .error p
      | .ok e' => ∃ s', forSGo (fun i s => evalS pm outerBody (s.set (.var 3) i)) rows.length k s = .ok (s', .norm) ∧
          s'.e = e' ∧ Inv old last pen s' := by
  intro rows
  induction rows with
  | nil =>
    intro k s _ hi
    exact ⟨s, rfl, rfl, hi⟩
  | cons r rest ih =>
    intro k s hd hi
    have hrow : getI old (k : Int) = .ok r := getI_drop hd
    have hrest : old.drop (k + 1) = rest := drop_succ_of_drop hd
    have hne : old.isEmpty = false := by
      cases old with
      | nil => simp at hd
      | cons a b => rfl
    have hw : r.length = width0 old := width0_of_drop hd hrect
    unfold reflow
    simp only [List.length_cons, forSGo]
    by_cases hk : (k : Int) = last
    · -- `break`
      simp only [hk, if_true]
      refine ⟨s.set (.var 3) k, ?_, rfl, ⟨hi.old, by simp only [Frame.set, Nat.reduceEqDiff, if_false]; exact hi.last, hi.pen⟩⟩
      simp only [outerBody, evalS, evalCond, evalEx, evalCmp, Frame.get, Frame.set, hi.last, hk, if_true, Nat.reduceEqDiff, if_false,
        decide_true, ok_bind, reduceCtorEq]
    · simp only [hk, if_false]
      -- the frame at the head of the inner loop
      let s1 : Frame := (s.set (.var 3) k).set (.var 4) 0
      have hi1 : Inv old last pen s1 := ⟨hi.old, by simp only [s1, Frame.set, Nat.reduceEqDiff, if_false]; exact hi.last, hi.pen⟩
      have hin := inner_loop pm old last pen (k : Int) r hrow r 0 s1 false (by simp) hi1
        (by simp only [s1, Frame.set, Nat.reduceEqDiff, if_false, if_true])
        (by simp only [s1, Frame.set, if_true]; simp)
      have hs1e : s1.e = s.e := rfl
      rw [hs1e] at hin
      have hbody : evalS pm outerBody (s.set (.var 3) k) =
          (forSGo (fun j s => evalS pm innerBody (s.set (.var 5) j)) r.length (0 : Nat) s1 >>= fun q =>
            if q.2 = .norm then
              (if (!decide (q.1.vars 4 ≠ 0)) = true then (nel q.1.e >>= fun e2 => .ok ({ q.1 with e := e2 }, .norm)) else .ok (q.1, .norm))
            else .ok q) := by
        simp only [outerBody, evalS, evalCond, evalEx, evalCmp, evalBnd, Frame.get, Frame.set, hi.last, hk, exOk, bndReadsOld0, exReadsOld0,
          hi.old, hne, Nat.reduceEqDiff, if_false, if_true, decide_false, decide_true, ok_bind, reduceCtorEq, Bool.false_eq_true,
          Bool.and_false, Bool.true_and, Bool.not_true, callFn, bind_assoc']
        have hlen : oldWidth old = (r.length : Int) := by
          rw [hw]; cases old <;> rfl
        have : ((r.length : Int) - 1 + 1 - 0).toNat = r.length := by omega
        simp only [hlen, this, s1, Frame.set, hi.old, Int.natCast_zero]
        rfl
      rw [hbody, reflowRow_fold]
      simp only [Int.natCast_zero] at hin ⊢
      cases hf : List.foldlM cellStep (s.e, false) r with
      | error p =>
        rw [hf] at hin
        simp only [hin, err_bind]
      | ok res =>
        obtain ⟨e1, wr1⟩ := res
        rw [hf] at hin
        obtain ⟨s2, hs2, he2, hi2, _, hw2⟩ := hin
        simp only [hs2, ok_bind, if_true]
        cases wr1 with
        | false =>
          have hz : s2.vars 4 = 0 := by
            by_cases h0 : s2.vars 4 = 0
            · exact h0
            · exact absurd (hw2.mp h0) (by simp)
          simp only [hz, ne_eq, not_true_eq_false, decide_false, Bool.not_false, if_true, he2, Bool.not_false]
          cases hn : nel e1 with
          | error p => simp only [err_bind]
          | ok e2 =>
            simp only [ok_bind, reduceCtorEq, if_false]
            have := ih (k + 1) { s2 with e := e2 } hrest ⟨hi2.old, hi2.last, hi2.pen⟩
            rw [Int.natCast_add, Int.natCast_one] at this
            exact this
        | true =>
          have hz : s2.vars 4 ≠ 0 := hw2.mpr rfl
          simp only [ne_eq, hz, not_false_eq_true, decide_true, Bool.not_true, Bool.false_eq_true, if_false, ok_bind, reduceCtorEq]
          have := ih (k + 1) s2 hrest hi2
          rw [Int.natCast_add, Int.natCast_one, he2] at this
          exact this

/-- The whole nest is the model's `reflow` (state) and leaves the saved pen alone. -/
theorem nest_eq (pm : List Param) (s : Frame) (hrect : Rect s.old) :
    match reflow Fixes.current (s.vars 2) s.old 0 s.e with
    | .error p => evalS pm nest s = .error p
    | .ok e' => ∃ s', evalS pm nest s = .ok (s', .norm) ∧ s'.e = e' ∧ s'.pen = s.pen := by
  have h := outer_loop pm s.old (s.vars 2) s.pen hrect s.old 0 s rfl ⟨rfl, rfl, rfl⟩
  have htrip : ((s.old.length : Int) - 1 + 1 - 0).toNat = s.old.length := by omega
  have hev : evalS pm nest s = forSGo (fun i s => evalS pm outerBody (s.set (.var 3) i)) s.old.length ((0 : Nat) : Int) s := by
    simp only [nest, evalS, evalBnd, evalEx, exOk, bndReadsOld0, exReadsOld0, Bool.false_and, Bool.false_eq_true, if_false,
      Bool.not_true, htrip, Int.natCast_zero]
  rw [hev]
  cases hq : reflow Fixes.current (s.vars 2) s.old 0 s.e with
  | error p => rw [hq] at h; exact h
  | ok e' =>
    rw [hq] at h
    obtain ⟨s', h1, h2, h3⟩ := h
    exact ⟨s', h1, h2, h3.pen⟩

/-- the form in which `body_resize_eq` meets the nest: whatever follows reads only the state and the saved pen -/
theorem nest_close (s : Frame) (last : Int) (e0 : Emu) (old : Grid) (hrect : Rect old) (ho : s.old = old) (hl : s.vars 2 = last) (he : s.e = e0)
    (k : Frame → Emu) (k' : Emu → Emu)
    (hk : ∀ s' : Frame, s'.pen = s.pen → k s' = k' s'.e) :
    (evalS [] nest s >>= fun a => if a.2 = .norm then (Except.ok (k a.1) : M Emu) else .ok a.1.e) =
      (reflow Fixes.current last old 0 e0 >>= fun e1 => .ok (k' e1)) := by
  subst ho hl he
  have h := nest_eq [] s hrect
  cases hq : reflow Fixes.current (s.vars 2) s.old 0 s.e with
  | error p => rw [hq] at h; rw [h]; rfl
  | ok e' =>
    rw [hq] at h
    obtain ⟨s', h1, h2, h3⟩ := h
    rw [h1]
    simp only [ok_bind, if_true, hk s' h3, h2]

/-- resize() around the nest -/
def resizeWith (n : Stmt) : Stmt :=
 (.seq (.prim .snapshotPrimary)
 (.seq (.allocAlt (.loc (.var 1)))
 (.seq (.allocPrimary (.loc (.var 1)))
 (.seq (.fillRows (.loc (.var 0)))
 (.seq (.assign (.var 2) (.loc .curRow))
 (.seq (.assign .top (.lit 0))
 (.seq (.clampSaved (.loc (.var 1)) (.loc (.var 0)))
 (.seq (.assign .bottom (.sub (.loc (.var 1)) (.lit 1)))
 (.seq (.assign .right (.sub (.loc (.var 0)) (.lit 1)))
 (.seq (.assign .curRow (.lit 0))
 (.seq (.assign .curCol (.lit 0))
 (.seq (.setLastCol false)
 (.seq (.prim .activePrimary)
 (.seq (.prim .savePen)
 (.seq n
 (.seq (.prim .restorePen)
 (.prim .activeBySmcup)))))))))))))))))

/-- the generated body of resize() is exactly this shape (an edit of the nest or of the frame breaks `rfl`) -/
theorem stmt_resize_shape : TermBodies.stmt_resize = resizeWith nest := rfl

/-- resize(): every statement is interpreted — allocation of both screens, margins, saved-cursor clamps, cursor reset,
    pen save, the reflow loop nest (`nest_eq`), pen restore and the final choice of the active screen.
    `make([]cell, w)` is never evaluated when there are no rows, hence the side condition on `w`, `h`; the old primary
    screen must be rectangular (`Rect`; implied by `EmuInv`, true of `New()`). -/
theorem body_resize_eq (e : Emu) (w h : Int) (h0 : ¬ (w < 0 ∧ h = 0)) (hrect : Rect e.primary) :
    evalBody TermBodies.body_resize [] [w, h] e = resize Fixes.current e w h := by
  simp only [TermBodies.body_resize, stmt_resize_shape, resizeWith, resize]
  body_norm
  have close : ∀ (s : Frame) (e0 : Emu), s.old = e.primary → s.vars 2 = e.cur.row → s.e = e0 → s.pen = e.cur.st →
      (evalS [] nest s >>= fun a => if a.2 = .norm then
          (Except.ok { a.1.e with cur := { a.1.e.cur with st := a.1.pen }, altActive := a.1.e.mode.smcup } : M Emu)
        else .ok a.1.e) =
      (reflow Fixes.current e.cur.row e.primary 0 e0 >>= fun e1 =>
        .ok { e1 with cur := { e1.cur with st := e.cur.st }, altActive := e1.mode.smcup }) := by
    intro s e0 ho hl he hp
    exact nest_close s _ _ _ hrect ho hl he
      (fun a => { a.e with cur := { a.e.cur with st := a.pen }, altActive := a.e.mode.smcup })
      (fun e1 => { e1 with cur := { e1.cur with st := e.cur.st }, altActive := e1.mode.smcup })
      (fun s' hs' => by simp only [hs', hp])
  by_cases hh : h < 0
  · simp [hh]
  · by_cases hz : h ≤ 0
    · have h0' : h = 0 := by omega
      have hw : ¬ w < 0 := fun hw => h0 ⟨hw, h0'⟩
      subst h0'
      simp [hw, blankGrid]
      exact close _ _ rfl rfl rfl rfl
    · by_cases hw : w < 0
      · simp [hh, hz, hw]
      · simp [hh, hz, hw, blankGrid]
        exact close _ _ rfl rfl rfl rfl

end VaxisModel.Lemmas.EmuBody
