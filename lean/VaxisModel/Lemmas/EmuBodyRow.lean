/-
Row-lifting lemmas for Props/C05Bodies.lean: a loop that updates cells of ONE row of the grid
(`line := vt.activeScreen[row]; for … { line[i] = … }`, which the translated body expresses as
cell statements on `vt.activeScreen[row][i]`) is the same loop over that row (the shape `ich` and
`print` use in Model/Emu.lean), once the row exists.
-/
import VaxisModel.Lemmas.EmuBody

namespace VaxisModel.Lemmas.EmuBody
open VaxisModel.Model.Emu VaxisModel.Model.EmuBody VaxisModel.Lemmas.Emu

theorem getI_inv {α : Type} {l : List α} {i : Int} {x : α} (h : getI l i = .ok x) :
    0 ≤ i ∧ ∃ hi : i.toNat < l.length, l[i.toNat] = x := by
  unfold getI at h
  split at h
  · rename_i h0
    split at h
    · rename_i y hy
      cases h
      obtain ⟨hl, hv⟩ := List.getElem?_eq_some_iff.mp hy
      exact ⟨h0, hl, hv⟩
    · cases h
  · cases h

theorem getI_of {α : Type} {l : List α} {i : Int} (h0 : 0 ≤ i) (h1 : i.toNat < l.length) :
    getI l i = .ok l[i.toNat] := by
  unfold getI
  simp [h0, List.getElem?_eq_getElem h1]

theorem setI_self {α : Type} {l : List α} {i : Int} {x : α} (h : getI l i = .ok x) : setI l i x = .ok l := by
  obtain ⟨h0, h1, h2⟩ := getI_inv h
  unfold setI
  simp only [h0, h1, and_self, if_true]
  rw [← h2, List.set_getElem_self]

theorem setI_of {α : Type} {l : List α} {i : Int} {x : α} (h : getI l i = .ok x) (y : α) :
    setI l i y = .ok (l.set i.toNat y) := by
  obtain ⟨h0, h1, _⟩ := getI_inv h
  unfold setI
  simp [h0, h1]

theorem getI_set {α : Type} {l : List α} {i : Int} {x : α} (h : getI l i = .ok x) (y : α) :
    getI (l.set i.toNat y) i = .ok y := by
  obtain ⟨h0, h1, _⟩ := getI_inv h
  rw [getI_of h0 (by simpa using h1)]
  simp

theorem setI_set {α : Type} {l : List α} {i : Int} {x : α} (h : getI l i = .ok x) (y z : α) :
    setI (l.set i.toNat y) i z = setI l i z := by
  rw [setI_of (getI_set h y), setI_of h, List.set_set]

theorem setI_err_of_getI_err {α : Type} {l : List α} {i : Int} {p : Panic} (h : getI l i = .error p) (y : α) :
    setI l i y = .error .oob := by
  unfold getI at h
  unfold setI
  split at h
  · rename_i h0
    split at h
    · cases h
    · rename_i hn
      have : ¬ i.toNat < l.length := by
        intro hl
        rw [List.getElem?_eq_getElem hl] at hn
        cases hn
      simp [this]
  · rename_i h0
    simp [h0]

theorem getI_err_oob {α : Type} {l : List α} {i : Int} {p : Panic} (h : getI l i = .error p) : p = .oob := by
  unfold getI at h
  split at h
  · split at h
    · cases h
    · cases h; rfl
  · cases h; rfl

/-- `g[r][c] = cell{}` followed by a modification of the same cell, on a row that exists -/
theorem modCell_const_then (g : Grid) (r c : Int) (row : Row) (hg : getI g r = .ok row) (a : ECell) (f : ECell → ECell) :
    (modCell g r c (fun _ => a) >>= fun g1 => modCell g1 r c f) =
      (setI row c (f a) >>= fun l => setI g r l) := by
  unfold modCell
  simp only [hg, ok_bind, bind_assoc']
  cases hx : getI row c with
  | error p =>
    have := getI_err_oob hx
    subst this
    simp [err_bind, setI_err_of_getI_err hx]
  | ok x =>
    simp only [ok_bind, setI_of hx, setI_of hg, getI_set hg, getI_set hx, setI_set hx, setI_set hg]

/-- a row-level loop body lifted to the grid -/
def rowB (b : Int → Row → M Row) (r : Int) : Int → Grid → M Grid :=
  fun i g => do
    let row ← getI g r
    let row' ← b i row
    setI g r row'

def rowBB (b : Int → Row → M (Row × Bool)) (r : Int) : Int → Grid → M (Grid × Bool) :=
  fun i g => do
    let row ← getI g r
    let p ← b i row
    let g' ← setI g r p.1
    .ok (g', p.2)

theorem rowB_step (b : Int → Row → M Row) (r i : Int) (g : Grid) (row : Row) (h : getI g r = .ok row) :
    rowB b r i g = (b i row >>= fun row' => setI g r row') := by
  simp only [rowB, h, ok_bind]

theorem rowBB_step (b : Int → Row → M (Row × Bool)) (r i : Int) (g : Grid) (row : Row) (h : getI g r = .ok row) :
    rowBB b r i g = (b i row >>= fun p => (setI g r p.1 >>= fun g' => .ok (g', p.2))) := by
  simp only [rowBB, h, ok_bind]

theorem forDownGo_row (B : Int → Grid → M Grid) (b : Int → Row → M Row) (r : Int)
    (hB : ∀ i g row, getI g r = .ok row → B i g = rowB b r i g) :
    ∀ (n : Nat) (i : Int) (g : Grid) (row : Row), getI g r = .ok row →
      forDownGo B n i g = (forDownGo b n i row >>= fun row' => setI g r row') := by
  intro n
  induction n with
  | zero => intro i g row h; simp [forDownGo, ok_bind, setI_self h]
  | succ n ih =>
    intro i g row h
    simp only [forDownGo, hB i g row h, rowB_step b r i g row h, bind_assoc']
    cases hb : b i row with
    | error p => simp [err_bind]
    | ok row1 =>
      simp only [ok_bind, setI_of h]
      rw [ih (i - 1) (g.set r.toNat row1) row1 (getI_set h row1)]
      congr 1
      funext row'
      rw [setI_set h row1 row', setI_of h]

theorem forDown_row (B : Int → Grid → M Grid) (b : Int → Row → M Row) (r : Int)
    (hB : ∀ i g row, getI g r = .ok row → B i g = rowB b r i g) (hi lo : Int) (g : Grid) (row : Row)
    (h : getI g r = .ok row) :
    forDown hi lo B g = (forDown hi lo b row >>= fun row' => setI g r row') := by
  unfold forDown
  simp only
  split
  · exact forDownGo_row B b r hB _ hi g row h
  · rw [forDownGo_row B b r hB _ hi g row h]
    simp only [bind_assoc']
    cases forDownGo b hangLimit hi row with
    | error p => rfl
    | ok row' => simp [ok_bind, err_bind, setI_of h]

theorem forUpBrkGo_row (B : Int → Grid → M (Grid × Bool)) (b : Int → Row → M (Row × Bool)) (r : Int)
    (hB : ∀ i g row, getI g r = .ok row → B i g = rowBB b r i g) :
    ∀ (n : Nat) (i : Int) (g : Grid) (row : Row), getI g r = .ok row →
      forUpBrkGo B n i g =
        (forUpBrkGo b n i row >>= fun p => (setI g r p.1 >>= fun g' => .ok (g', p.2))) := by
  intro n
  induction n with
  | zero => intro i g row h; simp [forUpBrkGo, ok_bind, setI_self h]
  | succ n ih =>
    intro i g row h
    simp only [forUpBrkGo, hB i g row h, rowBB_step b r i g row h, bind_assoc']
    cases hb : b i row with
    | error p => simp [err_bind]
    | ok p =>
      obtain ⟨row1, go⟩ := p
      simp only [ok_bind, setI_of h]
      cases go with
      | false => simp [ok_bind]
      | true =>
        simp only [if_true]
        rw [ih (i + 1) (g.set r.toNat row1) row1 (getI_set h row1)]
        congr 1
        funext p
        rw [setI_set h row1 p.1, setI_of h]
        rfl

theorem forUpBrk_row (B : Int → Grid → M (Grid × Bool)) (b : Int → Row → M (Row × Bool)) (r : Int)
    (hB : ∀ i g row, getI g r = .ok row → B i g = rowBB b r i g) (lo hi : Int) (g : Grid) (row : Row)
    (h : getI g r = .ok row) :
    forUpBrk lo hi B g = (forUpBrk lo hi b row >>= fun row' => setI g r row') := by
  unfold forUpBrk
  simp only
  split
  · rw [forUpBrkGo_row B b r hB _ lo g row h]
    simp only [bind_assoc']
    cases forUpBrkGo b _ lo row with
    | error p => rfl
    | ok p => simp [ok_bind, setI_of h]
  · rw [forUpBrkGo_row B b r hB _ lo g row h]
    simp only [bind_assoc']
    cases forUpBrkGo b hangLimit lo row with
    | error p => rfl
    | ok p =>
      simp only [ok_bind, setI_of h]
      cases p.2 <;> simp [ok_bind, err_bind, setI_of h]

/-- the shared core of ICH once `ps` is fixed -/
theorem ich_core (e : Emu) (n : Int) (G : Grid) :
    (do
      let _ ← getI G e.cur.row
      let a ← forDown e.right (e.cur.col + n) (fun i g => cellCopy g e.cur.row i e.cur.row (i - n)) G
      let a ← forUpBrk 0 (n - 1)
          (fun i g =>
            if e.right < e.cur.col + i then Except.ok (g, false)
            else do
              let a ← modCell g e.cur.row (e.cur.col + i) fun _ => ({} : ECell)
              let a ← modCell a e.cur.row (e.cur.col + i) fun x => x.erase e.cur.st.bg
              Except.ok (a, true))
          a
      Except.ok (e.setActive a)) =
    (do
      let line ← getI G e.cur.row
      let line1 ← forDown e.right (e.cur.col + n)
          (fun i line => do
            let x ← getI line (i - n)
            setI line i x)
          line
      let line2 ← forUpBrk 0 (n - 1)
          (fun i line =>
            if e.right < e.cur.col + i then Except.ok (line, false)
            else do
              let l ← setI line (e.cur.col + i) (({} : ECell).erase e.cur.st.bg)
              Except.ok (l, true))
          line1
      let g ← setI G e.cur.row line2
      Except.ok (e.setActive g)) := by
  cases hrow : getI G e.cur.row with
  | error p => rfl
  | ok line =>
    simp only [ok_bind]
    rw [forDown_row _ (fun i line => do let x ← getI line (i - n); setI line i x) e.cur.row
      (by intro i g row hg; simp only [cellCopy_same_row, rowB, bind_assoc']) e.right (e.cur.col + n) G line hrow]
    simp only [bind_assoc']
    cases hl1 : forDown e.right (e.cur.col + n) (fun i line => do let x ← getI line (i - n); setI line i x) line with
    | error p => rfl
    | ok line1 =>
      simp only [ok_bind, setI_of hrow]
      rw [forUpBrk_row _ (fun i line =>
            if e.right < e.cur.col + i then Except.ok (line, false)
            else do
              let l ← setI line (e.cur.col + i) (({} : ECell).erase e.cur.st.bg)
              Except.ok (l, true)) e.cur.row ?_ 0 (n - 1) _ line1 (getI_set hrow line1)]
      · simp only [bind_assoc']
        cases forUpBrk 0 (n - 1) _ line1 with
        | error p => rfl
        | ok line2 => simp only [ok_bind, setI_set hrow, setI_of hrow]
      · intro i g row hg
        simp only [rowBB, hg, ok_bind]
        split
        · simp [ok_bind, setI_self hg]
        · have := modCell_const_then g e.cur.row (e.cur.col + i) row hg ({} : ECell) (fun x => x.erase e.cur.st.bg)
          simp only [bind_assoc'] at this ⊢
          rw [← bind_assoc', this]
          simp only [bind_assoc', ok_bind]


end VaxisModel.Lemmas.EmuBody
