/-
`body_sgr`: the translated body of sgr() (sgr.go) is the model's `sgr` for every pen and every parameter list
(any length, any sub-parameters, malformed forms included). The loop `for i := 0; i < len(params); i += 1` is
`Stmt.forSgr` (`sgrWalk`: the body sees `params[i]`, `params[i+1:]` and may advance `i`), one iteration is the
model's `sgrOne` (`sgr_iter`), the extended-colour arms 38 / 48 / 58 are the model's `sgrExt` (`ext_eval`).
-/
import VaxisModel.Lemmas.EmuBody

set_option linter.unusedSimpArgs false

namespace VaxisModel.Lemmas.EmuBody
open VaxisModel.Model.Emu VaxisModel.Model.EmuBody VaxisModel.Lemmas.Emu VaxisModel.Gen VaxisModel.Gen.TermModes

def loopBodyOf : Stmt → Stmt
  | .seq _ (.forSgr b) => b
  | _ => .skip

/-- the body of the loop of sgr(), read off the generated term -/
def sgrBody : Stmt := loopBodyOf TermBodies.stmt_sgr

theorem stmt_sgr_shape : TermBodies.stmt_sgr = .seq .pmDefault0 (.forSgr sgrBody) := rfl

def toCS : Slot → ColSlot
  | .fg => .fg
  | .bg => .bg
  | .ul => .ul

theorem setPenCol_eq (st : EStyle) (slot : Slot) (c : Nat) : setPenCol st slot c = setCol st (toCS slot) c := by
  cases slot <;> rfl

/-- the arm of `case 38 / 48 / 58` (the three copies in the source differ only in the colour they set) -/
def extStmt (slot : Slot) : Stmt :=
 (.ite (.cmp .eq .lenCur (.lit 1))
 (.seq (.ite (.cmp .lt .lenFrom (.lit 3))
 (.seq .logErr
 .ret)
 .skip)
 (.iteP (.cmp .eq (.nxt 1 0) (.lit 2))
 (.seq (.ite (.cmp .lt .lenFrom (.lit 5))
 (.seq .logErr
 .ret)
 .skip)
 (.seq (.setCol slot (.rgb (.nxt 2 0) (.nxt 3 0) (.nxt 4 0)))
 (.skipParams 4)))
 (.iteP (.cmp .eq (.nxt 1 0) (.lit 5))
 (.seq (.setCol slot (.index (.nxt 2 0)))
 (.skipParams 2))
 (.seq .logErr
 .ret))))
 (.ite (.cmp .eq .lenCur (.lit 3))
 (.seq (.iteP (.cmp .ne (.cur 1) (.lit 5))
 (.seq .logErr
 .ret)
 .skip)
 (.setCol slot (.index (.cur 2))))
 (.ite (.cmp .eq .lenCur (.lit 5))
 (.seq (.iteP (.cmp .ne (.cur 1) (.lit 2))
 (.seq .logErr
 .ret)
 .skip)
 (.setCol slot (.rgb (.cur 2) (.cur 3) (.cur 4))))
 (.ite (.cmp .eq .lenCur (.lit 6))
 (.seq (.iteP (.cmp .ne (.cur 1) (.lit 2))
 (.seq .logErr
 .ret)
 .skip)
 (.setCol slot (.rgb (.cur 3) (.cur 4) (.cur 5))))
 .skip))))

/-- what one iteration of the loop must produce, given the model's verdict -/
def iterResult (s : Frame) (p : Param) (rest : List Param) (r : M (Option (EStyle × Nat))) : M (Frame × Sig) :=
  match r with
  | .error x => .error x
  | .ok none => .ok ({ s with curP := p, restP := rest, skip := 0 }, .ret)
  | .ok (some (st', k)) =>
    .ok ({ s with curP := p, restP := rest, skip := k, e := { s.e with cur := { s.e.cur with st := st' } } }, .norm)

end VaxisModel.Lemmas.EmuBody

namespace VaxisModel.Lemmas.EmuBody
open VaxisModel.Model.Emu VaxisModel.Model.EmuBody VaxisModel.Lemmas.Emu VaxisModel.Gen VaxisModel.Gen.TermModes

theorem one_add_pos (n : Nat) : (0 < 1 + n) = True := eq_true (by omega)

theorem len5_not_lt3 (n : Nat) : ((n : Int) + 1 + 1 + 1 + 1 + 1 < 3) = False := eq_false (by omega)
theorem len5_not_lt5 (n : Nat) : ((n : Int) + 1 + 1 + 1 + 1 + 1 < 5) = False := eq_false (by omega)

theorem len7_ne1 (n : Nat) : (1 + ((n : Int) + 1 + 1 + 1 + 1 + 1 + 1) = 1) = False := eq_false (by omega)
theorem len7_ne3 (n : Nat) : (1 + ((n : Int) + 1 + 1 + 1 + 1 + 1 + 1) = 3) = False := eq_false (by omega)
theorem len7_ne5 (n : Nat) : (1 + ((n : Int) + 1 + 1 + 1 + 1 + 1 + 1) = 5) = False := eq_false (by omega)
theorem len7_ne6 (n : Nat) : (1 + ((n : Int) + 1 + 1 + 1 + 1 + 1 + 1) = 6) = False := eq_false (by omega)

theorem sgrExt_long (st : EStyle) (slot : ColSlot) (n a b c d e5 f : Int) (more : List Int) (rest : List Param) :
    sgrExt st slot (n, a :: b :: c :: d :: e5 :: f :: more) rest = .ok (some (st, 0)) := by
  have hl : Param.len (n, a :: b :: c :: d :: e5 :: f :: more) = more.length + 7 := by
    simp only [Param.len, List.length_cons]; omega
  unfold sgrExt
  rw [hl]
  split <;> first | omega | rfl

theorem nlen5_not_lt3 (n : Nat) : (n + 1 + 1 + 1 + 1 + 1 < 3) = False := eq_false (by omega)
theorem nlen5_not_lt5 (n : Nat) : (n + 1 + 1 + 1 + 1 + 1 < 5) = False := eq_false (by omega)

macro "sgr_simp" : tactic => `(tactic|
  simp [one_add_pos, len5_not_lt3, len5_not_lt5, nlen5_not_lt3, nlen5_not_lt5, extStmt, iterResult, evalS, evalCond, evalEx, evalCmp, condOkS, exOkS, sgrExt, Param.len, Param.get, setPenCol_eq, toCS,
    ok_bind, err_bind, bind_assoc'])

theorem ext_eval (pm : List Param) (slot : Slot) (s : Frame) (p : Param) (rest : List Param) :
    evalS pm (extStmt slot) { s with curP := p, restP := rest, skip := 0 } =
      iterResult s p rest (sgrExt s.e.cur.st (toCS slot) p rest) := by
  obtain ⟨n, subs⟩ := p
  rcases subs with _ | ⟨a, _ | ⟨b, _ | ⟨c, _ | ⟨d, _ | ⟨e5, _ | ⟨f, more⟩⟩⟩⟩⟩⟩
  case cons.cons.cons.cons.cons.cons =>
    rw [sgrExt_long]
    simp [len7_ne1, len7_ne3, len7_ne5, len7_ne6, extStmt, iterResult, evalS, evalCond, evalEx, evalCmp, Param.len]
  · -- legacy form: the colour follows in the next parameters
    rcases rest with _ | ⟨k, _ | ⟨x, _ | ⟨y, _ | ⟨z, more⟩⟩⟩⟩
    · sgr_simp
    · sgr_simp
    all_goals
      by_cases h2 : k.1 = 2
      · sgr_simp; try simp [h2, one_add_pos]
      · by_cases h5 : k.1 = 5
        · sgr_simp; try simp [h2, h5, one_add_pos]
        · sgr_simp; try simp [h2, h5, one_add_pos]
  all_goals
    by_cases h5 : a = 5
    · subst h5; sgr_simp
    · by_cases h2 : a = 2
      · subst h2; sgr_simp
      · simp [h5, h2, one_add_pos, extStmt, iterResult, evalS, evalCond, evalEx, evalCmp, condOkS, exOkS, sgrExt, Param.len, Param.get,
          setPenCol_eq, toCS, ok_bind, err_bind, bind_assoc']

end VaxisModel.Lemmas.EmuBody

namespace VaxisModel.Lemmas.EmuBody
open VaxisModel.Model.Emu VaxisModel.Model.EmuBody VaxisModel.Lemmas.Emu VaxisModel.Gen VaxisModel.Gen.TermModes

/-- the body of the loop with the three extended-colour arms folded into `extStmt` (kept in step with the generated term by
    `sgrBody_folded : … := rfl`) -/
def sgrFolded : Stmt :=
 (.ite (.cmp .eq (.cur 0) (.lit 0))
 (.seq .attrClear
 (.seq (.setCol .fg .zero)
 (.seq (.setCol .bg .zero)
 (.seq (.setCol .ul .zero)
 (.setUl underlineOff)))))
 (.ite (.cmp .eq (.cur 0) (.lit 1))
 (.attrOn attrBold)
 (.ite (.cmp .eq (.cur 0) (.lit 2))
 (.attrOn attrDim)
 (.ite (.cmp .eq (.cur 0) (.lit 3))
 (.attrOn attrItalic)
 (.ite (.cmp .eq (.cur 0) (.lit 4))
 (.ite (.cmp .eq .lenCur (.lit 1))
 (.setUl underlineSingle)
 (.ite (.cmp .eq .lenCur (.lit 2))
 (.iteP (.cmp .eq (.cur 1) (.lit 0))
 (.setUl underlineOff)
 (.iteP (.cmp .eq (.cur 1) (.lit 1))
 (.setUl underlineSingle)
 (.iteP (.cmp .eq (.cur 1) (.lit 2))
 (.setUl underlineDouble)
 (.iteP (.cmp .eq (.cur 1) (.lit 3))
 (.setUl underlineCurly)
 (.iteP (.cmp .eq (.cur 1) (.lit 4))
 (.setUl underlineDotted)
 (.iteP (.cmp .eq (.cur 1) (.lit 5))
 (.setUl underlineDashed)
 .skip))))))
 .skip))
 (.ite (.cmp .eq (.cur 0) (.lit 5))
 (.attrOn attrBlink)
 (.ite (.cmp .eq (.cur 0) (.lit 7))
 (.attrOn attrReverse)
 (.ite (.cmp .eq (.cur 0) (.lit 8))
 (.attrOn attrInvisible)
 (.ite (.cmp .eq (.cur 0) (.lit 9))
 (.attrOn attrStrikethrough)
 (.ite (.cmp .eq (.cur 0) (.lit 21))
 .skip
 (.ite (.cmp .eq (.cur 0) (.lit 22))
 (.seq (.attrOff attrBold)
 (.attrOff attrDim))
 (.ite (.cmp .eq (.cur 0) (.lit 23))
 (.attrOff attrItalic)
 (.ite (.cmp .eq (.cur 0) (.lit 24))
 (.setUl underlineOff)
 (.ite (.cmp .eq (.cur 0) (.lit 25))
 (.attrOff attrBlink)
 (.ite (.cmp .eq (.cur 0) (.lit 27))
 (.attrOff attrReverse)
 (.ite (.cmp .eq (.cur 0) (.lit 28))
 (.attrOff attrInvisible)
 (.ite (.cmp .eq (.cur 0) (.lit 29))
 (.attrOff attrStrikethrough)
 (.ite (.or (.cmp .eq (.cur 0) (.lit 30)) (.or (.cmp .eq (.cur 0) (.lit 31)) (.or (.cmp .eq (.cur 0) (.lit 32)) (.or (.cmp .eq (.cur 0) (.lit 33)) (.or (.cmp .eq (.cur 0) (.lit 34)) (.or (.cmp .eq (.cur 0) (.lit 35)) (.or (.cmp .eq (.cur 0) (.lit 36)) (.cmp .eq (.cur 0) (.lit 37)))))))))
 (.setCol .fg (.index (.sub (.cur 0) (.lit 30))))
 (.ite (.cmp .eq (.cur 0) (.lit 38))
 (extStmt .fg)
 (.ite (.cmp .eq (.cur 0) (.lit 39))
 (.setCol .fg .zero)
 (.ite (.or (.cmp .eq (.cur 0) (.lit 40)) (.or (.cmp .eq (.cur 0) (.lit 41)) (.or (.cmp .eq (.cur 0) (.lit 42)) (.or (.cmp .eq (.cur 0) (.lit 43)) (.or (.cmp .eq (.cur 0) (.lit 44)) (.or (.cmp .eq (.cur 0) (.lit 45)) (.or (.cmp .eq (.cur 0) (.lit 46)) (.cmp .eq (.cur 0) (.lit 47)))))))))
 (.setCol .bg (.index (.sub (.cur 0) (.lit 40))))
 (.ite (.cmp .eq (.cur 0) (.lit 48))
 (extStmt .bg)
 (.ite (.cmp .eq (.cur 0) (.lit 49))
 (.setCol .bg .zero)
 (.ite (.cmp .eq (.cur 0) (.lit 58))
 (extStmt .ul)
 (.ite (.cmp .eq (.cur 0) (.lit 59))
 (.setCol .ul .zero)
 (.ite (.or (.cmp .eq (.cur 0) (.lit 90)) (.or (.cmp .eq (.cur 0) (.lit 91)) (.or (.cmp .eq (.cur 0) (.lit 92)) (.or (.cmp .eq (.cur 0) (.lit 93)) (.or (.cmp .eq (.cur 0) (.lit 94)) (.or (.cmp .eq (.cur 0) (.lit 95)) (.or (.cmp .eq (.cur 0) (.lit 96)) (.cmp .eq (.cur 0) (.lit 97)))))))))
 (.setCol .fg (.index (.add (.sub (.cur 0) (.lit 90)) (.lit 8))))
 (.ite (.or (.cmp .eq (.cur 0) (.lit 100)) (.or (.cmp .eq (.cur 0) (.lit 101)) (.or (.cmp .eq (.cur 0) (.lit 102)) (.or (.cmp .eq (.cur 0) (.lit 103)) (.or (.cmp .eq (.cur 0) (.lit 104)) (.or (.cmp .eq (.cur 0) (.lit 105)) (.or (.cmp .eq (.cur 0) (.lit 106)) (.cmp .eq (.cur 0) (.lit 107)))))))))
 (.setCol .bg (.index (.add (.sub (.cur 0) (.lit 100)) (.lit 8))))
 .skip)))))))))))))))))))))))))))

theorem sgrBody_folded : sgrBody = sgrFolded := rfl

theorem len3_ne1 (n : Nat) : (1 + ((n : Int) + 1 + 1) = 1) = False := eq_false (by omega)
theorem len3_ne2 (n : Nat) : (1 + ((n : Int) + 1 + 1) = 2) = False := eq_false (by omega)

theorem sgrOne_4_long (st : EStyle) (k k2 : Int) (more : List Int) (rest : List Param) :
    sgrOne st (4, k :: k2 :: more) rest = .ok (some (st, 0)) := by
  have hl : Param.len (4, k :: k2 :: more) = more.length + 3 := by
    simp only [Param.len, List.length_cons]; omega
  simp only [sgrOne]
  rw [hl]
  simp

set_option maxHeartbeats 400000 in
/-- One iteration of the loop of sgr() is the model's `sgrOne`. -/
theorem sgr_iter (pm : List Param) (s : Frame) (p : Param) (rest : List Param) :
    evalS pm sgrBody { s with curP := p, restP := rest, skip := 0 } = iterResult s p rest (sgrOne s.e.cur.st p rest) := by
  obtain ⟨n, subs⟩ := p
  rw [sgrBody_folded]
  by_cases h0 : n = 0
  · subst h0; simp [sgrFolded, iterResult, evalS, evalCond, evalEx, evalCmp, sgrOne, setPenCol, underlineOff, underlineSingle, underlineDouble, underlineCurly, underlineDotted, underlineDashed, ext_eval, toCS, Param.len, Param.get, condOkS, exOkS, one_add_pos, ok_bind, err_bind, bind_assoc']
  by_cases h1 : n = 1
  · subst h1; simp [sgrFolded, iterResult, evalS, evalCond, evalEx, evalCmp, sgrOne, setPenCol, underlineOff, underlineSingle, underlineDouble, underlineCurly, underlineDotted, underlineDashed, ext_eval, toCS, Param.len, Param.get, condOkS, exOkS, one_add_pos, ok_bind, err_bind, bind_assoc']
  by_cases h2 : n = 2
  · subst h2; simp [sgrFolded, iterResult, evalS, evalCond, evalEx, evalCmp, sgrOne, setPenCol, underlineOff, underlineSingle, underlineDouble, underlineCurly, underlineDotted, underlineDashed, ext_eval, toCS, Param.len, Param.get, condOkS, exOkS, one_add_pos, ok_bind, err_bind, bind_assoc']
  by_cases h3 : n = 3
  · subst h3; simp [sgrFolded, iterResult, evalS, evalCond, evalEx, evalCmp, sgrOne, setPenCol, underlineOff, underlineSingle, underlineDouble, underlineCurly, underlineDotted, underlineDashed, ext_eval, toCS, Param.len, Param.get, condOkS, exOkS, one_add_pos, ok_bind, err_bind, bind_assoc']
  by_cases h4 : n = 4
  · subst h4
    rcases subs with _ | ⟨k, _ | ⟨k2, more⟩⟩
    · simp [sgrFolded, iterResult, evalS, evalCond, evalEx, evalCmp, sgrOne, setPenCol, underlineOff, underlineSingle, underlineDouble, underlineCurly, underlineDotted, underlineDashed, ext_eval, toCS, Param.len, Param.get, condOkS, exOkS, one_add_pos, ok_bind, err_bind, bind_assoc']
    · by_cases k0 : k = 0
      · subst k0; simp [sgrFolded, iterResult, evalS, evalCond, evalEx, evalCmp, sgrOne, setPenCol, underlineOff, underlineSingle, underlineDouble, underlineCurly, underlineDotted, underlineDashed, ext_eval, toCS, Param.len, Param.get, condOkS, exOkS, one_add_pos, ok_bind, err_bind, bind_assoc']
      by_cases k1 : k = 1
      · subst k1; simp [sgrFolded, iterResult, evalS, evalCond, evalEx, evalCmp, sgrOne, setPenCol, underlineOff, underlineSingle, underlineDouble, underlineCurly, underlineDotted, underlineDashed, ext_eval, toCS, Param.len, Param.get, condOkS, exOkS, one_add_pos, ok_bind, err_bind, bind_assoc']
      by_cases k2 : k = 2
      · subst k2; simp [sgrFolded, iterResult, evalS, evalCond, evalEx, evalCmp, sgrOne, setPenCol, underlineOff, underlineSingle, underlineDouble, underlineCurly, underlineDotted, underlineDashed, ext_eval, toCS, Param.len, Param.get, condOkS, exOkS, one_add_pos, ok_bind, err_bind, bind_assoc']
      by_cases k3 : k = 3
      · subst k3; simp [sgrFolded, iterResult, evalS, evalCond, evalEx, evalCmp, sgrOne, setPenCol, underlineOff, underlineSingle, underlineDouble, underlineCurly, underlineDotted, underlineDashed, ext_eval, toCS, Param.len, Param.get, condOkS, exOkS, one_add_pos, ok_bind, err_bind, bind_assoc']
      by_cases k4 : k = 4
      · subst k4; simp [sgrFolded, iterResult, evalS, evalCond, evalEx, evalCmp, sgrOne, setPenCol, underlineOff, underlineSingle, underlineDouble, underlineCurly, underlineDotted, underlineDashed, ext_eval, toCS, Param.len, Param.get, condOkS, exOkS, one_add_pos, ok_bind, err_bind, bind_assoc']
      by_cases k5 : k = 5
      · subst k5; simp [sgrFolded, iterResult, evalS, evalCond, evalEx, evalCmp, sgrOne, setPenCol, underlineOff, underlineSingle, underlineDouble, underlineCurly, underlineDotted, underlineDashed, ext_eval, toCS, Param.len, Param.get, condOkS, exOkS, one_add_pos, ok_bind, err_bind, bind_assoc']
      simp [k0, k1, k2, k3, k4, k5, sgrFolded, iterResult, evalS, evalCond, evalEx, evalCmp, sgrOne, setPenCol, underlineOff, underlineSingle, underlineDouble, underlineCurly, underlineDotted, underlineDashed, ext_eval, toCS, Param.len, Param.get, condOkS, exOkS, one_add_pos, ok_bind, err_bind, bind_assoc']
    · rw [sgrOne_4_long]
      simp [len3_ne1, len3_ne2, sgrFolded, iterResult, evalS, evalCond, evalEx, evalCmp, Param.len]
  by_cases h5 : n = 5
  · subst h5; simp [sgrFolded, iterResult, evalS, evalCond, evalEx, evalCmp, sgrOne, setPenCol, underlineOff, underlineSingle, underlineDouble, underlineCurly, underlineDotted, underlineDashed, ext_eval, toCS, Param.len, Param.get, condOkS, exOkS, one_add_pos, ok_bind, err_bind, bind_assoc']
  by_cases h7 : n = 7
  · subst h7; simp [sgrFolded, iterResult, evalS, evalCond, evalEx, evalCmp, sgrOne, setPenCol, underlineOff, underlineSingle, underlineDouble, underlineCurly, underlineDotted, underlineDashed, ext_eval, toCS, Param.len, Param.get, condOkS, exOkS, one_add_pos, ok_bind, err_bind, bind_assoc']
  by_cases h8 : n = 8
  · subst h8; simp [sgrFolded, iterResult, evalS, evalCond, evalEx, evalCmp, sgrOne, setPenCol, underlineOff, underlineSingle, underlineDouble, underlineCurly, underlineDotted, underlineDashed, ext_eval, toCS, Param.len, Param.get, condOkS, exOkS, one_add_pos, ok_bind, err_bind, bind_assoc']
  by_cases h9 : n = 9
  · subst h9; simp [sgrFolded, iterResult, evalS, evalCond, evalEx, evalCmp, sgrOne, setPenCol, underlineOff, underlineSingle, underlineDouble, underlineCurly, underlineDotted, underlineDashed, ext_eval, toCS, Param.len, Param.get, condOkS, exOkS, one_add_pos, ok_bind, err_bind, bind_assoc']
  by_cases h21 : n = 21
  · subst h21; simp [sgrFolded, iterResult, evalS, evalCond, evalEx, evalCmp, sgrOne, setPenCol, underlineOff, underlineSingle, underlineDouble, underlineCurly, underlineDotted, underlineDashed, ext_eval, toCS, Param.len, Param.get, condOkS, exOkS, one_add_pos, ok_bind, err_bind, bind_assoc']
  by_cases h22 : n = 22
  · subst h22; simp [sgrFolded, iterResult, evalS, evalCond, evalEx, evalCmp, sgrOne, setPenCol, underlineOff, underlineSingle, underlineDouble, underlineCurly, underlineDotted, underlineDashed, ext_eval, toCS, Param.len, Param.get, condOkS, exOkS, one_add_pos, ok_bind, err_bind, bind_assoc']
  by_cases h23 : n = 23
  · subst h23; simp [sgrFolded, iterResult, evalS, evalCond, evalEx, evalCmp, sgrOne, setPenCol, underlineOff, underlineSingle, underlineDouble, underlineCurly, underlineDotted, underlineDashed, ext_eval, toCS, Param.len, Param.get, condOkS, exOkS, one_add_pos, ok_bind, err_bind, bind_assoc']
  by_cases h24 : n = 24
  · subst h24; simp [sgrFolded, iterResult, evalS, evalCond, evalEx, evalCmp, sgrOne, setPenCol, underlineOff, underlineSingle, underlineDouble, underlineCurly, underlineDotted, underlineDashed, ext_eval, toCS, Param.len, Param.get, condOkS, exOkS, one_add_pos, ok_bind, err_bind, bind_assoc']
  by_cases h25 : n = 25
  · subst h25; simp [sgrFolded, iterResult, evalS, evalCond, evalEx, evalCmp, sgrOne, setPenCol, underlineOff, underlineSingle, underlineDouble, underlineCurly, underlineDotted, underlineDashed, ext_eval, toCS, Param.len, Param.get, condOkS, exOkS, one_add_pos, ok_bind, err_bind, bind_assoc']
  by_cases h27 : n = 27
  · subst h27; simp [sgrFolded, iterResult, evalS, evalCond, evalEx, evalCmp, sgrOne, setPenCol, underlineOff, underlineSingle, underlineDouble, underlineCurly, underlineDotted, underlineDashed, ext_eval, toCS, Param.len, Param.get, condOkS, exOkS, one_add_pos, ok_bind, err_bind, bind_assoc']
  by_cases h28 : n = 28
  · subst h28; simp [sgrFolded, iterResult, evalS, evalCond, evalEx, evalCmp, sgrOne, setPenCol, underlineOff, underlineSingle, underlineDouble, underlineCurly, underlineDotted, underlineDashed, ext_eval, toCS, Param.len, Param.get, condOkS, exOkS, one_add_pos, ok_bind, err_bind, bind_assoc']
  by_cases h29 : n = 29
  · subst h29; simp [sgrFolded, iterResult, evalS, evalCond, evalEx, evalCmp, sgrOne, setPenCol, underlineOff, underlineSingle, underlineDouble, underlineCurly, underlineDotted, underlineDashed, ext_eval, toCS, Param.len, Param.get, condOkS, exOkS, one_add_pos, ok_bind, err_bind, bind_assoc']
  by_cases h30 : n = 30
  · subst h30; simp [sgrFolded, iterResult, evalS, evalCond, evalEx, evalCmp, sgrOne, setPenCol, underlineOff, underlineSingle, underlineDouble, underlineCurly, underlineDotted, underlineDashed, ext_eval, toCS, Param.len, Param.get, condOkS, exOkS, one_add_pos, ok_bind, err_bind, bind_assoc']
  by_cases h31 : n = 31
  · subst h31; simp [sgrFolded, iterResult, evalS, evalCond, evalEx, evalCmp, sgrOne, setPenCol, underlineOff, underlineSingle, underlineDouble, underlineCurly, underlineDotted, underlineDashed, ext_eval, toCS, Param.len, Param.get, condOkS, exOkS, one_add_pos, ok_bind, err_bind, bind_assoc']
  by_cases h32 : n = 32
  · subst h32; simp [sgrFolded, iterResult, evalS, evalCond, evalEx, evalCmp, sgrOne, setPenCol, underlineOff, underlineSingle, underlineDouble, underlineCurly, underlineDotted, underlineDashed, ext_eval, toCS, Param.len, Param.get, condOkS, exOkS, one_add_pos, ok_bind, err_bind, bind_assoc']
  by_cases h33 : n = 33
  · subst h33; simp [sgrFolded, iterResult, evalS, evalCond, evalEx, evalCmp, sgrOne, setPenCol, underlineOff, underlineSingle, underlineDouble, underlineCurly, underlineDotted, underlineDashed, ext_eval, toCS, Param.len, Param.get, condOkS, exOkS, one_add_pos, ok_bind, err_bind, bind_assoc']
  by_cases h34 : n = 34
  · subst h34; simp [sgrFolded, iterResult, evalS, evalCond, evalEx, evalCmp, sgrOne, setPenCol, underlineOff, underlineSingle, underlineDouble, underlineCurly, underlineDotted, underlineDashed, ext_eval, toCS, Param.len, Param.get, condOkS, exOkS, one_add_pos, ok_bind, err_bind, bind_assoc']
  by_cases h35 : n = 35
  · subst h35; simp [sgrFolded, iterResult, evalS, evalCond, evalEx, evalCmp, sgrOne, setPenCol, underlineOff, underlineSingle, underlineDouble, underlineCurly, underlineDotted, underlineDashed, ext_eval, toCS, Param.len, Param.get, condOkS, exOkS, one_add_pos, ok_bind, err_bind, bind_assoc']
  by_cases h36 : n = 36
  · subst h36; simp [sgrFolded, iterResult, evalS, evalCond, evalEx, evalCmp, sgrOne, setPenCol, underlineOff, underlineSingle, underlineDouble, underlineCurly, underlineDotted, underlineDashed, ext_eval, toCS, Param.len, Param.get, condOkS, exOkS, one_add_pos, ok_bind, err_bind, bind_assoc']
  by_cases h37 : n = 37
  · subst h37; simp [sgrFolded, iterResult, evalS, evalCond, evalEx, evalCmp, sgrOne, setPenCol, underlineOff, underlineSingle, underlineDouble, underlineCurly, underlineDotted, underlineDashed, ext_eval, toCS, Param.len, Param.get, condOkS, exOkS, one_add_pos, ok_bind, err_bind, bind_assoc']
  by_cases h38 : n = 38
  · subst h38; simp [sgrFolded, iterResult, evalS, evalCond, evalEx, evalCmp, sgrOne, setPenCol, underlineOff, underlineSingle, underlineDouble, underlineCurly, underlineDotted, underlineDashed, ext_eval, toCS, Param.len, Param.get, condOkS, exOkS, one_add_pos, ok_bind, err_bind, bind_assoc']
  by_cases h39 : n = 39
  · subst h39; simp [sgrFolded, iterResult, evalS, evalCond, evalEx, evalCmp, sgrOne, setPenCol, underlineOff, underlineSingle, underlineDouble, underlineCurly, underlineDotted, underlineDashed, ext_eval, toCS, Param.len, Param.get, condOkS, exOkS, one_add_pos, ok_bind, err_bind, bind_assoc']
  by_cases h40 : n = 40
  · subst h40; simp [sgrFolded, iterResult, evalS, evalCond, evalEx, evalCmp, sgrOne, setPenCol, underlineOff, underlineSingle, underlineDouble, underlineCurly, underlineDotted, underlineDashed, ext_eval, toCS, Param.len, Param.get, condOkS, exOkS, one_add_pos, ok_bind, err_bind, bind_assoc']
  by_cases h41 : n = 41
  · subst h41; simp [sgrFolded, iterResult, evalS, evalCond, evalEx, evalCmp, sgrOne, setPenCol, underlineOff, underlineSingle, underlineDouble, underlineCurly, underlineDotted, underlineDashed, ext_eval, toCS, Param.len, Param.get, condOkS, exOkS, one_add_pos, ok_bind, err_bind, bind_assoc']
  by_cases h42 : n = 42
  · subst h42; simp [sgrFolded, iterResult, evalS, evalCond, evalEx, evalCmp, sgrOne, setPenCol, underlineOff, underlineSingle, underlineDouble, underlineCurly, underlineDotted, underlineDashed, ext_eval, toCS, Param.len, Param.get, condOkS, exOkS, one_add_pos, ok_bind, err_bind, bind_assoc']
  by_cases h43 : n = 43
  · subst h43; simp [sgrFolded, iterResult, evalS, evalCond, evalEx, evalCmp, sgrOne, setPenCol, underlineOff, underlineSingle, underlineDouble, underlineCurly, underlineDotted, underlineDashed, ext_eval, toCS, Param.len, Param.get, condOkS, exOkS, one_add_pos, ok_bind, err_bind, bind_assoc']
  by_cases h44 : n = 44
  · subst h44; simp [sgrFolded, iterResult, evalS, evalCond, evalEx, evalCmp, sgrOne, setPenCol, underlineOff, underlineSingle, underlineDouble, underlineCurly, underlineDotted, underlineDashed, ext_eval, toCS, Param.len, Param.get, condOkS, exOkS, one_add_pos, ok_bind, err_bind, bind_assoc']
  by_cases h45 : n = 45
  · subst h45; simp [sgrFolded, iterResult, evalS, evalCond, evalEx, evalCmp, sgrOne, setPenCol, underlineOff, underlineSingle, underlineDouble, underlineCurly, underlineDotted, underlineDashed, ext_eval, toCS, Param.len, Param.get, condOkS, exOkS, one_add_pos, ok_bind, err_bind, bind_assoc']
  by_cases h46 : n = 46
  · subst h46; simp [sgrFolded, iterResult, evalS, evalCond, evalEx, evalCmp, sgrOne, setPenCol, underlineOff, underlineSingle, underlineDouble, underlineCurly, underlineDotted, underlineDashed, ext_eval, toCS, Param.len, Param.get, condOkS, exOkS, one_add_pos, ok_bind, err_bind, bind_assoc']
  by_cases h47 : n = 47
  · subst h47; simp [sgrFolded, iterResult, evalS, evalCond, evalEx, evalCmp, sgrOne, setPenCol, underlineOff, underlineSingle, underlineDouble, underlineCurly, underlineDotted, underlineDashed, ext_eval, toCS, Param.len, Param.get, condOkS, exOkS, one_add_pos, ok_bind, err_bind, bind_assoc']
  by_cases h48 : n = 48
  · subst h48; simp [sgrFolded, iterResult, evalS, evalCond, evalEx, evalCmp, sgrOne, setPenCol, underlineOff, underlineSingle, underlineDouble, underlineCurly, underlineDotted, underlineDashed, ext_eval, toCS, Param.len, Param.get, condOkS, exOkS, one_add_pos, ok_bind, err_bind, bind_assoc']
  by_cases h49 : n = 49
  · subst h49; simp [sgrFolded, iterResult, evalS, evalCond, evalEx, evalCmp, sgrOne, setPenCol, underlineOff, underlineSingle, underlineDouble, underlineCurly, underlineDotted, underlineDashed, ext_eval, toCS, Param.len, Param.get, condOkS, exOkS, one_add_pos, ok_bind, err_bind, bind_assoc']
  by_cases h58 : n = 58
  · subst h58; simp [sgrFolded, iterResult, evalS, evalCond, evalEx, evalCmp, sgrOne, setPenCol, underlineOff, underlineSingle, underlineDouble, underlineCurly, underlineDotted, underlineDashed, ext_eval, toCS, Param.len, Param.get, condOkS, exOkS, one_add_pos, ok_bind, err_bind, bind_assoc']
  by_cases h59 : n = 59
  · subst h59; simp [sgrFolded, iterResult, evalS, evalCond, evalEx, evalCmp, sgrOne, setPenCol, underlineOff, underlineSingle, underlineDouble, underlineCurly, underlineDotted, underlineDashed, ext_eval, toCS, Param.len, Param.get, condOkS, exOkS, one_add_pos, ok_bind, err_bind, bind_assoc']
  by_cases h90 : n = 90
  · subst h90; simp [sgrFolded, iterResult, evalS, evalCond, evalEx, evalCmp, sgrOne, setPenCol, underlineOff, underlineSingle, underlineDouble, underlineCurly, underlineDotted, underlineDashed, ext_eval, toCS, Param.len, Param.get, condOkS, exOkS, one_add_pos, ok_bind, err_bind, bind_assoc']
  by_cases h91 : n = 91
  · subst h91; simp [sgrFolded, iterResult, evalS, evalCond, evalEx, evalCmp, sgrOne, setPenCol, underlineOff, underlineSingle, underlineDouble, underlineCurly, underlineDotted, underlineDashed, ext_eval, toCS, Param.len, Param.get, condOkS, exOkS, one_add_pos, ok_bind, err_bind, bind_assoc']
  by_cases h92 : n = 92
  · subst h92; simp [sgrFolded, iterResult, evalS, evalCond, evalEx, evalCmp, sgrOne, setPenCol, underlineOff, underlineSingle, underlineDouble, underlineCurly, underlineDotted, underlineDashed, ext_eval, toCS, Param.len, Param.get, condOkS, exOkS, one_add_pos, ok_bind, err_bind, bind_assoc']
  by_cases h93 : n = 93
  · subst h93; simp [sgrFolded, iterResult, evalS, evalCond, evalEx, evalCmp, sgrOne, setPenCol, underlineOff, underlineSingle, underlineDouble, underlineCurly, underlineDotted, underlineDashed, ext_eval, toCS, Param.len, Param.get, condOkS, exOkS, one_add_pos, ok_bind, err_bind, bind_assoc']
  by_cases h94 : n = 94
  · subst h94; simp [sgrFolded, iterResult, evalS, evalCond, evalEx, evalCmp, sgrOne, setPenCol, underlineOff, underlineSingle, underlineDouble, underlineCurly, underlineDotted, underlineDashed, ext_eval, toCS, Param.len, Param.get, condOkS, exOkS, one_add_pos, ok_bind, err_bind, bind_assoc']
  by_cases h95 : n = 95
  · subst h95; simp [sgrFolded, iterResult, evalS, evalCond, evalEx, evalCmp, sgrOne, setPenCol, underlineOff, underlineSingle, underlineDouble, underlineCurly, underlineDotted, underlineDashed, ext_eval, toCS, Param.len, Param.get, condOkS, exOkS, one_add_pos, ok_bind, err_bind, bind_assoc']
  by_cases h96 : n = 96
  · subst h96; simp [sgrFolded, iterResult, evalS, evalCond, evalEx, evalCmp, sgrOne, setPenCol, underlineOff, underlineSingle, underlineDouble, underlineCurly, underlineDotted, underlineDashed, ext_eval, toCS, Param.len, Param.get, condOkS, exOkS, one_add_pos, ok_bind, err_bind, bind_assoc']
  by_cases h97 : n = 97
  · subst h97; simp [sgrFolded, iterResult, evalS, evalCond, evalEx, evalCmp, sgrOne, setPenCol, underlineOff, underlineSingle, underlineDouble, underlineCurly, underlineDotted, underlineDashed, ext_eval, toCS, Param.len, Param.get, condOkS, exOkS, one_add_pos, ok_bind, err_bind, bind_assoc']
  by_cases h100 : n = 100
  · subst h100; simp [sgrFolded, iterResult, evalS, evalCond, evalEx, evalCmp, sgrOne, setPenCol, underlineOff, underlineSingle, underlineDouble, underlineCurly, underlineDotted, underlineDashed, ext_eval, toCS, Param.len, Param.get, condOkS, exOkS, one_add_pos, ok_bind, err_bind, bind_assoc']
  by_cases h101 : n = 101
  · subst h101; simp [sgrFolded, iterResult, evalS, evalCond, evalEx, evalCmp, sgrOne, setPenCol, underlineOff, underlineSingle, underlineDouble, underlineCurly, underlineDotted, underlineDashed, ext_eval, toCS, Param.len, Param.get, condOkS, exOkS, one_add_pos, ok_bind, err_bind, bind_assoc']
  by_cases h102 : n = 102
  · subst h102; simp [sgrFolded, iterResult, evalS, evalCond, evalEx, evalCmp, sgrOne, setPenCol, underlineOff, underlineSingle, underlineDouble, underlineCurly, underlineDotted, underlineDashed, ext_eval, toCS, Param.len, Param.get, condOkS, exOkS, one_add_pos, ok_bind, err_bind, bind_assoc']
  by_cases h103 : n = 103
  · subst h103; simp [sgrFolded, iterResult, evalS, evalCond, evalEx, evalCmp, sgrOne, setPenCol, underlineOff, underlineSingle, underlineDouble, underlineCurly, underlineDotted, underlineDashed, ext_eval, toCS, Param.len, Param.get, condOkS, exOkS, one_add_pos, ok_bind, err_bind, bind_assoc']
  by_cases h104 : n = 104
  · subst h104; simp [sgrFolded, iterResult, evalS, evalCond, evalEx, evalCmp, sgrOne, setPenCol, underlineOff, underlineSingle, underlineDouble, underlineCurly, underlineDotted, underlineDashed, ext_eval, toCS, Param.len, Param.get, condOkS, exOkS, one_add_pos, ok_bind, err_bind, bind_assoc']
  by_cases h105 : n = 105
  · subst h105; simp [sgrFolded, iterResult, evalS, evalCond, evalEx, evalCmp, sgrOne, setPenCol, underlineOff, underlineSingle, underlineDouble, underlineCurly, underlineDotted, underlineDashed, ext_eval, toCS, Param.len, Param.get, condOkS, exOkS, one_add_pos, ok_bind, err_bind, bind_assoc']
  by_cases h106 : n = 106
  · subst h106; simp [sgrFolded, iterResult, evalS, evalCond, evalEx, evalCmp, sgrOne, setPenCol, underlineOff, underlineSingle, underlineDouble, underlineCurly, underlineDotted, underlineDashed, ext_eval, toCS, Param.len, Param.get, condOkS, exOkS, one_add_pos, ok_bind, err_bind, bind_assoc']
  by_cases h107 : n = 107
  · subst h107; simp [sgrFolded, iterResult, evalS, evalCond, evalEx, evalCmp, sgrOne, setPenCol, underlineOff, underlineSingle, underlineDouble, underlineCurly, underlineDotted, underlineDashed, ext_eval, toCS, Param.len, Param.get, condOkS, exOkS, one_add_pos, ok_bind, err_bind, bind_assoc']
  have r1 : ¬ (30 ≤ n ∧ n ≤ 37) := by omega
  have r2 : ¬ (40 ≤ n ∧ n ≤ 47) := by omega
  have r3 : ¬ (90 ≤ n ∧ n ≤ 97) := by omega
  have r4 : ¬ (100 ≤ n ∧ n ≤ 107) := by omega
  simp [r1, r2, r3, r4, h0, h1, h2, h3, h4, h5, h7, h8, h9, h21, h22, h23, h24, h25, h27, h28, h29, h30, h31, h32, h33, h34, h35, h36, h37, h38, h39, h40, h41, h42, h43, h44, h45, h46, h47, h48, h49, h58, h59, h90, h91, h92, h93, h94, h95, h96, h97, h100, h101, h102, h103, h104, h105, h106, h107, sgrFolded, iterResult, evalS, evalCond, evalEx, evalCmp, sgrOne, setPenCol, underlineOff, underlineSingle, underlineDouble, underlineCurly, underlineDotted, underlineDashed, ext_eval, toCS, Param.len, Param.get, condOkS, exOkS, one_add_pos, ok_bind, err_bind, bind_assoc']

end VaxisModel.Lemmas.EmuBody

namespace VaxisModel.Lemmas.EmuBody
open VaxisModel.Model.Emu VaxisModel.Model.EmuBody VaxisModel.Lemmas.Emu VaxisModel.Gen VaxisModel.Gen.TermModes

/-- The walk over the parameter list is the model's `sgrLoop`. -/
theorem sgr_walk_gen (body : Param → List Param → Frame → M (Frame × Sig))
    (hb : ∀ p rest s, body p rest s = iterResult s p rest (sgrOne s.e.cur.st p rest)) :
    ∀ (fuel : Nat) (l : List Param) (s : Frame),
    (sgrWalk body fuel l s >>= fun s' => .ok s'.e) =
      (sgrLoop fuel s.e.cur.st l >>= fun st => (.ok { s.e with cur := { s.e.cur with st := st } } : M Emu)) := by
  intro fuel
  induction fuel with
  | zero => intro l s; cases l <;> rfl
  | succ fuel ih =>
    intro l s
    cases l with
    | nil => rfl
    | cons p rest =>
      simp only [sgrWalk, sgrLoop, hb, bind_assoc']
      cases hq : sgrOne s.e.cur.st p rest with
      | error x => rfl
      | ok o =>
        cases o with
        | none => rfl
        | some r =>
          obtain ⟨st', k⟩ := r
          simp only [iterResult, ok_bind, reduceCtorEq, or_self, if_false]
          exact ih (rest.drop k) _

theorem sgr_walk (pm : List Param) : ∀ (fuel : Nat) (l : List Param) (s : Frame),
    (sgrWalk (fun p rest s => evalS pm sgrBody { s with curP := p, restP := rest, skip := 0 }) fuel l s >>= fun s' => .ok s'.e) =
      (sgrLoop fuel s.e.cur.st l >>= fun st => (.ok { s.e with cur := { s.e.cur with st := st } } : M Emu)) :=
  sgr_walk_gen _ (fun p rest s => sgr_iter pm s p rest)

theorem body_sgr_eq (e : Emu) (pm : List Param) : evalBody TermBodies.body_sgr pm [] e = sgr e pm := by
  have hw := sgr_walk pm
  simp only [TermBodies.body_sgr, stmt_sgr_shape, evalBody, evalS, sgr, initFrame, ok_bind, bind_assoc', if_true]
  cases hp : pm.isEmpty
  · simp only [Bool.false_eq_true, if_false, Option.getD_none]
    exact hw (pm.length + 1) pm _
  · simp only [if_true, Option.getD_some]
    exact hw _ _ _

end VaxisModel.Lemmas.EmuBody
