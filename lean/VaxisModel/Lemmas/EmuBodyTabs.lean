/-
The loops over the tab stops (cht, cbt, tbc in csi.go; hts in esc.go): the translated loop, run by
`tabLoop`, computes what the list recursions `chtLoop` / `cbtLoop` / `List.filter` of Model/Emu.lean
compute — by induction over the tab-stop list, for every state.
-/
import VaxisModel.Lemmas.EmuBodyRow
namespace VaxisModel.Lemmas.EmuBody
open VaxisModel.Model.Emu VaxisModel.Model.EmuBody VaxisModel.Lemmas.Emu VaxisModel.Gen

/-- the counter `n` of cht() after the loop -/
def chtK (n : Int) : List Int → Int → Int → Int
  | [], _, k => k
  | ts :: rest, col, k =>
    if k = n then k
    else if col > ts then chtK n rest col k
    else chtK n rest ts (k + 1)

/-- the body of the loop of cht(), as translated -/
def chtBody : Stmt :=
  (.seq (.ite (.cmp .eq (.loc (.var 1)) (.loc (.var 0))) .brk .skip)
  (.seq (.ite (.cmp .gt (.loc .curCol) .tab) .cont .skip)
  (.seq (.assign .curCol .tab) (.assign (.var 1) (.add (.loc (.var 1)) (.lit 1))))))

theorem cht_loop (F : Int → Frame → M (Frame × Sig))
    (hF : ∀ (t : Int) (e : Emu) (vars : Nat → Int) (g : G) (c : ECell) (tb : Int) (ac : List Int),
      F t { e := e, vars := vars, g := g, cell := c, tab := tb, acc := ac } =
        if vars 1 = vars 0 then .ok ({ e := e, vars := vars, g := g, cell := c, tab := tb, acc := ac }, .brk)
        else if t < e.cur.col then .ok ({ e := e, vars := vars, g := g, cell := c, tab := tb, acc := ac }, .cont)
        else .ok ({ e := { e with cur := { e.cur with col := t } },
                    vars := fun j => if j = 1 then vars 1 + 1 else vars j, g := g, cell := c, tab := tb, acc := ac }, .norm))
    (tabs : List Int) : ∀ (e : Emu) (vars : Nat → Int) (g : G) (c : ECell) (tb : Int) (ac : List Int),
    tabLoop F tabs { e := e, vars := vars, g := g, cell := c, tab := tb, acc := ac } =
      .ok { e := { e with cur := { e.cur with col := chtLoop (vars 0) tabs e.cur.col (vars 1) } },
            vars := fun j => if j = 1 then chtK (vars 0) tabs e.cur.col (vars 1) else vars j,
            g := g, cell := c, tab := tb, acc := ac } := by
  induction tabs with
  | nil =>
    intro e vars g c tb ac
    simp only [tabLoop, chtLoop, chtK]
    congr 1
    congr 1
    funext j
    split <;> simp_all
  | cons t rest ih =>
    intro e vars g c tb ac
    simp only [tabLoop, hF, chtLoop, chtK]
    by_cases h1 : vars 1 = vars 0
    · simp only [h1, if_true, ok_bind]
      simp
      funext j
      split <;> simp_all
    · simp only [h1, if_false]
      by_cases h2 : t < e.cur.col
      · have h2' : e.cur.col > t := h2
        simp only [h2, h2', if_true, ok_bind, reduceCtorEq, or_self, if_false]
        exact ih e vars g c tb ac
      · have h2' : ¬ e.cur.col > t := h2
        simp only [h2, h2', if_false, ok_bind, reduceCtorEq, or_self]
        rw [ih]
        simp
        funext j
        split <;> simp_all

theorem body_cht_eq (e : Emu) (n : Int) : evalBody TermBodies.body_cht [] [n] e = .ok (cht Fixes.current e n) := by
  simp only [TermBodies.body_cht, TermBodies.stmt_cht, cht]
  body_norm
  split
  · rw [cht_loop _ (by intro t e vars g c tb ac; rfl)]
    simp only [ok_bind]
    body_fin
  · rw [cht_loop _ (by intro t e vars g c tb ac; rfl)]
    simp only [ok_bind]
    body_fin

/-- the counter `n` of cbt() after the loop -/
def cbtK (n : Int) : List Int → Int → Int → Int
  | [], _, k => k
  | ts :: rest, col, k =>
    if k = n then k
    else if col < ts then k
    else cbtK n rest ts (k + 1)

theorem cbt_loop (F : Int → Frame → M (Frame × Sig))
    (hF : ∀ (t : Int) (e : Emu) (vars : Nat → Int) (g : G) (c : ECell) (tb : Int) (ac : List Int),
      F t { e := e, vars := vars, g := g, cell := c, tab := tb, acc := ac } =
        if vars 1 = vars 0 then .ok ({ e := e, vars := vars, g := g, cell := c, tab := tb, acc := ac }, .brk)
        else if e.cur.col < t then .ok ({ e := e, vars := vars, g := g, cell := c, tab := tb, acc := ac }, .brk)
        else .ok ({ e := { e with cur := { e.cur with col := t } },
                    vars := fun j => if j = 1 then vars 1 + 1 else vars j, g := g, cell := c, tab := tb, acc := ac }, .norm))
    (tabs : List Int) : ∀ (e : Emu) (vars : Nat → Int) (g : G) (c : ECell) (tb : Int) (ac : List Int),
    tabLoop F tabs { e := e, vars := vars, g := g, cell := c, tab := tb, acc := ac } =
      .ok { e := { e with cur := { e.cur with col := cbtLoop (vars 0) tabs e.cur.col (vars 1) } },
            vars := fun j => if j = 1 then cbtK (vars 0) tabs e.cur.col (vars 1) else vars j,
            g := g, cell := c, tab := tb, acc := ac } := by
  induction tabs with
  | nil =>
    intro e vars g c tb ac
    simp only [tabLoop, cbtLoop, cbtK]
    congr 1
    congr 1
    funext j
    split <;> simp_all
  | cons t rest ih =>
    intro e vars g c tb ac
    simp only [tabLoop, hF, cbtLoop, cbtK]
    by_cases h1 : vars 1 = vars 0
    · simp only [h1, if_true, ok_bind]
      simp
      funext j
      split <;> simp_all
    · simp only [h1, if_false]
      by_cases h2 : e.cur.col < t
      · simp only [h2, if_true, ok_bind, reduceCtorEq, or_self, or_false, or_true]
        simp
        funext j
        split <;> simp_all
      · simp only [h2, if_false, ok_bind, reduceCtorEq, or_self]
        rw [ih]
        simp
        funext j
        split <;> simp_all

theorem body_cbt_eq (e : Emu) (n : Int) : evalBody TermBodies.body_cbt [] [n] e = .ok (cbt e n) := by
  simp only [TermBodies.body_cbt, TermBodies.stmt_cbt, cbt]
  body_norm
  split
  · rw [cbt_loop _ (by intro t e vars g c tb ac; rfl)]
    simp only [ok_bind]
    body_fin
  · rw [cbt_loop _ (by intro t e vars g c tb ac; rfl)]
    simp only [ok_bind]
    body_fin

theorem tbc_loop (F : Int → Frame → M (Frame × Sig))
    (hF : ∀ (t : Int) (e : Emu) (vars : Nat → Int) (g : G) (c : ECell) (tb : Int) (ac : List Int),
      F t { e := e, vars := vars, g := g, cell := c, tab := tb, acc := ac } =
        if t = e.cur.col then .ok ({ e := e, vars := vars, g := g, cell := c, tab := tb, acc := ac }, .cont)
        else .ok ({ e := e, vars := vars, g := g, cell := c, tab := tb, acc := ac ++ [t] }, .norm))
    (tabs : List Int) : ∀ (e : Emu) (vars : Nat → Int) (g : G) (c : ECell) (tb : Int) (ac : List Int),
    tabLoop F tabs { e := e, vars := vars, g := g, cell := c, tab := tb, acc := ac } =
      .ok { e := e, vars := vars, g := g, cell := c, tab := tb, acc := ac ++ tabs.filter (fun t => t ≠ e.cur.col) } := by
  induction tabs with
  | nil => intro e vars g c tb ac; simp [tabLoop]
  | cons t rest ih =>
    intro e vars g c tb ac
    simp only [tabLoop, hF]
    by_cases h : t = e.cur.col
    · simp only [h, if_true, ok_bind, reduceCtorEq, or_self, if_false]
      rw [ih]
      simp
    · simp only [h, if_false, ok_bind, reduceCtorEq, or_self]
      rw [ih]
      simp [h]

theorem body_tbc_eq (e : Emu) (n : Int) : evalBody TermBodies.body_tbc [] [n] e = .ok (tbc e n) := by
  simp only [TermBodies.body_tbc, TermBodies.stmt_tbc, tbc]
  body_norm
  split
  · rw [tbc_loop _ (by intro t e vars g c tb ac; rfl)]
    simp [ok_bind]
  · body_fin

theorem body_hts_eq (e : Emu) : evalBody TermBodies.body_hts [] [] e = .ok (hts e) := by
  simp only [TermBodies.body_hts, TermBodies.stmt_hts, hts]
  body_norm
end VaxisModel.Lemmas.EmuBody
