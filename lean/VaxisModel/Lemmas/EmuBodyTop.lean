/-
Round 4: the last hand-transcribed pieces of the dispatch path.
* The arms of csi() / esc() / c0() that only answer the child (DA1 `CSI c`, DA2 `CSI > c`, DSR `CSI n`), are empty (`CSI $ p`,
  `ESC # 8`) or post an event (BEL): a body made of `reply` / `skip` / branches leaves the frame alone (`replyOnly_eval`), whatever
  the reply text is; BEL posts exactly one event.
* The statements of csi() in front of its dispatch switch: `for _, param := range params { for i, p := range param { if p < 0 ||
  p > maxParam { param[i] = maxParam } } }` evaluates to `clampParams` for EVERY parameter list (sub-parameters included).
-/
import VaxisModel.Lemmas.EmuBody

namespace VaxisModel.Lemmas.EmuBody
open VaxisModel.Model.Emu VaxisModel.Model.EmuBody VaxisModel.Lemmas.Emu VaxisModel.Gen VaxisModel.Gen.TermModes

/-- only replies, empty statements and branches between them -/
def replyOnly : Stmt → Bool
  | .skip => true
  | .reply _ => true
  | .seq a b => replyOnly a && replyOnly b
  | .ite _ t f => replyOnly t && replyOnly f
  | _ => false

theorem replyOnly_eval (pm : List Param) (st : Stmt) : ∀ (s : Frame), replyOnly st = true → evalS pm st s = .ok (s, .norm) := by
  induction st with
  | skip => intro s _; simp [evalS]
  | reply r => intro s _; simp [evalS]
  | seq a b iha ihb =>
    intro s h
    simp only [replyOnly, Bool.and_eq_true] at h
    simp only [evalS, iha s h.1, ok_bind, if_true]
    exact ihb s h.2
  | ite c t f iht ihf =>
    intro s h
    simp only [replyOnly, Bool.and_eq_true] at h
    simp only [evalS]
    split
    · exact iht s h.1
    · exact ihf s h.2
  | _ => intro s h; simp [replyOnly] at h

theorem replyOnly_body (b : Body) (h : replyOnly b.stmt = true) (pm : List Param) (args : List Int) (e : Emu) :
    evalBody b pm args e = .ok e := by
  simp only [evalBody, replyOnly_eval pm b.stmt _ h, ok_bind, initFrame]

theorem body_csi_arm_63_eq (e : Emu) (pm : List Param) : evalBody TermBodies.body_csi_arm_63 pm [] e = .ok e :=
  replyOnly_body _ (by decide) pm [] e
theorem body_csi_arm_3e63_eq (e : Emu) (pm : List Param) : evalBody TermBodies.body_csi_arm_3e63 pm [] e = .ok e :=
  replyOnly_body _ (by decide) pm [] e
theorem body_csi_arm_6e_eq (e : Emu) (pm : List Param) : evalBody TermBodies.body_csi_arm_6e pm [] e = .ok e :=
  replyOnly_body _ (by decide) pm [] e
theorem body_csi_arm_2470_eq (e : Emu) (pm : List Param) : evalBody TermBodies.body_csi_arm_2470 pm [] e = .ok e :=
  replyOnly_body _ (by decide) pm [] e
theorem body_esc_arm_2338_eq (e : Emu) : evalBody TermBodies.body_esc_arm_2338 [] [] e = .ok e :=
  replyOnly_body _ (by decide) [] [] e

/-- BEL: the state is untouched and exactly one event is posted -/
theorem body_c0_arm_07_eq (e : Emu) : evalBodyEv TermBodies.body_c0_arm_07 [] [] e = .ok (e, 1) := by
  simp [TermBodies.body_c0_arm_07, TermBodies.stmt_c0_arm_07, evalBodyEv, evalS, initFrame, ok_bind]

theorem mapValsM_pure (f : Int → Int) : ∀ l : List Int, mapValsM (fun v => .ok (f v)) l = .ok (l.map f)
  | [] => rfl
  | v :: r => by simp only [mapValsM, ok_bind, mapValsM_pure f r, List.map]

theorem mapPmM_pure (f : Int → Int) : ∀ pm : List Param,
    mapPmM (fun v => .ok (f v)) pm = .ok (pm.map (fun p => (f p.1, p.2.map f)))
  | [] => rfl
  | p :: r => by simp only [mapPmM, ok_bind, mapValsM_pure f p.2, mapPmM_pure f r, List.map]

theorem mapPmM_eq (f : Int → M Int) (g : Int → Int) (h : ∀ v, f v = .ok (g v)) (pm : List Param) :
    mapPmM f pm = .ok (pm.map (fun p => (g p.1, p.2.map g))) := by
  have : f = fun v => .ok (g v) := funext h
  subst this; exact mapPmM_pure g pm

/-- a loop over all values whose body maps `p` to `g p` -/
theorem forPmAll_eval (pm : List Param) (body : Stmt) (g : Int → Int) (s : Frame)
    (h : ∀ v, (evalS pm body { s with pcur := v } >>= fun r => (Except.ok r.1.pcur : M Int)) = .ok (g v)) :
    evalS pm (.forPmAll body) s =
      .ok ({ s with pmOv := some ((s.pmOv.getD pm).map (fun p => (g p.1, p.2.map g))) }, .norm) := by
  simp only [evalS]
  rw [mapPmM_eq _ g h]
  rfl

/-- `if c { param[i] = x }` as the body of the loop over all values -/
theorem ite_setPcur_eval (pm : List Param) (c : Cond) (x : Ex) (s : Frame) :
    (evalS pm (.ite c (.setPcur x) .skip) s >>= fun r => (Except.ok r.1.pcur : M Int)) =
      .ok (if evalCond pm s [] c then evalEx pm s [] x else s.pcur) := by
  simp only [evalS]
  cases evalCond pm s [] c <;> rfl

/-- csi(): the statements in front of the dispatch switch clamp every value of the parameter list to 0..65535 — for EVERY list. -/
theorem body_csi_pre_eq (pm : List Param) : evalPm TermBodies.body_csi_pre pm = .ok (clampParams pm) := by
  simp only [evalPm, TermBodies.body_csi_pre, TermBodies.stmt_csi_pre]
  rw [forPmAll_eval pm _ clampParam]
  · simp [clampParams, ok_bind, initFrame]
  · intro v
    rw [ite_setPcur_eval]
    simp only [evalCond, evalCmp, evalEx, clampParam, maxParam]
    by_cases h0 : v < 0 <;> by_cases h1 : v > 65535 <;> simp [h0, h1]

end VaxisModel.Lemmas.EmuBody
