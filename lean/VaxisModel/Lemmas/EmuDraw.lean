/-
Helper lemmas for `Props/C05Draw.lean`: the loops of `Draw` on a well-formed grid, the window chain.
-/
import VaxisModel.Model.EmuDraw
import VaxisModel.Lemmas.EmuBasic
import VaxisModel.Lemmas.EmuSafe1

namespace VaxisModel.Lemmas.EmuDraw
open VaxisModel.Model.Emu VaxisModel.Model.EmuDraw VaxisModel.Lemmas.Emu

/-- The step of the inner loop. -/
def stepW (c : ECell) : Int := if c.w = 0 then 1 else (c.w : Int)

theorem stepW_pos (c : ECell) : 1 ≤ stepW c := by
  unfold stepW; split <;> omega

/-- The inner loop on a well-formed grid: no panic, no fuel exhaustion, every call is in the row
    and at a column in `col .. cols-1`. -/
theorem rowCalls_ok {g : Grid} {rows cols : Nat} (hg : GridOk g rows cols) (row : Int)
    (hr0 : 0 ≤ row) (hr1 : row < rows) :
    ∀ (fuel : Nat) (col : Int), 0 ≤ col → (cols : Int) - col ≤ fuel →
      ∃ l, rowCalls g cols row fuel col = .ok l ∧
        ∀ c ∈ l, col ≤ c.col ∧ c.col < cols ∧ c.row = row := by
  intro fuel
  induction fuel with
  | zero =>
    intro col _ h2
    have : ¬ col < (cols : Int) := by omega
    exact ⟨[], by simp only [rowCalls, this, if_false], by simp⟩
  | succ n ih =>
    intro col h1 h2
    by_cases hc : col < (cols : Int)
    · obtain ⟨line, hline, hmem⟩ := getI_ok g row hr0 (by rw [hg.len]; exact hr1)
      have hlen := hg.rowLen _ hmem
      obtain ⟨cell, hcell, _⟩ := getI_ok line col h1 (by rw [hlen]; exact hc)
      have hw : 1 ≤ (if cell.w = 0 then (1 : Int) else (cell.w : Int)) := stepW_pos cell
      obtain ⟨rest, hrest, hb⟩ := ih (col + (if cell.w = 0 then (1 : Int) else (cell.w : Int))) (by omega) (by omega)
      refine ⟨{ col := col, row := row, cell := drawnCell cell } :: rest,
        by simp only [rowCalls, hc, if_true, hline, hcell, bind, Except.bind, hrest], ?_⟩
      intro c hcm
      rcases List.mem_cons.mp hcm with h | h
      · subst h; exact ⟨by simp, hc, rfl⟩
      · have := hb c h; exact ⟨by omega, this.2.1, this.2.2⟩
    · exact ⟨[], by simp only [rowCalls, hc, if_false], by simp⟩

/-- The outer loop. -/
theorem allRows_ok {g : Grid} {rows cols : Nat} (hg : GridOk g rows cols) :
    ∀ (n : Nat) (row : Int), 0 ≤ row → row + n ≤ rows →
      ∃ l, allRows g cols n row = .ok l ∧
        ∀ c ∈ l, 0 ≤ c.col ∧ c.col < cols ∧ row ≤ c.row ∧ c.row < row + n := by
  intro n
  induction n with
  | zero => intro row _ _; exact ⟨[], rfl, by simp⟩
  | succ n ih =>
    intro row h1 h2
    obtain ⟨a, ha, hab⟩ := rowCalls_ok hg row h1 (by omega) (cols : Int).toNat 0 (by omega) (by omega)
    obtain ⟨b, hb, hbb⟩ := ih (row + 1) (by omega) (by omega)
    refine ⟨a ++ b, by simp only [allRows, ha, hb, bind, Except.bind], ?_⟩
    intro c hc
    rcases List.mem_append.mp hc with h | h
    · have := hab c h; exact ⟨this.1, this.2.1, by omega, by omega⟩
    · have := hbb c h; exact ⟨this.1, this.2.1, by omega, by omega⟩

theorem drawCalls_ok {e : Emu} {rows cols : Nat} (h : EmuInv e rows cols) (hr : 1 ≤ rows) :
    ∃ l, drawCalls e = .ok l ∧
      ∀ c ∈ l, 0 ≤ c.col ∧ c.col < cols ∧ 0 ≤ c.row ∧ c.row < rows := by
  unfold drawCalls
  rw [width_eq h hr, height_eq h]
  obtain ⟨l, hl, hb⟩ := allRows_ok (active_ok h) (rows : Int).toNat 0 (by omega) (by omega)
  refine ⟨l, hl, ?_⟩
  intro c hc
  have := hb c hc
  exact ⟨this.1, this.2.1, this.2.2.1, by omega⟩

theorem shownCursor_ok {e : Emu} {rows cols : Nat} (h : EmuInv e rows cols) (hc : 1 ≤ cols) (focused : Bool) :
    ∀ p, shownCursor true e focused = some p → 0 ≤ p.1 ∧ p.1 < cols ∧ 0 ≤ p.2 ∧ p.2 < rows := by
  intro p hp
  unfold shownCursor at hp
  have h1 := h.colLo; have h2 := h.colHi; have h3 := h.rowLo; have h4 := h.rowHi; have h5 := h.right
  split at hp
  · simp only [Bool.true_and, Option.some.injEq] at hp
    subst hp
    simp only
    split
    · rename_i hgt; simp only [decide_eq_true_eq] at hgt; omega
    · rename_i hgt; simp only [decide_eq_true_eq] at hgt; omega
  · cases hp

theorem inv_hasVx {e : Emu} {rows cols : Nat} (h : EmuInv e rows cols) (b : Bool) :
    EmuInv { e with hasVx := b } rows cols := { h with }

/-- `draw` once the emulator has the size of the window. -/
theorem draw_sized {e : Emu} {rows cols : Nat} (h : EmuInv e rows cols) (d : Dim rows cols) (focused : Bool) :
    ∃ calls, drawCalls e = .ok calls ∧
      (∀ c ∈ calls, 0 ≤ c.col ∧ c.col < cols ∧ 0 ≤ c.row ∧ c.row < rows) ∧
      (∀ p, shownCursor true e focused = some p → 0 ≤ p.1 ∧ p.1 < cols ∧ 0 ≤ p.2 ∧ p.2 < rows) ∧
      EmuInv { e with hasVx := true } rows cols := by
  obtain ⟨l, hl, hb⟩ := drawCalls_ok h d.r1
  exact ⟨l, hl, hb, shownCursor_ok h d.c1 focused, inv_hasVx h true⟩

/-! ### which cells Draw hands over: the walk along a row -/

/-- The calls of one row, from column `col`: a call at the current column with the cell stored
    there (after the ""→" " substitution), the next column is `col + max w 1` (the columns under a
    wide glyph are skipped), until the column reaches `cols`. -/
inductive RowWalk (line : Row) (row cols : Int) : Int → List DrawCall → Prop
  | done {col : Int} : cols ≤ col → RowWalk line row cols col []
  | step {col : Int} {cell : ECell} {rest : List DrawCall} :
      col < cols → getI line col = .ok cell →
      RowWalk line row cols (col + stepW cell) rest →
      RowWalk line row cols col ({ col := col, row := row, cell := drawnCell cell } :: rest)

theorem rowCalls_walk {g : Grid} {rows cols : Nat} (hg : GridOk g rows cols) (row : Int)
    (hr0 : 0 ≤ row) (hr1 : row < rows) {line : Row} (hline : getI g row = .ok line) :
    ∀ (fuel : Nat) (col : Int), 0 ≤ col → (cols : Int) - col ≤ fuel →
      ∃ l, rowCalls g cols row fuel col = .ok l ∧ RowWalk line row cols col l := by
  have hlen : line.length = cols := by
    obtain ⟨line', h1, hmem⟩ := getI_ok g row hr0 (by rw [hg.len]; exact hr1)
    rw [hline] at h1
    cases h1
    exact hg.rowLen _ hmem
  intro fuel
  induction fuel with
  | zero =>
    intro col _ h2
    have : ¬ col < (cols : Int) := by omega
    exact ⟨[], by simp only [rowCalls, this, if_false], .done (by omega)⟩
  | succ n ih =>
    intro col h1 h2
    by_cases hc : col < (cols : Int)
    · obtain ⟨cell, hcell, _⟩ := getI_ok line col h1 (by rw [hlen]; exact hc)
      have hw : 1 ≤ stepW cell := stepW_pos cell
      obtain ⟨rest, hrest, hb⟩ := ih (col + stepW cell) (by omega) (by omega)
      refine ⟨{ col := col, row := row, cell := drawnCell cell } :: rest, ?_, .step hc hcell hb⟩
      unfold stepW at hrest
      simp only [rowCalls, hc, if_true, hline, hcell, bind, Except.bind, hrest]
    · exact ⟨[], by simp only [rowCalls, hc, if_false], .done (by omega)⟩

theorem allRows_walk {g : Grid} {rows cols : Nat} (hg : GridOk g rows cols) :
    ∀ (n : Nat) (row : Int), 0 ≤ row → row + n ≤ rows →
      ∃ per : List (List DrawCall), allRows g cols n row = .ok per.flatten ∧ per.length = n ∧
        ∀ (k : Nat) (l : List DrawCall), per[k]? = some l →
          ∃ line, getI g (row + k) = .ok line ∧ RowWalk line (row + k) cols 0 l := by
  intro n
  induction n with
  | zero => intro row _ _; exact ⟨[], rfl, rfl, by simp⟩
  | succ n ih =>
    intro row h1 h2
    obtain ⟨line, hline, _⟩ := getI_ok g row h1 (by rw [hg.len]; omega)
    obtain ⟨a, ha, hwa⟩ := rowCalls_walk hg row h1 (by omega) hline (cols : Int).toNat 0 (by omega) (by omega)
    obtain ⟨per, hb, hlen, hper⟩ := ih (row + 1) (by omega) (by omega)
    refine ⟨a :: per, by simp only [allRows, ha, hb, bind, Except.bind, List.flatten_cons], by simp [hlen], ?_⟩
    intro k l hk
    cases k with
    | zero =>
      simp only [List.getElem?_cons_zero, Option.some.injEq] at hk
      subst hk
      exact ⟨line, by simpa using hline, by simpa using hwa⟩
    | succ k =>
      simp only [List.getElem?_cons_succ] at hk
      obtain ⟨line', h1', h2'⟩ := hper k l hk
      have e1 : row + ((k + 1 : Nat) : Int) = row + 1 + (k : Int) := by omega
      rw [e1]
      exact ⟨line', h1', h2'⟩

/-! ### the window chain -/

/-- A call that reaches the screen went through every window's clip: the host cell is the call
    translated by the origin, it is inside the innermost window and on the screen. -/
theorem setCellChain_some (sw sh : Int) :
    ∀ (chain : List Win) (col row : Int) (p : Int × Int), setCellChain sw sh chain col row = some p →
      p = showCursorChain chain col row ∧ 0 ≤ p.1 ∧ p.1 < sw ∧ 0 ≤ p.2 ∧ p.2 < sh := by
  intro chain
  induction chain with
  | nil =>
    intro col row p hp
    simp only [setCellChain] at hp
    split at hp
    · cases hp
    · split at hp
      · cases hp
      · split at hp
        · cases hp
        · simp only [Option.some.injEq] at hp
          subst hp
          simp only [showCursorChain, true_and]
          omega
  | cons w ps ih =>
    intro col row p hp
    simp only [setCellChain] at hp
    split at hp
    · cases hp
    · split at hp
      · cases hp
      · simpa only [showCursorChain] using ih _ _ p hp

theorem setCellChain_cons_some (sw sh : Int) (w : Win) (ps : List Win) (col row : Int) (p : Int × Int)
    (hp : setCellChain sw sh (w :: ps) col row = some p) :
    0 ≤ col ∧ col < w.w ∧ 0 ≤ row ∧ row < w.h := by
  simp only [setCellChain] at hp
  split at hp
  · cases hp
  · split at hp
    · cases hp
    · omega

theorem showCursorChain_add :
    ∀ (chain : List Win) (col row : Int),
      showCursorChain chain col row = ((origin chain).1 + col, (origin chain).2 + row) := by
  intro chain
  induction chain with
  | nil => intro col row; simp [showCursorChain, origin]
  | cons w ps ih =>
    intro col row
    simp only [origin, showCursorChain]
    rw [ih (col + w.col) (row + w.row), ih (0 + w.col) (0 + w.row)]
    simp only [origin, Prod.mk.injEq]
    omega

end VaxisModel.Lemmas.EmuDraw
