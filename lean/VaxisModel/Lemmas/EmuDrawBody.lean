/-
Round 4: `(*Model).Draw` is tied to the source structurally. `Gen/TermDraw.lean` holds the body of Draw translated statement
by statement (extract/cmd/C05/draw.go); `evalDraw` (Model/EmuDrawBody.lean) is its meaning. Here: the translated body IS the
hand-written model `Model.EmuDraw.drawG` (the one `draw_clipped` & co. are about) for EVERY emulator state, window size and
focus flag — the column loop with its variable step against `rowCalls` (induction on the fuel), the row loop against `allRows`
(induction on the row count), the guard, the resize, the cursor clamp and `vt.vx = vx` by evaluation.
-/
import VaxisModel.Model.EmuDrawBody
import VaxisModel.Gen.TermDraw
import VaxisModel.Lemmas.EmuBody

namespace VaxisModel.Lemmas.EmuDrawBody
open VaxisModel.Model.Emu VaxisModel.Model.EmuBody VaxisModel.Model.EmuDraw VaxisModel.Model.EmuDrawBody VaxisModel.Lemmas.EmuBody

/-- the body of the column loop, as the translator emits it -/
def colBody : DStmt :=
 (.seq (.loadCell (.loc (.var 2)) (.loc (.var 3)))
 (.seq (.wFromCell 4)
 (.seq .spaceIfEmpty
 (.seq (.setCell (.loc (.var 3)) (.loc (.var 2)))
 (.seq (.ite (.cmp .eq (.loc (.var 4)) (.lit 0))
 (.assign 4 (.lit 1))
 .skip)
 (.assign 3 (.add (.loc (.var 3)) (.loc (.var 4)))))))))

def cellW (x : ECell) : Int := if x.w = 0 then 1 else (x.w : Int)
def spaced (x : ECell) : ECell := { x with g := (if x.g = [] then [32] else x.g) }
def colStep (s : DFrame) (x : ECell) : DFrame :=
  let s1 : DFrame := { s with f := { s.f with cell := spaced x } }
  let s2 : DFrame := { s1 with calls := s.calls ++ [{ col := s.f.vars 3, row := s.f.vars 2, cell := drawnCell x }] }
  (s2.setVar 4 (cellW x)).setVar 3 (s.f.vars 3 + cellW x)

theorem colBody_eval (s : DFrame) :
    evalD colBody s =
      (do let line ← getI s.f.e.active (s.f.vars 2)
          let x ← getI line (s.f.vars 3)
          Except.ok (colStep s x, false)) := by
  simp only [colBody, evalD, ev, evalEx, Frame.get, bind, Except.bind]
  cases h1 : getI s.f.e.active (s.f.vars 2) with
  | error p => rfl
  | ok line =>
    simp only []
    cases h2 : getI line (s.f.vars 3) with
    | error p => rfl
    | ok x =>
      simp [DFrame.setVar, Frame.set, evalCond, evalCmp, evalEx, Frame.get, colStep, cellW, spaced, drawnCell]
      by_cases hw : x.w = 0
      · simp [hw]; funext j; by_cases h3 : j = 3 <;> by_cases h4 : j = 4 <;> simp [h3, h4]
      · simp [hw]

/-- what the loops leave alone -/
structure Keep (s s' : DFrame) : Prop where
  e : s'.f.e = s.f.e
  focused : s'.focused = s.focused
  cursor : s'.cursor = s.cursor
  winW : s'.winW = s.winW
  winH : s'.winH = s.winH

theorem Keep.refl (s : DFrame) : Keep s s := ⟨rfl, rfl, rfl, rfl, rfl⟩
theorem Keep.trans {a b c : DFrame} (h1 : Keep a b) (h2 : Keep b c) : Keep a c :=
  ⟨h2.e.trans h1.e, h2.focused.trans h1.focused, h2.cursor.trans h1.cursor, h2.winW.trans h1.winW, h2.winH.trans h1.winH⟩

/-- a loop of the translated body agrees with a list of calls computed by the hand-written model -/
def Agrees (s : DFrame) (loopRes : M (DFrame × Bool)) (callsRes : M (List DrawCall)) : Prop :=
  match callsRes with
  | .ok l => ∃ s', loopRes = .ok (s', false) ∧ Keep s s' ∧ s'.calls = s.calls ++ l
  | .error p => loopRes = .error p

def colCond (s : DFrame) : Bool := decide (s.f.vars 3 < ev s .width)
def colB (s : DFrame) : M (DFrame × Bool) := evalD colBody s

theorem colStep_keep (s : DFrame) (x : ECell) : Keep s (colStep s x) := ⟨rfl, rfl, rfl, rfl, rfl⟩

theorem colLoop_agrees (g : Grid) (width row : Int) : ∀ (fuel : Nat) (s : DFrame),
    s.f.e.active = g → s.f.e.width = width → s.f.vars 2 = row →
    Agrees s (whileLoop colCond colB fuel s) (rowCalls g width row fuel (s.f.vars 3))
  | 0, s, hg, hw, hr => by
    simp only [whileLoop, rowCalls, colCond, ev, evalEx, hw]
    by_cases hc : s.f.vars 3 < width
    · simp [hc, Agrees]
    · simp [hc, Agrees]; exact Keep.refl s
  | fuel + 1, s, hg, hw, hr => by
    have hb : colB s = (do let line ← getI g row; let x ← getI line (s.f.vars 3); Except.ok (colStep s x, false)) := by
      rw [colB, colBody_eval, hg, hr]
    simp only [whileLoop, rowCalls, colCond, ev, evalEx, hw]
    by_cases hc : s.f.vars 3 < width
    · simp only [hc, decide_true, if_true, hb]
      cases h1 : getI g row with
      | error p => simp only [Agrees, bind, Except.bind]
      | ok line =>
        simp only [bind, Except.bind]
        cases h2 : getI line (s.f.vars 3) with
        | error p => simp only [Agrees]
        | ok x =>
          simp only [Bool.false_eq_true, if_false]
          have ih := colLoop_agrees g width row fuel (colStep s x) hg hw (by simpa [colStep, DFrame.setVar, Frame.set] using hr)
          have hv3 : (colStep s x).f.vars 3 = s.f.vars 3 + (if x.w = 0 then 1 else (x.w : Int)) := by
            simp [colStep, DFrame.setVar, Frame.set, cellW]
          rw [hv3] at ih
          cases h3 : rowCalls g width row fuel (s.f.vars 3 + (if x.w = 0 then 1 else (x.w : Int))) with
          | error p => rw [h3] at ih; simp only [Agrees] at ih ⊢; exact ih
          | ok rest =>
            rw [h3] at ih
            simp only [Agrees] at ih ⊢
            obtain ⟨s', hs', hk, hcalls⟩ := ih
            refine ⟨s', hs', (colStep_keep s x).trans hk, ?_⟩
            rw [hcalls]; simp [colStep, DFrame.setVar, hr]
    · simp [hc, Agrees]; exact Keep.refl s

/-- the body of the row loop, as the translator emits it -/
def rowBody : DStmt := .forWhile 3 (.lit 0) .width colBody

theorem rowBody_eval (s : DFrame) :
    evalD rowBody s = whileLoop colCond colB s.f.e.width.toNat (s.setVar 3 0) := by
  simp only [rowBody, evalD, ev, evalEx, DFrame.setVar, Frame.set, Int.sub_zero]
  rfl

def rowB (i : Int) (s : DFrame) : M (DFrame × Bool) := evalD rowBody (s.setVar 2 i)

theorem rowB_eval (i : Int) (s : DFrame) :
    rowB i s = whileLoop colCond colB (s.setVar 2 i).f.e.width.toNat ((s.setVar 2 i).setVar 3 0) := by
  rw [rowB, rowBody_eval]

theorem rowLoop_agrees (g : Grid) (width : Int) : ∀ (n : Nat) (i : Int) (s : DFrame),
    s.f.e.active = g → s.f.e.width = width →
    Agrees s (upLoop rowB n i s) (allRows g width n i)
  | 0, i, s, hg, hw => by
    simp only [upLoop, allRows, Agrees]
    exact ⟨s, rfl, Keep.refl s, by simp⟩
  | n + 1, i, s, hg, hw => by
    simp only [upLoop, allRows, rowB_eval]
    have hcol := colLoop_agrees g width i width.toNat ((s.setVar 2 i).setVar 3 0)
      (by simpa [DFrame.setVar, Frame.set] using hg) (by simpa [DFrame.setVar, Frame.set] using hw)
      (by simp [DFrame.setVar, Frame.set])
    have hw' : (s.setVar 2 i).f.e.width = width := by simpa [DFrame.setVar, Frame.set] using hw
    have hv : ((s.setVar 2 i).setVar 3 0).f.vars 3 = 0 := by simp [DFrame.setVar, Frame.set]
    rw [hv] at hcol
    rw [hw']
    cases h1 : rowCalls g width i width.toNat 0 with
    | error p =>
      rw [h1] at hcol
      simp only [Agrees] at hcol
      simp only [hcol, bind, Except.bind, Agrees]
    | ok a =>
      rw [h1] at hcol
      simp only [Agrees] at hcol
      obtain ⟨s1, hs1, hk1, hc1⟩ := hcol
      simp only [hs1, bind, Except.bind, Bool.false_eq_true, if_false]
      have ih := rowLoop_agrees g width n (i + 1) s1 (by rw [hk1.e]; simpa [DFrame.setVar, Frame.set] using hg)
        (by rw [hk1.e]; simpa [DFrame.setVar, Frame.set] using hw)
      cases h2 : allRows g width n (i + 1) with
      | error p => rw [h2] at ih; simp only [Agrees] at ih ⊢; exact ih
      | ok b =>
        rw [h2] at ih
        simp only [Agrees] at ih ⊢
        obtain ⟨s2, hs2, hk2, hc2⟩ := ih
        have hk0 : Keep s ((s.setVar 2 i).setVar 3 0) := ⟨rfl, rfl, rfl, rfl, rfl⟩
        refine ⟨s2, hs2, (hk0.trans hk1).trans hk2, ?_⟩
        rw [hc2, hc1]; simp [DFrame.setVar]

/-- the statements after the two loops, as the translator emits them -/
def tailStmt : DStmt :=
 (.seq (.iteFocused (.mode .dectcem)
 (.seq (.assign 5 (.loc .curCol))
 (.seq (.ite (.cmp .gt (.loc (.var 5)) (.loc .right))
 (.assign 5 (.loc .right))
 .skip)
 (.showCursor (.loc (.var 5)) (.loc .curRow)))))
 (.seq .vxLocal
 (.seq .setVx
 .graphics)))

theorem tail_eval (s : DFrame) : ∃ s', evalD tailStmt s = .ok (s', false) ∧ s'.f.e = { s.f.e with hasVx := true } ∧
    s'.calls = s.calls ∧ s'.cursor = (match shownCursor true s.f.e s.focused with | some c => some c | none => s.cursor) := by
  simp only [tailStmt, evalD, ev, evalEx, evalCond, evalCmp, Frame.get, DFrame.setVar, Frame.set, bind, Except.bind, shownCursor, Modes.get]
  by_cases hd : s.f.e.mode.dectcem = true <;> by_cases hf : s.focused = true <;> by_cases hc : s.f.e.cur.col > s.f.e.right <;>
    simp [hd, hf, hc]

/-- the two statements in front of the loops -/
def guardStmt : DStmt :=
 (.ite (.or (.cmp .le (.loc (.var 0)) (.lit 0)) (.cmp .le (.loc (.var 1)) (.lit 0))) .ret .skip)
def resizeStmt : DStmt :=
 (.ite (.or (.cmp .ne (.loc (.var 0)) .width) (.cmp .ne (.loc (.var 1)) .height))
 (.seq (.setWinW (.loc (.var 0))) (.seq (.setWinH (.loc (.var 1))) (.resize (.loc (.var 0)) (.loc (.var 1)))))
 .skip)

theorem draw_shape : VaxisModel.Gen.TermDraw.stmt_Draw =
    .seq .lock (.seq .deferUnlock (.seq .dirtyFalse (.seq (.winSize 0 1) (.seq guardStmt (.seq resizeStmt
      (.seq (.forUp 2 (.lit 0) .height rowBody) tailStmt)))))) := rfl

theorem seq_eval (a b : DStmt) (s : DFrame) :
    evalD (.seq a b) s = (evalD a s >>= fun r => if r.2 then Except.ok r else evalD b r.1) := by
  simp only [evalD]

theorem guard_eval (s : DFrame) :
    evalD guardStmt s = .ok (s, decide (s.f.vars 0 ≤ 0) || decide (s.f.vars 1 ≤ 0)) := by
  simp only [guardStmt, evalD, evalCond, evalEx, Frame.get]
  simp only [evalCmp]
  by_cases hb : (decide (s.f.vars 0 ≤ 0) || decide (s.f.vars 1 ≤ 0)) = true
  · simp only [hb, if_true]
  · simp only [Bool.not_eq_true] at hb; simp [hb]

theorem resizeStmt_eval (s : DFrame) :
    evalD resizeStmt s =
      if s.f.vars 0 ≠ s.f.e.width ∨ s.f.vars 1 ≠ s.f.e.height then
        (resize Fixes.current s.f.e (s.f.vars 0) (s.f.vars 1) >>= fun e' => Except.ok (({ s with f := { s.f with e := e' } } : DFrame), false))
      else .ok (s, false) := by
  simp only [resizeStmt, evalD, evalCond, evalEx, ev, Frame.get, bind, Except.bind, Bool.false_eq_true, if_false]
  simp only [evalCmp]
  by_cases h0 : s.f.vars 0 ≠ s.f.e.width <;> by_cases h1 : s.f.vars 1 ≠ s.f.e.height <;> simp [h0, h1]
  all_goals (simp only [ne_eq, Decidable.not_not] at h0 h1; simp [h0, h1])

theorem rows_eval (s : DFrame) :
    evalD (.forUp 2 (.lit 0) .height rowBody) s = upLoop rowB s.f.e.height.toNat 0 s := by
  simp only [evalD, ev, evalEx, Int.sub_zero]; rfl

/-- from the frame in front of the loops on: the loops, then the tail -/
theorem loops_tail (s : DFrame) (hc : s.calls = []) (hcur : s.cursor = none) :
    ((evalD (.seq (.forUp 2 (.lit 0) .height rowBody) tailStmt) s) >>= fun r => Except.ok (r.1.f.e, r.1.calls, r.1.cursor)) =
      (drawCalls s.f.e >>= fun calls => Except.ok ({ s.f.e with hasVx := true }, calls, shownCursor true s.f.e s.focused)) := by
  rw [seq_eval, rows_eval]
  have h := rowLoop_agrees s.f.e.active s.f.e.width s.f.e.height.toNat 0 s rfl rfl
  unfold drawCalls
  cases h1 : allRows s.f.e.active s.f.e.width s.f.e.height.toNat 0 with
  | error p => rw [h1] at h; simp only [Agrees] at h; rw [h]; rfl
  | ok l =>
    rw [h1] at h
    simp only [Agrees] at h
    obtain ⟨s', hs', hk, hcalls⟩ := h
    obtain ⟨s2, hs2, he2, hc2, hcur2⟩ := tail_eval s'
    rw [hs']
    simp only [bind, Except.bind, Bool.false_eq_true, if_false, hs2, he2, hc2, hcur2, hcalls, hc, List.nil_append, hk.e, hk.focused, hk.cursor, hcur]
    cases shownCursor true s.f.e s.focused <;> rfl

theorem body_Draw_eq (e : Emu) (winW winH : Int) (focused : Bool) :
    evalDraw VaxisModel.Gen.TermDraw.stmt_Draw e winW winH focused = drawG true true Fixes.current e winW winH focused := by
  rw [draw_shape]
  unfold evalDraw
  -- lock, defer, dirty, `width, height := win.Size()`
  have h4 : ∀ (rest : DStmt) (s : DFrame),
      evalD (.seq .lock (.seq .deferUnlock (.seq .dirtyFalse (.seq (.winSize 0 1) rest)))) s =
        evalD rest ((s.setVar 0 s.winW).setVar 1 s.winH) := by
    intro rest s; simp only [evalD, bind, Except.bind, Bool.false_eq_true, if_false]
  rw [h4, seq_eval, guard_eval]
  generalize hs1 : (({ f := initFrame e [], winW := winW, winH := winH, focused := focused } : DFrame).setVar 0 _).setVar 1 _ = s1
  have hv0 : s1.f.vars 0 = winW := by subst hs1; simp [DFrame.setVar, Frame.set]
  have hv1 : s1.f.vars 1 = winH := by subst hs1; simp [DFrame.setVar, Frame.set]
  have he : s1.f.e = e := by subst hs1; simp [DFrame.setVar, Frame.set, initFrame]
  have hcalls : s1.calls = [] := by subst hs1; simp [DFrame.setVar]
  have hcur : s1.cursor = none := by subst hs1; simp [DFrame.setVar]
  have hfoc : s1.focused = focused := by subst hs1; simp [DFrame.setVar]
  rw [hv0, hv1]
  unfold drawG
  simp only [Bool.true_and, ok_bind]
  by_cases hg : (decide (winW ≤ 0) || decide (winH ≤ 0)) = true
  · simp only [hg, if_true, he, hcalls, hcur, ok_bind]
  · simp only [Bool.not_eq_true] at hg
    simp only [hg, Bool.false_eq_true, if_false]
    rw [seq_eval, resizeStmt_eval, hv0, hv1, he]
    unfold draw
    by_cases hr : winW ≠ e.width ∨ winH ≠ e.height
    · simp only [hr, if_true]
      cases hres : resize Fixes.current e winW winH with
      | error p => rfl
      | ok e' =>
        simp only [ok_bind, Bool.false_eq_true, if_false]
        have := loops_tail ({ s1 with f := { s1.f with e := e' } }) hcalls hcur
        rw [← hfoc]
        exact this
    · simp only [hr, if_false, ok_bind, Bool.false_eq_true]
      have := loops_tail s1 hcalls hcur
      rw [he] at this
      rw [← hfoc]
      exact this

end VaxisModel.Lemmas.EmuDrawBody
