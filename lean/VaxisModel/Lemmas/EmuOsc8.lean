/-
No operation of the emulator changes the `OSC8` switch (`Model.OSC8`, a configuration field of the widget): `emuStep_o8`.
Needed to carry "hyperlinks are honoured" along a history (C06 `emu_refines_histories_XO`). The per-function lemmas for the
grid functions follow the pattern of Lemmas/TermEmuFrame.lean (C13: the same for the `mode` struct).
-/
import VaxisModel.Lemmas.EmuResize

namespace VaxisModel.Lemmas.EmuOsc8
open VaxisModel.Model.Emu VaxisModel.Gen.TermModes

theorem bind_ok {α β : Type} {x : M α} {f : α → M β} {b : β} (h : (x >>= f) = .ok b) :
    ∃ a, x = .ok a ∧ f a = .ok b := by
  cases x with
  | error e => simp [bind, Except.bind] at h
  | ok a => exact ⟨a, rfl, h⟩

theorem ok_inj {α : Type} {a b : α} (h : (Except.ok a : M α) = .ok b) : a = b := by
  injection h

theorem pure_inj {α : Type} {a b : α} (h : (pure a : M α) = .ok b) : a = b := by
  injection h

@[simp] theorem setActive_o8' (e : Emu) (g : Grid) : (e.setActive g).osc8 = e.osc8 := by
  unfold Emu.setActive; split <;> rfl

theorem scrollUp_o8 {e e' : Emu} {n : Int} (h : scrollUp e n = .ok e') : e'.osc8 = e.osc8 := by
  unfold scrollUp at h
  obtain ⟨g, _, h⟩ := bind_ok h
  have := ok_inj h; subst this; simp

theorem scrollDown_o8 {e e' : Emu} {n : Int} (h : scrollDown e n = .ok e') : e'.osc8 = e.osc8 := by
  unfold scrollDown at h
  obtain ⟨g, _, h⟩ := bind_ok h
  have := ok_inj h; subst this; simp

theorem ind_o8 {e e' : Emu} (h : ind e = .ok e') : e'.osc8 = e.osc8 := by
  unfold ind at h
  simp only at h
  split at h
  · exact (scrollUp_o8 h).trans rfl
  · split at h <;> (have := ok_inj h; subst this; rfl)

theorem nel_o8 {e e' : Emu} (h : nel e = .ok e') : e'.osc8 = e.osc8 := by
  unfold nel at h
  obtain ⟨e1, h1, h⟩ := bind_ok h
  have := ok_inj h; subst this
  have := ind_o8 h1; exact this

theorem ri_o8 {fx : Fixes} {e e' : Emu} (h : ri fx e = .ok e') : e'.osc8 = e.osc8 := by
  unfold ri at h
  simp only at h
  split at h
  · split at h
    · exact (scrollDown_o8 h).trans rfl
    · split at h <;> (have := ok_inj h; subst this; rfl)
  · split at h
    · have := ok_inj h; subst this; rfl
    · split at h
      · exact (scrollDown_o8 h).trans rfl
      · have := ok_inj h; subst this; rfl


theorem ok_bind' {α β : Type} (a : α) (f : α → M β) : ((Except.ok a : M α) >>= f) = f a := rfl
theorem pure_bind' {α β : Type} (a : α) (f : α → M β) : ((pure a : M α) >>= f) = f a := rfl

set_option hygiene false in
/-- peel binds and branches of `h : <do-block> = .ok e'` -/
macro "peel" : tactic => `(tactic| repeat' (first
  | (simp only [ok_bind', pure_bind'] at h)
  | (obtain ⟨_, _, h⟩ := bind_ok h)
  | (split at h)))

theorem repeatGo_o8 {f : Emu → M Emu} (hf : ∀ s s', f s = .ok s' → s'.osc8 = s.osc8) :
    ∀ (n : Nat) (s s' : Emu), repeatGo f n s = .ok s' → s'.osc8 = s.osc8 := by
  intro n
  induction n with
  | zero => intro s s' h; have := ok_inj h; subst this; rfl
  | succ n ih =>
    intro s s' h
    unfold repeatGo at h
    obtain ⟨s1, h1, h⟩ := bind_ok h
    exact (ih _ _ h).trans (hf _ _ h1)

theorem repeatN_o8 {f : Emu → M Emu} (hf : ∀ s s', f s = .ok s' → s'.osc8 = s.osc8)
    {n : Nat} {s s' : Emu} (h : repeatN f n s = .ok s') : s'.osc8 = s.osc8 := by
  unfold repeatN at h
  split at h
  · exact repeatGo_o8 hf _ _ _ h
  · obtain ⟨_, _, h⟩ := bind_ok h
    cases h

set_option hygiene false in
macro "fin_ok" : tactic => `(tactic| (have hh := ok_inj h; subst hh; simp))

theorem ich_o8 {fx : Fixes} {e e' : Emu} {n : Int} (h : ich fx e n = .ok e') : e'.osc8 = e.osc8 := by
  unfold ich at h; peel; fin_ok

theorem ed_o8 {e e' : Emu} {n : Int} (h : ed e n = .ok e') : e'.osc8 = e.osc8 := by
  unfold ed at h; peel <;> fin_ok

theorem el_o8 {fx : Fixes} {e e' : Emu} {n : Int} (h : el fx e n = .ok e') : e'.osc8 = e.osc8 := by
  unfold el at h; peel <;> fin_ok

theorem il_o8 {fx : Fixes} {e e' : Emu} {n : Int} (h : il fx e n = .ok e') : e'.osc8 = e.osc8 := by
  unfold il at h; peel <;> fin_ok

theorem dl_o8 {fx : Fixes} {e e' : Emu} {n : Int} (h : dl fx e n = .ok e') : e'.osc8 = e.osc8 := by
  unfold dl at h; peel <;> fin_ok

theorem dch_o8 {e e' : Emu} {n : Int} (h : dch e n = .ok e') : e'.osc8 = e.osc8 := by
  unfold dch at h; peel <;> fin_ok

theorem ech_o8 {e e' : Emu} {n : Int} (h : ech e n = .ok e') : e'.osc8 = e.osc8 := by
  unfold ech at h; peel <;> fin_ok

theorem rep_o8 {fx : Fixes} {e e' : Emu} {n : Int} (h : rep fx e n = .ok e') : e'.osc8 = e.osc8 := by
  unfold rep at h; peel <;> fin_ok

theorem sgr_o8 {e e' : Emu} {pm : List Param} (h : sgr e pm = .ok e') : e'.osc8 = e.osc8 := by
  unfold sgr at h; peel <;> fin_ok

theorem osc_o8 {fx : Fixes} {e e' : Emu} {d : List Nat} {info : OscInfo} {k : Nat} (h : osc fx e d info = .ok (e', k)) : e'.osc8 = e.osc8 := by
  unfold osc at h
  simp only at h
  peel
  all_goals (first | (have hh := ok_inj h; injection hh with h1 h2; subst h1; rfl) | cases h)

/-- `print` after the wrap stage (same text as in `Model/Emu.lean`). -/
def pTail (fx : Fixes) (e : Emu) (g : G) (w : Nat) : M Emu := do
  let wi : Int := w
  let col := e.cur.col
  let rw := e.cur.row
  let e ← if e.mode.irm then do
      let line ← getI e.active rw
      let line' ← forDown e.right (if fx.f16 then col + wi else col + 1) (fun i line => do
          let x ← getI line (i - wi)
          setI line i x) line
      let g' ← setI e.active rw line'
      .ok (e.setActive g')
    else .ok e
  let col := if col > e.width - 1 then e.width - 1 else col
  let rw := if rw > e.height - 1 then e.height - 1 else rw
  if w = 0 then .ok e
  else do
    let cell : ECell := { g := g, w := w, st := e.cur.st }
    let row ← getI e.active rw
    let row' ← setI row col cell
    let g1 ← setI e.active rw row'
    -- trailing cells of a wide glyph
    let g2 ← forUpBrk 1 (wi - 1) (fun i gr =>
      if col + i > e.right then .ok (gr, false)
      else do
        let gr' ← modCell gr rw (col + i) (fun c => { c with g := [32], st := e.cur.st })
        .ok (gr', true)) g1
    let e := e.setActive g2
    let e :=
      if !e.mode.decawm && decide (e.cur.col + wi > e.right) then e
      else { e with cur := { e.cur with col := e.cur.col + wi } }
    let e :=
      if fx.f105c && decide (e.cur.col > e.right + 1) then { e with cur := { e.cur with col := e.right + 1 } } else e
    .ok (if decide (e.cur.col ≥ e.right + 1) && e.mode.decawm then { e with lastCol := true } else e)

theorem pTail_o8 {fx : Fixes} {e e' : Emu} {g : G} {w : Nat} (h : pTail fx e g w = .ok e') : e'.osc8 = e.osc8 := by
  unfold pTail at h
  peel
  all_goals (have hh := ok_inj h; subst hh; simp)

theorem print_o8 {fx : Fixes} {e e' : Emu} {g : G} {w : Nat} (h : print fx e g w = .ok e') : e'.osc8 = e.osc8 := by
  unfold print at h
  cases hss : e.cs.ss <;> simp only [hss, if_true, if_false, Bool.false_eq_true] at h
  · by_cases hw : ((e.lastCol || decide (e.cur.col + ↑w - 1 > e.right)) && e.mode.decawm) = true
    · rw [if_pos hw] at h
      obtain ⟨g', _, h⟩ := bind_ok h
      obtain ⟨e1, h1, h⟩ := bind_ok h
      have m1 := nel_o8 h1
      simp only [setActive_o8'] at m1
      rw [← m1]
      exact pTail_o8 h
    · rw [if_neg hw] at h
      exact pTail_o8 h
  · by_cases hw : ((e.lastCol || decide (e.cur.col + ↑w - 1 > e.right)) && e.mode.decawm) = true
    · rw [if_pos hw] at h
      obtain ⟨g', _, h⟩ := bind_ok h
      obtain ⟨e1, h1, h⟩ := bind_ok h
      have m1 := nel_o8 h1
      simp only [setActive_o8'] at m1
      rw [← m1]
      exact pTail_o8 h
    · rw [if_neg hw] at h
      exact (pTail_o8 h).trans rfl

theorem cnl_o8 {fx : Fixes} {e e' : Emu} {n : Int} (h : cnl fx e n = .ok e') : e'.osc8 = e.osc8 := by
  unfold cnl at h
  split at h
  · have := ok_inj h; subst this; rfl
  · exact (repeatN_o8 (fun _ _ => nel_o8) h).trans rfl

theorem cpl_o8 {fx : Fixes} {e e' : Emu} {n : Int} (h : cpl fx e n = .ok e') : e'.osc8 = e.osc8 := by
  unfold cpl at h
  split at h
  · have := ok_inj h; subst this; rfl
  · obtain ⟨e1, h1, h⟩ := bind_ok h
    have := ok_inj h; subst this
    exact (repeatN_o8 (fun _ _ => ri_o8) h1).trans rfl

theorem lf_o8 {e e' : Emu} (h : lf e = .ok e') : e'.osc8 = e.osc8 := by
  unfold lf at h
  obtain ⟨e1, h1, h⟩ := bind_ok h
  have := ok_inj h; subst this
  have := ind_o8 h1
  split <;> exact this

theorem c0_o8 {fx : Fixes} {e e' : Emu} {r k : Nat} (h : c0 fx e r = .ok (e', k)) : e'.osc8 = e.osc8 := by
  unfold c0 at h
  split at h
  · have := ok_inj h; injection this with h1 h2; subst h1; rfl
  · split at h
    case h_1 => have := ok_inj h; injection this with h1 h2; subst h1; rfl
    case h_2 => have := ok_inj h; injection this with h1 h2; subst h1; unfold bs; simp only; (repeat' split) <;> rfl
    case h_3 => have := ok_inj h; injection this with h1 h2; subst h1; rfl
    case h_4 => obtain ⟨e1, h1, h⟩ := bind_ok h; have := ok_inj h; injection this with h2 h3; subst h2; exact lf_o8 h1
    case h_5 => obtain ⟨e1, h1, h⟩ := bind_ok h; have := ok_inj h; injection this with h2 h3; subst h2; exact lf_o8 h1
    case h_6 => obtain ⟨e1, h1, h⟩ := bind_ok h; have := ok_inj h; injection this with h2 h3; subst h2; exact lf_o8 h1
    case h_7 => have := ok_inj h; injection this with h1 h2; subst h1; rfl
    case h_8 => have := ok_inj h; injection this with h1 h2; subst h1; rfl
    case h_9 => have := ok_inj h; injection this with h1 h2; subst h1; rfl


/-! ### pure functions, mode functions, dispatch -/

theorem smOne_o8 (tab : List (Int × ModeField)) (b : Bool) (e : Emu) (p : Param) : (smOne tab b e p).osc8 = e.osc8 := by
  unfold smOne; split <;> rfl

theorem foldl_o8 (f : Emu → Param → Emu) (hf : ∀ e p, (f e p).osc8 = e.osc8) :
    ∀ (pm : List Param) (e : Emu), (pm.foldl f e).osc8 = e.osc8 := by
  intro pm
  induction pm with
  | nil => intro e; rfl
  | cons p r ih => intro e; simp only [List.foldl_cons]; exact (ih _).trans (hf e p)

theorem foldlM_o8 (f : Emu → Param → M Emu) (hf : ∀ e p e', f e p = .ok e' → e'.osc8 = e.osc8) :
    ∀ (pm : List Param) (e e' : Emu), pm.foldlM f e = .ok e' → e'.osc8 = e.osc8 := by
  intro pm
  induction pm with
  | nil => intro e e' h; have := ok_inj h; subst this; rfl
  | cons p r ih =>
    intro e e' h
    simp only [List.foldlM_cons] at h
    obtain ⟨e1, h1, h⟩ := bind_ok h
    exact (ih _ _ h).trans (hf _ _ _ h1)

theorem decsc_o8 (e : Emu) : (decsc e).osc8 = e.osc8 := by unfold decsc; split <;> rfl
theorem decrc_o8 (e : Emu) : (decrc e).osc8 = e.osc8 := rfl

theorem decsetOne_o8 {fx : Fixes} {e e' : Emu} {p : Param} (h : decsetOne fx e p = .ok e') : e'.osc8 = e.osc8 := by
  unfold decsetOne at h
  split at h
  · have := ok_inj h; subst this; rfl
  · split at h
    · have := ok_inj h; subst this; rfl
    · split at h
      · simp only at h
        split at h
        · obtain ⟨e1, h1, h⟩ := bind_ok h
          have := ok_inj h; subst this
          exact (ed_o8 h1).trans (decsc_o8 e)
        · obtain ⟨e1, h1, h⟩ := bind_ok h
          have := ok_inj h; subst this
          have := ok_inj h1; subst this
          exact decsc_o8 e
      · have := ok_inj h; subst this; rfl

theorem decrstOne_o8 {e e' : Emu} {p : Param} (h : decrstOne e p = .ok e') : e'.osc8 = e.osc8 := by
  unfold decrstOne at h
  split at h
  · have := ok_inj h; subst this; rfl
  · split at h
    · have := ok_inj h; subst this; rfl
    · split at h
      · simp only at h
        split at h
        · obtain ⟨e1, h1, h⟩ := bind_ok h
          have := ok_inj h; subst this
          show e1.osc8 = e.osc8
          exact ed_o8 h1
        · obtain ⟨e1, h1, h⟩ := bind_ok h
          have := ok_inj h; subst this
          have := ok_inj h1; subst this
          rfl
      · have := ok_inj h; subst this; rfl

set_option hygiene false in
macro "pure_o8" : tactic => `(tactic|
  (have hh := ok_inj h; subst hh
   first
   | rfl
   | (simp only [cuu, cud, cuf, cub, cha, cup, cht, cbt, hpa, hpr, vpa, vpr, tbc, decstbm, hts, bs, cr]; (repeat' split) <;> rfl)))

theorem csi_o8 {e e' : Emu} {label : List Nat} {pm0 : List Param} (h : csi Fixes.current e label pm0 = .ok e') :
    e'.osc8 = e.osc8 := by
  have hf : Fixes.current.f18 = true := rfl
  unfold csi at h
  simp only [hf, if_true] at h
  split at h
  · have := ok_inj h; subst this; rfl
  · rename_i arm _
    cases arm <;> simp only at h
    case ich => exact ich_o8 h
    case cnl => exact cnl_o8 h
    case cpl => exact cpl_o8 h
    case ed => exact ed_o8 h
    case el => exact el_o8 h
    case il => exact il_o8 h
    case dl => exact dl_o8 h
    case dch => exact dch_o8 h
    case arm_53 => exact scrollUp_o8 h
    case arm_54 =>
      split at h
      · have := ok_inj h; subst this; rfl
      · exact scrollDown_o8 h
    case ech => exact ech_o8 h
    case rep => exact rep_o8 h
    case sm => have hh := ok_inj h; subst hh; exact foldl_o8 _ (smOne_o8 _ _) _ _
    case rm => have hh := ok_inj h; subst hh; exact foldl_o8 _ (smOne_o8 _ _) _ _
    case decset => exact foldlM_o8 _ (fun _ _ _ h => decsetOne_o8 h) _ _ _ h
    case decrst => exact foldlM_o8 _ (fun _ _ _ h => decrstOne_o8 h) _ _ _ h
    case sgr => exact sgr_o8 h
    case decsc => have hh := ok_inj h; subst hh; exact decsc_o8 e
    case decrc => have hh := ok_inj h; subst hh; rfl
    all_goals pure_o8

theorem esc_o8 {e e' : Emu} {label : List Nat} (h : esc Fixes.current e label = .ok e') : e'.osc8 = e.osc8 := by
  unfold esc at h
  split at h
  · have := ok_inj h; subst this; rfl
  · rename_i arm _
    cases arm <;> simp only at h
    case ind => exact ind_o8 h
    case nel => exact nel_o8 h
    case ri => exact ri_o8 h
    case decsc => have hh := ok_inj h; subst hh; exact decsc_o8 e
    all_goals pure_o8

/-- **No operation changes the OSC 8 switch.** -/
theorem emuStep_o8 {e : Emu} {op : EOp} {r : Emu × Nat} (h : emuStep e op = .ok r) : r.1.osc8 = e.osc8 := by
  unfold emuStep emuStepF at h
  cases op with
  | print g w =>
    simp only at h
    obtain ⟨e1, h1, h⟩ := bind_ok h
    have := ok_inj h; subst this
    exact print_o8 h1
  | c0 x => obtain ⟨e1, k⟩ := r; exact c0_o8 h
  | esc l =>
    simp only at h
    obtain ⟨e1, h1, h⟩ := bind_ok h
    have := ok_inj h; subst this
    exact esc_o8 h1
  | csi l pm =>
    simp only at h
    obtain ⟨e1, h1, h⟩ := bind_ok h
    have := ok_inj h; subst this
    exact csi_o8 h1
  | osc d info => obtain ⟨e1, k⟩ := r; exact osc_o8 h
  | dcs => have := ok_inj h; subst this; rfl
  | apc => have := ok_inj h; subst this; rfl
  | resize w hh =>
    simp only at h
    obtain ⟨e1, h1, h⟩ := bind_ok h
    have := ok_inj h; subst this
    exact (VaxisModel.Lemmas.EmuResize.resize_keep h1).osc8

end VaxisModel.Lemmas.EmuOsc8
