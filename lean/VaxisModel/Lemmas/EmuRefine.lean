/-
C06 refinement, foundation: the simulation relation `Sim t e` between a state `t` of the reference
terminal (Spec.Term) and a state `e` of the emulator model, and the refinement of the operations
that only move the cursor / change margins.

`Sim t e rows cols` says: `e` is a well-formed `rows × cols` emulator state (EmuInv) in the modes the
C06 vocabulary cannot leave (autowrap on, insert mode off, LNM off, ASCII charset), and the reference
state `t` accepts what the emulator shows: same size, screen selector, cursor (the emulator's
column = width is the reference's pending-wrap flag), pen, margins, and every cell of the active
grid (`poison` and `cont` cells of the reference accept anything).
-/
import VaxisModel.Lemmas.EmuSafe1
import VaxisModel.Lemmas.EmuSafe2
import VaxisModel.Model.EmuAbs
import VaxisModel.Spec.Term

namespace VaxisModel.Lemmas.EmuRefine
open VaxisModel.Model.Emu VaxisModel.Model.EmuAbs VaxisModel.Lemmas.Emu VaxisModel.Spec

/-- The modes the vocabulary of C06 cannot change. -/
structure VocabModes (e : Emu) : Prop where
  awm : e.mode.decawm = true
  irm : e.mode.irm = false
  lnm : e.mode.lnm = false
  ascii : e.cs.desig e.cs.sel = 0
  noShift : e.cs.ss = false

structure Sim (t : Term.T) (e : Emu) (rows cols : Nat) : Prop where
  inv : EmuInv e rows cols
  dim : Dim rows cols
  vm : VocabModes e
  trows : t.rows = rows
  tcols : t.cols = cols
  onAlt : t.onAlt = e.altActive
  row : (t.row : Int) = e.cur.row
  col : (t.col : Int) = (if e.cur.col ≥ cols then (cols : Int) - 1 else e.cur.col)
  pw : t.pw = decide (e.cur.col ≥ cols)
  pen : t.pen = absStyle e.cur.st
  link : t.link = e.cur.st.link
  top : (t.top : Int) = e.top
  bottom : (t.bottom : Int) = e.bottom
  grid : Term.gridAccepts t.grid (e.active.map absRow) = true

/-- What a refinement step has to deliver: the reference leaves the result unconstrained, or one of
    the states it accepts simulates the emulator's new state. -/
def Refines (r : Term.Res) (e' : Emu) (rows cols : Nat) : Prop :=
  match r with
  | .unconstrained => True
  | .accept l => ∃ t' ∈ l, Sim t' e' rows cols

theorem refines_one {t' : Term.T} {e' : Emu} {rows cols : Nat} (h : Sim t' e' rows cols) :
    Refines (Term.one t') e' rows cols := ⟨t', List.mem_singleton.mpr rfl, h⟩

theorem refines_unlessPw {t : Term.T} {f : Term.T → Term.Res} {e' : Emu} {rows cols : Nat}
    (h : t.pw = false → Refines (f t) e' rows cols) : Refines (Term.unlessPw t f) e' rows cols := by
  unfold Term.unlessPw
  split
  · trivial
  · rename_i hp; exact h (by simpa using hp)

/-- Not pending wrap: the emulator column is a real column. -/
theorem col_lt_of_not_pw {t : Term.T} {e : Emu} {rows cols : Nat} (s : Sim t e rows cols)
    (hp : t.pw = false) : e.cur.col < cols := by
  have := s.pw; rw [hp] at this
  have h2 : ¬ (e.cur.col ≥ (cols : Int)) := by
    intro hc; simp [hc] at this
  omega

theorem tcol_eq {t : Term.T} {e : Emu} {rows cols : Nat} (s : Sim t e rows cols)
    (hp : t.pw = false) : (t.col : Int) = e.cur.col := by
  have hlt := col_lt_of_not_pw s hp
  have := s.col
  rw [this]; split <;> omega

/-- Rebuild `Sim` after an operation that leaves grids, pen, margins and modes alone and puts the
    cursor at a real position `(r, c)` (no pending wrap). -/
theorem sim_moveCursor {t : Term.T} {e : Emu} {rows cols : Nat} (s : Sim t e rows cols)
    (r c : Nat) (hr : r < rows) (hc : c < cols) (lc : Bool) :
    Sim { t with row := r, col := c, pw := false }
        { e with cur := { e.cur with row := r, col := c }, lastCol := lc } rows cols :=
  { inv := inv_setCursor s.inv r c lc (by omega) (by omega) (by omega) (by omega)
    dim := s.dim, vm := ⟨s.vm.awm, s.vm.irm, s.vm.lnm, s.vm.ascii, s.vm.noShift⟩
    trows := s.trows, tcols := s.tcols, onAlt := s.onAlt
    row := rfl
    col := by simp only; split <;> omega
    pw := by simp only; symm; rw [decide_eq_false_iff_not]; omega
    pen := s.pen, link := s.link, top := s.top, bottom := s.bottom
    grid := s.grid }

/-- General form: the new cursor is given as Ints on the emulator side and Nats on the reference side. -/
theorem sim_moveCursorI {t : Term.T} {e : Emu} {rows cols : Nat} (s : Sim t e rows cols)
    (tr tc : Nat) (r c : Int) (hr : (tr : Int) = r) (hc : (tc : Int) = c) (hr1 : tr < rows) (hc1 : tc < cols)
    (lc : Bool) :
    Sim { t with row := tr, col := tc, pw := false }
        { e with cur := { e.cur with row := r, col := c }, lastCol := lc } rows cols := by
  subst hr; subst hc
  exact sim_moveCursor s tr tc hr1 hc1 lc

/-- Only the row changes (the column, possibly the pending-wrap column, stays). -/
theorem sim_moveRow {t : Term.T} {e : Emu} {rows cols : Nat} (s : Sim t e rows cols)
    (tr : Nat) (r : Int) (hr : (tr : Int) = r) (hr1 : tr < rows) (lc : Bool) :
    Sim { t with row := tr } { e with cur := { e.cur with row := r }, lastCol := lc } rows cols :=
  { inv := { s.inv with rowLo := by simp only; omega, rowHi := by simp only; omega }
    dim := s.dim, vm := ⟨s.vm.awm, s.vm.irm, s.vm.lnm, s.vm.ascii, s.vm.noShift⟩
    trows := s.trows, tcols := s.tcols, onAlt := s.onAlt
    row := hr, col := s.col, pw := s.pw
    pen := s.pen, link := s.link, top := s.top, bottom := s.bottom
    grid := s.grid }

/-- Replace the active grid on both sides (cursor, pen, margins untouched). -/
theorem sim_setGrid {t : Term.T} {e : Emu} {rows cols : Nat} (s : Sim t e rows cols)
    (tg : Term.TGrid) (g : Grid) (hg : GridOk g rows cols)
    (hacc : Term.gridAccepts tg (g.map absRow) = true) (lc : Bool) :
    Sim (t.setGrid tg) { (e.setActive g) with lastCol := lc } rows cols := by
  have hi : EmuInv (e.setActive g) rows cols := setActive_inv s.inv hg
  have hgrid : (t.setGrid tg).grid = tg := by
    unfold Term.T.setGrid Term.T.grid; split <;> simp_all
  have hact : ({ (e.setActive g) with lastCol := lc } : Emu).active = g := by
    show (Emu.active { (e.setActive g) with lastCol := lc }) = g
    have := setActive_active e g
    unfold Emu.active at this ⊢
    simpa using this
  have hsame : ∀ {α : Type} (f : Term.T → α), (∀ a b, f { t with alt := a } = f t ∧ f { t with primary := b } = f t) →
      f (t.setGrid tg) = f t := by
    intro α f hf
    unfold Term.T.setGrid; split
    · exact (hf tg tg).1
    · exact (hf tg tg).2
  exact
  { inv := { hi with }
    dim := s.dim
    vm := ⟨by simpa using s.vm.awm, by simpa using s.vm.irm, by simpa using s.vm.lnm,
           by have := s.vm.ascii; unfold Emu.setActive; split <;> simpa using this,
           by have := s.vm.noShift; unfold Emu.setActive; split <;> simpa using this⟩
    trows := by rw [hsame (·.rows) (fun _ _ => ⟨rfl, rfl⟩)]; exact s.trows
    tcols := by rw [hsame (·.cols) (fun _ _ => ⟨rfl, rfl⟩)]; exact s.tcols
    onAlt := by rw [hsame (·.onAlt) (fun _ _ => ⟨rfl, rfl⟩)]; simpa using s.onAlt
    row := by rw [hsame (·.row) (fun _ _ => ⟨rfl, rfl⟩)]; simpa using s.row
    col := by rw [hsame (·.col) (fun _ _ => ⟨rfl, rfl⟩)]; simpa using s.col
    pw := by rw [hsame (·.pw) (fun _ _ => ⟨rfl, rfl⟩)]; simpa using s.pw
    pen := by rw [hsame (·.pen) (fun _ _ => ⟨rfl, rfl⟩)]; simpa using s.pen
    link := by rw [hsame (·.link) (fun _ _ => ⟨rfl, rfl⟩)]; simpa using s.link
    top := by rw [hsame (·.top) (fun _ _ => ⟨rfl, rfl⟩)]; simpa using s.top
    bottom := by rw [hsame (·.bottom) (fun _ _ => ⟨rfl, rfl⟩)]; simpa using s.bottom
    grid := by rw [hgrid, hact]; exact hacc }

/-! ### cells -/

theorem accepts_poison (a : Term.TCell) : Term.TCell.accepts .poison a = true := rfl
theorem accepts_cont (a : Term.TCell) : Term.TCell.accepts .cont a = true := rfl

/-- An erased emulator cell shows as a blank with that background. -/
theorem absCell_erase (c : ECell) (bg : Nat) : absCell (c.erase bg) = .blank (absCol bg) := by
  unfold absCell ECell.erase; simp

theorem accepts_blank_erase (c : ECell) (bg : Nat) :
    Term.TCell.accepts (.blank (absCol bg)) (absCell (c.erase bg)) = true := by
  rw [absCell_erase]; simp [Term.TCell.accepts]

/-- The reference's blank is the emulator's erase with the pen background. -/
theorem blank_eq {t : Term.T} {e : Emu} {rows cols : Nat} (s : Sim t e rows cols) :
    t.blank = .blank (absCol e.bg) := by
  unfold Term.T.blank Emu.bg; rw [s.pen]; rfl

/-- `healRow` only turns cells into `poison` (which accepts anything) or leaves them. -/
theorem healGo_accepts : ∀ (r : Term.TRow) (a : List Term.TCell) (b : Bool),
    Term.rowAccepts r a = true → Term.rowAccepts (Term.healGo b r) a = true := by
  intro r
  induction r with
  | nil => intro a b h; simpa [Term.healGo] using h
  | cons c rest ih =>
    intro a b h
    cases a with
    | nil => simp [Term.rowAccepts] at h
    | cons x xs =>
      have hlen : rest.length = xs.length := by
        simp [Term.rowAccepts] at h; omega
      have hc : c.accepts x = true := by simp [Term.rowAccepts] at h; exact h.2.1
      have hrest : Term.rowAccepts rest xs = true := by
        simp [Term.rowAccepts] at h ⊢; exact ⟨hlen, h.2.2⟩
      have key : ∀ (c' : Term.TCell) (b' : Bool), c'.accepts x = true →
          Term.rowAccepts (c' :: Term.healGo b' rest) (x :: xs) = true := by
        intro c' b' hc'
        have := ih xs b' hrest
        simp [Term.rowAccepts] at this ⊢
        exact ⟨by omega, hc', this.2⟩
      unfold Term.healGo
      cases c with
      | blank bg => exact key _ _ hc
      | poison => exact key _ _ hc
      | cont => simp only; split <;> exact key _ _ rfl
      | glyph g w st l =>
        simp only
        split
        · split
          · exact key _ _ hc
          · exact key _ _ rfl
        · exact key _ _ hc

theorem healRow_accepts (r : Term.TRow) (a : List Term.TCell) (h : Term.rowAccepts r a = true) :
    Term.rowAccepts (Term.healRow r) a = true := healGo_accepts r a false h

end VaxisModel.Lemmas.EmuRefine
