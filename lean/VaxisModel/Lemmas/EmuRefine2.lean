/-
C06 refinement, the full simulation relation `Sim2`: `Sim` (Lemmas/EmuRefine.lean) plus what is
needed for print (`LastColOk`: the lastCol flag is only set in the pending-wrap column), for
DECSC/DECRC (the saved cursors correspond) and for the alternate screen (while the alternate screen
is active the reference's primary grid still accepts the emulator's primary grid).
`EFrame` / `TFrame` say what the other operations leave alone on either side.
-/
import VaxisModel.Lemmas.EmuRefine
import VaxisModel.Lemmas.EmuRefinePrint

namespace VaxisModel.Lemmas.EmuRefine
open VaxisModel.Model.Emu VaxisModel.Model.EmuAbs VaxisModel.Lemmas.Emu VaxisModel.Spec

/-- A saved cursor of the reference corresponds to a DECSC slot of the emulator. `none` (nothing
    saved: DECRC homes the cursor and resets the pen) corresponds to the emulator's initial slot. -/
def SavedRel (ts : Option Term.SavedCursor) (es : Saved) (cols : Nat) : Prop :=
  es.decawm = true ∧ es.cs.desig es.cs.sel = 0 ∧
  match ts with
  | none => es.cur.row = 0 ∧ es.cur.col = 0 ∧ absStyle es.cur.st = {} ∧ es.cur.st.link = []
  | some s =>
    (s.row : Int) = es.cur.row ∧
    (s.col : Int) = (if es.cur.col ≥ cols then (cols : Int) - 1 else es.cur.col) ∧
    s.pw = decide (es.cur.col ≥ cols) ∧ s.pen = absStyle es.cur.st ∧ s.link = es.cur.st.link

structure Sim2 (t : Term.T) (e : Emu) (rows cols : Nat) : Prop where
  sim : Sim t e rows cols
  lc : LastColOk e cols
  savedP : SavedRel t.savedP e.savedP cols
  savedA : SavedRel t.savedA e.savedA cols
  smcup : e.mode.smcup = e.altActive
  /-- on the alternate screen, the primary grid is still what the reference remembers -/
  prim : e.altActive = true → Term.gridAccepts t.primary (e.primary.map absRow) = true

/-- What an emulator operation other than DECSC/DECRC/?1049 leaves alone. -/
structure EFrame (e e' : Emu) : Prop where
  savedP : e'.savedP = e.savedP
  savedA : e'.savedA = e.savedA
  smcup : e'.mode.smcup = e.mode.smcup
  altActive : e'.altActive = e.altActive
  inactive : e.altActive = true → e'.primary = e.primary

/-- What a reference step other than DECSC/DECRC/?1049 leaves alone. -/
structure TFrame (t t' : Term.T) : Prop where
  savedP : t'.savedP = t.savedP
  savedA : t'.savedA = t.savedA
  onAlt : t'.onAlt = t.onAlt
  inactive : t.onAlt = true → t'.primary = t.primary

/-- `Sim2` is re-established by any step that refines (`Sim`), keeps `LastColOk` and frames. -/
theorem sim2_of_frame {t t' : Term.T} {e e' : Emu} {rows cols : Nat} (s2 : Sim2 t e rows cols)
    (s' : Sim t' e' rows cols) (hl : LastColOk e' cols) (fe : EFrame e e') (ft : TFrame t t') :
    Sim2 t' e' rows cols :=
  { sim := s', lc := hl
    savedP := by rw [ft.savedP, fe.savedP]; exact s2.savedP
    savedA := by rw [ft.savedA, fe.savedA]; exact s2.savedA
    smcup := by rw [fe.smcup, fe.altActive]; exact s2.smcup
    prim := by
      intro ha
      rw [fe.altActive] at ha
      have hon : t.onAlt = true := by rw [s2.sim.onAlt]; exact ha
      rw [ft.inactive hon, fe.inactive ha]
      exact s2.prim ha }

/-- The full refinement statement for one step. -/
def Refines2 (r : Term.Res) (e' : Emu) (rows cols : Nat) : Prop :=
  match r with
  | .unconstrained => True
  | .accept l => ∃ t' ∈ l, Sim2 t' e' rows cols

end VaxisModel.Lemmas.EmuRefine
