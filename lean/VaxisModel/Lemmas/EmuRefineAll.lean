/-
C06 refinement, final assembly including SGR: one step (`emu_refines_step_all`) and all histories
(`emu_refines_history_all`, `emu_refines_session_all`) over the whole vocabulary.
-/
import VaxisModel.Lemmas.EmuRefineStep
import VaxisModel.Lemmas.EmuRefineSgr

namespace VaxisModel.Lemmas.EmuRefine
open VaxisModel.Model.Emu VaxisModel.Model.EmuAbs VaxisModel.Lemmas.Emu VaxisModel.Spec

/-- Only the pen changes. -/
theorem sim_setPen {t : Term.T} {e : Emu} {rows cols : Nat} (s : Sim t e rows cols)
    (tp : TStyle) (st : EStyle) (hp : tp = absStyle st) (hl : st.link = e.cur.st.link) :
    Sim { t with pen := tp } { e with cur := { e.cur with st := st } } rows cols :=
  { inv := { s.inv with }
    dim := s.dim, vm := ⟨s.vm.awm, s.vm.irm, s.vm.lnm, s.vm.ascii, s.vm.noShift⟩
    trows := s.trows, tcols := s.tcols, onAlt := s.onAlt
    row := s.row, col := s.col, pw := s.pw
    pen := hp, link := by simp only; rw [hl]; exact s.link
    top := s.top, bottom := s.bottom
    grid := s.grid }

theorem csi_109 (e : Emu) (pm : List Param) :
    csi Fixes.current e [109] pm = sgr e (clampParams pm) := rfl

/-- SGR with well-formed parameters of the vocabulary. -/
theorem sgr_step2 {t : Term.T} {e : Emu} {rows cols : Nat} (s2 : Sim2 t e rows cols)
    {pm : List Param} {ps : List (List Nat)} (hp : sgrParams pm = some ps) (hw : WfSgr ps = true) :
    ∃ r, emuStep e (.csi [109] pm) = .ok r ∧ Refines2 (Term.step t (.sgr ps)) r.1 rows cols := by
  obtain ⟨st', hs, habs, hk⟩ := sgr_pen e hp hw
  have hstep : emuStep e (.csi [109] pm) = .ok ({ e with cur := { e.cur with st := st' } }, 0) :=
    emuStep_csi_ok (by rw [csi_109]; exact hs)
  refine ⟨_, hstep, ?_⟩
  refine refines2_of s2 (.sgr ps) (by intro h; cases h) (by intro h; cases h) (by intro h; cases h)
    (by intro h; cases h) (by intro h; cases h) ?_ ⟨rfl, rfl, rfl, rfl, fun _ => rfl⟩ ?_
  · show Refines (Term.one { t with pen := Spec.sgr t.pen ps }) _ rows cols
    refine refines_one (sim_setPen s2.sim _ st' ?_ hk.link)
    rw [habs, s2.sim.pen]
  · have := s2.lc
    unfold LastColOk at *
    exact this

/-- An operation of the vocabulary with its token: printed graphemes non-empty; an SGR token comes
    from `CSI pm m` (that is what `tokOf` does) with well-formed parameters (`WfSgr`: complete
    extended-colour forms, `4:k` with k ≤ 5). -/
def VocabOpAll (op : EOp) (tok : Term.Tok) : Prop :=
  tokOf op = some tok ∧
  (∀ ps, tok = .sgr ps → WfSgr ps = true ∧ ∃ pm, op = .csi [109] pm ∧ sgrParams pm = some ps) ∧
  (∀ g w, op = .print g w → g ≠ [])

theorem emu_refines_step_all {t : Term.T} {e : Emu} {rows cols : Nat} (op : EOp) (tok : Term.Tok)
    (hv : VocabOpAll op tok) (s2 : Sim2 t e rows cols) :
    ∃ r, emuStep e op = .ok r ∧ Refines2 (Term.step t tok) r.1 rows cols := by
  by_cases hs : ∃ ps, tok = .sgr ps
  · obtain ⟨ps, rfl⟩ := hs
    obtain ⟨hw, pm, rfl, hp⟩ := hv.2.1 ps rfl
    exact sgr_step2 s2 hp hw
  · exact emu_refines_step op tok hv.1 (fun pm hc => hs ⟨pm, hc⟩) hv.2.2 s2

inductive VocabHistAll : List EOp → List Term.Tok → Prop
  | nil : VocabHistAll [] []
  | cons {op : EOp} {tok : Term.Tok} {ops : List EOp} {toks : List Term.Tok}
      (h : VocabOpAll op tok) (rest : VocabHistAll ops toks) : VocabHistAll (op :: ops) (tok :: toks)

theorem run_safe_all (hs : StepSafe) {rows cols : Nat} (d : Dim rows cols) {ops : List EOp} {toks : List Term.Tok}
    (hv : VocabHistAll ops toks) : ∀ {e : Emu}, EmuInv e rows cols → ∃ e', runOps e ops = .ok e' := by
  induction hv with
  | nil => intro e _; exact ⟨e, rfl⟩
  | cons hop _ ih =>
    intro e hi
    obtain ⟨r, hr, hi'⟩ := hs e rows cols _ hi d (vocab_not_resize hop.1)
    obtain ⟨e', he'⟩ := ih hi'
    exact ⟨e', runOps_cons hr he'⟩

/-- All histories over the whole vocabulary (SGR included). -/
theorem emu_refines_history_all (hs : StepSafe) {rows cols : Nat} {ops : List EOp} {toks : List Term.Tok}
    (hv : VocabHistAll ops toks) :
    ∀ {t : Term.T} {e : Emu}, Sim2 t e rows cols →
      ∃ e', runOps e ops = .ok e' ∧ SpecAllows t toks e' rows cols := by
  induction hv with
  | nil => intro t e s2; exact ⟨e, rfl, .done s2⟩
  | @cons op tok ops toks hop hrest ih =>
    intro t e s2
    obtain ⟨r, hr, h2⟩ := emu_refines_step_all op tok hop s2
    cases hstep : Term.step t tok with
    | unconstrained =>
      obtain ⟨r', hr', hi'⟩ := hs e rows cols op s2.sim.inv s2.sim.dim (vocab_not_resize hop.1)
      have : r' = r := by rw [hr] at hr'; cases hr'; rfl
      subst this
      obtain ⟨e', he'⟩ := run_safe_all hs s2.sim.dim hrest hi'
      exact ⟨e', runOps_cons hr he', .unconstrained hstep⟩
    | accept l =>
      rw [hstep] at h2
      obtain ⟨t', hm, s2'⟩ := h2
      obtain ⟨e', he', hsa⟩ := ih s2'
      exact ⟨e', runOps_cons hr he', .step hstep hm hsa⟩

theorem emu_refines_session_all (hs : StepSafe) (w h : Int) (hw1 : 1 ≤ w) (hw2 : w ≤ 65535) (hh1 : 1 ≤ h)
    (hh2 : h ≤ 65535) {ops : List EOp} {toks : List Term.Tok} (hv : VocabHistAll ops toks) :
    ∃ e0 e', Emu.new Fixes.current w h = .ok e0 ∧ runOps e0 ops = .ok e' ∧
      SpecAllows (Term.T.init h.toNat w.toNat) toks e' h.toNat w.toNat := by
  have he := new_eq w h (by omega) (by omega)
  obtain ⟨e', hr, hsa⟩ := emu_refines_history_all hs hv (sim2_init w h hw1 hw2 hh1 hh2 he)
  exact ⟨_, e', he, hr, hsa⟩

end VaxisModel.Lemmas.EmuRefine
