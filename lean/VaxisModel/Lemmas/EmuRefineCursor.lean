/-
C06 refinement, part 1: operations that move the cursor or set the margins (CR, CUP/HVP, CHA/HPA,
VPA, CUU, CUD, CUF, CUB, CNL, CPL, DECSTBM). The emulator receives the parameter after the clamp of
csi() (`clampParam`), the reference receives the raw parameter; they agree because the screen has
at most 65535 lines/columns.
-/
import VaxisModel.Lemmas.EmuRefine

namespace VaxisModel.Lemmas.EmuRefine
open VaxisModel.Model.Emu VaxisModel.Model.EmuAbs VaxisModel.Lemmas.Emu VaxisModel.Spec

/-- the parameter as csi() hands it to the handler -/
def cp (n : Nat) : Int := clampParam (n : Int)

theorem cp_eq (n : Nat) : cp n = if n > 65535 then 65535 else (n : Int) := by
  unfold cp clampParam maxParam
  split <;> split <;> omega

theorem cr_refines {t : Term.T} {e : Emu} {rows cols : Nat} (s : Sim t e rows cols) :
    Refines (Term.step t .cr) (cr e) rows cols := by
  have h0 := s.inv.left0; have := s.dim.c1; have := s.inv.rowLo; have := s.inv.rowHi; have hr := s.row
  have hs := sim_moveCursor s t.row 0 (by omega) (by omega) false
  unfold cr
  simp only [Term.step]
  refine refines_one ?_
  have he : ({ e with lastCol := false, cur := { e.cur with col := e.left } } : Emu) =
      { e with cur := { e.cur with row := ((t.row : Nat) : Int), col := ((0 : Nat) : Int) }, lastCol := false } := by
    rw [h0, hr]; rfl
  rw [he]
  exact hs

/-! ### helpers: rebuilding `Sim` after a cursor move

The handlers first clear `lastCol` (`let e := { e with lastCol := false }`) and then update the cursor,
so the helpers are stated for records of exactly that shape (they are definitionally the records of
`sim_moveCursorI`). -/

theorem sim_cursorLc {t : Term.T} {e : Emu} {rows cols : Nat} (s : Sim t e rows cols)
    (tr tc : Nat) (r c : Int) (hr : (tr : Int) = r) (hc : (tc : Int) = c) (hr1 : tr < rows) (hc1 : tc < cols) :
    Sim { t with row := tr, col := tc, pw := false }
        { ({ e with lastCol := false } : Emu) with cur := { e.cur with row := r, col := c } } rows cols :=
  sim_moveCursorI s tr tc r c hr hc hr1 hc1 false

theorem sim_cursorNoPw {t : Term.T} {e : Emu} {rows cols : Nat} (s : Sim t e rows cols) (hp : t.pw = false)
    (tr tc : Nat) (r c : Int) (hr : (tr : Int) = r) (hc : (tc : Int) = c) (hr1 : tr < rows) (hc1 : tc < cols) :
    Sim { t with row := tr, col := tc }
        { ({ e with lastCol := false } : Emu) with cur := { e.cur with row := r, col := c } } rows cols := by
  have ht : ({ t with row := tr, col := tc } : Term.T) = { t with row := tr, col := tc, pw := false } := by
    rw [← hp]
  rw [ht]
  exact sim_cursorLc s tr tc r c hr hc hr1 hc1

theorem height_lc {e : Emu} {rows cols : Nat} (h : EmuInv e rows cols) : ({ e with lastCol := false } : Emu).height = rows :=
  height_eq (e := { e with lastCol := false }) { h with }
theorem width_lc {e : Emu} {rows cols : Nat} (h : EmuInv e rows cols) (hr : 1 ≤ rows) : ({ e with lastCol := false } : Emu).width = cols :=
  width_eq (e := { e with lastCol := false }) { h with } hr

/-- the invariant and simulation facts the arithmetic side goals need -/
local macro "c06_ctx" s:ident : tactic => `(tactic| (
  have := ($s).dim.r1; have := ($s).dim.c1; have := ($s).dim.rmax; have := ($s).dim.cmax
  have := ($s).trows; have := ($s).tcols; have := ($s).row; have := ($s).top; have := ($s).bottom
  have := ($s).inv.rowLo; have := ($s).inv.rowHi; have := ($s).inv.colLo; have := ($s).inv.colHi
  have := ($s).inv.topLo; have := ($s).inv.topLe; have := ($s).inv.botHi
  have := ($s).inv.left0; have := ($s).inv.right))

/-- unfold the clamps on both sides, split every `if`, finish with `omega` -/
local macro "c06_arith" hh:ident hw:ident : tactic => `(tactic| (
  simp only [Fixes.current, Bool.true_and, $hh:ident, $hw:ident, cp_eq, Term.absPos, Term.d1, dflt1,
    decide_eq_true_eq, Bool.not_eq_true', decide_eq_false_iff_not] at *
  (repeat' split) <;> omega))

theorem cup_refines2 {t : Term.T} {e : Emu} {rows cols : Nat} (s : Sim t e rows cols) (a b : Nat) :
    Refines (Term.step t (.cup a b)) (cup Fixes.current e [(cp a, []), (cp b, [])]) rows cols := by
  have hh := height_lc s.inv; have hw := width_lc s.inv s.dim.r1
  c06_ctx s
  unfold cup
  simp only [Term.step]
  refine refines_one ?_
  refine sim_cursorLc s _ _ _ _ ?_ ?_ ?_ ?_
  all_goals c06_arith hh hw

theorem cup_refines1 {t : Term.T} {e : Emu} {rows cols : Nat} (s : Sim t e rows cols) (a : Nat) :
    Refines (Term.step t (.cup a 0)) (cup Fixes.current e [(cp a, [])]) rows cols := by
  have hh := height_lc s.inv; have hw := width_lc s.inv s.dim.r1
  c06_ctx s
  unfold cup
  simp only [Term.step]
  refine refines_one ?_
  refine sim_cursorLc s _ _ _ _ ?_ ?_ ?_ ?_
  all_goals c06_arith hh hw

theorem cup_refines0 {t : Term.T} {e : Emu} {rows cols : Nat} (s : Sim t e rows cols) :
    Refines (Term.step t (.cup 0 0)) (cup Fixes.current e []) rows cols := by
  have hh := height_lc s.inv; have hw := width_lc s.inv s.dim.r1
  c06_ctx s
  unfold cup
  simp only [Term.step]
  refine refines_one ?_
  refine sim_cursorLc s _ _ _ _ ?_ ?_ ?_ ?_
  all_goals c06_arith hh hw

theorem cha_refines {t : Term.T} {e : Emu} {rows cols : Nat} (s : Sim t e rows cols) (n : Nat) :
    Refines (Term.step t (.cha n)) (cha e (cp n)) rows cols := by
  have hh := height_lc s.inv; have hw := width_lc s.inv s.dim.r1
  c06_ctx s
  unfold cha
  simp only [Term.step]
  refine refines_one ?_
  refine sim_cursorLc s t.row _ e.cur.row _ ?_ ?_ ?_ ?_
  all_goals c06_arith hh hw

theorem hpa_refines {t : Term.T} {e : Emu} {rows cols : Nat} (s : Sim t e rows cols) (n : Nat) :
    Refines (Term.step t (.cha n)) (hpa e (cp n)) rows cols := by
  have hh := height_lc s.inv; have hw := width_lc s.inv s.dim.r1
  c06_ctx s
  unfold hpa
  simp only [Term.step]
  refine refines_one ?_
  refine sim_cursorLc s t.row _ e.cur.row _ ?_ ?_ ?_ ?_
  all_goals c06_arith hh hw

theorem vpa_refines {t : Term.T} {e : Emu} {rows cols : Nat} (s : Sim t e rows cols) (n : Nat) :
    Refines (Term.step t (.vpa n)) (vpa Fixes.current e (cp n)) rows cols := by
  have hh := height_lc s.inv; have hw := width_lc s.inv s.dim.r1
  have := s.col
  c06_ctx s
  unfold vpa
  simp only [Term.step]
  refine refines_one ?_
  refine sim_cursorLc s _ t.col _ _ ?_ ?_ ?_ ?_
  all_goals c06_arith hh hw

theorem cuu_refines {t : Term.T} {e : Emu} {rows cols : Nat} (s : Sim t e rows cols) (n : Nat) :
    Refines (Term.step t (.cuu n)) (cuu e (cp n)) rows cols := by
  have hh := height_lc s.inv; have hw := width_lc s.inv s.dim.r1
  c06_ctx s
  unfold cuu
  simp only [Term.step]
  refine refines_unlessPw (fun hp => ?_)
  have := col_lt_of_not_pw s hp; have := tcol_eq s hp
  refine refines_one ?_
  unfold Term.T.cuuCore
  refine sim_cursorNoPw s hp _ t.col _ e.cur.col ?_ ?_ ?_ ?_
  all_goals c06_arith hh hw

theorem cud_refines {t : Term.T} {e : Emu} {rows cols : Nat} (s : Sim t e rows cols) (n : Nat) :
    Refines (Term.step t (.cud n)) (cud Fixes.current e (cp n)) rows cols := by
  have hh := height_lc s.inv; have hw := width_lc s.inv s.dim.r1
  c06_ctx s
  unfold cud
  simp only [Term.step]
  refine refines_unlessPw (fun hp => ?_)
  have := col_lt_of_not_pw s hp; have := tcol_eq s hp
  refine refines_one ?_
  unfold Term.T.cudCore
  refine sim_cursorNoPw s hp _ t.col _ e.cur.col ?_ ?_ ?_ ?_
  all_goals c06_arith hh hw

theorem cuf_refines {t : Term.T} {e : Emu} {rows cols : Nat} (s : Sim t e rows cols) (n : Nat) :
    Refines (Term.step t (.cuf n)) (cuf e (cp n)) rows cols := by
  have hh := height_lc s.inv; have hw := width_lc s.inv s.dim.r1
  c06_ctx s
  unfold cuf
  simp only [Term.step]
  refine refines_unlessPw (fun hp => ?_)
  have := col_lt_of_not_pw s hp; have := tcol_eq s hp
  refine refines_one ?_
  refine sim_cursorNoPw s hp t.row _ e.cur.row _ ?_ ?_ ?_ ?_
  all_goals c06_arith hh hw

theorem cub_refines {t : Term.T} {e : Emu} {rows cols : Nat} (s : Sim t e rows cols) (n : Nat) :
    Refines (Term.step t (.cub n)) (cub e (cp n)) rows cols := by
  have hh := height_lc s.inv; have hw := width_lc s.inv s.dim.r1
  c06_ctx s
  unfold cub
  simp only [Term.step]
  refine refines_unlessPw (fun hp => ?_)
  have := col_lt_of_not_pw s hp; have := tcol_eq s hp
  refine refines_one ?_
  refine sim_cursorNoPw s hp t.row _ e.cur.row _ ?_ ?_ ?_ ?_
  all_goals c06_arith hh hw

theorem cnl_refines {t : Term.T} {e : Emu} {rows cols : Nat} (s : Sim t e rows cols) (n : Nat) :
    ∃ e', cnl Fixes.current e (cp n) = .ok e' ∧ Refines (Term.step t (.cnl n)) e' rows cols := by
  have hh := height_lc s.inv; have hw := width_lc s.inv s.dim.r1
  c06_ctx s
  refine ⟨_, by unfold cnl; simp only [Fixes.current, if_true]; rfl, ?_⟩
  unfold cud
  simp only [Term.step]
  refine refines_unlessPw (fun hp => ?_)
  have := col_lt_of_not_pw s hp; have := tcol_eq s hp
  refine refines_one ?_
  unfold Term.T.cudCore
  refine sim_cursorNoPw s hp _ _ _ _ ?_ ?_ ?_ ?_
  all_goals c06_arith hh hw

theorem cpl_refines {t : Term.T} {e : Emu} {rows cols : Nat} (s : Sim t e rows cols) (n : Nat) :
    ∃ e', cpl Fixes.current e (cp n) = .ok e' ∧ Refines (Term.step t (.cpl n)) e' rows cols := by
  have hh := height_lc s.inv; have hw := width_lc s.inv s.dim.r1
  c06_ctx s
  refine ⟨_, by unfold cpl; simp only [Fixes.current, if_true]; rfl, ?_⟩
  unfold cuu
  simp only [Term.step]
  refine refines_unlessPw (fun hp => ?_)
  have := col_lt_of_not_pw s hp; have := tcol_eq s hp
  refine refines_one ?_
  unfold Term.T.cuuCore
  refine sim_cursorNoPw s hp _ _ _ _ ?_ ?_ ?_ ?_
  all_goals c06_arith hh hw

/-! ### DECSTBM

The reference accepts "clamped" or "ignored" for a bottom margin below the screen; the emulator
(with F17) clamps the bottom margin to the last line and then ignores the sequence when
`top ≥ bottom`. -/

theorem sim_setMargins {t : Term.T} {e : Emu} {rows cols : Nat} (s : Sim t e rows cols)
    (tt tb : Nat) (top bot : Int) (h1 : (tt : Int) = top) (h2 : (tb : Int) = bot) (hle : tt ≤ tb) (hb : tb < rows) :
    Sim { t with top := tt, bottom := tb, row := 0, col := 0, pw := false }
        { e with lastCol := false, top := top, bottom := bot, cur := { e.cur with row := 0, col := 0 } } rows cols := by
  subst h1; subst h2
  have := s.dim.r1; have := s.dim.c1
  exact
  { inv := { s.inv with rowLo := by simp, rowHi := by simp only; omega, colLo := by simp, colHi := by simp only; omega,
                        topLo := by simp only; omega, topLe := by simp only; omega, botHi := by simp only; omega }
    dim := s.dim, vm := ⟨s.vm.awm, s.vm.irm, s.vm.lnm, s.vm.ascii, s.vm.noShift⟩
    trows := s.trows, tcols := s.tcols, onAlt := s.onAlt
    row := rfl
    col := by simp only; split <;> omega
    pw := by simp only; symm; rw [decide_eq_false_iff_not]; omega
    pen := s.pen, link := s.link, top := rfl, bottom := rfl
    grid := s.grid }

/-- arithmetic side goals of DECSTBM -/
local macro "c06_marith" : tactic => `(tactic| (
  try simp only [cp_eq, Term.d1, Bool.or_eq_true, decide_eq_true_eq] at *
  (repeat' split) <;> omega))

theorem decstbm_refines2 {t : Term.T} {e : Emu} {rows cols : Nat} (s : Sim t e rows cols) (a b : Nat) :
    Refines (Term.step t (.decstbm a b)) (decstbm Fixes.current e [(cp a, []), (cp b, [])]) rows cols := by
  have hh := height_eq s.inv
  have := s.dim.r1; have := s.dim.rmax; have := s.trows
  unfold decstbm
  simp only [Term.step, Fixes.current, Bool.true_and, hh]
  obtain ⟨B, hB, hB0, hB1⟩ : ∃ B, B = (if b = 0 then t.rows else b) ∧ (b = 0 → B = t.rows) ∧ (b ≠ 0 → B = b) :=
    ⟨_, rfl, fun h => by simp [h], fun h => by simp [h]⟩
  obtain ⟨D, hD, hD0, hD1⟩ : ∃ D, D = Term.d1 a ∧ (a = 0 → D = 1) ∧ (a ≠ 0 → D = a) :=
    ⟨_, rfl, fun h => by simp [h, Term.d1], fun h => by simp [h, Term.d1]⟩
  rw [← hB, ← hD]
  clear hB hD
  by_cases hb : B ≤ t.rows
  · by_cases ht : D < B
    · rw [if_pos hb, if_pos ht, if_neg (by c06_marith)]
      refine refines_one ?_
      refine sim_setMargins s _ _ _ _ ?_ ?_ ?_ ?_
      all_goals c06_marith
    · rw [if_pos hb, if_neg ht, if_pos (by c06_marith)]
      exact refines_one s
  · by_cases ht : D < t.rows
    · rw [if_neg hb, if_pos ht, if_neg (by c06_marith)]
      refine ⟨_, List.mem_append_left _ (List.mem_singleton.mpr rfl), ?_⟩
      refine sim_setMargins s _ _ _ _ ?_ ?_ ?_ ?_
      all_goals c06_marith
    · rw [if_neg hb, if_neg ht, if_pos (by c06_marith)]
      exact ⟨t, List.mem_append_right _ (List.mem_singleton.mpr rfl), s⟩

theorem decstbm_refines1 {t : Term.T} {e : Emu} {rows cols : Nat} (s : Sim t e rows cols) (a : Nat) :
    Refines (Term.step t (.decstbm a 0)) (decstbm Fixes.current e [(cp a, [])]) rows cols := by
  have hh := height_eq s.inv
  have := s.dim.r1; have := s.dim.rmax; have := s.trows
  unfold decstbm
  simp only [Term.step, Fixes.current, Bool.true_and, hh, ↓reduceIte, Nat.le_refl]
  obtain ⟨D, hD, hD0, hD1⟩ : ∃ D, D = Term.d1 a ∧ (a = 0 → D = 1) ∧ (a ≠ 0 → D = a) :=
    ⟨_, rfl, fun h => by simp [h, Term.d1], fun h => by simp [h, Term.d1]⟩
  rw [← hD]
  clear hD
  by_cases ht : D < t.rows
  · rw [if_pos ht, if_neg (by c06_marith)]
    refine refines_one ?_
    refine sim_setMargins s _ _ _ _ ?_ ?_ ?_ ?_
    all_goals c06_marith
  · rw [if_neg ht, if_pos (by c06_marith)]
    exact refines_one s

theorem decstbm_refines0 {t : Term.T} {e : Emu} {rows cols : Nat} (s : Sim t e rows cols) :
    Refines (Term.step t (.decstbm 0 0)) (decstbm Fixes.current e []) rows cols := by
  have hh := height_eq s.inv
  have := s.dim.r1; have := s.dim.rmax; have := s.trows
  unfold decstbm
  simp only [Term.step, Fixes.current, Bool.true_and, hh, ↓reduceIte, Nat.le_refl, Term.d1]
  by_cases ht : 1 < t.rows
  · rw [if_pos ht, if_neg (by c06_marith)]
    refine refines_one ?_
    refine sim_setMargins s _ _ _ _ ?_ ?_ ?_ ?_
    all_goals c06_marith
  · rw [if_neg ht, if_pos (by c06_marith)]
    exact refines_one s

end VaxisModel.Lemmas.EmuRefine
