/-
C06 refinement, part 2: the erase operations (EL, ED, ECH).

First the FUNCTIONAL characterisation of the emulator's loops (what every cell of the grid is after
the loop, `cellAt`), by loop rules whose invariant may mention the loop index; then the connection
to the reference terminal (`blankRange` = `mapIdx`, `T.modRow` = `List.modify` + `healRow`).
-/
import VaxisModel.Lemmas.EmuRefine
import VaxisModel.Lemmas.EmuSafe3

namespace VaxisModel.Lemmas.EmuRefine
open VaxisModel.Model.Emu VaxisModel.Model.EmuAbs VaxisModel.Lemmas.Emu VaxisModel.Spec

/-- the parameter as csi() hands it to the handler (`cp` of EmuRefineCursor) -/
def cpE (n : Nat) : Int := clampParam (n : Int)

theorem cpE_eq (n : Nat) : cpE n = if n > 65535 then 65535 else (n : Int) := by
  unfold cpE clampParam maxParam
  split <;> split <;> omega

theorem cpE_ok (n : Nat) : POk (cpE n) := by
  rw [cpE_eq]; unfold POk; split <;> omega

end VaxisModel.Lemmas.EmuRefine

/-! Auxiliary lemmas live in their own namespace (sibling files of the C06 refinement define
    lemmas with similar names). -/
namespace VaxisModel.Lemmas.EmuRefine.EraseAux
open VaxisModel.Model.Emu VaxisModel.Model.EmuAbs VaxisModel.Lemmas.Emu VaxisModel.Spec

/-! ### loop rules with an invariant that mentions the index -/

theorem forUpGo_ix {σ : Type} (P : Int → σ → Prop) (body : Int → σ → M σ) :
    ∀ (n : Nat) (i0 : Int) (s : σ), P i0 s →
      (∀ i s, i0 ≤ i → i < i0 + n → P i s → ∃ s', body i s = .ok s' ∧ P (i + 1) s') →
      ∃ s', forUpGo body n i0 s = .ok s' ∧ P (i0 + n) s' := by
  intro n
  induction n with
  | zero => intro i0 s hs _; exact ⟨s, rfl, by simpa using hs⟩
  | succ n ih =>
    intro i0 s hs hb
    obtain ⟨s1, h1, hp1⟩ := hb i0 s (by omega) (by omega) hs
    obtain ⟨s2, h2, hp2⟩ := ih (i0 + 1) s1 hp1 (fun i s hi1 hi2 hp => hb i s (by omega) (by omega) hp)
    refine ⟨s2, by simp only [forUpGo, h1, bind, Except.bind, h2], ?_⟩
    have he : i0 + ((n + 1 : Nat) : Int) = i0 + 1 + (n : Int) := by omega
    rw [he]; exact hp2

/-- `for i := lo; i <= hi; i++` with `lo ≤ hi + 1`: from `P lo` to `P (hi + 1)`. -/
theorem forUp_ix {σ : Type} (P : Int → σ → Prop) (body : Int → σ → M σ) (lo hi : Int) (s : σ)
    (hle : lo ≤ hi + 1) (hn : hi + 1 - lo ≤ (hangLimit : Int)) (hs : P lo s)
    (hb : ∀ i s, lo ≤ i → i ≤ hi → P i s → ∃ s', body i s = .ok s' ∧ P (i + 1) s') :
    ∃ s', forUp body (lo := lo) (hi := hi) s = .ok s' ∧ P (hi + 1) s' := by
  unfold forUp
  have hle' : (hi + 1 - lo).toNat ≤ hangLimit := by omega
  simp only [hle', if_true]
  obtain ⟨s', h1, h2⟩ := forUpGo_ix P body (hi + 1 - lo).toNat lo s hs
    (fun i s h1 h2 hp => hb i s h1 (by omega) hp)
  refine ⟨s', h1, ?_⟩
  have he : lo + (((hi + 1 - lo).toNat : Nat) : Int) = hi + 1 := by omega
  rw [he] at h2; exact h2

theorem forUp_empty {σ : Type} (body : Int → σ → M σ) (lo hi : Int) (s : σ) (h : hi + 1 ≤ lo) :
    forUp body (lo := lo) (hi := hi) s = .ok s := by
  unfold forUp
  have h0 : (hi + 1 - lo).toNat = 0 := by omega
  simp only [h0, Nat.zero_le, if_true, forUpGo]

/-- Breaking loop: `P i s` holds on entry of iteration `i`; a `break` or the regular end of the loop
    establish `Q`. -/
theorem forUpBrkGo_ix {σ : Type} (P : Int → σ → Prop) (Q : σ → Prop) (body : Int → σ → M (σ × Bool)) :
    ∀ (n : Nat) (i0 : Int) (s : σ), P i0 s →
      (∀ i s, i0 ≤ i → i < i0 + n → P i s →
        ∃ r, body i s = .ok r ∧ (r.2 = true → P (i + 1) r.1) ∧ (r.2 = false → Q r.1)) →
      (∀ s, P (i0 + n) s → Q s) →
      ∃ r, forUpBrkGo body n i0 s = .ok r ∧ Q r.1 := by
  intro n
  induction n with
  | zero => intro i0 s hs _ he; exact ⟨(s, false), rfl, he s (by simpa using hs)⟩
  | succ n ih =>
    intro i0 s hs hb he
    obtain ⟨⟨s1, go⟩, h1, hp1, hq1⟩ := hb i0 s (by omega) (by omega) hs
    cases go with
    | false => exact ⟨(s1, true), by simp only [forUpBrkGo, h1, bind, Except.bind]; rfl, hq1 rfl⟩
    | true =>
      obtain ⟨r2, h2, hp2⟩ := ih (i0 + 1) s1 (hp1 rfl)
        (fun i s hi1 hi2 hp => hb i s (by omega) (by omega) hp)
        (fun s hp => he s (by
          have he : i0 + ((n + 1 : Nat) : Int) = i0 + 1 + (n : Int) := by omega
          rw [he]; exact hp))
      exact ⟨r2, by simp only [forUpBrkGo, h1, bind, Except.bind, h2, if_true], hp2⟩

theorem forUpBrk_ix {σ : Type} (P : Int → σ → Prop) (Q : σ → Prop) (body : Int → σ → M (σ × Bool))
    (lo hi : Int) (s : σ) (hle : lo ≤ hi + 1) (hn : hi + 1 - lo ≤ (hangLimit : Int)) (hs : P lo s)
    (hb : ∀ i s, lo ≤ i → i ≤ hi → P i s →
      ∃ r, body i s = .ok r ∧ (r.2 = true → P (i + 1) r.1) ∧ (r.2 = false → Q r.1))
    (he : ∀ s, P (hi + 1) s → Q s) :
    ∃ s', forUpBrk body (lo := lo) (hi := hi) s = .ok s' ∧ Q s' := by
  unfold forUpBrk
  have hle' : (hi + 1 - lo).toNat ≤ hangLimit := by omega
  simp only [hle', if_true]
  obtain ⟨r, hr, hq⟩ := forUpBrkGo_ix P Q body (hi + 1 - lo).toNat lo s hs
    (fun i s h1 h2 hp => hb i s h1 (by omega) hp)
    (fun s hp => he s (by
      have he : lo + (((hi + 1 - lo).toNat : Nat) : Int) = hi + 1 := by omega
      rw [he] at hp; exact hp))
  exact ⟨r.1, by rw [hr]; rfl, hq⟩

/-! ### cells of a grid -/

/-- The cell at row `i`, column `j` (`none` outside the grid). -/
def cellAt (g : Grid) (i j : Nat) : Option ECell :=
  match g[i]? with
  | some row => row[j]?
  | none => none

theorem cellAt_of_row {g : Grid} {i : Nat} {row : Row} (h : g[i]? = some row) (j : Nat) :
    cellAt g i j = row[j]? := by
  unfold cellAt; rw [h]

theorem getI_eq {α : Type} (l : List α) (i : Int) (h0 : 0 ≤ i) (h1 : i.toNat < l.length) :
    getI l i = .ok l[i.toNat] := by
  unfold getI
  simp only [h0, if_true, List.getElem?_eq_getElem h1]

/-- `g[r][c] = f(g[r][c])`, cell by cell. -/
theorem modCell_spec {g : Grid} {rows cols : Nat} (h : GridOk g rows cols) (r c : Int) (f : ECell → ECell)
    (hr0 : 0 ≤ r) (hr1 : r < rows) (hc0 : 0 ≤ c) (hc1 : c < cols) :
    ∃ g', modCell g r c f = .ok g' ∧ GridOk g' rows cols ∧
      ∀ i j, cellAt g' i j =
        if (i : Int) = r ∧ (j : Int) = c then (cellAt g i j).map f else cellAt g i j := by
  obtain ⟨r', rfl⟩ := Int.eq_ofNat_of_zero_le hr0
  obtain ⟨c', rfl⟩ := Int.eq_ofNat_of_zero_le hc0
  have hrl : r' < g.length := by rw [h.len]; omega
  have hlen : (g[r']).length = cols := h.rowLen _ (List.getElem_mem hrl)
  have hcl : c' < (g[r']).length := by rw [hlen]; omega
  have e1 := getI_eq g (r' : Int) hr0 (by simpa using hrl)
  have e2 := getI_eq (g[r']) (c' : Int) hc0 (by simpa using hcl)
  simp only [Int.toNat_natCast] at e1 e2
  have hs := setI_ok (g[r']) (c' : Int) (f (g[r'])[c']) hc0 (by omega)
  have hs2 := setI_ok g (r' : Int) ((g[r']).set c' (f (g[r'])[c'])) hr0 (by omega)
  simp only [Int.toNat_natCast] at hs hs2
  refine ⟨g.set r' ((g[r']).set c' (f (g[r'])[c'])),
    by unfold modCell; simp only [e1, e2, hs, hs2, bind, Except.bind], gridOk_set h _ _ (by simp [hlen]), ?_⟩
  intro i j
  unfold cellAt
  by_cases hi : i = r'
  · subst hi
    simp only [List.getElem?_set_self hrl, List.getElem?_eq_getElem hrl]
    by_cases hj : j = c'
    · subst hj
      simp [List.getElem?_set_self hcl, List.getElem?_eq_getElem hcl]
    · have hj' : c' ≠ j := fun h => hj h.symm
      have hj2 : ¬ ((j : Int) = (c' : Int)) := by omega
      simp [List.getElem?_set_ne hj', hj2]
  · have hi' : r' ≠ i := fun h => hi h.symm
    have hi2 : ¬ ((i : Int) = (r' : Int)) := by omega
    simp [List.getElem?_set_ne hi', hi2]

theorem ite_iff {α : Type} {A B : Prop} [Decidable A] [Decidable B] (h : A ↔ B) (x y : α) :
    (if A then x else y) = if B then x else y := by
  by_cases hA : A
  · rw [if_pos hA, if_pos (h.mp hA)]
  · rw [if_neg hA, if_neg (fun hB => hA (h.mpr hB))]

/-! ### one row: erase the columns `lo..hi` except those with `skip` -/

theorem colLoop_spec {g : Grid} {rows cols : Nat} (h : GridOk g rows cols) (r lo hi : Int) (bg : Nat)
    (skip : Int → Prop) [DecidablePred skip]
    (hr0 : 0 ≤ r) (hr1 : r < rows) (hlo : 0 ≤ lo) (hhi : hi < cols) (hc : (cols : Int) ≤ hangLimit) :
    ∃ g', forUp lo hi (fun c g => if skip c then .ok g else modCell g r c (·.erase bg)) g = .ok g' ∧
      GridOk g' rows cols ∧
      ∀ i j, cellAt g' i j =
        if (i : Int) = r ∧ lo ≤ (j : Int) ∧ (j : Int) ≤ hi ∧ ¬ skip j
        then (cellAt g i j).map (·.erase bg) else cellAt g i j := by
  by_cases hle : lo ≤ hi + 1
  · obtain ⟨g', h1, h2, h3⟩ := forUp_ix
      (fun k s => GridOk s rows cols ∧ ∀ i j, cellAt s i j =
        if (i : Int) = r ∧ lo ≤ (j : Int) ∧ (j : Int) < k ∧ ¬ skip j
        then (cellAt g i j).map (·.erase bg) else cellAt g i j)
      (fun c g => if skip c then .ok g else modCell g r c (·.erase bg)) lo hi g hle (by omega)
      ⟨h, fun i j => by rw [if_neg (fun hh => by omega)]⟩
      (by
        intro k s hk0 hk1 ⟨hs, hP⟩
        by_cases hskip : skip k
        · refine ⟨s, by simp only [hskip, if_true], hs, ?_⟩
          intro i j
          rw [hP i j]
          apply ite_iff
          constructor
          · rintro ⟨a, b, c, d⟩; exact ⟨a, b, by omega, d⟩
          · rintro ⟨a, b, c, d⟩
            refine ⟨a, b, ?_, d⟩
            by_cases hjk : (j : Int) = k
            · subst hjk; exact absurd hskip d
            · omega
        · obtain ⟨s', e1, hs', hm⟩ := modCell_spec hs r k (·.erase bg) hr0 hr1 (by omega) (by omega)
          refine ⟨s', by simp only [hskip, if_false]; exact e1, hs', ?_⟩
          intro i j
          rw [hm i j, hP i j]
          by_cases h1 : (i : Int) = r ∧ (j : Int) = k
          · obtain ⟨hi, hj⟩ := h1
            subst hj
            rw [if_pos ⟨hi, rfl⟩, if_neg (fun hh => by omega), if_pos ⟨hi, hk0, by omega, hskip⟩]
          · rw [if_neg h1]
            apply ite_iff
            constructor
            · rintro ⟨a, b, c, d⟩; exact ⟨a, b, by omega, d⟩
            · rintro ⟨a, b, c, d⟩; exact ⟨a, b, by omega, d⟩)
    refine ⟨g', h1, h2, fun i j => ?_⟩
    rw [h3 i j]
    apply ite_iff
    constructor
    · rintro ⟨a, b, c, d⟩; exact ⟨a, b, by omega, d⟩
    · rintro ⟨a, b, c, d⟩; exact ⟨a, b, by omega, d⟩
  · refine ⟨g, forUp_empty _ lo hi g (by omega), h, fun i j => ?_⟩
    rw [if_neg (fun hh => by omega)]

/-- erase `g[r][lo..hi]`, cell by cell. -/
theorem eraseCols_spec {g : Grid} {rows cols : Nat} (h : GridOk g rows cols) (r lo hi : Int) (bg : Nat)
    (hr0 : 0 ≤ r) (hr1 : r < rows) (hlo : 0 ≤ lo) (hhi : hi < cols) (hc : (cols : Int) ≤ hangLimit) :
    ∃ g', eraseCols g r lo hi bg = .ok g' ∧ GridOk g' rows cols ∧
      ∀ i j, cellAt g' i j =
        if (i : Int) = r ∧ lo ≤ (j : Int) ∧ (j : Int) ≤ hi
        then (cellAt g i j).map (·.erase bg) else cellAt g i j := by
  obtain ⟨g', h1, h2, h3⟩ := colLoop_spec h r lo hi bg (fun _ => False) hr0 hr1 hlo hhi hc
  simp only [if_false] at h1
  refine ⟨g', h1, h2, fun i j => ?_⟩
  rw [h3 i j]
  apply ite_iff
  constructor
  · rintro ⟨a, b, c, _⟩; exact ⟨a, b, c⟩
  · rintro ⟨a, b, c⟩; exact ⟨a, b, c, fun hf => hf⟩

/-- The same with a `break` at the first column with `brk` (monotone): the columns from there on are
    not erased. -/
theorem brkLoop_spec {g : Grid} {rows cols : Nat} (h : GridOk g rows cols) (r lo hi : Int) (bg : Nat)
    (brk : Int → Prop) [DecidablePred brk] (hmono : ∀ a b, brk a → a ≤ b → brk b)
    (hr0 : 0 ≤ r) (hr1 : r < rows) (hlo : 0 ≤ lo) (hhi : hi < cols) (hle : lo ≤ hi + 1)
    (hc : (cols : Int) ≤ hangLimit) :
    ∃ g', forUpBrk lo hi (fun c g =>
        if brk c then .ok (g, false)
        else do
          let g' ← modCell g r c (·.erase bg)
          .ok (g', true)) g = .ok g' ∧
      GridOk g' rows cols ∧
      ∀ i j, cellAt g' i j =
        if (i : Int) = r ∧ lo ≤ (j : Int) ∧ (j : Int) ≤ hi ∧ ¬ brk j
        then (cellAt g i j).map (·.erase bg) else cellAt g i j := by
  refine forUpBrk_ix
    (fun k s => GridOk s rows cols ∧ (∀ k', lo ≤ k' → k' < k → ¬ brk k') ∧ ∀ i j, cellAt s i j =
      if (i : Int) = r ∧ lo ≤ (j : Int) ∧ (j : Int) < k
      then (cellAt g i j).map (·.erase bg) else cellAt g i j)
    (fun s => GridOk s rows cols ∧ ∀ i j, cellAt s i j =
      if (i : Int) = r ∧ lo ≤ (j : Int) ∧ (j : Int) ≤ hi ∧ ¬ brk j
      then (cellAt g i j).map (·.erase bg) else cellAt g i j)
    _ lo hi g hle (by omega)
    ⟨h, fun k' a b => by omega, fun i j => by rw [if_neg (fun hh => by omega)]⟩ ?_ ?_
  · intro k s hk0 hk1 ⟨hs, hnb, hP⟩
    by_cases hb : brk k
    · refine ⟨(s, false), by simp only [hb, if_true], fun hf => by simp at hf, fun _ => ⟨hs, fun i j => ?_⟩⟩
      show cellAt s i j = _
      rw [hP i j]
      apply ite_iff
      constructor
      · rintro ⟨a, b, c⟩; exact ⟨a, b, by omega, hnb _ b c⟩
      · rintro ⟨a, b, c, d⟩
        refine ⟨a, b, ?_⟩
        by_cases hjk : (j : Int) < k
        · exact hjk
        · exact absurd (hmono k j hb (by omega)) d
    · obtain ⟨s', e1, hs', hm⟩ := modCell_spec hs r k (·.erase bg) hr0 hr1 (by omega) (by omega)
      refine ⟨(s', true), by simp only [hb, if_false, e1, bind, Except.bind], fun _ => ⟨hs', ?_, fun i j => ?_⟩,
        fun hf => by simp at hf⟩
      · intro k' a b
        by_cases hkk : k' = k
        · subst hkk; exact hb
        · exact hnb k' a (by omega)
      · show cellAt s' i j = _
        rw [hm i j, hP i j]
        by_cases h1 : (i : Int) = r ∧ (j : Int) = k
        · obtain ⟨hi, hj⟩ := h1
          subst hj
          rw [if_pos ⟨hi, rfl⟩, if_neg (fun hh => by omega), if_pos ⟨hi, hk0, by omega⟩]
        · rw [if_neg h1]
          apply ite_iff
          constructor
          · rintro ⟨a, b, c⟩; exact ⟨a, b, by omega⟩
          · rintro ⟨a, b, c⟩; exact ⟨a, b, by omega⟩
  · intro s ⟨hs, hnb, hP⟩
    refine ⟨hs, fun i j => ?_⟩
    rw [hP i j]
    apply ite_iff
    constructor
    · rintro ⟨a, b, c⟩; exact ⟨a, b, by omega, hnb _ b c⟩
    · rintro ⟨a, b, c, d⟩; exact ⟨a, b, by omega⟩

/-! ### several rows -/

/-- An outer loop over the rows `rlo..rhi` whose body erases the cells `C r ·` of row `r`. -/
theorem rowsLoop_spec {g : Grid} {rows cols : Nat} (h : GridOk g rows cols) (rlo rhi : Int) (bg : Nat)
    (inner : Int → Grid → M Grid) (C : Int → Nat → Prop) [∀ r j, Decidable (C r j)]
    (hle : rlo ≤ rhi + 1) (hn : rhi + 1 - rlo ≤ (hangLimit : Int))
    (hinner : ∀ r s, rlo ≤ r → r ≤ rhi → GridOk s rows cols →
      ∃ s', inner r s = .ok s' ∧ GridOk s' rows cols ∧
        ∀ i j, cellAt s' i j =
          if (i : Int) = r ∧ C r j then (cellAt s i j).map (·.erase bg) else cellAt s i j) :
    ∃ g', forUp rlo rhi inner g = .ok g' ∧ GridOk g' rows cols ∧
      ∀ i j, cellAt g' i j =
        if rlo ≤ (i : Int) ∧ (i : Int) ≤ rhi ∧ C i j
        then (cellAt g i j).map (·.erase bg) else cellAt g i j := by
  obtain ⟨g', h1, h2, h3⟩ := forUp_ix
    (fun k s => GridOk s rows cols ∧ ∀ i j, cellAt s i j =
      if rlo ≤ (i : Int) ∧ (i : Int) < k ∧ C i j
      then (cellAt g i j).map (·.erase bg) else cellAt g i j)
    inner rlo rhi g hle hn ⟨h, fun i j => by rw [if_neg (fun hh => by omega)]⟩
    (by
      intro k s hk0 hk1 ⟨hs, hP⟩
      obtain ⟨s', e1, hs', hm⟩ := hinner k s hk0 hk1 hs
      refine ⟨s', e1, hs', fun i j => ?_⟩
      rw [hm i j, hP i j]
      by_cases hik : (i : Int) = k
      · subst hik
        by_cases hC : C (i : Int) j
        · rw [if_pos ⟨rfl, hC⟩, if_neg (fun hh => by omega), if_pos ⟨hk0, by omega, hC⟩]
        · rw [if_neg (fun hh => hC hh.2), if_neg (fun hh => by omega), if_neg (fun hh => hC hh.2.2)]
      · rw [if_neg (fun hh => hik hh.1)]
        apply ite_iff
        constructor
        · rintro ⟨a, b, c⟩; exact ⟨a, by omega, c⟩
        · rintro ⟨a, b, c⟩; exact ⟨a, by omega, c⟩)
  refine ⟨g', h1, h2, fun i j => ?_⟩
  rw [h3 i j]
  apply ite_iff
  constructor
  · rintro ⟨a, b, c⟩; exact ⟨a, by omega, c⟩
  · rintro ⟨a, b, c⟩; exact ⟨a, by omega, c⟩

/-! ### acceptance, cell by cell -/

theorem all_zip_iff {α β : Type} (p : α × β → Bool) : ∀ (l1 : List α) (l2 : List β),
    (l1.zip l2).all p = true ↔ ∀ (i : Nat) (a : α) (b : β), l1[i]? = some a → l2[i]? = some b → p (a, b) = true := by
  intro l1
  induction l1 with
  | nil => intro l2; simp
  | cons x xs ih =>
    intro l2
    cases l2 with
    | nil => simp
    | cons y ys =>
      simp only [List.zip_cons_cons, List.all_cons, Bool.and_eq_true, ih]
      constructor
      · rintro ⟨h0, hs⟩ i a b ha hb
        cases i with
        | zero =>
          simp only [List.getElem?_cons_zero, Option.some.injEq] at ha hb
          subst ha; subst hb; exact h0
        | succ i =>
          simp only [List.getElem?_cons_succ] at ha hb
          exact hs i a b ha hb
      · intro hh
        exact ⟨hh 0 x y (by simp) (by simp), fun i a b ha hb => hh (i + 1) a b (by simpa using ha) (by simpa using hb)⟩

theorem rowAccepts_iff (tr ar : Term.TRow) :
    Term.rowAccepts tr ar = true ↔
      tr.length = ar.length ∧ ∀ (j : Nat) (a b : Term.TCell), tr[j]? = some a → ar[j]? = some b → a.accepts b = true := by
  unfold Term.rowAccepts
  simp only [Bool.and_eq_true, decide_eq_true_eq, all_zip_iff]

theorem gridAccepts_iff (tg ag : Term.TGrid) :
    Term.gridAccepts tg ag = true ↔
      tg.length = ag.length ∧ ∀ (i : Nat) (a b : Term.TRow), tg[i]? = some a → ag[i]? = some b → Term.rowAccepts a b = true := by
  unfold Term.gridAccepts
  simp only [Bool.and_eq_true, decide_eq_true_eq, all_zip_iff]

/-- Row by row: if every new reference row accepts the new emulator row whenever the old reference
    row accepted the old emulator row, the new reference grid accepts the new emulator grid. -/
theorem gridAccepts_of_rows {tg tg' : Term.TGrid} {g g' : Grid} {rows cols : Nat}
    (hg : GridOk g rows cols) (hg' : GridOk g' rows cols)
    (hacc : Term.gridAccepts tg (g.map absRow) = true) (hlen : tg'.length = tg.length)
    (hrow : ∀ (i : Nat) (tr tr' : Term.TRow) (row row' : Row), tg[i]? = some tr → tg'[i]? = some tr' → g[i]? = some row →
      g'[i]? = some row' → Term.rowAccepts tr (absRow row) = true →
      Term.rowAccepts tr' (absRow row') = true) :
    Term.gridAccepts tg' (g'.map absRow) = true := by
  rw [gridAccepts_iff] at hacc ⊢
  obtain ⟨hl, ha⟩ := hacc
  simp only [List.length_map] at hl ⊢
  refine ⟨by rw [hlen, hl, hg.len, hg'.len], ?_⟩
  intro i tr' ar' htr' har'
  rw [List.getElem?_map] at har'
  have hi : i < tg'.length := by
    rcases Nat.lt_or_ge i tg'.length with h | h
    · exact h
    · rw [List.getElem?_eq_none_iff.mpr h] at htr'; cases htr'
  have hi1 : i < tg.length := by omega
  have hi2 : i < g.length := by omega
  have hi3 : i < g'.length := by rw [hg'.len, ← hg.len]; exact hi2
  rw [List.getElem?_eq_getElem hi3] at har'
  simp only [Option.map_some, Option.some.injEq] at har'
  subst har'
  exact hrow i tg[i] tr' g[i] g'[i] (List.getElem?_eq_getElem hi1) htr' (List.getElem?_eq_getElem hi2)
    (List.getElem?_eq_getElem hi3)
    (ha i tg[i] (absRow g[i]) (List.getElem?_eq_getElem hi1) (by rw [List.getElem?_map, List.getElem?_eq_getElem hi2]; rfl))

/-- A row none of whose cells changed is the same row. -/
theorem row_same {g g' : Grid} {i : Nat} {row row' : Row} (hr : g[i]? = some row) (hr' : g'[i]? = some row')
    (h : ∀ j, cellAt g' i j = cellAt g i j) : row' = row := by
  apply List.ext_getElem?
  intro j
  rw [← cellAt_of_row hr' j, ← cellAt_of_row hr j]; exact h j

/-- The cells with `P` were erased, the others kept: the reference row with blanks at `P` accepts. -/
theorem row_blank {tr : Term.TRow} {row row' : Row} (bg : Nat) (P : Nat → Prop) [DecidablePred P]
    (hacc : Term.rowAccepts tr (absRow row) = true) (hlen : row'.length = row.length)
    (h : ∀ j, row'[j]? = if P j then (row[j]?).map (·.erase bg) else row[j]?) :
    Term.rowAccepts (tr.mapIdx fun j c => if P j then .blank (absCol bg) else c) (absRow row') = true := by
  rw [rowAccepts_iff] at hacc ⊢
  obtain ⟨hl, ha⟩ := hacc
  unfold absRow at hl ha ⊢
  simp only [List.length_map, List.length_mapIdx] at hl ⊢
  refine ⟨by omega, ?_⟩
  intro j a b hja hjb
  rw [List.getElem?_mapIdx] at hja
  rw [List.getElem?_map, h j] at hjb
  cases htr : tr[j]? with
  | none => rw [htr] at hja; cases hja
  | some c0 =>
    rw [htr] at hja
    simp only [Option.map_some, Option.some.injEq] at hja
    cases hrow : row[j]? with
    | none => rw [hrow] at hjb; simp at hjb
    | some x0 =>
      rw [hrow] at hjb
      by_cases hP : P j
      · simp only [hP, if_true, Option.map_some, Option.some.injEq] at hja hjb
        subst hja; subst hjb
        exact accepts_blank_erase x0 bg
      · simp only [hP, if_false, Option.map_some, Option.some.injEq] at hja hjb
        subst hja; subst hjb
        exact ha j c0 (absCell x0) htr (by rw [List.getElem?_map, hrow]; rfl)

/-- Every cell was erased: the blank reference row accepts. -/
theorem row_allblank {row row' : Row} (bg cols : Nat) (hlen : row'.length = cols)
    (h : ∀ j : Nat, j < cols → row'[j]? = (row[j]?).map (·.erase bg)) :
    Term.rowAccepts (List.replicate cols (.blank (absCol bg))) (absRow row') = true := by
  rw [rowAccepts_iff]
  unfold absRow
  simp only [List.length_map, List.length_replicate]
  refine ⟨hlen.symm, ?_⟩
  intro j a b hja hjb
  rw [List.getElem?_replicate] at hja
  split at hja
  · rename_i hj
    rw [List.getElem?_map, h j hj] at hjb
    simp only [Option.some.injEq] at hja
    subst hja
    cases hrow : row[j]? with
    | none => rw [hrow] at hjb; simp at hjb
    | some x0 =>
      rw [hrow] at hjb
      simp only [Option.map_some, Option.some.injEq] at hjb
      subst hjb
      exact accepts_blank_erase x0 bg
  · cases hja

theorem rowLen_of_getElem? {g : Grid} {rows cols : Nat} (h : GridOk g rows cols) {i : Nat} {row : Row}
    (hr : g[i]? = some row) : row.length = cols :=
  h.rowLen _ (List.mem_of_getElem? hr)

/-! ### the reference side -/

theorem grid_setGrid (t : Term.T) (X : Term.TGrid) : (t.setGrid X).grid = X := by
  unfold Term.T.setGrid Term.T.grid; split <;> simp_all

theorem setGrid_setGrid (t : Term.T) (X Y : Term.TGrid) : (t.setGrid X).setGrid Y = t.setGrid Y := by
  by_cases h : t.onAlt = true <;> simp [Term.T.setGrid, h]

theorem setActive_lastCol_comm (e : Emu) (g : Grid) (b : Bool) :
    ({ e with lastCol := b } : Emu).setActive g = { (e.setActive g) with lastCol := b } := by
  unfold Emu.setActive; simp only; split <;> rfl

/-- Both sides store a new active grid; the emulator also clears `lastCol`. -/
theorem sim_eraseGrid {t : Term.T} {e : Emu} {rows cols : Nat} (s : Sim t e rows cols)
    (tg : Term.TGrid) (g : Grid) (hg : GridOk g rows cols)
    (hacc : Term.gridAccepts tg (g.map absRow) = true) :
    Sim (t.setGrid tg) (({ e with lastCol := false } : Emu).setActive g) rows cols := by
  rw [setActive_lastCol_comm]; exact sim_setGrid s tg g hg hacc false

/-- The emulator does not panic at all; where the reference constrains the result (no pending wrap)
    the emulator's result is simulated. -/
theorem refines_of_safe {t : Term.T} {f : Term.T → Term.Res} {rows cols : Nat} {r : M Emu}
    (hs : Safe rows cols r)
    (h : t.pw = false → ∃ e', r = .ok e' ∧ Refines (f t) e' rows cols) :
    ∃ e', r = .ok e' ∧ Refines (Term.unlessPw t f) e' rows cols := by
  obtain ⟨e', he', _⟩ := hs
  refine ⟨e', he', refines_unlessPw fun hp => ?_⟩
  obtain ⟨e'', he'', hr⟩ := h hp
  rw [he'] at he''
  cases he''
  exact hr

/-! ### EL -/

theorem el_0 (fx : Fixes) (e : Emu) : el fx e 0 =
    (eraseCols e.active e.cur.row e.cur.col (e.width - 1) e.bg >>= fun g =>
      .ok (({ e with lastCol := false } : Emu).setActive g)) := rfl

theorem el_1 (e : Emu) : el Fixes.current e 1 =
    (eraseCols e.active e.cur.row 0 (if e.cur.col ≥ e.width then e.width - 1 else e.cur.col) e.bg >>= fun g =>
      .ok (({ e with lastCol := false } : Emu).setActive g)) := by
  unfold el
  simp [Fixes.current]
  rfl

theorem el_2 (fx : Fixes) (e : Emu) : el fx e 2 =
    (eraseCols e.active e.cur.row 0 (e.width - 1) e.bg >>= fun g =>
      .ok (({ e with lastCol := false } : Emu).setActive g)) := rfl

/-- The grid part of EL / ECH and of the cursor row of ED: the row `t.row` is replaced by
    `healRow (blankRange …)` in the reference, the cells `lo..hi` of the cursor row are erased in
    the emulator. -/
theorem acc_modRow_blank {t : Term.T} {e : Emu} {rows cols : Nat} (s : Sim t e rows cols)
    {g' : Grid} (hg' : GridOk g' rows cols) (lo hi : Nat) (P : Nat → Prop) [DecidablePred P]
    (hP : ∀ j, P j ↔ lo ≤ j ∧ j < hi)
    (hc : ∀ i j, cellAt g' i j =
      if (i : Int) = e.cur.row ∧ P j then (cellAt e.active i j).map (·.erase e.bg) else cellAt e.active i j) :
    Term.gridAccepts (t.grid.modify t.row fun row => Term.healRow (Term.blankRange row lo hi t.blank))
      (g'.map absRow) = true := by
  have hg := active_ok s.inv
  have hrow := s.row
  refine gridAccepts_of_rows hg hg' s.grid (by rw [List.length_modify]) ?_
  intro i tr tr' row row' htr htr' hr hr' hacc
  rw [List.getElem?_modify, htr] at htr'
  simp only [Option.map_eq_map, Option.map_some, Option.some.injEq] at htr'
  subst htr'
  by_cases hti : t.row = i
  · rw [if_pos hti]
    apply healRow_accepts
    unfold Term.blankRange
    rw [blank_eq s]
    have := row_blank (row' := row') e.bg P hacc (by rw [rowLen_of_getElem? hg hr, rowLen_of_getElem? hg' hr'])
      (by
        intro j
        rw [← cellAt_of_row hr' j, ← cellAt_of_row hr j, hc i j]
        apply ite_iff
        constructor
        · rintro ⟨_, b⟩; exact b
        · intro b; exact ⟨by omega, b⟩)
    have he : (fun j c => if P j then Term.TCell.blank (absCol e.bg) else c) =
        (fun j c => if lo ≤ j ∧ j < hi then Term.TCell.blank (absCol e.bg) else c) := by
      funext j c; exact ite_iff (hP j) _ _
    rw [← he]; exact this
  · rw [if_neg hti]
    have := row_same hr hr' (fun j => by rw [hc i j, if_neg (fun hh => by omega)])
    subst this
    exact hacc

/-! ### ECH -/

/-- The loop of ech(): `m` cells from column `c`, stopping at the end of the line. -/
theorem echLoop_spec {g : Grid} {rows cols : Nat} (h : GridOk g rows cols) (r c m : Int) (bg : Nat)
    (hr0 : 0 ≤ r) (hr1 : r < rows) (hc0 : 0 ≤ c) (hc1 : c ≤ cols) (hm0 : 1 ≤ m)
    (hm1 : m ≤ (hangLimit : Int)) :
    ∃ g', forUpBrk 0 (m - 1) (fun i g =>
        if c + i = (cols : Int) then .ok (g, false)
        else do
          let g' ← modCell g r (c + i) (·.erase bg)
          .ok (g', true)) g = .ok g' ∧
      GridOk g' rows cols ∧
      ∀ i j, cellAt g' i j =
        if (i : Int) = r ∧ c ≤ (j : Int) ∧ (j : Int) < c + m ∧ (j : Int) < cols
        then (cellAt g i j).map (·.erase bg) else cellAt g i j := by
  refine forUpBrk_ix
    (fun k s => c + k ≤ cols ∧ GridOk s rows cols ∧ ∀ i j, cellAt s i j =
      if (i : Int) = r ∧ c ≤ (j : Int) ∧ (j : Int) < c + k
      then (cellAt g i j).map (·.erase bg) else cellAt g i j)
    (fun s => GridOk s rows cols ∧ ∀ i j, cellAt s i j =
      if (i : Int) = r ∧ c ≤ (j : Int) ∧ (j : Int) < c + m ∧ (j : Int) < cols
      then (cellAt g i j).map (·.erase bg) else cellAt g i j)
    _ 0 (m - 1) g (by omega) (by omega)
    ⟨by omega, h, fun i j => by rw [if_neg (fun hh => by omega)]⟩ ?_ ?_
  · intro k s hk0 hk1 ⟨hck, hs, hP⟩
    by_cases hb : c + k = (cols : Int)
    · refine ⟨(s, false), by simp only [hb, if_true], fun hf => by simp at hf, fun _ => ⟨hs, fun i j => ?_⟩⟩
      show cellAt s i j = _
      rw [hP i j]
      apply ite_iff
      constructor
      · rintro ⟨a, b, c⟩; exact ⟨a, b, by omega, by omega⟩
      · rintro ⟨a, b, c, d⟩; exact ⟨a, b, by omega⟩
    · obtain ⟨s', e1, hs', hm⟩ := modCell_spec hs r (c + k) (·.erase bg) hr0 hr1 (by omega) (by omega)
      refine ⟨(s', true), by simp only [hb, if_false, e1, bind, Except.bind],
        fun _ => ⟨by show c + (k + 1) ≤ (cols : Int); omega, hs', fun i j => ?_⟩, fun hf => by simp at hf⟩
      show cellAt s' i j = _
      rw [hm i j, hP i j]
      by_cases h1 : (i : Int) = r ∧ (j : Int) = c + k
      · obtain ⟨hi, hj⟩ := h1
        rw [if_pos ⟨hi, hj⟩, if_neg (fun hh => by omega), if_pos ⟨hi, by omega, by omega⟩]
      · rw [if_neg h1]
        apply ite_iff
        constructor
        · rintro ⟨a, b, c⟩; exact ⟨a, b, by omega⟩
        · rintro ⟨a, b, c⟩; exact ⟨a, b, by omega⟩
  · intro s ⟨hck, hs, hP⟩
    refine ⟨hs, fun i j => ?_⟩
    rw [hP i j]
    apply ite_iff
    constructor
    · rintro ⟨a, b, c⟩; exact ⟨a, b, by omega, by omega⟩
    · rintro ⟨a, b, c, d⟩; exact ⟨a, b, by omega⟩

theorem ech_eq (e : Emu) (n : Int) : ech e n =
    (forUpBrk 0 (dflt1 n - 1) (fun i g =>
        if e.cur.col + i = e.width then .ok (g, false)
        else do
          let g' ← modCell g e.cur.row (e.cur.col + i) (·.erase e.bg)
          .ok (g', true)) e.active >>= fun g =>
      .ok (({ e with lastCol := false } : Emu).setActive g)) := rfl

/-! ### ED -/

theorem cellAt_none {g : Grid} {rows cols : Nat} (h : GridOk g rows cols) (i j : Nat) (hj : cols ≤ j) :
    cellAt g i j = none := by
  unfold cellAt
  cases hr : g[i]? with
  | none => rfl
  | some row =>
    simp only
    rw [List.getElem?_eq_none_iff, rowLen_of_getElem? h hr]; exact hj

theorem lt_rows_of_getElem? {g : Grid} {rows cols : Nat} (h : GridOk g rows cols) {i : Nat} {row : Row}
    (hr : g[i]? = some row) : i < rows := by
  rcases Nat.lt_or_ge i g.length with h1 | h1
  · rw [← h.len]; exact h1
  · rw [List.getElem?_eq_none_iff.mpr h1] at hr; cases hr

theorem row_same_b {g g' : Grid} {rows cols : Nat} (hg : GridOk g rows cols) (hg' : GridOk g' rows cols)
    {i : Nat} {row row' : Row} (hr : g[i]? = some row) (hr' : g'[i]? = some row')
    (h : ∀ j, j < cols → cellAt g' i j = cellAt g i j) : row' = row := by
  refine row_same hr hr' (fun j => ?_)
  by_cases hj : j < cols
  · exact h j hj
  · rw [cellAt_none hg' i j (by omega), cellAt_none hg i j (by omega)]

theorem row_blank_b {g g' : Grid} {rows cols : Nat} (hg : GridOk g rows cols) (hg' : GridOk g' rows cols)
    {i : Nat} {tr : Term.TRow} {row row' : Row} (hr : g[i]? = some row) (hr' : g'[i]? = some row')
    (bg : Nat) (P : Nat → Prop) [DecidablePred P]
    (hacc : Term.rowAccepts tr (absRow row) = true)
    (h : ∀ j, j < cols → cellAt g' i j = if P j then (cellAt g i j).map (·.erase bg) else cellAt g i j) :
    Term.rowAccepts (tr.mapIdx fun j c => if P j then .blank (absCol bg) else c) (absRow row') = true := by
  refine row_blank (row' := row') bg P hacc (by rw [rowLen_of_getElem? hg hr, rowLen_of_getElem? hg' hr']) ?_
  intro j
  rw [← cellAt_of_row hr' j, ← cellAt_of_row hr j]
  by_cases hj : j < cols
  · exact h j hj
  · rw [cellAt_none hg' i j (by omega), cellAt_none hg i j (by omega)]
    split <;> rfl

/-- The grid part of ED 0 / ED 1: in the reference the cursor row gets `healRow (blankRange …)` and
    the rows with `B` (below / above the cursor) become blank rows. -/
theorem acc_ed {t : Term.T} {e : Emu} {rows cols : Nat} (s : Sim t e rows cols)
    {g' : Grid} (hg' : GridOk g' rows cols) (lo hi : Nat) (P : Nat → Prop) [DecidablePred P]
    (hP : ∀ j, P j ↔ lo ≤ j ∧ j < hi) (B : Nat → Prop) [DecidablePred B]
    (hc : ∀ i j, i < rows → j < cols → cellAt g' i j =
      if B i ∨ ((i : Int) = e.cur.row ∧ P j)
      then (cellAt e.active i j).map (·.erase e.bg) else cellAt e.active i j) :
    Term.gridAccepts
      ((t.grid.modify t.row fun row => Term.healRow (Term.blankRange row lo hi t.blank)).mapIdx
        fun i row => if B i then t.blankRow else row)
      (g'.map absRow) = true := by
  have hg := active_ok s.inv
  have hrow := s.row
  refine gridAccepts_of_rows hg hg' s.grid (by rw [List.length_mapIdx, List.length_modify]) ?_
  intro i tr tr' row row' htr htr' hr hr' hacc
  rw [List.getElem?_mapIdx, List.getElem?_modify, htr] at htr'
  simp only [Option.map_eq_map, Option.map_some, Option.some.injEq] at htr'
  subst htr'
  have hir := lt_rows_of_getElem? hg hr
  by_cases hBi : B i
  · rw [if_pos hBi]
    unfold Term.T.blankRow
    rw [blank_eq s, s.tcols]
    refine row_allblank (row := row) e.bg cols (rowLen_of_getElem? hg' hr') ?_
    intro j hj
    rw [← cellAt_of_row hr' j, ← cellAt_of_row hr j, hc i j hir hj, if_pos (Or.inl hBi)]
  · rw [if_neg hBi]
    by_cases hti : t.row = i
    · rw [if_pos hti]
      apply healRow_accepts
      unfold Term.blankRange
      rw [blank_eq s]
      have := row_blank_b hg hg' hr hr' e.bg P hacc
        (by
          intro j hj
          rw [hc i j hir hj]
          apply ite_iff
          constructor
          · rintro (a | ⟨_, b⟩)
            · exact absurd a hBi
            · exact b
          · intro b; exact Or.inr ⟨by omega, b⟩)
      have he : (fun j c => if P j then Term.TCell.blank (absCol e.bg) else c) =
          (fun j c => if lo ≤ j ∧ j < hi then Term.TCell.blank (absCol e.bg) else c) := by
        funext j c; exact ite_iff (hP j) _ _
      rw [← he]; exact this
    · rw [if_neg hti]
      have := row_same_b hg hg' hr hr' (fun j hj => by
        rw [hc i j hir hj, if_neg (fun hh => by
          rcases hh with a | ⟨a, _⟩
          · exact hBi a
          · omega)])
      subst this
      exact hacc

theorem ed_0 (e : Emu) : ed e 0 =
    (forUp e.cur.row (e.height - 1) (fun r g =>
      forUp 0 (e.width - 1) (fun col g =>
        if r = e.cur.row ∧ col < e.cur.col then .ok g
        else modCell g r col (·.erase e.bg)) g) e.active >>= fun g =>
      .ok (({ e with lastCol := false } : Emu).setActive g)) := rfl

theorem ed_1 (e : Emu) : ed e 1 =
    (forUp 0 e.cur.row (fun r g =>
      forUpBrk 0 (e.width - 1) (fun col g =>
        if r = e.cur.row ∧ col > e.cur.col then .ok (g, false)
        else do
          let g' ← modCell g r col (·.erase e.bg)
          .ok (g', true)) g) e.active >>= fun g =>
      .ok (({ e with lastCol := false } : Emu).setActive g)) := rfl

theorem ed_2 (e : Emu) : ed e 2 =
    (forUp 0 (e.height - 1) (fun r g =>
      forUp 0 (e.width - 1) (fun col g => modCell g r col (·.erase e.bg)) g) e.active >>= fun g =>
      .ok (({ e with lastCol := false } : Emu).setActive g)) := rfl

end VaxisModel.Lemmas.EmuRefine.EraseAux

/-! ### the refinement theorems -/

namespace VaxisModel.Lemmas.EmuRefine
open VaxisModel.Model.Emu VaxisModel.Model.EmuAbs VaxisModel.Lemmas.Emu VaxisModel.Spec
open EraseAux

theorem el_refines {t : Term.T} {e : Emu} {rows cols : Nat} (s : Sim t e rows cols) (n : Nat) :
    ∃ e', el Fixes.current e (cpE n) = .ok e' ∧ Refines (Term.step t (.el n)) e' rows cols := by
  have hsafe := el_safe s.inv s.dim (cpE n)
  simp only [Term.step]
  refine refines_of_safe hsafe ?_
  intro hp
  have hcol := col_lt_of_not_pw s hp
  have htc := tcol_eq s hp
  have hw : e.width = cols := width_eq s.inv s.dim.r1
  have hg := active_ok s.inv
  have := s.inv.rowLo; have := s.inv.rowHi; have := s.inv.colLo; have := s.dim.cmax
  have htcols := s.tcols
  have hcm : (cols : Int) ≤ hangLimit := by rw [hangLimit_val]; omega
  by_cases h0 : n = 0
  · subst h0
    obtain ⟨g', e1, hg', hc⟩ := eraseCols_spec hg e.cur.row e.cur.col ((cols : Int) - 1) e.bg
      (by omega) (by omega) (by omega) (by omega) hcm
    refine ⟨_, by rw [show cpE 0 = 0 from rfl, el_0, hw, e1]; rfl, ?_⟩
    simp only [if_true]
    refine refines_one ?_
    unfold Term.T.modRow
    refine sim_eraseGrid s _ g' hg' ?_
    exact acc_modRow_blank s hg' _ _ (fun j => e.cur.col ≤ (j : Int) ∧ (j : Int) ≤ (cols : Int) - 1)
      (fun j => by omega) hc
  · by_cases h1 : n = 1
    · subst h1
      obtain ⟨g', e1, hg', hc⟩ := eraseCols_spec hg e.cur.row 0 e.cur.col e.bg
        (by omega) (by omega) (by omega) (by omega) hcm
      refine ⟨_, by rw [show cpE 1 = 1 from rfl, el_1, hw, if_neg (by omega), e1]; rfl, ?_⟩
      simp only [if_true, if_neg h0]
      refine refines_one ?_
      unfold Term.T.modRow
      refine sim_eraseGrid s _ g' hg' ?_
      exact acc_modRow_blank s hg' _ _ (fun j => (0 : Int) ≤ (j : Int) ∧ (j : Int) ≤ e.cur.col)
        (fun j => by omega) hc
    · by_cases h2 : n = 2
      · subst h2
        obtain ⟨g', e1, hg', hc⟩ := eraseCols_spec hg e.cur.row 0 ((cols : Int) - 1) e.bg
          (by omega) (by omega) (by omega) (by omega) hcm
        refine ⟨_, by rw [show cpE 2 = 2 from rfl, el_2, hw, e1]; rfl, ?_⟩
        simp only [if_true, if_neg h0, if_neg h1]
        refine refines_one ?_
        unfold Term.T.modRow
        refine sim_eraseGrid s _ g' hg' ?_
        refine gridAccepts_of_rows hg hg' s.grid (by rw [List.length_modify]) ?_
        intro i tr tr' row row' htr htr' hr hr' hacc
        rw [List.getElem?_modify, htr] at htr'
        simp only [Option.map_eq_map, Option.map_some, Option.some.injEq] at htr'
        subst htr'
        have hrow := s.row
        by_cases hi : t.row = i
        · rw [if_pos hi]
          apply healRow_accepts
          unfold Term.T.blankRow
          rw [blank_eq s, htcols]
          refine row_allblank (row := row) e.bg cols (rowLen_of_getElem? hg' hr') ?_
          intro j hj
          rw [← cellAt_of_row hr' j, ← cellAt_of_row hr j, hc i j, if_pos (by omega)]
        · rw [if_neg hi]
          have := row_same hr hr' (fun j => by rw [hc i j, if_neg (fun hh => by omega)])
          subst this
          exact hacc
      · obtain ⟨e', he', _⟩ := hsafe
        refine ⟨e', he', ?_⟩
        simp only [if_neg h0, if_neg h1, if_neg h2]
        trivial

theorem ech_refines {t : Term.T} {e : Emu} {rows cols : Nat} (s : Sim t e rows cols) (n : Nat) :
    ∃ e', ech e (cpE n) = .ok e' ∧ Refines (Term.step t (.ech n)) e' rows cols := by
  have hsafe := ech_safe s.inv s.dim (cpE_ok n)
  simp only [Term.step]
  refine refines_of_safe hsafe ?_
  intro hp
  have hcol := col_lt_of_not_pw s hp
  have htc := tcol_eq s hp
  have hw : e.width = cols := width_eq s.inv s.dim.r1
  have hg := active_ok s.inv
  have := s.inv.rowLo; have := s.inv.rowHi; have := s.inv.colLo; have := s.dim.cmax
  have htcols := s.tcols
  have hd := dflt1_ok (cpE_ok n)
  obtain ⟨g', e1, hg', hc⟩ := echLoop_spec hg e.cur.row e.cur.col (dflt1 (cpE n)) e.bg
    (by omega) (by omega) (by omega) (by omega) (by omega) (by rw [hangLimit_val]; omega)
  refine ⟨_, by rw [ech_eq, hw, e1]; rfl, ?_⟩
  refine refines_one ?_
  unfold Term.T.modRow
  refine sim_eraseGrid s _ g' hg' ?_
  refine acc_modRow_blank s hg' _ _
    (fun j => e.cur.col ≤ (j : Int) ∧ (j : Int) < e.cur.col + dflt1 (cpE n) ∧ (j : Int) < (cols : Int))
    (fun j => ?_) hc
  have hcp := cpE_eq n
  unfold Term.d1 dflt1
  split <;> split <;> split at hcp <;> omega

theorem ed_refines {t : Term.T} {e : Emu} {rows cols : Nat} (s : Sim t e rows cols) (n : Nat) :
    ∃ e', ed e (cpE n) = .ok e' ∧ Refines (Term.step t (.ed n)) e' rows cols := by
  have hsafe := ed_safe s.inv s.dim (cpE n)
  simp only [Term.step]
  refine refines_of_safe hsafe ?_
  intro hp
  have hcol := col_lt_of_not_pw s hp
  have htc := tcol_eq s hp
  have hw : e.width = cols := width_eq s.inv s.dim.r1
  have hh : e.height = rows := height_eq s.inv
  have hg := active_ok s.inv
  have := s.inv.rowLo; have := s.inv.rowHi; have := s.inv.colLo; have := s.dim.cmax; have := s.dim.rmax
  have htcols := s.tcols
  have htrow := s.row
  have hcm : (cols : Int) ≤ hangLimit := by rw [hangLimit_val]; omega
  by_cases h0 : n = 0
  · subst h0
    obtain ⟨g', e1, hg', hc⟩ := rowsLoop_spec hg e.cur.row ((rows : Int) - 1) e.bg
      (fun r g => forUp 0 ((cols : Int) - 1) (fun col g =>
        if r = e.cur.row ∧ col < e.cur.col then .ok g
        else modCell g r col (·.erase e.bg)) g)
      (fun r j => (0 : Int) ≤ (j : Int) ∧ (j : Int) ≤ (cols : Int) - 1 ∧ ¬ (r = e.cur.row ∧ (j : Int) < e.cur.col))
      (by omega) (by rw [hangLimit_val]; omega)
      (fun r s' hr0 hr1 hs' => colLoop_spec hs' r 0 ((cols : Int) - 1) e.bg
        (fun col => r = e.cur.row ∧ col < e.cur.col) (by omega) (by omega) (by omega) (by omega) hcm)
    refine ⟨_, by rw [show cpE 0 = 0 from rfl, ed_0, hw, hh, e1]; rfl, ?_⟩
    simp only [if_true]
    refine refines_one ?_
    unfold Term.T.modRow
    rw [grid_setGrid, setGrid_setGrid]
    refine sim_eraseGrid s _ g' hg' ?_
    refine acc_ed s hg' _ _ (fun j => e.cur.col ≤ (j : Int) ∧ j < cols) (fun j => by omega)
      (fun i => i > t.row) ?_
    intro i j hi hj
    rw [hc i j]
    apply ite_iff
    omega
  · by_cases h1 : n = 1
    · subst h1
      obtain ⟨g', e1, hg', hc⟩ := rowsLoop_spec hg 0 e.cur.row e.bg
        (fun r g => forUpBrk 0 ((cols : Int) - 1) (fun col g =>
          if r = e.cur.row ∧ col > e.cur.col then .ok (g, false)
          else do
            let g' ← modCell g r col (·.erase e.bg)
            .ok (g', true)) g)
        (fun r j => (0 : Int) ≤ (j : Int) ∧ (j : Int) ≤ (cols : Int) - 1 ∧ ¬ (r = e.cur.row ∧ (j : Int) > e.cur.col))
        (by omega) (by rw [hangLimit_val]; omega)
        (fun r s' hr0 hr1 hs' => brkLoop_spec hs' r 0 ((cols : Int) - 1) e.bg
          (fun col => r = e.cur.row ∧ col > e.cur.col) (fun a b ha hab => ⟨ha.1, by omega⟩)
          (by omega) (by omega) (by omega) (by omega) (by omega) hcm)
      refine ⟨_, by rw [show cpE 1 = 1 from rfl, ed_1, hw, e1]; rfl, ?_⟩
      simp only [if_true, if_neg h0]
      refine refines_one ?_
      unfold Term.T.modRow
      rw [grid_setGrid, setGrid_setGrid]
      refine sim_eraseGrid s _ g' hg' ?_
      refine acc_ed s hg' _ _ (fun j => (j : Int) ≤ e.cur.col) (fun j => by omega) (fun i => i < t.row) ?_
      intro i j hi hj
      rw [hc i j]
      apply ite_iff
      omega
    · by_cases h2 : n = 2
      · subst h2
        obtain ⟨g', e1, hg', hc⟩ := rowsLoop_spec hg 0 ((rows : Int) - 1) e.bg
          (fun r g => forUp 0 ((cols : Int) - 1) (fun col g => modCell g r col (·.erase e.bg)) g)
          (fun _ j => (0 : Int) ≤ (j : Int) ∧ (j : Int) ≤ (cols : Int) - 1)
          (by omega) (by rw [hangLimit_val]; omega)
          (fun r s' hr0 hr1 hs' => eraseCols_spec hs' r 0 ((cols : Int) - 1) e.bg
            (by omega) (by omega) (by omega) (by omega) hcm)
        refine ⟨_, by rw [show cpE 2 = 2 from rfl, ed_2, hw, hh, e1]; rfl, ?_⟩
        simp only [if_true, if_neg h0, if_neg h1]
        refine refines_one ?_
        refine sim_eraseGrid s _ g' hg' ?_
        have hgl : t.grid.length = rows := by
          have := (gridAccepts_iff _ _).mp s.grid
          rw [this.1, List.length_map, hg.len]
        refine gridAccepts_of_rows hg hg' s.grid (by rw [List.length_replicate, hgl, s.trows]) ?_
        intro i tr tr' row row' htr htr' hr hr' hacc
        rw [List.getElem?_replicate] at htr'
        split at htr'
        · simp only [Option.some.injEq] at htr'
          subst htr'
          have hi := lt_rows_of_getElem? hg hr
          unfold Term.T.blankRow
          rw [blank_eq s, htcols]
          refine row_allblank (row := row) e.bg cols (rowLen_of_getElem? hg' hr') ?_
          intro j hj
          rw [← cellAt_of_row hr' j, ← cellAt_of_row hr j, hc i j, if_pos (by omega)]
        · cases htr'
      · obtain ⟨e', he', _⟩ := hsafe
        refine ⟨e', he', ?_⟩
        simp only [if_neg h0, if_neg h1, if_neg h2]
        trivial

end VaxisModel.Lemmas.EmuRefine
