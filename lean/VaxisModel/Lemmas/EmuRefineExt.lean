/-
C06 refinement, extension (round 2): the one-step theorem over `tokOfX` — the one-parameter
functions with ANY number of parameters (only the first is read: `csi_firstOnly`), and cursor
visibility (`CSI ? 25 h/l`) and shape (`CSI n SP q`), for which the relation is `Sim2` plus
"visibility and shape agree" (`SimC`).
-/
import VaxisModel.Lemmas.EmuRefineAll
import VaxisModel.Lemmas.EmuOsc8

namespace VaxisModel.Lemmas.EmuRefine
open VaxisModel.Model.Emu VaxisModel.Model.EmuAbs VaxisModel.Lemmas.Emu VaxisModel.Spec

theorem ps_firstOnly (pm : List Param) : ps (clampParams (firstOnly pm)) = ps (clampParams pm) := by
  cases pm <;> rfl

/-- The one-parameter functions read only the first parameter. -/
theorem csi_firstOnly (e : Emu) (f : Nat) (pm : List Param) (hf : f ∈ onePs) (h84 : f = 84 → pm.length ≠ 5) :
    csi Fixes.current e [f] (firstOnly pm) = csi Fixes.current e [f] pm := by
  have hlen : (clampParams pm).length = pm.length := by simp [clampParams]
  have hl1 : (clampParams (firstOnly pm)).length ≠ 5 := by
    cases pm <;> simp [firstOnly, clampParams]
  simp only [onePs, List.mem_cons, List.not_mem_nil, or_false] at hf
  rcases hf with rfl | rfl | rfl | rfl | rfl | rfl | rfl | rfl | rfl | rfl | rfl | rfl | rfl | rfl | rfl | rfl | rfl | rfl
  · rw [csi_64, csi_64, ps_firstOnly]
  · rw [csi_65, csi_65, ps_firstOnly]
  · rw [csi_66, csi_66, ps_firstOnly]
  · rw [csi_67, csi_67, ps_firstOnly]
  · rw [csi_68, csi_68, ps_firstOnly]
  · rw [csi_69, csi_69, ps_firstOnly]
  · rw [csi_70, csi_70, ps_firstOnly]
  · rw [csi_71, csi_71, ps_firstOnly]
  · rw [csi_74, csi_74, ps_firstOnly]
  · rw [csi_75, csi_75, ps_firstOnly]
  · rw [csi_76, csi_76, ps_firstOnly]
  · rw [csi_77, csi_77, ps_firstOnly]
  · rw [csi_80, csi_80, ps_firstOnly]
  · rw [csi_83, csi_83, ps_firstOnly]
  · rw [csi_84, csi_84, ps_firstOnly, if_neg hl1, if_neg (by rw [hlen]; exact h84 rfl)]
  · rw [csi_88, csi_88, ps_firstOnly]
  · rw [csi_96, csi_96, ps_firstOnly]
  · rw [csi_100, csi_100, ps_firstOnly]

theorem emuStep_firstOnly (e : Emu) (f : Nat) (pm : List Param) (hf : f ∈ onePs) (h84 : f = 84 → pm.length ≠ 5) :
    emuStep e (.csi [f] (firstOnly pm)) = emuStep e (.csi [f] pm) := by
  unfold emuStep emuStepF
  simp only [csi_firstOnly e f pm hf h84]

/-- `Sim2` and the cursor's visibility and shape. -/
structure SimC (t : Term.T) (e : Emu) (rows cols : Nat) : Prop where
  sim2 : Sim2 t e rows cols
  vis : t.cursorVisible = e.mode.dectcem
  shape : (t.cursorShape : Int) = e.cur.shape

theorem sim2_setVis {t : Term.T} {e : Emu} {rows cols : Nat} (s2 : Sim2 t e rows cols) (b : Bool) :
    Sim2 { t with cursorVisible := b } { e with mode := { e.mode with dectcem := b } } rows cols :=
  { sim :=
      { inv := { s2.sim.inv with }
        dim := s2.sim.dim
        vm := ⟨s2.sim.vm.awm, s2.sim.vm.irm, s2.sim.vm.lnm, s2.sim.vm.ascii, s2.sim.vm.noShift⟩
        trows := s2.sim.trows, tcols := s2.sim.tcols, onAlt := s2.sim.onAlt
        row := s2.sim.row, col := s2.sim.col, pw := s2.sim.pw, pen := s2.sim.pen, link := s2.sim.link
        top := s2.sim.top, bottom := s2.sim.bottom, grid := s2.sim.grid }
    lc := s2.lc, savedP := s2.savedP, savedA := s2.savedA, smcup := s2.smcup, prim := s2.prim }

theorem sim2_setShape {t : Term.T} {e : Emu} {rows cols : Nat} (s2 : Sim2 t e rows cols) (n : Nat) (k : Int) :
    Sim2 { t with cursorShape := n } { e with cur := { e.cur with shape := k } } rows cols :=
  { sim :=
      { inv := { s2.sim.inv with }
        dim := s2.sim.dim
        vm := ⟨s2.sim.vm.awm, s2.sim.vm.irm, s2.sim.vm.lnm, s2.sim.vm.ascii, s2.sim.vm.noShift⟩
        trows := s2.sim.trows, tcols := s2.sim.tcols, onAlt := s2.sim.onAlt
        row := s2.sim.row, col := s2.sim.col, pw := s2.sim.pw, pen := s2.sim.pen, link := s2.sim.link
        top := s2.sim.top, bottom := s2.sim.bottom, grid := s2.sim.grid }
    lc := s2.lc, savedP := s2.savedP, savedA := s2.savedA, smcup := s2.smcup, prim := s2.prim }

theorem decset25_eq (e : Emu) :
    csi Fixes.current e [63, 104] [(25, [])] = .ok { e with mode := { e.mode with dectcem := true } } := rfl
theorem decrst25_eq (e : Emu) :
    csi Fixes.current e [63, 108] [(25, [])] = .ok { e with mode := { e.mode with dectcem := false } } := rfl
theorem decscusr_eq (e : Emu) (n : Int) :
    csi Fixes.current e [32, 113] [(n, [])] = .ok { e with cur := { e.cur with shape := clampParam n } } := rfl

/-- Cursor visibility: the emulator step succeeds, the display relation is kept and the emulator's
    DECTCEM flag is what the reference's `showCursor` sets. -/
theorem showCursor_step {t : Term.T} {e : Emu} {rows cols : Nat} (s : SimC t e rows cols) (b : Bool) :
    ∃ r, emuStep e (.csi [63, if b then 104 else 108] [(25, [])]) = .ok r ∧
      ∃ t', Term.step t (.showCursor b) = .accept [t'] ∧ SimC t' r.1 rows cols := by
  cases b with
  | true =>
    exact ⟨_, emuStep_csi_ok (decset25_eq e), _, rfl, ⟨sim2_setVis s.sim2 true, rfl, s.shape⟩⟩
  | false =>
    exact ⟨_, emuStep_csi_ok (decrst25_eq e), _, rfl, ⟨sim2_setVis s.sim2 false, rfl, s.shape⟩⟩

/-- Cursor shape (DECSCUSR) with a value that fits a parameter. -/
theorem cursorShape_step {t : Term.T} {e : Emu} {rows cols : Nat} (s : SimC t e rows cols) (n : Nat) (hn : n ≤ 65535) :
    ∃ r, emuStep e (.csi [32, 113] [((n : Int), [])]) = .ok r ∧
      ∃ t', Term.step t (.cursorShape n) = .accept [t'] ∧ SimC t' r.1 rows cols := by
  refine ⟨_, emuStep_csi_ok (decscusr_eq e n), _, rfl, ⟨sim2_setShape s.sim2 n _, s.vis, ?_⟩⟩
  show ((n : Nat) : Int) = clampParam (n : Int)
  unfold clampParam maxParam
  split
  · omega
  · rfl

/-- An operation of the extended vocabulary that `tokOf` did not cover, with its token. -/
def VocabOpLong (op : EOp) (tok : Term.Tok) : Prop :=
  ∃ f pm, op = .csi [f] pm ∧ f ∈ onePs ∧ (f = 84 → pm.length ≠ 5) ∧ VocabOpAll (.csi [f] (firstOnly pm)) tok

/-- **One step, long parameter lists.** A one-parameter function of the vocabulary with any number of
    further parameters (with or without sub-parameters) refines the reference's function of the first
    parameter. -/
theorem emu_refines_step_long {t : Term.T} {e : Emu} {rows cols : Nat} (op : EOp) (tok : Term.Tok)
    (hv : VocabOpLong op tok) (s2 : Sim2 t e rows cols) :
    ∃ r, emuStep e op = .ok r ∧ Refines2 (Term.step t tok) r.1 rows cols := by
  obtain ⟨f, pm, rfl, hf, h84, hv'⟩ := hv
  rw [← emuStep_firstOnly e f pm hf h84]
  exact emu_refines_step_all _ tok hv' s2

/-- The token of a one-parameter function is never an SGR token. -/
theorem tokOf_one_not_sgr (f : Nat) (pm : List Param) (tok : Term.Tok) (hf : f ∈ onePs)
    (h : tokOf (.csi [f] pm) = some tok) : ∀ ps, tok ≠ .sgr ps := by
  intro ps hc
  subst hc
  simp only [onePs, List.mem_cons, List.not_mem_nil, or_false] at hf
  rcases hf with rfl | rfl | rfl | rfl | rfl | rfl | rfl | rfl | rfl | rfl | rfl | rfl | rfl | rfl | rfl | rfl | rfl | rfl <;>
  · simp only [tokOf] at h
    cases hp : plainParams pm with
    | none => rw [hp] at h; simp at h
    | some l =>
      rw [hp] at h
      simp at h
      try (split at h <;> simp at h)

/-! ### round 3: CUP / HVP / DECSTBM with more than two parameters (F106d repaired) -/

theorem clampParams_take (pm : List Param) (n : Nat) : clampParams (pm.take n) = (clampParams pm).take n := by
  unfold clampParams; rw [List.map_take]

theorem cup_take2 (e : Emu) (pm : List Param) (h : pm.length > 2) :
    cup Fixes.current e (pm.take 2) = cup Fixes.current e pm := by
  rcases pm with _ | ⟨a, _ | ⟨b, _ | ⟨c, r⟩⟩⟩
  · simp at h
  · simp at h
  · simp at h
  · rfl

theorem decstbm_take2 (e : Emu) (pm : List Param) (h : pm.length > 2) :
    decstbm Fixes.current e (pm.take 2) = decstbm Fixes.current e pm := by
  rcases pm with _ | ⟨a, _ | ⟨b, _ | ⟨c, r⟩⟩⟩
  · simp at h
  · simp at h
  · simp at h
  · rfl

/-- CUP, HVP and DECSTBM read only the first two parameters. -/
theorem csi_take2 (e : Emu) (f : Nat) (pm : List Param) (hf : f ∈ twoPs) (hl : pm.length > 2) :
    csi Fixes.current e [f] (pm.take 2) = csi Fixes.current e [f] pm := by
  have hlen : (clampParams pm).length > 2 := by simpa [clampParams] using hl
  simp only [twoPs, List.mem_cons, List.not_mem_nil, or_false] at hf
  rcases hf with rfl | rfl | rfl
  · rw [csi_72, csi_72, clampParams_take, cup_take2 e _ hlen]
  · rw [csi_102, csi_102, clampParams_take, cup_take2 e _ hlen]
  · rw [csi_114, csi_114, clampParams_take, decstbm_take2 e _ hlen]

theorem emuStep_take2 (e : Emu) (f : Nat) (pm : List Param) (hf : f ∈ twoPs) (hl : pm.length > 2) :
    emuStep e (.csi [f] (pm.take 2)) = emuStep e (.csi [f] pm) := by
  unfold emuStep emuStepF
  simp only [csi_take2 e f pm hf hl]

/-- The token of CUP / HVP / DECSTBM is never an SGR token. -/
theorem tokOf_two_not_sgr (f : Nat) (pm : List Param) (tok : Term.Tok) (hf : f ∈ twoPs)
    (h : tokOf (.csi [f] pm) = some tok) : ∀ ps, tok ≠ .sgr ps := by
  intro ps hc
  subst hc
  simp only [twoPs, List.mem_cons, List.not_mem_nil, or_false] at hf
  rcases hf with rfl | rfl | rfl <;>
  · simp only [tokOf] at h
    cases hp : plainParams pm with
    | none => rw [hp] at h; simp at h
    | some l =>
      rw [hp] at h
      simp at h
      try (split at h <;> simp at h)

/-- **CUP / HVP / DECSTBM with more than two parameters** refine the reference's function of the first two. -/
theorem emu_refines_step_two {t : Term.T} {e : Emu} {rows cols : Nat} (f : Nat) (pm : List Param) (tok : Term.Tok)
    (hf : f ∈ twoPs) (hl : pm.length > 2) (h : tokOf (.csi [f] (pm.take 2)) = some tok) (s2 : Sim2 t e rows cols) :
    ∃ r, emuStep e (.csi [f] pm) = .ok r ∧ Refines2 (Term.step t tok) r.1 rows cols := by
  rw [← emuStep_take2 e f pm hf hl]
  exact emu_refines_step_all _ tok
    ⟨h, fun ps hps => absurd hps (tokOf_two_not_sgr f _ tok hf h ps), fun g w hc => by cases hc⟩ s2

/-! ### OSC 8 -/

/-- cutString(s, ";") on `P ++ ";" ++ U` when `P` has no `;`. -/
theorem span_loop_semi (p : Nat → Bool) (x : Nat) (U : List Nat) (hx : p x = false) :
    ∀ (P acc : List Nat), (∀ y ∈ P, p y = true) → List.span.loop p (P ++ x :: U) acc = (acc.reverse ++ P, x :: U) := by
  intro P
  induction P with
  | nil => intro acc _; simp [List.span.loop, hx]
  | cons y ys ih =>
    intro acc h
    have hy : p y = true := h y (by simp)
    simp only [List.cons_append, List.span.loop, hy]
    rw [ih (y :: acc) (fun z hz => h z (by simp [hz]))]
    simp

theorem cutSemi_at (P U : List Nat) (hP : 59 ∉ P) : cutSemi (P ++ 59 :: U) = (P, U, true) := by
  unfold cutSemi List.span
  rw [span_loop_semi _ 59 U (by simp) P [] (by intro y hy; simp; intro h; exact hP (h ▸ hy))]
  simp

/-- `OSC 8 ; params ; url ST` with a parameter string without `;`: the pen's hyperlink and its
    parameters are set, nothing else changes. -/
theorem osc8_eq (e : Emu) (P U : List Nat) (ho : e.osc8 = true) (hP : 59 ∉ P) :
    emuStep e (.osc ([56, 59] ++ P ++ [59] ++ U) {}) =
      .ok ({ e with cur := { e.cur with st := { e.cur.st with link := U, linkParams := P } } }, 0) := by
  have h1 : [56, 59] ++ P ++ [59] ++ U = [56] ++ 59 :: (P ++ 59 :: U) := by simp
  have h2 : osc Fixes.current e ([56, 59] ++ P ++ [59] ++ U) {} =
      .ok ({ e with cur := { e.cur with st := { e.cur.st with link := U, linkParams := P } } }, 0) := by
    unfold osc
    rw [h1, cutSemi_at [56] _ (by decide)]
    simp only [Bool.not_true, Bool.false_eq_true, if_false, ho, if_true]
    rw [cutSemi_at P U hP]
    simp
  unfold emuStep emuStepF
  exact h2

theorem sim2_setLink {t : Term.T} {e : Emu} {rows cols : Nat} (s2 : Sim2 t e rows cols) (P U : List Nat) :
    Sim2 { t with link := U } { e with cur := { e.cur with st := { e.cur.st with link := U, linkParams := P } } } rows cols :=
  { sim :=
      { inv := { s2.sim.inv with }
        dim := s2.sim.dim
        vm := ⟨s2.sim.vm.awm, s2.sim.vm.irm, s2.sim.vm.lnm, s2.sim.vm.ascii, s2.sim.vm.noShift⟩
        trows := s2.sim.trows, tcols := s2.sim.tcols, onAlt := s2.sim.onAlt
        row := s2.sim.row, col := s2.sim.col, pw := s2.sim.pw, pen := s2.sim.pen, link := rfl
        top := s2.sim.top, bottom := s2.sim.bottom, grid := s2.sim.grid }
    lc := s2.lc, savedP := s2.savedP, savedA := s2.savedA, smcup := s2.smcup, prim := s2.prim }

/-! ### round 3: OSC 8 as a token of the reference terminal -/

theorem cutSemi_of_split {s a b : List Nat} (h : splitSemi s = some (a, b)) : cutSemi s = (a, b, true) := by
  unfold splitSemi at h
  unfold cutSemi
  cases hs : s.span (· ≠ 59) with
  | mk x y =>
    rw [hs] at h
    cases y with
    | nil => simp at h
    | cons c r => simp at h; obtain ⟨rfl, rfl⟩ := h; rfl

/-- **OSC 8** through the dispatcher, for EVERY payload the vocabulary maps to the token (`8;params;url`, any `params`
    without `;`, any `url`, empty ones included) and either base64 verdict: the step succeeds and refines the reference's
    `osc8` (the pen's hyperlink becomes `url`), provided the emulator's OSC 8 switch is on (the default). -/
theorem osc8_step {t : Term.T} {e : Emu} {rows cols : Nat} (s2 : Sim2 t e rows cols) (d : List Nat) (info : OscInfo)
    (P U : List Nat) (ho : e.osc8 = true) (h : osc8Tok d = some (.osc8 P U)) :
    ∃ r, emuStep e (.osc d info) = .ok r ∧ Refines2 (Term.step t (.osc8 P U)) r.1 rows cols := by
  unfold osc8Tok at h
  cases h1 : splitSemi d with
  | none => rw [h1] at h; simp at h
  | some ab =>
    obtain ⟨a, rest⟩ := ab
    rw [h1] at h
    by_cases ha : a = [56]
    · subst ha
      simp only at h
      cases h2 : splitSemi rest with
      | none => rw [h2] at h; simp at h
      | some pu =>
        obtain ⟨P', U'⟩ := pu
        rw [h2] at h
        simp only [Option.some.injEq, Term.Tok.osc8.injEq] at h
        obtain ⟨rfl, rfl⟩ := h
        have hstep : emuStep e (.osc d info) =
            .ok ({ e with cur := { e.cur with st := { e.cur.st with link := U', linkParams := P' } } }, 0) := by
          have ho' : osc Fixes.current e d info =
              .ok ({ e with cur := { e.cur with st := { e.cur.st with link := U', linkParams := P' } } }, 0) := by
            unfold osc
            rw [cutSemi_of_split h1]
            simp only [Bool.not_true, Bool.false_eq_true, if_false, ho, if_true]
            rw [cutSemi_of_split h2]
            simp
          unfold emuStep emuStepF
          exact ho'
        exact ⟨_, hstep, _, List.mem_singleton.mpr rfl, sim2_setLink s2 P' U'⟩
    · exfalso
      revert h
      split <;> simp_all

/-! ### round 3: RIS (F106e repaired) -/

theorem esc_99 (e : Emu) : esc Fixes.current e [99] = .ok (ris e) := rfl

/-- After RIS the emulator is related to the reference's power-on state of the same size — from EVERY good state (any
    margins, pen, saved cursors, modes, screen selector before). -/
theorem ris_sim2 {e : Emu} {rows cols : Nat} (h : EmuInv e rows cols) (d : Dim rows cols) :
    Sim2 (Term.T.init rows cols) (ris e) rows cols := by
  have hi := ris_inv h d
  have hh := height_eq h
  have hw := width_eq h d.r1
  have hf : Fixes.current.f106e = true := rfl
  have hr1 := d.r1
  have hc1 := d.c1
  unfold ris risF at hi ⊢
  simp only [hh, hw, Int.toNat_natCast, hf, if_true] at hi ⊢
  have hs : Sim (Term.T.init rows cols) _ rows cols :=
    { inv := hi
      dim := d
      vm := ⟨rfl, rfl, rfl, rfl, rfl⟩
      trows := rfl, tcols := rfl, onAlt := rfl
      row := rfl
      col := by
        show ((0 : Nat) : Int) = if (0 : Int) ≥ (cols : Int) then (cols : Int) - 1 else 0
        split <;> omega
      pw := by
        show false = decide ((0 : Int) ≥ (cols : Int))
        symm; rw [decide_eq_false_iff_not]; omega
      pen := absStyle_default.symm
      link := rfl
      top := rfl
      bottom := by
        show ((rows - 1 : Nat) : Int) = (rows : Int) - 1
        omega
      grid := blankGrid_accepts rows cols }
  exact
    { sim := hs
      lc := lastColOk_of_false rfl
      savedP := ⟨rfl, rfl, rfl, rfl, absStyle_default, rfl⟩
      savedA := ⟨rfl, rfl, rfl, rfl, absStyle_default, rfl⟩
      smcup := rfl
      prim := by intro ha; cases ha }

/-- **RIS** through the dispatcher. -/
theorem ris_step {t : Term.T} {e : Emu} {rows cols : Nat} (s2 : Sim2 t e rows cols) :
    ∃ r, emuStep e (.esc [99]) = .ok r ∧ Refines2 (Term.step t .ris) r.1 rows cols := by
  refine ⟨_, emuStep_esc_ok (esc_99 e), ?_⟩
  show ∃ t' ∈ [Term.T.init t.rows t.cols], Sim2 t' (ris e) rows cols
  refine ⟨_, List.mem_singleton.mpr rfl, ?_⟩
  rw [s2.sim.trows, s2.sim.tcols]
  exact ris_sim2 s2.sim.inv s2.sim.dim

/-! ### round 3: colon sub-parameters of the non-SGR functions -/

/-- the parameter list without its colon sub-parameters -/
def dropSubs (pm : List Param) : List Param := pm.map (fun p => (p.1, []))

theorem ps_dropSubs (pm : List Param) : ps (clampParams (dropSubs pm)) = ps (clampParams pm) := by
  cases pm <;> rfl

theorem cup_dropSubs (e : Emu) (pm : List Param) :
    cup Fixes.current e (clampParams (dropSubs pm)) = cup Fixes.current e (clampParams pm) := by
  rcases pm with _ | ⟨a, _ | ⟨b, _ | ⟨c, r⟩⟩⟩ <;> rfl

theorem decstbm_dropSubs (e : Emu) (pm : List Param) :
    decstbm Fixes.current e (clampParams (dropSubs pm)) = decstbm Fixes.current e (clampParams pm) := by
  rcases pm with _ | ⟨a, _ | ⟨b, _ | ⟨c, r⟩⟩⟩ <;> rfl

/-- The cursor / erase / edit / scroll functions of the vocabulary read the main value of each parameter only: colon
    sub-parameters (`CSI 2:5 A`) change nothing. An EMULATOR-side fact; whether a terminal should execute such a sequence at
    all is terminal specific (xterm ignores it, DEC STD 070 leaves `:` reserved), so `tokOfX` does not judge it. -/
theorem csi_ignores_subparams (e : Emu) (f : Nat) (pm : List Param) (hf : f ∈ onePs ∨ f ∈ twoPs) :
    csi Fixes.current e [f] (dropSubs pm) = csi Fixes.current e [f] pm := by
  have hlen : (clampParams (dropSubs pm)).length = (clampParams pm).length := by simp [clampParams, dropSubs]
  rcases hf with hf | hf
  · simp only [onePs, List.mem_cons, List.not_mem_nil, or_false] at hf
    rcases hf with rfl | rfl | rfl | rfl | rfl | rfl | rfl | rfl | rfl | rfl | rfl | rfl | rfl | rfl | rfl | rfl | rfl | rfl
    · rw [csi_64, csi_64, ps_dropSubs]
    · rw [csi_65, csi_65, ps_dropSubs]
    · rw [csi_66, csi_66, ps_dropSubs]
    · rw [csi_67, csi_67, ps_dropSubs]
    · rw [csi_68, csi_68, ps_dropSubs]
    · rw [csi_69, csi_69, ps_dropSubs]
    · rw [csi_70, csi_70, ps_dropSubs]
    · rw [csi_71, csi_71, ps_dropSubs]
    · rw [csi_74, csi_74, ps_dropSubs]
    · rw [csi_75, csi_75, ps_dropSubs]
    · rw [csi_76, csi_76, ps_dropSubs]
    · rw [csi_77, csi_77, ps_dropSubs]
    · rw [csi_80, csi_80, ps_dropSubs]
    · rw [csi_83, csi_83, ps_dropSubs]
    · rw [csi_84, csi_84, ps_dropSubs, hlen]
    · rw [csi_88, csi_88, ps_dropSubs]
    · rw [csi_96, csi_96, ps_dropSubs]
    · rw [csi_100, csi_100, ps_dropSubs]
  · simp only [twoPs, List.mem_cons, List.not_mem_nil, or_false] at hf
    rcases hf with rfl | rfl | rfl
    · rw [csi_72, csi_72, cup_dropSubs]
    · rw [csi_102, csi_102, cup_dropSubs]
    · rw [csi_114, csi_114, decstbm_dropSubs]

/-! ### round 3: histories over the extended vocabulary -/

/-- An operation of the extended vocabulary with its token: the round-1/2 vocabulary (SGR included), the one-parameter
    functions with any parameter list, CUP / HVP / DECSTBM with more than two parameters, RIS. -/
inductive VocabOpX : EOp → Term.Tok → Prop
  | base {op : EOp} {tok : Term.Tok} (h : VocabOpAll op tok) : VocabOpX op tok
  | long {f : Nat} {pm : List Param} {tok : Term.Tok} (hf : f ∈ onePs) (h84 : f = 84 → pm.length ≠ 5)
      (h : tokOf (.csi [f] (firstOnly pm)) = some tok) : VocabOpX (.csi [f] pm) tok
  | two {f : Nat} {pm : List Param} {tok : Term.Tok} (hf : f ∈ twoPs) (hl : pm.length > 2)
      (h : tokOf (.csi [f] (pm.take 2)) = some tok) : VocabOpX (.csi [f] pm) tok
  | ris : VocabOpX (.esc [99]) .ris
  | osc8 {d : List Nat} {info : OscInfo} {tok : Term.Tok} (h : osc8Tok d = some tok) : VocabOpX (.osc d info) tok

theorem vocabX_not_resize {op : EOp} {tok : Term.Tok} (h : VocabOpX op tok) : ∀ w hh, op ≠ .resize w hh := by
  cases h with
  | base h => exact vocab_not_resize h.1
  | long _ _ _ => intro _ _ hc; cases hc
  | two _ _ _ => intro _ _ hc; cases hc
  | ris => intro _ _ hc; cases hc
  | osc8 _ => intro _ _ hc; cases hc

/-- One step over the extended vocabulary (hyperlinks honoured: the widget's `OSC8` switch on, the default). -/
theorem emu_refines_step_X {t : Term.T} {e : Emu} {rows cols : Nat} {op : EOp} {tok : Term.Tok}
    (hv : VocabOpX op tok) (s2 : Sim2 t e rows cols) (ho : e.osc8 = true) :
    ∃ r, emuStep e op = .ok r ∧ Refines2 (Term.step t tok) r.1 rows cols := by
  cases hv with
  | base h => exact emu_refines_step_all _ tok h s2
  | @long f pm tok hf h84 h =>
    exact emu_refines_step_long _ tok
      ⟨f, pm, rfl, hf, h84, h, fun ps hps => absurd hps (tokOf_one_not_sgr f _ tok hf h ps), fun g w hc => by cases hc⟩ s2
  | @two f pm tok hf hl h => exact emu_refines_step_two f pm tok hf hl h s2
  | ris => exact ris_step s2
  | @osc8 d info tok h =>
    have hshape : ∃ P U, tok = .osc8 P U := by
      have h' := h
      unfold osc8Tok at h'
      split at h'
      · split at h'
        · cases h'; exact ⟨_, _, rfl⟩
        · cases h'
      · cases h'
    obtain ⟨P, U, rfl⟩ := hshape
    exact osc8_step s2 d info P U ho h

inductive VocabHistX : List EOp → List Term.Tok → Prop
  | nil : VocabHistX [] []
  | cons {op : EOp} {tok : Term.Tok} {ops : List EOp} {toks : List Term.Tok}
      (h : VocabOpX op tok) (rest : VocabHistX ops toks) : VocabHistX (op :: ops) (tok :: toks)

theorem run_safe_X (hs : StepSafe) {rows cols : Nat} (d : Dim rows cols) {ops : List EOp} {toks : List Term.Tok}
    (hv : VocabHistX ops toks) : ∀ {e : Emu}, EmuInv e rows cols → ∃ e', runOps e ops = .ok e' := by
  induction hv with
  | nil => intro e _; exact ⟨e, rfl⟩
  | cons hop _ ih =>
    intro e hi
    obtain ⟨r, hr, hi'⟩ := hs e rows cols _ hi d (vocabX_not_resize hop)
    obtain ⟨e', he'⟩ := ih hi'
    exact ⟨e', runOps_cons hr he'⟩

/-- All histories over the extended vocabulary. -/
theorem emu_refines_history_X (hs : StepSafe) {rows cols : Nat} {ops : List EOp} {toks : List Term.Tok}
    (hv : VocabHistX ops toks) :
    ∀ {t : Term.T} {e : Emu}, Sim2 t e rows cols → e.osc8 = true →
      ∃ e', runOps e ops = .ok e' ∧ SpecAllows t toks e' rows cols := by
  induction hv with
  | nil => intro t e s2 _; exact ⟨e, rfl, .done s2⟩
  | @cons op tok ops toks hop hrest ih =>
    intro t e s2 ho
    obtain ⟨r, hr, h2⟩ := emu_refines_step_X hop s2 ho
    have ho' : r.1.osc8 = true := (VaxisModel.Lemmas.EmuOsc8.emuStep_o8 hr).trans ho
    cases hstep : Term.step t tok with
    | unconstrained =>
      obtain ⟨r', hr', hi'⟩ := hs e rows cols op s2.sim.inv s2.sim.dim (vocabX_not_resize hop)
      have : r' = r := by rw [hr] at hr'; cases hr'; rfl
      subst this
      obtain ⟨e', he'⟩ := run_safe_X hs s2.sim.dim hrest hi'
      exact ⟨e', runOps_cons hr he', .unconstrained hstep⟩
    | accept l =>
      rw [hstep] at h2
      obtain ⟨t', hm, s2'⟩ := h2
      obtain ⟨e', he', hsa⟩ := ih s2' ho'
      exact ⟨e', runOps_cons hr he', .step hstep hm hsa⟩

theorem emu_refines_session_X (hs : StepSafe) (w h : Int) (hw1 : 1 ≤ w) (hw2 : w ≤ 65535) (hh1 : 1 ≤ h)
    (hh2 : h ≤ 65535) {ops : List EOp} {toks : List Term.Tok} (hv : VocabHistX ops toks) :
    ∃ e0 e', Emu.new Fixes.current w h = .ok e0 ∧ runOps e0 ops = .ok e' ∧
      SpecAllows (Term.T.init h.toNat w.toNat) toks e' h.toNat w.toNat := by
  have he := new_eq w h (by omega) (by omega)
  obtain ⟨e', hr, hsa⟩ := emu_refines_history_X hs hv (sim2_init w h hw1 hw2 hh1 hh2 he) rfl
  exact ⟨_, e', he, hr, hsa⟩

end VaxisModel.Lemmas.EmuRefine
