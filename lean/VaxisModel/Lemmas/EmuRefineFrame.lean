/-
C06 refinement: FRAME lemmas. Every operation of the vocabulary other than DECSC / DECRC / ?1049
leaves the saved cursors, the screen selector and the inactive (primary) grid alone, on the emulator
side (`EFrame`, part A, together with what the operation does to the `lastCol` flag) and on the
reference side (`TFrame`, part B: `step_frame`).
-/
import VaxisModel.Lemmas.EmuRefine2

namespace VaxisModel.Lemmas.EmuRefine
open VaxisModel.Model.Emu VaxisModel.Model.EmuAbs VaxisModel.Lemmas.Emu VaxisModel.Spec
open PrintAux

/-! ## A. emulator side -/

/-! ### generic facts -/

theorem EFrame.refl (e : Emu) : EFrame e e := ⟨rfl, rfl, rfl, rfl, fun _ => rfl⟩

theorem EFrame.trans {a b c : Emu} (h1 : EFrame a b) (h2 : EFrame b c) : EFrame a c :=
  ⟨h2.savedP.trans h1.savedP, h2.savedA.trans h1.savedA, h2.smcup.trans h1.smcup,
   h2.altActive.trans h1.altActive,
   fun h => (h2.inactive (h1.altActive.trans h)).trans (h1.inactive h)⟩

/-- `setActive` only replaces the active grid. -/
theorem setActive_frame (e : Emu) (g : Grid) : EFrame e (e.setActive g) := by
  unfold Emu.setActive
  split
  · exact ⟨rfl, rfl, rfl, rfl, fun _ => rfl⟩
  · rename_i h
    exact ⟨rfl, rfl, rfl, rfl, fun h' => absurd h' h⟩

theorem setActive_lastCol (e : Emu) (g : Grid) : (e.setActive g).lastCol = e.lastCol := by
  unfold Emu.setActive; split <;> rfl

theorem setActive_cur (e : Emu) (g : Grid) : (e.setActive g).cur = e.cur := by
  unfold Emu.setActive; split <;> rfl

theorem frame_lastCol (e : Emu) (b : Bool) : EFrame e { e with lastCol := b } :=
  ⟨rfl, rfl, rfl, rfl, fun _ => rfl⟩

theorem frame_cur (e : Emu) (c : Cursor) : EFrame e { e with cur := c } :=
  ⟨rfl, rfl, rfl, rfl, fun _ => rfl⟩

theorem frame_cs (e : Emu) (c : Charsets) : EFrame e { e with cs := c } :=
  ⟨rfl, rfl, rfl, rfl, fun _ => rfl⟩

theorem frame_cur_lastCol (e : Emu) (c : Cursor) (b : Bool) : EFrame e { e with cur := c, lastCol := b } :=
  ⟨rfl, rfl, rfl, rfl, fun _ => rfl⟩

theorem lastColOk_of_false {e : Emu} {cols : Nat} (h : e.lastCol = false) : LastColOk e cols := by
  intro h'; rw [h] at h'; cases h'

theorem lastColOk_of_eq {e e' : Emu} {cols : Nat} (h1 : e'.lastCol = e.lastCol) (h2 : e'.cur = e.cur)
    (hl : LastColOk e cols) : LastColOk e' cols := by
  unfold LastColOk at *
  rw [h1, h2]; exact hl

/-! ### pure functions -/

theorem cr_frame (e : Emu) : EFrame e (cr e) ∧ (cr e).lastCol = false :=
  ⟨⟨rfl, rfl, rfl, rfl, fun _ => rfl⟩, rfl⟩

theorem cup_frame (e : Emu) (pm : List Param) :
    EFrame e (cup Fixes.current e pm) ∧ (cup Fixes.current e pm).lastCol = false :=
  ⟨⟨rfl, rfl, rfl, rfl, fun _ => rfl⟩, rfl⟩

theorem cha_frame (e : Emu) (n : Int) : EFrame e (cha e n) ∧ (cha e n).lastCol = false :=
  ⟨⟨rfl, rfl, rfl, rfl, fun _ => rfl⟩, rfl⟩

theorem hpa_frame (e : Emu) (n : Int) : EFrame e (hpa e n) ∧ (hpa e n).lastCol = false :=
  ⟨⟨rfl, rfl, rfl, rfl, fun _ => rfl⟩, rfl⟩

theorem vpa_frame (e : Emu) (n : Int) :
    EFrame e (vpa Fixes.current e n) ∧ (vpa Fixes.current e n).lastCol = false :=
  ⟨⟨rfl, rfl, rfl, rfl, fun _ => rfl⟩, rfl⟩

theorem cuu_frame (e : Emu) (n : Int) : EFrame e (cuu e n) ∧ (cuu e n).lastCol = false :=
  ⟨⟨rfl, rfl, rfl, rfl, fun _ => rfl⟩, rfl⟩

theorem cud_frame (e : Emu) (n : Int) :
    EFrame e (cud Fixes.current e n) ∧ (cud Fixes.current e n).lastCol = false :=
  ⟨⟨rfl, rfl, rfl, rfl, fun _ => rfl⟩, rfl⟩

theorem cuf_frame (e : Emu) (n : Int) : EFrame e (cuf e n) ∧ (cuf e n).lastCol = false :=
  ⟨⟨rfl, rfl, rfl, rfl, fun _ => rfl⟩, rfl⟩

theorem cub_frame (e : Emu) (n : Int) : EFrame e (cub e n) ∧ (cub e n).lastCol = false :=
  ⟨⟨rfl, rfl, rfl, rfl, fun _ => rfl⟩, rfl⟩

theorem ite_self_frame (e e2 : Emu) (c : Prop) [Decidable c] (cols : Nat) (h : EFrame e e2)
    (h2 : e2.lastCol = false) :
    EFrame e (if c then e else e2) ∧ (LastColOk e cols → LastColOk (if c then e else e2) cols) := by
  split
  · exact ⟨EFrame.refl e, id⟩
  · exact ⟨h, fun _ => lastColOk_of_false h2⟩

theorem decstbm_frame (e : Emu) (pm : List Param) (cols : Nat) :
    EFrame e (decstbm Fixes.current e pm) ∧
      (LastColOk e cols → LastColOk (decstbm Fixes.current e pm) cols) := by
  unfold decstbm
  simp only
  exact ite_self_frame _ _ _ _ ⟨rfl, rfl, rfl, rfl, fun _ => rfl⟩ rfl

/-! ### monadic functions -/

theorem bind_ok_inv {α β : Type} {x : M α} {f : α → M β} {b : β} (h : (x >>= f) = .ok b) :
    ∃ a, x = .ok a ∧ f a = .ok b := by
  cases x with
  | error e => cases h
  | ok a => exact ⟨a, rfl, h⟩

/-- the common shape: a new active grid is computed, then installed with `k` on top -/
theorem grid_bind_inv {x : M Grid} {k : Grid → Emu} {e' : Emu}
    (h : (x >>= fun g => Except.ok (k g)) = .ok e') : ∃ g, e' = k g := by
  obtain ⟨g, _, hg⟩ := bind_ok_inv h
  cases hg
  exact ⟨g, rfl⟩

theorem scrollUp_frame {e e' : Emu} {n : Int} (h : scrollUp e n = .ok e') :
    EFrame e e' ∧ e'.lastCol = e.lastCol ∧ e'.cur = e.cur := by
  unfold scrollUp at h
  obtain ⟨g, rfl⟩ := grid_bind_inv h
  exact ⟨setActive_frame _ _, setActive_lastCol _ _, setActive_cur _ _⟩

theorem scrollDown_frame {e e' : Emu} {n : Int} (h : scrollDown e n = .ok e') :
    EFrame e e' ∧ e'.lastCol = e.lastCol ∧ e'.cur = e.cur := by
  unfold scrollDown at h
  obtain ⟨g, rfl⟩ := grid_bind_inv h
  exact ⟨setActive_frame _ _, setActive_lastCol _ _, setActive_cur _ _⟩

theorem scrollUp_lastColOk {e e' : Emu} {n : Int} {cols : Nat} (h : scrollUp e n = .ok e')
    (hl : LastColOk e cols) : LastColOk e' cols :=
  lastColOk_of_eq (scrollUp_frame h).2.1 (scrollUp_frame h).2.2 hl

theorem scrollDown_lastColOk {e e' : Emu} {n : Int} {cols : Nat} (h : scrollDown e n = .ok e')
    (hl : LastColOk e cols) : LastColOk e' cols :=
  lastColOk_of_eq (scrollDown_frame h).2.1 (scrollDown_frame h).2.2 hl

theorem ind_frame {e e' : Emu} (h : ind e = .ok e') : EFrame e e' ∧ e'.lastCol = false := by
  unfold ind at h
  simp only at h
  split at h
  · obtain ⟨hf, hl, _⟩ := scrollUp_frame h
    exact ⟨(frame_lastCol e false).trans hf, hl⟩
  · split at h <;> (cases h; exact ⟨⟨rfl, rfl, rfl, rfl, fun _ => rfl⟩, rfl⟩)

theorem nel_frame {e e' : Emu} (h : nel e = .ok e') : EFrame e e' ∧ e'.lastCol = false := by
  unfold nel at h
  obtain ⟨e1, h1, h2⟩ := bind_ok_inv h
  cases h2
  obtain ⟨hf, hl⟩ := ind_frame h1
  exact ⟨hf.trans (frame_cur _ _), hl⟩

theorem lf_frame {e e' : Emu} (h : lf e = .ok e') : EFrame e e' ∧ e'.lastCol = false := by
  unfold lf at h
  obtain ⟨e1, h1, h2⟩ := bind_ok_inv h
  cases h2
  obtain ⟨hf, hl⟩ := ind_frame h1
  split
  · exact ⟨hf, hl⟩
  · exact ⟨hf.trans (frame_cur _ _), hl⟩

theorem ri_frame {e e' : Emu} (h : ri Fixes.current e = .ok e') : EFrame e e' ∧ e'.lastCol = false := by
  unfold ri at h
  simp only [Fixes.current, if_true] at h
  split at h
  · obtain ⟨hf, hl, _⟩ := scrollDown_frame h
    exact ⟨(frame_lastCol e false).trans hf, hl⟩
  · split at h <;> (cases h; exact ⟨⟨rfl, rfl, rfl, rfl, fun _ => rfl⟩, rfl⟩)

theorem cnl_frame {e e' : Emu} {n : Int} (h : cnl Fixes.current e n = .ok e') :
    EFrame e e' ∧ e'.lastCol = false := by
  unfold cnl at h
  simp only [show Fixes.current.f54 = true from rfl, if_true] at h
  cases h
  exact ⟨⟨rfl, rfl, rfl, rfl, fun _ => rfl⟩, rfl⟩

theorem cpl_frame {e e' : Emu} {n : Int} (h : cpl Fixes.current e n = .ok e') :
    EFrame e e' ∧ e'.lastCol = false := by
  unfold cpl at h
  simp only [show Fixes.current.f54 = true from rfl, if_true] at h
  cases h
  exact ⟨⟨rfl, rfl, rfl, rfl, fun _ => rfl⟩, rfl⟩

theorem el_frame {e e' : Emu} {n : Int} (h : el Fixes.current e n = .ok e') :
    EFrame e e' ∧ e'.lastCol = false := by
  unfold el at h
  simp only at h
  split at h
  · obtain ⟨g, rfl⟩ := grid_bind_inv h
    exact ⟨(frame_lastCol e false).trans (setActive_frame _ _), (setActive_lastCol _ _).trans rfl⟩
  · split at h
    · obtain ⟨g, rfl⟩ := grid_bind_inv h
      exact ⟨(frame_lastCol e false).trans (setActive_frame _ _), (setActive_lastCol _ _).trans rfl⟩
    · split at h
      · obtain ⟨g, rfl⟩ := grid_bind_inv h
        exact ⟨(frame_lastCol e false).trans (setActive_frame _ _), (setActive_lastCol _ _).trans rfl⟩
      · cases h
        exact ⟨frame_lastCol e false, rfl⟩

theorem ed_frame {e e' : Emu} {n : Int} (h : ed e n = .ok e') :
    EFrame e e' ∧ (n = 0 ∨ n = 1 ∨ n = 2 → e'.lastCol = false) ∧
      (¬ (n = 0 ∨ n = 1 ∨ n = 2) → e' = e) := by
  unfold ed at h
  split at h
  · obtain ⟨g, rfl⟩ := grid_bind_inv h
    exact ⟨(frame_lastCol e false).trans (setActive_frame _ _),
      fun _ => (setActive_lastCol _ _).trans rfl, fun hn => absurd (Or.inl ‹_›) hn⟩
  · split at h
    · obtain ⟨g, rfl⟩ := grid_bind_inv h
      exact ⟨(frame_lastCol e false).trans (setActive_frame _ _),
        fun _ => (setActive_lastCol _ _).trans rfl, fun hn => absurd (Or.inr (Or.inl ‹_›)) hn⟩
    · split at h
      · obtain ⟨g, rfl⟩ := grid_bind_inv h
        exact ⟨(frame_lastCol e false).trans (setActive_frame _ _),
          fun _ => (setActive_lastCol _ _).trans rfl, fun hn => absurd (Or.inr (Or.inr ‹_›)) hn⟩
      · cases h
        refine ⟨EFrame.refl _, fun hn => ?_, fun _ => rfl⟩
        rcases hn with h0 | h1 | h2 <;> contradiction

theorem ed_lastColOk {e e' : Emu} {n : Int} {cols : Nat} (h : ed e n = .ok e')
    (hl : LastColOk e cols) : LastColOk e' cols := by
  obtain ⟨_, h1, h2⟩ := ed_frame h
  by_cases hn : n = 0 ∨ n = 1 ∨ n = 2
  · exact lastColOk_of_false (h1 hn)
  · rw [h2 hn]; exact hl

theorem ech_frame {e e' : Emu} {n : Int} (h : ech e n = .ok e') : EFrame e e' ∧ e'.lastCol = false := by
  unfold ech at h
  obtain ⟨g, rfl⟩ := grid_bind_inv h
  exact ⟨(frame_lastCol e false).trans (setActive_frame _ _), (setActive_lastCol _ _).trans rfl⟩

theorem dch_frame {e e' : Emu} {n : Int} (h : dch e n = .ok e') : EFrame e e' ∧ e'.lastCol = false := by
  unfold dch at h
  obtain ⟨g, rfl⟩ := grid_bind_inv h
  exact ⟨(frame_lastCol e false).trans (setActive_frame _ _), (setActive_lastCol _ _).trans rfl⟩

theorem ich_frame {e e' : Emu} {n : Int} (h : ich Fixes.current e n = .ok e') :
    EFrame e e' ∧ e'.lastCol = e.lastCol ∧ e'.cur = e.cur := by
  unfold ich at h
  obtain ⟨line, _, h⟩ := bind_ok_inv h
  obtain ⟨line1, _, h⟩ := bind_ok_inv h
  obtain ⟨line2, _, h⟩ := bind_ok_inv h
  obtain ⟨g, rfl⟩ := grid_bind_inv h
  exact ⟨setActive_frame _ _, setActive_lastCol _ _, setActive_cur _ _⟩

theorem il_frame {e e' : Emu} {n : Int} (h : il Fixes.current e n = .ok e') :
    EFrame e e' ∧ e'.lastCol = false := by
  unfold il at h
  simp only at h
  split at h
  · cases h
    exact ⟨frame_lastCol e false, rfl⟩
  · obtain ⟨g1, _, h⟩ := bind_ok_inv h
    obtain ⟨g, rfl⟩ := grid_bind_inv h
    exact ⟨((frame_lastCol e false).trans (setActive_frame _ _)).trans (frame_cur _ _),
      (setActive_lastCol _ _).trans rfl⟩

theorem dl_frame {e e' : Emu} {n : Int} (h : dl Fixes.current e n = .ok e') :
    EFrame e e' ∧ e'.lastCol = false := by
  unfold dl at h
  simp only at h
  split at h
  · cases h
    exact ⟨frame_lastCol e false, rfl⟩
  · obtain ⟨g, rfl⟩ := grid_bind_inv h
    exact ⟨((frame_lastCol e false).trans (setActive_frame _ _)).trans (frame_cur _ _),
      (setActive_lastCol _ _).trans rfl⟩

/-! ### print (phases of `Lemmas/EmuSafe4.lean`) -/

theorem printPre_frame (e : Emu) : EFrame e (printPre e) := by
  unfold printPre
  split
  · exact frame_cs _ _
  · exact EFrame.refl e

theorem printAdvance_frame (e : Emu) (wi : Int) : EFrame e (printAdvance e wi) := by
  unfold printAdvance
  simp only
  split <;> split <;> split <;> exact ⟨rfl, rfl, rfl, rfl, fun _ => rfl⟩

theorem printWrite_frame {e e' : Emu} {g : G} {w : Nat} {col rw : Int}
    (h : printWrite e g w col rw = .ok e') : EFrame e e' := by
  unfold printWrite at h
  split at h
  · cases h; exact EFrame.refl e
  · obtain ⟨row, _, h⟩ := bind_ok_inv h
    obtain ⟨row', _, h⟩ := bind_ok_inv h
    obtain ⟨g1, _, h⟩ := bind_ok_inv h
    obtain ⟨g2, rfl⟩ := grid_bind_inv h
    exact (setActive_frame _ _).trans (printAdvance_frame _ _)

theorem printK2_frame {e e' : Emu} {g : G} {w : Nat} {col0 rw0 : Int}
    (h : printK2 col0 rw0 g w e = .ok e') : EFrame e e' := by
  unfold printK2 at h
  exact printWrite_frame h

theorem printK1_frame {e e' : Emu} {g : G} {w : Nat} (h : printK1 g w e = .ok e') : EFrame e e' := by
  unfold printK1 at h
  split at h
  · obtain ⟨line, _, h⟩ := bind_ok_inv h
    obtain ⟨line', _, h⟩ := bind_ok_inv h
    obtain ⟨g', _, h⟩ := bind_ok_inv h
    exact (setActive_frame _ _).trans (printK2_frame h)
  · exact printK2_frame h

theorem printK0_frame {e e' : Emu} {g : G} {w : Nat} (h : printK0 g w e = .ok e') : EFrame e e' := by
  unfold printK0 at h
  split at h
  · obtain ⟨g', _, h⟩ := bind_ok_inv h
    obtain ⟨e1, h1, h⟩ := bind_ok_inv h
    exact (((frame_lastCol e false).trans (setActive_frame _ _)).trans (nel_frame h1).1).trans
      (printK1_frame h)
  · exact printK1_frame h

/-- `print` touches only the active grid, the cursor, `lastCol` and `cs` (single shift). -/
theorem print_frame {e e' : Emu} {g : G} {w : Nat} (h : print Fixes.current e g w = .ok e') :
    EFrame e e' := by
  rw [print_eq] at h
  exact (printPre_frame e).trans (printK0_frame h)

/-! ## B. reference side -/

theorem TFrame.refl (t : Term.T) : TFrame t t := ⟨rfl, rfl, rfl, fun _ => rfl⟩

theorem TFrame.trans {a b c : Term.T} (h1 : TFrame a b) (h2 : TFrame b c) : TFrame a c :=
  ⟨h2.savedP.trans h1.savedP, h2.savedA.trans h1.savedA, h2.onAlt.trans h1.onAlt,
   fun h => (h2.inactive (h1.onAlt.trans h)).trans (h1.inactive h)⟩

theorem setGrid_tframe (t : Term.T) (g : Term.TGrid) : TFrame t (t.setGrid g) := by
  unfold Term.T.setGrid
  split
  · exact ⟨rfl, rfl, rfl, fun _ => rfl⟩
  · rename_i h
    exact ⟨rfl, rfl, rfl, fun h' => absurd h' h⟩

theorem modRow_tframe (t : Term.T) (r : Nat) (f : Term.TRow → Term.TRow) : TFrame t (t.modRow r f) :=
  setGrid_tframe _ _

theorem scrollUp_tframe (t : Term.T) (a b m : Nat) : TFrame t (t.scrollUp a b m) := setGrid_tframe _ _

theorem scrollDown_tframe (t : Term.T) (a b m : Nat) : TFrame t (t.scrollDown a b m) := setGrid_tframe _ _

theorem indCore_tframe (t : Term.T) : TFrame t t.indCore := by
  unfold Term.T.indCore
  split
  · exact scrollUp_tframe _ _ _ _
  · split
    · exact ⟨rfl, rfl, rfl, fun _ => rfl⟩
    · exact TFrame.refl t

theorem riCore_tframe (t : Term.T) : TFrame t t.riCore := by
  unfold Term.T.riCore
  split
  · exact scrollDown_tframe _ _ _ _
  · split
    · exact ⟨rfl, rfl, rfl, fun _ => rfl⟩
    · exact TFrame.refl t

theorem cuuCore_tframe (t : Term.T) (n : Nat) : TFrame t (t.cuuCore n) := ⟨rfl, rfl, rfl, fun _ => rfl⟩
theorem cudCore_tframe (t : Term.T) (n : Nat) : TFrame t (t.cudCore n) := ⟨rfl, rfl, rfl, fun _ => rfl⟩

/-- record updates of the cursor position / pending wrap keep the frame -/
theorem tframe_row (t : Term.T) (r : Nat) : TFrame t { t with row := r } := ⟨rfl, rfl, rfl, fun _ => rfl⟩
theorem tframe_col (t : Term.T) (c : Nat) : TFrame t { t with col := c } := ⟨rfl, rfl, rfl, fun _ => rfl⟩
theorem tframe_pw (t : Term.T) (b : Bool) : TFrame t { t with pw := b } := ⟨rfl, rfl, rfl, fun _ => rfl⟩
theorem tframe_col_pw (t : Term.T) (c : Nat) (b : Bool) : TFrame t { t with col := c, pw := b } :=
  ⟨rfl, rfl, rfl, fun _ => rfl⟩
theorem tframe_pen (t : Term.T) (p : TStyle) : TFrame t { t with pen := p } := ⟨rfl, rfl, rfl, fun _ => rfl⟩

/-- the autowrap of `writeNarrow` / `writeWide` -/
theorem wrap_tframe (t : Term.T) :
    TFrame t { ({ t with col := 0, pw := false } : Term.T).indCore with pw := false } :=
  ((tframe_col_pw t 0 false).trans (indCore_tframe _)).trans (tframe_pw _ false)

theorem ite_tframe {t a b : Term.T} (c : Prop) [Decidable c] (ha : TFrame t a) (hb : TFrame t b) :
    TFrame t (if c then a else b) := by
  split
  · exact ha
  · exact hb

theorem writeNarrow_tframe (t : Term.T) (g : Term.G) : TFrame t (t.writeNarrow g) := by
  have h1 : TFrame t (if t.pw = true then
      { ({ t with col := 0, pw := false } : Term.T).indCore with pw := false } else t) :=
    ite_tframe _ (wrap_tframe t) (TFrame.refl t)
  unfold Term.T.writeNarrow
  simp only
  apply ite_tframe
  · exact (h1.trans (modRow_tframe _ _ _)).trans (tframe_pw _ true)
  · exact (h1.trans (modRow_tframe _ _ _)).trans (tframe_col _ _)

theorem writeWide_tframe (t : Term.T) (g : Term.G) : TFrame t (t.writeWide g) := by
  have h1 : TFrame t (if t.pw = true ∨ t.col + 1 = t.cols then
      { ({ t with col := 0, pw := false } : Term.T).indCore with pw := false } else t) :=
    ite_tframe _ (wrap_tframe t) (TFrame.refl t)
  unfold Term.T.writeWide
  simp only
  apply ite_tframe
  · exact (h1.trans (modRow_tframe _ _ _)).trans (tframe_col_pw _ _ true)
  · exact (h1.trans (modRow_tframe _ _ _)).trans (tframe_col _ _)

/-! ### the step function -/

/-- every state accepted by the result frames -/
def RFrame (t : Term.T) (r : Term.Res) : Prop := ∀ l, r = .accept l → ∀ t' ∈ l, TFrame t t'

theorem rframe_unc (t : Term.T) : RFrame t .unconstrained := by
  intro l h; cases h

theorem rframe_accept {t : Term.T} {l : List Term.T} (h : ∀ t' ∈ l, TFrame t t') : RFrame t (.accept l) := by
  intro l' h'; cases h'; exact h

theorem rframe_one {t x : Term.T} (h : TFrame t x) : RFrame t (Term.one x) := by
  apply rframe_accept
  intro t' ht'
  rw [List.mem_singleton] at ht'
  rw [ht']; exact h

theorem rframe_pair {t x y : Term.T} (hx : TFrame t x) (hy : TFrame t y) : RFrame t (.accept [x, y]) := by
  apply rframe_accept
  intro t' ht'
  simp only [List.mem_cons, List.not_mem_nil, or_false] at ht'
  rcases ht' with rfl | rfl
  · exact hx
  · exact hy

theorem rframe_ite {t : Term.T} {a b : Term.Res} (c : Prop) [Decidable c] (ha : RFrame t a) (hb : RFrame t b) :
    RFrame t (if c then a else b) := by
  split
  · exact ha
  · exact hb

theorem rframe_unlessPw {t : Term.T} {f : Term.T → Term.Res} (h : RFrame t (f t)) :
    RFrame t (Term.unlessPw t f) := by
  unfold Term.unlessPw
  exact rframe_ite _ (rframe_unc t) h

/-- A reference step other than DECSC / DECRC / ?1049 leaves the saved cursors, the screen selector
    and the inactive primary grid alone. -/
theorem step_frame (t : Term.T) (tok : Term.Tok) (h1 : tok ≠ .decsc) (h2 : tok ≠ .decrc)
    (h3 : tok ≠ .altOn) (h4 : tok ≠ .altOff) (h5 : tok ≠ .ris) :
    ∀ l, Term.step t tok = .accept l → ∀ t' ∈ l, TFrame t t' := by
  show RFrame t (Term.step t tok)
  cases tok with
  | decsc => exact absurd rfl h1
  | decrc => exact absurd rfl h2
  | altOn => exact absurd rfl h3
  | altOff => exact absurd rfl h4
  | print g w =>
    unfold Term.step
    exact rframe_ite _ (rframe_one (writeNarrow_tframe t g))
      (rframe_ite _ (rframe_ite _ (rframe_one (writeWide_tframe t g)) (rframe_unc t)) (rframe_unc t))
  | cr => exact rframe_one (tframe_col_pw t 0 false)
  | lf =>
    unfold Term.step; apply rframe_unlessPw
    exact rframe_one (indCore_tframe t)
  | ind =>
    unfold Term.step; apply rframe_unlessPw
    exact rframe_one (indCore_tframe t)
  | nel =>
    unfold Term.step; apply rframe_unlessPw
    exact rframe_one ((indCore_tframe t).trans (tframe_col _ 0))
  | ri =>
    unfold Term.step; apply rframe_unlessPw
    exact rframe_one (riCore_tframe t)
  | cup a b => exact rframe_one ⟨rfl, rfl, rfl, fun _ => rfl⟩
  | cha n => exact rframe_one ⟨rfl, rfl, rfl, fun _ => rfl⟩
  | vpa n => exact rframe_one ⟨rfl, rfl, rfl, fun _ => rfl⟩
  | cuu n =>
    unfold Term.step; apply rframe_unlessPw
    exact rframe_one (cuuCore_tframe t n)
  | cud n =>
    unfold Term.step; apply rframe_unlessPw
    exact rframe_one (cudCore_tframe t n)
  | cuf n =>
    unfold Term.step; apply rframe_unlessPw
    exact rframe_one (tframe_col t _)
  | cub n =>
    unfold Term.step; apply rframe_unlessPw
    exact rframe_one (tframe_col t _)
  | cnl n =>
    unfold Term.step; apply rframe_unlessPw
    exact rframe_one ((cudCore_tframe t n).trans (tframe_col _ 0))
  | cpl n =>
    unfold Term.step; apply rframe_unlessPw
    exact rframe_one ((cuuCore_tframe t n).trans (tframe_col _ 0))
  | el n =>
    unfold Term.step; apply rframe_unlessPw
    exact rframe_ite _ (rframe_one (modRow_tframe _ _ _))
      (rframe_ite _ (rframe_one (modRow_tframe _ _ _))
        (rframe_ite _ (rframe_one (modRow_tframe _ _ _)) (rframe_unc t)))
  | ed n =>
    unfold Term.step; apply rframe_unlessPw
    exact rframe_ite _ (rframe_one ((modRow_tframe _ _ _).trans (setGrid_tframe _ _)))
      (rframe_ite _ (rframe_one ((modRow_tframe _ _ _).trans (setGrid_tframe _ _)))
        (rframe_ite _ (rframe_one (setGrid_tframe _ _)) (rframe_unc t)))
  | ech n =>
    unfold Term.step; apply rframe_unlessPw
    exact rframe_one (modRow_tframe _ _ _)
  | ich n =>
    unfold Term.step; apply rframe_unlessPw
    exact rframe_one (modRow_tframe _ _ _)
  | dch n =>
    unfold Term.step; apply rframe_unlessPw
    exact rframe_one (modRow_tframe _ _ _)
  | il n =>
    unfold Term.step; apply rframe_unlessPw
    exact rframe_ite _
      (rframe_pair (scrollDown_tframe _ _ _ _) ((scrollDown_tframe _ _ _ _).trans (tframe_col _ 0)))
      (rframe_one (TFrame.refl t))
  | dl n =>
    unfold Term.step; apply rframe_unlessPw
    exact rframe_ite _
      (rframe_pair (scrollUp_tframe _ _ _ _) ((scrollUp_tframe _ _ _ _).trans (tframe_col _ 0)))
      (rframe_one (TFrame.refl t))
  | su n => exact rframe_one (scrollUp_tframe _ _ _ _)
  | sd n => exact rframe_one (scrollDown_tframe _ _ _ _)
  | decstbm a b =>
    have hset : ∀ bot : Nat, TFrame t { t with top := Term.d1 a - 1, bottom := bot - 1, row := 0, col := 0, pw := false } :=
      fun _ => ⟨rfl, rfl, rfl, fun _ => rfl⟩
    unfold Term.step
    simp only
    apply rframe_ite
    · exact rframe_ite _ (rframe_one (hset _)) (rframe_one (TFrame.refl t))
    · apply rframe_accept
      intro t' ht'
      rw [List.mem_append, List.mem_singleton] at ht'
      rcases ht' with ht' | ht'
      · split at ht' <;> (rw [List.mem_singleton] at ht'; rw [ht'])
        · exact hset _
        · exact TFrame.refl t
      · rw [ht']; exact TFrame.refl t
  | sgr params => exact rframe_one (tframe_pen t _)
  | showCursor on => exact rframe_one ⟨rfl, rfl, rfl, fun _ => rfl⟩
  | cursorShape n => exact rframe_one ⟨rfl, rfl, rfl, fun _ => rfl⟩
  | osc8 p u => exact rframe_one ⟨rfl, rfl, rfl, fun _ => rfl⟩
  | ris => exact absurd rfl h5
  | ignored => exact rframe_one (TFrame.refl t)

end VaxisModel.Lemmas.EmuRefine
