/-
C06 refinement, part: PRINT (narrow / wide, with and without autowrap), ICH, DCH.

The emulator (`Model.Emu.print/ich/dch`, current code) against the reference terminal
(`Spec.Term.step`). See the header of `Lemmas/EmuRefine.lean` for `Sim` / `Refines`.

`Sim` does not mention the emulator's `lastCol` flag, but `print` reads it (it wraps when the flag is
set, wherever the cursor is). The lemmas about `print` therefore carry the extra invariant
`LastColOk e cols` (flag set ⇒ the cursor is in the pending-wrap column) as a hypothesis, and
re-establish it for the resulting state.

The wrapping variants take the refinement of NEL (IND + column 0, proved elsewhere) as the
hypothesis `NelHyp rows cols`.
-/
import VaxisModel.Lemmas.EmuRefine
import VaxisModel.Lemmas.EmuSafe3
import VaxisModel.Lemmas.EmuSafe4

namespace VaxisModel.Lemmas.EmuRefine.PrintAux
open VaxisModel.Model.Emu VaxisModel.Model.EmuAbs VaxisModel.Lemmas.Emu VaxisModel.Spec

/-! ### lists: index characterisation of `rowAccepts` / `gridAccepts` -/

theorem all_zip_iff {α β : Type} (p : α × β → Bool) : ∀ (l1 : List α) (l2 : List β),
    l1.length = l2.length →
    ((l1.zip l2).all p = true ↔ ∀ (i : Nat) (a : α) (b : β), l1[i]? = some a → l2[i]? = some b → p (a, b) = true) := by
  intro l1
  induction l1 with
  | nil => intro l2 _; simp
  | cons x xs ih =>
    intro l2 hl
    cases l2 with
    | nil => simp at hl
    | cons y ys =>
      have hl' : xs.length = ys.length := by simpa using hl
      rw [List.zip_cons_cons, List.all_cons, Bool.and_eq_true, ih ys hl']
      constructor
      · rintro ⟨h0, hr⟩ i a b ha hb
        cases i with
        | zero => simp at ha hb; subst ha; subst hb; exact h0
        | succ i => simp at ha hb; exact hr i a b ha hb
      · intro h
        exact ⟨h 0 x y rfl rfl, fun i a b ha hb => h (i + 1) a b (by simpa using ha) (by simpa using hb)⟩

theorem rowAccepts_iff (s a : Term.TRow) :
    Term.rowAccepts s a = true ↔
      s.length = a.length ∧ ∀ (i : Nat) (x y : Term.TCell), s[i]? = some x → a[i]? = some y → x.accepts y = true := by
  unfold Term.rowAccepts
  rw [Bool.and_eq_true, decide_eq_true_eq]
  constructor
  · rintro ⟨hl, h⟩; exact ⟨hl, (all_zip_iff _ s a hl).mp h⟩
  · rintro ⟨hl, h⟩; exact ⟨hl, (all_zip_iff _ s a hl).mpr h⟩

theorem gridAccepts_iff (s a : Term.TGrid) :
    Term.gridAccepts s a = true ↔
      s.length = a.length ∧ ∀ (i : Nat) (x y : Term.TRow), s[i]? = some x → a[i]? = some y → Term.rowAccepts x y = true := by
  unfold Term.gridAccepts
  rw [Bool.and_eq_true, decide_eq_true_eq]
  constructor
  · rintro ⟨hl, h⟩; exact ⟨hl, (all_zip_iff _ s a hl).mp h⟩
  · rintro ⟨hl, h⟩; exact ⟨hl, (all_zip_iff _ s a hl).mpr h⟩

theorem accepts_self (c : Term.TCell) : c.accepts c = true := by
  cases c <;> simp [Term.TCell.accepts]

/-- Replace row `r` on both sides: enough that the new rows accept each other. -/
theorem gridAccepts_modify_set {tg : Term.TGrid} {g : Grid} (h : Term.gridAccepts tg (g.map absRow) = true)
    (r : Nat) (f : Term.TRow → Term.TRow) (row' : Row)
    (hrow : ∀ trow row, tg[r]? = some trow → g[r]? = some row →
      Term.rowAccepts trow (absRow row) = true → Term.rowAccepts (f trow) (absRow row') = true) :
    Term.gridAccepts (tg.modify r f) ((g.set r row').map absRow) = true := by
  rw [gridAccepts_iff] at h ⊢
  obtain ⟨hl, hi⟩ := h
  refine ⟨by simpa using hl, ?_⟩
  intro i x y hx hy
  rw [List.getElem?_modify] at hx
  rw [List.getElem?_map, List.getElem?_set] at hy
  by_cases hir : r = i
  · subst hir
    simp only [if_true] at hx hy
    cases htg : tg[r]? with
    | none => rw [htg] at hx; simp at hx
    | some trow =>
      rw [htg] at hx; simp at hx
      cases hg : g[r]? with
      | none =>
        have : ¬ r < g.length := by
          intro hlt; rw [List.getElem?_eq_getElem hlt] at hg; simp at hg
        simp [this] at hy
      | some row =>
        have hlt : r < g.length := by
          rcases Nat.lt_or_ge r g.length with h1 | h1
          · exact h1
          · rw [List.getElem?_eq_none h1] at hg; simp at hg
        simp [hlt] at hy
        subst hx; subst hy
        exact hrow trow row htg hg (hi r trow (absRow row) htg (by simp [hg]))
  · simp only [hir, if_false] at hx hy
    simp at hx
    exact hi i x y hx (by simpa using hy)

/-! ### checked accesses, exact results -/

theorem getI_some {α : Type} {l : List α} {i : Int} {x : α} (h0 : 0 ≤ i) (h : l[i.toNat]? = some x) :
    getI l i = .ok x := by
  unfold getI; simp [h0, h]

theorem row_at {g : Grid} {rows cols : Nat} (h : GridOk g rows cols) (r : Nat) (hr : r < rows) :
    ∃ row, g[r]? = some row ∧ row.length = cols := by
  have hlt : r < g.length := by rw [h.len]; exact hr
  exact ⟨g[r], List.getElem?_eq_getElem hlt, h.rowLen _ (List.getElem_mem hlt)⟩


/-! ### `Sim` after replacing the grid and moving the column -/

/-- Move the column only (possibly into the pending-wrap column `cols`). -/
theorem sim_setCol {t : Term.T} {e : Emu} {rows cols : Nat} (s : Sim t e rows cols)
    (tc : Nat) (tpw : Bool) (c : Int) (lc : Bool) (hc0 : 0 ≤ c) (hc1 : c ≤ cols)
    (hcol : (tc : Int) = if c ≥ cols then (cols : Int) - 1 else c) (hpw : tpw = decide (c ≥ cols)) :
    Sim { t with col := tc, pw := tpw } { e with cur := { e.cur with col := c }, lastCol := lc } rows cols :=
  { inv := { s.inv with colLo := hc0, colHi := hc1 }
    dim := s.dim, vm := ⟨s.vm.awm, s.vm.irm, s.vm.lnm, s.vm.ascii, s.vm.noShift⟩
    trows := s.trows, tcols := s.tcols, onAlt := s.onAlt
    row := s.row, col := hcol, pw := hpw, pen := s.pen, link := s.link, top := s.top, bottom := s.bottom
    grid := s.grid }

/-- Replace the active grid on both sides AND move the column (possibly into the pending-wrap
    column). -/
theorem sim_setGridCol {t : Term.T} {e : Emu} {rows cols : Nat} (s : Sim t e rows cols)
    (tg : Term.TGrid) (g : Grid) (hg : GridOk g rows cols)
    (hacc : Term.gridAccepts tg (g.map absRow) = true)
    (tc : Nat) (tpw : Bool) (c : Int) (lc : Bool) (hc0 : 0 ≤ c) (hc1 : c ≤ cols)
    (hcol : (tc : Int) = if c ≥ cols then (cols : Int) - 1 else c) (hpw : tpw = decide (c ≥ cols)) :
    Sim { (t.setGrid tg) with col := tc, pw := tpw }
        { (e.setActive g) with cur := { (e.setActive g).cur with col := c }, lastCol := lc } rows cols :=
  sim_setCol (sim_setGrid s tg g hg hacc (e.setActive g).lastCol) tc tpw c lc hc0 hc1 hcol hpw

theorem setGrid_col (t : Term.T) (tg : Term.TGrid) : (t.setGrid tg).col = t.col := by
  unfold Term.T.setGrid; split <;> rfl
theorem setGrid_cols (t : Term.T) (tg : Term.TGrid) : (t.setGrid tg).cols = t.cols := by
  unfold Term.T.setGrid; split <;> rfl
theorem setGrid_pw (t : Term.T) (tg : Term.TGrid) : (t.setGrid tg).pw = t.pw := by
  unfold Term.T.setGrid; split <;> rfl

/-! ### the emulator side of `print`, exact results -/

/-- the cursor advance in autowrap mode, when the glyph fits -/
theorem printAdvance_eq (e : Emu) (w : Nat) (cols : Nat) (hawm : e.mode.decawm = true)
    (hright : e.right = (cols : Int) - 1) (hle : e.cur.col + (w : Int) ≤ cols) :
    printAdvance e w =
      { e with cur := { e.cur with col := e.cur.col + (w : Int) },
               lastCol := if e.cur.col + (w : Int) ≥ cols then true else e.lastCol } := by
  unfold printAdvance
  simp only [hawm, Bool.not_true, Bool.false_and, Bool.false_eq_true, if_false, hright,
    decide_eq_true_eq]
  have h1 : ¬ (e.cur.col + (w : Int) > (cols : Int) - 1 + 1) := by omega
  simp only [h1, if_false]
  by_cases h2 : e.cur.col + (w : Int) ≥ cols
  · have h3 : e.cur.col + (w : Int) ≥ (cols : Int) - 1 + 1 := by omega
    simp [h2, h3, hawm]
  · have h3 : ¬ (e.cur.col + (w : Int) ≥ (cols : Int) - 1 + 1) := by omega
    simp [h2, h3]

theorem forUpBrk_none {σ : Type} (body : Int → σ → M (σ × Bool)) (s : σ) :
    forUpBrk 1 (((1 : Nat) : Int) - 1) body s = .ok s := rfl

theorem forUpBrk_once {σ : Type} (body : Int → σ → M (σ × Bool)) (s : σ) :
    forUpBrk 1 (((2 : Nat) : Int) - 1) body s = (body 1 s >>= fun r => .ok r.1) := by
  show (forUpBrkGo body 1 1 s >>= fun r => Except.ok r.1) = _
  unfold forUpBrkGo
  cases body 1 s with
  | error e => rfl
  | ok r => obtain ⟨s', go⟩ := r; cases go <;> rfl


theorem printK1_pos {e : Emu} {rows cols : Nat} (h : EmuInv e rows cols) (d : Dim rows cols)
    (hirm : e.mode.irm = false) (hc : e.cur.col < cols) (g : G) (w : Nat) :
    printK1 g w e = printWrite e g w e.cur.col e.cur.row := by
  have hh := height_eq h
  have hw := width_eq h d.r1
  have := h.rowLo; have := h.rowHi; have := h.colLo
  unfold printK1
  simp only [hirm, Bool.false_eq_true, if_false]
  unfold printK2
  rw [hh, hw]
  have e1 : (if e.cur.col > (cols : Int) - 1 then (cols : Int) - 1 else e.cur.col) = e.cur.col := by
    split <;> omega
  have e2 : (if e.cur.row > (rows : Int) - 1 then (rows : Int) - 1 else e.cur.row) = e.cur.row := by
    split <;> omega
  rw [e1, e2]

theorem printK1_narrow {e : Emu} {rows cols : Nat} (h : EmuInv e rows cols) (d : Dim rows cols)
    (hirm : e.mode.irm = false) (hc : e.cur.col < cols) (g : G) {row : Row}
    (hrow : e.active[e.cur.row.toNat]? = some row) (hlen : row.length = cols) :
    printK1 g 1 e = .ok (printAdvance (e.setActive (e.active.set e.cur.row.toNat
        (row.set e.cur.col.toNat { g := g, w := 1, st := e.cur.st }))) ((1 : Nat) : Int)) := by
  have hg := active_ok h
  have := h.rowLo; have := h.rowHi; have := h.colLo
  rw [printK1_pos h d hirm hc]
  unfold printWrite
  rw [if_neg (by decide)]
  rw [getI_some h.rowLo hrow, exceptOk_bind, setI_ok row _ _ h.colLo (by omega), exceptOk_bind,
    setI_ok e.active _ _ h.rowLo (by rw [hg.len]; omega), exceptOk_bind, forUpBrk_none, exceptOk_bind]


/-! ### rows -/

theorem rowAccepts_set {trow arow : Term.TRow} (h : Term.rowAccepts trow arow = true) (k : Nat)
    (x y : Term.TCell) (hxy : x.accepts y = true) :
    Term.rowAccepts (trow.set k x) (arow.set k y) = true := by
  rw [rowAccepts_iff] at h ⊢
  obtain ⟨hl, hi⟩ := h
  refine ⟨by simpa using hl, ?_⟩
  intro i a b ha hb
  rw [List.getElem?_set] at ha hb
  by_cases hk : k = i
  · simp only [hk, if_true] at ha hb
    split at ha
    · split at hb
      · simp at ha hb; subst ha; subst hb; exact hxy
      · simp at hb
    · simp at ha
  · simp only [hk, if_false] at ha hb
    exact hi i a b ha hb

theorem absCell_glyph (g : G) (w : Nat) (st : EStyle) (hg : g ≠ []) :
    absCell { g := g, w := w, st := st } = .glyph g w (absStyle st) st.link := by
  unfold absCell; simp [hg]

/-! ### the reference side of `print` -/

/-- the state in which the reference writes after an autowrap: IND, column 0, no pending wrap -/
def wrapT (t : Term.T) : Term.T :=
  { ({ t with col := 0, pw := false } : Term.T).indCore with pw := false }

/-- the reference's narrow write, after the wrap decision -/
def narrowCore (t : Term.T) (g : Term.G) : Term.T :=
  let t1 := t.modRow t.row (fun row => row.set t.col (.glyph g 1 t.pen t.link))
  if t1.col + 1 = t1.cols then { t1 with pw := true } else { t1 with col := t1.col + 1 }

/-- the reference's wide write, after the wrap decision -/
def wideCore (t : Term.T) (g : Term.G) : Term.T :=
  let t1 := t.modRow t.row (fun row => (row.set t.col (.glyph g 2 t.pen t.link)).set (t.col + 1) .cont)
  if t1.col + 2 = t1.cols then { t1 with col := t1.col + 1, pw := true } else { t1 with col := t1.col + 2 }

theorem narrowCore_eq (t : Term.T) (g : Term.G) :
    narrowCore t g =
      if t.col + 1 = t.cols then
        { (t.setGrid (t.grid.modify t.row (fun r => Term.healRow (r.set t.col (.glyph g 1 t.pen t.link))))) with
          pw := true }
      else
        { (t.setGrid (t.grid.modify t.row (fun r => Term.healRow (r.set t.col (.glyph g 1 t.pen t.link))))) with
          col := t.col + 1 } := by
  unfold narrowCore Term.T.modRow
  simp only [setGrid_col, setGrid_cols]

theorem wideCore_eq (t : Term.T) (g : Term.G) :
    wideCore t g =
      if t.col + 2 = t.cols then
        { (t.setGrid (t.grid.modify t.row (fun r => Term.healRow
            ((r.set t.col (.glyph g 2 t.pen t.link)).set (t.col + 1) .cont)))) with
          col := t.col + 1, pw := true }
      else
        { (t.setGrid (t.grid.modify t.row (fun r => Term.healRow
            ((r.set t.col (.glyph g 2 t.pen t.link)).set (t.col + 1) .cont)))) with
          col := t.col + 2 } := by
  unfold wideCore Term.T.modRow
  simp only [setGrid_col, setGrid_cols]

theorem writeNarrow_eq (t : Term.T) (g : Term.G) :
    t.writeNarrow g = narrowCore (if t.pw then wrapT t else t) g := rfl

theorem writeWide_eq (t : Term.T) (g : Term.G) :
    t.writeWide g = wideCore (if t.pw ∨ t.col + 1 = t.cols then wrapT t else t) g := rfl

end VaxisModel.Lemmas.EmuRefine.PrintAux

namespace VaxisModel.Lemmas.EmuRefine
open VaxisModel.Model.Emu VaxisModel.Model.EmuAbs VaxisModel.Lemmas.Emu VaxisModel.Spec
open PrintAux

/-- `print` reads the `lastCol` flag; `Sim` does not constrain it. What the code maintains: the
    flag is only set while the cursor is in the pending-wrap column. -/
def LastColOk (e : Emu) (cols : Nat) : Prop := e.lastCol = true → (cols : Int) ≤ e.cur.col

/-- Narrow glyph, after the wrap decision (`printK1` is `print` from the insert-mode phase on). -/
theorem printK1_narrow_sim {t : Term.T} {e : Emu} {rows cols : Nat} (s : Sim t e rows cols)
    (hp : t.pw = false) (hlc : e.lastCol = false) (g : G) (hg : g ≠ []) :
    ∃ e', printK1 g 1 e = .ok e' ∧ Sim (narrowCore t g) e' rows cols ∧ LastColOk e' cols := by
  have hc := col_lt_of_not_pw s hp
  have htc := tcol_eq s hp
  have hrow0 := s.inv.rowLo; have hrow1 := s.inv.rowHi; have hcol0 := s.inv.colLo
  have htr : t.row = e.cur.row.toNat := by have := s.row; omega
  have htcn : t.col = e.cur.col.toNat := by omega
  obtain ⟨row, hrow, hlen⟩ := row_at (active_ok s.inv) e.cur.row.toNat (by omega)
  have hg1 : GridOk (e.active.set e.cur.row.toNat
      (row.set e.cur.col.toNat { g := g, w := 1, st := e.cur.st })) rows cols :=
    gridOk_set (active_ok s.inv) _ _ (by simp [hlen])
  have hacc : Term.gridAccepts
      (t.grid.modify t.row (fun r => Term.healRow (r.set t.col (.glyph g 1 t.pen t.link))))
      ((e.active.set e.cur.row.toNat
        (row.set e.cur.col.toNat { g := g, w := 1, st := e.cur.st })).map absRow) = true := by
    rw [htr]
    refine gridAccepts_modify_set s.grid _ _ _ ?_
    intro trow row0 _ hr0 hra
    rw [hrow] at hr0
    obtain rfl : row = row0 := by simpa using hr0
    refine healRow_accepts _ _ ?_
    unfold absRow
    rw [List.map_set, htcn]
    refine rowAccepts_set hra _ _ _ ?_
    rw [absCell_glyph g 1 _ hg, s.pen, s.link]
    exact accepts_self _
  have hawm : (e.setActive (e.active.set e.cur.row.toNat
      (row.set e.cur.col.toNat { g := g, w := 1, st := e.cur.st }))).mode.decawm = true := by
    simpa using s.vm.awm
  have hright : (e.setActive (e.active.set e.cur.row.toNat
      (row.set e.cur.col.toNat { g := g, w := 1, st := e.cur.st }))).right = (cols : Int) - 1 := by
    simpa using s.inv.right
  have hle : (e.setActive (e.active.set e.cur.row.toNat
      (row.set e.cur.col.toNat { g := g, w := 1, st := e.cur.st }))).cur.col + ((1 : Nat) : Int) ≤ cols := by
    simp; omega
  have key := sim_setGridCol s _ _ hg1 hacc
  refine ⟨_, (printK1_narrow s.inv s.dim s.vm.irm hc g hrow hlen).trans
    (congrArg Except.ok (printAdvance_eq _ 1 cols hawm hright hle)), ?_, ?_⟩
  · rw [narrowCore_eq]
    have hcs := s.tcols
    by_cases h1 : t.col + 1 = t.cols
    · rw [if_pos h1]
      refine key (Term.T.setGrid t _).col true _ _ ?_ ?_ ?_ ?_
      · simp; omega
      · simp; omega
      · rw [setGrid_col]; simp; split <;> omega
      · simp; omega
    · rw [if_neg h1]
      refine key (t.col + 1) (Term.T.setGrid t _).pw _ _ ?_ ?_ ?_ ?_
      · simp; omega
      · simp; omega
      · simp; split <;> omega
      · rw [setGrid_pw, hp]; simp; omega
  · intro hl
    simp only [setActive_cur, setActive_lastCol, hlc] at hl ⊢
    split at hl
    · simp; omega
    · simp at hl

end VaxisModel.Lemmas.EmuRefine
