/-
C06 refinement, part: PRINT (narrow / wide, with and without autowrap), ICH, DCH.

The emulator (`Model.Emu.print/ich/dch`, current code) against the reference terminal
(`Spec.Term.step`). See the header of `Lemmas/EmuRefine.lean` for `Sim` / `Refines`.

`Sim` does not mention the emulator's `lastCol` flag, but `print` reads it (it wraps when the flag is
set, wherever the cursor is). The lemmas about `print` therefore carry the extra invariant
`LastColOk e cols` (flag set ⇒ the cursor is in the pending-wrap column) as a hypothesis, and
re-establish it for the resulting state.

The wrapping variants take the refinement of NEL (IND + column 0, proved elsewhere) as the
hypothesis `NelHyp rows cols`.
-/
import VaxisModel.Lemmas.EmuRefine
import VaxisModel.Lemmas.EmuSafe3
import VaxisModel.Lemmas.EmuSafe4

namespace VaxisModel.Lemmas.EmuRefine.PrintAux
open VaxisModel.Model.Emu VaxisModel.Model.EmuAbs VaxisModel.Lemmas.Emu VaxisModel.Spec

/-! ### lists: index characterisation of `rowAccepts` / `gridAccepts` -/

theorem all_zip_iff {α β : Type} (p : α × β → Bool) : ∀ (l1 : List α) (l2 : List β),
    l1.length = l2.length →
    ((l1.zip l2).all p = true ↔ ∀ (i : Nat) (a : α) (b : β), l1[i]? = some a → l2[i]? = some b → p (a, b) = true) := by
  intro l1
  induction l1 with
  | nil => intro l2 _; simp
  | cons x xs ih =>
    intro l2 hl
    cases l2 with
    | nil => simp at hl
    | cons y ys =>
      have hl' : xs.length = ys.length := by simpa using hl
      rw [List.zip_cons_cons, List.all_cons, Bool.and_eq_true, ih ys hl']
      constructor
      · rintro ⟨h0, hr⟩ i a b ha hb
        cases i with
        | zero => simp at ha hb; subst ha; subst hb; exact h0
        | succ i => simp at ha hb; exact hr i a b ha hb
      · intro h
        exact ⟨h 0 x y rfl rfl, fun i a b ha hb => h (i + 1) a b (by simpa using ha) (by simpa using hb)⟩

theorem rowAccepts_iff (s a : Term.TRow) :
    Term.rowAccepts s a = true ↔
      s.length = a.length ∧ ∀ (i : Nat) (x y : Term.TCell), s[i]? = some x → a[i]? = some y → x.accepts y = true := by
  unfold Term.rowAccepts
  rw [Bool.and_eq_true, decide_eq_true_eq]
  constructor
  · rintro ⟨hl, h⟩; exact ⟨hl, (all_zip_iff _ s a hl).mp h⟩
  · rintro ⟨hl, h⟩; exact ⟨hl, (all_zip_iff _ s a hl).mpr h⟩

theorem gridAccepts_iff (s a : Term.TGrid) :
    Term.gridAccepts s a = true ↔
      s.length = a.length ∧ ∀ (i : Nat) (x y : Term.TRow), s[i]? = some x → a[i]? = some y → Term.rowAccepts x y = true := by
  unfold Term.gridAccepts
  rw [Bool.and_eq_true, decide_eq_true_eq]
  constructor
  · rintro ⟨hl, h⟩; exact ⟨hl, (all_zip_iff _ s a hl).mp h⟩
  · rintro ⟨hl, h⟩; exact ⟨hl, (all_zip_iff _ s a hl).mpr h⟩

theorem accepts_self (c : Term.TCell) : c.accepts c = true := by
  cases c <;> simp [Term.TCell.accepts]

/-- Replace row `r` on both sides: enough that the new rows accept each other. -/
theorem gridAccepts_modify_set {tg : Term.TGrid} {g : Grid} (h : Term.gridAccepts tg (g.map absRow) = true)
    (r : Nat) (f : Term.TRow → Term.TRow) (row' : Row)
    (hrow : ∀ trow row, tg[r]? = some trow → g[r]? = some row →
      Term.rowAccepts trow (absRow row) = true → Term.rowAccepts (f trow) (absRow row') = true) :
    Term.gridAccepts (tg.modify r f) ((g.set r row').map absRow) = true := by
  rw [gridAccepts_iff] at h ⊢
  obtain ⟨hl, hi⟩ := h
  refine ⟨by simpa using hl, ?_⟩
  intro i x y hx hy
  rw [List.getElem?_modify] at hx
  rw [List.getElem?_map, List.getElem?_set] at hy
  by_cases hir : r = i
  · subst hir
    simp only [if_true] at hx hy
    cases htg : tg[r]? with
    | none => rw [htg] at hx; simp at hx
    | some trow =>
      rw [htg] at hx; simp at hx
      cases hg : g[r]? with
      | none =>
        have : ¬ r < g.length := by
          intro hlt; rw [List.getElem?_eq_getElem hlt] at hg; simp at hg
        simp [this] at hy
      | some row =>
        have hlt : r < g.length := by
          rcases Nat.lt_or_ge r g.length with h1 | h1
          · exact h1
          · rw [List.getElem?_eq_none h1] at hg; simp at hg
        simp [hlt] at hy
        subst hx; subst hy
        exact hrow trow row htg hg (hi r trow (absRow row) htg (by simp [hg]))
  · simp only [hir, if_false] at hx hy
    simp at hx
    exact hi i x y hx (by simpa using hy)

/-! ### checked accesses, exact results -/

theorem getI_some {α : Type} {l : List α} {i : Int} {x : α} (h0 : 0 ≤ i) (h : l[i.toNat]? = some x) :
    getI l i = .ok x := by
  unfold getI; simp [h0, h]

theorem row_at {g : Grid} {rows cols : Nat} (h : GridOk g rows cols) (r : Nat) (hr : r < rows) :
    ∃ row, g[r]? = some row ∧ row.length = cols := by
  have hlt : r < g.length := by rw [h.len]; exact hr
  exact ⟨g[r], List.getElem?_eq_getElem hlt, h.rowLen _ (List.getElem_mem hlt)⟩


/-! ### `Sim` after replacing the grid and moving the column -/

/-- Move the column only (possibly into the pending-wrap column `cols`). -/
theorem sim_setCol {t : Term.T} {e : Emu} {rows cols : Nat} (s : Sim t e rows cols)
    (tc : Nat) (tpw : Bool) (c : Int) (lc : Bool) (hc0 : 0 ≤ c) (hc1 : c ≤ cols)
    (hcol : (tc : Int) = if c ≥ cols then (cols : Int) - 1 else c) (hpw : tpw = decide (c ≥ cols)) :
    Sim { t with col := tc, pw := tpw } { e with cur := { e.cur with col := c }, lastCol := lc } rows cols :=
  { inv := { s.inv with colLo := hc0, colHi := hc1 }
    dim := s.dim, vm := ⟨s.vm.awm, s.vm.irm, s.vm.lnm, s.vm.ascii, s.vm.noShift⟩
    trows := s.trows, tcols := s.tcols, onAlt := s.onAlt
    row := s.row, col := hcol, pw := hpw, pen := s.pen, link := s.link, top := s.top, bottom := s.bottom
    grid := s.grid }

/-- Replace the active grid on both sides AND move the column (possibly into the pending-wrap
    column). -/
theorem sim_setGridCol {t : Term.T} {e : Emu} {rows cols : Nat} (s : Sim t e rows cols)
    (tg : Term.TGrid) (g : Grid) (hg : GridOk g rows cols)
    (hacc : Term.gridAccepts tg (g.map absRow) = true)
    (tc : Nat) (tpw : Bool) (c : Int) (lc : Bool) (hc0 : 0 ≤ c) (hc1 : c ≤ cols)
    (hcol : (tc : Int) = if c ≥ cols then (cols : Int) - 1 else c) (hpw : tpw = decide (c ≥ cols)) :
    Sim { (t.setGrid tg) with col := tc, pw := tpw }
        { (e.setActive g) with cur := { (e.setActive g).cur with col := c }, lastCol := lc } rows cols :=
  sim_setCol (sim_setGrid s tg g hg hacc (e.setActive g).lastCol) tc tpw c lc hc0 hc1 hcol hpw

theorem setGrid_col (t : Term.T) (tg : Term.TGrid) : (t.setGrid tg).col = t.col := by
  unfold Term.T.setGrid; split <;> rfl
theorem setGrid_cols (t : Term.T) (tg : Term.TGrid) : (t.setGrid tg).cols = t.cols := by
  unfold Term.T.setGrid; split <;> rfl
theorem setGrid_pw (t : Term.T) (tg : Term.TGrid) : (t.setGrid tg).pw = t.pw := by
  unfold Term.T.setGrid; split <;> rfl

/-! ### the emulator side of `print`, exact results -/

/-- the cursor advance in autowrap mode, when the glyph fits -/
theorem printAdvance_eq (e : Emu) (w : Nat) (cols : Nat) (hawm : e.mode.decawm = true)
    (hright : e.right = (cols : Int) - 1) (hle : e.cur.col + (w : Int) ≤ cols) :
    printAdvance e w =
      { e with cur := { e.cur with col := e.cur.col + (w : Int) },
               lastCol := if e.cur.col + (w : Int) ≥ cols then true else e.lastCol } := by
  unfold printAdvance
  simp only [hawm, Bool.not_true, Bool.false_and, Bool.false_eq_true, if_false, hright,
    decide_eq_true_eq]
  have h1 : ¬ (e.cur.col + (w : Int) > (cols : Int) - 1 + 1) := by omega
  simp only [h1, if_false]
  by_cases h2 : e.cur.col + (w : Int) ≥ cols
  · have h3 : e.cur.col + (w : Int) ≥ (cols : Int) - 1 + 1 := by omega
    simp [h2, hawm]
  · have h3 : ¬ (e.cur.col + (w : Int) ≥ (cols : Int) - 1 + 1) := by omega
    simp [h2]

theorem forUpBrk_none {σ : Type} (body : Int → σ → M (σ × Bool)) (s : σ) :
    forUpBrk 1 (((1 : Nat) : Int) - 1) body s = .ok s := rfl

theorem forUpBrk_once {σ : Type} (body : Int → σ → M (σ × Bool)) (s : σ) :
    forUpBrk 1 (((2 : Nat) : Int) - 1) body s = (body 1 s >>= fun r => .ok r.1) := by
  show (forUpBrkGo body 1 1 s >>= fun r => Except.ok r.1) = _
  unfold forUpBrkGo
  cases body 1 s with
  | error e => rfl
  | ok r => obtain ⟨s', go⟩ := r; cases go <;> rfl


theorem printK1_pos {e : Emu} {rows cols : Nat} (h : EmuInv e rows cols) (d : Dim rows cols)
    (hirm : e.mode.irm = false) (hc : e.cur.col < cols) (g : G) (w : Nat) :
    printK1 g w e = printWrite e g w e.cur.col e.cur.row := by
  have hh := height_eq h
  have hw := width_eq h d.r1
  have := h.rowLo; have := h.rowHi; have := h.colLo
  unfold printK1
  simp only [hirm, Bool.false_eq_true, if_false]
  unfold printK2
  rw [hh, hw]
  have e1 : (if e.cur.col > (cols : Int) - 1 then (cols : Int) - 1 else e.cur.col) = e.cur.col := by
    split <;> omega
  have e2 : (if e.cur.row > (rows : Int) - 1 then (rows : Int) - 1 else e.cur.row) = e.cur.row := by
    split <;> omega
  rw [e1, e2]

theorem printK1_narrow {e : Emu} {rows cols : Nat} (h : EmuInv e rows cols) (d : Dim rows cols)
    (hirm : e.mode.irm = false) (hc : e.cur.col < cols) (g : G) {row : Row}
    (hrow : e.active[e.cur.row.toNat]? = some row) (hlen : row.length = cols) :
    printK1 g 1 e = .ok (printAdvance (e.setActive (e.active.set e.cur.row.toNat
        (row.set e.cur.col.toNat { g := g, w := 1, st := e.cur.st }))) ((1 : Nat) : Int)) := by
  have hg := active_ok h
  have := h.rowLo; have := h.rowHi; have := h.colLo
  rw [printK1_pos h d hirm hc]
  unfold printWrite
  rw [if_neg (by decide)]
  rw [getI_some h.rowLo hrow, exceptOk_bind, setI_ok row _ _ h.colLo (by omega), exceptOk_bind,
    setI_ok e.active _ _ h.rowLo (by rw [hg.len]; omega), exceptOk_bind, forUpBrk_none, exceptOk_bind]


theorem modCell_eq {g : Grid} {row : Row} {x : ECell} (r c : Int) (f : ECell → ECell)
    (hr0 : 0 ≤ r) (hc0 : 0 ≤ c) (hrow : g[r.toNat]? = some row) (hx : row[c.toNat]? = some x) :
    modCell g r c f = .ok (g.set r.toNat (row.set c.toNat (f x))) := by
  have hr1 : r.toNat < g.length := by
    rcases Nat.lt_or_ge r.toNat g.length with h1 | h1
    · exact h1
    · rw [List.getElem?_eq_none h1] at hrow; simp at hrow
  have hc1 : c.toNat < row.length := by
    rcases Nat.lt_or_ge c.toNat row.length with h1 | h1
    · exact h1
    · rw [List.getElem?_eq_none h1] at hx; simp at hx
  unfold modCell
  rw [getI_some hr0 hrow, exceptOk_bind, getI_some hc0 hx, exceptOk_bind,
    setI_ok row c _ hc0 (by omega), exceptOk_bind, setI_ok g r _ hr0 (by omega)]

theorem printK1_wide {e : Emu} {rows cols : Nat} (h : EmuInv e rows cols) (d : Dim rows cols)
    (hirm : e.mode.irm = false) (hc : e.cur.col + 1 < cols) (g : G) {row : Row} {x : ECell}
    (hrow : e.active[e.cur.row.toNat]? = some row) (hlen : row.length = cols)
    (hx : row[e.cur.col.toNat + 1]? = some x) :
    printK1 g 2 e = .ok (printAdvance (e.setActive (e.active.set e.cur.row.toNat
        ((row.set e.cur.col.toNat { g := g, w := 2, st := e.cur.st }).set (e.cur.col.toNat + 1)
          { x with g := [32], st := e.cur.st }))) ((2 : Nat) : Int)) := by
  have hg := active_ok h
  have := h.rowLo; have := h.rowHi; have := h.colLo; have hr := h.right
  rw [printK1_pos h d hirm (by omega)]
  unfold printWrite
  rw [if_neg (by decide)]
  rw [getI_some h.rowLo hrow, exceptOk_bind, setI_ok row _ _ h.colLo (by omega), exceptOk_bind,
    setI_ok e.active _ _ h.rowLo (by rw [hg.len]; omega), exceptOk_bind, forUpBrk_once]
  have hnb : ¬ (e.cur.col + 1 > e.right) := by omega
  rw [if_neg hnb]
  have hn : (e.cur.col + 1).toNat = e.cur.col.toNat + 1 := by omega
  have hrow' : (e.active.set e.cur.row.toNat
      (row.set e.cur.col.toNat { g := g, w := 2, st := e.cur.st }))[e.cur.row.toNat]? =
      some (row.set e.cur.col.toNat { g := g, w := 2, st := e.cur.st }) := by
    rw [List.getElem?_set]; simp; rw [hg.len]; omega
  have hx' : (row.set e.cur.col.toNat { g := g, w := 2, st := e.cur.st })[(e.cur.col + 1).toNat]? = some x := by
    rw [hn, List.getElem?_set]; simp; exact hx
  rw [modCell_eq _ _ _ h.rowLo (by omega) hrow' hx', exceptOk_bind, exceptOk_bind, exceptOk_bind,
    List.set_set, hn]

/-! ### rows -/

theorem rowAccepts_set {trow arow : Term.TRow} (h : Term.rowAccepts trow arow = true) (k : Nat)
    (x y : Term.TCell) (hxy : x.accepts y = true) :
    Term.rowAccepts (trow.set k x) (arow.set k y) = true := by
  rw [rowAccepts_iff] at h ⊢
  obtain ⟨hl, hi⟩ := h
  refine ⟨by simpa using hl, ?_⟩
  intro i a b ha hb
  rw [List.getElem?_set] at ha hb
  by_cases hk : k = i
  · simp only [hk, if_true] at ha hb
    split at ha
    · split at hb
      · simp at ha hb; subst ha; subst hb; exact hxy
      · simp at hb
    · simp at ha
  · simp only [hk, if_false] at ha hb
    exact hi i a b ha hb

theorem absCell_glyph (g : G) (w : Nat) (st : EStyle) (hg : g ≠ []) :
    absCell { g := g, w := w, st := st } = .glyph g w (absStyle st) st.link := by
  unfold absCell; simp [hg]

/-! ### the reference side of `print` -/

/-- the state in which the reference writes after an autowrap: IND, column 0, no pending wrap -/
def wrapT (t : Term.T) : Term.T :=
  { ({ t with col := 0, pw := false } : Term.T).indCore with pw := false }

/-- the reference's narrow write, after the wrap decision -/
def narrowCore (t : Term.T) (g : Term.G) : Term.T :=
  let t1 := t.modRow t.row (fun row => row.set t.col (.glyph g 1 t.pen t.link))
  if t1.col + 1 = t1.cols then { t1 with pw := true } else { t1 with col := t1.col + 1 }

/-- the reference's wide write, after the wrap decision -/
def wideCore (t : Term.T) (g : Term.G) : Term.T :=
  let t1 := t.modRow t.row (fun row => (row.set t.col (.glyph g 2 t.pen t.link)).set (t.col + 1) .cont)
  if t1.col + 2 = t1.cols then { t1 with col := t1.col + 1, pw := true } else { t1 with col := t1.col + 2 }

theorem narrowCore_eq (t : Term.T) (g : Term.G) :
    narrowCore t g =
      if t.col + 1 = t.cols then
        { (t.setGrid (t.grid.modify t.row (fun r => Term.healRow (r.set t.col (.glyph g 1 t.pen t.link))))) with
          pw := true }
      else
        { (t.setGrid (t.grid.modify t.row (fun r => Term.healRow (r.set t.col (.glyph g 1 t.pen t.link))))) with
          col := t.col + 1 } := by
  unfold narrowCore Term.T.modRow
  simp only [setGrid_col, setGrid_cols]

theorem wideCore_eq (t : Term.T) (g : Term.G) :
    wideCore t g =
      if t.col + 2 = t.cols then
        { (t.setGrid (t.grid.modify t.row (fun r => Term.healRow
            ((r.set t.col (.glyph g 2 t.pen t.link)).set (t.col + 1) .cont)))) with
          col := t.col + 1, pw := true }
      else
        { (t.setGrid (t.grid.modify t.row (fun r => Term.healRow
            ((r.set t.col (.glyph g 2 t.pen t.link)).set (t.col + 1) .cont)))) with
          col := t.col + 2 } := by
  unfold wideCore Term.T.modRow
  simp only [setGrid_col, setGrid_cols]

theorem writeNarrow_eq (t : Term.T) (g : Term.G) :
    t.writeNarrow g = narrowCore (if t.pw then wrapT t else t) g := rfl

theorem writeWide_eq (t : Term.T) (g : Term.G) :
    t.writeWide g = wideCore (if t.pw ∨ t.col + 1 = t.cols then wrapT t else t) g := rfl


/-! ### the autowrap phase -/

theorem setGrid_self (t : Term.T) : t.setGrid t.grid = t := by
  unfold Term.T.setGrid Term.T.grid
  by_cases h : t.onAlt = true
  · rw [if_pos h, if_pos h]
  · rw [if_neg h, if_neg h]

theorem list_set_self {α : Type} {l : List α} {k : Nat} {x : α} (h : l[k]? = some x) : l.set k x = l := by
  apply List.ext_getElem?
  intro i
  rw [List.getElem?_set]
  by_cases hk : k = i
  · subst hk
    have hlt : k < l.length := by
      rcases Nat.lt_or_ge k l.length with h1 | h1
      · exact h1
      · rw [List.getElem?_eq_none h1] at h; simp at h
    simp only [if_true, hlt, h]
  · simp [hk]

/-- Marking a cell `wrapped` is invisible to the abstraction. -/
theorem absRow_wrapped {row : Row} {k : Nat} {x : ECell} (h : row[k]? = some x) :
    absRow (row.set k { x with wrapped := true }) = absRow row := by
  unfold absRow
  rw [List.map_set]
  have : absCell { x with wrapped := true } = absCell x := rfl
  rw [this]
  exact list_set_self (by simp [h])

theorem wrapT_pw (t : Term.T) : (wrapT t).pw = false := rfl

theorem wrapT_col (t : Term.T) : (wrapT t).col = 0 := by
  unfold wrapT Term.T.indCore Term.T.scrollUp
  simp only
  split
  · exact setGrid_col _ _
  · split <;> rfl

theorem scrollUp_lastCol {e e' : Emu} {n : Int} (h : scrollUp e n = .ok e') : e'.lastCol = e.lastCol := by
  unfold scrollUp at h
  simp only [bind, Except.bind] at h
  split at h
  · simp at h
  · simp only [Except.ok.injEq] at h
    rw [← h]; simp

theorem nel_lastCol {e e' : Emu} (h : nel e = .ok e') : e'.lastCol = false := by
  unfold nel at h
  simp only [bind, Except.bind] at h
  split at h
  · simp at h
  · rename_i e1 he1
    simp only [Except.ok.injEq] at h
    rw [← h]
    show e1.lastCol = false
    unfold ind at he1
    simp only at he1
    split at he1
    · exact (scrollUp_lastCol he1).trans rfl
    · split at he1 <;> (simp only [Except.ok.injEq] at he1; rw [← he1])


/-! ### loops: rules with an invariant that mentions the index -/

theorem forDownGo_ix {σ : Type} (P : Int → σ → Prop) (body : Int → σ → M σ) :
    ∀ (n : Nat) (i0 : Int) (s : σ), P i0 s →
      (∀ i s, i ≤ i0 → i0 - n < i → P i s → ∃ s', body i s = .ok s' ∧ P (i - 1) s') →
      ∃ s', forDownGo body n i0 s = .ok s' ∧ P (i0 - n) s' := by
  intro n
  induction n with
  | zero => intro i0 s hs _; exact ⟨s, rfl, by simpa using hs⟩
  | succ n ih =>
    intro i0 s hs hb
    obtain ⟨s1, h1, hp1⟩ := hb i0 s (by omega) (by omega) hs
    obtain ⟨s2, h2, hp2⟩ := ih (i0 - 1) s1 hp1 (fun i s hi1 hi2 hp => hb i s (by omega) (by omega) hp)
    refine ⟨s2, by simp only [forDownGo, h1, bind, Except.bind, h2], ?_⟩
    have : i0 - ((n + 1 : Nat) : Int) = i0 - 1 - (n : Int) := by omega
    rw [this]; exact hp2

/-- `for i := hi; i >= lo; i--` with `lo ≤ hi + 1`: from `P hi` to `P (lo - 1)`. -/
theorem forDown_ix {σ : Type} (P : Int → σ → Prop) (body : Int → σ → M σ) (hi lo : Int) (s : σ)
    (hn : hi + 1 - lo ≤ (hangLimit : Int)) (hle : lo ≤ hi + 1) (hs : P hi s)
    (hb : ∀ i s, lo ≤ i → i ≤ hi → P i s → ∃ s', body i s = .ok s' ∧ P (i - 1) s') :
    ∃ s', forDown hi lo body s = .ok s' ∧ P (lo - 1) s' := by
  unfold forDown
  have hle' : (hi + 1 - lo).toNat ≤ hangLimit := by omega
  simp only [hle', if_true]
  obtain ⟨s', h1, h2⟩ := forDownGo_ix P body (hi + 1 - lo).toNat hi s hs
    (fun i s h1 h2 hp => hb i s (by omega) h1 hp)
  refine ⟨s', h1, ?_⟩
  have : hi - ((hi + 1 - lo).toNat : Int) = lo - 1 := by omega
  rw [← this]; exact h2

theorem forDown_empty {σ : Type} (body : Int → σ → M σ) (hi lo : Int) (s : σ) (h : hi + 1 ≤ lo) :
    forDown hi lo body s = .ok s := by
  unfold forDown
  have : (hi + 1 - lo).toNat = 0 := by omega
  simp [this, forDownGo]

theorem forUpGo_ix' {σ : Type} (P : Int → σ → Prop) (body : Int → σ → M σ) :
    ∀ (n : Nat) (i0 : Int) (s : σ), P i0 s →
      (∀ i s, i0 ≤ i → i < i0 + n → P i s → ∃ s', body i s = .ok s' ∧ P (i + 1) s') →
      ∃ s', forUpGo body n i0 s = .ok s' ∧ P (i0 + n) s' := by
  intro n
  induction n with
  | zero => intro i0 s hs _; exact ⟨s, rfl, by simpa using hs⟩
  | succ n ih =>
    intro i0 s hs hb
    obtain ⟨s1, h1, hp1⟩ := hb i0 s (by omega) (by omega) hs
    obtain ⟨s2, h2, hp2⟩ := ih (i0 + 1) s1 hp1 (fun i s hi1 hi2 hp => hb i s (by omega) (by omega) hp)
    refine ⟨s2, by simp only [forUpGo, h1, bind, Except.bind, h2], ?_⟩
    have : i0 + ((n + 1 : Nat) : Int) = i0 + 1 + (n : Int) := by omega
    rw [this]; exact hp2

/-- `for i := lo; i <= hi; i++` with `lo ≤ hi + 1`: from `P lo` to `P (hi + 1)`. -/
theorem forUp_ix' {σ : Type} (P : Int → σ → Prop) (body : Int → σ → M σ) (lo hi : Int) (s : σ)
    (hn : hi + 1 - lo ≤ (hangLimit : Int)) (hle : lo ≤ hi + 1) (hs : P lo s)
    (hb : ∀ i s, lo ≤ i → i ≤ hi → P i s → ∃ s', body i s = .ok s' ∧ P (i + 1) s') :
    ∃ s', forUp lo hi body s = .ok s' ∧ P (hi + 1) s' := by
  unfold forUp
  have hle' : (hi + 1 - lo).toNat ≤ hangLimit := by omega
  simp only [hle', if_true]
  obtain ⟨s', h1, h2⟩ := forUpGo_ix' P body (hi + 1 - lo).toNat lo s hs
    (fun i s h1 h2 hp => hb i s h1 (by omega) hp)
  refine ⟨s', h1, ?_⟩
  have : lo + ((hi + 1 - lo).toNat : Int) = hi + 1 := by omega
  rw [← this]; exact h2

/-- Breaking loop: the body either goes on (`P (i+1)`) or breaks having established the final
    invariant `P iend` already. -/
theorem forUpBrkGo_ix' {σ : Type} (P : Int → σ → Prop) (body : Int → σ → M (σ × Bool)) (iend : Int) :
    ∀ (n : Nat) (i0 : Int) (s : σ), i0 + n = iend → P i0 s →
      (∀ i s, i0 ≤ i → i < iend → P i s →
        ∃ r, body i s = .ok r ∧ (r.2 = true → P (i + 1) r.1) ∧ (r.2 = false → P iend r.1)) →
      ∃ r, forUpBrkGo body n i0 s = .ok r ∧ P iend r.1 := by
  intro n
  induction n with
  | zero => intro i0 s he hs _; exact ⟨(s, false), rfl, by rw [← he]; simpa using hs⟩
  | succ n ih =>
    intro i0 s he hs hb
    obtain ⟨⟨s1, go⟩, h1, hp1, hq1⟩ := hb i0 s (by omega) (by omega) hs
    cases go with
    | false => exact ⟨(s1, true), by simp only [forUpBrkGo, h1, bind, Except.bind]; rfl, hq1 rfl⟩
    | true =>
      obtain ⟨r2, h2, hp2⟩ := ih (i0 + 1) s1 (by omega) (hp1 rfl)
        (fun i s hi1 hi2 hp => hb i s (by omega) hi2 hp)
      exact ⟨r2, by simp only [forUpBrkGo, h1, bind, Except.bind, h2, if_true], hp2⟩

theorem forUpBrk_ix' {σ : Type} (P : Int → σ → Prop) (body : Int → σ → M (σ × Bool)) (lo hi : Int) (s : σ)
    (hn : hi + 1 - lo ≤ (hangLimit : Int)) (hle : lo ≤ hi + 1) (hs : P lo s)
    (hb : ∀ i s, lo ≤ i → i ≤ hi → P i s →
      ∃ r, body i s = .ok r ∧ (r.2 = true → P (i + 1) r.1) ∧ (r.2 = false → P (hi + 1) r.1)) :
    ∃ s', forUpBrk lo hi body s = .ok s' ∧ P (hi + 1) s' := by
  unfold forUpBrk
  have hle' : (hi + 1 - lo).toNat ≤ hangLimit := by omega
  simp only [hle', if_true]
  obtain ⟨r, hr, hp⟩ := forUpBrkGo_ix' P body (hi + 1) (hi + 1 - lo).toNat lo s (by omega) hs
    (fun i s h1 h2 hp => hb i s h1 (by omega) hp)
  exact ⟨r.1, by rw [hr]; rfl, hp⟩

/-! ### lists: inserting / deleting cells in a row -/

theorem ins_getElem? {α : Type} (l : List α) (c m cols : Nat) (b : α) (hl : l.length = cols)
    (hcm : c + m ≤ cols) (j : Nat) :
    (l.take c ++ List.replicate m b ++ (l.drop c).take (cols - c - m))[j]? =
      if j < c then l[j]? else if j < c + m then some b else if j < cols then l[j - m]? else none := by
  rw [List.getElem?_append, List.getElem?_append]
  simp only [List.length_append, List.length_take, List.length_replicate, hl,
    List.getElem?_take, List.getElem?_replicate, List.getElem?_drop]
  have h1 : min c cols = c := by omega
  rw [h1]
  by_cases hj1 : j < c
  · have : j < c + m := by omega
    simp [hj1, this]
  · by_cases hj2 : j < c + m
    · have : j - c < m := by omega
      simp [hj1, hj2, this]
    · by_cases hj3 : j < cols
      · have h4 : j - (c + m) < cols - c - m := by omega
        have h5 : c + (j - (c + m)) = j - m := by omega
        simp [hj1, hj2, hj3, h4, h5]
      · have h4 : ¬ (j - (c + m) < cols - c - m) := by omega
        simp [hj1, hj2, hj3, h4]

theorem del_getElem? {α : Type} (l : List α) (c m cols : Nat) (b : α) (hl : l.length = cols)
    (hcm : c + m ≤ cols) (j : Nat) :
    (l.take c ++ l.drop (c + m) ++ List.replicate m b)[j]? =
      if j < c then l[j]? else if j + m < cols then l[j + m]? else if j < cols then some b else none := by
  rw [List.getElem?_append, List.getElem?_append]
  simp only [List.length_append, List.length_take, List.length_drop, hl,
    List.getElem?_take, List.getElem?_replicate, List.getElem?_drop]
  have h1 : min c cols = c := by omega
  rw [h1]
  by_cases hj1 : j < c
  · have : j < c + (cols - (c + m)) := by omega
    simp [hj1, this]
  · by_cases hj2 : j + m < cols
    · have h3 : j < c + (cols - (c + m)) := by omega
      have h5 : c + m + (j - c) = j + m := by omega
      simp [hj1, hj2, h3, h5]
    · have h3 : ¬ (j < c + (cols - (c + m))) := by omega
      by_cases hj3 : j < cols
      · have h4 : j - (c + (cols - (c + m))) < m := by omega
        simp [hj1, hj2, hj3, h3, h4]
      · have h4 : ¬ (j - (c + (cols - (c + m))) < m) := by omega
        simp [hj1, hj2, hj3, h3, h4]


/-! ### ICH, emulator side -/

theorem getElem?_some_of_lt {α : Type} (l : List α) (j : Nat) (h : j < l.length) : ∃ x, l[j]? = some x :=
  ⟨l[j], List.getElem?_eq_getElem h⟩

/-- first loop of ich(): `line[i] = line[i-k]` for `i` from the right margin down to `col+k` -/
theorem ich_loop1 (line : Row) (cols c k : Nat) (hlen : line.length = cols) (hk : 1 ≤ k)
    (hcm : cols ≤ 65535) :
    ∃ line1, forDown ((cols : Int) - 1) ((c : Int) + (k : Int)) (fun i line => do
        let x ← getI line (i - (k : Int))
        setI line i x) line = .ok line1 ∧ line1.length = cols ∧
      ∀ j : Nat, line1[j]? = if c + k ≤ j ∧ j < cols then line[j - k]? else line[j]? := by
  by_cases hfit : c + k ≤ cols
  · obtain ⟨l1, h1, h2, h3⟩ := forDown_ix
      (fun (i : Int) (l : Row) => l.length = cols ∧
        ∀ j : Nat, l[j]? = if i < (j : Int) ∧ j < cols then line[j - k]? else line[j]?)
      (fun i line => do
        let x ← getI line (i - (k : Int))
        setI line i x) ((cols : Int) - 1) ((c : Int) + (k : Int)) line
      (by rw [hangLimit_val]; omega) (by omega)
      ⟨hlen, fun j => by
        have : ¬ ((cols : Int) - 1 < (j : Int) ∧ j < cols) := by omega
        rw [if_neg this]⟩
      (by
        intro i l hi0 hi1 ⟨hl, hP⟩
        obtain ⟨x, hx⟩ := getElem?_some_of_lt line (i - (k : Int)).toNat (by omega)
        have hlx : l[(i - (k : Int)).toNat]? = some x := by
          rw [hP]
          have : ¬ (i < (((i - (k : Int)).toNat : Nat) : Int) ∧ (i - (k : Int)).toNat < cols) := by omega
          rw [if_neg this]; exact hx
        rw [getI_some (by omega) hlx, exceptOk_bind, setI_ok l i x (by omega) (by omega)]
        refine ⟨_, rfl, by simp [hl], ?_⟩
        intro j
        rw [List.getElem?_set]
        by_cases hj : i.toNat = j
        · have h1 : i.toNat < l.length := by omega
          have h2 : i - 1 < (j : Int) ∧ j < cols := by omega
          have h3 : j - k = (i - (k : Int)).toNat := by omega
          rw [if_pos hj, if_pos h1, if_pos h2, h3, hx]
        · rw [if_neg hj, hP]
          by_cases h2 : i < (j : Int) ∧ j < cols
          · have h3 : i - 1 < (j : Int) ∧ j < cols := by omega
            rw [if_pos h2, if_pos h3]
          · have h3 : ¬ (i - 1 < (j : Int) ∧ j < cols) := by omega
            rw [if_neg h2, if_neg h3])
    refine ⟨l1, h1, h2, ?_⟩
    intro j
    rw [h3]
    by_cases h4 : c + k ≤ j ∧ j < cols
    · have h5 : (c : Int) + (k : Int) - 1 < (j : Int) ∧ j < cols := by omega
      rw [if_pos h4, if_pos h5]
    · have h5 : ¬ ((c : Int) + (k : Int) - 1 < (j : Int) ∧ j < cols) := by omega
      rw [if_neg h4, if_neg h5]
  · refine ⟨line, forDown_empty _ _ _ _ (by omega), hlen, ?_⟩
    intro j
    have : ¬ (c + k ≤ j ∧ j < cols) := by omega
    rw [if_neg this]

/-- second loop of ich(): blanks at `col .. col+k-1`, stopping after the right margin -/
theorem ich_loop2 (line1 : Row) (cols c k : Nat) (b : ECell)
    (hlen : line1.length = cols) (hk : 1 ≤ k) (hk2 : k ≤ 65535) (hc : c < cols) :
    ∃ line2, forUpBrk 0 ((k : Int) - 1) (fun i line =>
        if (c : Int) + i > (cols : Int) - 1 then .ok (line, false)
        else do
          let l ← setI line ((c : Int) + i) b
          .ok (l, true)) line1 = .ok line2 ∧ line2.length = cols ∧
      ∀ j : Nat, line2[j]? = if c ≤ j ∧ j < c + k ∧ j < cols then some b else line1[j]? := by
  obtain ⟨l2, h1, h2, h3⟩ := forUpBrk_ix'
    (fun (i : Int) (l : Row) => l.length = cols ∧
      ∀ j : Nat, l[j]? = if c ≤ j ∧ (j : Int) < (c : Int) + i ∧ j < cols then some b else line1[j]?)
    (fun i line =>
        if (c : Int) + i > (cols : Int) - 1 then .ok (line, false)
        else do
          let l ← setI line ((c : Int) + i) b
          .ok (l, true)) 0 ((k : Int) - 1) line1 (by rw [hangLimit_val]; omega) (by omega)
    ⟨hlen, fun j => by
      have : ¬ (c ≤ j ∧ (j : Int) < (c : Int) + 0 ∧ j < cols) := by omega
      rw [if_neg this]⟩
    (by
      intro i l hi0 hi1 ⟨hl, hP⟩
      by_cases hb : (c : Int) + i > (cols : Int) - 1
      · rw [if_pos hb]
        refine ⟨_, rfl, fun hf => by simp at hf, fun _ => ⟨hl, ?_⟩⟩
        intro j
        rw [hP]
        by_cases h4 : c ≤ j ∧ (j : Int) < (c : Int) + i ∧ j < cols
        · have h5 : c ≤ j ∧ (j : Int) < (c : Int) + ((k : Int) - 1 + 1) ∧ j < cols := by omega
          rw [if_pos h4, if_pos h5]
        · have h5 : ¬ (c ≤ j ∧ (j : Int) < (c : Int) + ((k : Int) - 1 + 1) ∧ j < cols) := by omega
          rw [if_neg h4, if_neg h5]
      · rw [if_neg hb, setI_ok l _ b (by omega) (by omega), exceptOk_bind]
        refine ⟨_, rfl, fun _ => ⟨by simp [hl], ?_⟩, fun hf => by simp at hf⟩
        intro j
        show (l.set ((c : Int) + i).toNat b)[j]? = _
        rw [List.getElem?_set]
        by_cases hj : ((c : Int) + i).toNat = j
        · have h1 : ((c : Int) + i).toNat < l.length := by omega
          have h2 : c ≤ j ∧ (j : Int) < (c : Int) + (i + 1) ∧ j < cols := by omega
          rw [if_pos hj, if_pos h1, if_pos h2]
        · rw [if_neg hj, hP]
          by_cases h4 : c ≤ j ∧ (j : Int) < (c : Int) + i ∧ j < cols
          · have h5 : c ≤ j ∧ (j : Int) < (c : Int) + (i + 1) ∧ j < cols := by omega
            rw [if_pos h4, if_pos h5]
          · have h5 : ¬ (c ≤ j ∧ (j : Int) < (c : Int) + (i + 1) ∧ j < cols) := by omega
            rw [if_neg h4, if_neg h5])
  refine ⟨l2, h1, h2, ?_⟩
  intro j
  rw [h3]
  by_cases h4 : c ≤ j ∧ j < c + k ∧ j < cols
  · have h5 : c ≤ j ∧ (j : Int) < (c : Int) + ((k : Int) - 1 + 1) ∧ j < cols := by omega
    rw [if_pos h4, if_pos h5]
  · have h5 : ¬ (c ≤ j ∧ (j : Int) < (c : Int) + ((k : Int) - 1 + 1) ∧ j < cols) := by omega
    rw [if_neg h4, if_neg h5]


/-- ich() of the current code, exactly: the cursor row becomes
    `line[..col] ++ m erased blanks ++ line[col .. cols-m]`, `m = min k (cols - col)`. -/
theorem ich_exact {e : Emu} {rows cols : Nat} (h : EmuInv e rows cols) (d : Dim rows cols)
    (n : Int) (k c : Nat) (hn : dflt1 n = (k : Int)) (hcc : e.cur.col = (c : Int)) (hc : c < cols)
    (hk1 : 1 ≤ k) (hk2 : k ≤ 65535) {line : Row}
    (hrow : e.active[e.cur.row.toNat]? = some line) (hlen : line.length = cols) :
    ∃ line2, ich Fixes.current e n = .ok (e.setActive (e.active.set e.cur.row.toNat line2)) ∧
      line2.length = cols ∧
      ∀ j : Nat, line2[j]? =
        if j < c then line[j]? else if j < c + min k (cols - c) then some (({} : ECell).erase e.bg)
        else if j < cols then line[j - min k (cols - c)]? else none := by
  have hg := active_ok h
  have := h.rowLo; have := h.rowHi
  obtain ⟨line1, h1, hl1, hs1⟩ := ich_loop1 line cols c k hlen hk1 d.cmax
  obtain ⟨line2, h2, hl2, hs2⟩ := ich_loop2 line1 cols c k (({} : ECell).erase e.bg) hl1 hk1 hk2 hc
  refine ⟨line2, ?_, hl2, ?_⟩
  · unfold ich
    simp only [Fixes.current, Bool.not_true, Bool.false_and, Bool.false_eq_true, if_true, if_false,
      decide_eq_true_eq, hn, hcc, h.right]
    rw [getI_some h.rowLo hrow, exceptOk_bind, h1, exceptOk_bind, h2, exceptOk_bind,
      setI_ok e.active _ _ h.rowLo (by rw [hg.len]; omega), exceptOk_bind]
  · intro j
    rw [hs2, hs1]
    by_cases hj1 : j < c
    · have h3 : ¬ (c ≤ j ∧ j < c + k ∧ j < cols) := by omega
      have h4 : ¬ (c + k ≤ j ∧ j < cols) := by omega
      rw [if_neg h3, if_neg h4, if_pos hj1]
    · rw [if_neg hj1]
      by_cases hj2 : j < c + min k (cols - c)
      · have h3 : c ≤ j ∧ j < c + k ∧ j < cols := by omega
        rw [if_pos h3, if_pos hj2]
      · have h3 : ¬ (c ≤ j ∧ j < c + k ∧ j < cols) := by omega
        rw [if_neg h3, if_neg hj2]
        by_cases hj3 : j < cols
        · have h4 : c + k ≤ j ∧ j < cols := by omega
          have h5 : min k (cols - c) = k := by omega
          rw [if_pos h4, if_pos hj3, h5]
        · have h4 : ¬ (c + k ≤ j ∧ j < cols) := by omega
          rw [if_neg h4, if_neg hj3]
          exact List.getElem?_eq_none (by omega)


/-! ### DCH, emulator side -/

/-- the loop of dch(): `line[i] = line[i+k]` going up, erased cells once `i+k` is beyond the margin -/
theorem dch_loop (g0 : Grid) (line : Row) (cols c k : Nat) (bg : Nat) (rowI col0 right nI : Int)
    (h0 : 0 ≤ rowI) (hr : right = (cols : Int) - 1) (hc0 : col0 = (c : Int)) (hnI : nI = (k : Int))
    (hrow : g0[rowI.toNat]? = some line) (hlen : line.length = cols) (hk : 1 ≤ k) (hc : c ≤ cols)
    (hcm : cols ≤ 65535) :
    ∃ ln, forUp col0 right (fun col g =>
        if col + nI > right then modCell g rowI col (fun x => x.erase bg)
        else do
          let r ← getI g rowI
          let x ← getI r (col + nI)
          let r' ← setI r col x
          setI g rowI r') g0 = .ok (g0.set rowI.toNat ln) ∧ ln.length = cols ∧
      ∀ j : Nat, ln[j]? =
        if c ≤ j ∧ j < cols then (if j + k < cols then line[j + k]? else (line[j]?).map (fun x => x.erase bg))
        else line[j]? := by
  subst hr hc0 hnI
  have hrlt : rowI.toNat < g0.length := by
    rcases Nat.lt_or_ge rowI.toNat g0.length with h1 | h1
    · exact h1
    · rw [List.getElem?_eq_none h1] at hrow; simp at hrow
  obtain ⟨g1, h1, ln, hg1, hl, hP⟩ := forUp_ix'
    (fun (i : Int) (g : Grid) => ∃ ln : Row, g = g0.set rowI.toNat ln ∧ ln.length = cols ∧
      ∀ j : Nat, ln[j]? =
        if c ≤ j ∧ (j : Int) < i then
          (if j + k < cols then line[j + k]? else (line[j]?).map (fun x => x.erase bg))
        else line[j]?)
    (fun col g =>
        if col + (k : Int) > (cols : Int) - 1 then modCell g rowI col (fun x => x.erase bg)
        else do
          let r ← getI g rowI
          let x ← getI r (col + (k : Int))
          let r' ← setI r col x
          setI g rowI r') (c : Int) ((cols : Int) - 1) g0 (by rw [hangLimit_val]; omega) (by omega)
    ⟨line, (list_set_self hrow).symm, hlen, fun j => by
      have : ¬ (c ≤ j ∧ (j : Int) < (c : Int)) := by omega
      rw [if_neg this]⟩
    (by
      intro i g hi0 hi1 ⟨ln, hg, hl, hP⟩
      subst hg
      have hgr : (g0.set rowI.toNat ln)[rowI.toNat]? = some ln := by
        rw [List.getElem?_set]; simp [hrlt]
      have hstep : ∀ (x : ECell), (ln.set i.toNat x).length = cols := fun x => by simp [hl]
      have hnew : ∀ (x : ECell),
          (if i.toNat + k < cols then line[i.toNat + k]? else (line[i.toNat]?).map (fun x => x.erase bg)) = some x →
          ∀ j : Nat, (ln.set i.toNat x)[j]? =
            if c ≤ j ∧ (j : Int) < i + 1 then
              (if j + k < cols then line[j + k]? else (line[j]?).map (fun x => x.erase bg))
            else line[j]? := by
        intro x hx j
        rw [List.getElem?_set]
        by_cases hj : i.toNat = j
        · have h1 : i.toNat < ln.length := by omega
          have h2 : c ≤ j ∧ (j : Int) < i + 1 := by omega
          rw [if_pos hj, if_pos h1, if_pos h2, ← hj, hx]
        · rw [if_neg hj, hP]
          by_cases h4 : c ≤ j ∧ (j : Int) < i
          · have h5 : c ≤ j ∧ (j : Int) < i + 1 := by omega
            rw [if_pos h4, if_pos h5]
          · have h5 : ¬ (c ≤ j ∧ (j : Int) < i + 1) := by omega
            rw [if_neg h4, if_neg h5]
      by_cases hb : i + (k : Int) > (cols : Int) - 1
      · rw [if_pos hb]
        obtain ⟨x, hx⟩ := getElem?_some_of_lt line i.toNat (by omega)
        have hlx : ln[i.toNat]? = some x := by
          rw [hP]
          have : ¬ (c ≤ i.toNat ∧ ((i.toNat : Nat) : Int) < i) := by omega
          rw [if_neg this]; exact hx
        rw [modCell_eq rowI i _ h0 (by omega) hgr hlx, List.set_set]
        refine ⟨_, rfl, _, rfl, hstep _, hnew _ ?_⟩
        have : ¬ (i.toNat + k < cols) := by omega
        rw [if_neg this, hx]; rfl
      · rw [if_neg hb]
        obtain ⟨x, hx⟩ := getElem?_some_of_lt line (i.toNat + k) (by omega)
        have hik : (i + (k : Int)).toNat = i.toNat + k := by omega
        have hlx : ln[(i + (k : Int)).toNat]? = some x := by
          rw [hik, hP]
          have : ¬ (c ≤ i.toNat + k ∧ ((i.toNat + k : Nat) : Int) < i) := by omega
          rw [if_neg this]; exact hx
        rw [getI_some h0 hgr, exceptOk_bind, getI_some (by omega) hlx, exceptOk_bind,
          setI_ok ln i x (by omega) (by omega), exceptOk_bind,
          setI_ok _ rowI _ h0 (by simp; omega), List.set_set]
        refine ⟨_, rfl, _, rfl, hstep _, hnew _ ?_⟩
        have : i.toNat + k < cols := by omega
        rw [if_pos this, hx])
  subst hg1
  refine ⟨ln, h1, hl, ?_⟩
  intro j
  rw [hP]
  by_cases h4 : c ≤ j ∧ j < cols
  · have h5 : c ≤ j ∧ (j : Int) < (cols : Int) - 1 + 1 := by omega
    rw [if_pos h4, if_pos h5]
  · have h5 : ¬ (c ≤ j ∧ (j : Int) < (cols : Int) - 1 + 1) := by omega
    rw [if_neg h4, if_neg h5]

/-- dch(), exactly: the abstraction of the cursor row becomes
    `row[..col] ++ row[col+m..] ++ m blanks`, `m = min k (cols - col)`. -/
theorem dch_exact {e : Emu} {rows cols : Nat} (h : EmuInv e rows cols) (d : Dim rows cols)
    (n : Int) (k c : Nat) (hn : dflt1 n = (k : Int)) (hcc : e.cur.col = (c : Int)) (hc : c < cols)
    (hk1 : 1 ≤ k) {line : Row}
    (hrow : e.active[e.cur.row.toNat]? = some line) (hlen : line.length = cols) :
    ∃ ln, dch e n = .ok (({ e with lastCol := false } : Emu).setActive (e.active.set e.cur.row.toNat ln)) ∧
      ln.length = cols ∧
      ∀ j : Nat, (ln[j]?).map absCell =
        if j < c then (line[j]?).map absCell
        else if j + min k (cols - c) < cols then (line[j + min k (cols - c)]?).map absCell
        else if j < cols then some (.blank (absCol e.bg)) else none := by
  obtain ⟨ln, h1, hl, hs⟩ := dch_loop e.active line cols c k e.bg e.cur.row e.cur.col e.right (dflt1 n)
    h.rowLo h.right hcc hn hrow hlen hk1 (by omega) d.cmax
  refine ⟨ln, ?_, hl, ?_⟩
  · unfold dch
    show (forUp e.cur.col e.right (fun col g =>
        if col + dflt1 n > e.right then modCell g e.cur.row col (fun x => x.erase e.bg)
        else do
          let r ← getI g e.cur.row
          let x ← getI r (col + dflt1 n)
          let r' ← setI r col x
          setI g e.cur.row r') e.active >>= fun g =>
        Except.ok (({ e with lastCol := false } : Emu).setActive g)) = _
    rw [h1, exceptOk_bind]
  · intro j
    rw [hs]
    by_cases hj1 : j < c
    · have h3 : ¬ (c ≤ j ∧ j < cols) := by omega
      rw [if_neg h3, if_pos hj1]
    · rw [if_neg hj1]
      by_cases hj3 : j < cols
      · have h3 : c ≤ j ∧ j < cols := by omega
        rw [if_pos h3]
        by_cases hj2 : j + k < cols
        · have h5 : min k (cols - c) = k := by omega
          rw [if_pos hj2, h5, if_pos hj2]
        · have h5 : ¬ (j + min k (cols - c) < cols) := by omega
          rw [if_neg hj2, if_neg h5, if_pos hj3]
          obtain ⟨x, hx⟩ := getElem?_some_of_lt line j (by omega)
          rw [hx]
          simp only [Option.map_some, absCell_erase]
      · have h3 : ¬ (c ≤ j ∧ j < cols) := by omega
        have h5 : ¬ (j + min k (cols - c) < cols) := by omega
        rw [if_neg h3, if_neg h5, if_neg hj3, List.getElem?_eq_none (by omega)]
        rfl

end VaxisModel.Lemmas.EmuRefine.PrintAux

namespace VaxisModel.Lemmas.EmuRefine
open VaxisModel.Model.Emu VaxisModel.Model.EmuAbs VaxisModel.Lemmas.Emu VaxisModel.Spec
open PrintAux

/-- `print` reads the `lastCol` flag; `Sim` does not constrain it. What the code maintains: the
    flag is only set while the cursor is in the pending-wrap column. -/
def LastColOk (e : Emu) (cols : Nat) : Prop := e.lastCol = true → (cols : Int) ≤ e.cur.col

/-- Narrow glyph, after the wrap decision (`printK1` is `print` from the insert-mode phase on). -/
theorem printK1_narrow_sim {t : Term.T} {e : Emu} {rows cols : Nat} (s : Sim t e rows cols)
    (hp : t.pw = false) (hlc : e.lastCol = false) (g : G) (hg : g ≠ []) :
    ∃ e', printK1 g 1 e = .ok e' ∧ Sim (narrowCore t g) e' rows cols ∧ LastColOk e' cols := by
  have hc := col_lt_of_not_pw s hp
  have htc := tcol_eq s hp
  have hrow0 := s.inv.rowLo; have hrow1 := s.inv.rowHi; have hcol0 := s.inv.colLo
  have htr : t.row = e.cur.row.toNat := by have := s.row; omega
  have htcn : t.col = e.cur.col.toNat := by omega
  obtain ⟨row, hrow, hlen⟩ := row_at (active_ok s.inv) e.cur.row.toNat (by omega)
  have hg1 : GridOk (e.active.set e.cur.row.toNat
      (row.set e.cur.col.toNat { g := g, w := 1, st := e.cur.st })) rows cols :=
    gridOk_set (active_ok s.inv) _ _ (by simp [hlen])
  have hacc : Term.gridAccepts
      (t.grid.modify t.row (fun r => Term.healRow (r.set t.col (.glyph g 1 t.pen t.link))))
      ((e.active.set e.cur.row.toNat
        (row.set e.cur.col.toNat { g := g, w := 1, st := e.cur.st })).map absRow) = true := by
    rw [htr]
    refine gridAccepts_modify_set s.grid _ _ _ ?_
    intro trow row0 _ hr0 hra
    rw [hrow] at hr0
    obtain rfl : row = row0 := by simpa using hr0
    refine healRow_accepts _ _ ?_
    unfold absRow
    rw [List.map_set, htcn]
    refine rowAccepts_set hra _ _ _ ?_
    rw [absCell_glyph g 1 _ hg, s.pen, s.link]
    exact accepts_self _
  have hawm : (e.setActive (e.active.set e.cur.row.toNat
      (row.set e.cur.col.toNat { g := g, w := 1, st := e.cur.st }))).mode.decawm = true := by
    simpa using s.vm.awm
  have hright : (e.setActive (e.active.set e.cur.row.toNat
      (row.set e.cur.col.toNat { g := g, w := 1, st := e.cur.st }))).right = (cols : Int) - 1 := by
    simpa using s.inv.right
  have hle : (e.setActive (e.active.set e.cur.row.toNat
      (row.set e.cur.col.toNat { g := g, w := 1, st := e.cur.st }))).cur.col + ((1 : Nat) : Int) ≤ cols := by
    simp; omega
  have key := sim_setGridCol s _ _ hg1 hacc
  refine ⟨_, (printK1_narrow s.inv s.dim s.vm.irm hc g hrow hlen).trans
    (congrArg Except.ok (printAdvance_eq _ 1 cols hawm hright hle)), ?_, ?_⟩
  · rw [narrowCore_eq]
    have hcs := s.tcols
    by_cases h1 : t.col + 1 = t.cols
    · rw [if_pos h1]
      refine key (Term.T.setGrid t _).col true _ _ ?_ ?_ ?_ ?_
      · simp; omega
      · simp; omega
      · rw [setGrid_col]; simp; split <;> omega
      · simp; omega
    · rw [if_neg h1]
      refine key (t.col + 1) (Term.T.setGrid t _).pw _ _ ?_ ?_ ?_ ?_
      · simp; omega
      · simp; omega
      · simp; split <;> omega
      · rw [setGrid_pw, hp]; simp; omega
  · intro hl
    simp only [setActive_cur, setActive_lastCol, hlc] at hl ⊢
    split at hl
    · simp; omega
    · simp at hl


/-- Wide glyph that fits, after the wrap decision. -/
theorem printK1_wide_sim {t : Term.T} {e : Emu} {rows cols : Nat} (s : Sim t e rows cols)
    (hp : t.pw = false) (hlc : e.lastCol = false) (hfit : e.cur.col + 1 < cols) (g : G) (hg : g ≠ []) :
    ∃ e', printK1 g 2 e = .ok e' ∧ Sim (wideCore t g) e' rows cols ∧ LastColOk e' cols := by
  have hc := col_lt_of_not_pw s hp
  have htc := tcol_eq s hp
  have hrow0 := s.inv.rowLo; have hrow1 := s.inv.rowHi; have hcol0 := s.inv.colLo
  have htr : t.row = e.cur.row.toNat := by have := s.row; omega
  have htcn : t.col = e.cur.col.toNat := by omega
  obtain ⟨row, hrow, hlen⟩ := row_at (active_ok s.inv) e.cur.row.toNat (by omega)
  have hxlt : e.cur.col.toNat + 1 < row.length := by omega
  have hx : row[e.cur.col.toNat + 1]? = some row[e.cur.col.toNat + 1] := List.getElem?_eq_getElem hxlt
  generalize row[e.cur.col.toNat + 1] = x at hx
  have hg1 : GridOk (e.active.set e.cur.row.toNat
      ((row.set e.cur.col.toNat { g := g, w := 2, st := e.cur.st }).set (e.cur.col.toNat + 1)
          { x with g := [32], st := e.cur.st })) rows cols :=
    gridOk_set (active_ok s.inv) _ _ (by simp [hlen])
  have hacc : Term.gridAccepts
      (t.grid.modify t.row (fun r => Term.healRow
        ((r.set t.col (.glyph g 2 t.pen t.link)).set (t.col + 1) .cont)))
      ((e.active.set e.cur.row.toNat
        ((row.set e.cur.col.toNat { g := g, w := 2, st := e.cur.st }).set (e.cur.col.toNat + 1)
          { x with g := [32], st := e.cur.st })).map absRow) = true := by
    rw [htr]
    refine gridAccepts_modify_set s.grid _ _ _ ?_
    intro trow row0 _ hr0 hra
    rw [hrow] at hr0
    obtain rfl : row = row0 := by simpa using hr0
    refine healRow_accepts _ _ ?_
    unfold absRow
    rw [List.map_set, List.map_set, htcn]
    refine rowAccepts_set (rowAccepts_set hra _ _ _ ?_) _ _ _ (accepts_cont _)
    rw [absCell_glyph g 2 _ hg, s.pen, s.link]
    exact accepts_self _
  have hawm : (e.setActive (e.active.set e.cur.row.toNat
      ((row.set e.cur.col.toNat { g := g, w := 2, st := e.cur.st }).set (e.cur.col.toNat + 1)
          { x with g := [32], st := e.cur.st }))).mode.decawm = true := by
    simpa using s.vm.awm
  have hright : (e.setActive (e.active.set e.cur.row.toNat
      ((row.set e.cur.col.toNat { g := g, w := 2, st := e.cur.st }).set (e.cur.col.toNat + 1)
          { x with g := [32], st := e.cur.st }))).right = (cols : Int) - 1 := by
    simpa using s.inv.right
  have hle : (e.setActive (e.active.set e.cur.row.toNat
      ((row.set e.cur.col.toNat { g := g, w := 2, st := e.cur.st }).set (e.cur.col.toNat + 1)
          { x with g := [32], st := e.cur.st }))).cur.col + ((2 : Nat) : Int) ≤ cols := by
    simp; omega
  have key := sim_setGridCol s _ _ hg1 hacc
  refine ⟨_, (printK1_wide s.inv s.dim s.vm.irm hfit g hrow hlen hx).trans
    (congrArg Except.ok (printAdvance_eq _ 2 cols hawm hright hle)), ?_, ?_⟩
  · rw [wideCore_eq]
    have hcs := s.tcols
    by_cases h1 : t.col + 2 = t.cols
    · rw [if_pos h1]
      refine key (t.col + 1) true _ _ ?_ ?_ ?_ ?_
      · simp; omega
      · simp; omega
      · simp; split <;> omega
      · simp; omega
    · rw [if_neg h1]
      refine key (t.col + 2) (Term.T.setGrid t _).pw _ _ ?_ ?_ ?_ ?_
      · simp; omega
      · simp; omega
      · simp; split <;> omega
      · rw [setGrid_pw, hp]; simp; omega
  · intro hl
    simp only [setActive_cur, setActive_lastCol, hlc] at hl ⊢
    split at hl
    · simp; omega
    · simp at hl

theorem lastCol_false_of_not_pw {t : Term.T} {e : Emu} {rows cols : Nat} (s : Sim t e rows cols)
    (hl : LastColOk e cols) (hp : t.pw = false) : e.lastCol = false := by
  have hc := col_lt_of_not_pw s hp
  cases h : e.lastCol with
  | false => rfl
  | true => have := hl h; omega

/-- In the modes of the vocabulary `print` starts at the autowrap phase with the glyph unchanged. -/
theorem print_eq_K0 {t : Term.T} {e : Emu} {rows cols : Nat} (s : Sim t e rows cols) (g : G) (w : Nat) :
    print Fixes.current e g w = printK0 g w e := by
  rw [print_eq]
  have h1 : printPre e = e := by unfold printPre; simp [s.vm.noShift]
  have h2 : printGlyph e g = g := by
    unfold printGlyph
    split
    · simp [s.vm.ascii]
    · rfl
  rw [h1, h2]

/-- no autowrap: the flag is clear and the glyph fits -/
theorem print_eq_K1 {t : Term.T} {e : Emu} {rows cols : Nat} (s : Sim t e rows cols) (g : G) (w : Nat)
    (hlc : e.lastCol = false) (hfit : e.cur.col + (w : Int) ≤ cols) :
    print Fixes.current e g w = printK1 g w e := by
  rw [print_eq_K0 s]
  unfold printK0
  have hr := s.inv.right
  have : ¬ (e.cur.col + (w : Int) - 1 > e.right) := by omega
  simp [hlc, this]

/-- A. narrow glyph, no pending wrap. -/
theorem print_narrow_nowrap {t : Term.T} {e : Emu} {rows cols : Nat} (s : Sim t e rows cols)
    (hl : LastColOk e cols) (hp : t.pw = false) (g : G) (hg : g ≠ []) :
    ∃ e', print Fixes.current e g 1 = .ok e' ∧ Refines (Term.step t (.print g 1)) e' rows cols ∧
      LastColOk e' cols := by
  have hlc := lastCol_false_of_not_pw s hl hp
  have hc := col_lt_of_not_pw s hp
  obtain ⟨e', he', hs', hl'⟩ := printK1_narrow_sim s hp hlc g hg
  refine ⟨e', by rw [print_eq_K1 s g 1 hlc (by omega)]; exact he', ?_, hl'⟩
  have : Term.step t (.print g 1) = Term.one (narrowCore t g) := by
    simp only [Term.step, if_true, writeNarrow_eq, hp, Bool.false_eq_true, if_false]
  rw [this]
  exact refines_one hs'


/-- A. wide glyph that fits (not in the last column), no pending wrap. -/
theorem print_wide_nowrap {t : Term.T} {e : Emu} {rows cols : Nat} (s : Sim t e rows cols)
    (hl : LastColOk e cols) (hp : t.pw = false) (hfit : e.cur.col + 1 < cols) (g : G) (hg : g ≠ []) :
    ∃ e', print Fixes.current e g 2 = .ok e' ∧ Refines (Term.step t (.print g 2)) e' rows cols ∧
      LastColOk e' cols := by
  have hlc := lastCol_false_of_not_pw s hl hp
  have htc := tcol_eq s hp
  have hcs := s.tcols
  obtain ⟨e', he', hs', hl'⟩ := printK1_wide_sim s hp hlc hfit g hg
  refine ⟨e', by rw [print_eq_K1 s g 2 hlc (by omega)]; exact he', ?_, hl'⟩
  have h2 : t.cols ≥ 2 := by have := s.inv.colLo; omega
  have h3 : ¬ (t.pw = true ∨ t.col + 1 = t.cols) := by
    rw [hp]; simp; omega
  have : Term.step t (.print g 2) = Term.one (wideCore t g) := by
    simp only [Term.step, writeWide_eq, if_neg h3, h2, if_true]
    simp
  rw [this]
  exact refines_one hs'


/-! ### B. autowrap -/

/-- HYPOTHESIS of the wrapping lemmas: the refinement of NEL (IND, then column 0) for all related
    states, including those in the pending-wrap state (where `Term.step t .nel` is unconstrained):
    the emulator's `nel` succeeds and its result is simulated by
    `wrapT t = { ({ t with col := 0, pw := false } : T).indCore with pw := false }`, the state in which
    `T.writeNarrow` / `T.writeWide` write after an autowrap. -/
def NelHyp (rows cols : Nat) : Prop :=
  ∀ (t1 : Term.T) (e1 : Emu), Sim t1 e1 rows cols →
    ∃ e2, nel e1 = .ok e2 ∧ Sim (wrapT t1) e2 rows cols

/-- The statement of the refinement of IND in every state (also pending wrap), as proved in
    `Lemmas/EmuRefineScroll.lean` (`ind_sim`). -/
def IndHyp (rows cols : Nat) : Prop :=
  ∀ (t1 : Term.T) (e1 : Emu), Sim t1 e1 rows cols →
    ∃ e2, ind e1 = .ok e2 ∧ Sim t1.indCore e2 rows cols

theorem wrapT_eq (t : Term.T) : wrapT t = { t.indCore with col := 0, pw := false } := by
  unfold wrapT Term.T.indCore Term.T.scrollUp Term.T.setGrid Term.T.grid Term.T.blankRow Term.T.blank
  simp only
  split
  · split <;> rfl
  · split <;> rfl

/-- `NelHyp` follows from the refinement of IND. -/
theorem nelHyp_of_ind {rows cols : Nat} (h : IndHyp rows cols) : NelHyp rows cols := by
  intro t1 e1 s1
  obtain ⟨e2, he2, s2⟩ := h t1 e1 s1
  have hl := s2.inv.left0
  have hc1 := s2.dim.c1
  refine ⟨{ e2 with cur := { e2.cur with col := e2.left } }, by unfold nel; rw [he2]; rfl, ?_⟩
  rw [wrapT_eq]
  exact sim_setCol s2 0 false e2.left e2.lastCol (by omega) (by omega)
    (by split <;> omega) (by symm; rw [decide_eq_false_iff_not]; omega)

/-- Clearing `lastCol` and marking the last cell of the cursor row `wrapped` keeps `Sim`. -/
theorem sim_markWrapped {t : Term.T} {e : Emu} {rows cols : Nat} (s : Sim t e rows cols) :
    ∃ g', modCell e.active e.cur.row (({ e with lastCol := false } : Emu).width - 1)
        (fun c => { c with wrapped := true }) = .ok g' ∧
      Sim t (({ e with lastCol := false } : Emu).setActive g') rows cols := by
  have hw : ({ e with lastCol := false } : Emu).width = cols := width_eq (inv_lastCol s.inv false) s.dim.r1
  have hrow0 := s.inv.rowLo; have hrow1 := s.inv.rowHi; have hc1 := s.dim.c1
  obtain ⟨row, hrow, hlen⟩ := row_at (active_ok s.inv) e.cur.row.toNat (by omega)
  have hxlt : ((cols : Int) - 1).toNat < row.length := by omega
  have hx : row[((cols : Int) - 1).toNat]? = some row[((cols : Int) - 1).toNat] :=
    List.getElem?_eq_getElem hxlt
  generalize row[((cols : Int) - 1).toNat] = x at hx
  rw [hw, modCell_eq _ _ _ hrow0 (by omega) hrow hx]
  refine ⟨_, rfl, ?_⟩
  have s0 : Sim t { e with lastCol := false } rows cols :=
    sim_setCol s t.col t.pw e.cur.col false s.inv.colLo s.inv.colHi s.col s.pw
  have hg' : GridOk (e.active.set e.cur.row.toNat
      (row.set ((cols : Int) - 1).toNat { x with wrapped := true })) rows cols :=
    gridOk_set (active_ok s.inv) _ _ (by simp [hlen])
  have hacc : Term.gridAccepts t.grid ((e.active.set e.cur.row.toNat
      (row.set ((cols : Int) - 1).toNat { x with wrapped := true })).map absRow) = true := by
    rw [List.map_set, absRow_wrapped hx, list_set_self (by simp [hrow])]
    exact s.grid
  have := sim_setGrid s0 t.grid _ hg' hacc
    (({ e with lastCol := false } : Emu).setActive (e.active.set e.cur.row.toNat
      (row.set ((cols : Int) - 1).toNat { x with wrapped := true }))).lastCol
  rw [setGrid_self] at this
  exact this

/-- The autowrap phase of `print`: the emulator marks the line as wrapped and performs NEL; the
    rest of `print` runs from a state related to the reference's wrapped state. -/
theorem print_wrap_phase {t : Term.T} {e : Emu} {rows cols : Nat} (s : Sim t e rows cols)
    (hnel : NelHyp rows cols) (g : G) (w : Nat)
    (hwrap : e.lastCol = true ∨ (cols : Int) < e.cur.col + (w : Int)) :
    ∃ e2, Sim (wrapT t) e2 rows cols ∧ e2.lastCol = false ∧
      print Fixes.current e g w = printK1 g w e2 := by
  obtain ⟨g', hg', s1⟩ := sim_markWrapped s
  obtain ⟨e2, he2, s2⟩ := hnel _ _ s1
  refine ⟨e2, s2, nel_lastCol he2, ?_⟩
  rw [print_eq_K0 s]
  unfold printK0
  have hr := s.inv.right
  have hcond : ((e.lastCol || decide (e.cur.col + (w : Int) - 1 > e.right)) && e.mode.decawm) = true := by
    rw [s.vm.awm, Bool.and_true, Bool.or_eq_true, decide_eq_true_eq]
    rcases hwrap with h | h
    · exact Or.inl h
    · exact Or.inr (by omega)
  rw [if_pos hcond]
  show (modCell e.active e.cur.row (({ e with lastCol := false } : Emu).width - 1)
    (fun c => { c with wrapped := true }) >>= fun g' =>
      nel (({ e with lastCol := false } : Emu).setActive g') >>= fun e1 => printK1 g w e1) = _
  rw [hg', exceptOk_bind, he2, exceptOk_bind]

/-- B. narrow glyph in the pending-wrap state. -/
theorem print_narrow_wrap {t : Term.T} {e : Emu} {rows cols : Nat} (s : Sim t e rows cols)
    (hnel : NelHyp rows cols) (hp : t.pw = true) (g : G) (hg : g ≠ []) :
    ∃ e', print Fixes.current e g 1 = .ok e' ∧ Refines (Term.step t (.print g 1)) e' rows cols ∧
      LastColOk e' cols := by
  have hcol : (cols : Int) ≤ e.cur.col := by
    have := s.pw; rw [hp] at this; simpa using this.symm
  obtain ⟨e2, s2, hlc2, hpr⟩ := print_wrap_phase s hnel g 1 (Or.inr (by omega))
  obtain ⟨e', he', hs', hl'⟩ := printK1_narrow_sim s2 (wrapT_pw t) hlc2 g hg
  refine ⟨e', by rw [hpr]; exact he', ?_, hl'⟩
  have : Term.step t (.print g 1) = Term.one (narrowCore (wrapT t) g) := by
    simp only [Term.step, if_true, writeNarrow_eq, hp]
  rw [this]
  exact refines_one hs'

/-- B. wide glyph in the pending-wrap state or in the last column (screens of at least 2 columns). -/
theorem print_wide_wrap {t : Term.T} {e : Emu} {rows cols : Nat} (s : Sim t e rows cols)
    (hnel : NelHyp rows cols) (h2 : 2 ≤ cols) (hw : (cols : Int) ≤ e.cur.col + 1) (g : G) (hg : g ≠ []) :
    ∃ e', print Fixes.current e g 2 = .ok e' ∧ Refines (Term.step t (.print g 2)) e' rows cols ∧
      LastColOk e' cols := by
  obtain ⟨e2, s2, hlc2, hpr⟩ := print_wrap_phase s hnel g 2 (Or.inr (by omega))
  have hc2 : e2.cur.col = 0 := by
    have h1 := tcol_eq s2 (wrapT_pw t)
    rw [wrapT_col] at h1
    omega
  obtain ⟨e', he', hs', hl'⟩ := printK1_wide_sim s2 (wrapT_pw t) hlc2 (by omega) g hg
  refine ⟨e', by rw [hpr]; exact he', ?_, hl'⟩
  have hcs := s.tcols
  have h3 : t.pw = true ∨ t.col + 1 = t.cols := by
    cases hpw : t.pw with
    | true => exact Or.inl rfl
    | false =>
      have := tcol_eq s hpw
      exact Or.inr (by have := col_lt_of_not_pw s hpw; omega)
  have : Term.step t (.print g 2) = Term.one (wideCore (wrapT t) g) := by
    simp only [Term.step, writeWide_eq, if_pos h3]
    have : t.cols ≥ 2 := by omega
    simp [this]
  rw [this]
  exact refines_one hs'

/-- A wide glyph on a 1-column screen: the reference does not constrain the result; the emulator
    does not fail. -/
theorem print_wide_cols1 {t : Term.T} {e : Emu} {rows : Nat} (s : Sim t e rows 1) (g : G) :
    ∃ e', print Fixes.current e g 2 = .ok e' ∧ Refines (Term.step t (.print g 2)) e' rows 1 := by
  obtain ⟨e', he', _⟩ := print_safe s.inv s.dim g 2
  refine ⟨e', he', ?_⟩
  have : Term.step t (.print g 2) = .unconstrained := by
    simp [Term.step, s.tcols]
  rw [this]
  trivial


/-! ### C. ICH / DCH -/

/-- the parameter as csi() hands it to the handler -/
def cpP (n : Nat) : Int := clampParam (n : Int)

theorem cpP_ok (n : Nat) : POk (cpP n) := by
  unfold cpP clampParam maxParam POk; split <;> omega

/-- The emulator's count (`dflt1` of the clamped parameter) and the reference's (`d1 n`) cut off
    at anything up to 65535 alike. -/
theorem dflt1_cpP (n : Nat) : ∃ k : Nat, dflt1 (cpP n) = (k : Int) ∧ 1 ≤ k ∧ k ≤ 65535 ∧
    ∀ x : Nat, x ≤ 65535 → min (Term.d1 n) x = min k x := by
  unfold cpP clampParam maxParam dflt1 Term.d1
  by_cases h0 : n = 0
  · subst h0
    exact ⟨1, by simp, by omega, by omega, fun x _ => by simp⟩
  · by_cases h1 : n ≤ 65535
    · refine ⟨n, ?_, by omega, h1, fun x _ => by simp [h0]⟩
      have : ¬ ((n : Int) < 0 ∨ (n : Int) > 65535) := by omega
      rw [if_neg this, if_neg (by omega)]
    · refine ⟨65535, ?_, by omega, by omega, fun x hx => by simp [h0]; omega⟩
      have : (n : Int) < 0 ∨ (n : Int) > 65535 := by omega
      rw [if_pos this]; simp

theorem ich_refines {t : Term.T} {e : Emu} {rows cols : Nat} (s : Sim t e rows cols) (n : Nat) :
    ∃ e', ich Fixes.current e (cpP n) = .ok e' ∧ Refines (Term.step t (.ich n)) e' rows cols := by
  cases hp : t.pw with
  | true =>
    obtain ⟨e', he', _⟩ := ich_safe s.inv s.dim (cpP_ok n)
    refine ⟨e', he', ?_⟩
    simp only [Term.step]
    exact refines_unlessPw (fun h => by rw [hp] at h; cases h)
  | false =>
    have hc := col_lt_of_not_pw s hp
    have htc := tcol_eq s hp
    have hrow0 := s.inv.rowLo; have hrow1 := s.inv.rowHi; have hcol0 := s.inv.colLo
    have hcm := s.dim.cmax
    have htr : t.row = e.cur.row.toNat := by have := s.row; omega
    have hcc : e.cur.col = ((t.col : Nat) : Int) := by omega
    have hcs := s.tcols
    obtain ⟨k, hk, hk1, hk2, hmin⟩ := dflt1_cpP n
    obtain ⟨line, hrow, hlen⟩ := row_at (active_ok s.inv) e.cur.row.toNat (by omega)
    obtain ⟨line2, hich, hl2, hs2⟩ := ich_exact s.inv s.dim (cpP n) k t.col hk hcc (by omega) hk1 hk2 hrow hlen
    refine ⟨_, hich, ?_⟩
    simp only [Term.step]
    refine refines_unlessPw (fun _ => refines_one ?_)
    unfold Term.T.modRow
    refine sim_setGrid s _ _ (gridOk_set (active_ok s.inv) _ _ hl2) ?_
      (e.setActive (e.active.set e.cur.row.toNat line2)).lastCol
    rw [htr]
    refine gridAccepts_modify_set s.grid _ _ _ ?_
    intro trow row0 _ hr0 hra
    rw [hrow] at hr0
    obtain rfl : line = row0 := by simpa using hr0
    refine healRow_accepts _ _ ?_
    obtain ⟨htl, hidx⟩ := (rowAccepts_iff _ _).mp hra
    have htl' : trow.length = cols := by rw [htl]; unfold absRow; simp [hlen]
    rw [hcs, hmin (cols - t.col) (by omega)]
    have hcmle : t.col + min k (cols - t.col) ≤ cols := by omega
    rw [rowAccepts_iff]
    refine ⟨?_, ?_⟩
    · unfold absRow
      simp only [List.length_append, List.length_take, List.length_replicate, List.length_drop,
        List.length_map, htl', hl2]
      omega
    · intro i x y hx hy
      rw [ins_getElem? trow t.col _ cols t.blank htl' hcmle i] at hx
      unfold absRow at hy hidx
      rw [List.getElem?_map, hs2] at hy
      by_cases hj1 : i < t.col
      · rw [if_pos hj1] at hx hy
        exact hidx i x y hx (by rw [List.getElem?_map]; exact hy)
      · rw [if_neg hj1] at hx hy
        by_cases hj2 : i < t.col + min k (cols - t.col)
        · rw [if_pos hj2] at hx hy
          simp only [Option.map_some, Option.some.injEq] at hx hy
          subst hx; subst hy
          rw [blank_eq s]
          exact accepts_blank_erase _ _
        · rw [if_neg hj2] at hx hy
          by_cases hj3 : i < cols
          · rw [if_pos hj3] at hx hy
            exact hidx _ x y hx (by rw [List.getElem?_map]; exact hy)
          · rw [if_neg hj3] at hx
            cases hx


theorem dch_refines {t : Term.T} {e : Emu} {rows cols : Nat} (s : Sim t e rows cols) (n : Nat) :
    ∃ e', dch e (cpP n) = .ok e' ∧ Refines (Term.step t (.dch n)) e' rows cols := by
  cases hp : t.pw with
  | true =>
    obtain ⟨e', he', _⟩ := dch_safe s.inv s.dim (cpP_ok n)
    refine ⟨e', he', ?_⟩
    simp only [Term.step]
    exact refines_unlessPw (fun h => by rw [hp] at h; cases h)
  | false =>
    have hc := col_lt_of_not_pw s hp
    have htc := tcol_eq s hp
    have hrow0 := s.inv.rowLo; have hrow1 := s.inv.rowHi; have hcol0 := s.inv.colLo
    have hcm := s.dim.cmax
    have htr : t.row = e.cur.row.toNat := by have := s.row; omega
    have hcc : e.cur.col = ((t.col : Nat) : Int) := by omega
    have hcs := s.tcols
    obtain ⟨k, hk, hk1, hk2, hmin⟩ := dflt1_cpP n
    obtain ⟨line, hrow, hlen⟩ := row_at (active_ok s.inv) e.cur.row.toNat (by omega)
    obtain ⟨ln, hdch, hl2, hs2⟩ := dch_exact s.inv s.dim (cpP n) k t.col hk hcc (by omega) hk1 hrow hlen
    refine ⟨_, hdch, ?_⟩
    simp only [Term.step]
    refine refines_unlessPw (fun _ => refines_one ?_)
    unfold Term.T.modRow
    have s0 : Sim t { e with lastCol := false } rows cols :=
      sim_setCol s t.col t.pw e.cur.col false s.inv.colLo s.inv.colHi s.col s.pw
    refine sim_setGrid s0 _ _ (gridOk_set (active_ok s.inv) _ _ hl2) ?_
      (({ e with lastCol := false } : Emu).setActive (e.active.set e.cur.row.toNat ln)).lastCol
    rw [htr]
    refine gridAccepts_modify_set s.grid _ _ _ ?_
    intro trow row0 _ hr0 hra
    rw [hrow] at hr0
    obtain rfl : line = row0 := by simpa using hr0
    refine healRow_accepts _ _ ?_
    obtain ⟨htl, hidx⟩ := (rowAccepts_iff _ _).mp hra
    have htl' : trow.length = cols := by rw [htl]; unfold absRow; simp [hlen]
    rw [hcs, hmin (cols - t.col) (by omega)]
    have hcmle : t.col + min k (cols - t.col) ≤ cols := by omega
    rw [rowAccepts_iff]
    refine ⟨?_, ?_⟩
    · unfold absRow
      simp only [List.length_append, List.length_take, List.length_replicate, List.length_drop,
        List.length_map, htl', hl2]
      omega
    · intro i x y hx hy
      rw [del_getElem? trow t.col _ cols t.blank htl' hcmle i] at hx
      unfold absRow at hy hidx
      rw [List.getElem?_map, hs2] at hy
      by_cases hj1 : i < t.col
      · rw [if_pos hj1] at hx hy
        exact hidx i x y hx (by rw [List.getElem?_map]; exact hy)
      · rw [if_neg hj1] at hx hy
        by_cases hj2 : i + min k (cols - t.col) < cols
        · rw [if_pos hj2] at hx hy
          exact hidx _ x y hx (by rw [List.getElem?_map]; exact hy)
        · rw [if_neg hj2] at hx hy
          by_cases hj3 : i < cols
          · rw [if_pos hj3] at hx hy
            simp only [Option.some.injEq] at hx hy
            subst hx; subst hy
            rw [blank_eq s]
            simp [Term.TCell.accepts]
          · rw [if_neg hj3] at hx
            cases hx


/-! ### `LastColOk` across ICH / DCH -/

theorem ich_lastColOk {e e' : Emu} {n : Int} {cols : Nat} (h : ich Fixes.current e n = .ok e')
    (hl : LastColOk e cols) : LastColOk e' cols := by
  unfold ich at h
  simp only [bind, Except.bind] at h
  repeat (split at h; · simp at h)
  simp only [Except.ok.injEq] at h
  subst h
  unfold LastColOk at *
  simpa using hl

theorem dch_lastColOk {e e' : Emu} {n : Int} {cols : Nat} (h : dch e n = .ok e') : LastColOk e' cols := by
  unfold dch at h
  simp only [bind, Except.bind] at h
  split at h
  · simp at h
  · simp only [Except.ok.injEq] at h
    subst h
    intro hl
    simp at hl

/-! ### PRINT, all cases -/

/-- `print` of any non-empty glyph of any width, in any related state: the emulator does not fail
    and refines the reference (under the refinement of NEL for the wrapping cases). `LastColOk` is
    re-established whenever the reference constrains the result. -/
theorem print_refines {t : Term.T} {e : Emu} {rows cols : Nat} (s : Sim t e rows cols)
    (hl : LastColOk e cols) (hnel : NelHyp rows cols) (g : G) (hg : g ≠ []) (w : Nat) :
    ∃ e', print Fixes.current e g w = .ok e' ∧ Refines (Term.step t (.print g w)) e' rows cols ∧
      ((w = 1 ∨ (w = 2 ∧ 2 ≤ cols)) → LastColOk e' cols) := by
  by_cases h1 : w = 1
  · subst h1
    cases hp : t.pw with
    | false =>
      obtain ⟨e', a, b, c⟩ := print_narrow_nowrap s hl hp g hg
      exact ⟨e', a, b, fun _ => c⟩
    | true =>
      obtain ⟨e', a, b, c⟩ := print_narrow_wrap s hnel hp g hg
      exact ⟨e', a, b, fun _ => c⟩
  · by_cases h2 : w = 2
    · subst h2
      by_cases hc2 : 2 ≤ cols
      · by_cases hfit : e.cur.col + 1 < cols
        · have hp : t.pw = false := by
            have := s.pw; rw [this, decide_eq_false_iff_not]; omega
          obtain ⟨e', a, b, c⟩ := print_wide_nowrap s hl hp hfit g hg
          exact ⟨e', a, b, fun _ => c⟩
        · obtain ⟨e', a, b, c⟩ := print_wide_wrap s hnel hc2 (by omega) g hg
          exact ⟨e', a, b, fun _ => c⟩
      · have hc1 : cols = 1 := by have := s.dim.c1; omega
        subst hc1
        obtain ⟨e', a, b⟩ := print_wide_cols1 s g
        exact ⟨e', a, b, fun h => by omega⟩
    · obtain ⟨e', he', _⟩ := print_safe s.inv s.dim g w
      refine ⟨e', he', ?_, fun h => by omega⟩
      have : Term.step t (.print g w) = .unconstrained := by
        simp [Term.step, h1, h2]
      rw [this]
      trivial


/-! ### non-vacuity: related states exist, without and with pending wrap -/

/-- a blank 1×2 emulator, cursor at column `c` -/
def exE (c : Int) (lc : Bool) : Emu :=
  { primary := [[{}, {}]], alt := [[{}, {}]], bottom := 0, right := 1, cur := { col := c }, lastCol := lc }

theorem exSim0 : Sim (Term.T.init 1 2) (exE 0 false) 1 2 :=
  { inv := { prim := ⟨rfl, by decide⟩, alt := ⟨rfl, by decide⟩, rowLo := by decide, rowHi := by decide,
             colLo := by decide, colHi := by decide, topLo := by decide, topLe := by decide,
             botHi := by decide, left0 := rfl, right := by decide,
             savedP := ⟨by decide, by decide, by decide, by decide⟩,
             savedA := ⟨by decide, by decide, by decide, by decide⟩,
             tabs := by decide }
    dim := ⟨by decide, by decide, by decide, by decide⟩
    vm := ⟨rfl, rfl, rfl, rfl, rfl⟩
    trows := rfl, tcols := rfl, onAlt := rfl, row := rfl, col := by decide, pw := by decide
    pen := by decide, link := rfl, top := rfl, bottom := rfl, grid := by decide }

theorem exSim2 : Sim { Term.T.init 1 2 with col := 1, pw := true } (exE 2 true) 1 2 :=
  { inv := { prim := ⟨rfl, by decide⟩, alt := ⟨rfl, by decide⟩, rowLo := by decide, rowHi := by decide,
             colLo := by decide, colHi := by decide, topLo := by decide, topLe := by decide,
             botHi := by decide, left0 := rfl, right := by decide,
             savedP := ⟨by decide, by decide, by decide, by decide⟩,
             savedA := ⟨by decide, by decide, by decide, by decide⟩,
             tabs := by decide }
    dim := ⟨by decide, by decide, by decide, by decide⟩
    vm := ⟨rfl, rfl, rfl, rfl, rfl⟩
    trows := rfl, tcols := rfl, onAlt := rfl, row := rfl, col := by decide, pw := by decide
    pen := by decide, link := rfl, top := rfl, bottom := rfl, grid := by decide }

/-- the hypotheses of `print_narrow_nowrap` / `print_wide_nowrap` / `ich_refines` / `dch_refines` -/
example : ∃ t e, Sim t e 1 2 ∧ LastColOk e 2 ∧ t.pw = false ∧ e.cur.col + 1 < 2 :=
  ⟨_, _, exSim0, (fun h => by cases h), rfl, by decide⟩

/-- the hypotheses of `print_narrow_wrap` / `print_wide_wrap` (other than `NelHyp`) -/
example : ∃ t e, Sim t e 1 2 ∧ LastColOk e 2 ∧ t.pw = true ∧ (2 : Int) ≤ e.cur.col + 1 :=
  ⟨_, _, exSim2, (fun _ => by decide), rfl, by decide⟩

end VaxisModel.Lemmas.EmuRefine
