/-
C06 refinement, part: the saved cursor and the alternate screen (DECSC, DECRC, ?1049 h/l), stated
for the full simulation relation `Sim2` (Lemmas/EmuRefine2.lean).
-/
import VaxisModel.Lemmas.EmuRefine2
import VaxisModel.Lemmas.EmuRefineErase
import VaxisModel.Lemmas.EmuSafe3

namespace VaxisModel.Lemmas.EmuRefine
open VaxisModel.Model.Emu VaxisModel.Model.EmuAbs VaxisModel.Lemmas.Emu VaxisModel.Spec
open EraseAux

namespace SavedAux

/-- The slot DECSC writes. -/
def eSlot (e : Emu) : Saved :=
  { cur := e.cur, decawm := e.mode.decawm, decom := e.mode.decom,
    cs := { sel := e.cs.sel, saved := e.cs.saved, ss := false,
            g0 := e.cs.g0, g1 := e.cs.g1, g2 := e.cs.g2, g3 := e.cs.g3 } }

/-- The saved cursor the reference remembers. -/
def tSlot (t : Term.T) : Term.SavedCursor :=
  { row := t.row, col := t.col, pw := t.pw, pen := t.pen, link := t.link }

theorem eSlot_ok {e : Emu} {rows cols : Nat} (h : EmuInv e rows cols) : SavedOk (eSlot e) rows cols :=
  ⟨h.rowLo, h.rowHi, h.colLo, h.colHi⟩

theorem savedRel_slot {t : Term.T} {e : Emu} {rows cols : Nat} (s : Sim t e rows cols) :
    SavedRel (some (tSlot t)) (eSlot e) cols :=
  ⟨s.vm.awm, s.vm.ascii, s.row, s.col, s.pw, s.pen, s.link⟩

theorem decsc_prim {e : Emu} (h : e.mode.smcup = false) : decsc e = { e with savedP := eSlot e } := by
  unfold decsc eSlot; simp only [h]; rfl

theorem decsc_alt {e : Emu} (h : e.mode.smcup = true) : decsc e = { e with savedA := eSlot e } := by
  unfold decsc eSlot; simp only [h]; rfl

theorem save_prim {t : Term.T} (h : t.onAlt = false) : t.save = { t with savedP := some (tSlot t) } := by
  unfold Term.T.save tSlot; simp only [h]; rfl

theorem save_alt {t : Term.T} (h : t.onAlt = true) : t.save = { t with savedA := some (tSlot t) } := by
  unfold Term.T.save tSlot; simp only [h]; rfl

/-- `Sim` does not mention the saved slots. -/
theorem sim_saved {t : Term.T} {e : Emu} {rows cols : Nat} (s : Sim t e rows cols)
    (tp ta : Option Term.SavedCursor) (ep ea : Saved)
    (hp : SavedOk ep rows cols) (ha : SavedOk ea rows cols) :
    Sim { t with savedP := tp, savedA := ta } { e with savedP := ep, savedA := ea } rows cols :=
  { inv := { s.inv with savedP := hp, savedA := ha }
    dim := s.dim, vm := ⟨s.vm.awm, s.vm.irm, s.vm.lnm, s.vm.ascii, s.vm.noShift⟩
    trows := s.trows, tcols := s.tcols, onAlt := s.onAlt
    row := s.row, col := s.col, pw := s.pw
    pen := s.pen, link := s.link, top := s.top, bottom := s.bottom
    grid := s.grid }

/-- What `decrc` does with the slot `es`. -/
def restoreFrom (e : Emu) (es : Saved) : Emu :=
  { e with cur := es.cur,
           cs := { sel := es.cs.sel, saved := es.cs.saved, ss := false,
                   g0 := es.cs.g0, g1 := es.cs.g1, g2 := es.cs.g2, g3 := es.cs.g3 },
           mode := { e.mode with decawm := es.decawm, decom := es.decom },
           lastCol := false }

theorem decrc_eq (e : Emu) : decrc e = restoreFrom e (if e.mode.smcup then e.savedA else e.savedP) := rfl

/-- What the reference's DECRC accepts, given the saved cursor of the active screen. -/
def restoreList (t : Term.T) (ts : Option Term.SavedCursor) : List Term.T :=
  match ts with
  | some s =>
    let t1 : Term.T := { t with row := min s.row (t.rows - 1), col := min s.col (t.cols - 1), pw := false,
                                pen := s.pen, link := s.link }
    if s.pw then [t1, { t1 with pw := true }] else [t1]
  | none => [{ t with row := 0, col := 0, pw := false, pen := {}, link := [] }]

theorem restore_eq (t : Term.T) : t.restore = restoreList t (if t.onAlt then t.savedA else t.savedP) := rfl

/-- Restore cursor, pen, charsets and DECAWM/DECOM from a slot (what `decrc` does). -/
theorem sim_restore {t : Term.T} {e : Emu} {rows cols : Nat} (s : Sim t e rows cols)
    (es : Saved) (hok : SavedOk es rows cols) (hawm : es.decawm = true)
    (hcs : es.cs.desig es.cs.sel = 0)
    (tr tc : Nat) (tpw : Bool) (pen : TStyle) (link : Term.G)
    (hrow : (tr : Int) = es.cur.row)
    (hcol : (tc : Int) = (if es.cur.col ≥ cols then (cols : Int) - 1 else es.cur.col))
    (hpw : tpw = decide (es.cur.col ≥ cols)) (hpen : pen = absStyle es.cur.st)
    (hlink : link = es.cur.st.link) :
    Sim { t with row := tr, col := tc, pw := tpw, pen := pen, link := link }
        (restoreFrom e es) rows cols :=
  { inv := { s.inv with rowLo := hok.rowLo, rowHi := hok.rowHi, colLo := hok.colLo, colHi := hok.colHi }
    dim := s.dim
    vm := ⟨hawm, s.vm.irm, s.vm.lnm, hcs, rfl⟩
    trows := s.trows, tcols := s.tcols, onAlt := s.onAlt
    row := hrow, col := hcol, pw := hpw
    pen := hpen, link := hlink, top := s.top, bottom := s.bottom
    grid := s.grid }

/-- The parts of the reference state DECRC leaves alone. -/
structure TSame (t t' : Term.T) : Prop where
  savedP : t'.savedP = t.savedP
  savedA : t'.savedA = t.savedA
  onAlt : t'.onAlt = t.onAlt
  primary : t'.primary = t.primary
  alt : t'.alt = t.alt

/-- DECRC from corresponding slots: one of the accepted reference states simulates the result. -/
theorem restore_sim {t : Term.T} {e : Emu} {rows cols : Nat} (s : Sim t e rows cols)
    (ts : Option Term.SavedCursor) (es : Saved) (hok : SavedOk es rows cols)
    (hrel : SavedRel ts es cols) :
    ∃ t' ∈ restoreList t ts, Sim t' (restoreFrom e es) rows cols ∧ TSame t t' := by
  have hc1 := s.dim.c1
  have h1 := hok.rowLo; have h2 := hok.rowHi; have h3 := hok.colLo; have h4 := hok.colHi
  obtain ⟨hawm, hcs, hrest⟩ := hrel
  cases ts with
  | none =>
    obtain ⟨hr, hc, hst, hl⟩ := hrest
    refine ⟨_, List.mem_singleton.mpr rfl, ?_, ⟨rfl, rfl, rfl, rfl, rfl⟩⟩
    refine sim_restore s es hok hawm hcs 0 0 false {} [] (by rw [hr]; rfl) ?_ ?_ hst.symm hl.symm
    · rw [hc]; split <;> omega
    · rw [hc]; symm; rw [decide_eq_false_iff_not]; omega
  | some sv =>
    obtain ⟨hr, hc, hpw, hpen, hl⟩ := hrest
    have hmr : min sv.row (t.rows - 1) = sv.row := by rw [s.trows]; omega
    have hmc : min sv.col (t.cols - 1) = sv.col := by
      rw [s.tcols]; split at hc <;> omega
    by_cases hge : es.cur.col ≥ cols
    · have hpw' : sv.pw = true := by rw [hpw]; exact decide_eq_true hge
      simp only [restoreList, hpw', if_true, hmr, hmc]
      refine ⟨_, List.mem_cons_of_mem _ (List.mem_singleton.mpr rfl), ?_, ⟨rfl, rfl, rfl, rfl, rfl⟩⟩
      exact sim_restore s es hok hawm hcs sv.row sv.col true sv.pen sv.link hr hc
        (decide_eq_true hge).symm hpen hl
    · have hpw' : sv.pw = false := by rw [hpw]; exact decide_eq_false hge
      simp only [restoreList, hpw', Bool.false_eq_true, if_false, hmr, hmc]
      refine ⟨_, List.mem_singleton.mpr rfl, ?_, ⟨rfl, rfl, rfl, rfl, rfl⟩⟩
      exact sim_restore s es hok hawm hcs sv.row sv.col false sv.pen sv.link hr hc
        (decide_eq_false hge).symm hpen hl

theorem lastColOk_restore (e : Emu) (es : Saved) (cols : Nat) : LastColOk (restoreFrom e es) cols := by
  intro h; simp [restoreFrom] at h

end SavedAux
open SavedAux

/-! ### DECSC -/

theorem decsc_refines2 {t : Term.T} {e : Emu} {rows cols : Nat} (s2 : Sim2 t e rows cols) :
    Refines2 (Term.step t .decsc) (decsc e) rows cols := by
  have s := s2.sim
  refine ⟨t.save, List.mem_singleton.mpr rfl, ?_⟩
  cases ha : e.altActive with
  | false =>
    have hsm : e.mode.smcup = false := by rw [s2.smcup, ha]
    have hon : t.onAlt = false := by rw [s.onAlt, ha]
    rw [decsc_prim hsm, save_prim hon]
    exact
    { sim := sim_saved s _ _ _ _ (eSlot_ok s.inv) s.inv.savedA
      lc := s2.lc
      savedP := savedRel_slot s
      savedA := s2.savedA
      smcup := s2.smcup
      prim := s2.prim }
  | true =>
    have hsm : e.mode.smcup = true := by rw [s2.smcup, ha]
    have hon : t.onAlt = true := by rw [s.onAlt, ha]
    rw [decsc_alt hsm, save_alt hon]
    exact
    { sim := sim_saved s _ _ _ _ s.inv.savedP (eSlot_ok s.inv)
      lc := s2.lc
      savedP := s2.savedP
      savedA := savedRel_slot s
      smcup := s2.smcup
      prim := s2.prim }

/-! ### DECRC -/

theorem decrc_refines2 {t : Term.T} {e : Emu} {rows cols : Nat} (s2 : Sim2 t e rows cols) :
    Refines2 (Term.step t .decrc) (decrc e) rows cols := by
  have s := s2.sim
  show ∃ t' ∈ t.restore, Sim2 t' (decrc e) rows cols
  rw [restore_eq, decrc_eq]
  have key : ∀ (ts : Option Term.SavedCursor) (es : Saved), SavedOk es rows cols → SavedRel ts es cols →
      ∃ t' ∈ restoreList t ts, Sim2 t' (restoreFrom e es) rows cols := by
    intro ts es hok hrel
    obtain ⟨t', hmem, hsim, hsame⟩ := restore_sim s ts es hok hrel
    refine ⟨t', hmem, sim2_of_frame s2 hsim (lastColOk_restore e es cols)
      ⟨rfl, rfl, rfl, rfl, fun _ => rfl⟩ ⟨hsame.savedP, hsame.savedA, hsame.onAlt, fun _ => hsame.primary⟩⟩
  cases ha : e.altActive with
  | false =>
    have hsm : e.mode.smcup = false := by rw [s2.smcup, ha]
    have hon : t.onAlt = false := by rw [s.onAlt, ha]
    simp only [hsm, hon, Bool.false_eq_true, if_false]
    exact key _ _ s.inv.savedP s2.savedP
  | true =>
    have hsm : e.mode.smcup = true := by rw [s2.smcup, ha]
    have hon : t.onAlt = true := by rw [s.onAlt, ha]
    simp only [hsm, hon, if_true]
    exact key _ _ s.inv.savedA s2.savedA

/-! ### ?1049 h -/

namespace SavedAux

/-- ED 2, functionally: the active grid is replaced by one every cell of which was erased with the
    pen's background. -/
theorem ed2_spec {e : Emu} {rows cols : Nat} (h : EmuInv e rows cols) (d : Dim rows cols) :
    ∃ g', ed e 2 = .ok (({ e with lastCol := false } : Emu).setActive g') ∧ GridOk g' rows cols ∧
      Term.gridAccepts (Term.blankGrid rows cols (absCol e.bg)) (g'.map absRow) = true := by
  have hw := width_eq h d.r1
  have hh := height_eq h
  have hg := active_ok h
  have := d.cmax; have := d.rmax; have := d.r1; have := d.c1
  have hcm : (cols : Int) ≤ hangLimit := by rw [hangLimit_val]; omega
  obtain ⟨g', e1, hg', hc⟩ := rowsLoop_spec hg 0 ((rows : Int) - 1) e.bg
    (fun r g => forUp 0 ((cols : Int) - 1) (fun col g => modCell g r col (·.erase e.bg)) g)
    (fun _ j => (0 : Int) ≤ (j : Int) ∧ (j : Int) ≤ (cols : Int) - 1)
    (by omega) (by rw [hangLimit_val]; omega)
    (fun r s' hr0 hr1 hs' => eraseCols_spec hs' r 0 ((cols : Int) - 1) e.bg
      (by omega) (by omega) (by omega) (by omega) hcm)
  refine ⟨g', by rw [ed_2, hw, hh, e1]; rfl, hg', ?_⟩
  rw [gridAccepts_iff]
  unfold Term.blankGrid
  simp only [List.length_replicate, List.length_map]
  refine ⟨hg'.len.symm, ?_⟩
  intro i a b ha hb
  rw [List.getElem?_replicate] at ha
  split at ha
  · rename_i hi
    simp only [Option.some.injEq] at ha
    subst ha
    have hi' : i < g'.length := by rw [hg'.len]; exact hi
    have hi0 : i < e.active.length := by rw [hg.len]; exact hi
    rw [List.getElem?_map, List.getElem?_eq_getElem hi'] at hb
    simp only [Option.map_some, Option.some.injEq] at hb
    subst hb
    refine row_allblank (row := e.active[i]) e.bg cols (hg'.rowLen _ (List.getElem_mem hi')) ?_
    intro j hj
    rw [← cellAt_of_row (List.getElem?_eq_getElem hi') j, ← cellAt_of_row (List.getElem?_eq_getElem hi0) j,
      hc i j, if_pos (by omega)]
  · cases ha

theorem decset_1049 (e : Emu) : decset Fixes.current e [(1049, [])] =
    (ed { decsc e with altActive := true } 2 >>= fun e1 =>
      .ok { e1 with mode := { e1.mode with smcup := true, altScroll := true } }) := by
  have hl : lookupMode VaxisModel.Gen.TermModes.decsetTable 1049 = none := by decide
  unfold decset
  simp only [List.foldlM_cons, List.foldlM_nil]
  unfold decsetOne
  have h7 : ¬ ((1049 : Int) = 7) := by decide
  have hf : Fixes.current.f106c = true := rfl
  simp only [hl, h7, hf, if_true, if_false, bind_pure]

/-- The emulator after `CSI ? 1049 h` from the primary screen; `g'` is the cleared alternate grid. -/
def altOnState (e : Emu) (g' : Grid) : Emu :=
  { e with savedP := eSlot e, altActive := true, lastCol := false, alt := g',
           mode := { e.mode with smcup := true, altScroll := true } }

theorem prim_of_sim {t : Term.T} {e : Emu} {rows cols : Nat} (s : Sim t e rows cols)
    (ha : e.altActive = false) : Term.gridAccepts t.primary (e.primary.map absRow) = true := by
  have hon : t.onAlt = false := by rw [s.onAlt, ha]
  have := s.grid
  unfold Term.T.grid Emu.active at this
  simpa only [hon, ha, Bool.false_eq_true, if_false] using this

/-- Entering the alternate screen: cursor saved in the primary slot, the alternate grid replaced by
    one the reference's (blank) alternate grid accepts. -/
theorem altOn_sim2 {t : Term.T} {e : Emu} {rows cols : Nat} (s2 : Sim2 t e rows cols)
    (ha : e.altActive = false) (g' : Grid) (hg' : GridOk g' rows cols) (tg : Term.TGrid)
    (hacc : Term.gridAccepts tg (g'.map absRow) = true) :
    Sim2 { t with savedP := some (tSlot t), onAlt := true, alt := tg } (altOnState e g') rows cols :=
  have s := s2.sim
  { sim :=
    { inv := { s.inv with alt := hg', savedP := eSlot_ok s.inv }
      dim := s.dim, vm := ⟨s.vm.awm, s.vm.irm, s.vm.lnm, s.vm.ascii, s.vm.noShift⟩
      trows := s.trows, tcols := s.tcols, onAlt := rfl
      row := s.row, col := s.col, pw := s.pw
      pen := s.pen, link := s.link, top := s.top, bottom := s.bottom
      grid := hacc }
    lc := by intro h; simp [altOnState] at h
    savedP := savedRel_slot s
    savedA := s2.savedA
    smcup := rfl
    prim := fun _ => (prim_of_sim s ha :) }

end SavedAux

theorem alton_refines2 {t : Term.T} {e : Emu} {rows cols : Nat} (s2 : Sim2 t e rows cols) :
    ∃ e', decset Fixes.current e [(1049, [])] = .ok e' ∧ Refines2 (Term.step t .altOn) e' rows cols := by
  have s := s2.sim
  cases ha : e.altActive with
  | true =>
    obtain ⟨e', he', _⟩ := decset_safe s.inv s.dim [(1049, [])]
    refine ⟨e', he', ?_⟩
    have hon : t.onAlt = true := by rw [s.onAlt, ha]
    simp only [Term.step, hon, if_true]
    trivial
  | false =>
    have hsm : e.mode.smcup = false := by rw [s2.smcup, ha]
    have hon : t.onAlt = false := by rw [s.onAlt, ha]
    have hinv1 : EmuInv { decsc e with altActive := true } rows cols := { decsc_inv3 s.inv with }
    obtain ⟨g', e1, hg', hacc⟩ := ed2_spec hinv1 s.dim
    have hbg : absCol (Emu.bg { decsc e with altActive := true }) = t.pen.bg := by
      rw [s.pen, decsc_prim hsm]; rfl
    rw [hbg] at hacc
    refine ⟨altOnState e g', ?_, ?_⟩
    · rw [decset_1049, e1, decsc_prim hsm]; rfl
    · simp only [Term.step, hon, Bool.false_eq_true, if_false, save_prim hon]
      by_cases hd : t.pen.bg = .default
      · refine ⟨_, List.mem_append_left _ (List.mem_singleton.mpr rfl), ?_⟩
        refine altOn_sim2 s2 ha g' hg' _ ?_
        rw [s.trows, s.tcols, ← hd]; exact hacc
      · rw [if_neg hd]
        refine ⟨_, List.mem_append_right _ (List.mem_singleton.mpr rfl), ?_⟩
        refine altOn_sim2 s2 ha g' hg' _ ?_
        rw [s.trows, s.tcols]; exact hacc

/-! ### ?1049 l -/

namespace SavedAux

theorem decrst_1049 (e : Emu) : decrst e [(1049, [])] =
    ((if e.mode.smcup then ed e 2 else .ok e) >>= fun e1 =>
      .ok (decrc { e1 with altActive := false,
                           mode := { e1.mode with smcup := false, altScroll := false } })) := by
  have hl : lookupMode VaxisModel.Gen.TermModes.decrstTable 1049 = none := by decide
  unfold decrst
  simp only [List.foldlM_cons, List.foldlM_nil]
  unfold decrstOne
  have h7 : ¬ ((1049 : Int) = 7) := by decide
  simp only [hl, h7, if_true, if_false, bind_pure]
  split <;> rfl

/-- The emulator after `CSI ? 1049 l` from the alternate screen, before the cursor is restored;
    `g'` is the cleared alternate grid. -/
def altOffState (e : Emu) (g' : Grid) : Emu :=
  { e with lastCol := false, alt := g', altActive := false,
           mode := { e.mode with smcup := false, altScroll := false } }

/-- Leaving the alternate screen: the primary grid is what the reference remembers. -/
theorem altOff_sim {t : Term.T} {e : Emu} {rows cols : Nat} (s2 : Sim2 t e rows cols)
    (ha : e.altActive = true) (g' : Grid) (hg' : GridOk g' rows cols) :
    Sim { t with onAlt := false } (altOffState e g') rows cols :=
  have s := s2.sim
  { inv := { s.inv with alt := hg' }
    dim := s.dim, vm := ⟨s.vm.awm, s.vm.irm, s.vm.lnm, s.vm.ascii, s.vm.noShift⟩
    trows := s.trows, tcols := s.tcols, onAlt := rfl
    row := s.row, col := s.col, pw := s.pw
    pen := s.pen, link := s.link, top := s.top, bottom := s.bottom
    grid := (s2.prim ha :) }

end SavedAux

theorem altoff_refines2 {t : Term.T} {e : Emu} {rows cols : Nat} (s2 : Sim2 t e rows cols) :
    ∃ e', decrst e [(1049, [])] = .ok e' ∧ Refines2 (Term.step t .altOff) e' rows cols := by
  have s := s2.sim
  cases ha : e.altActive with
  | false =>
    obtain ⟨e', he', _⟩ := decrst_safe s.inv s.dim [(1049, [])]
    refine ⟨e', he', ?_⟩
    have hon : t.onAlt = false := by rw [s.onAlt, ha]
    simp only [Term.step, hon, Bool.not_false, if_true]
    trivial
  | true =>
    have hsm : e.mode.smcup = true := by rw [s2.smcup, ha]
    have hon : t.onAlt = true := by rw [s.onAlt, ha]
    obtain ⟨g', e1, hg', _⟩ := ed2_spec s.inv s.dim
    have hs0 := altOff_sim s2 ha g' hg'
    obtain ⟨t', hmem, hsim, hsame⟩ := restore_sim hs0 t.savedP e.savedP s.inv.savedP s2.savedP
    refine ⟨restoreFrom (altOffState e g') e.savedP, ?_, ?_⟩
    · rw [decrst_1049, hsm, if_pos rfl, e1]
      show Except.ok (decrc _) = _
      rw [decrc_eq]
      unfold Emu.setActive
      simp only [ha, if_true]
      rfl
    · simp only [Term.step, hon, Bool.not_true, Bool.false_eq_true, if_false]
      refine ⟨t', hmem, ?_⟩
      exact
      { sim := hsim
        lc := lastColOk_restore _ _ _
        savedP := by rw [hsame.savedP]; exact s2.savedP
        savedA := by rw [hsame.savedA]; exact s2.savedA
        smcup := rfl
        prim := fun h => by simp [restoreFrom, altOffState] at h }

end VaxisModel.Lemmas.EmuRefine
