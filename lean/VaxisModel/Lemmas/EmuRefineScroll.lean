/-
C06 refinement, part 3: the scrolling operations (SU, SD, IND, LF, NEL, RI, IL, DL).

The core is a FUNCTIONAL characterisation of the emulator's in-place scroll loops (`scrollUp`,
`scrollDown`, the loops of `il` and `dl`): row `j` of the grid they compute, as a function of the
grid they started from (`upRow` / `downRow`). The loops alias source and destination (they copy
rows inside one grid); the indexed loop rules (`forUp_idx`, `forDown_idx`) carry an invariant of the
form "rows already visited are final, the others still hold the original content".
The reference's `scrollRegionUp` / `scrollRegionDown` (take/drop/replicate) are characterised
row-wise as well (`scrollRegionUp_get`, `scrollRegionDown_get`) and the two are compared row by row.
-/
import VaxisModel.Lemmas.EmuRefine
import VaxisModel.Lemmas.EmuSafe1
import VaxisModel.Lemmas.EmuSafe3

namespace VaxisModel.Lemmas.EmuRefine
open VaxisModel.Model.Emu VaxisModel.Model.EmuAbs VaxisModel.Lemmas.Emu VaxisModel.Spec

/-- the parameter as csi() hands it to the handler -/
def cpS (n : Nat) : Int := clampParam (n : Int)

theorem cpS_eq (n : Nat) : cpS n = if n > 65535 then 65535 else (n : Int) := by
  unfold cpS clampParam maxParam
  split <;> split <;> omega

theorem cpS_ok (n : Nat) : POk (cpS n) := by
  rw [cpS_eq]; unfold POk; split <;> omega

/-! ### loop rules with an invariant that mentions the index -/

theorem forUpGo_idx {σ : Type} (P : Int → σ → Prop) (body : Int → σ → M σ) :
    ∀ (n : Nat) (i0 : Int) (s : σ), P i0 s →
      (∀ i s, i0 ≤ i → i < i0 + n → P i s → ∃ s', body i s = .ok s' ∧ P (i + 1) s') →
      ∃ s', forUpGo body n i0 s = .ok s' ∧ P (i0 + n) s' := by
  intro n
  induction n with
  | zero => intro i0 s hs _; exact ⟨s, rfl, by simpa using hs⟩
  | succ n ih =>
    intro i0 s hs hb
    obtain ⟨s1, h1, hp1⟩ := hb i0 s (by omega) (by omega) hs
    obtain ⟨s2, h2, hp2⟩ := ih (i0 + 1) s1 hp1 (fun i s hi1 hi2 hp => hb i s (by omega) (by omega) hp)
    refine ⟨s2, by simp only [forUpGo, h1, bind, Except.bind, h2], ?_⟩
    have : i0 + ((n + 1 : Nat) : Int) = i0 + 1 + (n : Int) := by omega
    rw [this]; exact hp2

/-- `for i := lo; i <= hi; i++`: from `P lo` to `P (hi+1)`. -/
theorem forUp_idx {σ : Type} (P : Int → σ → Prop) (body : Int → σ → M σ) (lo hi : Int) (s : σ)
    (hlo : lo ≤ hi + 1) (hn : hi + 1 - lo ≤ (hangLimit : Int)) (hs : P lo s)
    (hb : ∀ i s, lo ≤ i → i ≤ hi → P i s → ∃ s', body i s = .ok s' ∧ P (i + 1) s') :
    ∃ s', forUp lo hi body s = .ok s' ∧ P (hi + 1) s' := by
  unfold forUp
  have hle : (hi + 1 - lo).toNat ≤ hangLimit := by omega
  simp only [hle, if_true]
  obtain ⟨s', h1, h2⟩ := forUpGo_idx P body (hi + 1 - lo).toNat lo s hs
    (fun i s h1 h2 hp => hb i s h1 (by omega) hp)
  refine ⟨s', h1, ?_⟩
  have : lo + ((hi + 1 - lo).toNat : Int) = hi + 1 := by omega
  rw [← this]; exact h2

theorem forDownGo_idx {σ : Type} (P : Int → σ → Prop) (body : Int → σ → M σ) :
    ∀ (n : Nat) (i0 : Int) (s : σ), P i0 s →
      (∀ i s, i ≤ i0 → i0 - n < i → P i s → ∃ s', body i s = .ok s' ∧ P (i - 1) s') →
      ∃ s', forDownGo body n i0 s = .ok s' ∧ P (i0 - n) s' := by
  intro n
  induction n with
  | zero => intro i0 s hs _; exact ⟨s, rfl, by simpa using hs⟩
  | succ n ih =>
    intro i0 s hs hb
    obtain ⟨s1, h1, hp1⟩ := hb i0 s (by omega) (by omega) hs
    obtain ⟨s2, h2, hp2⟩ := ih (i0 - 1) s1 hp1 (fun i s hi1 hi2 hp => hb i s (by omega) (by omega) hp)
    refine ⟨s2, by simp only [forDownGo, h1, bind, Except.bind, h2], ?_⟩
    have : i0 - ((n + 1 : Nat) : Int) = i0 - 1 - (n : Int) := by omega
    rw [this]; exact hp2

/-- `for i := hi; i >= lo; i--`: from `P hi` to `P (lo-1)`. -/
theorem forDown_idx {σ : Type} (P : Int → σ → Prop) (body : Int → σ → M σ) (hi lo : Int) (s : σ)
    (hlo : lo ≤ hi + 1) (hn : hi + 1 - lo ≤ (hangLimit : Int)) (hs : P hi s)
    (hb : ∀ i s, lo ≤ i → i ≤ hi → P i s → ∃ s', body i s = .ok s' ∧ P (i - 1) s') :
    ∃ s', forDown hi lo body s = .ok s' ∧ P (lo - 1) s' := by
  unfold forDown
  have hle : (hi + 1 - lo).toNat ≤ hangLimit := by omega
  simp only [hle, if_true]
  obtain ⟨s', h1, h2⟩ := forDownGo_idx P body (hi + 1 - lo).toNat hi s hs
    (fun i s h1 h2 hp => hb i s (by omega) h1 hp)
  refine ⟨s', h1, ?_⟩
  have : hi - ((hi + 1 - lo).toNat : Int) = lo - 1 := by omega
  rw [← this]; exact h2

/-! ### one step of the loops, functionally -/

/-- every cell of a row erased -/
def eraseRow (bg : Nat) (r : Row) : Row := r.map (·.erase bg)

theorem gridOk_get {g : Grid} {rows cols : Nat} (h : GridOk g rows cols) {j : Nat} (hj : j < rows) :
    ∃ r, g[j]? = some r ∧ r.length = cols := by
  have hlt : j < g.length := by rw [h.len]; exact hj
  exact ⟨g[j], List.getElem?_eq_getElem hlt, h.rowLen _ (List.getElem_mem hlt)⟩

theorem getI_get {α : Type} (l : List α) (i : Int) (x : α) (h0 : 0 ≤ i) (h : l[i.toNat]? = some x) :
    getI l i = .ok x := by
  unfold getI; simp [h0, h]

/-- `copy(g[d], g[s])` on a well-formed grid replaces row `d` by row `s`. -/
theorem copy_step {g : Grid} {rows cols : Nat} (h : GridOk g rows cols) (d s : Int)
    (hd0 : 0 ≤ d) (hd1 : d < rows) (hs0 : 0 ≤ s) (hs1 : s < rows) :
    ∃ g', copyRow g d s = .ok g' ∧ GridOk g' rows cols ∧
      ∀ j : Nat, g'[j]? = if j = d.toNat then g[s.toNat]? else g[j]? := by
  obtain ⟨dr, hdr, hdl⟩ := gridOk_get h (j := d.toNat) (by omega)
  obtain ⟨sr, hsr, hsl⟩ := gridOk_get h (j := s.toNat) (by omega)
  have hset := setI_ok g d sr hd0 (by rw [h.len]; exact hd1)
  have hrow : sr.take dr.length ++ dr.drop sr.length = sr := by
    rw [hdl, ← hsl, List.take_length, hsl, ← hdl, List.drop_length, List.append_nil]
  refine ⟨g.set d.toNat sr, ?_, gridOk_set h _ _ hsl, ?_⟩
  · unfold copyRow
    simp only [getI_get g d dr hd0 hdr, getI_get g s sr hs0 hsr, bind, Except.bind, hset, hrow]
  · intro j
    have hlt : d.toNat < g.length := by rw [h.len]; omega
    rw [List.getElem?_set, hsr]
    by_cases hj : j = d.toNat
    · subst hj; simp [hlt]
    · have : ¬ d.toNat = j := fun h => hj h.symm
      simp [this, hj]

/-- `modCell` on a well-formed grid, functionally. -/
theorem modCell_step {g : Grid} {rows cols : Nat} (h : GridOk g rows cols) (r c : Int) (f : ECell → ECell)
    (hr0 : 0 ≤ r) (hr1 : r < rows) (hc0 : 0 ≤ c) (hc1 : c < cols) :
    modCell g r c f = .ok (g.modify r.toNat (fun row => row.modify c.toNat f)) := by
  obtain ⟨row, hrow, hlen⟩ := gridOk_get h (j := r.toNat) (by omega)
  have hclt : c.toNat < row.length := by omega
  have hx : row[c.toNat]? = some row[c.toNat] := List.getElem?_eq_getElem hclt
  have hs := setI_ok row c (f row[c.toNat]) hc0 (by omega)
  have hs2 := setI_ok g r (row.set c.toNat (f row[c.toNat])) hr0 (by rw [h.len]; exact hr1)
  unfold modCell
  simp only [getI_get g r row hr0 hrow, getI_get row c _ hc0 hx, hs, hs2, bind, Except.bind]
  congr 1
  apply List.ext_getElem?
  intro j
  rw [List.getElem?_set, List.getElem?_modify]
  by_cases hj : r.toNat = j
  · subst hj
    have hlt : r.toNat < g.length := by rw [h.len]; omega
    simp only [hlt, if_true, hrow, Option.map_eq_map, Option.map_some]
    congr 1
    apply List.ext_getElem?
    intro k
    rw [List.getElem?_set, List.getElem?_modify]
    by_cases hk : c.toNat = k
    · subst hk; simp [hclt]
    · simp [hk]
  · simp [hj]

/-- `eraseCols` over the whole width erases the row. -/
theorem erase_step {g : Grid} {rows cols : Nat} (h : GridOk g rows cols) (r : Int) (bg : Nat)
    (hr0 : 0 ≤ r) (hr1 : r < rows) (hc : cols ≤ 65535) :
    ∃ g', eraseCols g r 0 ((cols : Int) - 1) bg = .ok g' ∧ GridOk g' rows cols ∧
      ∀ j : Nat, g'[j]? = if j = r.toNat then (g[r.toNat]?).map (eraseRow bg) else g[j]? := by
  obtain ⟨row, hrow, hlen⟩ := gridOk_get h (j := r.toNat) (by omega)
  unfold eraseCols
  obtain ⟨g', hg', hok, hrest, hr⟩ := forUp_idx
    (fun (c : Int) (g' : Grid) => GridOk g' rows cols ∧ (∀ j : Nat, j ≠ r.toNat → g'[j]? = g[j]?) ∧
      ∃ row', g'[r.toNat]? = some row' ∧
        ∀ k : Nat, row'[k]? = if (k : Int) < c then (row[k]?).map (·.erase bg) else row[k]?)
    (fun c g => modCell g r c (·.erase bg)) 0 ((cols : Int) - 1) g (by omega)
    (by rw [hangLimit_val]; omega)
    ⟨h, fun _ _ => rfl, row, hrow, fun k => by simp; omega⟩
    (by
      intro c g1 hc0 hc1 ⟨hg1, hrest1, row1, hrow1, hcells⟩
      refine ⟨_, modCell_step hg1 r c _ hr0 hr1 hc0 (by omega), ?_, ?_, ?_⟩
      · obtain ⟨g2, h2, hok2⟩ := modCell_ok hg1 r c (·.erase bg) hr0 hr1 hc0 (by omega)
        rw [modCell_step hg1 r c _ hr0 hr1 hc0 (by omega)] at h2
        cases h2; exact hok2
      · intro j hj
        rw [List.getElem?_modify]
        have : ¬ r.toNat = j := fun h => hj h.symm
        simp only [this, if_false]
        rw [hrest1 j hj]; simp
      · refine ⟨row1.modify c.toNat (·.erase bg), ?_, ?_⟩
        · rw [List.getElem?_modify, hrow1]; simp
        · intro k
          rw [List.getElem?_modify, hcells k]
          by_cases hk : c.toNat = k
          · subst hk
            have h1 : ¬ ((c.toNat : Int) < c) := by omega
            have h2 : ((c.toNat : Int) < c + 1) := by omega
            simp only [h1, h2, if_true, if_false]
            cases row[c.toNat]? <;> simp
          · have h3 : ((k : Int) < c + 1) ↔ ((k : Int) < c) := by omega
            simp only [hk, h3, if_false]
            cases (if (k : Int) < c then Option.map (fun x => x.erase bg) row[k]? else row[k]?) <;> simp)
  obtain ⟨row', hrow', hcells⟩ := hr
  have hrow'' : row' = eraseRow bg row := by
    apply List.ext_getElem?
    intro k
    rw [hcells k]
    unfold eraseRow
    rw [List.getElem?_map]
    split
    · rfl
    · rename_i hk
      have : row.length ≤ k := by omega
      rw [List.getElem?_eq_none this]; rfl
  refine ⟨g', hg', hok, ?_⟩
  intro j
  by_cases hj : j = r.toNat
  · subst hj; simp only [if_true, hrow', hrow, hrow'', Option.map_some]
  · simp only [hj, if_false]; exact hrest j hj

/-! ### the scroll loops, functionally -/

/-- Row `j` after scrolling rows `top..bottom` of `g` up by `n` (what the loops of `scrollUp` and
    `dl` compute): rows outside the region are kept, row `j` of the region is the old row `j+n` if
    that is inside the region, else the old row `j` with every cell erased. -/
def upRow (g : Grid) (top bottom n : Int) (bg : Nat) (j : Nat) : Option Row :=
  if top ≤ (j : Int) ∧ (j : Int) ≤ bottom then
    if (j : Int) + n ≤ bottom then g[((j : Int) + n).toNat]? else (g[j]?).map (eraseRow bg)
  else g[j]?

/-- Row `j` after scrolling rows `top..bottom` of `g` down by `n` (`scrollDown`, `il`). -/
def downRow (g : Grid) (top bottom n : Int) (bg : Nat) (j : Nat) : Option Row :=
  if top ≤ (j : Int) ∧ (j : Int) ≤ bottom then
    if top + n ≤ (j : Int) then g[((j : Int) - n).toNat]? else (g[j]?).map (eraseRow bg)
  else g[j]?

/-- upward loop: rows `< i` are final (`F`), rows `≥ i` still hold the original content -/
theorem up_inv_step {g g1 g2 : Grid} {F : Nat → Option Row} (i : Int) (hi : 0 ≤ i) (X : Option Row)
    (hP : ∀ j : Nat, g1[j]? = if (j : Int) < i then F j else g[j]?)
    (h2 : ∀ j : Nat, g2[j]? = if j = i.toNat then X else g1[j]?)
    (hX : X = F i.toNat) :
    ∀ j : Nat, g2[j]? = if (j : Int) < i + 1 then F j else g[j]? := by
  intro j
  rw [h2, hP]
  by_cases hj : j = i.toNat
  · subst hj
    have : ((i.toNat : Nat) : Int) < i + 1 := by omega
    rw [if_pos rfl, if_pos this, hX]
  · have : (j : Int) < i + 1 ↔ (j : Int) < i := by omega
    simp [hj, this]

/-- downward loop: rows `> i` are final, rows `≤ i` still hold the original content -/
theorem down_inv_step {g g1 g2 : Grid} {F : Nat → Option Row} (i : Int) (hi : 0 ≤ i) (X : Option Row)
    (hP : ∀ j : Nat, g1[j]? = if i < (j : Int) then F j else g[j]?)
    (h2 : ∀ j : Nat, g2[j]? = if j = i.toNat then X else g1[j]?)
    (hX : X = F i.toNat) :
    ∀ j : Nat, g2[j]? = if i - 1 < (j : Int) then F j else g[j]? := by
  intro j
  rw [h2, hP]
  by_cases hj : j = i.toNat
  · subst hj
    have : i - 1 < ((i.toNat : Nat) : Int) := by omega
    rw [if_pos rfl, if_pos this, hX]
  · have : i - 1 < (j : Int) ↔ i < (j : Int) := by omega
    simp [hj, this]

theorem self_step {g1 : Grid} (k : Nat) : ∀ j : Nat, g1[j]? = if j = k then g1[k]? else g1[j]? := by
  intro j; split
  · rename_i h; rw [h]
  · rfl

/-- The loop of `scrollUp` (margins inside the screen, full-width erase). -/
theorem scrollUpLoop_spec {g : Grid} {rows cols : Nat} (h : GridOk g rows cols) (hr : rows ≤ 65535)
    (hc : cols ≤ 65535) (top bottom n : Int) (bg : Nat) (_ : 0 ≤ top) (hb : bottom < rows) (hn : 0 ≤ n) :
    ∃ g', forUp 0 ((rows : Int) - 1) (fun row g =>
        if row > bottom then .ok g
        else if row < top then .ok g
        else if row + n > bottom then eraseCols g row 0 ((cols : Int) - 1) bg
        else copyRow g row (row + n)) g = .ok g' ∧ GridOk g' rows cols ∧
      ∀ j : Nat, g'[j]? = upRow g top bottom n bg j := by
  obtain ⟨g', hg', hok, hrows⟩ := forUp_idx
    (fun (i : Int) (g' : Grid) => GridOk g' rows cols ∧
      ∀ j : Nat, g'[j]? = if (j : Int) < i then upRow g top bottom n bg j else g[j]?)
    (fun row g =>
        if row > bottom then .ok g
        else if row < top then .ok g
        else if row + n > bottom then eraseCols g row 0 ((cols : Int) - 1) bg
        else copyRow g row (row + n)) 0 ((rows : Int) - 1) g (by omega) (by rw [hangLimit_val]; omega)
    ⟨h, fun j => by have : ¬ ((j : Int) < 0) := by omega
                    simp [this]⟩
    (by
      intro i g1 hi0 hi1 ⟨hg1, hP⟩
      have hgi : g1[i.toNat]? = g[i.toNat]? := by
        rw [hP]; have : ¬ ((i.toNat : Int) < i) := by omega
        rw [if_neg this]
      split
      · rename_i hcase
        refine ⟨g1, rfl, hg1, up_inv_step i hi0 _ hP (self_step _) ?_⟩
        rw [hgi]; unfold upRow
        have : ¬ (top ≤ ((i.toNat : Nat) : Int) ∧ ((i.toNat : Nat) : Int) ≤ bottom) := by omega
        rw [if_neg this]
      · split
        · rename_i hcase
          refine ⟨g1, rfl, hg1, up_inv_step i hi0 _ hP (self_step _) ?_⟩
          rw [hgi]; unfold upRow
          have : ¬ (top ≤ ((i.toNat : Nat) : Int) ∧ ((i.toNat : Nat) : Int) ≤ bottom) := by omega
          rw [if_neg this]
        · split
          · rename_i hc1 hc2 hc3
            obtain ⟨g2, h2, hok2, hrow2⟩ := erase_step hg1 i bg hi0 (by omega) hc
            refine ⟨g2, h2, hok2, up_inv_step i hi0 _ hP hrow2 ?_⟩
            rw [hgi]; unfold upRow
            have h1 : (top ≤ ((i.toNat : Nat) : Int) ∧ ((i.toNat : Nat) : Int) ≤ bottom) := by omega
            have h3 : ¬ (((i.toNat : Nat) : Int) + n ≤ bottom) := by omega
            rw [if_pos h1, if_neg h3]
          · rename_i hc1 hc2 hc3
            obtain ⟨g2, h2, hok2, hrow2⟩ := copy_step hg1 i (i + n) hi0 (by omega) (by omega) (by omega)
            refine ⟨g2, h2, hok2, up_inv_step i hi0 _ hP hrow2 ?_⟩
            rw [hP]; unfold upRow
            have h0 : ¬ (((i + n).toNat : Nat) : Int) < i := by omega
            have h1 : (top ≤ ((i.toNat : Nat) : Int) ∧ ((i.toNat : Nat) : Int) ≤ bottom) := by omega
            have h3 : (((i.toNat : Nat) : Int) + n ≤ bottom) := by omega
            have h4 : ((i.toNat : Nat) : Int) = i := by omega
            rw [if_neg h0, if_pos h1, if_pos h3, h4])
  refine ⟨g', hg', hok, ?_⟩
  intro j
  rw [hrows]
  split
  · rfl
  · rename_i hj
    unfold upRow
    have : ¬ (top ≤ (j : Int) ∧ (j : Int) ≤ bottom) := by omega
    simp [this]

/-- The loop of `dl` (the scrolled region starts at `top`, the cursor row). -/
theorem dlLoop_spec {g : Grid} {rows cols : Nat} (h : GridOk g rows cols) (hr : rows ≤ 65535)
    (hc : cols ≤ 65535) (top bottom n : Int) (bg : Nat) (ht : 0 ≤ top) (htb : top ≤ bottom + 1)
    (hb : bottom < rows) (hn : 0 ≤ n) :
    ∃ g', forUp top bottom (fun r g =>
        if r ≤ bottom - n then copyRow g r (r + n)
        else eraseCols g r 0 ((cols : Int) - 1) bg) g = .ok g' ∧ GridOk g' rows cols ∧
      ∀ j : Nat, g'[j]? = upRow g top bottom n bg j := by
  obtain ⟨g', hg', hok, hrows⟩ := forUp_idx
    (fun (i : Int) (g' : Grid) => GridOk g' rows cols ∧
      ∀ j : Nat, g'[j]? = if (j : Int) < i then upRow g top bottom n bg j else g[j]?)
    (fun r g =>
        if r ≤ bottom - n then copyRow g r (r + n)
        else eraseCols g r 0 ((cols : Int) - 1) bg) top bottom g htb (by rw [hangLimit_val]; omega)
    ⟨h, fun j => by
      split
      · rename_i hj
        unfold upRow
        have : ¬ (top ≤ (j : Int) ∧ (j : Int) ≤ bottom) := by omega
        rw [if_neg this]
      · rfl⟩
    (by
      intro i g1 hi0 hi1 ⟨hg1, hP⟩
      have hi : 0 ≤ i := by omega
      have hgi : g1[i.toNat]? = g[i.toNat]? := by
        rw [hP]; have : ¬ ((i.toNat : Int) < i) := by omega
        rw [if_neg this]
      have h1 : (top ≤ ((i.toNat : Nat) : Int) ∧ ((i.toNat : Nat) : Int) ≤ bottom) := by omega
      split
      · rename_i hc3
        obtain ⟨g2, h2, hok2, hrow2⟩ := copy_step hg1 i (i + n) hi (by omega) (by omega) (by omega)
        refine ⟨g2, h2, hok2, up_inv_step i hi _ hP hrow2 ?_⟩
        rw [hP]; unfold upRow
        have h0 : ¬ (((i + n).toNat : Nat) : Int) < i := by omega
        have h3 : (((i.toNat : Nat) : Int) + n ≤ bottom) := by omega
        have h4 : ((i.toNat : Nat) : Int) = i := by omega
        rw [if_neg h0, if_pos h1, if_pos h3, h4]
      · rename_i hc3
        obtain ⟨g2, h2, hok2, hrow2⟩ := erase_step hg1 i bg hi (by omega) hc
        refine ⟨g2, h2, hok2, up_inv_step i hi _ hP hrow2 ?_⟩
        rw [hgi]; unfold upRow
        have h3 : ¬ (((i.toNat : Nat) : Int) + n ≤ bottom) := by omega
        rw [if_pos h1, if_neg h3])
  refine ⟨g', hg', hok, ?_⟩
  intro j
  rw [hrows]
  split
  · rfl
  · rename_i hj
    unfold upRow
    have : ¬ (top ≤ (j : Int) ∧ (j : Int) ≤ bottom) := by omega
    rw [if_neg this]

/-- The loop of `scrollDown`. -/
theorem scrollDownLoop_spec {g : Grid} {rows cols : Nat} (h : GridOk g rows cols) (hr : rows ≤ 65535)
    (hc : cols ≤ 65535) (top bottom n : Int) (bg : Nat) (ht : 0 ≤ top) (htb : top ≤ bottom + 1)
    (hb : bottom < rows) (hn : 0 ≤ n) :
    ∃ g', forDown bottom top (fun r g =>
        if r - n < top then eraseCols g r 0 ((cols : Int) - 1) bg
        else copyRow g r (r - n)) g = .ok g' ∧ GridOk g' rows cols ∧
      ∀ j : Nat, g'[j]? = downRow g top bottom n bg j := by
  obtain ⟨g', hg', hok, hrows⟩ := forDown_idx
    (fun (i : Int) (g' : Grid) => GridOk g' rows cols ∧
      ∀ j : Nat, g'[j]? = if i < (j : Int) then downRow g top bottom n bg j else g[j]?)
    (fun r g =>
        if r - n < top then eraseCols g r 0 ((cols : Int) - 1) bg
        else copyRow g r (r - n)) bottom top g htb (by rw [hangLimit_val]; omega)
    ⟨h, fun j => by
      split
      · rename_i hj
        unfold downRow
        have : ¬ (top ≤ (j : Int) ∧ (j : Int) ≤ bottom) := by omega
        rw [if_neg this]
      · rfl⟩
    (by
      intro i g1 hi0 hi1 ⟨hg1, hP⟩
      have hi : 0 ≤ i := by omega
      have hgi : g1[i.toNat]? = g[i.toNat]? := by
        rw [hP]; have : ¬ (i < (i.toNat : Int)) := by omega
        rw [if_neg this]
      have h1 : (top ≤ ((i.toNat : Nat) : Int) ∧ ((i.toNat : Nat) : Int) ≤ bottom) := by omega
      split
      · rename_i hc3
        obtain ⟨g2, h2, hok2, hrow2⟩ := erase_step hg1 i bg hi (by omega) hc
        refine ⟨g2, h2, hok2, down_inv_step i hi _ hP hrow2 ?_⟩
        rw [hgi]; unfold downRow
        have h3 : ¬ (top + n ≤ ((i.toNat : Nat) : Int)) := by omega
        rw [if_pos h1, if_neg h3]
      · rename_i hc3
        obtain ⟨g2, h2, hok2, hrow2⟩ := copy_step hg1 i (i - n) hi (by omega) (by omega) (by omega)
        refine ⟨g2, h2, hok2, down_inv_step i hi _ hP hrow2 ?_⟩
        rw [hP]; unfold downRow
        have h0 : ¬ i < (((i - n).toNat : Nat) : Int) := by omega
        have h3 : (top + n ≤ ((i.toNat : Nat) : Int)) := by omega
        have h4 : ((i.toNat : Nat) : Int) = i := by omega
        rw [if_neg h0, if_pos h1, if_pos h3, h4])
  refine ⟨g', hg', hok, ?_⟩
  intro j
  rw [hrows]
  split
  · rfl
  · rename_i hj
    unfold downRow
    have : ¬ (top ≤ (j : Int) ∧ (j : Int) ≤ bottom) := by omega
    rw [if_neg this]

/-- The two loops of `il`: shift down from the bottom margin, then erase the vacated rows. -/
theorem ilLoop_spec {g : Grid} {rows cols : Nat} (h : GridOk g rows cols) (hr : rows ≤ 65535)
    (hc : cols ≤ 65535) (top bottom n : Int) (bg : Nat) (ht : 0 ≤ top)
    (hb : bottom < rows) (hn : 0 ≤ n) (hnb : top + n ≤ bottom + 1) :
    ∃ g1 g', forDown bottom (top + n) (fun r g => copyRow g r (r - n)) g = .ok g1 ∧
      forUp 0 (n - 1) (fun r g => eraseCols g (top + r) 0 ((cols : Int) - 1) bg) g1 = .ok g' ∧
      GridOk g' rows cols ∧ ∀ j : Nat, g'[j]? = downRow g top bottom n bg j := by
  obtain ⟨g1, hg1, hok1, hrows1⟩ := forDown_idx
    (fun (i : Int) (g' : Grid) => GridOk g' rows cols ∧
      ∀ j : Nat, g'[j]? = if i < (j : Int) then downRow g top bottom n bg j else g[j]?)
    (fun r g => copyRow g r (r - n)) bottom (top + n) g hnb (by rw [hangLimit_val]; omega)
    ⟨h, fun j => by
      split
      · rename_i hj
        unfold downRow
        have : ¬ (top ≤ (j : Int) ∧ (j : Int) ≤ bottom) := by omega
        rw [if_neg this]
      · rfl⟩
    (by
      intro i g1 hi0 hi1 ⟨hg1, hP⟩
      have hi : 0 ≤ i := by omega
      have h1 : (top ≤ ((i.toNat : Nat) : Int) ∧ ((i.toNat : Nat) : Int) ≤ bottom) := by omega
      obtain ⟨g2, h2, hok2, hrow2⟩ := copy_step hg1 i (i - n) hi (by omega) (by omega) (by omega)
      refine ⟨g2, h2, hok2, down_inv_step i hi _ hP hrow2 ?_⟩
      rw [hP]; unfold downRow
      have h0 : ¬ i < (((i - n).toNat : Nat) : Int) := by omega
      have h3 : (top + n ≤ ((i.toNat : Nat) : Int)) := by omega
      have h4 : ((i.toNat : Nat) : Int) = i := by omega
      rw [if_neg h0, if_pos h1, if_pos h3, h4])
  obtain ⟨g', hg', hok, hrows⟩ := forUp_idx
    (fun (r : Int) (g' : Grid) => GridOk g' rows cols ∧
      ∀ j : Nat, g'[j]? = if top + r ≤ (j : Int) ∧ (j : Int) < top + n then g[j]?
        else downRow g top bottom n bg j)
    (fun r g => eraseCols g (top + r) 0 ((cols : Int) - 1) bg) 0 (n - 1) g1 (by omega)
    (by rw [hangLimit_val]; omega)
    ⟨hok1, fun j => by
      rw [hrows1]
      by_cases hj : top + n - 1 < (j : Int)
      · have : ¬ (top + 0 ≤ (j : Int) ∧ (j : Int) < top + n) := by omega
        rw [if_pos hj, if_neg this]
      · rw [if_neg hj]
        split
        · rfl
        · rename_i hj2
          unfold downRow
          have : ¬ (top ≤ (j : Int) ∧ (j : Int) ≤ bottom) := by omega
          rw [if_neg this]⟩
    (by
      intro r g2 hr0 hr1 ⟨hg2, hQ⟩
      obtain ⟨g3, h3, hok3, hrow3⟩ := erase_step hg2 (top + r) bg (by omega) (by omega) hc
      refine ⟨g3, h3, hok3, ?_⟩
      intro j
      rw [hrow3]
      by_cases hj : j = (top + r).toNat
      · subst hj
        rw [if_pos rfl, hQ]
        have h1 : top + r ≤ (((top + r).toNat : Nat) : Int) ∧ (((top + r).toNat : Nat) : Int) < top + n := by omega
        have h2 : ¬ (top + (r + 1) ≤ (((top + r).toNat : Nat) : Int) ∧ (((top + r).toNat : Nat) : Int) < top + n) := by omega
        rw [if_pos h1, if_neg h2]
        unfold downRow
        have h4 : top ≤ (((top + r).toNat : Nat) : Int) ∧ (((top + r).toNat : Nat) : Int) ≤ bottom := by omega
        have h5 : ¬ (top + n ≤ (((top + r).toNat : Nat) : Int)) := by omega
        rw [if_pos h4, if_neg h5]
      · rw [if_neg hj, hQ]
        have : (top + (r + 1) ≤ (j : Int) ∧ (j : Int) < top + n) ↔ (top + r ≤ (j : Int) ∧ (j : Int) < top + n) := by omega
        simp only [this])
  refine ⟨g1, g', hg1, hg', hok, ?_⟩
  intro j
  rw [hrows]
  have : ¬ (top + (n - 1 + 1) ≤ (j : Int) ∧ (j : Int) < top + n) := by omega
  rw [if_neg this]

/-! ### the reference side, row-wise -/

theorem zipAll_get_iff {α β : Type} (p : α × β → Bool) : ∀ (l1 : List α) (l2 : List β),
    (l1.zip l2).all p = true ↔ ∀ (j : Nat) (a : α) (b : β), l1[j]? = some a → l2[j]? = some b → p (a, b) = true := by
  intro l1
  induction l1 with
  | nil => intro l2; simp
  | cons x xs ih =>
    intro l2
    cases l2 with
    | nil => simp
    | cons y ys =>
      simp only [List.zip_cons_cons, List.all_cons, Bool.and_eq_true, ih]
      constructor
      · intro ⟨h0, h⟩ j a b ha hb
        cases j with
        | zero => simp at ha hb; subst ha; subst hb; exact h0
        | succ j => simp at ha hb; exact h j a b ha hb
      · intro h
        exact ⟨h 0 x y rfl rfl, fun j a b ha hb => h (j + 1) a b (by simpa using ha) (by simpa using hb)⟩

theorem gridAccepts_get_iff (tg ag : Term.TGrid) : Term.gridAccepts tg ag = true ↔
    tg.length = ag.length ∧ ∀ (j : Nat) (tr ar : Term.TRow), tg[j]? = some tr → ag[j]? = some ar →
      Term.rowAccepts tr ar = true := by
  unfold Term.gridAccepts
  rw [Bool.and_eq_true, zipAll_get_iff, decide_eq_true_eq]

theorem scrollRegionUp_get (g : Term.TGrid) (rows top bottom k : Nat) (b : Term.TRow)
    (hl : g.length = rows) (htb : top ≤ bottom) (hb : bottom < rows) (j : Nat) :
    (Term.scrollRegionUp g top bottom k b)[j]? =
      if top ≤ j ∧ j ≤ bottom then (if j + k ≤ bottom then g[j + k]? else some b) else g[j]? := by
  unfold Term.scrollRegionUp
  simp only [List.getElem?_append, List.length_take, List.length_drop, List.length_append,
    List.length_replicate, List.getElem?_take, List.getElem?_drop, List.getElem?_replicate, hl]
  have h1 : min top rows = top := by omega
  have h2 : min (bottom + 1 - top) (rows - top) = bottom + 1 - top := by omega
  simp only [h1, h2]
  repeat' split
  all_goals first | rfl | (exfalso; omega) | (congr 1; omega)

theorem scrollRegionDown_get (g : Term.TGrid) (rows top bottom k : Nat) (b : Term.TRow)
    (hl : g.length = rows) (htb : top ≤ bottom) (hb : bottom < rows) (j : Nat) :
    (Term.scrollRegionDown g top bottom k b)[j]? =
      if top ≤ j ∧ j ≤ bottom then (if top + k ≤ j then g[j - k]? else some b) else g[j]? := by
  unfold Term.scrollRegionDown
  simp only [List.getElem?_append, List.length_take, List.length_drop, List.length_append,
    List.length_replicate, List.getElem?_take, List.getElem?_drop, List.getElem?_replicate, hl]
  have h1 : min top rows = top := by omega
  have h2 : min (bottom + 1 - top) (rows - top) = bottom + 1 - top := by omega
  simp only [h1, h2]
  repeat' split
  all_goals first | rfl | (exfalso; omega) | (congr 1; omega)

theorem scrollRegionUp_length (g : Term.TGrid) (rows top bottom k : Nat) (b : Term.TRow)
    (hl : g.length = rows) (htb : top ≤ bottom) (hb : bottom < rows) :
    (Term.scrollRegionUp g top bottom k b).length = rows := by
  unfold Term.scrollRegionUp
  simp only [List.length_take, List.length_drop, List.length_append, List.length_replicate, hl]
  omega

theorem scrollRegionDown_length (g : Term.TGrid) (rows top bottom k : Nat) (b : Term.TRow)
    (hl : g.length = rows) (htb : top ≤ bottom) (hb : bottom < rows) :
    (Term.scrollRegionDown g top bottom k b).length = rows := by
  unfold Term.scrollRegionDown
  simp only [List.length_take, List.length_drop, List.length_append, List.length_replicate, hl]
  omega


/-- An erased emulator row is the reference's blank row. -/
theorem rowAccepts_blank_erase (row : Row) (cols : Nat) (bg : Nat) (hl : row.length = cols) :
    Term.rowAccepts (List.replicate cols (.blank (absCol bg))) (absRow (eraseRow bg row)) = true := by
  subst hl
  induction row with
  | nil => rfl
  | cons c rest ih =>
    simp only [Term.rowAccepts, absRow, eraseRow, List.length_cons, List.replicate_succ, List.map_cons,
      List.zip_cons_cons, List.all_cons, List.length_replicate, List.length_map, decide_true,
      Bool.true_and, accepts_blank_erase] at ih ⊢
    exact ih

/-- Scrolling up on both sides keeps grid acceptance. `k` is the reference's count, `n` the
    emulator's: equal, or both larger than the region. -/
theorem up_accepts {tg : Term.TGrid} {g g' : Grid} {rows cols : Nat} (hg : GridOk g rows cols)
    (hg' : GridOk g' rows cols) (hacc : Term.gridAccepts tg (g.map absRow) = true)
    (tT tB k : Nat) (n : Int) (bg : Nat) (hTB : tT ≤ tB) (hB : tB < rows)
    (hk : (k : Int) = n ∨ ((tB : Int) - tT < k ∧ (tB : Int) - tT < n))
    (hrow : ∀ j : Nat, g'[j]? = upRow g tT tB n bg j) :
    Term.gridAccepts (Term.scrollRegionUp tg tT tB k (List.replicate cols (.blank (absCol bg))))
      (g'.map absRow) = true := by
  rw [gridAccepts_get_iff] at hacc ⊢
  obtain ⟨hlen, hall⟩ := hacc
  have htl : tg.length = rows := by rw [hlen, List.length_map, hg.len]
  refine ⟨by rw [scrollRegionUp_length tg rows tT tB k _ htl hTB hB, List.length_map, hg'.len], ?_⟩
  intro j tr ar htr har
  rw [scrollRegionUp_get tg rows tT tB k _ htl hTB hB] at htr
  rw [List.getElem?_map, hrow j] at har
  unfold upRow at har
  by_cases hin : tT ≤ j ∧ j ≤ tB
  · have hin' : (tT : Int) ≤ (j : Int) ∧ (j : Int) ≤ (tB : Int) := by omega
    rw [if_pos hin] at htr; rw [if_pos hin'] at har
    by_cases hmv : j + k ≤ tB
    · have hmv' : (j : Int) + n ≤ (tB : Int) := by omega
      have hidx : ((j : Int) + n).toNat = j + k := by omega
      rw [if_pos hmv] at htr; rw [if_pos hmv', hidx] at har
      exact hall (j + k) tr ar htr (by rw [List.getElem?_map]; exact har)
    · have hmv' : ¬ ((j : Int) + n ≤ (tB : Int)) := by omega
      rw [if_neg hmv] at htr; rw [if_neg hmv'] at har
      obtain ⟨r, hr, hrl⟩ := gridOk_get hg (j := j) (by omega)
      rw [hr] at har
      simp only [Option.map_some, Option.some.injEq] at har htr
      subst har; subst htr
      exact rowAccepts_blank_erase r cols bg hrl
  · have hin' : ¬ ((tT : Int) ≤ (j : Int) ∧ (j : Int) ≤ (tB : Int)) := by omega
    rw [if_neg hin] at htr; rw [if_neg hin'] at har
    exact hall j tr ar htr (by rw [List.getElem?_map]; exact har)

theorem down_accepts {tg : Term.TGrid} {g g' : Grid} {rows cols : Nat} (hg : GridOk g rows cols)
    (hg' : GridOk g' rows cols) (hacc : Term.gridAccepts tg (g.map absRow) = true)
    (tT tB k : Nat) (n : Int) (bg : Nat) (hTB : tT ≤ tB) (hB : tB < rows)
    (hk : (k : Int) = n ∨ ((tB : Int) - tT < k ∧ (tB : Int) - tT < n))
    (hrow : ∀ j : Nat, g'[j]? = downRow g tT tB n bg j) :
    Term.gridAccepts (Term.scrollRegionDown tg tT tB k (List.replicate cols (.blank (absCol bg))))
      (g'.map absRow) = true := by
  rw [gridAccepts_get_iff] at hacc ⊢
  obtain ⟨hlen, hall⟩ := hacc
  have htl : tg.length = rows := by rw [hlen, List.length_map, hg.len]
  refine ⟨by rw [scrollRegionDown_length tg rows tT tB k _ htl hTB hB, List.length_map, hg'.len], ?_⟩
  intro j tr ar htr har
  rw [scrollRegionDown_get tg rows tT tB k _ htl hTB hB] at htr
  rw [List.getElem?_map, hrow j] at har
  unfold downRow at har
  by_cases hin : tT ≤ j ∧ j ≤ tB
  · have hin' : (tT : Int) ≤ (j : Int) ∧ (j : Int) ≤ (tB : Int) := by omega
    rw [if_pos hin] at htr; rw [if_pos hin'] at har
    by_cases hmv : tT + k ≤ j
    · have hmv' : (tT : Int) + n ≤ (j : Int) := by omega
      have hidx : ((j : Int) - n).toNat = j - k := by omega
      rw [if_pos hmv] at htr; rw [if_pos hmv', hidx] at har
      exact hall (j - k) tr ar htr (by rw [List.getElem?_map]; exact har)
    · have hmv' : ¬ ((tT : Int) + n ≤ (j : Int)) := by omega
      rw [if_neg hmv] at htr; rw [if_neg hmv'] at har
      obtain ⟨r, hr, hrl⟩ := gridOk_get hg (j := j) (by omega)
      rw [hr] at har
      simp only [Option.map_some, Option.some.injEq] at har htr
      subst har; subst htr
      exact rowAccepts_blank_erase r cols bg hrl
  · have hin' : ¬ ((tT : Int) ≤ (j : Int) ∧ (j : Int) ≤ (tB : Int)) := by omega
    rw [if_neg hin] at htr; rw [if_neg hin'] at har
    exact hall j tr ar htr (by rw [List.getElem?_map]; exact har)

/-! ### the simulation relation across a scroll -/

theorem blankRow_eq {t : Term.T} {e : Emu} {rows cols : Nat} (s : Sim t e rows cols) :
    t.blankRow = List.replicate cols (.blank (absCol e.bg)) := by
  unfold Term.T.blankRow; rw [s.tcols, blank_eq s]

theorem sim_scrollUp {t : Term.T} {e : Emu} {rows cols : Nat} (s : Sim t e rows cols)
    (tT tB k : Nat) (n : Int) (hTB : tT ≤ tB) (hB : tB < rows)
    (hk : (k : Int) = n ∨ ((tB : Int) - tT < k ∧ (tB : Int) - tT < n))
    {g' : Grid} (hg' : GridOk g' rows cols)
    (hrow : ∀ j : Nat, g'[j]? = upRow e.active tT tB n e.bg j) :
    Sim (t.scrollUp tT tB k) (e.setActive g') rows cols := by
  unfold Term.T.scrollUp
  rw [blankRow_eq s]
  exact sim_setGrid s _ g' hg'
    (up_accepts (active_ok s.inv) hg' s.grid tT tB k n e.bg hTB hB hk hrow) (e.setActive g').lastCol

theorem sim_scrollDown {t : Term.T} {e : Emu} {rows cols : Nat} (s : Sim t e rows cols)
    (tT tB k : Nat) (n : Int) (hTB : tT ≤ tB) (hB : tB < rows)
    (hk : (k : Int) = n ∨ ((tB : Int) - tT < k ∧ (tB : Int) - tT < n))
    {g' : Grid} (hg' : GridOk g' rows cols)
    (hrow : ∀ j : Nat, g'[j]? = downRow e.active tT tB n e.bg j) :
    Sim (t.scrollDown tT tB k) (e.setActive g') rows cols := by
  unfold Term.T.scrollDown
  rw [blankRow_eq s]
  exact sim_setGrid s _ g' hg'
    (down_accepts (active_ok s.inv) hg' s.grid tT tB k n e.bg hTB hB hk hrow) (e.setActive g').lastCol

/-! ### `scrollUp` / `scrollDown` of the emulator, functionally -/

theorem scrollUp_spec {e : Emu} {rows cols : Nat} (h : EmuInv e rows cols) (d : Dim rows cols)
    {n : Int} (hn : 0 ≤ n) :
    ∃ g', scrollUp e n = .ok (e.setActive g') ∧ GridOk g' rows cols ∧
      ∀ j : Nat, g'[j]? = upRow e.active e.top e.bottom n e.bg j := by
  obtain ⟨g', h1, h2, h3⟩ := scrollUpLoop_spec (active_ok h) d.rmax d.cmax e.top e.bottom n e.bg
    h.topLo h.botHi hn
  refine ⟨g', ?_, h2, h3⟩
  unfold scrollUp
  rw [height_eq h, h.left0, h.right]
  simp only [h1, bind, Except.bind]

theorem scrollDown_spec {e : Emu} {rows cols : Nat} (h : EmuInv e rows cols) (d : Dim rows cols)
    {n : Int} (hn : 0 ≤ n) :
    ∃ g', scrollDown e n = .ok (e.setActive g') ∧ GridOk g' rows cols ∧
      ∀ j : Nat, g'[j]? = downRow e.active e.top e.bottom n e.bg j := by
  have := h.topLe
  obtain ⟨g', h1, h2, h3⟩ := scrollDownLoop_spec (active_ok h) d.rmax d.cmax e.top e.bottom n e.bg
    h.topLo (by omega) h.botHi hn
  refine ⟨g', ?_, h2, h3⟩
  unfold scrollDown
  rw [h.left0, h.right]
  simp only [h1, bind, Except.bind]

/-- the emulator's count (after clamp and default) against the reference's -/
theorem count_rel (n : Nat) :
    ((Term.d1 n : Nat) : Int) = dflt1 (cpS n) ∨ (65535 < ((Term.d1 n : Nat) : Int) ∧ dflt1 (cpS n) = 65535) := by
  rw [cpS_eq]; unfold Term.d1 dflt1
  split <;> split <;> split <;> omega

/-! ### SU / SD -/

theorem su_refines {t : Term.T} {e : Emu} {rows cols : Nat} (s : Sim t e rows cols) (n : Nat) :
    ∃ e', scrollUp e (dflt1 (cpS n)) = .ok e' ∧ Refines (Term.step t (.su n)) e' rows cols := by
  have hd := dflt1_ok (cpS_ok n)
  have := s.dim.rmax; have ht := s.top; have hb := s.bottom; have := s.inv.topLe; have := s.inv.botHi
  obtain ⟨g', h1, h2, h3⟩ := scrollUp_spec s.inv s.dim (n := dflt1 (cpS n)) (by omega)
  refine ⟨_, h1, ?_⟩
  simp only [Term.step]
  refine refines_one (sim_scrollUp s t.top t.bottom (Term.d1 n) (dflt1 (cpS n)) (by omega) (by omega) ?_ h2 ?_)
  · rcases count_rel n with h | h <;> omega
  · rw [ht, hb]; exact h3

theorem sd_refines {t : Term.T} {e : Emu} {rows cols : Nat} (s : Sim t e rows cols) (n : Nat) :
    ∃ e', scrollDown e (dflt1 (cpS n)) = .ok e' ∧ Refines (Term.step t (.sd n)) e' rows cols := by
  have hd := dflt1_ok (cpS_ok n)
  have := s.dim.rmax; have ht := s.top; have hb := s.bottom; have := s.inv.topLe; have := s.inv.botHi
  obtain ⟨g', h1, h2, h3⟩ := scrollDown_spec s.inv s.dim (n := dflt1 (cpS n)) (by omega)
  refine ⟨_, h1, ?_⟩
  simp only [Term.step]
  refine refines_one (sim_scrollDown s t.top t.bottom (Term.d1 n) (dflt1 (cpS n)) (by omega) (by omega) ?_ h2 ?_)
  · rcases count_rel n with h | h <;> omega
  · rw [ht, hb]; exact h3

/-! ### IND / LF / NEL / RI -/

/-- Only `lastCol` changes. -/
theorem sim_lastCol {t : Term.T} {e : Emu} {rows cols : Nat} (s : Sim t e rows cols) (lc : Bool) :
    Sim t { e with lastCol := lc } rows cols :=
  sim_moveRow s t.row e.cur.row s.row (by have := s.row; have := s.inv.rowHi; omega) lc

/-- The column becomes 0 (no pending wrap before or after). -/
theorem sim_col0 {t : Term.T} {e : Emu} {rows cols : Nat} (s : Sim t e rows cols) (hp : t.pw = false)
    (c : Cursor) (hc : c = e.cur) :
    Sim { t with col := 0 } { e with cur := { c with col := 0 } } rows cols := by
  subst hc
  have := s.dim.c1
  exact
  { inv := { s.inv with colLo := by simp only; omega, colHi := by simp only; omega }
    dim := s.dim, vm := ⟨s.vm.awm, s.vm.irm, s.vm.lnm, s.vm.ascii, s.vm.noShift⟩
    trows := s.trows, tcols := s.tcols, onAlt := s.onAlt
    row := s.row
    col := by simp only; split <;> omega
    pw := by simp only; rw [hp]; symm; rw [decide_eq_false_iff_not]; omega
    pen := s.pen, link := s.link, top := s.top, bottom := s.bottom
    grid := s.grid }

theorem scroll_setGrid_pw (t : Term.T) (g : Term.TGrid) : (t.setGrid g).pw = t.pw := by
  unfold Term.T.setGrid; split <;> rfl

theorem indCore_pw (t : Term.T) : t.indCore.pw = t.pw := by
  unfold Term.T.indCore Term.T.scrollUp
  split
  · exact scroll_setGrid_pw _ _
  · split <;> rfl

/-- IND moves both sides alike, in every state (the pending-wrap test is the caller's). -/
theorem ind_sim {t : Term.T} {e : Emu} {rows cols : Nat} (s : Sim t e rows cols) :
    ∃ e', ind e = .ok e' ∧ Sim t.indCore e' rows cols := by
  have s0 := sim_lastCol s false
  have hh := height_eq s0.inv
  have hr := s.row; have ht := s.top; have hb := s.bottom; have := s.inv.topLe; have := s.inv.botHi
  have := s.inv.rowLo; have := s.inv.rowHi; have := s.trows
  unfold ind Term.T.indCore
  simp only [hh]
  by_cases h1 : e.cur.row = e.bottom
  · have h1' : t.row = t.bottom := by omega
    rw [if_pos h1, if_pos h1']
    obtain ⟨g', hg1, hg2, hg3⟩ := scrollUp_spec s0.inv s0.dim (n := 1) (by omega)
    refine ⟨_, hg1, sim_scrollUp s0 t.top t.bottom 1 1 (by omega) (by omega) (Or.inl rfl) hg2 ?_⟩
    rw [ht, hb]; exact hg3
  · have h1' : ¬ t.row = t.bottom := by omega
    rw [if_neg h1, if_neg h1']
    by_cases h2 : e.cur.row ≥ (rows : Int) - 1
    · have h2' : ¬ (t.row + 1 < t.rows) := by omega
      rw [if_pos h2, if_neg h2']
      exact ⟨_, rfl, s0⟩
    · have h2' : t.row + 1 < t.rows := by omega
      rw [if_neg h2, if_pos h2']
      exact ⟨_, rfl, sim_moveRow s (t.row + 1) (e.cur.row + 1) (by omega) (by omega) false⟩

theorem ind_refines {t : Term.T} {e : Emu} {rows cols : Nat} (s : Sim t e rows cols) :
    ∃ e', ind e = .ok e' ∧ Refines (Term.step t .ind) e' rows cols := by
  obtain ⟨e', h1, h2⟩ := ind_sim s
  refine ⟨e', h1, ?_⟩
  simp only [Term.step]
  exact refines_unlessPw (fun _ => refines_one h2)

theorem lf_refines {t : Term.T} {e : Emu} {rows cols : Nat} (s : Sim t e rows cols) :
    ∃ e', lf e = .ok e' ∧ Refines (Term.step t .lf) e' rows cols := by
  obtain ⟨e', h1, h2⟩ := ind_sim s
  refine ⟨e', ?_, ?_⟩
  · unfold lf
    simp only [h1, bind, Except.bind, h2.vm.lnm, Bool.not_false, if_true]
  · simp only [Term.step]
    exact refines_unlessPw (fun _ => refines_one h2)

theorem nel_refines {t : Term.T} {e : Emu} {rows cols : Nat} (s : Sim t e rows cols) :
    ∃ e', nel e = .ok e' ∧ Refines (Term.step t .nel) e' rows cols := by
  obtain ⟨e', h1, h2⟩ := ind_sim s
  refine ⟨{ e' with cur := { e'.cur with col := e'.left } }, ?_, ?_⟩
  · unfold nel
    simp only [h1, bind, Except.bind]
  · simp only [Term.step]
    refine refines_unlessPw (fun hp => refines_one ?_)
    have heq : ({ e' with cur := { e'.cur with col := e'.left } } : Emu) =
        { e' with cur := { e'.cur with col := 0 } } := by rw [h2.inv.left0]
    rw [heq]
    exact sim_col0 h2 (by rw [indCore_pw]; exact hp) e'.cur rfl

theorem riCore_pw (t : Term.T) : t.riCore.pw = t.pw := by
  unfold Term.T.riCore Term.T.scrollDown
  split
  · exact scroll_setGrid_pw _ _
  · split <;> rfl

theorem ri_sim {t : Term.T} {e : Emu} {rows cols : Nat} (s : Sim t e rows cols) :
    ∃ e', ri Fixes.current e = .ok e' ∧ Sim t.riCore e' rows cols := by
  have s0 := sim_lastCol s false
  have hr := s.row; have ht := s.top; have hb := s.bottom; have := s.inv.topLe; have := s.inv.botHi
  have := s.inv.rowLo; have := s.inv.rowHi; have := s.trows
  unfold ri Term.T.riCore
  simp only [Fixes.current, if_true]
  by_cases h1 : e.cur.row = e.top
  · have h1' : t.row = t.top := by omega
    rw [if_pos h1, if_pos h1']
    obtain ⟨g', hg1, hg2, hg3⟩ := scrollDown_spec s0.inv s0.dim (n := 1) (by omega)
    refine ⟨_, hg1, sim_scrollDown s0 t.top t.bottom 1 1 (by omega) (by omega) (Or.inl rfl) hg2 ?_⟩
    rw [ht, hb]; exact hg3
  · have h1' : ¬ t.row = t.top := by omega
    rw [if_neg h1, if_neg h1']
    by_cases h2 : e.cur.row ≤ 0
    · have h2' : ¬ (t.row > 0) := by omega
      rw [if_pos h2, if_neg h2']
      exact ⟨_, rfl, s0⟩
    · have h2' : t.row > 0 := by omega
      rw [if_neg h2, if_pos h2']
      exact ⟨_, rfl, sim_moveRow s (t.row - 1) (e.cur.row - 1) (by omega) (by omega) false⟩

theorem ri_refines {t : Term.T} {e : Emu} {rows cols : Nat} (s : Sim t e rows cols) :
    ∃ e', ri Fixes.current e = .ok e' ∧ Refines (Term.step t .ri) e' rows cols := by
  obtain ⟨e', h1, h2⟩ := ri_sim s
  refine ⟨e', h1, ?_⟩
  simp only [Term.step]
  exact refines_unlessPw (fun _ => refines_one h2)

/-! ### IL / DL -/

theorem il_spec {e : Emu} {rows cols : Nat} (h : EmuInv e rows cols) (d : Dim rows cols)
    (hin : e.top ≤ e.cur.row ∧ e.cur.row ≤ e.bottom) (hcol : e.cur.col < cols) {n : Int} (hn : POk n) :
    ∃ g', il Fixes.current e n =
        .ok { (Emu.setActive { e with lastCol := false } g') with
              cur := { ({ e with lastCol := false } : Emu).cur with col := 0 } } ∧
      GridOk g' rows cols ∧
      ∀ j : Nat, g'[j]? = downRow ({ e with lastCol := false } : Emu).active
        ({ e with lastCol := false } : Emu).cur.row ({ e with lastCol := false } : Emu).bottom
        (ilClamp Fixes.current { e with lastCol := false } n) ({ e with lastCol := false } : Emu).bg j := by
  have h0 := inv_lastCol h false
  have hin0 : ({ e with lastCol := false } : Emu).top ≤ ({ e with lastCol := false } : Emu).cur.row ∧
      ({ e with lastCol := false } : Emu).cur.row ≤ ({ e with lastCol := false } : Emu).bottom := hin
  have hcol0 : ({ e with lastCol := false } : Emu).cur.col < cols := hcol
  unfold il
  generalize ({ e with lastCol := false } : Emu) = e0 at h0 hin0 hcol0 ⊢
  simp only []
  have hb := ilClamp_bounds e0 hn hin0.2
  have hk1 : 1 ≤ ilClamp Fixes.current e0 n := by
    have hd := dflt1_ok hn
    unfold ilClamp; simp only [Fixes.current, if_true]; split <;> omega
  generalize ilClamp Fixes.current e0 n = k at hb hk1 ⊢
  have := h0.colLo; have := h0.left0; have := h0.right
  obtain ⟨g1, g', hl1, hl2, hg', hrows⟩ := ilLoop_spec (active_ok h0) d.rmax d.cmax e0.cur.row e0.bottom k
    e0.bg h0.rowLo h0.botHi (by omega) (by omega)
  refine ⟨g', ?_, hg', hrows⟩
  have hcond : ¬ (e0.cur.row < e0.top ∨ e0.cur.row > e0.bottom ∨ e0.cur.col < e0.left ∨ e0.cur.col > e0.right) := by
    omega
  rw [if_neg hcond, h0.left0, h0.right]
  simp only [hl1, hl2, bind, Except.bind]

theorem dl_spec {e : Emu} {rows cols : Nat} (h : EmuInv e rows cols) (d : Dim rows cols)
    (hin : e.top ≤ e.cur.row ∧ e.cur.row ≤ e.bottom) (hcol : e.cur.col < cols) {n : Int} (hn : POk n) :
    ∃ g', dl Fixes.current e n =
        .ok { (Emu.setActive { e with lastCol := false } g') with
              cur := { ({ e with lastCol := false } : Emu).cur with col := 0 } } ∧
      GridOk g' rows cols ∧
      ∀ j : Nat, g'[j]? = upRow ({ e with lastCol := false } : Emu).active
        ({ e with lastCol := false } : Emu).cur.row ({ e with lastCol := false } : Emu).bottom
        (ilClamp Fixes.current { e with lastCol := false } n) ({ e with lastCol := false } : Emu).bg j := by
  have h0 := inv_lastCol h false
  have hin0 : ({ e with lastCol := false } : Emu).top ≤ ({ e with lastCol := false } : Emu).cur.row ∧
      ({ e with lastCol := false } : Emu).cur.row ≤ ({ e with lastCol := false } : Emu).bottom := hin
  have hcol0 : ({ e with lastCol := false } : Emu).cur.col < cols := hcol
  unfold dl
  generalize ({ e with lastCol := false } : Emu) = e0 at h0 hin0 hcol0 ⊢
  simp only []
  have hb := ilClamp_bounds e0 hn hin0.2
  generalize ilClamp Fixes.current e0 n = k at hb ⊢
  have := h0.colLo; have := h0.left0; have := h0.right
  obtain ⟨g', hl1, hg', hrows⟩ := dlLoop_spec (active_ok h0) d.rmax d.cmax e0.cur.row e0.bottom k
    e0.bg h0.rowLo (by omega) h0.botHi (by omega)
  refine ⟨g', ?_, hg', hrows⟩
  have hcond : ¬ (e0.cur.row < e0.top ∨ e0.cur.row > e0.bottom ∨ e0.cur.col < e0.left ∨ e0.cur.col > e0.right) := by
    omega
  rw [if_neg hcond, h0.left0, h0.right]
  simp only [hl1, bind, Except.bind]

theorem scrollDown_pw (t : Term.T) (a b k : Nat) : (t.scrollDown a b k).pw = t.pw := scroll_setGrid_pw _ _
theorem scrollUp_pw (t : Term.T) (a b k : Nat) : (t.scrollUp a b k).pw = t.pw := scroll_setGrid_pw _ _

/-- the count of IL/DL after `ilClamp`, against the reference's `d1 n` over the region `row..bottom` -/
theorem ilCount_rel (e : Emu) (n : Nat) (hrow : e.cur.row ≤ e.bottom) (hb : e.bottom < 65535) (h0 : 0 ≤ e.cur.row) :
    ((Term.d1 n : Nat) : Int) = ilClamp Fixes.current e (cpS n) ∨
      (e.bottom - e.cur.row < ((Term.d1 n : Nat) : Int) ∧ e.bottom - e.cur.row < ilClamp Fixes.current e (cpS n)) := by
  have := count_rel n
  unfold ilClamp
  simp only [Fixes.current, if_true]
  split <;> omega

theorem il_refines {t : Term.T} {e : Emu} {rows cols : Nat} (s : Sim t e rows cols) (n : Nat) :
    ∃ e', il Fixes.current e (cpS n) = .ok e' ∧ Refines (Term.step t (.il n)) e' rows cols := by
  by_cases hp : t.pw = true
  · obtain ⟨e', h1, _⟩ := il_safe s.inv s.dim (cpS_ok n)
    refine ⟨e', h1, ?_⟩
    simp only [Term.step]; unfold Term.unlessPw; rw [if_pos hp]; trivial
  · have hp : t.pw = false := by simpa using hp
    have hcol := col_lt_of_not_pw s hp
    have s0 := sim_lastCol s false
    have hr := s.row; have ht := s.top; have hb := s.bottom; have := s.inv.topLe; have := s.inv.botHi
    have := s.inv.rowLo; have := s.inv.rowHi; have := s.inv.colLo; have := s.inv.left0; have := s.inv.right
    have := s.dim.rmax
    by_cases hin : e.top ≤ e.cur.row ∧ e.cur.row ≤ e.bottom
    · obtain ⟨g', h1, hg', hrows⟩ := il_spec s.inv s.dim hin hcol (cpS_ok n)
      refine ⟨_, h1, ?_⟩
      simp only [Term.step]
      refine refines_unlessPw (fun _ => ?_)
      have hin' : t.top ≤ t.row ∧ t.row ≤ t.bottom := by omega
      rw [if_pos hin']
      have s1 := sim_scrollDown s0 t.row t.bottom (Term.d1 n)
        (ilClamp Fixes.current { e with lastCol := false } (cpS n)) (by omega) (by omega)
        (by rw [hr, hb]
            exact ilCount_rel { e with lastCol := false } n hin.2 (by simp only; omega) (by simp only; omega))
        hg' (by rw [hr, hb]; exact hrows)
      refine ⟨_, List.mem_cons_of_mem _ (List.mem_singleton.mpr rfl), ?_⟩
      exact sim_col0 s1 (by rw [scrollDown_pw]; exact hp) _ (setActive_cur { e with lastCol := false } g').symm
    · have hcond : e.cur.row < e.top ∨ e.cur.row > e.bottom ∨ e.cur.col < e.left ∨ e.cur.col > e.right := by
        omega
      refine ⟨{ e with lastCol := false }, ?_, ?_⟩
      · unfold il; simp only []; rw [if_pos hcond]
      · simp only [Term.step]
        refine refines_unlessPw (fun _ => ?_)
        have hin' : ¬ (t.top ≤ t.row ∧ t.row ≤ t.bottom) := by omega
        rw [if_neg hin']
        exact refines_one s0

theorem dl_refines {t : Term.T} {e : Emu} {rows cols : Nat} (s : Sim t e rows cols) (n : Nat) :
    ∃ e', dl Fixes.current e (cpS n) = .ok e' ∧ Refines (Term.step t (.dl n)) e' rows cols := by
  by_cases hp : t.pw = true
  · obtain ⟨e', h1, _⟩ := dl_safe s.inv s.dim (cpS_ok n)
    refine ⟨e', h1, ?_⟩
    simp only [Term.step]; unfold Term.unlessPw; rw [if_pos hp]; trivial
  · have hp : t.pw = false := by simpa using hp
    have hcol := col_lt_of_not_pw s hp
    have s0 := sim_lastCol s false
    have hr := s.row; have ht := s.top; have hb := s.bottom; have := s.inv.topLe; have := s.inv.botHi
    have := s.inv.rowLo; have := s.inv.rowHi; have := s.inv.colLo; have := s.inv.left0; have := s.inv.right
    have := s.dim.rmax
    by_cases hin : e.top ≤ e.cur.row ∧ e.cur.row ≤ e.bottom
    · obtain ⟨g', h1, hg', hrows⟩ := dl_spec s.inv s.dim hin hcol (cpS_ok n)
      refine ⟨_, h1, ?_⟩
      simp only [Term.step]
      refine refines_unlessPw (fun _ => ?_)
      have hin' : t.top ≤ t.row ∧ t.row ≤ t.bottom := by omega
      rw [if_pos hin']
      have s1 := sim_scrollUp s0 t.row t.bottom (Term.d1 n)
        (ilClamp Fixes.current { e with lastCol := false } (cpS n)) (by omega) (by omega)
        (by rw [hr, hb]
            exact ilCount_rel { e with lastCol := false } n hin.2 (by simp only; omega) (by simp only; omega))
        hg' (by rw [hr, hb]; exact hrows)
      refine ⟨_, List.mem_cons_of_mem _ (List.mem_singleton.mpr rfl), ?_⟩
      exact sim_col0 s1 (by rw [scrollUp_pw]; exact hp) _ (setActive_cur { e with lastCol := false } g').symm
    · have hcond : e.cur.row < e.top ∨ e.cur.row > e.bottom ∨ e.cur.col < e.left ∨ e.cur.col > e.right := by
        omega
      refine ⟨{ e with lastCol := false }, ?_, ?_⟩
      · unfold dl; simp only []; rw [if_pos hcond]
      · simp only [Term.step]
        refine refines_unlessPw (fun _ => ?_)
        have hin' : ¬ (t.top ≤ t.row ∧ t.row ≤ t.bottom) := by omega
        rw [if_neg hin']
        exact refines_one s0

end VaxisModel.Lemmas.EmuRefine

/-! ### sanity: the functional characterisations on a concrete 4×1 screen (region rows 1..3) -/
section sanity
open VaxisModel.Model.Emu VaxisModel.Lemmas.EmuRefine

private def cellOf (k : Nat) : ECell := { g := [48 + k], w := 1 }
private def e4 : Emu :=
  { primary := [[cellOf 0], [cellOf 1], [cellOf 2], [cellOf 3]], alt := [[cellOf 0], [cellOf 1], [cellOf 2], [cellOf 3]],
    top := 1, bottom := 3, right := 0, cur := { row := 1, st := { bg := 7 } } }

private def obs (r : M Emu) : Option Grid := match r with | .ok e => some e.primary | .error _ => none

example : obs (scrollUp e4 2) = some ((List.range 4).filterMap (upRow e4.active 1 3 2 7)) := by decide
example : obs (scrollDown e4 1) = some ((List.range 4).filterMap (downRow e4.active 1 3 1 7)) := by decide
example : obs (il Fixes.current e4 2) = some ((List.range 4).filterMap (downRow e4.active 1 3 2 7)) := by decide
example : obs (dl Fixes.current e4 1) = some ((List.range 4).filterMap (upRow e4.active 1 3 1 7)) := by decide
example : (List.range 4).filterMap (upRow e4.active 1 3 2 7) =
    [[cellOf 0], [cellOf 3], [(cellOf 2).erase 7], [(cellOf 3).erase 7]] := by decide
end sanity
