/-
C06 refinement, part 3: the scrolling operations (SU, SD, IND, LF, NEL, RI, IL, DL).

The core is a FUNCTIONAL characterisation of the emulator's in-place scroll loops (`scrollUp`,
`scrollDown`, the loops of `il` and `dl`): row `j` of the grid they compute, as a function of the
grid they started from (`upRow` / `downRow`). The loops alias source and destination (they copy
rows inside one grid); the indexed loop rules (`forUp_idx`, `forDown_idx`) carry an invariant of the
form "rows already visited are final, the others still hold the original content".
The reference's `scrollRegionUp` / `scrollRegionDown` (take/drop/replicate) are characterised
row-wise as well (`scrollRegionUp_get`, `scrollRegionDown_get`) and the two are compared row by row.
-/
import VaxisModel.Lemmas.EmuRefine
import VaxisModel.Lemmas.EmuSafe1
import VaxisModel.Lemmas.EmuSafe3

namespace VaxisModel.Lemmas.EmuRefine
open VaxisModel.Model.Emu VaxisModel.Model.EmuAbs VaxisModel.Lemmas.Emu VaxisModel.Spec

/-- the parameter as csi() hands it to the handler -/
def cpS (n : Nat) : Int := clampParam (n : Int)

theorem cpS_eq (n : Nat) : cpS n = if n > 65535 then 65535 else (n : Int) := by
  unfold cpS clampParam maxParam
  split <;> split <;> omega

theorem cpS_ok (n : Nat) : POk (cpS n) := by
  rw [cpS_eq]; unfold POk; split <;> omega

/-! ### loop rules with an invariant that mentions the index -/

theorem forUpGo_idx {σ : Type} (P : Int → σ → Prop) (body : Int → σ → M σ) :
    ∀ (n : Nat) (i0 : Int) (s : σ), P i0 s →
      (∀ i s, i0 ≤ i → i < i0 + n → P i s → ∃ s', body i s = .ok s' ∧ P (i + 1) s') →
      ∃ s', forUpGo body n i0 s = .ok s' ∧ P (i0 + n) s' := by
  intro n
  induction n with
  | zero => intro i0 s hs _; exact ⟨s, rfl, by simpa using hs⟩
  | succ n ih =>
    intro i0 s hs hb
    obtain ⟨s1, h1, hp1⟩ := hb i0 s (by omega) (by omega) hs
    obtain ⟨s2, h2, hp2⟩ := ih (i0 + 1) s1 hp1 (fun i s hi1 hi2 hp => hb i s (by omega) (by omega) hp)
    refine ⟨s2, by simp only [forUpGo, h1, bind, Except.bind, h2], ?_⟩
    have : i0 + ((n + 1 : Nat) : Int) = i0 + 1 + (n : Int) := by omega
    rw [this]; exact hp2

/-- `for i := lo; i <= hi; i++`: from `P lo` to `P (hi+1)`. -/
theorem forUp_idx {σ : Type} (P : Int → σ → Prop) (body : Int → σ → M σ) (lo hi : Int) (s : σ)
    (hlo : lo ≤ hi + 1) (hn : hi + 1 - lo ≤ (hangLimit : Int)) (hs : P lo s)
    (hb : ∀ i s, lo ≤ i → i ≤ hi → P i s → ∃ s', body i s = .ok s' ∧ P (i + 1) s') :
    ∃ s', forUp lo hi body s = .ok s' ∧ P (hi + 1) s' := by
  unfold forUp
  have hle : (hi + 1 - lo).toNat ≤ hangLimit := by omega
  simp only [hle, if_true]
  obtain ⟨s', h1, h2⟩ := forUpGo_idx P body (hi + 1 - lo).toNat lo s hs
    (fun i s h1 h2 hp => hb i s h1 (by omega) hp)
  refine ⟨s', h1, ?_⟩
  have : lo + ((hi + 1 - lo).toNat : Int) = hi + 1 := by omega
  rw [← this]; exact h2

theorem forDownGo_idx {σ : Type} (P : Int → σ → Prop) (body : Int → σ → M σ) :
    ∀ (n : Nat) (i0 : Int) (s : σ), P i0 s →
      (∀ i s, i ≤ i0 → i0 - n < i → P i s → ∃ s', body i s = .ok s' ∧ P (i - 1) s') →
      ∃ s', forDownGo body n i0 s = .ok s' ∧ P (i0 - n) s' := by
  intro n
  induction n with
  | zero => intro i0 s hs _; exact ⟨s, rfl, by simpa using hs⟩
  | succ n ih =>
    intro i0 s hs hb
    obtain ⟨s1, h1, hp1⟩ := hb i0 s (by omega) (by omega) hs
    obtain ⟨s2, h2, hp2⟩ := ih (i0 - 1) s1 hp1 (fun i s hi1 hi2 hp => hb i s (by omega) (by omega) hp)
    refine ⟨s2, by simp only [forDownGo, h1, bind, Except.bind, h2], ?_⟩
    have : i0 - ((n + 1 : Nat) : Int) = i0 - 1 - (n : Int) := by omega
    rw [this]; exact hp2

/-- `for i := hi; i >= lo; i--`: from `P hi` to `P (lo-1)`. -/
theorem forDown_idx {σ : Type} (P : Int → σ → Prop) (body : Int → σ → M σ) (hi lo : Int) (s : σ)
    (hlo : lo ≤ hi + 1) (hn : hi + 1 - lo ≤ (hangLimit : Int)) (hs : P hi s)
    (hb : ∀ i s, lo ≤ i → i ≤ hi → P i s → ∃ s', body i s = .ok s' ∧ P (i - 1) s') :
    ∃ s', forDown hi lo body s = .ok s' ∧ P (lo - 1) s' := by
  unfold forDown
  have hle : (hi + 1 - lo).toNat ≤ hangLimit := by omega
  simp only [hle, if_true]
  obtain ⟨s', h1, h2⟩ := forDownGo_idx P body (hi + 1 - lo).toNat hi s hs
    (fun i s h1 h2 hp => hb i s (by omega) h1 hp)
  refine ⟨s', h1, ?_⟩
  have : hi - ((hi + 1 - lo).toNat : Int) = lo - 1 := by omega
  rw [← this]; exact h2

/-! ### one step of the loops, functionally -/

/-- every cell of a row erased -/
def eraseRow (bg : Nat) (r : Row) : Row := r.map (·.erase bg)

theorem gridOk_get {g : Grid} {rows cols : Nat} (h : GridOk g rows cols) {j : Nat} (hj : j < rows) :
    ∃ r, g[j]? = some r ∧ r.length = cols := by
  have hlt : j < g.length := by rw [h.len]; exact hj
  exact ⟨g[j], List.getElem?_eq_getElem hlt, h.rowLen _ (List.getElem_mem hlt)⟩

theorem getI_get {α : Type} (l : List α) (i : Int) (x : α) (h0 : 0 ≤ i) (h : l[i.toNat]? = some x) :
    getI l i = .ok x := by
  unfold getI; simp [h0, h]

/-- `copy(g[d], g[s])` on a well-formed grid replaces row `d` by row `s`. -/
theorem copy_step {g : Grid} {rows cols : Nat} (h : GridOk g rows cols) (d s : Int)
    (hd0 : 0 ≤ d) (hd1 : d < rows) (hs0 : 0 ≤ s) (hs1 : s < rows) :
    ∃ g', copyRow g d s = .ok g' ∧ GridOk g' rows cols ∧
      ∀ j : Nat, g'[j]? = if j = d.toNat then g[s.toNat]? else g[j]? := by
  obtain ⟨dr, hdr, hdl⟩ := gridOk_get h (j := d.toNat) (by omega)
  obtain ⟨sr, hsr, hsl⟩ := gridOk_get h (j := s.toNat) (by omega)
  have hset := setI_ok g d sr hd0 (by rw [h.len]; exact hd1)
  have hrow : sr.take dr.length ++ dr.drop sr.length = sr := by
    rw [hdl, ← hsl, List.take_length, hsl, ← hdl, List.drop_length, List.append_nil]
  refine ⟨g.set d.toNat sr, ?_, gridOk_set h _ _ hsl, ?_⟩
  · unfold copyRow
    simp only [getI_get g d dr hd0 hdr, getI_get g s sr hs0 hsr, bind, Except.bind, hset, hrow]
  · intro j
    have hlt : d.toNat < g.length := by rw [h.len]; omega
    rw [List.getElem?_set, hsr]
    by_cases hj : j = d.toNat
    · subst hj; simp [hlt]
    · have : ¬ d.toNat = j := fun h => hj h.symm
      simp [this, hj]

/-- `modCell` on a well-formed grid, functionally. -/
theorem modCell_step {g : Grid} {rows cols : Nat} (h : GridOk g rows cols) (r c : Int) (f : ECell → ECell)
    (hr0 : 0 ≤ r) (hr1 : r < rows) (hc0 : 0 ≤ c) (hc1 : c < cols) :
    modCell g r c f = .ok (g.modify r.toNat (fun row => row.modify c.toNat f)) := by
  obtain ⟨row, hrow, hlen⟩ := gridOk_get h (j := r.toNat) (by omega)
  have hclt : c.toNat < row.length := by omega
  have hx : row[c.toNat]? = some row[c.toNat] := List.getElem?_eq_getElem hclt
  have hs := setI_ok row c (f row[c.toNat]) hc0 (by omega)
  have hs2 := setI_ok g r (row.set c.toNat (f row[c.toNat])) hr0 (by rw [h.len]; exact hr1)
  unfold modCell
  simp only [getI_get g r row hr0 hrow, getI_get row c _ hc0 hx, hs, hs2, bind, Except.bind]
  congr 1
  apply List.ext_getElem?
  intro j
  rw [List.getElem?_set, List.getElem?_modify]
  by_cases hj : r.toNat = j
  · subst hj
    have hlt : r.toNat < g.length := by rw [h.len]; omega
    simp only [hlt, if_true, hrow, Option.map_eq_map, Option.map_some]
    congr 1
    apply List.ext_getElem?
    intro k
    rw [List.getElem?_set, List.getElem?_modify]
    by_cases hk : c.toNat = k
    · subst hk; simp [hclt]
    · simp [hk]
  · simp [hj]

/-- `eraseCols` over the whole width erases the row. -/
theorem erase_step {g : Grid} {rows cols : Nat} (h : GridOk g rows cols) (r : Int) (bg : Nat)
    (hr0 : 0 ≤ r) (hr1 : r < rows) (hc : cols ≤ 65535) :
    ∃ g', eraseCols g r 0 ((cols : Int) - 1) bg = .ok g' ∧ GridOk g' rows cols ∧
      ∀ j : Nat, g'[j]? = if j = r.toNat then (g[r.toNat]?).map (eraseRow bg) else g[j]? := by
  obtain ⟨row, hrow, hlen⟩ := gridOk_get h (j := r.toNat) (by omega)
  unfold eraseCols
  obtain ⟨g', hg', hok, hrest, hr⟩ := forUp_idx
    (fun (c : Int) (g' : Grid) => GridOk g' rows cols ∧ (∀ j : Nat, j ≠ r.toNat → g'[j]? = g[j]?) ∧
      ∃ row', g'[r.toNat]? = some row' ∧
        ∀ k : Nat, row'[k]? = if (k : Int) < c then (row[k]?).map (·.erase bg) else row[k]?)
    (fun c g => modCell g r c (·.erase bg)) 0 ((cols : Int) - 1) g (by omega)
    (by rw [hangLimit_val]; omega)
    ⟨h, fun _ _ => rfl, row, hrow, fun k => by simp; omega⟩
    (by
      intro c g1 hc0 hc1 ⟨hg1, hrest1, row1, hrow1, hcells⟩
      refine ⟨_, modCell_step hg1 r c _ hr0 hr1 hc0 (by omega), ?_, ?_, ?_⟩
      · obtain ⟨g2, h2, hok2⟩ := modCell_ok hg1 r c (·.erase bg) hr0 hr1 hc0 (by omega)
        rw [modCell_step hg1 r c _ hr0 hr1 hc0 (by omega)] at h2
        cases h2; exact hok2
      · intro j hj
        rw [List.getElem?_modify]
        have : ¬ r.toNat = j := fun h => hj h.symm
        simp only [this, if_false]
        rw [hrest1 j hj]; simp
      · refine ⟨row1.modify c.toNat (·.erase bg), ?_, ?_⟩
        · rw [List.getElem?_modify, hrow1]; simp
        · intro k
          rw [List.getElem?_modify, hcells k]
          by_cases hk : c.toNat = k
          · subst hk
            have h1 : ¬ ((c.toNat : Int) < c) := by omega
            have h2 : ((c.toNat : Int) < c + 1) := by omega
            simp only [h1, h2, if_true, if_false]
            cases row[c.toNat]? <;> simp
          · have h3 : ((k : Int) < c + 1) ↔ ((k : Int) < c) := by omega
            simp only [hk, h3, if_false]
            cases (if (k : Int) < c then Option.map (fun x => x.erase bg) row[k]? else row[k]?) <;> simp)
  obtain ⟨row', hrow', hcells⟩ := hr
  have hrow'' : row' = eraseRow bg row := by
    apply List.ext_getElem?
    intro k
    rw [hcells k]
    unfold eraseRow
    rw [List.getElem?_map]
    split
    · rfl
    · rename_i hk
      have : row.length ≤ k := by omega
      rw [List.getElem?_eq_none this]; rfl
  refine ⟨g', hg', hok, ?_⟩
  intro j
  by_cases hj : j = r.toNat
  · subst hj; simp only [if_true, hrow', hrow, hrow'', Option.map_some]
  · simp only [hj, if_false]; exact hrest j hj

/-! ### the scroll loops, functionally -/

/-- Row `j` after scrolling rows `top..bottom` of `g` up by `n` (what the loops of `scrollUp` and
    `dl` compute): rows outside the region are kept, row `j` of the region is the old row `j+n` if
    that is inside the region, else the old row `j` with every cell erased. -/
def upRow (g : Grid) (top bottom n : Int) (bg : Nat) (j : Nat) : Option Row :=
  if top ≤ (j : Int) ∧ (j : Int) ≤ bottom then
    if (j : Int) + n ≤ bottom then g[((j : Int) + n).toNat]? else (g[j]?).map (eraseRow bg)
  else g[j]?

/-- Row `j` after scrolling rows `top..bottom` of `g` down by `n` (`scrollDown`, `il`). -/
def downRow (g : Grid) (top bottom n : Int) (bg : Nat) (j : Nat) : Option Row :=
  if top ≤ (j : Int) ∧ (j : Int) ≤ bottom then
    if top + n ≤ (j : Int) then g[((j : Int) - n).toNat]? else (g[j]?).map (eraseRow bg)
  else g[j]?

/-- upward loop: rows `< i` are final (`F`), rows `≥ i` still hold the original content -/
theorem up_inv_step {g g1 g2 : Grid} {F : Nat → Option Row} (i : Int) (hi : 0 ≤ i) (X : Option Row)
    (hP : ∀ j : Nat, g1[j]? = if (j : Int) < i then F j else g[j]?)
    (h2 : ∀ j : Nat, g2[j]? = if j = i.toNat then X else g1[j]?)
    (hX : X = F i.toNat) :
    ∀ j : Nat, g2[j]? = if (j : Int) < i + 1 then F j else g[j]? := by
  intro j
  rw [h2, hP]
  by_cases hj : j = i.toNat
  · subst hj
    have : ((i.toNat : Nat) : Int) < i + 1 := by omega
    rw [if_pos rfl, if_pos this, hX]
  · have : (j : Int) < i + 1 ↔ (j : Int) < i := by omega
    simp [hj, this]

/-- downward loop: rows `> i` are final, rows `≤ i` still hold the original content -/
theorem down_inv_step {g g1 g2 : Grid} {F : Nat → Option Row} (i : Int) (hi : 0 ≤ i) (X : Option Row)
    (hP : ∀ j : Nat, g1[j]? = if i < (j : Int) then F j else g[j]?)
    (h2 : ∀ j : Nat, g2[j]? = if j = i.toNat then X else g1[j]?)
    (hX : X = F i.toNat) :
    ∀ j : Nat, g2[j]? = if i - 1 < (j : Int) then F j else g[j]? := by
  intro j
  rw [h2, hP]
  by_cases hj : j = i.toNat
  · subst hj
    have : i - 1 < ((i.toNat : Nat) : Int) := by omega
    rw [if_pos rfl, if_pos this, hX]
  · have : i - 1 < (j : Int) ↔ i < (j : Int) := by omega
    simp [hj, this]

theorem self_step {g1 : Grid} (k : Nat) : ∀ j : Nat, g1[j]? = if j = k then g1[k]? else g1[j]? := by
  intro j; split
  · rename_i h; rw [h]
  · rfl

/-- The loop of `scrollUp` (margins inside the screen, full-width erase). -/
theorem scrollUpLoop_spec {g : Grid} {rows cols : Nat} (h : GridOk g rows cols) (hr : rows ≤ 65535)
    (hc : cols ≤ 65535) (top bottom n : Int) (bg : Nat) (_ : 0 ≤ top) (hb : bottom < rows) (hn : 0 ≤ n) :
    ∃ g', forUp 0 ((rows : Int) - 1) (fun row g =>
        if row > bottom then .ok g
        else if row < top then .ok g
        else if row + n > bottom then eraseCols g row 0 ((cols : Int) - 1) bg
        else copyRow g row (row + n)) g = .ok g' ∧ GridOk g' rows cols ∧
      ∀ j : Nat, g'[j]? = upRow g top bottom n bg j := by
  obtain ⟨g', hg', hok, hrows⟩ := forUp_idx
    (fun (i : Int) (g' : Grid) => GridOk g' rows cols ∧
      ∀ j : Nat, g'[j]? = if (j : Int) < i then upRow g top bottom n bg j else g[j]?)
    (fun row g =>
        if row > bottom then .ok g
        else if row < top then .ok g
        else if row + n > bottom then eraseCols g row 0 ((cols : Int) - 1) bg
        else copyRow g row (row + n)) 0 ((rows : Int) - 1) g (by omega) (by rw [hangLimit_val]; omega)
    ⟨h, fun j => by have : ¬ ((j : Int) < 0) := by omega
                    simp [this]⟩
    (by
      intro i g1 hi0 hi1 ⟨hg1, hP⟩
      have hgi : g1[i.toNat]? = g[i.toNat]? := by
        rw [hP]; have : ¬ ((i.toNat : Int) < i) := by omega
        rw [if_neg this]
      split
      · rename_i hcase
        refine ⟨g1, rfl, hg1, up_inv_step i hi0 _ hP (self_step _) ?_⟩
        rw [hgi]; unfold upRow
        have : ¬ (top ≤ ((i.toNat : Nat) : Int) ∧ ((i.toNat : Nat) : Int) ≤ bottom) := by omega
        rw [if_neg this]
      · split
        · rename_i hcase
          refine ⟨g1, rfl, hg1, up_inv_step i hi0 _ hP (self_step _) ?_⟩
          rw [hgi]; unfold upRow
          have : ¬ (top ≤ ((i.toNat : Nat) : Int) ∧ ((i.toNat : Nat) : Int) ≤ bottom) := by omega
          rw [if_neg this]
        · split
          · rename_i hc1 hc2 hc3
            obtain ⟨g2, h2, hok2, hrow2⟩ := erase_step hg1 i bg hi0 (by omega) hc
            refine ⟨g2, h2, hok2, up_inv_step i hi0 _ hP hrow2 ?_⟩
            rw [hgi]; unfold upRow
            have h1 : (top ≤ ((i.toNat : Nat) : Int) ∧ ((i.toNat : Nat) : Int) ≤ bottom) := by omega
            have h3 : ¬ (((i.toNat : Nat) : Int) + n ≤ bottom) := by omega
            rw [if_pos h1, if_neg h3]
          · rename_i hc1 hc2 hc3
            obtain ⟨g2, h2, hok2, hrow2⟩ := copy_step hg1 i (i + n) hi0 (by omega) (by omega) (by omega)
            refine ⟨g2, h2, hok2, up_inv_step i hi0 _ hP hrow2 ?_⟩
            rw [hP]; unfold upRow
            have h0 : ¬ (((i + n).toNat : Nat) : Int) < i := by omega
            have h1 : (top ≤ ((i.toNat : Nat) : Int) ∧ ((i.toNat : Nat) : Int) ≤ bottom) := by omega
            have h3 : (((i.toNat : Nat) : Int) + n ≤ bottom) := by omega
            have h4 : ((i.toNat : Nat) : Int) = i := by omega
            rw [if_neg h0, if_pos h1, if_pos h3, h4])
  refine ⟨g', hg', hok, ?_⟩
  intro j
  rw [hrows]
  split
  · rfl
  · rename_i hj
    unfold upRow
    have : ¬ (top ≤ (j : Int) ∧ (j : Int) ≤ bottom) := by omega
    simp [this]

/-- The loop of `dl` (the scrolled region starts at `top`, the cursor row). -/
theorem dlLoop_spec {g : Grid} {rows cols : Nat} (h : GridOk g rows cols) (hr : rows ≤ 65535)
    (hc : cols ≤ 65535) (top bottom n : Int) (bg : Nat) (ht : 0 ≤ top) (htb : top ≤ bottom + 1)
    (hb : bottom < rows) (hn : 0 ≤ n) :
    ∃ g', forUp top bottom (fun r g =>
        if r ≤ bottom - n then copyRow g r (r + n)
        else eraseCols g r 0 ((cols : Int) - 1) bg) g = .ok g' ∧ GridOk g' rows cols ∧
      ∀ j : Nat, g'[j]? = upRow g top bottom n bg j := by
  obtain ⟨g', hg', hok, hrows⟩ := forUp_idx
    (fun (i : Int) (g' : Grid) => GridOk g' rows cols ∧
      ∀ j : Nat, g'[j]? = if (j : Int) < i then upRow g top bottom n bg j else g[j]?)
    (fun r g =>
        if r ≤ bottom - n then copyRow g r (r + n)
        else eraseCols g r 0 ((cols : Int) - 1) bg) top bottom g htb (by rw [hangLimit_val]; omega)
    ⟨h, fun j => by
      split
      · rename_i hj
        unfold upRow
        have : ¬ (top ≤ (j : Int) ∧ (j : Int) ≤ bottom) := by omega
        rw [if_neg this]
      · rfl⟩
    (by
      intro i g1 hi0 hi1 ⟨hg1, hP⟩
      have hi : 0 ≤ i := by omega
      have hgi : g1[i.toNat]? = g[i.toNat]? := by
        rw [hP]; have : ¬ ((i.toNat : Int) < i) := by omega
        rw [if_neg this]
      have h1 : (top ≤ ((i.toNat : Nat) : Int) ∧ ((i.toNat : Nat) : Int) ≤ bottom) := by omega
      split
      · rename_i hc3
        obtain ⟨g2, h2, hok2, hrow2⟩ := copy_step hg1 i (i + n) hi (by omega) (by omega) (by omega)
        refine ⟨g2, h2, hok2, up_inv_step i hi _ hP hrow2 ?_⟩
        rw [hP]; unfold upRow
        have h0 : ¬ (((i + n).toNat : Nat) : Int) < i := by omega
        have h3 : (((i.toNat : Nat) : Int) + n ≤ bottom) := by omega
        have h4 : ((i.toNat : Nat) : Int) = i := by omega
        rw [if_neg h0, if_pos h1, if_pos h3, h4]
      · rename_i hc3
        obtain ⟨g2, h2, hok2, hrow2⟩ := erase_step hg1 i bg hi (by omega) hc
        refine ⟨g2, h2, hok2, up_inv_step i hi _ hP hrow2 ?_⟩
        rw [hgi]; unfold upRow
        have h3 : ¬ (((i.toNat : Nat) : Int) + n ≤ bottom) := by omega
        rw [if_pos h1, if_neg h3])
  refine ⟨g', hg', hok, ?_⟩
  intro j
  rw [hrows]
  split
  · rfl
  · rename_i hj
    unfold upRow
    have : ¬ (top ≤ (j : Int) ∧ (j : Int) ≤ bottom) := by omega
    rw [if_neg this]

/-- The loop of `scrollDown`. -/
theorem scrollDownLoop_spec {g : Grid} {rows cols : Nat} (h : GridOk g rows cols) (hr : rows ≤ 65535)
    (hc : cols ≤ 65535) (top bottom n : Int) (bg : Nat) (ht : 0 ≤ top) (htb : top ≤ bottom + 1)
    (hb : bottom < rows) (hn : 0 ≤ n) :
    ∃ g', forDown bottom top (fun r g =>
        if r - n < top then eraseCols g r 0 ((cols : Int) - 1) bg
        else copyRow g r (r - n)) g = .ok g' ∧ GridOk g' rows cols ∧
      ∀ j : Nat, g'[j]? = downRow g top bottom n bg j := by
  obtain ⟨g', hg', hok, hrows⟩ := forDown_idx
    (fun (i : Int) (g' : Grid) => GridOk g' rows cols ∧
      ∀ j : Nat, g'[j]? = if i < (j : Int) then downRow g top bottom n bg j else g[j]?)
    (fun r g =>
        if r - n < top then eraseCols g r 0 ((cols : Int) - 1) bg
        else copyRow g r (r - n)) bottom top g htb (by rw [hangLimit_val]; omega)
    ⟨h, fun j => by
      split
      · rename_i hj
        unfold downRow
        have : ¬ (top ≤ (j : Int) ∧ (j : Int) ≤ bottom) := by omega
        rw [if_neg this]
      · rfl⟩
    (by
      intro i g1 hi0 hi1 ⟨hg1, hP⟩
      have hi : 0 ≤ i := by omega
      have hgi : g1[i.toNat]? = g[i.toNat]? := by
        rw [hP]; have : ¬ (i < (i.toNat : Int)) := by omega
        rw [if_neg this]
      have h1 : (top ≤ ((i.toNat : Nat) : Int) ∧ ((i.toNat : Nat) : Int) ≤ bottom) := by omega
      split
      · rename_i hc3
        obtain ⟨g2, h2, hok2, hrow2⟩ := erase_step hg1 i bg hi (by omega) hc
        refine ⟨g2, h2, hok2, down_inv_step i hi _ hP hrow2 ?_⟩
        rw [hgi]; unfold downRow
        have h3 : ¬ (top + n ≤ ((i.toNat : Nat) : Int)) := by omega
        rw [if_pos h1, if_neg h3]
      · rename_i hc3
        obtain ⟨g2, h2, hok2, hrow2⟩ := copy_step hg1 i (i - n) hi (by omega) (by omega) (by omega)
        refine ⟨g2, h2, hok2, down_inv_step i hi _ hP hrow2 ?_⟩
        rw [hP]; unfold downRow
        have h0 : ¬ i < (((i - n).toNat : Nat) : Int) := by omega
        have h3 : (top + n ≤ ((i.toNat : Nat) : Int)) := by omega
        have h4 : ((i.toNat : Nat) : Int) = i := by omega
        rw [if_neg h0, if_pos h1, if_pos h3, h4])
  refine ⟨g', hg', hok, ?_⟩
  intro j
  rw [hrows]
  split
  · rfl
  · rename_i hj
    unfold downRow
    have : ¬ (top ≤ (j : Int) ∧ (j : Int) ≤ bottom) := by omega
    rw [if_neg this]

/-- The two loops of `il`: shift down from the bottom margin, then erase the vacated rows. -/
theorem ilLoop_spec {g : Grid} {rows cols : Nat} (h : GridOk g rows cols) (hr : rows ≤ 65535)
    (hc : cols ≤ 65535) (top bottom n : Int) (bg : Nat) (ht : 0 ≤ top)
    (hb : bottom < rows) (hn : 0 ≤ n) (hnb : top + n ≤ bottom + 1) :
    ∃ g1 g', forDown bottom (top + n) (fun r g => copyRow g r (r - n)) g = .ok g1 ∧
      forUp 0 (n - 1) (fun r g => eraseCols g (top + r) 0 ((cols : Int) - 1) bg) g1 = .ok g' ∧
      GridOk g' rows cols ∧ ∀ j : Nat, g'[j]? = downRow g top bottom n bg j := by
  obtain ⟨g1, hg1, hok1, hrows1⟩ := forDown_idx
    (fun (i : Int) (g' : Grid) => GridOk g' rows cols ∧
      ∀ j : Nat, g'[j]? = if i < (j : Int) then downRow g top bottom n bg j else g[j]?)
    (fun r g => copyRow g r (r - n)) bottom (top + n) g hnb (by rw [hangLimit_val]; omega)
    ⟨h, fun j => by
      split
      · rename_i hj
        unfold downRow
        have : ¬ (top ≤ (j : Int) ∧ (j : Int) ≤ bottom) := by omega
        rw [if_neg this]
      · rfl⟩
    (by
      intro i g1 hi0 hi1 ⟨hg1, hP⟩
      have hi : 0 ≤ i := by omega
      have h1 : (top ≤ ((i.toNat : Nat) : Int) ∧ ((i.toNat : Nat) : Int) ≤ bottom) := by omega
      obtain ⟨g2, h2, hok2, hrow2⟩ := copy_step hg1 i (i - n) hi (by omega) (by omega) (by omega)
      refine ⟨g2, h2, hok2, down_inv_step i hi _ hP hrow2 ?_⟩
      rw [hP]; unfold downRow
      have h0 : ¬ i < (((i - n).toNat : Nat) : Int) := by omega
      have h3 : (top + n ≤ ((i.toNat : Nat) : Int)) := by omega
      have h4 : ((i.toNat : Nat) : Int) = i := by omega
      rw [if_neg h0, if_pos h1, if_pos h3, h4])
  obtain ⟨g', hg', hok, hrows⟩ := forUp_idx
    (fun (r : Int) (g' : Grid) => GridOk g' rows cols ∧
      ∀ j : Nat, g'[j]? = if top + r ≤ (j : Int) ∧ (j : Int) < top + n then g[j]?
        else downRow g top bottom n bg j)
    (fun r g => eraseCols g (top + r) 0 ((cols : Int) - 1) bg) 0 (n - 1) g1 (by omega)
    (by rw [hangLimit_val]; omega)
    ⟨hok1, fun j => by
      rw [hrows1]
      by_cases hj : top + n - 1 < (j : Int)
      · have : ¬ (top + 0 ≤ (j : Int) ∧ (j : Int) < top + n) := by omega
        rw [if_pos hj, if_neg this]
      · rw [if_neg hj]
        split
        · rfl
        · rename_i hj2
          unfold downRow
          have : ¬ (top ≤ (j : Int) ∧ (j : Int) ≤ bottom) := by omega
          rw [if_neg this]⟩
    (by
      intro r g2 hr0 hr1 ⟨hg2, hQ⟩
      obtain ⟨g3, h3, hok3, hrow3⟩ := erase_step hg2 (top + r) bg (by omega) (by omega) hc
      refine ⟨g3, h3, hok3, ?_⟩
      intro j
      rw [hrow3]
      by_cases hj : j = (top + r).toNat
      · subst hj
        rw [if_pos rfl, hQ]
        have h1 : top + r ≤ (((top + r).toNat : Nat) : Int) ∧ (((top + r).toNat : Nat) : Int) < top + n := by omega
        have h2 : ¬ (top + (r + 1) ≤ (((top + r).toNat : Nat) : Int) ∧ (((top + r).toNat : Nat) : Int) < top + n) := by omega
        rw [if_pos h1, if_neg h2]
        unfold downRow
        have h4 : top ≤ (((top + r).toNat : Nat) : Int) ∧ (((top + r).toNat : Nat) : Int) ≤ bottom := by omega
        have h5 : ¬ (top + n ≤ (((top + r).toNat : Nat) : Int)) := by omega
        rw [if_pos h4, if_neg h5]
      · rw [if_neg hj, hQ]
        have : (top + (r + 1) ≤ (j : Int) ∧ (j : Int) < top + n) ↔ (top + r ≤ (j : Int) ∧ (j : Int) < top + n) := by omega
        simp only [this])
  refine ⟨g1, g', hg1, hg', hok, ?_⟩
  intro j
  rw [hrows]
  have : ¬ (top + (n - 1 + 1) ≤ (j : Int) ∧ (j : Int) < top + n) := by omega
  rw [if_neg this]

end VaxisModel.Lemmas.EmuRefine
